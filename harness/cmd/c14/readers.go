// READER ISOLATION (C14): `Get` returns a ReadObjectCloser; what it yields must be a function of
// the map AT GET TIME, whatever is written afterwards.
//
//   - memory bucket: the reader is a snapshot.  The bytes read after an overwrite / delete /
//     DeleteAll of the object, and after any number of unrelated puts (same bucket, other memory
//     buckets, puts still in flight), are exactly the content the object had when Get returned
//     (storagemem documents it: "that reader will continue to read the original file").
//     Seed C15-m10 recycles the backing array of a REPLACED object through a sync.Pool; the next
//     writer of ANY path in ANY memory bucket scribbles over the array an open reader still reads.
//   - disk bucket, as coded = as POSIX dictates for an open file descriptor: an atomic put
//     (rename), Delete and DeleteAll (unlink) leave the reader on the old inode → old content in
//     full; a NON-atomic put truncates and rewrites the same inode (os.Create = O_TRUNC) → the
//     reader continues at its offset in the NEW content (nothing if the new content is shorter).
//     Both are modelled (lean/BufModel/Reader.lean) and judged by the oracle; neither alarms on the
//     unchanged tree.
//
// Ops (hist2 protocol): `O:<base>:<hex path>:<n>` = Get on the base + read n bytes (result
// "ok:<bytes>"), `F:<handle>` = read the rest and Close (result "ok:<rest>"); in this family an
// atomic put is encoded `P` (the model must know which puts replace the inode).  Every reader on a
// base is accompanied (all-memory cases) by a SHADOW reader opened through the composite on a
// random visible path: oracle only, must yield the content it had at open time.
//
//   - runReaderSweep (--only 6000000+i): scripted: backend x interference x bytes read before.
//   - runReaders (--only 7000000+i): random histories (mix "rd"): puts, opens, overwrites of the
//     very object an open reader holds followed by unrelated puts, deletes, in-flight atomic puts,
//     finishes; every open reader is finished at the end.
//   - runReaderConcurrent: readers in goroutines read in small pieces while a writer keeps
//     replacing the object with one of two contents and putting other paths (also into another
//     memory bucket): every read returns one of the two contents IN FULL (memory; disk with atomic
//     puts).  Oracle only.
package main

import (
	"bytes"
	"fmt"
	"io"
	"os"
	"path/filepath"
	"runtime"
	"strconv"
	"strings"
	"sync"
	"sync/atomic"

	"github.com/bufbuild/buf/private/pkg/normalpath"
	"github.com/bufbuild/buf/private/pkg/storage"
	"github.com/bufbuild/buf/private/pkg/storage/storagemem"
	"github.com/bufbuild/buf/private/pkg/storage/storageos"
	"github.com/bufbuild/verifharness/internal/bk"
	"github.com/bufbuild/verifharness/internal/hx"
)

const (
	readerSweepBase = 6000000
	readerRandBase  = 7000000
)

type shadowReader struct {
	path string
	r    storage.ReadObjectCloser
	got  string
	snap string
}

type rhandle struct {
	id, base int
	key      string // normalized path
	isDisk   bool
	r        storage.ReadObjectCloser
	got      string // the bytes read right after the open
	snap     string // memory: content at Get time; disk, detached: content of the inode when it was replaced
	attached bool   // disk: still the file at key (a non-atomic put writes through)
	unknown  bool   // content not tracked by the reference map (temp file of an in-flight put)
	done     bool
	shadow   *shadowReader
}

func (h *rhandle) close() {
	if !h.done {
		h.r.Close()
		h.done = true
	}
	if h.shadow != nil && h.shadow.r != nil {
		h.shadow.r.Close()
		h.shadow.r = nil
	}
}

func readSome(r io.Reader, n int) string {
	buf := make([]byte, n)
	k, _ := io.ReadFull(r, buf)
	return string(buf[:k])
}

func openReader(run *hx.Run, b storage.ReadBucket, isDisk bool, o op, refBase map[string]string) (string, *rhandle) {
	r, err := b.Get(ctx, o.path)
	if err != nil {
		return bk.ErrClass(err), nil
	}
	n, _ := normalpath.NormalizeAndValidate(o.path)
	h := &rhandle{base: o.base, key: n, isDisk: isDisk, r: r, attached: isDisk}
	h.got = readSome(r, o.n)
	var ok bool
	if h.snap, ok = refBase[n]; !ok {
		h.unknown = true
	}
	if isDisk {
		run.Count("readers:opened:disk")
	} else {
		run.Count("readers:opened:memory")
	}
	return "ok:" + h.got, h
}

// openShadow opens a reader THROUGH the composite (all-memory cases only) on a random visible path.
func openShadow(r *hx.Rand, comp storage.ReadBucket, anyDisk bool, n int) *shadowReader {
	if anyDisk {
		return nil
	}
	kvs, err := bk.WalkAll(ctx, comp, "")
	if err != nil || len(kvs) == 0 {
		return nil
	}
	kv := kvs[r.Intn(len(kvs))]
	rd, err := comp.Get(ctx, kv.K)
	if err != nil {
		return nil
	}
	return &shadowReader{path: kv.K, r: rd, got: readSome(rd, n), snap: kv.V}
}

// detachReaders: a write replaced / unlinked the inode of the selected paths of a DISK base; the
// open readers keep the content the file had at that moment.  (Memory readers are snapshots from
// the start.)  Called BEFORE the reference map is updated.
func detachReaders(handles []*rhandle, disk []bool, ref []map[string]string, base int, sel func(string) bool) {
	for _, h := range handles {
		if h.done || h.base != base || !h.isDisk || !h.attached || !sel(h.key) {
			continue
		}
		h.attached = false
		var ok bool
		if h.snap, ok = ref[base][h.key]; !ok {
			h.unknown = true
		}
	}
}

func tail(s string, n int) string {
	if n >= len(s) {
		return ""
	}
	return s[n:]
}

func printable(s string) string {
	for _, c := range []byte(s) {
		if c < 0x21 || c > 0x7e || strings.ContainsRune(";|:,=", rune(c)) {
			return "hex-" + hx.Enc(s)
		}
	}
	return s
}

func finishReader(run *hx.Run, h *rhandle, ref []map[string]string, fail func(class, what string)) string {
	data, err := io.ReadAll(h.r)
	h.r.Close()
	h.done = true
	rest := string(data)
	if err != nil {
		return "err:read"
	}
	run.Eval()
	if !h.unknown {
		switch {
		case !h.isDisk:
			if want := tail(h.snap, len(h.got)); rest != want {
				fail("reader-not-isolated-from-later-writes", fmt.Sprintf("memory bucket base%d: a reader opened on %q when it held %q read %q, then (after later writes) %q: the bytes are not the content at Get time (want %q)", h.base, h.key, h.snap, h.got, rest, want))
			}
			run.Count("readers:finished:memory")
		case !h.attached:
			if want := tail(h.snap, len(h.got)); rest != want {
				fail("disk-reader-differs-from-open-file-semantics", fmt.Sprintf("disk bucket base%d: a reader opened on %q read %q; the file was then replaced by rename / unlinked while it held %q; the reader then read %q, an open descriptor yields %q", h.base, h.key, h.got, h.snap, rest, want))
			}
			run.Count("readers:finished:disk-old-inode")
		default:
			if want := tail(ref[h.base][h.key], len(h.got)); rest != want {
				fail("disk-reader-differs-from-open-file-semantics", fmt.Sprintf("disk bucket base%d: a reader opened on %q read %q; the file now holds %q (only non-atomic puts since); the reader then read %q, an open descriptor yields %q", h.base, h.key, h.got, ref[h.base][h.key], rest, want))
			}
			run.Count("readers:finished:disk-same-inode")
		}
	}
	if s := h.shadow; s != nil && s.r != nil {
		sd, serr := io.ReadAll(s.r)
		s.r.Close()
		s.r = nil
		run.Eval()
		run.Count("readers:finished:shadow-through-composite")
		if serr != nil || s.got+string(sd) != s.snap {
			fail("reader-not-isolated-from-later-writes", fmt.Sprintf("a reader opened THROUGH the composite (all bases in memory) on %q when it held %q read %q and, after later writes, %q (error %v)", s.path, s.snap, s.got, string(sd), serr))
		}
	}
	return "ok:" + printable(rest)
}

func firstOpen(handles []*rhandle) int {
	for i, h := range handles {
		if !h.done {
			return i
		}
	}
	return -1
}

func rdContent(r *hx.Rand, i int) string {
	if r.Chance(1, 10) {
		return "-"
	}
	return "R" + strconv.Itoa(i) + strings.Repeat("z", r.Intn(4)*r.Intn(8))
}

func genReaderOp(r *hx.Rand, nb, i int, readsOnly bool, handles []*rhandle, ref []map[string]string) op {
	k := r.Intn(20)
	if readsOnly {
		k = 15 + r.Intn(2)
	}
	open := -1
	var opens []int
	for j, h := range handles {
		if !h.done {
			opens = append(opens, j)
		}
	}
	if len(opens) > 0 {
		open = opens[r.Intn(len(opens))]
	}
	put := func(base int, path string) op {
		o := op{kind: 'p', base: base, path: path, content: rdContent(r, i), how: "plain", encP: true}
		if r.Chance(1, 3) {
			o.how = "atomic"
		}
		return o
	}
	switch {
	case !readsOnly && i < 3, k < 4:
		return put(r.Intn(nb), spell(r, hx.Pick(r, pool)))
	case k < 8:
		o := op{kind: 'O', base: r.Intn(nb), path: spell(r, hx.Pick(r, pool)), n: hx.Pick(r, []int{0, 0, 1, 2, 3, 100})}
		if ks := keys(ref[o.base]); len(ks) > 0 && r.Chance(3, 4) {
			o.path = spell(r, ks[r.Intn(len(ks))])
		}
		return o
	case k < 11:
		if open < 0 {
			return put(r.Intn(nb), spell(r, hx.Pick(r, pool)))
		}
		return op{kind: 'F', n: open}
	case k < 14:
		// overwrite the very object an open reader holds
		if open < 0 {
			return put(r.Intn(nb), spell(r, hx.Pick(r, pool)))
		}
		return put(handles[open].base, handles[open].key)
	case k == 14:
		if open >= 0 && r.Bool() {
			return op{kind: 'd', base: handles[open].base, path: handles[open].key}
		}
		return op{kind: 'd', base: r.Intn(nb), path: spell(r, hx.Pick(r, pool))}
	case k == 15:
		o := op{kind: 'g', path: spell(r, pickView(r))}
		if r.Bool() {
			o.kind = 's'
		}
		return o
	case k == 16:
		return op{kind: 'w', path: spell(r, hx.Pick(r, append(append([]string{}, dirs...), pool...)))}
	case k == 17:
		return op{kind: 'D', base: r.Intn(nb), path: spell(r, hx.Pick(r, dirs))}
	default:
		// an unrelated put, preferably into ANOTHER bucket
		b := r.Intn(nb)
		if open >= 0 && nb > 1 && r.Chance(2, 3) {
			b = (handles[open].base + 1 + r.Intn(nb-1)) % nb
		}
		return put(b, spell(r, hx.Pick(r, pool)))
	}
}

func runReaders(run *hx.Run, i int, r *hx.Rand, tmpRoot string) {
	run.Count("readers:random-case")
	// every third case: all bases in memory (shadow readers through the composite)
	cfg := caseCfg{diskNum: 1, diskDen: 3, onlyIdx: readerRandBase + i, tag: "o", mix: "rd"}
	if i%3 == 0 {
		cfg.diskNum = 0
	}
	runCaseCfg(run, i, r, tmpRoot, cfg)
}

var rdBackends = []string{"mem", "disk"}
var rdInterference = []string{
	"overwrite-plain-longer", "overwrite-plain-shorter", "overwrite-plain-empty", "overwrite-atomic-longer", "overwrite-atomic-shorter",
	"delete", "deleteall-parent", "deleteall-root", "delete-then-put",
	"overwrite-then-put-other-path", "overwrite-then-put-other-bucket", "overwrite-then-inflight-put", "overwrite-twice",
	"atomic-then-plain", "none",
}
var rdReadBefore = []int{0, 1, 5}

func readerSweepCount() int { return len(rdBackends) * len(rdInterference) * len(rdReadBefore) }

func runReaderSweep(run *hx.Run, i int, r *hx.Rand, tmpRoot string) {
	backend := rdBackends[i%len(rdBackends)]
	interf := rdInterference[(i/len(rdBackends))%len(rdInterference)]
	nread := rdReadBefore[(i/(len(rdBackends)*len(rdInterference)))%len(rdReadBefore)]
	const (
		old     = "old-content-0123456789"
		longer  = "NEWNEWNEW-abcdefghijklmnopqrstuvwxyz"
		shorter = "new"
		other   = "OTHEROTHEROTHEROTHER-other"
	)
	p := func(path, c, how string) op {
		return op{kind: 'p', base: 0, path: path, content: c, how: how, encP: true}
	}
	var mid []op
	switch interf {
	case "overwrite-plain-longer":
		mid = []op{p("d/a", longer, "plain")}
	case "overwrite-plain-shorter":
		mid = []op{p("d/a", shorter, "plain")}
	case "overwrite-plain-empty":
		mid = []op{p("d/a", "-", "plain")}
	case "overwrite-atomic-longer":
		mid = []op{p("d/a", longer, "atomic")}
	case "overwrite-atomic-shorter":
		mid = []op{p("d/a", shorter, "atomic")}
	case "delete":
		mid = []op{{kind: 'd', base: 0, path: "d/a"}}
	case "deleteall-parent":
		mid = []op{{kind: 'D', base: 0, path: "d"}}
	case "deleteall-root":
		mid = []op{{kind: 'D', base: 0, path: ""}}
	case "delete-then-put":
		mid = []op{{kind: 'd', base: 0, path: "d/a"}, p("d/a", longer, "plain")}
	case "overwrite-then-put-other-path":
		mid = []op{p("d/a", shorter, "plain"), p("e/b", other, "plain")}
	case "overwrite-then-put-other-bucket":
		o := p("e/b", other, "plain")
		o.base = 1
		mid = []op{p("d/a", shorter, "atomic"), o}
	case "overwrite-then-inflight-put":
		mid = []op{p("d/a", shorter, "plain"), {kind: 'T', base: 1, path: "e/c", content: other, how: "atomic-open"}}
	case "overwrite-twice":
		mid = []op{p("d/a", shorter, "plain"), p("d/a", longer, "plain")}
	case "atomic-then-plain":
		mid = []op{p("d/a", shorter, "atomic"), p("d/a", longer, "plain")}
	}
	script := []op{p("d/a", old, "plain"), p("d/z", "zz", "plain"), {kind: 'O', base: 0, path: "d/a", n: nread}}
	script = append(script, mid...)
	script = append(script, op{kind: 'F', n: 0}, op{kind: 'g', path: "d/a"}, op{kind: 'w', path: ""})
	v := &vocab{pool: []string{"d/a", "d/z", "e/b", "e/c"}, dirs: []string{"d", "e", ".", ""}, prefixes: []string{"d"}}
	run.Count("readers:sweep:" + backend)
	runCaseCfg(run, i, r, tmpRoot, caseCfg{vocab: v, forceDisk: []bool{backend == "disk", false}, forceExpr: &expr{kind: "b", base: 0}, script: script, onlyIdx: readerSweepBase + i, tag: "q"})
}

// runReaderConcurrent: oracle only.
func runReaderConcurrent(run *hx.Run, idx int, r *hx.Rand, tmpRoot string) {
	isDisk := idx%3 == 2
	var bucket storage.ReadWriteBucket = storagemem.NewReadWriteBucket()
	otherBucket := storagemem.NewReadWriteBucket()
	var putOpts []storage.PutOption
	if isDisk {
		d := filepath.Join(tmpRoot, "conc"+strconv.Itoa(idx))
		must(os.MkdirAll(d, 0o755))
		defer os.RemoveAll(d)
		b, err := storageos.NewProvider().NewReadWriteBucket(d)
		must(err)
		bucket = b
		putOpts = append(putOpts, storage.PutWithAtomic())
	}
	contentA := bytes.Repeat([]byte("A"), 1500+r.Intn(3000))
	contentB := bytes.Repeat([]byte("B"), 500+r.Intn(3000))
	filler := bytes.Repeat([]byte("Z"), 64+r.Intn(4000))
	must(bk.PutString(ctx, bucket, "x", string(contentA), putOpts...))
	piece := 64 << uint(r.Intn(4))
	rounds := 120
	nReaders := 3
	var stop atomic.Bool
	var torn atomic.Value
	var reads atomic.Int64
	var wg sync.WaitGroup
	for k := 0; k < nReaders; k++ {
		wg.Add(1)
		go func() {
			defer wg.Done()
			for !stop.Load() {
				rd, err := bucket.Get(ctx, "x")
				if err != nil {
					torn.CompareAndSwap(nil, fmt.Sprintf("Get failed: %v", err))
					return
				}
				var data []byte
				buf := make([]byte, piece)
				for {
					n, err := rd.Read(buf)
					data = append(data, buf[:n]...)
					if err != nil {
						break
					}
					runtime.Gosched()
				}
				rd.Close()
				reads.Add(1)
				if !bytes.Equal(data, contentA) && !bytes.Equal(data, contentB) {
					torn.CompareAndSwap(nil, fmt.Sprintf("%d bytes: %d x 'A', %d x 'B', %d x 'Z'", len(data), bytes.Count(data, []byte("A")), bytes.Count(data, []byte("B")), bytes.Count(data, []byte("Z"))))
					return
				}
			}
		}()
	}
	for i := 0; i < rounds && torn.Load() == nil; i++ {
		c := contentA
		if i%2 == 1 {
			c = contentB
		}
		must(bk.PutString(ctx, bucket, "x", string(c), putOpts...))
		must(bk.PutString(ctx, bucket, "other/"+strconv.Itoa(i%5), string(filler), putOpts...))
		must(bk.PutString(ctx, otherBucket, "o/"+strconv.Itoa(i%3), string(filler)))
		runtime.Gosched()
	}
	stop.Store(true)
	wg.Wait()
	run.CountN("_oracle_only_evaluations", int(reads.Load()))
	kind := "memory"
	if isDisk {
		kind = "disk-atomic"
	}
	run.Count("readers:concurrent-round:" + kind)
	if t := torn.Load(); t != nil {
		run.Fail(hx.OracleFailure{Class: "concurrent-reader-sees-torn-content",
			What:   fmt.Sprintf("%s bucket: while a writer alternates %d x 'A' and %d x 'B' at \"x\" (and puts %d x 'Z' at other paths, also into another memory bucket), a concurrent reader reading in %d-byte pieces got neither content in full: %v", kind, len(contentA), len(contentB), len(filler), piece, t),
			Input:  map[string]any{"bucket": kind, "round": idx, "len_a": len(contentA), "len_b": len(contentB), "len_filler": len(filler), "piece": piece},
			Replay: fmt.Sprintf("build/c14 --out /tmp/c14-replay --seed %d --tier %s (concurrent reader round %d)", run.Seed, run.Tier, idx)})
	}
}
