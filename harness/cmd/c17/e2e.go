package main

import (
	"bytes"
	"fmt"
	"io"
	"os"
	"path/filepath"
	"sort"
	"strings"

	"github.com/bufbuild/buf/private/buf/bufgen"
	"github.com/bufbuild/buf/private/bufpkg/bufconfig"
	"github.com/bufbuild/buf/private/bufpkg/bufimage"
	"github.com/bufbuild/buf/private/pkg/app"
	"github.com/bufbuild/buf/private/pkg/storage/storageos"
	"github.com/bufbuild/verifharness/internal/hx"
	"google.golang.org/protobuf/proto"
	"google.golang.org/protobuf/types/pluginpb"
)

// pluginMain: this binary re-executed by bufgen as a protoc plugin ("--as-plugin").
// parameter = <recdir>|<script file>: every request is recorded into recdir; the scripted
// response (a serialized CodeGeneratorResponse) is returned by the request whose
// file_to_generate holds the trigger path stored next to the script, an empty one otherwise.
func pluginMain() {
	in, err := io.ReadAll(os.Stdin)
	if err != nil {
		os.Exit(3)
	}
	req := &pluginpb.CodeGeneratorRequest{}
	if err := proto.Unmarshal(in, req); err != nil {
		os.Exit(3)
	}
	parts := strings.SplitN(req.GetParameter(), "|", 2)
	resp := &pluginpb.CodeGeneratorResponse{}
	if len(parts) == 2 && parts[0] == "full" {
		os.Stdout.Write(fullPluginAnswer(req, parts[1]))
		return
	}
	if len(parts) == 2 {
		f, err := os.CreateTemp(parts[0], "req-*.bin")
		if err == nil {
			f.Write(in)
			f.Close()
		}
		trigger, _ := os.ReadFile(parts[1] + ".trigger")
		for _, g := range req.GetFileToGenerate() {
			if g == string(trigger) {
				b, err := os.ReadFile(parts[1])
				if err == nil {
					_ = proto.Unmarshal(b, resp)
				}
			}
		}
	}
	out, _ := proto.Marshal(resp)
	os.Stdout.Write(out)
}

// sectionC drives the whole bufgen.Generator (execPlugins -> ImageByDir /
// ImagesToCodeGeneratorRequests -> bufprotopluginexec binary handler -> validateResponses ->
// response writer -> flush) with this binary as every plugin.  Oracle only.
func sectionC(run *hx.Run, r *hx.Rand) {
	exe, err := os.Executable()
	if err != nil {
		panic(err)
	}
	root := filepath.Join(run.OutDir, "fs")
	cwd, _ := filepath.Abs(filepath.Join(root, "w"))
	scratch, _ := filepath.Abs(filepath.Join(run.OutDir, "e2e"))
	prev, _ := os.Getwd()
	defer os.Chdir(prev)
	n := run.N(40, 600)
	for i := 0; i < n; i++ {
		cr := r.Fork(uint64(i))
		var img []mfile
		for {
			img = genImage(cr, run)
			ok := false
			for _, f := range img {
				ok = ok || !f.isImport
			}
			byPath := map[string]mfile{}
			for _, f := range img {
				byPath[f.path] = f
			}
			if ok && isAcyclic(img, byPath) {
				break
			}
		}
		rc := genRespCase(cr, cwd)
		benign := i < run.N(12, 120)
		if benign {
			// the first runs succeed by construction (2-4 plugins, one harmless file each, own out
			// directories), so that what every plugin was SENT is judged: one of them has a type filter
			rc = respCase{cwd: cwd}
			np := 2 + cr.Intn(3)
			for pi := 0; pi < np; pi++ {
				rc.plugs = append(rc.plugs, plug{out: []string{"gen", "gen2", "other", "new/deep/out"}[pi],
					files: []rfile{{name: fmt.Sprintf("u%d.txt", pi), content: "x\n"}}})
			}
		}
		// names protoplugin's lenient validation rejects outright would only test that library
		for pi := range rc.plugs {
			var keep []rfile
			for _, f := range rc.plugs[pi].files {
				if f.name != "" {
					keep = append(keep, f)
				}
			}
			rc.plugs[pi].files = keep
		}
		cfgs := make([]pcfg, len(rc.plugs))
		for pi := range cfgs {
			cfgs[pi] = pcfg{all: cr.Bool(), ii: cr.Bool(), iw: cr.Bool()}
			cfgs[pi].iw = cfgs[pi].iw && cfgs[pi].ii // the config rejects include_wkt without include_imports
		}
		// one plugin in three runs has a type filter of its own (`types:` naming the message of the
		// trigger file): the OTHER plugins must still be sent every target exactly once
		filterOn := -1
		if len(rc.plugs) >= 2 && (benign || cr.Chance(1, 3)) {
			filterOn = cr.Intn(len(rc.plugs))
			run.Count("C:one-plugin-with-type-filter")
		}
		runE2E(run, exe, scratch, img, rc, cfgs, i, filterOn)
		run.Eval()
		run.Count("C:cases")
	}
}

func runE2E(run *hx.Run, exe, scratch string, img []mfile, rc respCase, cfgs []pcfg, idx int, filterOn int) {
	desc := map[string]any{"image": describe(img), "case": idx}
	var ps []string
	for i, p := range rc.plugs {
		flt := ""
		if i == filterOn {
			flt = " types=[message of the first target]"
		}
		ps = append(ps, fmt.Sprintf("plugin%d out=%q cfg=%s%s", i, p.out, cfgs[i].enc(), flt))
		for _, f := range p.files {
			ps = append(ps, "  "+f.String())
		}
	}
	desc["plugins"] = ps
	fail := func(class, what string) {
		run.Fail(hx.OracleFailure{Class: class, What: "[whole generator] " + what, Input: desc,
			Replay: fmt.Sprintf("build/c17 --seed %d --tier %s --out /tmp/c17-replay   (section C case %d)", run.Seed, run.Tier, idx)})
	}
	image, orig, err := buildImage(img)
	if err != nil {
		return
	}
	_ = os.RemoveAll(scratch)
	var targets []string
	for _, f := range img {
		if !f.isImport {
			targets = append(targets, f.path)
		}
	}
	sort.Strings(targets)
	var pluginConfigs []bufconfig.GeneratePluginConfig
	recDirs := make([]string, len(rc.plugs))
	for i, p := range rc.plugs {
		recDirs[i] = filepath.Join(scratch, fmt.Sprintf("rec%d", i))
		if err := os.MkdirAll(recDirs[i], 0o755); err != nil {
			panic(err)
		}
		script := filepath.Join(scratch, fmt.Sprintf("script%d.bin", i))
		b, _ := proto.Marshal(toResponse(p))
		os.WriteFile(script, b, 0o644)
		os.WriteFile(script+".trigger", []byte(targets[0]), 0o644)
		strategy := bufconfig.GenerateStrategyDirectory
		if cfgs[i].all {
			strategy = bufconfig.GenerateStrategyAll
		}
		var types []string
		if i == filterOn {
			for fi, f := range img {
				if f.path == targets[0] {
					types = []string{fmt.Sprintf("p%d.M%d", fi, fi)} // buildImage: file i holds message p<i>.M<i>
				}
			}
		}
		pc, err := bufconfig.NewLocalGeneratePluginConfig(fmt.Sprintf("verif%d", i), p.out, []string{recDirs[i] + "|" + script},
			cfgs[i].ii, cfgs[i].iw, types, nil, &strategy, []string{exe, "--as-plugin"})
		if err != nil {
			panic(err)
		}
		pluginConfigs = append(pluginConfigs, pc)
	}
	genConfig, err := bufconfig.NewGenerateConfig(false, pluginConfigs, bufconfig.NewGenerateManagedConfig(false, nil, nil), nil)
	if err != nil {
		panic(err)
	}
	root := filepath.Dir(rc.cwd)
	os.MkdirAll(rc.cwd, 0o755)
	if err := os.Chdir(rc.cwd); err != nil {
		panic(err)
	}
	treeClean = false
	resetTree(root)
	before := snapshot(root)
	var stderr bytes.Buffer
	container := app.NewContainer(map[string]string{"PATH": os.Getenv("PATH")}, nil, io.Discard, &stderr)
	var gerr error
	func() {
		defer func() {
			if p := recover(); p != nil {
				fail("C17-panic-generator", fmt.Sprint("panic: ", p))
				gerr = fmt.Errorf("panic")
			}
		}()
		gerr = bufgen.NewGenerator(nopLogger, storageos.NewProvider(storageos.ProviderWithSymlinks()), nil).
			Generate(ctx, container, genConfig, []bufimage.Image{image})
	}()
	after := snapshot(root)
	if gerr != nil {
		run.Count("C:error")
	} else {
		run.Count("C:ok")
	}
	// request side: what each plugin process really received
	for i := range rc.plugs {
		ents, _ := os.ReadDir(recDirs[i])
		var reqs []*pluginpb.CodeGeneratorRequest
		for _, e := range ents {
			b, err := os.ReadFile(filepath.Join(recDirs[i], e.Name()))
			if err != nil {
				continue
			}
			rq := &pluginpb.CodeGeneratorRequest{}
			// the option extensions are dynamic types: resolve them explicitly
			if (proto.UnmarshalOptions{Resolver: extTypes()}).Unmarshal(b, rq) == nil {
				reqs = append(reqs, rq)
			}
		}
		if gerr != nil && len(reqs) == 0 {
			continue // cancelled before this plugin ran
		}
		if gerr == nil || len(reqs) > 0 {
			// with cancel-on-failure a failing run may have recorded only part of the requests
			if gerr != nil || i == filterOn {
				continue // the filtered plugin's requests are C12's subject (section G there)
			}
			oracleRequests(img, cfgs[i], reqs, orig, func(class, what string) { fail(class, fmt.Sprintf("plugin%d: %s", i, what)) })
			run.CountN("C:requests-recorded", len(reqs))
		}
	}
	// response side: judge what reached buf, i.e. after protoplugin's lenient response
	// validation (a library): names are cleaned, and a plain file whose name was already used
	// by an earlier file of the same response (plain or insertion point) is dropped.
	eff := respCase{cwd: rc.cwd}
	for _, p := range rc.plugs {
		q := plug{out: p.out}
		seen := map[string]bool{}
		for _, f := range p.files {
			f.name = filepath.ToSlash(filepath.Clean(f.name))
			if seen[f.name] && f.ip == "" {
				continue
			}
			seen[f.name] = true
			q.files = append(q.files, f)
		}
		eff.plugs = append(eff.plugs, q)
	}
	oracleDisk(eff, gerr, before, after, fail, true)
	if filterOn < 0 {
		oraclePlainRun(eff, gerr, before, fail)
	}
}
