package main

import (
	"hash/fnv"
	"bytes"
	"context"
	"errors"
	"fmt"
	"io"
	"log/slog"
	"sort"
	"strings"
	"sync"

	"github.com/bufbuild/buf/private/bufpkg/bufimage"
	"github.com/bufbuild/buf/private/bufpkg/bufprotoplugin"
	"github.com/bufbuild/buf/private/pkg/app"
	"github.com/bufbuild/protoplugin"
	"github.com/bufbuild/protoplugin/protopluginutil"
	"github.com/bufbuild/verifharness/internal/hx"
	"github.com/google/uuid"
	"google.golang.org/protobuf/proto"
	"google.golang.org/protobuf/reflect/protodesc"
	"google.golang.org/protobuf/reflect/protoreflect"
	"google.golang.org/protobuf/reflect/protoregistry"
	"google.golang.org/protobuf/types/descriptorpb"
	"google.golang.org/protobuf/types/dynamicpb"
	"google.golang.org/protobuf/types/pluginpb"
)

var ctx = context.Background()
var nopLogger = slog.New(slog.NewTextHandler(io.Discard, nil))

// The well-known-type paths, written down independently of datawkt.Exists.
var wktPaths = map[string]bool{
	"google/protobuf/any.proto": true, "google/protobuf/api.proto": true, "google/protobuf/compiler/plugin.proto": true,
	"google/protobuf/cpp_features.proto": true, "google/protobuf/descriptor.proto": true, "google/protobuf/duration.proto": true,
	"google/protobuf/empty.proto": true, "google/protobuf/field_mask.proto": true, "google/protobuf/go_features.proto": true,
	"google/protobuf/java_features.proto": true, "google/protobuf/source_context.proto": true, "google/protobuf/struct.proto": true,
	"google/protobuf/timestamp.proto": true, "google/protobuf/type.proto": true, "google/protobuf/wrappers.proto": true,
}

// mfile is one file of a generated image.
type mfile struct {
	path     string
	isImport bool
	deps     []string
}

type pcfg struct {
	all, ii, iw bool
}

func (c pcfg) enc() string {
	b := []byte("d00")
	if c.all {
		b[0] = 'a'
	}
	if c.ii {
		b[1] = '1'
	}
	if c.iw {
		b[2] = '1'
	}
	return string(b)
}

func encFiles(img []mfile) string {
	parts := make([]string, len(img))
	for i, f := range img {
		imp, w := "N", "-"
		if f.isImport {
			imp = "I"
		}
		if wktPaths[f.path] {
			w = "W"
		}
		ds := "-"
		if len(f.deps) > 0 {
			es := make([]string, len(f.deps))
			for j, d := range f.deps {
				es[j] = hx.Enc(d)
			}
			ds = strings.Join(es, ",")
		}
		parts[i] = hx.Enc(f.path) + ":" + imp + ":" + w + ":" + ds
	}
	return strings.Join(parts, ";")
}

func reqLine(img []mfile, c pcfg) string { return "req\t" + c.enc() + "\t" + encFiles(img) }

func parseReqLine(fields []string) ([]mfile, pcfg, error) {
	if len(fields) != 3 || len(fields[1]) != 3 {
		return nil, pcfg{}, errors.New("bad req line")
	}
	c := pcfg{all: fields[1][0] == 'a', ii: fields[1][1] == '1', iw: fields[1][2] == '1'}
	var img []mfile
	for _, e := range strings.Split(fields[2], ";") {
		p := strings.Split(e, ":")
		if len(p) != 4 {
			return nil, c, errors.New("bad file entry")
		}
		f := mfile{path: hx.Dec(p[0]), isImport: p[1] == "I"}
		if p[3] != "-" {
			for _, d := range strings.Split(p[3], ",") {
				f.deps = append(f.deps, hx.Dec(d))
			}
		}
		img = append(img, f)
	}
	return img, c, nil
}

// ---------------------------------------------------------------------------------------
// source-retention and runtime-retention file options, as real extension fields

var (
	xtSrc, xtRt protoreflect.ExtensionType
	xtOnce      sync.Once
)

func initExt() {
	xtOnce.Do(func() {
		fdp := &descriptorpb.FileDescriptorProto{
			Name:       proto.String("verif/opts.proto"),
			Package:    proto.String("verif"),
			Syntax:     proto.String("proto2"),
			Dependency: []string{"google/protobuf/descriptor.proto"},
			Extension: []*descriptorpb.FieldDescriptorProto{
				{Name: proto.String("src_only"), Number: proto.Int32(50001), Label: descriptorpb.FieldDescriptorProto_LABEL_OPTIONAL.Enum(),
					Type: descriptorpb.FieldDescriptorProto_TYPE_STRING.Enum(), Extendee: proto.String(".google.protobuf.FileOptions"),
					JsonName: proto.String("srcOnly"),
					Options:  &descriptorpb.FieldOptions{Retention: descriptorpb.FieldOptions_RETENTION_SOURCE.Enum()}},
				{Name: proto.String("rt"), Number: proto.Int32(50002), Label: descriptorpb.FieldDescriptorProto_LABEL_OPTIONAL.Enum(),
					Type: descriptorpb.FieldDescriptorProto_TYPE_STRING.Enum(), Extendee: proto.String(".google.protobuf.FileOptions"),
					JsonName: proto.String("rt")},
			},
		}
		fd, err := protodesc.NewFile(fdp, protoregistry.GlobalFiles)
		if err != nil {
			panic(err)
		}
		xtSrc = dynamicpb.NewExtensionType(fd.Extensions().ByName("src_only"))
		xtRt = dynamicpb.NewExtensionType(fd.Extensions().ByName("rt"))
	})
}

func extTypes() *protoregistry.Types {
	initExt()
	t := &protoregistry.Types{}
	if err := t.RegisterExtension(xtSrc); err != nil {
		panic(err)
	}
	if err := t.RegisterExtension(xtRt); err != nil {
		panic(err)
	}
	return t
}

func hasSrc(fdp *descriptorpb.FileDescriptorProto) bool {
	return fdp.GetOptions() != nil && proto.HasExtension(fdp.GetOptions(), xtSrc)
}
func hasRt(fdp *descriptorpb.FileDescriptorProto) bool {
	return fdp.GetOptions() != nil && proto.HasExtension(fdp.GetOptions(), xtRt)
}

// unusedIdx: which dependency entries of f count as unused imports - a pure function of the
// file (so the image rebuilt from a protocol line by the re-executed plugin is the same).
func unusedIdx(f mfile) []int32 {
	var out []int32
	for j, d := range f.deps {
		h := fnv.New32a()
		h.Write([]byte(f.path + "\x00" + d))
		if h.Sum32()%4 == 0 {
			out = append(out, int32(j))
		}
	}
	return out
}

func buildImage(img []mfile) (bufimage.Image, map[string]*descriptorpb.FileDescriptorProto, error) {
	initExt()
	files := make([]bufimage.ImageFile, 0, len(img))
	orig := map[string]*descriptorpb.FileDescriptorProto{}
	for i, f := range img {
		opts := &descriptorpb.FileOptions{}
		proto.SetExtension(opts, xtSrc, "source-only-"+f.path)
		proto.SetExtension(opts, xtRt, "runtime-"+f.path)
		fdp := &descriptorpb.FileDescriptorProto{
			Name:       proto.String(f.path),
			Package:    proto.String(fmt.Sprintf("p%d", i)),
			Syntax:     proto.String("proto3"),
			Dependency: append([]string(nil), f.deps...),
			Options:    opts,
			MessageType: []*descriptorpb.DescriptorProto{
				{Name: proto.String(fmt.Sprintf("M%d", i))},
			},
		}
		// the unused-import shape (seed C17-m10): a quarter of the dependency entries are marked as
		// flagged by the compiler (ImageFile.UnusedDependencyIndexes, what BuildImage records and the
		// buf extension of a prebuilt image carries).  The model takes no notice: an unused import is
		// still a dependency of the file and must travel with it.
		imf, err := bufimage.NewImageFile(fdp, nil, uuid.Nil, "", "", f.isImport, false, unusedIdx(f))
		if err != nil {
			return nil, nil, err
		}
		files = append(files, imf)
		orig[f.path] = fdp
	}
	image, err := bufimage.NewImage(files)
	return image, orig, err
}

// ---------------------------------------------------------------------------------------
// generators

var dirPool = []string{"", "a", "a/b", "b", "c/d", "a.proto", "é", "google/protobuf", "google/api", "z y"}
var wktList = []string{"google/protobuf/any.proto", "google/protobuf/timestamp.proto", "google/protobuf/descriptor.proto",
	"google/protobuf/duration.proto", "google/protobuf/compiler/plugin.proto", "google/protobuf/empty.proto"}

func genImage(r *hx.Rand, run *hx.Run) []mfile {
	n := 1 + r.Intn(9)
	nd := 1 + r.Intn(4)
	dirs := make([]string, nd)
	for i := range dirs {
		dirs[i] = hx.Pick(r, dirPool)
	}
	var img []mfile
	seen := map[string]bool{}
	importRate := r.Intn(4) // 0: no imports .. 3: many
	for i := 0; i < n; i++ {
		var p string
		if r.Chance(1, 6) {
			p = hx.Pick(r, wktList)
		} else {
			d := hx.Pick(r, dirs)
			p = fmt.Sprintf("f%d.proto", i)
			if r.Chance(1, 5) {
				p = hx.Pick(r, []string{"x.proto", "y.proto", "A.proto", "x y.proto", "ü.proto"})
			}
			if d != "" {
				p = d + "/" + p
			}
		}
		if seen[p] {
			continue
		}
		seen[p] = true
		f := mfile{path: p}
		if wktPaths[p] {
			f.isImport = !r.Chance(1, 8)
		} else {
			f.isImport = r.Intn(6) < importRate
		}
		// dependencies on earlier files (topological), occasionally on something outside the image
		for _, g := range img {
			if r.Chance(1, 3) {
				f.deps = append(f.deps, g.path)
			}
		}
		if r.Chance(1, 25) {
			f.deps = append(f.deps, "missing/dep.proto")
			run.Count("A:dep-outside-image")
		}
		hx.Shuffle(r, f.deps)
		img = append(img, f)
	}
	// make sure there is usually something to generate
	hasTarget := false
	for _, f := range img {
		if !f.isImport {
			hasTarget = true
		}
	}
	if !hasTarget && r.Chance(9, 10) {
		img[len(img)-1].isImport = false
	}
	switch k := r.Intn(20); {
	case k == 0:
		// a dependency cycle (NewImage does not reject it)
		if len(img) >= 2 {
			img[0].deps = append(img[0].deps, img[len(img)-1].path)
			run.Count("A:cyclic")
		}
	case k < 4:
		hx.Shuffle(r, img)
		run.Count("A:unordered-image")
	}
	return img
}

// ---------------------------------------------------------------------------------------
// running one case on the implementation

type recHandler struct {
	mu   sync.Mutex
	reqs []*pluginpb.CodeGeneratorRequest
}

func (h *recHandler) Handle(_ context.Context, _ protoplugin.PluginEnv, w protoplugin.ResponseWriter, req protoplugin.Request) error {
	h.mu.Lock()
	defer h.mu.Unlock()
	h.reqs = append(h.reqs, req.CodeGeneratorRequest())
	for _, f := range req.CodeGeneratorRequest().GetFileToGenerate() {
		w.AddFile(f+".gen", "generated from "+f)
	}
	return nil
}

func names(fdps []*descriptorpb.FileDescriptorProto) []string {
	out := make([]string, len(fdps))
	for i, f := range fdps {
		out[i] = f.GetName()
	}
	return out
}

func encNames(ns []string, star map[int]bool) string {
	if len(ns) == 0 {
		return "-"
	}
	es := make([]string, len(ns))
	for i, n := range ns {
		es[i] = hx.Enc(n)
		if star[i] {
			es[i] += "*"
		}
	}
	return strings.Join(es, ",")
}

func canonRequests(reqs []*pluginpb.CodeGeneratorRequest) string {
	if len(reqs) == 0 {
		return "-"
	}
	parts := make([]string, len(reqs))
	for i, rq := range reqs {
		star := map[int]bool{}
		for j, pf := range rq.GetProtoFile() {
			if !hasSrc(pf) {
				star[j] = true
			}
		}
		parts[i] = "g=" + encNames(rq.GetFileToGenerate(), nil) + "|p=" + encNames(names(rq.GetProtoFile()), star) +
			"|s=" + encNames(names(rq.GetSourceFileDescriptors()), nil)
	}
	return strings.Join(parts, ";")
}

// runRequestCase runs the implementation on one (image, config), applies the oracle and
// returns the canonical output line.
func runRequestCase(run *hx.Run, img []mfile, c pcfg, line string) (out string) {
	fail := func(class, what string) {
		run.Fail(hx.OracleFailure{Class: class, What: what, Input: map[string]any{"line": line, "image": describe(img), "config": c.enc()}, Replay: replayCmd(line)})
	}
	defer func() {
		if p := recover(); p != nil {
			fail("C17-panic-request", fmt.Sprint("panic: ", p))
			out = "panic"
		}
	}()
	image, orig, err := buildImage(img)
	if err != nil {
		return "err-build"
	}
	var images []bufimage.Image
	if c.all {
		images = []bufimage.Image{image}
	} else {
		images, err = bufimage.ImageByDir(image)
		if err != nil {
			fail("C17-imagebydir-error", "ImageByDir failed on a valid image: "+err.Error())
			return "err-bydir"
		}
	}
	reqs, err := bufimage.ImagesToCodeGeneratorRequests(images, "opt", nil, c.ii, c.iw)
	if err != nil {
		fail("C17-requests-error", "ImagesToCodeGeneratorRequests failed: "+err.Error())
		return "err-requests"
	}
	out = canonRequests(reqs)
	oracleRequests(img, c, reqs, orig, fail)
	// what a plugin really receives: through bufprotoplugin.Generator with a recording handler
	hasTarget := false
	for _, f := range img {
		hasTarget = hasTarget || !f.isImport
	}
	if len(reqs) > 0 && hasTarget {
		h := &recHandler{}
		var stderr bytes.Buffer
		container := app.NewContainer(map[string]string{}, nil, io.Discard, &stderr)
		resp, gerr := bufprotoplugin.NewGenerator(nopLogger, h).Generate(ctx, container, reqs)
		if gerr != nil {
			fail("C17-generator-rejects-requests", "bufprotoplugin.Generator rejected the requests buf built: "+gerr.Error())
		} else {
			if len(h.reqs) != len(reqs) {
				fail("C17-request-count", fmt.Sprintf("handler saw %d requests, %d were built", len(h.reqs), len(reqs)))
			}
			// every file to generate produced exactly one output file in the merged response
			got := map[string]int{}
			for _, f := range resp.GetFile() {
				got[f.GetName()]++
			}
			for _, rq := range reqs {
				for _, g := range rq.GetFileToGenerate() {
					if got[g+".gen"] != 1 {
						fail("C17-merged-response", fmt.Sprintf("merged response has %d files for %s", got[g+".gen"], g))
					}
				}
			}
		}
	}
	return out
}

func describe(img []mfile) []string {
	out := make([]string, len(img))
	for i, f := range img {
		k := "target"
		if f.isImport {
			k = "import"
		}
		out[i] = fmt.Sprintf("%s (%s) deps=%v", f.path, k, f.deps)
	}
	return out
}

// ---------------------------------------------------------------------------------------
// the oracle: the property's own statement, on the recorded requests only

func oracleRequests(img []mfile, c pcfg, reqs []*pluginpb.CodeGeneratorRequest, orig map[string]*descriptorpb.FileDescriptorProto, fail func(class, what string)) {
	byPath := map[string]mfile{}
	for _, f := range img {
		byPath[f.path] = f
	}
	// reachability from the targets
	reach := map[string]bool{}
	var visit func(p string)
	visit = func(p string) {
		if reach[p] {
			return
		}
		f, ok := byPath[p]
		if !ok {
			return
		}
		reach[p] = true
		for _, d := range f.deps {
			visit(d)
		}
	}
	hasTarget := false
	for _, f := range img {
		if !f.isImport {
			visit(f.path)
			hasTarget = true
		}
	}
	// Order is promised for what the DFS of ImageByDir builds (any acyclic image) and, for
	// strategy all, when the input image itself is ordered (the request keeps image order).
	acyclic := isAcyclic(img, byPath)
	if c.all {
		idx := map[string]int{}
		for i, f := range img {
			idx[f.path] = i
		}
		for i, f := range img {
			for _, d := range f.deps {
				if j, ok := idx[d]; ok && j >= i {
					acyclic = false
				}
			}
		}
	}
	if c.all && len(reqs) != 1 {
		fail("C17-strategy-all-requests", fmt.Sprintf("strategy all produced %d requests", len(reqs)))
	}
	if !hasTarget && !c.all && len(reqs) != 0 {
		fail("C17-requests-without-targets", "requests were built for an image without targets")
	}
	count := map[string]int{}
	for ri, rq := range reqs {
		pos := map[string]int{}
		for i, pf := range rq.GetProtoFile() {
			if _, dup := pos[pf.GetName()]; dup {
				fail("C17-proto-file-duplicate", fmt.Sprintf("request %d lists %s twice in proto_file", ri, pf.GetName()))
			}
			pos[pf.GetName()] = i
			if _, ok := byPath[pf.GetName()]; !ok {
				fail("C17-proto-file-foreign", fmt.Sprintf("request %d carries %s which is not in the image", ri, pf.GetName()))
			}
		}
		gen := map[string]bool{}
		for _, g := range rq.GetFileToGenerate() {
			count[g]++
			gen[g] = true
			if _, ok := pos[g]; !ok {
				fail("C17-generate-without-descriptor", fmt.Sprintf("request %d generates %s without its descriptor", ri, g))
			}
		}
		for i, pf := range rq.GetProtoFile() {
			for _, d := range pf.GetDependency() {
				if _, inImage := byPath[d]; !inImage {
					continue
				}
				j, ok := pos[d]
				if !ok {
					fail("C17-request-not-closed", fmt.Sprintf("request %d: %s depends on %s which is not in proto_file", ri, pf.GetName(), d))
				} else if acyclic && j >= i {
					fail("C17-request-not-ordered", fmt.Sprintf("request %d: %s comes before its dependency %s", ri, pf.GetName(), d))
				}
			}
			// source-retention options are removed from the runtime view of generated files only
			if !hasRt(pf) {
				fail("C17-runtime-option-lost", fmt.Sprintf("request %d: runtime-retention option of %s is missing", ri, pf.GetName()))
			}
			if gen[pf.GetName()] == hasSrc(pf) {
				fail("C17-source-retention", fmt.Sprintf("request %d: %s generate=%v but source-retention option present=%v in proto_file", ri, pf.GetName(), gen[pf.GetName()], hasSrc(pf)))
			}
			if gen[pf.GetName()] {
				want, err := protopluginutil.StripSourceRetentionOptions(orig[pf.GetName()])
				if err != nil || !proto.Equal(want, pf) {
					fail("C17-source-retention", fmt.Sprintf("request %d: proto_file entry of %s differs from StripSourceRetentionOptions(original)", ri, pf.GetName()))
				}
			} else if o := orig[pf.GetName()]; o != nil && !proto.Equal(o, pf) {
				fail("C17-descriptor-changed", fmt.Sprintf("request %d: descriptor of %s was altered", ri, pf.GetName()))
			}
		}
		src := names(rq.GetSourceFileDescriptors())
		if strings.Join(src, "\x00") != strings.Join(rq.GetFileToGenerate(), "\x00") {
			fail("C17-source-descriptors", fmt.Sprintf("request %d: source_file_descriptors %v != file_to_generate %v", ri, src, rq.GetFileToGenerate()))
		}
		for _, sf := range rq.GetSourceFileDescriptors() {
			if !hasSrc(sf) || !proto.Equal(sf, orig[sf.GetName()]) {
				fail("C17-source-descriptors", fmt.Sprintf("request %d: source descriptor of %s is not the original", ri, sf.GetName()))
			}
		}
	}
	for _, f := range img {
		want := 0
		if !f.isImport {
			want = 1
		} else if c.ii && (c.iw || !wktPaths[f.path]) && (c.all || reach[f.path]) {
			want = 1
		}
		if count[f.path] != want {
			k := "import"
			if !f.isImport {
				k = "target"
			}
			cls := "C17-generated-count-" + k
			fail(cls, fmt.Sprintf("%s %s appears %d times in file_to_generate over all requests, want %d", k, f.path, count[f.path], want))
		}
	}
	for _, g := range sortedKeys(count) {
		if _, ok := byPath[g]; !ok {
			fail("C17-generated-foreign", "file_to_generate has "+g+" which is not in the image")
		}
	}
}

func isAcyclic(img []mfile, byPath map[string]mfile) bool {
	state := map[string]int{}
	var dfs func(p string) bool
	dfs = func(p string) bool {
		switch state[p] {
		case 1:
			return false
		case 2:
			return true
		}
		state[p] = 1
		for _, d := range byPath[p].deps {
			if _, ok := byPath[d]; ok && !dfs(d) {
				return false
			}
		}
		state[p] = 2
		return true
	}
	for _, f := range img {
		if !dfs(f.path) {
			return false
		}
	}
	return true
}

func sectionA(run *hx.Run, r *hx.Rand) {
	// NewImageFile must reject what the model assumes away: non-.proto and unnormalised paths.
	for _, bad := range []string{"a/b", "a//b.proto", "./a.proto", "../a.proto", "/a.proto", "a/../b.proto", ""} {
		_, _, err := buildImage([]mfile{{path: bad}})
		run.Eval()
		if err == nil {
			run.Fail(hx.OracleFailure{Class: "C17-image-path-not-validated", What: "NewImageFile accepted path " + bad, Input: bad})
		}
	}
	_, _, err := buildImage([]mfile{{path: "a.proto"}, {path: "a.proto", isImport: true}})
	if err == nil {
		run.Fail(hx.OracleFailure{Class: "C17-image-duplicate-path", What: "NewImage accepted a duplicate path", Input: "a.proto"})
	}
	n := run.N(1500, 30000)
	for i := 0; i < n; i++ {
		cr := r.Fork(uint64(i))
		img := genImage(cr, run)
		// every config for the same image: the bookkeeping differs per config
		cfgs := []pcfg{}
		for k := 0; k < 8; k++ {
			cfgs = append(cfgs, pcfg{all: k&4 != 0, ii: k&2 != 0, iw: k&1 != 0})
		}
		hx.Shuffle(cr, cfgs)
		for _, c := range cfgs[:3] {
			line := reqLine(img, c)
			out := runRequestCase(run, img, c, line)
			nontrivial := strings.Count(out, ";") > 0 || c.ii
			run.Case(line, out, nontrivial)
			run.Count("A:cfg:" + c.enc())
			run.Count(fmt.Sprintf("A:requests:%d", min(strings.Count(out, ";")+1, 5)))
		}
		run.Count(fmt.Sprintf("A:files:%d", len(img)))
		for _, f := range img {
			if len(unusedIdx(f)) > 0 {
				run.Count("A:images-with-unused-dependency")
				break
			}
		}
		if i < 2 {
			run.Sample(map[string]any{"section": "A", "image": describe(img)})
		}
	}
	_ = sort.Strings
}
