package main

import (
	"archive/zip"
	"bytes"
	"errors"
	"fmt"
	"io/fs"
	"os"
	"path/filepath"
	"sort"
	"strings"

	"github.com/bufbuild/buf/private/bufpkg/bufprotoplugin"
	"github.com/bufbuild/buf/private/bufpkg/bufprotoplugin/bufprotopluginos"
	"github.com/bufbuild/buf/private/pkg/storage/storageos"
	"github.com/bufbuild/verifharness/internal/hx"
	"google.golang.org/protobuf/proto"
	"google.golang.org/protobuf/types/pluginpb"
)

// rfile is one CodeGeneratorResponse.File; plug one plugin's (out, response).
//
// name, insertion_point and content are proto2 optional strings: besides their VALUE the wire
// carries whether the field is PRESENT.  The zero value of the three flags is what protogen-style
// plugins send (name and content present, insertion_point present iff non-empty):
//
//	noName    : the name field is absent (name must be "")
//	ipSet     : insertion_point is present although it is empty (ip must be "")
//	noContent : the content field is absent (content must be "")
type rfile struct {
	name, ip, content        string
	noName, ipSet, noContent bool
}

func encOpt(v string, absent bool) string {
	if absent {
		return "~"
	}
	return hx.Enc(v)
}

func decOpt(s string) (string, bool) {
	if s == "~" {
		return "", true
	}
	return hx.Dec(s), false
}

func (f rfile) ipAbsent() bool { return f.ip == "" && !f.ipSet }

func (f rfile) encode() string {
	return encOpt(f.name, f.noName) + ":" + encOpt(f.ip, f.ipAbsent()) + ":" + encOpt(f.content, f.noContent)
}

func parseRFile(fe string) (rfile, error) {
	x := strings.Split(fe, ":")
	if len(x) != 3 {
		return rfile{}, errors.New("bad file entry")
	}
	f := rfile{}
	f.name, f.noName = decOpt(x[0])
	var ipAbs bool
	f.ip, ipAbs = decOpt(x[1])
	f.ipSet = f.ip == "" && !ipAbs
	f.content, f.noContent = decOpt(x[2])
	return f, nil
}

// describe one file for failure reports, presence included.
func (f rfile) String() string {
	show := func(v string, absent bool) string {
		if absent {
			return "<absent>"
		}
		return fmt.Sprintf("%q", v)
	}
	return fmt.Sprintf("name=%s insertion_point=%s content=%s", show(f.name, f.noName), show(f.ip, f.ipAbsent()), show(f.content, f.noContent))
}

// toFile builds the message with exactly the presence the rfile describes.
func (f rfile) toFile() *pluginpb.CodeGeneratorResponse_File {
	rf := &pluginpb.CodeGeneratorResponse_File{}
	if !f.noName {
		rf.Name = proto.String(f.name)
	}
	if !f.ipAbsent() {
		rf.InsertionPoint = proto.String(f.ip)
	}
	if !f.noContent {
		rf.Content = proto.String(f.content)
	}
	return rf
}
type plug struct {
	out   string
	files []rfile
}
type respCase struct {
	cwd   string
	plugs []plug
	fs    string // os.Stat of the archives' parent directories before the run (line field 4)
}

func encPlugs(ps []plug) string {
	if len(ps) == 0 {
		return "-"
	}
	parts := make([]string, len(ps))
	for i, p := range ps {
		fs := "-"
		if len(p.files) > 0 {
			es := make([]string, len(p.files))
			for j, f := range p.files {
				es[j] = f.encode()
			}
			fs = strings.Join(es, ",")
		}
		parts[i] = hx.Enc(p.out) + "|" + fs
	}
	return strings.Join(parts, ";")
}

// respLine: the three-field form when every out is a directory (model: runResponses), the
// four-field form with what os.Stat says about the archives' parent directories when some out is a
// .jar / .zip archive (model: runResponsesA).
func respLine(c respCase) string {
	line := "resp\t" + hx.Enc(c.cwd) + "\t" + encPlugs(c.plugs)
	if !hasArchive(c) {
		return line
	}
	return line + "\t" + c.fs
}

func absOutOf(cwd, out string) string {
	if !filepath.IsAbs(out) {
		out = filepath.Join(cwd, out)
	}
	return filepath.Clean(out)
}

func isArchive(absOut string) bool {
	e := filepath.Ext(absOut)
	return e == ".jar" || e == ".zip"
}

func hasArchive(c respCase) bool {
	for _, p := range c.plugs {
		if isArchive(absOutOf(c.cwd, p.out)) {
			return true
		}
	}
	return false
}

// statFS lists what os.Stat says (now) about the parent directory of every archive out.
func statFS(c respCase) string {
	seen := map[string]bool{}
	var parts []string
	for _, p := range c.plugs {
		o := absOutOf(c.cwd, p.out)
		if !isArchive(o) {
			continue
		}
		d := filepath.Dir(o)
		if seen[d] {
			continue
		}
		seen[d] = true
		if fi, err := os.Stat(d); err == nil {
			k := "f"
			if fi.IsDir() {
				k = "d"
			}
			parts = append(parts, hx.Enc(d)+":"+k)
		}
	}
	if len(parts) == 0 {
		return "-"
	}
	return strings.Join(parts, ";")
}

// readArchive lists the entries of a zip archive held in memory (nil, false when it is not one).
func readArchive(data string) (map[string]string, bool) {
	zr, err := zip.NewReader(bytes.NewReader([]byte(data)), int64(len(data)))
	if err != nil {
		return nil, false
	}
	out := map[string]string{}
	for _, f := range zr.File {
		rc, err := f.Open()
		if err != nil {
			return nil, false
		}
		var b bytes.Buffer
		_, err = b.ReadFrom(rc)
		rc.Close()
		if err != nil {
			return nil, false
		}
		if _, dup := out[f.Name]; dup {
			out[f.Name+"\x00duplicate-entry"] = b.String()
		}
		out[f.Name] = b.String()
	}
	return out, true
}

func encArchive(entries map[string]string) string {
	names := sortedKeys(entries)
	parts := make([]string, len(names))
	for i, n := range names {
		parts[i] = hx.Enc(n) + "~" + hx.Enc(entries[n])
	}
	return "@" + strings.Join(parts, "+")
}

func parseRespLine(fields []string) (respCase, error) {
	if len(fields) != 3 && len(fields) != 4 {
		return respCase{}, errors.New("bad resp line")
	}
	c := respCase{cwd: hx.Dec(fields[1])}
	if len(fields) == 4 {
		c.fs = fields[3]
	}
	if fields[2] == "-" {
		return c, nil
	}
	for _, pe := range strings.Split(fields[2], ";") {
		h := strings.Split(pe, "|")
		if len(h) != 2 {
			return c, errors.New("bad plugin entry")
		}
		p := plug{out: hx.Dec(h[0])}
		if h[1] != "-" {
			for _, fe := range strings.Split(h[1], ",") {
				f, err := parseRFile(fe)
				if err != nil {
					return c, err
				}
				p.files = append(p.files, f)
			}
		}
		c.plugs = append(c.plugs, p)
	}
	return c, nil
}

// ---------------------------------------------------------------------------------------
// scratch tree

// preexisting files, relative to the scratch root; cwd is <root>/w.
var preexisting = map[string]string{
	"sentinel.txt":         "PRE-EXISTING root sentinel",
	"outside/o.txt":        "PRE-EXISTING outside",
	"w/keep.txt":           "PRE-EXISTING keep // @@protoc_insertion_point(ip1)",
	"w/gen/existing.txt":   "PRE-EXISTING in out\n// @@protoc_insertion_point(ip1)\nend\n",
	"w/gen/sub/deep.txt":   "PRE-EXISTING deep // @@protoc_insertion_point(ip2)",
	"w/gen2/a.txt":         "PRE-EXISTING gen2/a.txt // @@protoc_insertion_point(ip1)",
	"w/other/x/y.go":       "PRE-EXISTING other/x/y.go",
	"o2/a.txt":             "PRE-EXISTING o2 // @@protoc_insertion_point(ip1)",
	"w/gen.txt":            "PRE-EXISTING sibling with the out dir name as prefix",
	"w/generated/a.txt":    "PRE-EXISTING sibling dir with the out dir name as prefix",
	"w/é/out/existing.txt": "PRE-EXISTING unicode out",
}

func resetTree(root string) {
	// keep <root>/w itself (it is the process working directory), empty everything else
	for _, d := range []string{root, filepath.Join(root, "w")} {
		ents, _ := os.ReadDir(d)
		for _, e := range ents {
			if d == root && e.Name() == "w" {
				continue
			}
			if err := os.RemoveAll(filepath.Join(d, e.Name())); err != nil {
				panic(err)
			}
		}
	}
	for rel, content := range preexisting {
		p := filepath.Join(root, filepath.FromSlash(rel))
		if err := os.MkdirAll(filepath.Dir(p), 0o755); err != nil {
			panic(err)
		}
		if err := os.WriteFile(p, []byte(content), 0o644); err != nil {
			panic(err)
		}
	}
}

// The scratch tree is reset only when the previous case left something behind (a file written, a
// directory created): most failing runs write nothing, and resetting + walking the tree twice per
// case is what the harness spends its time on.
var (
	treeRoot     string
	treeClean    bool
	pristine     map[string]string
	pristineDirs string
)

// cleanTree puts the scratch tree into its initial state and returns the snapshot of that state.
func cleanTree(root string) map[string]string {
	if !treeClean || treeRoot != root || pristine == nil {
		resetTree(root)
		pristine, pristineDirs = snapshotDirs(root)
		treeRoot, treeClean = root, true
	}
	return pristine
}

// afterRun snapshots the tree after a case and notes whether it is still in its initial state.
func afterRun(root string) map[string]string {
	files, dirs := snapshotDirs(root)
	treeClean = treeRoot == root && dirs == pristineDirs && len(files) == len(pristine)
	if treeClean {
		for p, v := range files {
			if pv, ok := pristine[p]; !ok || pv != v {
				treeClean = false
				break
			}
		}
	}
	return files
}

func snapshotDirs(root string) (map[string]string, string) {
	out := map[string]string{}
	var dirs []string
	err := filepath.WalkDir(root, func(p string, d fs.DirEntry, err error) error {
		if err != nil {
			return err
		}
		if d.Type().IsRegular() {
			b, err := os.ReadFile(p)
			if err != nil {
				return err
			}
			out[p] = string(b)
		} else if d.IsDir() {
			dirs = append(dirs, p)
		} else {
			out[p] = "<" + d.Type().String() + ">"
		}
		return nil
	})
	if err != nil {
		panic(err)
	}
	return out, strings.Join(dirs, "\x00")
}

func snapshot(root string) map[string]string {
	out := map[string]string{}
	err := filepath.WalkDir(root, func(p string, d fs.DirEntry, err error) error {
		if err != nil {
			return err
		}
		if d.Type().IsRegular() {
			b, err := os.ReadFile(p)
			if err != nil {
				return err
			}
			out[p] = string(b)
		} else if !d.IsDir() {
			out[p] = "<" + d.Type().String() + ">"
		}
		return nil
	})
	if err != nil {
		panic(err)
	}
	return out
}

// ---------------------------------------------------------------------------------------
// generator

var outPool = []string{"gen", "gen", "gen", "./gen", "gen/", "gen/sub", "gen/../gen", "other", "../w/gen", "@abs/gen", ".", "é/out",
	"gen//sub/", "../o2", "gen2", "@abs/w2/../gen", "new/deep/out"}

// archive outs (.jar / .zip): two archives in one directory, archives inside other plugins' out
// directories (gen, gen/sub, other, ., é/out), the same archive under several spellings, a jar and a
// zip side by side, an archive whose parent does not exist / is a file, a dot-file archive, and
// names that only look like archives (directories).
var archivePool = []string{"gen/a.zip", "gen/a.zip", "gen/b.zip", "gen/a.jar", "gen/b.jar", "a.zip", "lib.jar", "./gen//a.zip", "gen/sub/../a.zip",
	"@abs/gen/a.zip", "../w/gen/a.zip", "gen/a.zip/", "gen/sub/c.zip", "other/x/lib.jar", "gen2/a.jar", "gen/.zip", "é/out/ü.jar",
	"new/deep/x.zip", "gen.txt/x.zip", "gen/A.ZIP", "gen/a.zip.d", "gen/a.jar.zip"}
var archiveSiblings = []string{"gen", "gen", "gen/", "gen/sub", "other", ".", "é/out", "gen2", "other/x"}

var goodNames = []string{"a.txt", "b.go", "x/y.go", "x/z.go", "c", "é.txt", "d e/f.txt", "existing.txt", "a/b"}
var spellNames = []string{"a//b", "./c", "x/../a.txt", "x/./y.go", "./x//z.go", "a.txt/", "q/../../gen/a.txt"}
var hostileNames = []string{"../x", "/abs", "..", "a/../../e", "", ".", "../w/keep.txt", "../../sentinel.txt", "/etc/passwd",
	"x/../../keep.txt", "../gen.txt", "../generated/a.txt", "./", "../gen/a.txt", "..//x"}
var bases = []string{
	"head\n  // @@protoc_insertion_point(ip1)\ntail\n",
	"\t# @@protoc_insertion_point(ip2)",
	"no marker here\n",
	"",
	"// @@protoc_insertion_point(ip1)\r\n  /* @@protoc_insertion_point(ip1) */ x\n\n// @@protoc_insertion_point(ip2)\n",
	"a\n\n@@protoc_insertion_point(ip1)@@protoc_insertion_point(ip2)\n\n",
}
var inserts = []string{"line1\nline2", "x\r\ny\n", "", "one\n", "\n\n", "é // @@protoc_insertion_point(ip1)"}
var points = []string{"ip1", "ip1", "ip2", "missing", "ip"}

func genRespCase(r *hx.Rand, cwd string) respCase {
	c := respCase{cwd: cwd}
	np := 1 + r.Intn(4)
	mainOut := hx.Pick(r, outPool)
	archives := r.Chance(2, 5)
	pickOut := func() string { return hx.Pick(r, outPool) }
	if archives {
		if np == 1 && r.Chance(2, 3) {
			np = 2 + r.Intn(3)
		}
		pickOut = func() string {
			if r.Chance(1, 3) {
				return hx.Pick(r, archiveSiblings)
			}
			return hx.Pick(r, archivePool)
		}
		mainOut = pickOut()
	}
	hostileRate := r.Intn(3)         // 0: none
	produced := map[string][]rfile{} // cleaned absolute out -> plain files produced so far
	absOf := func(out string) string {
		if filepath.IsAbs(out) {
			return filepath.Clean(out)
		}
		return filepath.Join(cwd, out)
	}
	for i := 0; i < np; i++ {
		p := plug{out: mainOut}
		if r.Chance(1, 2) {
			p.out = pickOut()
		}
		p.out = strings.Replace(p.out, "@abs", filepath.Dir(cwd)+"/w", 1)
		key := absOf(p.out)
		nf := r.Intn(5)
		for j := 0; j < nf; j++ {
			f := rfile{}
			switch k := r.Intn(14); {
			case k < 4:
				f.name = hx.Pick(r, goodNames)
			case k < 6:
				f.name = hx.Pick(r, spellNames)
			case k < 6+hostileRate:
				f.name = hx.Pick(r, hostileNames)
			default:
				f.name = fmt.Sprintf("u%d_%d.txt", i, j)
			}
			if archives && r.Chance(1, 30) {
				f.name = "META-INF/MANIFEST.MF" // a plugin that brings its own manifest
			}
			prev := produced[key]
			if (len(prev) > 0 && r.Chance(2, 5)) || r.Chance(1, 12) {
				f.ip = hx.Pick(r, points)
				f.content = hx.Pick(r, inserts)
				if len(prev) > 0 && r.Chance(9, 10) {
					t := hx.Pick(r, prev)
					f.name = t.name
					if r.Chance(1, 4) {
						f.name = "./" + strings.Replace(f.name, "/", "//", 1)
					}
					if r.Chance(3, 4) {
						for _, ip := range []string{"ip1", "ip2"} {
							if strings.Contains(t.content, "@@protoc_insertion_point("+ip+")") {
								f.ip = ip
							}
						}
					}
				}
			} else {
				f.content = hx.Pick(r, bases)
				if r.Chance(1, 3) {
					f.content = fmt.Sprintf("content %d/%d\n", i, j) + f.content
				}
				produced[key] = append(produced[key], f)
			}
			// presence: what a protogen-style plugin never sends - insertion_point present but
			// empty, content absent, name absent
			if f.ip == "" && r.Chance(1, 4) {
				f.ipSet = true
			}
			if r.Chance(1, 12) {
				f.content, f.noContent = "", true
			}
			if r.Chance(1, 25) {
				f.name, f.noName = "", true
			}
			p.files = append(p.files, f)
		}
		c.plugs = append(c.plugs, p)
	}
	return c
}

// ---------------------------------------------------------------------------------------
// running one case on the implementation

func classify(err error) string {
	msg := err.Error()
	var pathErr *fs.PathError
	switch {
	case errors.As(err, &pathErr) && pathErr.Op == "stat" && errors.Is(err, fs.ErrNotExist):
		return "archive-parent-missing" // os.Stat(filepath.Dir(archive)) in writeZip
	case strings.HasPrefix(msg, "not a directory: "):
		return "archive-parent-not-dir"
	case errors.Is(err, fs.ErrNotExist):
		return "not-exist"
	case strings.HasSuffix(msg, "expected to be relative"):
		return "not-relative"
	case strings.HasSuffix(msg, "is outside the context directory"):
		return "outside-context"
	case msg == "cannot use root" || msg == "cannot get root":
		return "root"
	case strings.HasPrefix(msg, "could not find insertion point"):
		return "no-insertion-point"
	case strings.Contains(msg, "was generated multiple times"):
		return "duplicate"
	default:
		return "other(" + msg + ")"
	}
}

func toResponse(p plug) *pluginpb.CodeGeneratorResponse {
	resp := &pluginpb.CodeGeneratorResponse{}
	for _, f := range p.files {
		resp.File = append(resp.File, f.toFile())
	}
	return resp
}

// applyLikeGenerateCode is bufgen.validateResponses + bufgen.generateCode on given responses.
func applyLikeGenerateCode(plugs []plug) error {
	prs := make([]*bufprotoplugin.PluginResponse, len(plugs))
	resps := make([]*pluginpb.CodeGeneratorResponse, len(plugs))
	for i, p := range plugs {
		resps[i] = toResponse(p)
		prs[i] = bufprotoplugin.NewPluginResponse(resps[i], fmt.Sprintf("plugin%d", i), p.out)
	}
	if err := bufprotoplugin.ValidatePluginResponses(prs); err != nil {
		return err
	}
	rw := bufprotopluginos.NewResponseWriter(nopLogger, storageos.NewProvider(storageos.ProviderWithSymlinks()),
		bufprotopluginos.ResponseWriterWithCreateOutDirIfNotExists())
	for i, p := range plugs {
		if err := rw.AddResponse(ctx, resps[i], p.out); err != nil {
			return err
		}
	}
	return rw.Close()
}

func under(dir, p string) bool {
	return p == dir || strings.HasPrefix(p, strings.TrimSuffix(dir, "/")+"/")
}

func runResponseCase(run *hx.Run, c respCase, line string) (out string) {
	fail := func(class, what string) {
		in := map[string]any{"line": line, "cwd": c.cwd}
		var ps []string
		for i, p := range c.plugs {
			for _, f := range p.files {
				ps = append(ps, fmt.Sprintf("plugin%d out=%q %s", i, p.out, f))
			}
		}
		in["files"] = ps
		run.Fail(hx.OracleFailure{Class: class, What: what, Input: in, Replay: replayCmd(line)})
	}
	root := filepath.Dir(c.cwd)
	if err := os.MkdirAll(c.cwd, 0o755); err != nil {
		panic(err)
	}
	if err := os.Chdir(c.cwd); err != nil {
		panic(err)
	}
	before := cleanTree(root)
	var err error
	func() {
		defer func() {
			if p := recover(); p != nil {
				fail("C17-panic-response", fmt.Sprint("panic: ", p))
				err = errors.New("panic")
			}
		}()
		err = applyLikeGenerateCode(c.plugs)
	}()
	after := afterRun(root)

	changed := oracleDisk(c, err, before, after, fail, false)
	oraclePlainRun(c, err, before, fail)

	// ---- canonical output
	if err != nil {
		out = "err " + classify(err)
		if len(changed) > 0 {
			out += " +partial-writes"
		}
		run.Count("B:" + out)
		return out
	}
	run.Count("B:ok")
	for _, p := range c.plugs {
		for _, f := range p.files {
			if f.ip != "" {
				run.Count("B:ok-insertion-applied")
			}
		}
	}
	if len(changed) == 0 {
		return "ok -"
	}
	archiveOut := map[string]bool{}
	for _, p := range c.plugs {
		if o := absOutOf(c.cwd, p.out); isArchive(o) {
			archiveOut[o] = true
		}
	}
	parts := make([]string, len(changed))
	for i, p := range changed {
		parts[i] = hx.Enc(p) + "=" + hx.Enc(after[p])
		if archiveOut[p] {
			if entries, ok := readArchive(after[p]); ok {
				parts[i] = hx.Enc(p) + "=" + encArchive(entries)
				run.Count("B:ok-archive-written")
			}
		}
	}
	return "ok " + strings.Join(parts, ",")
}

// oracleDisk judges one run by the property's own statement, from the scratch tree before and
// after and the responses the plugins returned; it returns the changed paths.  lenient: the
// responses went through protoplugin first (names are normalised and per-plugin duplicates
// dropped there), so names are compared after cleaning.
func oracleDisk(c respCase, err error, before, after map[string]string, fail func(class, what string), lenient bool) []string {
	root := filepath.Dir(c.cwd)
	// what changed on disk
	var changed []string
	for p, v := range after {
		if bv, ok := before[p]; !ok || bv != v {
			changed = append(changed, p)
		}
	}
	sort.Strings(changed)
	var deleted []string
	for p := range before {
		if _, ok := after[p]; !ok {
			deleted = append(deleted, p)
		}
	}
	sort.Strings(deleted)

	// ---- oracle: the property's own statement
	absOuts := make([]string, len(c.plugs))
	for i, p := range c.plugs {
		absOuts[i] = p.out
		if !filepath.IsAbs(p.out) {
			absOuts[i] = filepath.Join(c.cwd, p.out)
		}
		absOuts[i] = filepath.Clean(absOuts[i])
	}
	for _, p := range changed {
		ok := false
		for _, o := range absOuts {
			if isArchive(o) {
				ok = ok || p == o // an archive out is ONE file
			} else {
				ok = ok || under(o, p)
			}
		}
		if !ok {
			fail("C17-write-outside-out", "file written outside every plugin's output location (out directory or archive): "+p)
		}
	}
	// archives: their entries are looked at as <archive>/<entry>
	vafter := map[string]string{}
	for p, v := range after {
		vafter[p] = v
	}
	archives := map[string]map[string]string{} // archive out -> entries (nil: missing or not a zip)
	for _, o := range absOuts {
		if !isArchive(o) {
			continue
		}
		if _, seen := archives[o]; seen {
			continue
		}
		archives[o] = nil
		if data, ok := after[o]; ok {
			if entries, ok := readArchive(data); ok {
				archives[o] = entries
				for n, v := range entries {
					vafter[o+"/"+n] = v
				}
			}
		}
	}
	for _, p := range deleted {
		fail("C17-file-deleted", "pre-existing file deleted: "+p)
	}
	// same output path produced twice => error
	produced := map[string]int{}
	dupWhat, dupAlias := "", false
	for i, p := range c.plugs {
		for _, f := range p.files {
			if f.ip != "" {
				continue
			}
			target := filepath.Join(absOuts[i], f.name)
			if j, ok := produced[target]; ok && dupWhat == "" && !(lenient && j == i) {
				dupWhat = fmt.Sprintf("%s produced by plugin%d (out %q) and again by plugin%d (out %q, name %q)", target, j, c.plugs[j].out, i, p.out, f.name)
				dupAlias = filepath.Clean(c.plugs[j].out) != filepath.Clean(p.out)
			}
			produced[target] = i
		}
	}
	if dupWhat != "" && err == nil {
		if dupAlias {
			fail("C17-duplicate-not-error-out-alias", "same output path produced twice without an error (the two out directories are the same directory spelled differently): "+dupWhat)
		} else {
			fail("C17-duplicate-not-error", "same output path produced twice without an error: "+dupWhat)
		}
	}
	// per plugin: on success every file that changed on disk is the file some plugin returned,
	// located beneath THAT plugin's out directory (Join(abs(out), name)), and every plain file a
	// plugin returned exists there afterwards
	if err == nil {
		for _, p := range changed {
			if _, isArch := archives[p]; isArch {
				continue // a configured archive; its entries are judged below
			}
			if _, ok := produced[p]; !ok {
				fail("C17-write-not-attributable", "file written that is not Join(out, name) of any plugin's returned file: "+p)
			}
		}
		for target, i := range produced {
			if !under(absOuts[i], target) {
				continue // escaping names make the run fail; reported by C17-write-outside-out if not
			}
			if _, ok := vafter[target]; !ok {
				where := "under its out directory"
				if isArchive(absOuts[i]) {
					where = "in its archive " + absOuts[i]
				}
				fail("C17-returned-file-missing", fmt.Sprintf("plugin%d returned a file that is not %s afterwards: %s", i, where, target))
			}
		}
		// every archive that received files exists, is an archive, and holds nothing but what the
		// plugins configured with THIS archive returned (plus the manifest of a jar)
		for _, o := range sortedKeys(archives) {
			entries := archives[o]
			received := false
			own := map[string]bool{}
			for i, p := range c.plugs {
				if absOuts[i] != o {
					continue
				}
				for _, f := range p.files {
					if f.ip == "" {
						received = true
						own[filepath.ToSlash(filepath.Clean(f.name))] = true
					}
				}
			}
			if entries == nil {
				if _, exists := after[o]; exists {
					fail("C17-archive-corrupt", "the archive out "+o+" exists after the run but is not a zip archive")
				} else if received {
					fail("C17-archive-missing", "the archive out "+o+" received files but does not exist after a successful run")
				}
				continue
			}
			for _, n := range sortedKeys(entries) {
				if own[n] || (n == "META-INF/MANIFEST.MF" && filepath.Ext(o) == ".jar") {
					continue
				}
				fail("C17-archive-foreign-entry", fmt.Sprintf("archive %s holds entry %q which no plugin configured with this archive returned", o, n))
			}
			if _, ok := entries["META-INF/MANIFEST.MF"]; !ok && filepath.Ext(o) == ".jar" {
				fail("C17-jar-manifest-missing", "the jar "+o+" has no META-INF/MANIFEST.MF")
			}
		}
	}
	// insertion points only into files produced earlier in the same run
	if err == nil {
		soFar := map[string]bool{}
		for i, p := range c.plugs {
			for _, f := range p.files {
				target := filepath.Join(absOuts[i], f.name)
				if f.ip == "" {
					soFar[target] = true
				} else if !soFar[target] {
					fail("C17-insertion-into-foreign-file", fmt.Sprintf("insertion point %q into %s succeeded although no plugin produced that file earlier in this run", f.ip, target))
				}
			}
		}
	}
	// output bytes: a path that received exactly one plain file and no insertion holds exactly that
	// file's content; an insertion point applies only to a file that holds its marker
	if err == nil {
		type hist struct {
			plain, ins   int
			content, all string
		}
		h := map[string]*hist{}
		for i, p := range c.plugs {
			for _, f := range p.files {
				target := filepath.Join(absOuts[i], f.name)
				e := h[target]
				if e == nil {
					e = &hist{}
					h[target] = e
				}
				if f.ip == "" {
					e.plain++
					e.content = f.content
				} else {
					e.ins++
					if !strings.Contains(e.all, "@@protoc_insertion_point("+f.ip+")") {
						fail("C17-insertion-without-marker", fmt.Sprintf("insertion point %q into %s succeeded although nothing written to that file so far holds the marker @@protoc_insertion_point(%s)", f.ip, target, f.ip))
					}
				}
				e.all += f.content + "\n"
			}
		}
		for _, target := range sortedKeys(h) {
			e := h[target]
			if v, ok := vafter[target]; ok && e.plain == 1 && e.ins == 0 && v != e.content {
				fail("C17-content-mismatch", fmt.Sprintf("%s was returned once, as a plain file with content %q, and holds %q after the run", target, e.content, v))
			}
		}
	}
	for p := range preexisting {
		full := filepath.Join(root, filepath.FromSlash(p))
		if _, ok := produced[full]; !ok && after[full] != before[full] {
			fail("C17-preexisting-file-modified", "pre-existing file that no plugin produced was modified: "+full)
		}
	}

	return changed
}

// oraclePlainRun: a run in which every returned file is a PLAIN file (no non-empty insertion
// point - an insertion_point that is present but empty is none), every name is an ordinary relative
// path, no two files go to the same place, nothing is in the way on disk and every out is a
// directory has no reason to fail: each file is generated exactly once.
func oraclePlainRun(c respCase, err error, before map[string]string, fail func(class, what string)) {
	if err == nil || hasArchive(c) {
		return
	}
	targets := map[string]bool{}
	for _, p := range c.plugs {
		o := absOutOf(c.cwd, p.out)
		for _, f := range p.files {
			if f.ip != "" || f.name == "" || strings.HasPrefix(f.name, "/") {
				return
			}
			for _, comp := range strings.Split(f.name, "/") {
				if comp == "" || comp == "." || comp == ".." {
					return
				}
			}
			t := filepath.Join(o, f.name)
			if targets[t] {
				return
			}
			targets[t] = true
		}
	}
	for t := range targets {
		for d := filepath.Dir(t); d != "/" && d != "."; d = filepath.Dir(d) {
			if _, isFile := before[d]; isFile || targets[d] {
				return // a file where a directory is needed
			}
		}
		for q := range before {
			if strings.HasPrefix(q, t+"/") {
				return // a directory where the file is to go
			}
		}
	}
	if len(targets) == 0 {
		return
	}
	fail("C17-plain-run-failed", "every returned file is a plain file with an ordinary name and its own output path, yet the run failed: "+err.Error())
}

func sectionB(run *hx.Run, r *hx.Rand) {
	root := filepath.Join(run.OutDir, "fs")
	cwd, err := filepath.Abs(filepath.Join(root, "w"))
	if err != nil {
		panic(err)
	}
	if err := os.MkdirAll(cwd, 0o755); err != nil {
		panic(err)
	}
	prev, _ := os.Getwd()
	defer os.Chdir(prev)
	n := run.N(1500, 25000)
	for i := 0; i < n; i++ {
		c := genRespCase(r.Fork(uint64(i)), cwd)
		if hasArchive(c) {
			cleanTree(root)
			c.fs = statFS(c)
			run.Count("B:with-archive-out")
		}
		line := respLine(c)
		out := runResponseCase(run, c, line)
		nontrivial := strings.HasPrefix(out, "ok ") && out != "ok -" || out == "err duplicate" || out == "err not-exist" || out == "err no-insertion-point" ||
			out == "err archive-parent-missing" || out == "err archive-parent-not-dir"
		run.Case(line, out, nontrivial)
		run.Count(fmt.Sprintf("B:plugins:%d", len(c.plugs)))
		if i < 2 {
			run.Sample(map[string]any{"section": "B", "line": line, "result": out})
		}
	}
}
