package main

// Sections P (stratified presence family on the response writer) and D (the whole pipeline a
// plugin's answer goes through, with field PRESENCE on the wire).
//
// CodeGeneratorResponse and CodeGeneratorResponse.File are proto2 messages: every scalar field
// can be absent, present with its default value ("" / 0), or present with a value.  Plugins built
// with protogen never send a present-but-empty field, plugins written against message builders or
// other runtimes do.  The code under test decides everything by VALUE (the generated getters); the
// families below make sure that each site is exercised with all three states of every optional
// field, so a site that switches to presence (`file.InsertionPoint != nil`) is noticed:
//
//	File.name             absent / "" (both: continuation of the previous file) / a name
//	File.insertion_point  absent / "" (both: a plain file) / a point the target holds / one it lacks
//	File.content          absent / "" / text
//	File.generated_code_info  absent / present (ignored by buf)
//	error                 absent / "" (both: no error) / text
//	supported_features    absent / 0 / PROTO3_OPTIONAL / SUPPORTS_EDITIONS / both / unknown bits
//	minimum_edition, maximum_edition   absent / 0 / editions around the ones the image needs
//
// x the same name returned by two plugins (or twice by one) into one output location spelled in
// different ways (gen, ./gen, gen/../gen, absolute; one .zip / .jar archive) x strategy.
//
// `gen` protocol lines: the model gets every plugin's response AS IT IS ON THE WIRE and must
// reproduce the error class or every byte written.  mode seq: in-process, the plugins' answers go
// through bufprotoplugin.NewGenerator (protoplugin's lenient response writer) one after the other,
// then ValidatePluginResponses and the bufprotopluginos response writer.  mode par: the whole
// bufgen.Generator with this binary re-executed as every plugin (bufprotopluginexec binary handler:
// real processes, real wire bytes), including checkRequiredFeatures against what the image needs.

import (
	"bytes"
	"context"
	"errors"
	"fmt"
	"io"
	"os"
	"path/filepath"
	"regexp"
	"sort"
	"strconv"
	"strings"

	"github.com/bufbuild/buf/private/buf/bufgen"
	"github.com/bufbuild/buf/private/bufpkg/bufconfig"
	"github.com/bufbuild/buf/private/bufpkg/bufimage"
	"github.com/bufbuild/buf/private/bufpkg/bufprotoplugin"
	"github.com/bufbuild/buf/private/bufpkg/bufprotoplugin/bufprotopluginos"
	"github.com/bufbuild/buf/private/pkg/app"
	"github.com/bufbuild/buf/private/pkg/storage/storageos"
	"github.com/bufbuild/protoplugin"
	"github.com/bufbuild/verifharness/internal/hx"
	"github.com/google/uuid"
	"google.golang.org/protobuf/proto"
	"google.golang.org/protobuf/types/descriptorpb"
	"google.golang.org/protobuf/types/pluginpb"
)

// gplug is one plugin of a `gen` case: out, strategy and its whole response.
type gplug struct {
	plug
	all    bool // strategy all (else directory)
	errSet bool // the error field is present
	err    string
	feat   *uint64
	minEd  *int32
	maxEd  *int32
	info   bool // the first file carries a generated_code_info (ignored by buf; not on the line)
}

// what the image requires of the plugins
type reqKind struct {
	optional bool
	editions []int32
}

type genCase struct {
	par   bool
	cwd   string
	req   reqKind
	plugs []gplug
	fs    string
}

func (c genCase) respCase() respCase {
	rc := respCase{cwd: c.cwd, fs: c.fs}
	for _, p := range c.plugs {
		rc.plugs = append(rc.plugs, p.plug)
	}
	return rc
}

func optU64(v *uint64) string {
	if v == nil {
		return "~"
	}
	return strconv.FormatUint(*v, 10)
}
func optI32(v *int32) string {
	if v == nil {
		return "~"
	}
	return strconv.FormatInt(int64(*v), 10)
}

func (r reqKind) enc() string {
	o := "-"
	if r.optional {
		o = "o"
	}
	es := "-"
	if len(r.editions) > 0 {
		parts := make([]string, len(r.editions))
		for i, e := range r.editions {
			parts[i] = strconv.Itoa(int(e))
		}
		es = strings.Join(parts, ",")
	}
	return o + ":" + es
}

func genLine(c genCase) string {
	mode := "seq"
	if c.par {
		mode = "par"
	}
	ps := "-"
	if len(c.plugs) > 0 {
		parts := make([]string, len(c.plugs))
		for i, p := range c.plugs {
			fs := "-"
			if len(p.files) > 0 {
				es := make([]string, len(p.files))
				for j, f := range p.files {
					es[j] = f.encode()
				}
				fs = strings.Join(es, ",")
			}
			parts[i] = strings.Join([]string{hx.Enc(p.out), fs, encOpt(p.err, !p.errSet), optU64(p.feat), optI32(p.minEd), optI32(p.maxEd)}, "|")
		}
		ps = strings.Join(parts, ";")
	}
	fs := c.fs
	if fs == "" {
		fs = "-"
	}
	return strings.Join([]string{"gen", mode, hx.Enc(c.cwd), c.req.enc(), ps, fs}, "\t")
}

func parseGenLine(fields []string) (genCase, error) {
	if len(fields) != 6 {
		return genCase{}, errors.New("bad gen line")
	}
	c := genCase{par: fields[1] == "par", cwd: hx.Dec(fields[2]), fs: fields[5]}
	rq := strings.Split(fields[3], ":")
	if len(rq) != 2 {
		return c, errors.New("bad req")
	}
	c.req.optional = rq[0] == "o"
	if rq[1] != "-" {
		for _, e := range strings.Split(rq[1], ",") {
			n, err := strconv.Atoi(e)
			if err != nil {
				return c, err
			}
			c.req.editions = append(c.req.editions, int32(n))
		}
	}
	if fields[4] == "-" {
		return c, nil
	}
	for _, pe := range strings.Split(fields[4], ";") {
		h := strings.Split(pe, "|")
		if len(h) != 6 {
			return c, errors.New("bad gen plugin entry")
		}
		p := gplug{}
		p.out = hx.Dec(h[0])
		if h[1] != "-" {
			for _, fe := range strings.Split(h[1], ",") {
				f, err := parseRFile(fe)
				if err != nil {
					return c, err
				}
				p.files = append(p.files, f)
			}
		}
		var absent bool
		p.err, absent = decOpt(h[2])
		p.errSet = !absent
		if h[3] != "~" {
			v, err := strconv.ParseUint(h[3], 10, 64)
			if err != nil {
				return c, err
			}
			p.feat = &v
		}
		for k, dst := range []**int32{&p.minEd, &p.maxEd} {
			if h[4+k] != "~" {
				v, err := strconv.ParseInt(h[4+k], 10, 32)
				if err != nil {
					return c, err
				}
				w := int32(v)
				*dst = &w
			}
		}
		c.plugs = append(c.plugs, p)
	}
	return c, nil
}

// fullResponse is the plugin's answer with exactly the presence the case describes.
func fullResponse(p gplug) *pluginpb.CodeGeneratorResponse {
	resp := &pluginpb.CodeGeneratorResponse{}
	for i, f := range p.files {
		rf := f.toFile()
		if p.info && i == 0 {
			rf.GeneratedCodeInfo = &descriptorpb.GeneratedCodeInfo{Annotation: []*descriptorpb.GeneratedCodeInfo_Annotation{
				{Path: []int32{4, 0}, SourceFile: proto.String("a/x.proto"), Begin: proto.Int32(0), End: proto.Int32(1)}}}
		}
		resp.File = append(resp.File, rf)
	}
	if p.errSet {
		resp.Error = proto.String(p.err)
	}
	if p.feat != nil {
		resp.SupportedFeatures = proto.Uint64(*p.feat)
	}
	if p.minEd != nil {
		resp.MinimumEdition = proto.Int32(*p.minEd)
	}
	if p.maxEd != nil {
		resp.MaximumEdition = proto.Int32(*p.maxEd)
	}
	return resp
}

// ---------------------------------------------------------------------------------------
// the plugin side of mode par: parameter "full|<script file>"

// fullPluginAnswer: the request holding the trigger path answers with the scripted bytes as they
// are; every other request of the same plugin (strategy directory) answers with the response-level
// feature fields only, so that the merged response does not depend on which process ends last.
func fullPluginAnswer(req *pluginpb.CodeGeneratorRequest, script string) []byte {
	b, err := os.ReadFile(script)
	if err != nil {
		os.Exit(3)
	}
	trigger, _ := os.ReadFile(script + ".trigger")
	for _, g := range req.GetFileToGenerate() {
		if g == string(trigger) {
			return b
		}
	}
	full := &pluginpb.CodeGeneratorResponse{}
	if err := proto.Unmarshal(b, full); err != nil {
		os.Exit(3)
	}
	out, _ := proto.Marshal(&pluginpb.CodeGeneratorResponse{SupportedFeatures: full.SupportedFeatures,
		MinimumEdition: full.MinimumEdition, MaximumEdition: full.MaximumEdition})
	return out
}

// ---------------------------------------------------------------------------------------
// the images of mode par

const triggerPath = "a/x.proto"

func genImageFor(req reqKind) (bufimage.Image, error) {
	mk := func(path, pkg string, syntax string, edition descriptorpb.Edition, optional bool) (bufimage.ImageFile, error) {
		fdp := &descriptorpb.FileDescriptorProto{Name: proto.String(path), Package: proto.String(pkg), Syntax: proto.String(syntax)}
		if syntax == "editions" {
			fdp.Edition = edition.Enum()
		}
		msg := &descriptorpb.DescriptorProto{Name: proto.String("M")}
		if optional {
			msg.Field = []*descriptorpb.FieldDescriptorProto{{Name: proto.String("f"), Number: proto.Int32(1),
				Label: descriptorpb.FieldDescriptorProto_LABEL_OPTIONAL.Enum(), Type: descriptorpb.FieldDescriptorProto_TYPE_INT32.Enum(),
				JsonName: proto.String("f"), OneofIndex: proto.Int32(0), Proto3Optional: proto.Bool(true)}}
			msg.OneofDecl = []*descriptorpb.OneofDescriptorProto{{Name: proto.String("_f")}}
		}
		fdp.MessageType = []*descriptorpb.DescriptorProto{msg}
		return bufimage.NewImageFile(fdp, nil, uuid.Nil, "", "", false, false, nil)
	}
	var files []bufimage.ImageFile
	f, err := mk(triggerPath, "pa", "proto3", 0, req.optional)
	if err != nil {
		return nil, err
	}
	files = append(files, f)
	f, err = mk("b/y.proto", "pb", "proto3", 0, false)
	if err != nil {
		return nil, err
	}
	files = append(files, f)
	for i, e := range req.editions {
		f, err = mk(fmt.Sprintf("c/e%d.proto", i), fmt.Sprintf("pc%d", i), "editions", descriptorpb.Edition(e), false)
		if err != nil {
			return nil, err
		}
		files = append(files, f)
	}
	return bufimage.NewImage(files)
}

// ---------------------------------------------------------------------------------------
// running one case

// scriptHandler answers like bufprotopluginexec.binaryHandler does once the process returned:
// the wire bytes are unmarshalled and handed to the protoplugin response writer field by field.
type scriptHandler struct{ wire []byte }

func (h *scriptHandler) Handle(_ context.Context, _ protoplugin.PluginEnv, w protoplugin.ResponseWriter, _ protoplugin.Request) error {
	response := &pluginpb.CodeGeneratorResponse{}
	if err := proto.Unmarshal(h.wire, response); err != nil {
		return err
	}
	w.AddCodeGeneratorResponseFiles(response.GetFile()...)
	w.AddError(response.GetError())
	w.SetSupportedFeatures(response.GetSupportedFeatures())
	w.SetMinimumEdition(response.GetMinimumEdition())
	w.SetMaximumEdition(response.GetMaximumEdition())
	return nil
}

var minimalRequest = &pluginpb.CodeGeneratorRequest{
	FileToGenerate: []string{triggerPath},
	ProtoFile: []*descriptorpb.FileDescriptorProto{{Name: proto.String(triggerPath), Package: proto.String("pa"), Syntax: proto.String("proto3"),
		MessageType: []*descriptorpb.DescriptorProto{{Name: proto.String("M")}}}},
}

// throughLibrary: one plugin's answer through bufprotoplugin.Generator (in-process).
func throughLibrary(p gplug) (*pluginpb.CodeGeneratorResponse, error) {
	wire, err := proto.Marshal(fullResponse(p))
	if err != nil {
		panic(err)
	}
	var stderr bytes.Buffer
	container := app.NewContainer(map[string]string{}, nil, io.Discard, &stderr)
	return bufprotoplugin.NewGenerator(nopLogger, &scriptHandler{wire: wire}).Generate(ctx, container, []*pluginpb.CodeGeneratorRequest{minimalRequest})
}

var pluginPrefix = regexp.MustCompile(`^plugin verif[0-9]+: `)
var pluginStart = regexp.MustCompile(`(?m)^plugin verif[0-9]+: `)

// the error texts a scripted plugin puts into its error field
var errTexts = []string{"E! boom", " ", "E! two\nlines", "é"}

// classifyGen maps an error of either mode to the model's tags (never compared by text beyond
// picking the class).
func classifyGen(err error) string {
	msg := err.Error()
	// the whole generator joins the errors of all failed plugin jobs, one "plugin <name>: ..."
	// paragraph each; a job cancelled because another one failed says "context canceled" /
	// "signal: killed": classify the paragraphs and keep what is not such an artefact
	if locs := pluginStart.FindAllStringIndex(msg, -1); len(locs) > 1 && locs[0][0] == 0 {
		classes := map[string]bool{}
		var others []string
		for i, l := range locs {
			end := len(msg)
			if i+1 < len(locs) {
				end = locs[i+1][0]
			}
			seg := strings.TrimSuffix(msg[l[0]:end], "\n")
			c := classifyGen(errors.New(seg))
			if strings.HasPrefix(c, "other(") {
				others = append(others, c)
			} else {
				classes[c] = true
			}
		}
		switch {
		case len(classes) == 1:
			return sortedKeys(classes)[0]
		case len(classes) > 1:
			return "several(" + strings.Join(sortedKeys(classes), "+") + ")"
		default:
			return strings.Join(others, "+")
		}
	}
	switch {
	case strings.Contains(msg, "first value had no name set"):
		return "exec:first-nameless"
	case strings.Contains(msg, "empty name with non-empty insertion point"):
		return "exec:nameless-insertion"
	case strings.Contains(msg, "path was empty"):
		return "exec:path-empty"
	case strings.Contains(msg, "should be relative"):
		return "exec:path-abs"
	case strings.Contains(msg, "should not jump context"):
		return "exec:path-jump"
	case strings.Contains(msg, "unknown CodeGeneratorResponse.Features"):
		return "exec:unknown-features"
	case strings.Contains(msg, "no minimum_edition set"):
		return "exec:no-min-edition"
	case strings.Contains(msg, "no maximum_edition set"):
		return "exec:no-max-edition"
	case strings.Contains(msg, "is greater than maximum_edition"):
		return "exec:min-gt-max"
	case strings.Contains(msg, "does not support feature") || strings.Contains(msg, "does not support edition"):
		return "feature"
	}
	bare := pluginPrefix.ReplaceAllString(msg, "")
	for _, t := range errTexts {
		if bare == t || msg == t {
			return "exec:plugin-error"
		}
	}
	if c := classify(err); !strings.HasPrefix(c, "other(") {
		return c
	}
	// bufgen wraps the response writer's errors with %v: the types are gone, the texts are not
	switch {
	case strings.Contains(bare, "stat ") && strings.Contains(bare, "no such file or directory"):
		return "archive-parent-missing"
	case strings.HasPrefix(bare, "not a directory: "):
		return "archive-parent-not-dir"
	case strings.HasSuffix(bare, "file does not exist"):
		return "not-exist"
	case strings.HasSuffix(bare, "expected to be relative"):
		return "not-relative"
	case strings.HasSuffix(bare, "is outside the context directory"):
		return "outside-context"
	case bare == "cannot use root" || bare == "cannot get root":
		return "root"
	case strings.HasPrefix(bare, "could not find insertion point"):
		return "no-insertion-point"
	}
	return "other(" + strconv.Quote(msg) + ")"
}

// effective: what reaches buf of one plugin's files after protoplugin's normalisation, written
// down independently for the oracle: a file without a name continues the previous one, names are
// cleaned, a plain file whose name an earlier file of the response has is dropped.  ok = false:
// the response is rejected (first file nameless, nameless insertion point, absolute / escaping name).
func effective(files []rfile) ([]rfile, bool) {
	var merged []rfile
	for i, f := range files {
		if f.name == "" {
			if i == 0 || f.ip != "" {
				return nil, false
			}
			merged[len(merged)-1].content += f.content
			continue
		}
		merged = append(merged, f)
	}
	var out []rfile
	seen := map[string]bool{}
	for _, f := range merged {
		n := filepath.ToSlash(filepath.Clean(f.name))
		if filepath.IsAbs(n) || strings.HasPrefix(n, "../") {
			return nil, false
		}
		f.name = n
		if seen[n] && f.ip == "" {
			continue
		}
		seen[n] = true
		out = append(out, f)
	}
	return out, true
}

func runGenCase(run *hx.Run, exe, scratch string, c genCase, line string) (out string) {
	var desc []string
	for i, p := range c.plugs {
		e := "<absent>"
		if p.errSet {
			e = fmt.Sprintf("%q", p.err)
		}
		strategy := "directory"
		if p.all {
			strategy = "all"
		}
		desc = append(desc, fmt.Sprintf("plugin%d out=%q strategy=%s error=%s supported_features=%s minimum_edition=%s maximum_edition=%s generated_code_info=%v",
			i, p.out, strategy, e, optU64(p.feat), optI32(p.minEd), optI32(p.maxEd), p.info))
		for _, f := range p.files {
			desc = append(desc, "  "+f.String())
		}
	}
	mode := "in-process: bufprotoplugin.Generator per plugin, ValidatePluginResponses, response writer"
	if c.par {
		mode = "whole bufgen.Generator, this binary re-executed as every plugin"
	}
	fail := func(class, what string) {
		run.Fail(hx.OracleFailure{Class: class, What: "[" + mode + "] " + what,
			Input:  map[string]any{"line": line, "cwd": c.cwd, "image_requires": c.req.enc(), "plugins": desc},
			Replay: replayCmd(line)})
	}
	root := filepath.Dir(c.cwd)
	if err := os.MkdirAll(c.cwd, 0o755); err != nil {
		panic(err)
	}
	if err := os.Chdir(c.cwd); err != nil {
		panic(err)
	}
	before := cleanTree(root)

	// which plugins does the library reject (in-process, both modes: tells whether several fail)
	failing := 0
	for _, p := range c.plugs {
		if _, err := throughLibrary(p); err != nil {
			failing++
		}
	}
	var err error
	func() {
		defer func() {
			if p := recover(); p != nil {
				fail("C17-panic-generate", fmt.Sprint("panic: ", p))
				err = errors.New("panic")
			}
		}()
		if c.par {
			err = runWholeGenerator(exe, scratch, c)
		} else {
			err = runInProcess(c)
		}
	}()
	after := afterRun(root)

	// ---- oracle, on what reaches buf
	eff := respCase{cwd: c.cwd}
	rejected := false
	for _, p := range c.plugs {
		fs, ok := effective(p.files)
		if !ok || p.err != "" {
			rejected = true
		}
		eff.plugs = append(eff.plugs, plug{out: p.out, files: fs})
	}
	if rejected {
		if err == nil {
			fail("C17-rejected-response-applied", "a plugin's response is malformed (first file without a name, nameless insertion point, absolute or escaping name) or carries a non-empty error, and the run succeeded")
		}
		for p, v := range after {
			if bv, ok := before[p]; !ok || bv != v {
				fail("C17-write-on-failed-plugin", "a plugin failed and "+p+" was written all the same")
			}
		}
	} else {
		if err != nil && pluginPrefix.MatchString(err.Error()) && pluginPrefix.ReplaceAllString(err.Error(), "") == "" {
			fail("C17-empty-error-is-failure", "a plugin failed with an EMPTY error message (an error field that is present but empty is not an error): "+strconv.Quote(err.Error()))
		}
		oracleDisk(eff, err, before, after, fail, true)
		hazard := len(c.req.editions) > 0
		for _, p := range c.plugs {
			hazard = hazard || (p.feat != nil && *p.feat != 0)
		}
		if !hazard {
			oraclePlainRun(eff, err, before, fail)
		}
	}

	// ---- canonical output
	if err != nil {
		out = "err " + classifyGen(err)
		if c.par && failing >= 2 {
			out = "err exec-multi"
		}
		for p, v := range after {
			if bv, ok := before[p]; !ok || bv != v {
				out += " +partial-writes"
				break
			}
		}
		run.Count("D:" + strings.SplitN(out, "(", 2)[0])
		return out
	}
	run.Count("D:ok")
	return canonChanged(run, c.respCase(), before, after, "D")
}

// canonChanged renders what a successful run changed on disk (shared with section B).
func canonChanged(run *hx.Run, c respCase, before, after map[string]string, section string) string {
	var changed []string
	for p, v := range after {
		if bv, ok := before[p]; !ok || bv != v {
			changed = append(changed, p)
		}
	}
	if len(changed) == 0 {
		return "ok -"
	}
	sort.Strings(changed)
	archiveOut := map[string]bool{}
	for _, p := range c.plugs {
		if o := absOutOf(c.cwd, p.out); isArchive(o) {
			archiveOut[o] = true
		}
	}
	parts := make([]string, len(changed))
	for i, p := range changed {
		parts[i] = hx.Enc(p) + "=" + hx.Enc(after[p])
		if archiveOut[p] {
			if entries, ok := readArchive(after[p]); ok {
				parts[i] = hx.Enc(p) + "=" + encArchive(entries)
				run.Count(section + ":ok-archive-written")
			}
		}
	}
	return "ok " + strings.Join(parts, ",")
}

func runInProcess(c genCase) error {
	prs := make([]*bufprotoplugin.PluginResponse, len(c.plugs))
	resps := make([]*pluginpb.CodeGeneratorResponse, len(c.plugs))
	for i, p := range c.plugs {
		resp, err := throughLibrary(p)
		if err != nil {
			return err
		}
		resps[i] = resp
		prs[i] = bufprotoplugin.NewPluginResponse(resp, fmt.Sprintf("verif%d", i), p.out)
	}
	if err := bufprotoplugin.ValidatePluginResponses(prs); err != nil {
		return err
	}
	rw := bufprotopluginos.NewResponseWriter(nopLogger, storageos.NewProvider(storageos.ProviderWithSymlinks()),
		bufprotopluginos.ResponseWriterWithCreateOutDirIfNotExists())
	for i, p := range c.plugs {
		if err := rw.AddResponse(ctx, resps[i], p.out); err != nil {
			return err
		}
	}
	return rw.Close()
}

func runWholeGenerator(exe, scratch string, c genCase) error {
	image, err := genImageFor(c.req)
	if err != nil {
		panic(err)
	}
	_ = os.RemoveAll(scratch)
	if err := os.MkdirAll(scratch, 0o755); err != nil {
		panic(err)
	}
	var pluginConfigs []bufconfig.GeneratePluginConfig
	for i, p := range c.plugs {
		script := filepath.Join(scratch, fmt.Sprintf("full%d.bin", i))
		b, err := proto.Marshal(fullResponse(p))
		if err != nil {
			panic(err)
		}
		if err := os.WriteFile(script, b, 0o644); err != nil {
			panic(err)
		}
		if err := os.WriteFile(script+".trigger", []byte(triggerPath), 0o644); err != nil {
			panic(err)
		}
		strategy := bufconfig.GenerateStrategyDirectory
		if p.all {
			strategy = bufconfig.GenerateStrategyAll
		}
		pc, err := bufconfig.NewLocalGeneratePluginConfig(fmt.Sprintf("verif%d", i), p.out, []string{"full|" + script},
			false, false, nil, nil, &strategy, []string{exe, "--as-plugin"})
		if err != nil {
			panic(err)
		}
		pluginConfigs = append(pluginConfigs, pc)
	}
	genConfig, err := bufconfig.NewGenerateConfig(false, pluginConfigs, bufconfig.NewGenerateManagedConfig(false, nil, nil), nil)
	if err != nil {
		panic(err)
	}
	var stderr bytes.Buffer
	container := app.NewContainer(map[string]string{"PATH": os.Getenv("PATH")}, nil, io.Discard, &stderr)
	return bufgen.NewGenerator(nopLogger, storageos.NewProvider(storageos.ProviderWithSymlinks()), nil).
		Generate(ctx, container, genConfig, []bufimage.Image{image})
}

// ---------------------------------------------------------------------------------------
// generators

func u64(v uint64) *uint64 { return &v }
func i32(v int32) *int32   { return &v }

const markerBase = "head\n  // @@protoc_insertion_point(ip1)\ntail\n"

// outPairs: the output location of two plugins that is ONE location, spelled in two ways.
var outPairs = [][2]string{{"gen", "gen"}, {"gen", "./gen"}, {"gen", "gen/../gen"}, {"gen/", "@abs/gen"}, {"../w/gen", "gen//"},
	{"gen/a.zip", "gen/a.zip"}, {"gen/a.zip", "./gen//a.zip"}, {"gen/b.jar", "@abs/gen/b.jar"}, {"é/out", "./é/out/"}, {".", "@abs"}}

// presenceFamily enumerates, for section P (response writer) and - with response-level fields - for
// section D: plugin A returns base.txt as a plain file, plugin B (same location, another
// spelling) or plugin A itself returns a second file whose name / insertion_point / content
// presence run over every state.
func presenceFamily(cwd string) []respCase {
	abs := func(o string) string { return strings.Replace(o, "@abs", filepath.Dir(cwd)+"/w", 1) }
	type ipState struct {
		ip    string
		ipSet bool
	}
	firstIP := []ipState{{"", false}, {"", true}}
	secondIP := []ipState{{"", false}, {"", true}, {"ip1", false}, {"missing", false}}
	type nameState struct {
		name   string
		noName bool
	}
	secondName := []nameState{{"base.txt", false}, {"./x/..//base.txt", false}, {"", true}, {"", false}, {"other.txt", false}}
	type contentState struct {
		content   string
		noContent bool
	}
	contents := []contentState{{"SECOND\n", false}, {"", true}, {"", false}}
	var out []respCase
	k := 0
	for _, op := range outPairs {
		for _, a := range firstIP {
			for _, b := range secondIP {
				for _, n := range secondName {
					for _, onePlugin := range []bool{false, true} {
						cs := contents[k%len(contents)]
						k++
						f1 := rfile{name: "base.txt", content: markerBase, ipSet: a.ipSet}
						f2 := rfile{name: n.name, noName: n.noName, ip: b.ip, ipSet: b.ipSet, content: cs.content, noContent: cs.noContent}
						c := respCase{cwd: cwd}
						if onePlugin {
							c.plugs = []plug{{out: abs(op[0]), files: []rfile{f1, f2}}}
						} else {
							c.plugs = []plug{{out: abs(op[0]), files: []rfile{f1}}, {out: abs(op[1]), files: []rfile{f2}}}
						}
						out = append(out, c)
					}
				}
			}
		}
	}
	return out
}

// responseLevelFamily: one plugin, one plain file, every state of the response-level fields.
func responseLevelFamily(cwd string) []genCase {
	type errState struct {
		set bool
		v   string
	}
	errs := []errState{{false, ""}, {true, ""}, {true, "E! boom"}, {true, " "}}
	feats := []*uint64{nil, u64(0), u64(1), u64(2), u64(3), u64(4), u64(7), u64(1 << 63)}
	eds := [][2]*int32{{nil, nil}, {i32(0), i32(0)}, {i32(1000), nil}, {nil, i32(1000)}, {i32(1000), i32(1000)}, {i32(998), i32(1001)},
		{i32(1001), i32(1000)}, {i32(1001), i32(2147483647)}, {i32(-1), i32(999)}, {i32(0), i32(1001)}, {i32(999), i32(0)}}
	reqs := []reqKind{{}, {optional: true}, {editions: []int32{1000}}, {editions: []int32{1000, 1000}}, {optional: true, editions: []int32{1000}}}
	var out []genCase
	k := 0
	for _, e := range errs {
		for _, ft := range feats {
			for _, ed := range eds {
				k++
				p := gplug{plug: plug{out: "gen", files: []rfile{{name: "f.txt", content: "F\n"}}}, all: k%2 == 0,
					errSet: e.set, err: e.v, feat: ft, minEd: ed[0], maxEd: ed[1], info: k%3 == 0}
				out = append(out, genCase{cwd: cwd, req: reqs[k%len(reqs)], plugs: []gplug{p}})
			}
		}
	}
	return out
}

func toGenCase(c respCase, r *hx.Rand) genCase {
	g := genCase{cwd: c.cwd, fs: c.fs}
	for _, p := range c.plugs {
		g.plugs = append(g.plugs, gplug{plug: p, all: r.Bool()})
	}
	return g
}

// genRandomGenCase: a random response case (section B's generator, presence included) with
// response-level fields on some plugins.
func genRandomGenCase(r *hx.Rand, cwd string) genCase {
	g := toGenCase(genRespCase(r, cwd), r)
	// fewer hopeless responses: a nameless first file rejects the whole plugin
	for pi := range g.plugs {
		fs := g.plugs[pi].files
		if len(fs) > 0 && fs[0].name == "" && r.Chance(3, 4) {
			fs[0].name, fs[0].noName = fmt.Sprintf("first%d.txt", pi), false
		}
		// a nameless continuation after a real file
		if len(fs) > 0 && r.Chance(1, 5) {
			cont := rfile{noName: r.Bool(), content: hx.Pick(r, []string{"CONT\n", "", "// @@protoc_insertion_point(ip2)\n"}), ipSet: r.Chance(1, 3)}
			at := 1 + r.Intn(len(fs))
			fs = append(fs[:at:at], append([]rfile{cont}, fs[at:]...)...)
			g.plugs[pi].files = fs
		}
		p := &g.plugs[pi]
		switch r.Intn(12) {
		case 0:
			p.errSet = true
		case 1:
			p.errSet, p.err = true, hx.Pick(r, errTexts)
		}
		switch r.Intn(8) {
		case 0:
			p.feat = u64(uint64(r.Intn(4)))
		case 1:
			p.feat = u64(hx.Pick(r, []uint64{4, 5, 8, 1 << 40}))
		case 2:
			p.feat, p.minEd, p.maxEd = u64(uint64(2+r.Intn(2))), i32(hx.Pick(r, []int32{0, 998, 1000, 1001})), i32(hx.Pick(r, []int32{0, 999, 1000, 1001, 2147483647}))
		}
		p.info = r.Chance(1, 6)
	}
	switch r.Intn(6) {
	case 0:
		g.req = reqKind{optional: true}
	case 1:
		g.req = reqKind{editions: []int32{1000}} // the only edition this protobuf-go builds images for
	}
	return g
}

func sectionP(run *hx.Run) {
	root := filepath.Join(run.OutDir, "fs")
	cwd, err := filepath.Abs(filepath.Join(root, "w"))
	if err != nil {
		panic(err)
	}
	if err := os.MkdirAll(cwd, 0o755); err != nil {
		panic(err)
	}
	prev, _ := os.Getwd()
	defer os.Chdir(prev)
	fam := presenceFamily(cwd)
	for i, c := range fam {
		if run.Only >= 0 && run.Only != 2000000+i {
			continue
		}
		if hasArchive(c) {
			cleanTree(root)
			c.fs = statFS(c)
		}
		line := respLine(c)
		out := runResponseCase(run, c, line)
		run.Case(line, out, out != "ok -")
		run.Count("P:cases")
		if w := strings.Fields(out); w[0] == "err" {
			run.Count("P:err " + w[1])
		} else {
			run.Count("P:ok")
		}
	}
}

func sectionD(run *hx.Run, r *hx.Rand) {
	exe, err := os.Executable()
	if err != nil {
		panic(err)
	}
	root := filepath.Join(run.OutDir, "fs")
	cwd, _ := filepath.Abs(filepath.Join(root, "w"))
	scratch, _ := filepath.Abs(filepath.Join(run.OutDir, "gen-scripts"))
	if err := os.MkdirAll(cwd, 0o755); err != nil {
		panic(err)
	}
	prev, _ := os.Getwd()
	defer os.Chdir(prev)

	emit := func(c genCase) {
		if len(c.plugs) > 0 {
			cleanTree(root)
			c.fs = statFS(c.respCase())
		}
		if !c.par {
			c.req = reqKind{} // the in-process driver has no image: nothing is required
		}
		line := genLine(c)
		out := runGenCase(run, exe, scratch, c, line)
		run.Case(line, out, out != "ok -")
		mode := "seq"
		if c.par {
			mode = "par"
		}
		run.Count("D:cases-" + mode)
		for _, p := range c.plugs {
			for _, f := range p.files {
				if f.ipSet {
					run.Count("D:file-insertion_point-present-empty")
				}
				if f.noName {
					run.Count("D:file-name-absent")
				} else if f.name == "" {
					run.Count("D:file-name-present-empty")
				}
				if f.noContent {
					run.Count("D:file-content-absent")
				}
			}
			if p.errSet && p.err == "" {
				run.Count("D:error-present-empty")
			}
		}
	}
	// stratified families: every case in-process; through real processes every case of the
	// presence family in the thorough tier, a rotating third in the quick tier
	rot := int(run.Seed % 3)
	idx := 0
	for _, rc := range presenceFamily(cwd) {
		fr := r.Fork(uint64(1000000 + idx))
		g := toGenCase(rc, fr)
		emit(g)
		if run.Thorough() || idx%3 == rot {
			g.par = true
			emit(g)
		}
		idx++
	}
	for _, g := range responseLevelFamily(cwd) {
		emit(g)
		if run.Thorough() || idx%3 == rot {
			g.par = true
			emit(g)
		}
		idx++
	}
	n := run.N(600, 8000)
	for i := 0; i < n; i++ {
		g := genRandomGenCase(r.Fork(uint64(i)), cwd)
		g.par = i%4 == 0
		emit(g)
	}
}
