// Command c17 is the correspondence + oracle harness for property C17
// ("each file is generated exactly once and plugin output stays in its directory").
//
// Section A (request side).  Generated images (directory layouts, imports shared between
// directories, well-known-type imports, import-only files, imports nothing depends on,
// occasionally unordered or cyclic dependency lists) x plugin configurations (strategy
// directory / all, include_imports, include_wkt) go through the real
// bufimage.ImageByDir + bufimage.ImagesToCodeGeneratorRequests; every request's
// file_to_generate, proto_file (with "source-retention options stripped" observed through a
// real source-retention extension) and source_file_descriptors are compared with the Lean model.
// The requests are additionally pushed through bufprotoplugin.NewGenerator with an in-process
// recording handler, so what a plugin really receives is what is judged.
//
// Section B (response side).  Scripted CodeGeneratorResponses with hostile file names,
// insertion points and duplicates are applied exactly as bufgen.generateCode does
// (ValidatePluginResponses, then bufprotopluginos.ResponseWriter.AddResponse per plugin in
// configuration order, then Close) inside a scratch tree with sentinel files outside the out
// directories; the resulting error class / set of written files is compared with the model.
//
// Section C drives the whole bufgen.Generator with this binary re-executed as the plugin.
//
// The oracle (implementation only) counts file_to_generate entries over all requests of one
// plugin, checks each request is dependency-closed and ordered, snapshots the scratch tree
// outside every out directory, demands an error for duplicate output paths and for insertion
// points into files not produced in the same run.
package main

import (
	"fmt"
	"os"
	"path/filepath"
	"sort"
	"strings"

	"github.com/bufbuild/verifharness/internal/hx"
)

func main() {
	if len(os.Args) > 1 && os.Args[1] == "--as-plugin" {
		pluginMain()
		return
	}
	run := hx.Start("C17")
	defer run.Finish()
	r := hx.NewRand(run.Seed)
	if len(run.Args) > 0 && run.Args[0] == "replay" {
		replay(run, run.Args[1:])
		return
	}
	// C17_SECTIONS=ABPDC (development aid): run only the named sections
	want := func(x string) bool { v := os.Getenv("C17_SECTIONS"); return v == "" || strings.Contains(v, x) }
	if want("A") {
		sectionA(run, r.Fork(1))
	}
	if want("B") {
		sectionB(run, r.Fork(2))
	}
	if want("P") {
		sectionP(run)
	}
	if want("D") {
		sectionD(run, r.Fork(4))
	}
	if want("C") {
		sectionC(run, r.Fork(3))
	}
}

func replay(run *hx.Run, args []string) {
	if len(args) < 1 {
		fmt.Fprintln(os.Stderr, "replay needs a protocol line (TAB-separated fields as one argument)")
		os.Exit(2)
	}
	line := args[0]
	fields := strings.Split(line, "\t")
	switch fields[0] {
	case "req":
		img, cfg, err := parseReqLine(fields)
		if err != nil {
			panic(err)
		}
		out := runRequestCase(run, img, cfg, line)
		fmt.Println(out)
	case "resp":
		c, err := parseRespLine(fields)
		if err != nil {
			panic(err)
		}
		out := runResponseCase(run, c, line)
		fmt.Println(out)
	case "gen":
		c, err := parseGenLine(fields)
		if err != nil {
			panic(err)
		}
		exe, _ := os.Executable()
		scratch, _ := filepath.Abs(filepath.Join(run.OutDir, "gen-scripts"))
		out := runGenCase(run, exe, scratch, c, line)
		fmt.Println(out)
	}
}

func sortedKeys[V any](m map[string]V) []string {
	ks := make([]string, 0, len(m))
	for k := range m {
		ks = append(ks, k)
	}
	sort.Strings(ks)
	return ks
}

func replayCmd(line string) string {
	return "build/c17 --out /tmp/c17-replay replay " + fmt.Sprintf("%q", line)
}
