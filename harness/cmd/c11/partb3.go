package main

// Part B3 (oracle only): the ROUND-TRIP half of C11 on the schema family the protobuf runtime
// treats specially.  An image that was written in any encoding x compression and read back must
// equal the image built from the sources FIELD BY FIELD, and write -> read -> write must be
// byte-stable.
//
// Family (every member is one file, instantiated once under t/ (target files) and once under i/
// (files that become imports when the build is restricted to --path t); members are re-derived
// from the BUILT descriptors by a self-check, not trusted from generator intent):
//   mset        message_set_wire_format messages with `extensions 4 to max` (and split / high-start
//               ranges) at top level and nested at depth 1-3 below parents that have NOTHING legacy
//               of their own, and below parents that do; extensions numbered 2^29-1, 2^29, 2^31-2
//   weak        `import weak`, `[weak = true]` fields at depth 0-3, weak extension
//   bigext      ordinary extension range ending at 2^29-1 and an extension with that number
//   p2          proto2 required / default values of every scalar kind / groups (nested, repeated,
//               in a oneof, as an extension)
//   packed      packed / unpacked overrides in proto2, proto3 and editions
//   editions    edition 2023 features on file, message, field, enum, oneof
//   copts       custom options of every value shape (all scalar kinds, enum, message, nested
//               message, repeated scalar / message, map inside a message, Any inside a message) on
//               every element kind (file, message, field, oneof, enum, enum value, service, method,
//               extension range)
//   jsonname    json_name collisions (proto2, editions legacy json format) and explicit json_name
//   reserved    reserved ranges / names at the limits (2^29-1, max, int32 min/max for enums)
//   unknown     unknown fields injected into the options messages of an encoded image
//               (resolvable = a declared custom option given as raw bytes, and unresolvable numbers,
//               every wire type)
//
// Comparison and its ONLY normalisations:
//   (n1) both sides are brought into canonical wire form: deterministic marshal, then unmarshal
//        WITHOUT a resolver.  A custom option is then the same bytes whether the reader had turned
//        it into a known extension field or left it as unknown bytes; nothing else changes.
//   (n2) the expected image is the built image with the SAME flags applied by hand
//        (--exclude-imports: files with is_import dropped; --exclude-source-info: source_code_info
//        cleared; --as-file-descriptor-set: the buf extension of every file cleared, because a
//        FileDescriptorSet cannot carry it).
//   (n3) unknown-field injection only: json / txtpb / yaml have no representation for a field that
//        no descriptor of the image declares, so for those three encodings exactly the injected
//        UNRESOLVABLE fields are removed from the expected image (binpb must keep them byte for
//        byte); counted as `B3:unknown-unresolvable-not-representable`.
// Everything else (field order of files, every descriptor field, options, extension ranges,
// source info, is_import, unused dependencies, module info) is compared by proto.Equal per file.

import (
	"bytes"
	"compress/gzip"
	"context"
	"fmt"
	"io"
	"io/fs"
	"log/slog"
	"net/http"
	"os"
	"path/filepath"
	"sort"
	"strings"
	"sync"
	"time"

	"github.com/bufbuild/buf/private/buf/bufctl"
	"github.com/bufbuild/buf/private/buf/bufwkt/bufwktstore"
	"github.com/bufbuild/buf/private/bufpkg/bufimage"
	"github.com/bufbuild/buf/private/bufpkg/bufmodule"
	"github.com/bufbuild/buf/private/bufpkg/bufparse"
	"github.com/bufbuild/buf/private/bufpkg/bufplugin"
	imagev1 "github.com/bufbuild/buf/private/gen/proto/go/buf/alpha/image/v1"
	"github.com/bufbuild/buf/private/pkg/app"
	"github.com/bufbuild/buf/private/pkg/git"
	"github.com/bufbuild/buf/private/pkg/httpauth"
	"github.com/bufbuild/buf/private/pkg/storage/storageos"
	"github.com/bufbuild/verifharness/internal/hx"
	"github.com/klauspost/compress/zstd"
	"google.golang.org/protobuf/encoding/protowire"
	"google.golang.org/protobuf/proto"
	"google.golang.org/protobuf/reflect/protoreflect"
	"google.golang.org/protobuf/types/descriptorpb"
)

const maxTag = 536870911 // 2^29-1

// ---------------------------------------------------------------------------------------
// in-process controller (the same constructor bufcli.NewController ends in)

type noModuleKeys struct{}

func (noModuleKeys) GetModuleKeysForModuleRefs(_ context.Context, refs []bufparse.Ref, _ bufmodule.DigestType) ([]bufmodule.ModuleKey, error) {
	if len(refs) == 0 {
		return nil, nil
	}
	return nil, &fs.PathError{Op: "read", Path: refs[0].String(), Err: fs.ErrNotExist}
}

type lockedBuf struct {
	mu sync.Mutex
	b  bytes.Buffer
}

func (l *lockedBuf) Write(p []byte) (int, error) {
	l.mu.Lock()
	defer l.mu.Unlock()
	return l.b.Write(p)
}
func (l *lockedBuf) Reset()         { l.mu.Lock(); defer l.mu.Unlock(); l.b.Reset() }
func (l *lockedBuf) Len() int       { l.mu.Lock(); defer l.mu.Unlock(); return l.b.Len() }
func (l *lockedBuf) String() string { l.mu.Lock(); defer l.mu.Unlock(); return l.b.String() }

var ctlStderr = &lockedBuf{}

func newController(base string, stdin io.Reader, stdout io.Writer) bufctl.Controller {
	cacheDir := filepath.Join(base, "_cache")
	must0(os.MkdirAll(filepath.Join(cacheDir, "wkt"), 0o755))
	lg := slog.New(slog.NewTextHandler(io.Discard, nil))
	container := app.NewContainer(
		map[string]string{"HOME": cacheDir, "BUF_CACHE_DIR": cacheDir, "BUF_CONFIG_DIR": cacheDir},
		stdin, stdout, ctlStderr,
	)
	wktBucket := must(storageos.NewProvider().NewReadWriteBucket(filepath.Join(cacheDir, "wkt")))
	return must(bufctl.NewController(
		lg, container,
		bufmodule.NopGraphProvider, noModuleKeys{}, bufmodule.NopModuleDataProvider, bufmodule.NopCommitProvider,
		bufplugin.NopPluginKeyProvider, bufplugin.NopPluginDataProvider,
		bufwktstore.NewStore(lg, wktBucket),
		&http.Client{}, httpauth.NewNopAuthenticator(), git.ClonerOptions{},
		bufctl.WithFileAnnotationErrorFormat("text"),
	))
}

// ---------------------------------------------------------------------------------------
// schema family

type b3File struct {
	path   string
	member string
	body   string
}

type b3WS struct {
	files    []b3File
	useOpts  bool // custom options are USED somewhere in the image
	useAny   bool // ... and some option value holds a google.protobuf.Any
	optsDir  string
	named    bool
	variant  string
	hasExtra bool
}

// chain renders `inner` nested below depth clean parents P1..Pd (each parent has an ordinary
// field only when fields is true: a message-set parent cannot have fields).
func chain(depth int, prefix, inner string) (text, qualified string) {
	text = inner
	var names []string
	for d := depth; d >= 1; d-- {
		n := fmt.Sprintf("%s%d", prefix, d)
		names = append([]string{n}, names...)
		text = "message " + n + " {\n  optional int32 keep" + fmt.Sprint(d) + " = 1;\n" + indent(text) + "}\n"
	}
	return text, strings.Join(names, ".")
}

func indent(s string) string {
	lines := strings.Split(strings.TrimRight(s, "\n"), "\n")
	for i := range lines {
		lines[i] = "  " + lines[i]
	}
	return strings.Join(lines, "\n") + "\n"
}

func qual(parent, name string) string {
	if parent == "" {
		return name
	}
	return parent + "." + name
}

// optUse returns the bracketed option list for an element kind when custom options are in use.
type optUser struct {
	on  bool
	any bool
	pkg string
	r   *hx.Rand
}

func (o optUser) cfg() string {
	if !o.any {
		return fmt.Sprintf("{ level: %d names: \"n\" names: \"m\" m: { key: \"k\" value: %d } sub: { level: -1 e: E1 } }", o.r.Intn(100), o.r.Intn(9))
	}
	return fmt.Sprintf("{ level: %d names: \"n\" names: \"m\" m: { key: \"k\" value: %d } sub: { level: -1 e: E1 } any: { [type.googleapis.com/%s.Cfg]: { level: 9 } } }", o.r.Intn(100), o.r.Intn(9), o.pkg)
}

func (o optUser) stmt(kind string) string { // an `option ...;` statement for a body
	if !o.on {
		return ""
	}
	p := o.pkg
	switch kind {
	case "file":
		return fmt.Sprintf("option (%s.f_str) = \"file \\\"q\\\" \\n\";\noption (%s.f_cfg) = %s;\noption (%s.f_rep) = 3;\noption (%s.f_rep) = 1;\noption (%s.f_rcfg) = { level: 1 };\noption (%s.f_rcfg) = { names: \"z\" };\n", p, p, o.cfg(), p, p, p, p)
	case "message":
		return fmt.Sprintf("option (%s.m_i64) = -%d;\noption (%s.m_cfg) = %s;\noption (%s.m_bytes) = \"\\x00\\xff\\n\";\n", p, 1+o.r.Intn(1000), p, o.cfg(), p)
	case "oneof":
		return fmt.Sprintf("option (%s.o_bool) = true;\noption (%s.o_u64) = 18446744073709551615;\n", p, p)
	case "enum":
		return fmt.Sprintf("option (%s.e_enum) = E1;\noption (%s.e_f32) = 1.5;\n", p, p)
	case "service":
		return fmt.Sprintf("option (%s.s_fx64) = 18446744073709551615;\noption (%s.s_sf32) = -7;\n", p, p)
	case "method":
		return fmt.Sprintf("option (%s.r_rcfg) = { level: 1 };\noption (%s.r_rcfg) = { level: 2 sub: { names: \"deep\" } };\noption (%s.r_dbl) = -0.25;\n", p, p, p)
	}
	panic(kind)
}

func (o optUser) list(kind string) string { // a `[...]` list
	if !o.on {
		return ""
	}
	p := o.pkg
	switch kind {
	case "field":
		return fmt.Sprintf(" [(%s.fl_str) = \"t%d\", (%s.fl_cfg) = { level: %d }, (%s.fl_s64) = -3, (%s.fl_u32) = 4294967295, (%s.fl_rstr) = \"a\", (%s.fl_rstr) = \"b\"]", p, o.r.Intn(100), p, o.r.Intn(9), p, p, p, p)
	case "value":
		return fmt.Sprintf(" [(%s.v_f32) = 2.5, (%s.v_sf64) = -9]", p, p)
	case "range":
		return fmt.Sprintf(" [(%s.x_u32) = 7, (%s.x_cfg) = { names: \"r\" }]", p, p)
	}
	panic(kind)
}

func optsFile(pkg string) string {
	return `syntax = "proto2";
package ` + pkg + `;
import "google/protobuf/descriptor.proto";
import "google/protobuf/any.proto";
enum E { E0 = 0; E1 = 1; }
message Cfg {
  optional int32 level = 1;
  repeated string names = 2;
  map<string, int32> m = 3;
  optional google.protobuf.Any any = 4;
  optional Cfg sub = 5;
  optional E e = 6;
}
extend google.protobuf.FileOptions { optional string f_str = 50001; optional Cfg f_cfg = 50002; repeated int32 f_rep = 50003; repeated Cfg f_rcfg = 50004; }
extend google.protobuf.MessageOptions { optional int64 m_i64 = 50011; optional Cfg m_cfg = 50012; optional bytes m_bytes = 50013; }
extend google.protobuf.FieldOptions { optional string fl_str = 50021; optional Cfg fl_cfg = 50022; optional sint64 fl_s64 = 50023; optional uint32 fl_u32 = 50024; repeated string fl_rstr = 50025; }
extend google.protobuf.OneofOptions { optional bool o_bool = 50031; optional uint64 o_u64 = 50032; }
extend google.protobuf.EnumOptions { optional E e_enum = 50041; optional float e_f32 = 50042; }
extend google.protobuf.EnumValueOptions { optional float v_f32 = 50051; optional sfixed64 v_sf64 = 50052; }
extend google.protobuf.ServiceOptions { optional fixed64 s_fx64 = 50061; optional sfixed32 s_sf32 = 50062; }
extend google.protobuf.MethodOptions { repeated Cfg r_rcfg = 50071; optional double r_dbl = 50072; }
extend google.protobuf.ExtensionRangeOptions { optional uint32 x_u32 = 50081; optional Cfg x_cfg = 50082; }
`
}

type memberGen func(r *hx.Rand, pkg string, o optUser, depth int) string

func hdr(syntax, pkg string, o optUser, imports ...string) string {
	var sb strings.Builder
	sb.WriteString("// file of package " + pkg + "\n")
	switch syntax {
	case "proto2", "proto3":
		sb.WriteString("syntax = \"" + syntax + "\";\n")
	case "2023":
		sb.WriteString("edition = \"2023\";\n")
	}
	sb.WriteString("package " + pkg + ";\n")
	for _, im := range imports {
		sb.WriteString("import " + im + ";\n")
	}
	if o.on {
		sb.WriteString("import \"" + o.pkgPath() + "\";\n")
		sb.WriteString(o.stmt("file"))
	}
	return sb.String()
}

var optsPathOf = map[string]string{}

func (o optUser) pkgPath() string { return optsPathOf[o.pkg] }

// msetMember: a message-set message below `depth` parents.  shape selects the extension ranges,
// parentLegacy makes the DIRECT parent legacy itself (weak field), holder nests the `extend` block.
func msetMember(shape int, parentLegacy, holder bool) memberGen {
	return func(r *hx.Rand, pkg string, o optUser, depth int) string {
		ranges := []string{
			"extensions 4 to max" + o.list("range") + ";",
			"extensions 4 to 536870911, 536870912 to max;",
			"extensions 4 to 100;\n  extensions 536870912 to 536870920" + o.list("range") + ";\n  extensions 536870921 to max;",
			"extensions 1 to 536870911;\n  extensions 536870912 to 2147483646;",
		}[shape%4]
		ms := "// comment on the message set\nmessage MS {\n  option message_set_wire_format = true;\n" + indent(o.stmt("message")) + "  " + ranges + "\n  message InMS { optional string s = 1; }\n}\n"
		text, q := chain(depth, "P", ms)
		if depth == 0 {
			text = ms
		}
		if parentLegacy && depth > 0 {
			// the direct parent carries a weak field of its own
			text = strings.Replace(text, fmt.Sprintf("optional int32 keep%d = 1;", depth), fmt.Sprintf("optional int32 keep%d = 1;\n  optional google.protobuf.Empty wk = 2 [weak = true];", depth), 1)
		}
		target := qual(q, "MS")
		ext := "extend " + target + " {\n  optional Payload e_hi = 2147483646;\n  optional Payload e_29 = 536870911" + o.list("field") + ";\n  optional Payload e_29p = 536870912;\n  optional Payload e_lo = 4;\n}\n"
		if shape%4 == 2 {
			ext = "extend " + target + " {\n  optional Payload e_hi = 2147483646;\n  optional Payload e_29p = 536870912;\n  optional Payload e_lo = 4;\n}\n"
		}
		if holder {
			ext = "message Holder {\n  optional int32 h = 1;\n  message Inner {\n" + indent(indent(ext)) + "  }\n}\n"
		}
		imports := []string{}
		if parentLegacy && depth > 0 {
			imports = append(imports, "weak \"google/protobuf/empty.proto\"")
		}
		return hdr("proto2", pkg, o, imports...) + "message Payload { optional string v = 1; }\n" + text + ext
	}
}

func weakMember(r *hx.Rand, pkg string, o optUser, depth int) string {
	inner := "message W {\n  optional google.protobuf.Empty w = 1 [weak = true];\n  optional google.protobuf.Empty nw = 2" + o.list("field") + ";\n  optional int32 n = 3 [deprecated = true];\n  extensions 10 to 20;\n}\n"
	text, q := chain(depth, "Q", inner)
	if depth == 0 {
		text = inner
	}
	return hdr("proto2", pkg, o, "weak \"google/protobuf/empty.proto\"", "public \"google/protobuf/duration.proto\"") + text +
		"extend " + qual(q, "W") + " { optional google.protobuf.Empty we = 10 [weak = true]; optional google.protobuf.Duration du = 11; }\n"
}

func bigextMember(r *hx.Rand, pkg string, o optUser, depth int) string {
	inner := "message B {\n  optional int32 a = 1;\n  extensions 100 to 536870911" + o.list("range") + ";\n  extensions 50, 60 to 70;\n}\n"
	text, q := chain(depth, "R", inner)
	if depth == 0 {
		text = inner
	}
	return hdr("proto2", pkg, o) + text + "extend " + qual(q, "B") + " { optional int32 top = 536870911; optional string mid = 100" + o.list("field") + "; repeated sint32 fifty = 50 [packed = true]; }\n"
}

func p2Member(r *hx.Rand, pkg string, o optUser, depth int) string {
	inner := `message D {
  required string id = 1` + o.list("field") + `;
  required group Req = 2 { required int32 x = 1; }
  optional int32 i32 = 3 [default = -2147483648];
  optional int64 i64 = 4 [default = 9223372036854775807];
  optional uint32 u32 = 5 [default = 4294967295];
  optional uint64 u64 = 6 [default = 18446744073709551615];
  optional sint32 s32 = 7 [default = -1];
  optional fixed64 f64 = 8 [default = 0];
  optional float fl = 9 [default = -inf];
  optional double db = 10 [default = nan];
  optional double db2 = 11 [default = 1e-300];
  optional bool bo = 12 [default = true];
  optional string st = 13 [default = "a\"b\\c\n\001\xe2\x82\xac"];
  optional bytes by = 14 [default = "\000\377\\'"];
  optional Color co = 15 [default = BLUE];
  repeated group Rep = 16 { optional int32 y = 1; optional group Deep = 2 { optional D back = 1; } }
  oneof choice {
` + indent(indent(o.stmt("oneof"))) + `    group InOneof = 17 { optional int32 z = 1; }
    string other = 18;
  }
  enum Color { RED = 0; BLUE = 5` + o.list("value") + `; }
  extensions 100 to 199;
}
`
	text, q := chain(depth, "S", inner)
	if depth == 0 {
		text = inner
	}
	return hdr("proto2", pkg, o) + text + "extend " + qual(q, "D") + " { optional group ExtGroup = 100 { optional int32 g = 1; } repeated " + qual(q, "D") + " self = 101; }\n"
}

func packedMember(syntax string) memberGen {
	return func(r *hx.Rand, pkg string, o optUser, depth int) string {
		var inner string
		switch syntax {
		case "proto2":
			inner = "message K {\n  repeated int32 a = 1 [packed = true];\n  repeated int32 b = 2 [packed = false];\n  repeated int32 c = 3;\n  repeated Mode d = 4 [packed = true" + strings.Replace(o.list("field"), " [", ", ", 1) + ";\n  enum Mode { M0 = 0; }\n}\n"
			if !o.on {
				inner = strings.Replace(inner, "[packed = true;", "[packed = true];", 1)
			}
		case "proto3":
			inner = "message K {\n  repeated int32 a = 1 [packed = true];\n  repeated int32 b = 2 [packed = false];\n  repeated int32 c = 3;\n  repeated double d = 4 [packed = false, deprecated = true];\n  optional int32 o3 = 5;\n  map<int32, K> mk = 6;\n}\n"
		case "2023":
			inner = "message K {\n  repeated int32 a = 1 [features.repeated_field_encoding = PACKED];\n  repeated int32 b = 2 [features.repeated_field_encoding = EXPANDED];\n  repeated int32 c = 3;\n}\n"
		}
		text, _ := chain(depth, "T", inner)
		if depth == 0 || syntax != "proto2" {
			text = inner
		}
		return hdr(syntax, pkg, o) + text
	}
}

func editionsMember(r *hx.Rand, pkg string, o optUser, depth int) string {
	return hdr("2023", pkg, o) + `option features.field_presence = IMPLICIT;
option features.enum_type = CLOSED;
option features.message_encoding = DELIMITED;
// comment on M
message M {
` + indent(o.stmt("message")) + `  int32 a = 1 [features.field_presence = LEGACY_REQUIRED];
  int32 b = 2 [features.field_presence = EXPLICIT, default = 5];
  repeated int32 c = 3 [features.repeated_field_encoding = EXPANDED];
  string d = 4 [features.utf8_validation = NONE];
  M e = 5;
  M f = 6 [features.message_encoding = LENGTH_PREFIXED];
  message N {
    option features.json_format = LEGACY_BEST_EFFORT;
    int32 foo_bar = 1;
    int32 fooBar = 2;
    message NN { message NNN { int32 deep = 1 [features.field_presence = EXPLICIT]; } }
  }
  enum E { option features.enum_type = OPEN; E0 = 0; }
  oneof pick { int32 p1 = 7; N p2 = 8; }
  extensions 10 to 20;
  reserved 21, 22;
  reserved gone;
}
extend M { int32 x = 10; M.N y = 11 [features.message_encoding = LENGTH_PREFIXED]; }
enum CE { C1 = 1` + o.list("value") + `; }
`
}

func coptsMember(r *hx.Rand, pkg string, o optUser, depth int) string {
	inner := "// leading comment\nmessage C {\n" + indent(o.stmt("message")) +
		"  optional string id = 1" + o.list("field") + "; // trailing\n" +
		"  oneof pick {\n" + indent(indent(o.stmt("oneof"))) + "    int32 a = 2" + o.list("field") + ";\n    string b = 3;\n  }\n" +
		"  enum In {\n" + indent(indent(o.stmt("enum"))) + "    IN0 = 0" + o.list("value") + ";\n    IN1 = 1;\n  }\n" +
		"  extensions 100 to 200" + o.list("range") + ";\n  extensions 300" + o.list("range") + ";\n" +
		"  map<string, C> by = 4" + o.list("field") + ";\n}\n"
	text, q := chain(depth, "U", inner)
	if depth == 0 {
		text = inner
	}
	c := qual(q, "C")
	return hdr("proto2", pkg, o) + text +
		"extend " + c + " { optional int32 xe = 100" + o.list("field") + "; }\n" +
		"enum Top {\n" + indent(o.stmt("enum")) + "  T0 = 0" + o.list("value") + ";\n}\n" +
		"service Svc {\n" + indent(o.stmt("service")) + "  rpc Get(" + c + ") returns (" + c + ") {\n" + indent(indent(o.stmt("method"))) + "  }\n  rpc Stream(stream " + c + ") returns (stream " + c + ");\n}\n"
}

func jsonNameMember(r *hx.Rand, pkg string, o optUser, depth int) string {
	inner := "message J {\n  optional int32 foo_bar = 1;\n  optional int32 fooBar = 2;\n  optional int32 x = 3 [json_name = \"y\"];\n  optional int32 y = 4 [json_name = \"x\"];\n  optional int32 Foo_bar = 5" + o.list("field") + ";\n  optional int32 plain = 6 [json_name = \"plain\"];\n  optional int32 odd = 7 [json_name = \"@ty pe\\\"\"];\n}\n"
	text, _ := chain(depth, "V", inner)
	if depth == 0 {
		text = inner
	}
	return hdr("proto2", pkg, o) + text + "enum EJ { option allow_alias = true; A_B = 0; aB = 0; }\n"
}

func reservedMember(r *hx.Rand, pkg string, o optUser, depth int) string {
	inner := "message R {\n  reserved 536870911;\n  reserved 1 to 3;\n  reserved 1000 to 536870910;\n  reserved \"a\", \"b\";\n  extensions 4 to 4;\n  extensions 5 to 999;\n}\nmessage R2 { reserved 1 to max; }\n"
	text, _ := chain(depth, "X", inner)
	if depth == 0 {
		text = inner
	}
	return hdr("proto2", pkg, o) + text + "enum RE { V = 0; reserved -2147483648 to -1, 2147483647; reserved 1 to 100; reserved \"X\"; }\nenum RE2 { W = 0; reserved 1 to max; reserved -5 to -1; }\n"
}

type memberSpec struct {
	name  string
	gen   memberGen
	depth int
}

// familyMembers: the stratified list; every entry is instantiated in t/ and in i/.
func familyMembers(r *hx.Rand, random bool) []memberSpec {
	ms := []memberSpec{
		{"mset-d0", msetMember(0, false, false), 0},
		{"mset-d1", msetMember(0, false, false), 1},
		{"mset-d2-split", msetMember(1, false, true), 2},
		{"mset-d3-highstart", msetMember(2, false, false), 3},
		{"mset-d1-parentlegacy", msetMember(3, true, false), 1},
		{"mset-d2-parentlegacy", msetMember(0, true, true), 2},
		{"weak-d0", weakMember, 0},
		{"weak-d2", weakMember, 2},
		{"bigext-d0", bigextMember, 0},
		{"bigext-d3", bigextMember, 3},
		{"p2-d0", p2Member, 0},
		{"p2-d1", p2Member, 1},
		{"packed-p2", packedMember("proto2"), 1},
		{"packed-p3", packedMember("proto3"), 0},
		{"packed-ed", packedMember("2023"), 0},
		{"editions", editionsMember, 0},
		{"copts-d0", coptsMember, 0},
		{"copts-d2", coptsMember, 2},
		{"jsonname", jsonNameMember, 1},
		{"reserved", reservedMember, 0},
	}
	if random {
		// random re-draw of depth / shape; every member kind stays present
		for i := range ms {
			if r.Chance(1, 2) {
				ms[i].depth = r.Intn(4)
			}
		}
		ms = append(ms, memberSpec{"mset-rand", msetMember(r.Intn(4), r.Bool(), r.Bool()), 1 + r.Intn(3)})
		hx.Shuffle(r, ms)
	}
	return ms
}

func genB3WS(r *hx.Rand, variant string) b3WS {
	ws := b3WS{variant: variant, named: r.Bool()}
	ws.useOpts = variant != "no-options"
	ws.optsDir = hx.Pick(r, []string{"t", "i"})
	switch variant {
	case "options-used":
		ws.useAny, ws.optsDir = true, "i"
	case "options-no-any":
		ws.optsDir = "t"
	case "random":
		ws.useAny = r.Bool()
	}
	optsPkg := "o"
	optsPath := ws.optsDir + "/opts.proto"
	optsPathOf[optsPkg] = optsPath
	ws.files = append(ws.files, b3File{optsPath, "opts", optsFile(optsPkg)})
	members := familyMembers(r, variant == "random")
	var agg strings.Builder
	agg.WriteString("syntax = \"proto3\";\npackage agg;\n")
	for _, dir := range []string{"t", "i"} {
		for k, m := range members {
			pkg := fmt.Sprintf("%s%d", dir, k)
			o := optUser{on: ws.useOpts, any: ws.useAny, pkg: optsPkg, r: r}
			if variant == "random" && r.Chance(1, 3) {
				o.on = false
			}
			path := fmt.Sprintf("%s/%s_%d.proto", dir, strings.ReplaceAll(m.name, "-", "_"), k)
			ws.files = append(ws.files, b3File{path, m.name, m.gen(r, pkg, o, m.depth)})
			if dir == "i" {
				agg.WriteString("import \"" + path + "\";\n")
			}
		}
	}
	if ws.optsDir == "i" {
		agg.WriteString("import \"" + optsPath + "\";\n")
	}
	agg.WriteString("message Agg { string id = 1; }\n")
	ws.files = append(ws.files, b3File{"t/agg.proto", "agg", agg.String()})
	return ws
}

func (ws b3WS) write(dir string) {
	must0(os.RemoveAll(dir))
	for _, f := range ws.files {
		full := filepath.Join(dir, f.path)
		must0(os.MkdirAll(filepath.Dir(full), 0o755))
		must0(os.WriteFile(full, []byte(f.body), 0o644))
	}
	y := "version: v2\n"
	if ws.named {
		y += "modules:\n  - path: .\n    name: buf.build/acme/legacy\n"
	}
	must0(os.WriteFile(filepath.Join(dir, "buf.yaml"), []byte(y), 0o644))
}

// ---------------------------------------------------------------------------------------
// canonical form + field-by-field comparison

func canonFile(f *imagev1.ImageFile) *imagev1.ImageFile {
	b := must(proto.MarshalOptions{Deterministic: true}.Marshal(f))
	out := &imagev1.ImageFile{}
	must0(proto.Unmarshal(b, out))
	return out
}

func canonFiles(img *imagev1.Image) []*imagev1.ImageFile {
	out := make([]*imagev1.ImageFile, len(img.GetFile()))
	for i, f := range img.GetFile() {
		out[i] = canonFile(f)
	}
	return out
}

// firstFieldDiff returns "" when a and b are equal, else the path of the first differing field.
func firstFieldDiff(path string, a, b protoreflect.Message) string {
	if !a.IsValid() || !b.IsValid() {
		if a.IsValid() != b.IsValid() {
			return path + ": present on one side only"
		}
		return ""
	}
	fds := a.Descriptor().Fields()
	for i := 0; i < fds.Len(); i++ {
		fd := fds.Get(i)
		p := path + "." + string(fd.Name())
		ha, hb := a.Has(fd), b.Has(fd)
		if ha != hb {
			return fmt.Sprintf("%s: set=%v vs set=%v (%s | %s)", p, ha, hb, short(a.Get(fd), fd), short(b.Get(fd), fd))
		}
		if !ha {
			continue
		}
		va, vb := a.Get(fd), b.Get(fd)
		switch {
		case fd.IsList():
			la, lb := va.List(), vb.List()
			if la.Len() != lb.Len() {
				return fmt.Sprintf("%s: %d vs %d entries", p, la.Len(), lb.Len())
			}
			for j := 0; j < la.Len(); j++ {
				pj := fmt.Sprintf("%s[%d]", p, j)
				if fd.Message() != nil {
					if fd.Name() == "message_type" || fd.Name() == "nested_type" || fd.Name() == "field" || fd.Name() == "enum_type" || fd.Name() == "service" || fd.Name() == "extension" || fd.Name() == "method" || fd.Name() == "value" {
						if n := la.Get(j).Message().Descriptor().Fields().ByName("name"); n != nil {
							pj = fmt.Sprintf("%s[%d:%s]", p, j, la.Get(j).Message().Get(n).String())
						}
					}
					if d := firstFieldDiff(pj, la.Get(j).Message(), lb.Get(j).Message()); d != "" {
						return d
					}
				} else if !la.Get(j).Equal(lb.Get(j)) {
					return fmt.Sprintf("%s: %v vs %v", pj, la.Get(j), lb.Get(j))
				}
			}
		case fd.IsMap():
			if !va.Equal(vb) {
				return p + ": map differs"
			}
		case fd.Message() != nil:
			if d := firstFieldDiff(p, va.Message(), vb.Message()); d != "" {
				return d
			}
		default:
			if !va.Equal(vb) {
				return fmt.Sprintf("%s: %s vs %s", p, short(va, fd), short(vb, fd))
			}
		}
	}
	if !bytes.Equal(a.GetUnknown(), b.GetUnknown()) {
		return fmt.Sprintf("%s: unknown/extension bytes differ: %s vs %s", path, describeUnknown(a.GetUnknown()), describeUnknown(b.GetUnknown()))
	}
	return ""
}

func short(v protoreflect.Value, fd protoreflect.FieldDescriptor) string {
	if fd.IsList() || fd.IsMap() {
		return "…"
	}
	s := v.String()
	if fd.Message() != nil {
		s = "{…}"
	}
	if len(s) > 60 {
		s = s[:60] + "…"
	}
	return s
}

func describeUnknown(b []byte) string {
	var parts []string
	for len(b) > 0 {
		num, typ, n := protowire.ConsumeTag(b)
		if n < 0 {
			return "malformed"
		}
		m := protowire.ConsumeFieldValue(num, typ, b[n:])
		if m < 0 {
			return "malformed"
		}
		parts = append(parts, fmt.Sprintf("#%d/%d:%dB", num, typ, m))
		b = b[n+m:]
	}
	if len(parts) > 8 {
		parts = append(parts[:8], "…")
	}
	return "[" + strings.Join(parts, " ") + "]"
}

// diffImages compares two file lists in order; returns "" when equal.
func diffImages(want, got []*imagev1.ImageFile) string {
	if len(want) != len(got) {
		w, g := map[string]bool{}, map[string]bool{}
		for _, n := range fileNames(want) {
			w[n] = true
		}
		var missing, extra []string
		for _, n := range fileNames(got) {
			g[n] = true
			if !w[n] {
				extra = append(extra, n)
			}
		}
		for _, n := range fileNames(want) {
			if !g[n] {
				missing = append(missing, n)
			}
		}
		return fmt.Sprintf("%d files expected, %d found: missing %v, additional %v", len(want), len(got), missing, extra)
	}
	for i := range want {
		if want[i].GetName() != got[i].GetName() {
			return fmt.Sprintf("file #%d is %s, expected %s", i, got[i].GetName(), want[i].GetName())
		}
		if proto.Equal(want[i], got[i]) {
			continue
		}
		d := firstFieldDiff(want[i].GetName(), want[i].ProtoReflect(), got[i].ProtoReflect())
		if d == "" {
			d = want[i].GetName() + ": proto.Equal is false"
		}
		return d + "   (expected | read back)"
	}
	return ""
}

func fileNames(fs []*imagev1.ImageFile) []string {
	var out []string
	for _, f := range fs {
		out = append(out, f.GetName())
	}
	return out
}

// applyFlags is normalisation (n2).
func applyFlags(files []*imagev1.ImageFile, exclImports, exclSourceInfo, asFDS bool) []*imagev1.ImageFile {
	var out []*imagev1.ImageFile
	for _, f := range files {
		if exclImports && f.GetBufExtension().GetIsImport() {
			continue
		}
		c := proto.CloneOf(f)
		if exclSourceInfo {
			c.ClearSourceCodeInfo()
		}
		if asFDS {
			c.ClearBufExtension()
		}
		out = append(out, c)
	}
	return out
}

func clearBufExt(files []*imagev1.ImageFile) []*imagev1.ImageFile {
	var out []*imagev1.ImageFile
	for _, f := range files {
		c := proto.CloneOf(f)
		c.ClearBufExtension()
		out = append(out, c)
	}
	return out
}

func decompress(b []byte, comp string) []byte {
	switch comp {
	case ".gz":
		zr, err := gzip.NewReader(bytes.NewReader(b))
		if err != nil {
			return nil
		}
		out, _ := io.ReadAll(zr)
		return out
	case ".zst":
		zr, err := zstd.NewReader(bytes.NewReader(b))
		if err != nil {
			return nil
		}
		defer zr.Close()
		out, _ := io.ReadAll(zr)
		return out
	}
	return b
}

// ---------------------------------------------------------------------------------------
// family self-check on the BUILT descriptors

type famFacts map[string]int

func scanFamily(files []*imagev1.ImageFile) famFacts {
	ff := famFacts{}
	var walk func(m *descriptorpb.DescriptorProto, depth int, ancestorsClean bool, imp string)
	legacyOwn := func(m *descriptorpb.DescriptorProto) bool {
		if m.GetOptions().GetMessageSetWireFormat() {
			return true
		}
		for _, f := range m.GetField() {
			if f.GetOptions().GetWeak() {
				return true
			}
		}
		for _, e := range m.GetExtension() {
			if e.GetNumber() > maxTag || e.GetOptions().GetWeak() {
				return true
			}
		}
		for _, er := range m.GetExtensionRange() {
			if er.GetEnd() > maxTag+1 {
				return true
			}
		}
		return false
	}
	walk = func(m *descriptorpb.DescriptorProto, depth int, ancestorsClean bool, imp string) {
		d := fmt.Sprint(depth)
		if depth > 3 {
			d = "3+"
		}
		if m.GetOptions().GetMessageSetWireFormat() {
			ff["mset:"+imp+":depth"+d]++
			if depth > 0 && ancestorsClean {
				ff["mset-under-clean-parents:"+imp+":depth"+d]++
			}
			if depth > 0 && !ancestorsClean {
				ff["mset-under-legacy-parent:"+imp]++
			}
		}
		for _, er := range m.GetExtensionRange() {
			if er.GetEnd() > maxTag+1 {
				ff["range-end-above-2^29:"+imp]++
				if depth > 0 && ancestorsClean {
					ff["range-end-above-2^29-under-clean-parents:"+imp]++
				}
			}
			if er.GetStart() > maxTag {
				ff["range-start-above-2^29:"+imp]++
			}
			if er.GetEnd() == maxTag+1 {
				ff["range-end-at-2^29:"+imp]++
			}
			if len(er.GetOptions().ProtoReflect().GetUnknown()) > 0 {
				ff["custom-option:range:"+imp]++
			}
		}
		for _, f := range m.GetField() {
			if f.GetOptions().GetWeak() {
				ff["weak-field:"+imp+":depth"+d]++
			}
			if f.GetType() == descriptorpb.FieldDescriptorProto_TYPE_GROUP {
				ff["group:"+imp]++
			}
			if f.GetLabel() == descriptorpb.FieldDescriptorProto_LABEL_REQUIRED {
				ff["required:"+imp]++
			}
			if f.DefaultValue != nil {
				ff["default:"+imp]++
			}
			if f.GetOptions() != nil && f.GetOptions().Packed != nil {
				ff[fmt.Sprintf("packed=%v:%s", f.GetOptions().GetPacked(), imp)]++
			}
			if f.GetOptions().GetFeatures() != nil {
				ff["field-features:"+imp]++
			}
			if len(f.GetOptions().ProtoReflect().GetUnknown()) > 0 {
				ff["custom-option:field:"+imp]++
			}
			if f.JsonName != nil && f.GetJsonName() != jsonCamel(f.GetName()) {
				ff["explicit-json-name:"+imp]++
			}
		}
		for _, e := range m.GetExtension() {
			if e.GetNumber() > maxTag {
				ff["ext-above-2^29:"+imp]++
			}
			if e.GetNumber() == maxTag {
				ff["ext-at-2^29-1:"+imp]++
			}
		}
		for _, rr := range m.GetReservedRange() {
			if rr.GetEnd() >= maxTag {
				ff["reserved-at-limit:"+imp]++
			}
		}
		for _, o := range m.GetOneofDecl() {
			if len(o.GetOptions().ProtoReflect().GetUnknown()) > 0 {
				ff["custom-option:oneof:"+imp]++
			}
		}
		for _, e := range m.GetEnumType() {
			scanEnum(ff, e, imp)
		}
		if len(m.GetOptions().ProtoReflect().GetUnknown()) > 0 {
			ff["custom-option:message:"+imp]++
		}
		clean := ancestorsClean && !legacyOwn(m)
		for _, n := range m.GetNestedType() {
			walk(n, depth+1, clean, imp)
		}
	}
	for _, f := range files {
		imp := "target"
		if f.GetBufExtension().GetIsImport() {
			imp = "import"
		}
		if strings.HasPrefix(f.GetName(), "google/protobuf/") {
			continue
		}
		if len(f.GetWeakDependency()) > 0 {
			ff["weak-import:"+imp]++
		}
		if len(f.GetPublicDependency()) > 0 {
			ff["public-import:"+imp]++
		}
		if f.GetSyntax() == "editions" {
			ff["editions:"+imp]++
		}
		if len(f.GetOptions().ProtoReflect().GetUnknown()) > 0 {
			ff["custom-option:file:"+imp]++
		}
		for _, e := range f.GetExtension() {
			if e.GetNumber() > maxTag {
				ff["ext-above-2^29:"+imp]++
			}
			if e.GetNumber() == maxTag {
				ff["ext-at-2^29-1:"+imp]++
			}
			if e.GetOptions().GetWeak() {
				ff["weak-extension:"+imp]++
			}
		}
		for _, m := range f.GetMessageType() {
			walk(m, 0, true, imp)
		}
		for _, e := range f.GetEnumType() {
			scanEnum(ff, e, imp)
		}
		for _, s := range f.GetService() {
			if len(s.GetOptions().ProtoReflect().GetUnknown()) > 0 {
				ff["custom-option:service:"+imp]++
			}
			for _, m := range s.GetMethod() {
				if len(m.GetOptions().ProtoReflect().GetUnknown()) > 0 {
					ff["custom-option:method:"+imp]++
				}
			}
		}
	}
	return ff
}

func scanEnum(ff famFacts, e *descriptorpb.EnumDescriptorProto, imp string) {
	if len(e.GetOptions().ProtoReflect().GetUnknown()) > 0 {
		ff["custom-option:enum:"+imp]++
	}
	for _, v := range e.GetValue() {
		if len(v.GetOptions().ProtoReflect().GetUnknown()) > 0 {
			ff["custom-option:value:"+imp]++
		}
	}
	for _, rr := range e.GetReservedRange() {
		if rr.GetEnd() == 2147483647 || rr.GetStart() == -2147483648 {
			ff["enum-reserved-at-limit:"+imp]++
		}
	}
}

func jsonCamel(s string) string {
	var out []byte
	up := false
	for i := 0; i < len(s); i++ {
		c := s[i]
		if c == '_' {
			up = true
			continue
		}
		if up && c >= 'a' && c <= 'z' {
			c -= 'a' - 'A'
		}
		up = false
		out = append(out, c)
	}
	return string(out)
}

// required facts per variant: what the self-check demands of the generator.
func requiredFacts(useOpts, random bool, imp string) []string {
	req := []string{
		"mset:" + imp + ":depth0", "mset-under-clean-parents:" + imp + ":depth1", "mset-under-clean-parents:" + imp + ":depth2",
		"mset-under-clean-parents:" + imp + ":depth3", "mset-under-legacy-parent:" + imp,
		"range-end-above-2^29:" + imp, "range-end-above-2^29-under-clean-parents:" + imp, "range-start-above-2^29:" + imp, "range-end-at-2^29:" + imp,
		"ext-above-2^29:" + imp, "ext-at-2^29-1:" + imp, "weak-field:" + imp + ":depth0", "weak-field:" + imp + ":depth2", "weak-extension:" + imp,
		"weak-import:" + imp, "public-import:" + imp, "group:" + imp, "required:" + imp, "default:" + imp, "packed=true:" + imp, "packed=false:" + imp,
		"editions:" + imp, "field-features:" + imp, "explicit-json-name:" + imp, "reserved-at-limit:" + imp, "enum-reserved-at-limit:" + imp,
	}
	if random {
		// depths are re-drawn: demand the kinds only
		var out []string
		for _, q := range req {
			if !strings.Contains(q, ":depth") && !strings.Contains(q, "under-") {
				out = append(out, q)
			}
		}
		return out
	}
	if useOpts {
		for _, k := range []string{"file", "message", "field", "oneof", "enum", "value", "service", "method", "range"} {
			req = append(req, "custom-option:"+k+":"+imp)
		}
	}
	return req
}

// ---------------------------------------------------------------------------------------
// the round trip

type encCase struct {
	format, comp, suffix string // suffix: ref options (#format=…)
	ext                  string // file extension actually used
}

func b3Encodings() []encCase {
	var out []encCase
	for _, f := range []string{"binpb", "json", "txtpb", "yaml"} {
		for _, c := range []string{"", ".gz", ".zst"} {
			out = append(out, encCase{format: f, comp: c, ext: "." + f + c})
		}
	}
	return out
}

// aliasEncodings: the other spellings of the same readers / writers.
func aliasEncodings() []encCase {
	return []encCase{
		{format: "binpb", comp: "", ext: ".bin"},
		{format: "binpb", comp: ".gz", ext: ".bin.gz"},
		{format: "binpb", comp: ".zst", ext: ".bin.zst"},
		{format: "json", comp: "", ext: ".data", suffix: "#format=json"},
		{format: "yaml", comp: ".zst", ext: ".data2", suffix: "#format=yaml,compression=zstd"},
		{format: "txtpb", comp: ".gz", ext: ".data3", suffix: "#format=txtpb,compression=gzip"},
		{format: "binpb", comp: "", ext: ".json", suffix: "#format=binpb"},            // format overrides the extension
		{format: "binpb", comp: "", ext: ".binpb.gz", suffix: "#compression=none"},    // compression overrides the extension
		{format: "binpb", comp: ".gz", ext: ".data4", suffix: "#format=bingz"},        // deprecated
		{format: "json", comp: ".gz", ext: ".data5", suffix: "#format=jsongz"},        // deprecated
		{format: "json", comp: "", ext: ".pn.json", suffix: "#use_proto_names=true"},  // JSON field naming
		{format: "json", comp: "", ext: ".en.json", suffix: "#use_enum_numbers=true"}, // JSON enum spelling
		{format: "yaml", comp: "", ext: ".pn.yaml", suffix: "#use_proto_names=true,use_enum_numbers=true"},
	}
}

type b3Env struct {
	run  *hx.Run
	ctl  bufctl.Controller
	root string
	b    *bufRun
	jobs []rtJob
	out  []rtResult
	wg   sync.WaitGroup
	t0   time.Time
}

func (e *b3Env) fail(class, what string, input any, replay string) {
	e.run.Fail(hx.OracleFailure{Class: class, What: what, Input: input, Replay: replay})
}

func protoFiles(img bufimage.Image) []*imagev1.ImageFile {
	return canonFiles(must(bufimage.ImageToProtoImage(img)))
}

func safeGetImage(ctl bufctl.Controller, input string, opts ...bufctl.FunctionOption) (img bufimage.Image, err error) {
	defer func() {
		if p := recover(); p != nil {
			err = fmt.Errorf("panic: %v", p)
		}
	}()
	return ctl.GetImage(ctx, input, opts...)
}

// buildImage is safeGetImage for a source directory, sequential only: compile diagnostics go to
// the controller's stderr and are attached to the error.
func buildImage(ctl bufctl.Controller, input string, opts ...bufctl.FunctionOption) (bufimage.Image, error) {
	ctlStderr.Reset()
	img, err := safeGetImage(ctl, input, opts...)
	if err != nil && ctlStderr.Len() > 0 {
		err = fmt.Errorf("%v: %s", err, ctlStderr.String())
	}
	return img, err
}

func safePutImage(ctl bufctl.Controller, output string, img bufimage.Image, opts ...bufctl.FunctionOption) (err error) {
	defer func() {
		if p := recover(); p != nil {
			err = fmt.Errorf("panic: %v", p)
		}
	}()
	return ctl.PutImage(ctx, output, img, opts...)
}

type flagSet struct {
	name                     string
	exclImports, exclSI, fds bool
}

var b3Flags = []flagSet{
	{name: "-"}, {name: "--exclude-source-info", exclSI: true}, {name: "--as-file-descriptor-set", fds: true},
	{name: "--exclude-imports", exclImports: true}, {name: "--exclude-imports --exclude-source-info", exclImports: true, exclSI: true},
}

// The flags are applied where `buf build` applies them: source info and imports when the image
// is obtained, the descriptor-set form when it is written.
func (f flagSet) getOpts() []bufctl.FunctionOption {
	return []bufctl.FunctionOption{bufctl.WithImageExcludeImports(f.exclImports), bufctl.WithImageExcludeSourceInfo(f.exclSI)}
}

func (f flagSet) putOpts() []bufctl.FunctionOption {
	return []bufctl.FunctionOption{bufctl.WithImageAsFileDescriptorSet(f.fds)}
}

func (f flagSet) cli() string {
	if f.name == "-" {
		return ""
	}
	return " " + f.name
}

// selfContained describes what an image written with --exclude-imports lacks (recorded findings):
// "" = nothing that a reader needs.
type rtJob struct {
	tag, srcDesc, tmp string
	get               func() (bufimage.Image, error) // obtains the image to write, flags of getOpts applied (an own
	// object per job: marshalling re-parses extensions in place, so one image object cannot be written concurrently)
	pristine   []*imagev1.ImageFile // what that image must still be after it was written
	want       []*imagev1.ImageFile // expected files after read-back (n2 / n3 applied)
	enc        encCase
	fl         flagSet
	k          int
	lacks      string // "", "value-type", "definition": what the excluded imports take away
	countUnres bool
	// Part B5 hooks (partb5.go): the file as buf wrote it / the image as buf read it back
	part        string
	inspect     func(path string, fail func(class, what string))
	inspectBack func(back bufimage.Image, fail func(class, what string))
}

type rtResult struct {
	fails  []hx.OracleFailure
	counts []string
}

func (e *b3Env) add(j rtJob) { e.jobs = append(e.jobs, j) }

// start launches the queued round trips (8 at a time, in the background: Parts B and B2 spawn
// processes one after the other and leave most cores idle); finish waits and reports in queue
// order.  The jobs touch nothing shared, the run's counters are only used in finish.
func (e *b3Env) start() {
	e.out = make([]rtResult, len(e.jobs))
	e.t0 = time.Now()
	sem := make(chan struct{}, 8)
	for i := range e.jobs {
		e.wg.Add(1)
		go func(i int) {
			sem <- struct{}{}
			defer e.wg.Done()
			defer func() { <-sem }()
			e.out[i] = e.roundTrip(e.jobs[i])
		}(i)
	}
}

func (e *b3Env) finish() {
	e.wg.Wait()
	if os.Getenv("C11_TIMING") != "" {
		fmt.Fprintf(os.Stderr, "%s round trips: %d jobs, done %v after start\n", strings.ToUpper(filepath.Base(e.root)), len(e.jobs), time.Since(e.t0))
	}
	for i, j := range e.jobs {
		part := j.part
		if part == "" {
			part = "B3"
		}
		e.run.Eval()
		e.run.Count(part + ":roundtrip=" + j.enc.format + j.enc.comp)
		e.run.Count(part + ":flags=" + j.fl.name)
		e.run.Distinct(fmt.Sprintf("%s:%s:%s%s:%s", part, j.tag, j.enc.ext, j.enc.suffix, j.fl.name))
		for _, c := range e.out[i].counts {
			e.run.Count(c)
		}
		for _, f := range e.out[i].fails {
			e.run.Fail(f)
		}
	}
	e.jobs = nil
}

// roundTrip: write j.img as j.enc, read back, compare with j.want, write again, compare bytes.
// It touches nothing shared (safe to run concurrently).
func (e *b3Env) roundTrip(j rtJob) (res rtResult) {
	enc, fl := j.enc, j.fl
	f1 := filepath.Join(j.tmp, fmt.Sprintf("w1_%d%s", j.k, enc.ext))
	f2 := filepath.Join(j.tmp, fmt.Sprintf("w2_%d%s", j.k, enc.ext))
	replay := fmt.Sprintf("buf build %s%s -o '%s%s' && buf build '%s%s' -o back.binpb && buf build %s%s -o direct.binpb   # compare back.binpb with direct.binpb file by file (workspace and files are left in place)", j.srcDesc, fl.cli(), f1, enc.suffix, f1, enc.suffix, j.srcDesc, fl.cli())
	in := map[string]any{"source": j.srcDesc, "encoding": enc.ext + enc.suffix, "flags": fl.name, "file": f1}
	fail := func(class, what string) {
		// an image written without its imports is not self-contained: when the excluded imports
		// hold what a text reader needs, the failure belongs to that (recorded) family
		if j.lacks != "" && fl.exclImports && enc.format != "binpb" && class != "C11-roundtrip-write-error" {
			class = "C11-exclude-imports-option-" + j.lacks + "-excluded"
			what = "an image written with --exclude-imports as " + enc.format + " whose custom options need a " + j.lacks + " from an excluded import cannot be read back faithfully: " + what
		}
		res.fails = append(res.fails, hx.OracleFailure{Class: class, What: what, Input: in, Replay: replay})
	}
	img, err := j.get()
	if err != nil {
		fail("C11-build-failed", firstLines(err.Error(), 4))
		return
	}
	if err := safePutImage(e.ctl, f1+enc.suffix, img, fl.putOpts()...); err != nil {
		fail("C11-roundtrip-write-error", fmt.Sprintf("%s %s: %v", enc.ext+enc.suffix, fl.name, err))
		return
	}
	if j.inspect != nil {
		j.inspect(f1, fail)
	}
	// the image that was written must not have been changed by writing it
	if d := diffImages(j.pristine, protoFiles(img)); d != "" {
		fail("C11-roundtrip-source-image-mutated", fmt.Sprintf("[%s] the in-memory image changed while it was written as %s: %s", j.tag, enc.ext+enc.suffix, d))
	}
	back, err := safeGetImage(e.ctl, f1+enc.suffix)
	if err != nil {
		fail("C11-roundtrip-read-error", fmt.Sprintf("[%s] %s %s: %s", j.tag, enc.ext+enc.suffix, fl.name, firstLines(err.Error(), 3)))
		return
	}
	if j.inspectBack != nil {
		j.inspectBack(back, fail)
	}
	got := protoFiles(back)
	if fl.fds {
		got = clearBufExt(got)
	}
	if j.countUnres {
		res.counts = append(res.counts, "B3:unknown-unresolvable-not-representable")
	}
	if d := diffImages(j.want, got); d != "" {
		fail("C11-roundtrip-descriptor-differs", fmt.Sprintf("[%s] image written as %s with flags %s and read back differs from the image built from the sources: %s", j.tag, enc.ext+enc.suffix, fl.name, d))
		return
	}
	if j.lacks != "" && fl.exclImports && enc.format != "binpb" {
		res.counts = append(res.counts, "B3:exclude-imports-lacking-"+j.lacks+"-still-round-trips")
	}
	// write -> read -> write is byte-stable
	if fl.fds {
		return // a FileDescriptorSet read back is an image; writing it again writes an Image
	}
	if err := safePutImage(e.ctl, f2+enc.suffix, back); err != nil {
		fail("C11-roundtrip-write-error", fmt.Sprintf("second write %s: %v", enc.ext+enc.suffix, err))
		return
	}
	b1, b2 := must(os.ReadFile(f1)), must(os.ReadFile(f2))
	os.Remove(f2)
	if !bytes.Equal(b1, b2) {
		if fl.exclImports {
			// Without its imports (descriptor.proto) the reader cannot turn custom options into
			// known extension fields; protobuf-go writes known extensions BEFORE and unknown bytes
			// AFTER the ordinary fields, so an options message holding both kinds is re-serialised
			// in another field order.  Same fields, same values (checked above): observation only.
			res.counts = append(res.counts, "B3:exclude-imports-rewrite-reorders-option-fields")
			return
		}
		d1, d2 := decompress(b1, enc.comp), decompress(b2, enc.comp)
		what := fmt.Sprintf("[%s] write -> read -> write of %s (%s) is not byte-stable: %d vs %d bytes", j.tag, enc.ext+enc.suffix, fl.name, len(b1), len(b2))
		if bytes.Equal(d1, d2) {
			what += " (the decompressed payloads are equal: the compressor is not deterministic)"
		} else {
			fd := firstDiff(string(d1), string(d2))
			if len(fd) > 400 {
				fd = fd[:400] + "…"
			}
			what += "; payload " + fd
		}
		replay += "; buf build '" + f1 + enc.suffix + "' -o '" + f2 + enc.suffix + "'; cmp"
		fail("C11-roundtrip-not-byte-stable", what)
	}
	return
}

func (e *b3Env) workspace(r *hx.Rand, wi int, variant string) {
	if os.Getenv("C11_TIMING") != "" {
		t0 := time.Now()
		defer func() {
			fmt.Fprintf(os.Stderr, "B3 workspace %d (%s) sequential part: %v\n", wi, variant, time.Since(t0))
		}()
	}
	ws := genB3WS(r, variant)
	dir := filepath.Join(e.root, fmt.Sprintf("ws%d", wi))
	tmp := filepath.Join(e.root, fmt.Sprintf("t%d", wi))
	ws.write(dir)
	must0(os.RemoveAll(tmp))
	must0(os.MkdirAll(tmp, 0o755))
	e.run.Count("B3:workspace=" + variant)
	builds := []struct {
		tag  string
		opts []bufctl.FunctionOption
		cli  string
	}{
		{"all-targets", nil, dir},
		{"path-t", []bufctl.FunctionOption{bufctl.WithTargetPaths([]string{filepath.Join(dir, "t")}, nil)}, dir + " --path " + filepath.Join(dir, "t")},
	}
	encs := b3Encodings()
	k := 0
	type built struct {
		img  bufimage.Image
		base []*imagev1.ImageFile
		tag  string
		cli  string
	}
	var keep []built
	for bi, bd := range builds {
		tag := fmt.Sprintf("ws%d/%s/%s", wi, variant, bd.tag)
		img, err := buildImage(e.ctl, dir, bd.opts...)
		if err != nil {
			e.fail("C11-generator-legacy-workspace-does-not-build", firstLines(err.Error(), 6), map[string]any{"workspace": dir, "build": bd.tag}, "buf build "+bd.cli)
			return
		}
		base := protoFiles(img)
		keep = append(keep, built{img, base, tag, bd.cli})
		// self-check: the family is really there
		facts := scanFamily(base)
		imps := []string{"target"}
		if bd.tag == "path-t" {
			imps = []string{"target", "import"}
		}
		for _, imp := range imps {
			for _, need := range requiredFacts(ws.useOpts, variant == "random", imp) {
				if facts[need] == 0 {
					e.fail("C11-generator-legacy-family-blind", fmt.Sprintf("[%s] the built image has no instance of %q", tag, need), map[string]any{"workspace": dir, "facts": facts}, "buf build "+bd.cli)
				}
			}
		}
		if bi == 1 && wi == 0 {
			for kf, n := range facts {
				e.run.CountN("B3:family:"+kf, n)
			}
		}
		if bi == 0 && wi < 2 {
			// the compiled family through the model of stripLegacyOptions (Part L protocol lines)
			var cases []legacyCase
			for _, f := range base {
				if strings.HasPrefix(f.GetName(), "google/protobuf/") {
					continue
				}
				c := proto.CloneOf(f)
				c.ClearBufExtension()
				c.ClearSourceCodeInfo()
				fd := &descriptorpb.FileDescriptorProto{}
				must0(proto.Unmarshal(must(proto.Marshal(c)), fd))
				cases = append(cases, legacyCase{fd, "compiled-family"})
			}
			if probe, err := getLegacyProbe(e.run); err == nil {
				runLegacyCases(e.run, probe, cases, fmt.Sprintf("b3ws%d", wi))
			}
		}
		getFor := func(fl flagSet) func() (bufimage.Image, error) {
			opts := append(append([]bufctl.FunctionOption{}, bd.opts...), fl.getOpts()...)
			return func() (bufimage.Image, error) { return safeGetImage(e.ctl, dir, opts...) }
		}
		// what do the excluded imports take away from a reader of a text encoding?
		lacks := ""
		if ws.useOpts {
			if ws.useAny {
				lacks = "value-type" // google/protobuf/any.proto is always an import
			}
			if bd.tag == "path-t" && ws.optsDir == "i" {
				lacks = "definition"
			}
		}
		queue := func(enc encCase, fl flagSet) {
			k++
			e.add(rtJob{tag: tag, srcDesc: bd.cli, tmp: tmp, get: getFor(fl), pristine: applyFlags(base, fl.exclImports, fl.exclSI, false),
				want: applyFlags(base, fl.exclImports, fl.exclSI, fl.fds), enc: enc, fl: fl, k: k, lacks: lacks})
		}
		if variant == "options-no-any" {
			// custom options WITHOUT an Any, defined in a target file: an image written without its
			// imports must round trip in every format, under each flag set
			for ei, enc := range encs {
				if enc.comp == "" || (ei+bi)%3 == 0 {
					queue(enc, b3Flags[3+(ei+bi)%2])
				}
			}
			queue(encs[bi*3], b3Flags[1])
			queue(encs[6+bi*3], b3Flags[2])
			continue
		}
		quick := !e.run.Thorough()
		for ei, enc := range encs {
			// first build: every encoding without flags (quick tier: the compressed spellings of the
			// text formats without source info - the codec is the same, the payload a tenth);
			// second build: the flag sets rotate over the encodings
			fl := b3Flags[0]
			switch {
			case bi > 0 || variant == "random":
				fl = b3Flags[(ei+wi+bi)%len(b3Flags)]
				if quick && variant == "no-options" && enc.comp != "" {
					continue
				}
			case quick && enc.comp != "" && enc.format != "binpb":
				fl = b3Flags[1]
			}
			queue(enc, fl)
		}
		if bi == 0 && !(quick && variant == "no-options") {
			// the remaining flag sets so that every flag meets every family member in every format
			for fi, fl := range b3Flags[1:] {
				for q := 0; q < 4; q++ {
					if (q+fi+wi)%2 == 0 || !quick {
						queue(encs[(q*3+(fi+wi+q)%3)%len(encs)], fl)
					}
				}
			}
			for ai, enc := range aliasEncodings() {
				if quick && (ai+int(e.run.Seed))%3 != 0 {
					continue // a third of the spellings per seed in the quick tier
				}
				e.run.Count("B3:ref-spelling=" + enc.ext + enc.suffix)
				queue(enc, b3Flags[0])
			}
		}
	}
	for bi, bt := range keep {
		if variant == "options-no-any" {
			break // this variant exists for the flag x encoding matrix only
		}
		e.unknownInjection(r.Fork(uint64(900+bi)), bt.tag, bt.cli, tmp, bt.img, bi)
	}
	if wi == 0 && e.b != nil {
		e.binaryLeg(dir, tmp)
	}
}

// ---------------------------------------------------------------------------------------
// unknown fields injected into options messages of an encoded image

type injection struct {
	where string
	num   protowire.Number
	raw   []byte
	res   bool // resolvable: a custom option declared in the image
}

func unknownField(r *hx.Rand, num protowire.Number, wt int) []byte {
	var b []byte
	switch wt {
	case 0:
		b = protowire.AppendTag(b, num, protowire.VarintType)
		b = protowire.AppendVarint(b, r.Uint64()>>uint(r.Intn(60)))
	case 1:
		b = protowire.AppendTag(b, num, protowire.Fixed64Type)
		b = protowire.AppendFixed64(b, r.Uint64())
	case 2:
		b = protowire.AppendTag(b, num, protowire.BytesType)
		b = protowire.AppendBytes(b, []byte(fmt.Sprintf("unk%d", r.Intn(1000))))
	case 3:
		b = protowire.AppendTag(b, num, protowire.StartGroupType)
		b = protowire.AppendTag(b, 1, protowire.VarintType)
		b = protowire.AppendVarint(b, 7)
		b = protowire.AppendTag(b, num, protowire.EndGroupType)
	case 4:
		b = protowire.AppendTag(b, num, protowire.Fixed32Type)
		b = protowire.AppendFixed32(b, uint32(r.Uint64()))
	}
	return b
}

func removeUnknown(m protoreflect.Message, nums map[protowire.Number]bool) {
	b := m.GetUnknown()
	var out []byte
	for len(b) > 0 {
		num, typ, n := protowire.ConsumeTag(b)
		if n < 0 {
			return
		}
		v := protowire.ConsumeFieldValue(num, typ, b[n:])
		if v < 0 {
			return
		}
		if !nums[num] {
			out = append(out, b[:n+v]...)
		}
		b = b[n+v:]
	}
	m.SetUnknown(out)
}

// walkOptions calls fn for every options message slot of a file; create makes absent ones.
func walkOptions(f *imagev1.ImageFile, fn func(kind, where string, get func(create bool) protoreflect.Message)) {
	fn("file", f.GetName(), func(c bool) protoreflect.Message {
		if f.GetOptions() == nil {
			if !c {
				return nil
			}
			f.SetOptions(&descriptorpb.FileOptions{})
		}
		return f.GetOptions().ProtoReflect()
	})
	var walkMsg func(m *descriptorpb.DescriptorProto, where string)
	walkEnum := func(en *descriptorpb.EnumDescriptorProto, where string) {
		fn("enum", where, func(c bool) protoreflect.Message {
			if en.Options == nil {
				if !c {
					return nil
				}
				en.Options = &descriptorpb.EnumOptions{}
			}
			return en.Options.ProtoReflect()
		})
		for _, v := range en.GetValue() {
			v := v
			fn("value", where+"."+v.GetName(), func(c bool) protoreflect.Message {
				if v.Options == nil {
					if !c {
						return nil
					}
					v.Options = &descriptorpb.EnumValueOptions{}
				}
				return v.Options.ProtoReflect()
			})
		}
	}
	fieldFn := func(fd *descriptorpb.FieldDescriptorProto, where string) {
		fn("field", where, func(c bool) protoreflect.Message {
			if fd.Options == nil {
				if !c {
					return nil
				}
				fd.Options = &descriptorpb.FieldOptions{}
			}
			return fd.Options.ProtoReflect()
		})
	}
	walkMsg = func(m *descriptorpb.DescriptorProto, where string) {
		fn("message", where, func(c bool) protoreflect.Message {
			if m.Options == nil {
				if !c {
					return nil
				}
				m.Options = &descriptorpb.MessageOptions{}
			}
			return m.Options.ProtoReflect()
		})
		for _, fd := range m.GetField() {
			fieldFn(fd, where+"."+fd.GetName())
		}
		for _, fd := range m.GetExtension() {
			fieldFn(fd, where+".ext:"+fd.GetName())
		}
		for _, o := range m.GetOneofDecl() {
			o := o
			fn("oneof", where+"."+o.GetName(), func(c bool) protoreflect.Message {
				if o.Options == nil {
					if !c {
						return nil
					}
					o.Options = &descriptorpb.OneofOptions{}
				}
				return o.Options.ProtoReflect()
			})
		}
		for i, er := range m.GetExtensionRange() {
			er := er
			fn("range", fmt.Sprintf("%s.range%d", where, i), func(c bool) protoreflect.Message {
				if er.Options == nil {
					if !c {
						return nil
					}
					er.Options = &descriptorpb.ExtensionRangeOptions{}
				}
				return er.Options.ProtoReflect()
			})
		}
		for _, en := range m.GetEnumType() {
			walkEnum(en, where+"."+en.GetName())
		}
		for _, n := range m.GetNestedType() {
			walkMsg(n, where+"."+n.GetName())
		}
	}
	for _, m := range f.GetMessageType() {
		walkMsg(m, f.GetName()+":"+m.GetName())
	}
	for _, fd := range f.GetExtension() {
		fieldFn(fd, f.GetName()+":ext:"+fd.GetName())
	}
	for _, en := range f.GetEnumType() {
		walkEnum(en, f.GetName()+":"+en.GetName())
	}
	for _, s := range f.GetService() {
		s := s
		fn("service", f.GetName()+":"+s.GetName(), func(c bool) protoreflect.Message {
			if s.Options == nil {
				if !c {
					return nil
				}
				s.Options = &descriptorpb.ServiceOptions{}
			}
			return s.Options.ProtoReflect()
		})
		for _, m := range s.GetMethod() {
			m := m
			fn("method", f.GetName()+":"+s.GetName()+"."+m.GetName(), func(c bool) protoreflect.Message {
				if m.Options == nil {
					if !c {
						return nil
					}
					m.Options = &descriptorpb.MethodOptions{}
				}
				return m.Options.ProtoReflect()
			})
		}
	}
}

// resolvable raw options per element kind: (field number in opts.proto, raw bytes)
func resolvableRaw(r *hx.Rand, kind string) []byte {
	var b []byte
	switch kind {
	case "file": // f_rep (repeated int32 50003), unpacked varint
		b = protowire.AppendTag(b, 50003, protowire.VarintType)
		b = protowire.AppendVarint(b, uint64(r.Intn(1000)))
	case "message": // m_i64
		b = protowire.AppendTag(b, 50011, protowire.VarintType)
		b = protowire.AppendVarint(b, uint64(r.Intn(1000)))
	case "field": // fl_rstr (repeated string)
		b = protowire.AppendTag(b, 50025, protowire.BytesType)
		b = protowire.AppendBytes(b, []byte(fmt.Sprintf("raw%d", r.Intn(1000))))
	case "oneof": // o_u64
		b = protowire.AppendTag(b, 50032, protowire.VarintType)
		b = protowire.AppendVarint(b, r.Uint64())
	case "enum": // e_f32
		b = protowire.AppendTag(b, 50042, protowire.Fixed32Type)
		b = protowire.AppendFixed32(b, 0x40200000)
	case "value": // v_sf64
		b = protowire.AppendTag(b, 50052, protowire.Fixed64Type)
		b = protowire.AppendFixed64(b, uint64(r.Intn(1000)))
	case "service": // s_sf32
		b = protowire.AppendTag(b, 50062, protowire.Fixed32Type)
		b = protowire.AppendFixed32(b, uint32(r.Intn(1000)))
	case "method": // r_rcfg { level: n }
		var inner []byte
		inner = protowire.AppendTag(inner, 1, protowire.VarintType)
		inner = protowire.AppendVarint(inner, uint64(r.Intn(100)))
		b = protowire.AppendTag(b, 50071, protowire.BytesType)
		b = protowire.AppendBytes(b, inner)
	case "range": // x_u32
		b = protowire.AppendTag(b, 50081, protowire.VarintType)
		b = protowire.AppendVarint(b, uint64(r.Intn(1000)))
	}
	return b
}

var resolvableNum = map[string]protowire.Number{"file": 50003, "message": 50011, "field": 50025, "oneof": 50032, "enum": 50042, "value": 50052, "service": 50062, "method": 50071, "range": 50081}

func (e *b3Env) unknownInjection(r *hx.Rand, tag, srcDesc, tmp string, img bufimage.Image, bi int) {
	// encode the built image, decode WITHOUT a resolver, append unknown fields to options messages
	pimg := must(bufimage.ImageToProtoImage(img))
	raw := must(proto.MarshalOptions{Deterministic: true}.Marshal(pimg))
	q := &imagev1.Image{}
	must0(proto.Unmarshal(raw, q))
	for _, f := range q.GetFile() {
		f.ClearSourceCodeInfo() // the injection is about options; keeps the twelve re-encodings cheap
	}
	// every slot, by kind
	type slot struct {
		kind, where string
		get         func(bool) protoreflect.Message
		hasExt      bool
	}
	byKind := map[string][]slot{}
	for _, f := range q.GetFile() {
		if strings.HasPrefix(f.GetName(), "google/protobuf/") {
			continue
		}
		walkOptions(f, func(kind, where string, get func(bool) protoreflect.Message) {
			s := slot{kind: kind, where: where, get: get}
			if m := get(false); m != nil && len(m.GetUnknown()) > 0 {
				s.hasExt = true
			}
			byKind[kind] = append(byKind[kind], s)
		})
	}
	unresNums := map[protowire.Number]bool{}
	var injs []injection
	kinds := []string{"file", "message", "field", "oneof", "enum", "value", "service", "method", "range"}
	for ki, kind := range kinds {
		slots := byKind[kind]
		if len(slots) == 0 {
			continue
		}
		// (a) an unresolvable field on a slot that already carries options / on an empty slot
		for t := 0; t < 2; t++ {
			s := slots[r.Intn(len(slots))]
			num := protowire.Number(77000 + ki*10 + t)
			if t == 1 && r.Chance(1, 2) {
				num = protowire.Number(maxTag - ki) // at the top of the field-number space
			}
			b := unknownField(r, num, (ki+t+bi)%5)
			m := s.get(true)
			m.SetUnknown(append(m.GetUnknown(), b...))
			unresNums[num] = true
			injs = append(injs, injection{where: s.where, num: num, raw: b})
			e.run.Count("B3:inject=unresolvable:" + kind)
		}
		// (b) a declared custom option given as raw bytes, on a slot that has none yet of that number
		for t := 0; t < 6; t++ {
			s := slots[r.Intn(len(slots))]
			m := s.get(true)
			if hasNum(m.GetUnknown(), resolvableNum[kind]) && kind != "file" && kind != "field" && kind != "method" {
				continue // a second occurrence of a non-repeated option: merge semantics, stay away
			}
			if hasNum(m.GetUnknown(), resolvableNum[kind]) {
				continue
			}
			b := resolvableRaw(r, kind)
			m.SetUnknown(appendSorted(m.GetUnknown(), b, resolvableNum[kind]))
			injs = append(injs, injection{where: s.where, num: resolvableNum[kind], raw: b, res: true})
			e.run.Count("B3:inject=resolvable:" + kind)
			break
		}
	}
	inj := filepath.Join(tmp, fmt.Sprintf("inj%d.binpb", bi))
	must0(os.WriteFile(inj, must(proto.MarshalOptions{Deterministic: true}.Marshal(q)), 0o644))
	want := canonFiles(q)
	var desc []string
	for _, in := range injs {
		desc = append(desc, fmt.Sprintf("%s #%d res=%v", in.where, in.num, in.res))
	}
	replay := fmt.Sprintf("buf build '%s' -o back.binpb; cmp '%s' back.binpb   # %s was built from %s; injected: %s", inj, inj, filepath.Base(inj), srcDesc, strings.Join(desc, "; "))
	rimg, err := safeGetImage(e.ctl, inj)
	e.run.Eval()
	if err != nil {
		e.fail("C11-unknown-option-field-read-error", fmt.Sprintf("[%s] %v", tag, err), map[string]any{"file": inj, "injected": desc}, replay)
		return
	}
	if d := diffImages(want, protoFiles(rimg)); d != "" {
		e.fail("C11-unknown-option-field-changed", fmt.Sprintf("[%s] a binpb image with unknown fields in options messages differs after being read: %s", tag, d), map[string]any{"file": inj, "injected": desc}, replay)
		return
	}
	strip := func(files []*imagev1.ImageFile) []*imagev1.ImageFile {
		var out []*imagev1.ImageFile
		for _, f := range files {
			c := proto.CloneOf(f)
			walkOptions(c, func(kind, where string, get func(bool) protoreflect.Message) {
				if m := get(false); m != nil {
					removeUnknown(m, unresNums)
				}
			})
			out = append(out, canonFile(c))
		}
		return out
	}
	// Emptied-but-present options messages stay present in every encoding?  An options message that
	// holds ONLY an unresolvable field becomes an empty message in a text encoding: JSON / YAML write
	// `"options":{}` and txtpb `options {}`, which read back as present-and-empty - as in `strip`.
	encs := b3Encodings()
	for ei, enc := range encs {
		if bi > 0 && enc.comp != "" {
			continue // compressions of the injected image on the first build only
		}
		w := want
		if enc.format != "binpb" {
			w = strip(want)
		}
		e.add(rtJob{tag: tag + "/unknown-injected", srcDesc: "'" + inj + "'", tmp: tmp, get: func() (bufimage.Image, error) { return safeGetImage(e.ctl, inj) }, pristine: want,
			want: w, enc: enc, fl: b3Flags[0], k: 1000 + bi*100 + ei, countUnres: enc.format != "binpb"})
	}
}

func hasNum(b []byte, want protowire.Number) bool {
	for len(b) > 0 {
		num, typ, n := protowire.ConsumeTag(b)
		if n < 0 {
			return false
		}
		v := protowire.ConsumeFieldValue(num, typ, b[n:])
		if v < 0 {
			return false
		}
		if num == want {
			return true
		}
		b = b[n+v:]
	}
	return false
}

// appendSorted inserts field bytes so that the top-level fields stay ordered by number (the
// order a writer that knows the extensions produces; the comparison is byte-wise).
func appendSorted(b, field []byte, num protowire.Number) []byte {
	type fld struct {
		num protowire.Number
		raw []byte
	}
	var fs []fld
	rest := b
	for len(rest) > 0 {
		n0, typ, n := protowire.ConsumeTag(rest)
		if n < 0 {
			return append(b, field...)
		}
		v := protowire.ConsumeFieldValue(n0, typ, rest[n:])
		if v < 0 {
			return append(b, field...)
		}
		fs = append(fs, fld{n0, rest[:n+v]})
		rest = rest[n+v:]
	}
	fs = append(fs, fld{num, field})
	sort.SliceStable(fs, func(i, j int) bool { return fs[i].num < fs[j].num })
	var out []byte
	for _, f := range fs {
		out = append(out, f.raw...)
	}
	return out
}

// ---------------------------------------------------------------------------------------
// the same workspace through the real binary (process boundary, stdin / stdout, every extension)

func (b *bufRun) execStdin(dir string, stdin []byte, args ...string) result {
	res := b.execRawStdin(dir, stdin, args...)
	b.count++
	b.run.Eval()
	return res
}

func (e *b3Env) binaryLeg(dir, tmp string) {
	if os.Getenv("C11_TIMING") != "" {
		t0 := time.Now()
		defer func() { fmt.Fprintf(os.Stderr, "B3 binary leg: %v\n", time.Since(t0)) }()
	}
	b := e.b
	direct := b.exec(dir, "build", "-o", "-#format=binpb")
	if direct.code != 0 {
		e.fail("C11-build-failed", direct.stderr, dir, b.cmdLine(job{dir, []string{"build"}}))
		return
	}
	dimg := &imagev1.Image{}
	must0(proto.Unmarshal([]byte(direct.stdout), dimg))
	want := canonFiles(dimg)
	encs := b3Encodings()
	for ai, enc := range aliasEncodings() {
		if e.run.Thorough() || (ai+int(e.run.Seed))%4 == 0 {
			encs = append(encs, enc)
		}
	}
	var w, rd []job
	for i, enc := range encs {
		f := filepath.Join(tmp, fmt.Sprintf("bin%d%s", i, enc.ext))
		w = append(w, job{dir, []string{"build", "-o", f + enc.suffix}})
		rd = append(rd, job{dir, []string{"build", f + enc.suffix, "-o", filepath.Join(tmp, fmt.Sprintf("binback%d.binpb", i))}})
	}
	wr := b.execAll(w)
	rr := b.execAll(rd)
	for i, enc := range encs {
		e.run.Count("B3:binary-roundtrip=" + enc.ext + enc.suffix)
		replay := b.cmdLine(w[i]) + " && " + b.cmdLine(rd[i])
		if wr[i].code != 0 || rr[i].code != 0 {
			e.fail("C11-roundtrip-read-error", fmt.Sprintf("binary: %s: write exit %d %s; read exit %d %s", enc.ext+enc.suffix, wr[i].code, firstLines(wr[i].stderr, 2), rr[i].code, firstLines(rr[i].stderr, 2)), dir, replay)
			continue
		}
		back := must(os.ReadFile(filepath.Join(tmp, fmt.Sprintf("binback%d.binpb", i))))
		bimg := &imagev1.Image{}
		if err := proto.Unmarshal(back, bimg); err != nil {
			e.fail("C11-roundtrip-read-error", "binary: unreadable binpb: "+err.Error(), dir, replay)
			continue
		}
		if d := diffImages(want, canonFiles(bimg)); d != "" {
			e.fail("C11-roundtrip-descriptor-differs", fmt.Sprintf("[binary] image written as %s and read back differs from the image built from the sources: %s", enc.ext+enc.suffix, d), dir, replay)
		} else if !bytes.Equal(back, []byte(direct.stdout)) {
			e.fail("C11-roundtrip-not-byte-stable", fmt.Sprintf("[binary] %s read back and written as binpb: same descriptors but different bytes (%d vs %d)", enc.ext+enc.suffix, len(back), len(direct.stdout)), dir, replay)
		}
	}
	// stdin / stdout: `buf build -o - | buf build - -o -`
	for _, f := range []string{"binpb", "json", "yaml"} {
		out := b.exec(dir, "build", "-o", "-#format="+f)
		back := b.execStdin(dir, []byte(out.stdout), "build", "-#format="+f, "-o", "-")
		e.run.Count("B3:binary-stdin-stdout=" + f)
		if out.code != 0 || back.code != 0 || back.stdout != direct.stdout {
			e.fail("C11-roundtrip-descriptor-differs", fmt.Sprintf("[binary] `buf build -o -#format=%s | buf build -#format=%s -o -` differs from the direct build (exit %d/%d, %d vs %d bytes) %s", f, f, out.code, back.code, len(back.stdout), len(direct.stdout), firstLines(back.stderr, 2)), dir,
				fmt.Sprintf("(cd %s && %s build -o -#format=%s | %s build -#format=%s -o - | cmp - <(%s build -o -))", dir, b.bin, f, b.bin, f, b.bin))
		}
	}
}

// partB3Start generates the workspaces, runs everything sequential (builds, self-checks, Part L
// lines of the compiled family, unknown-field injection, the binary leg) and starts the round
// trips; the caller calls finish() on the result.
func partB3Start(run *hx.Run, r *hx.Rand, b *bufRun, root string) *b3Env {
	e := &b3Env{run: run, root: filepath.Join(root, "b3"), b: b}
	must0(os.RemoveAll(e.root))
	must0(os.MkdirAll(e.root, 0o755))
	e.ctl = newController(e.root, strings.NewReader(""), io.Discard)
	variants := []string{"options-used", "no-options", "options-no-any"}
	n := run.N(3, 12)
	for i := 0; i < n; i++ {
		v := "random"
		if i < 3 {
			v = variants[i]
		}
		e.workspace(r.Fork(uint64(i)), i, v)
	}
	e.start()
	return e
}
