package main

// Part B5 (oracle only) and Part F (model correspondence + oracle): the DECLARATION-SITE family.
//
// A custom option is printed by the json / yaml / txtpb writers only if the image's resolver finds
// the declaration of the extension.  For an image BUILT FROM SOURCES that resolver is
// `resolverForFiles` (private/bufpkg/bufimage/build_image.go); its FindExtensionByNumber is the
// tree search `findExtension`.  The family varies WHERE an `extend` block stands, not what the
// option holds (Part B3 does that):
//
//   extendee   google.protobuf.{File,Message,Field,Oneof,Enum,EnumValue,Service,Method,
//              ExtensionRange}Options and a user message (base.Cfg, used inside a message-valued
//              option): ALL ten at every site
//   site       file level; in a message at depth 1-4 whose enclosing messages are pure namespaces
//              (no field, no extension) / have fields only / declare extensions themselves, in
//              every mix; in the 2nd / 3rd sibling after empty siblings, after a sibling with
//              extensions, after a sibling that only has an empty child; after an empty top-level
//              message
//   file       a target file that also USES its options (same file); a target file used by another
//              target file; a file that is an IMPORT under --path, used by a target file and by
//              another import; a file of ANOTHER MODULE of the workspace
//   numbers    per extendee a running number from 50000: the ten extensions of one site share
//              their number, neighbouring sites collide across extendees (fillers shift the
//              FieldOptions sequence); the order of the ten blocks rotates per site
//   values     the value type rotates over 14 shapes (scalars, enum, message, repeated)
//
// Checks per build {all targets, --path m1/t} and encoding:
//   (a) the B3 comparison: written -> read back by buf = built image, field by field; byte-stable
//   (b) INDEPENDENT decode: the file buf wrote is decoded with a resolver that is NOT buf's
//       (protodesc.NewFiles over the image's own FileDescriptorSet + dynamicpb.NewTypes); every
//       option value of the binpb form (element, extension full name, canonical value bytes) must
//       be present with the same value: C11-text-encoding-drops-option-value /
//       -changes-option-value / -adds-option-value / -not-decodable-independently
//   (c) the resolver itself (the built image's, and the one of every image read back): every
//       declared extension is found by (extendee, number) AND by name, both answers describe the
//       declaration; an (extendee, number) pair nobody declared is not found although the number
//       exists for other extendees: C11-resolver-misses-declared-extension,
//       C11-resolver-extension-by-number-wrong, C11-resolver-by-name-vs-by-number-differ,
//       C11-resolver-finds-undeclared-extension
//   (d) the real binary: `buf build -o x.{json,yaml,txtpb,binpb}` (+ --path), outputs through (b)
//   self-check C11-generator-declsite-family-blind: sites, depths, parent patterns, file roles and
//   use relations are re-derived from the BUILT descriptors; every declared extension is used.
//
// Part F: `findExtension` + `type container` are cut VERBATIM (go/ast positions) out of the working
// tree's build_image.go into a probe program; protocol line `fext <tree> <queries>` compares it
// with BufModel/FindExtension.lean on generated scope trees (depth <= 6, most scopes without own
// extensions, numbers from a pool of 6 so that extendees collide, the same (extendee, number)
// declared twice: first in pre-order wins) and on every file of the B5 workspaces as compiled.
// Oracle (implementation only): found <=> declared somewhere in the file; what is found extends
// the asked message with the asked number.

import (
	"bufio"
	"bytes"
	"encoding/hex"
	"fmt"
	"go/ast"
	"go/parser"
	"go/token"
	"io"
	"os"
	"os/exec"
	"path/filepath"
	"regexp"
	"sort"
	"strings"
	"time"

	"buf.build/go/protoyaml"
	"github.com/bufbuild/buf/private/buf/bufctl"
	"github.com/bufbuild/buf/private/bufpkg/bufimage"
	imagev1 "github.com/bufbuild/buf/private/gen/proto/go/buf/alpha/image/v1"
	"github.com/bufbuild/buf/private/pkg/protoencoding"
	"github.com/bufbuild/verifharness/internal/hx"
	"google.golang.org/protobuf/encoding/protojson"
	"google.golang.org/protobuf/encoding/prototext"
	"google.golang.org/protobuf/proto"
	"google.golang.org/protobuf/reflect/protodesc"
	"google.golang.org/protobuf/reflect/protoreflect"
	"google.golang.org/protobuf/types/descriptorpb"
	"google.golang.org/protobuf/types/dynamicpb"
)

// ---------------------------------------------------------------------------------------
// generator

var b5Kinds = []struct{ kind, short, extendee string }{
	{"file", "fi", "google.protobuf.FileOptions"},
	{"message", "ms", "google.protobuf.MessageOptions"},
	{"field", "fl", "google.protobuf.FieldOptions"},
	{"oneof", "on", "google.protobuf.OneofOptions"},
	{"enum", "en", "google.protobuf.EnumOptions"},
	{"value", "ev", "google.protobuf.EnumValueOptions"},
	{"service", "sv", "google.protobuf.ServiceOptions"},
	{"method", "mt", "google.protobuf.MethodOptions"},
	{"range", "xr", "google.protobuf.ExtensionRangeOptions"},
	{"user", "us", "base.Cfg"},
}

const b5User = 9

type b5Type struct {
	decl string
	lit  func(n int) []string
}

var b5Types = []b5Type{
	{"optional int32", func(n int) []string { return []string{fmt.Sprintf("-%d", n+1)} }},
	{"optional string", func(n int) []string { return []string{fmt.Sprintf("\"s%d \\\"q\\\" \\n\"", n)} }},
	{"optional base.Cfg", func(n int) []string { return []string{fmt.Sprintf("{ level: %d names: \"x\" names: \"y\" e: E1 }", n)} }},
	{"optional base.E", func(n int) []string { return []string{"E1"} }},
	{"optional bool", func(n int) []string { return []string{"true"} }},
	{"optional double", func(n int) []string { return []string{fmt.Sprintf("-%d.25", n)} }},
	{"optional bytes", func(n int) []string { return []string{fmt.Sprintf("\"\\000\\377b%d\"", n)} }},
	{"optional uint64", func(n int) []string { return []string{"18446744073709551615"} }},
	{"optional sint64", func(n int) []string { return []string{fmt.Sprintf("-%d", n+7)} }},
	{"optional fixed32", func(n int) []string { return []string{fmt.Sprint(n + 3)} }},
	{"repeated string", func(n int) []string { return []string{fmt.Sprintf("\"a%d\"", n), "\"b\""} }},
	{"repeated base.Cfg", func(n int) []string { return []string{fmt.Sprintf("{ level: %d }", n), "{ names: \"z\" }"} }},
	{"optional float", func(n int) []string { return []string{"1.5"} }},
	{"optional sfixed64", func(n int) []string { return []string{fmt.Sprintf("-%d", n+9)} }},
}

type b5Ext struct {
	kind int
	name string
	num  int
	typ  int
	site string
	full string
}

type b5Scope struct {
	name   string
	fields bool
	exts   []*b5Ext
	kids   []*b5Scope
}

type b5Gen struct {
	r     *hx.Rand
	nums  [10]int
	sites int
	rot   int
}

func (g *b5Gen) ext(kind int, label string) *b5Ext {
	g.nums[kind]++
	return &b5Ext{kind: kind, name: b5Kinds[kind].short + "_" + label, num: 50000 + g.nums[kind], typ: (g.sites + kind + g.rot) % len(b5Types), site: label}
}

// siteExts: all ten extendees, the order of the blocks rotating with the site
func (g *b5Gen) siteExts(label string, kinds []int) []*b5Ext {
	g.sites++
	var out []*b5Ext
	for k := range kinds {
		out = append(out, g.ext(kinds[(k+g.sites)%len(kinds)], label))
	}
	return out
}

var b5AllKinds = []int{0, 1, 2, 3, 4, 5, 6, 7, 8, 9}

// chain: ancestors by pattern (n = pure namespace, f = fields only, e = declares an extension of
// its own), siblings before the declaring message by sib (e = empty message, x = message with an
// extension, k = message that only has an empty child); the declaring message is D<label>.
func (g *b5Gen) chain(label, pattern, sib string, kinds []int) []*b5Scope {
	d := &b5Scope{name: "D" + label, exts: g.siteExts(label, kinds)}
	if g.r.Chance(1, 3) {
		d.fields = true
	}
	level := []*b5Scope{}
	for i, c := range sib {
		s := &b5Scope{name: fmt.Sprintf("Sib%s%d", label, i)}
		switch c {
		case 'x':
			s.exts = []*b5Ext{g.ext(2, fmt.Sprintf("sib%s%d", label, i))}
		case 'k':
			s.kids = []*b5Scope{{name: "Kid"}}
		}
		level = append(level, s)
	}
	level = append(level, d)
	if g.r.Chance(1, 2) {
		level = append(level, &b5Scope{name: "After" + label})
	}
	for i := len(pattern) - 1; i >= 0; i-- {
		p := &b5Scope{name: fmt.Sprintf("P%s%d", label, i+1), kids: level}
		switch pattern[i] {
		case 'f':
			p.fields = true
		case 'e':
			p.exts = []*b5Ext{g.ext(2, fmt.Sprintf("par%s%d", label, i+1))}
			p.fields = g.r.Bool()
		}
		level = []*b5Scope{p}
	}
	return level
}

type b5Site struct{ pattern, sib string }

// the stratified list: every depth 1-4 with every kind of parent, and the sibling positions
var b5Sites = []b5Site{
	{"", ""},
	{"n", ""}, {"f", ""}, {"e", ""},
	{"nn", ""}, {"en", ""}, {"ne", ""}, {"fn", ""},
	{"nnn", ""}, {"nen", ""}, {"enn", ""}, {"nne", ""}, {"eee", ""},
	{"n", "e"}, {"n", "x"}, {"n", "ek"}, {"nn", "e"},
	{"", "e"},
}

type b5DeclFile struct {
	path, pkg string
	fileExts  []*b5Ext
	tops      []*b5Scope
	all       []*b5Ext
	useSelf   bool
}

func (g *b5Gen) declFile(path, pkg string, random bool) *b5DeclFile {
	f := &b5DeclFile{path: path, pkg: pkg}
	f.fileExts = g.siteExts(pkg+"f", b5AllKinds)
	var groups [][]*b5Scope
	if !random {
		for i, s := range b5Sites {
			groups = append(groups, g.chain(fmt.Sprintf("%s%d", pkg, i), s.pattern, s.sib, b5AllKinds))
		}
	} else {
		for i, n := 0, 4+g.r.Intn(8); i < n; i++ {
			pat := ""
			for d, dn := 0, g.r.Intn(4); d < dn; d++ {
				pat += string("nnfe"[g.r.Intn(4)])
			}
			sib := ""
			for d, dn := 0, g.r.Intn(3); d < dn; d++ {
				sib += string("exk"[g.r.Intn(3)])
			}
			kinds := b5AllKinds
			if g.r.Chance(1, 3) {
				kinds = nil
				for k := range b5Kinds {
					if g.r.Bool() {
						kinds = append(kinds, k)
					}
				}
				if len(kinds) == 0 {
					kinds = []int{g.r.Intn(10)}
				}
			}
			groups = append(groups, g.chain(fmt.Sprintf("%s%d", pkg, i), pat, sib, kinds))
		}
	}
	hx.Shuffle(g.r, groups)
	for _, gr := range groups {
		f.tops = append(f.tops, gr...)
	}
	// full names, pre-order
	for _, e := range f.fileExts {
		e.full = pkg + "." + e.name
		f.all = append(f.all, e)
	}
	var walk func(s *b5Scope, prefix string)
	walk = func(s *b5Scope, prefix string) {
		for _, e := range s.exts {
			e.full = prefix + "." + s.name + "." + e.name
			f.all = append(f.all, e)
		}
		for _, k := range s.kids {
			walk(k, prefix+"."+s.name)
		}
	}
	for _, t := range f.tops {
		walk(t, pkg)
	}
	return f
}

func (s *b5Scope) render(sb *strings.Builder, ind string) {
	sb.WriteString(ind + "message " + s.name + " {\n")
	if s.fields {
		sb.WriteString(ind + "  optional int32 keep = 1;\n")
	}
	for _, e := range s.exts {
		sb.WriteString(ind + "  " + e.declText() + "\n")
	}
	for _, k := range s.kids {
		k.render(sb, ind+"  ")
	}
	sb.WriteString(ind + "}\n")
}

func (e *b5Ext) declText() string {
	return fmt.Sprintf("extend %s { %s %s = %d; }", b5Kinds[e.kind].extendee, b5Types[e.typ].decl, e.name, e.num)
}

// b5Usage renders elements of every kind carrying every given option.
func b5Usage(prefix string, exts []*b5Ext, salt int) (fileOpts, body string) {
	stmts := map[int][]string{}
	lists := map[int][]string{}
	var user []string
	for i, e := range exts {
		for _, l := range b5Types[e.typ].lit(i + salt) {
			if e.kind == b5User {
				user = append(user, fmt.Sprintf("[%s]: %s", e.full, l))
				continue
			}
			stmts[e.kind] = append(stmts[e.kind], fmt.Sprintf("option (%s) = %s;", e.full, l))
			lists[e.kind] = append(lists[e.kind], fmt.Sprintf("(%s) = %s", e.full, l))
		}
	}
	st := func(kind int, ind string) string {
		var sb strings.Builder
		for _, s := range stmts[kind] {
			sb.WriteString(ind + s + "\n")
		}
		return sb.String()
	}
	li := func(kind int, extra string) string {
		l := append([]string{}, lists[kind]...)
		if extra != "" {
			l = append(l, extra)
		}
		if len(l) == 0 {
			return ""
		}
		return " [\n      " + strings.Join(l, ",\n      ") + "]"
	}
	carrierM, carrierF := "", ""
	if len(user) > 0 {
		carrierM = "  option (base.carrier_m) = {\n    " + strings.Join(user, "\n    ") + "\n  };\n"
		carrierF = "(base.carrier_f) = { " + strings.Join(user[:min(3, len(user))], " ") + " }"
	}
	fileOpts = st(0, "")
	u := prefix + "U"
	body = "message " + u + " {\n" + st(1, "  ") + carrierM +
		"  optional int32 f = 1" + li(2, carrierF) + ";\n" +
		"  oneof o {\n" + st(3, "    ") + "    int32 a = 2;\n    string b = 3;\n  }\n" +
		"  enum In {\n" + st(4, "    ") + "    IN0 = 0" + li(5, "") + ";\n  }\n" +
		"  extensions 100 to 200" + li(8, "") + ";\n}\n" +
		"service " + prefix + "S {\n" + st(6, "  ") + "  rpc Get(" + u + ") returns (" + u + ") {\n" + st(7, "    ") + "  }\n}\n"
	return
}

const b5Base = `syntax = "proto2";
package base;
import "google/protobuf/descriptor.proto";
enum E { E0 = 0; E1 = 1; }
message Cfg {
  optional int32 level = 1;
  repeated string names = 2;
  optional Cfg sub = 3;
  optional E e = 4;
  extensions 1000 to max;
}
extend google.protobuf.MessageOptions { optional Cfg carrier_m = 49001; }
extend google.protobuf.FieldOptions { optional Cfg carrier_f = 49002; }
`

func (f *b5DeclFile) text(extraImports []string) string {
	var sb strings.Builder
	sb.WriteString("syntax = \"proto2\";\npackage " + f.pkg + ";\nimport \"google/protobuf/descriptor.proto\";\nimport \"i/base.proto\";\n")
	for _, im := range extraImports {
		sb.WriteString("import \"" + im + "\";\n")
	}
	fo, body := "", ""
	if f.useSelf {
		fo, body = b5Usage("Self", f.all, 0)
	}
	sb.WriteString(fo)
	for _, e := range f.fileExts {
		sb.WriteString(e.declText() + "\n")
	}
	for _, t := range f.tops {
		t.render(&sb, "")
	}
	sb.WriteString(body)
	return sb.String()
}

func b5UserFile(pkg string, decls []*b5DeclFile, salt int) string {
	var sb strings.Builder
	sb.WriteString("syntax = \"proto2\";\npackage " + pkg + ";\nimport \"i/base.proto\";\n")
	var all []*b5Ext
	for _, d := range decls {
		sb.WriteString("import \"" + d.path + "\";\n")
		all = append(all, d.all...)
	}
	fo, body := b5Usage("", all, salt)
	sb.WriteString(fo + body)
	return sb.String()
}

type b5WS struct {
	files map[string]string // workspace-relative path -> text
	decls []*b5DeclFile
	named bool
}

func genB5WS(r *hx.Rand, random bool) b5WS {
	g := &b5Gen{r: r, rot: r.Intn(len(b5Types))}
	ws := b5WS{files: map[string]string{}, named: r.Bool()}
	same := g.declFile("t/same.proto", "ds", random)
	same.useSelf = true
	other := g.declFile("t/other.proto", "dx", random)
	imp := g.declFile("i/imp.proto", "di", random)
	mod := g.declFile("x/mod.proto", "dm", random)
	ws.decls = []*b5DeclFile{same, other, imp, mod}
	ws.files["m1/i/base.proto"] = b5Base
	ws.files["m1/t/same.proto"] = same.text(nil)
	ws.files["m1/t/other.proto"] = other.text(nil)
	ws.files["m1/i/imp.proto"] = imp.text(nil)
	ws.files["m2/x/mod.proto"] = mod.text(nil)
	ws.files["m1/t/use_other.proto"] = b5UserFile("uo", []*b5DeclFile{other}, 1)
	ws.files["m1/t/use_imp.proto"] = b5UserFile("ui", []*b5DeclFile{imp}, 2)
	ws.files["m1/t/use_mod.proto"] = b5UserFile("um", []*b5DeclFile{mod}, 3)
	ws.files["m1/i/use_in_imp.proto"] = b5UserFile("uii", []*b5DeclFile{imp, other}, 4)
	ws.files["m1/t/agg.proto"] = "syntax = \"proto3\";\npackage agg;\nimport \"i/use_in_imp.proto\";\nmessage Agg { uii.U u = 1; }\n"
	return ws
}

func (ws b5WS) write(dir string) {
	must0(os.RemoveAll(dir))
	for p, body := range ws.files {
		full := filepath.Join(dir, p)
		must0(os.MkdirAll(filepath.Dir(full), 0o755))
		must0(os.WriteFile(full, []byte(body), 0o644))
	}
	y := "version: v2\nmodules:\n  - path: m1\n  - path: m2\n"
	if ws.named {
		y = "version: v2\nmodules:\n  - path: m1\n    name: buf.build/acme/declsite\n  - path: m2\n    name: buf.build/acme/declsite-ext\n"
	}
	must0(os.WriteFile(filepath.Join(dir, "buf.yaml"), []byte(y), 0o644))
}

// ---------------------------------------------------------------------------------------
// what the BUILT descriptors declare (independent of generator intent and of buf's resolver)

type b5Declared struct {
	full, extendee, file string
	num                  int32
	depth                int
	pattern              string // per enclosing message, outer to inner: N pure namespace, f fields only, e declares extensions
	afterEmpty           bool   // an earlier sibling scope holds no extension in its whole subtree
	fd                   *descriptorpb.FieldDescriptorProto
}

func subtreeHasExt(m *descriptorpb.DescriptorProto) bool {
	if len(m.GetExtension()) > 0 {
		return true
	}
	for _, n := range m.GetNestedType() {
		if subtreeHasExt(n) {
			return true
		}
	}
	return false
}

func declaredExtensions(files []*imagev1.ImageFile) []b5Declared {
	var out []b5Declared
	for _, f := range files {
		prefix := f.GetPackage()
		add := func(scope string, exts []*descriptorpb.FieldDescriptorProto, depth int, pattern string, afterEmpty bool) {
			for _, e := range exts {
				full := e.GetName()
				if scope != "" {
					full = scope + "." + full
				}
				out = append(out, b5Declared{full: full, extendee: strings.TrimPrefix(e.GetExtendee(), "."), file: f.GetName(), num: e.GetNumber(), depth: depth, pattern: pattern, afterEmpty: afterEmpty, fd: e})
			}
		}
		add(prefix, f.GetExtension(), 0, "", false)
		var walk func(ms []*descriptorpb.DescriptorProto, scope string, depth int, pattern string)
		walk = func(ms []*descriptorpb.DescriptorProto, scope string, depth int, pattern string) {
			emptyBefore := false
			for _, m := range ms {
				name := m.GetName()
				if scope != "" {
					name = scope + "." + name
				}
				add(name, m.GetExtension(), depth, pattern, emptyBefore)
				c := "N"
				switch {
				case len(m.GetExtension()) > 0:
					c = "e"
				case len(m.GetField()) > 0:
					c = "f"
				}
				walk(m.GetNestedType(), name, depth+1, pattern+c)
				if !subtreeHasExt(m) {
					emptyBefore = true
				}
			}
		}
		walk(f.GetMessageType(), prefix, 1, "")
	}
	return out
}

// ---------------------------------------------------------------------------------------
// (b) the independent decoder

type b5Oracle struct {
	tag     string
	types   *dynamicpb.Types
	want    map[string]string
	siteOf  map[string]string
	fileOf  map[string]string
	kindOf  map[string]string
	unknown []string
}

// collectOptions lists every extension field of every options message of the image as
// key (kind|element|extension full name) -> canonical value bytes; unknown lists options
// messages (or values inside them) that still hold unknown fields.
func collectOptions(img *imagev1.Image) (vals map[string]string, unknown []string) {
	vals = map[string]string{}
	var hasUnknown func(m protoreflect.Message) bool
	hasUnknown = func(m protoreflect.Message) bool {
		if len(m.GetUnknown()) > 0 {
			return true
		}
		found := false
		m.Range(func(fd protoreflect.FieldDescriptor, v protoreflect.Value) bool {
			switch {
			case fd.IsMap():
				if fd.MapValue().Message() != nil {
					v.Map().Range(func(_ protoreflect.MapKey, mv protoreflect.Value) bool {
						found = found || hasUnknown(mv.Message())
						return !found
					})
				}
			case fd.Message() == nil:
			case fd.IsList():
				for i := 0; i < v.List().Len(); i++ {
					found = found || hasUnknown(v.List().Get(i).Message())
				}
			default:
				found = found || hasUnknown(v.Message())
			}
			return !found
		})
		return found
	}
	for _, f := range img.GetFile() {
		walkOptions(f, func(kind, where string, get func(create bool) protoreflect.Message) {
			m := get(false)
			if m == nil {
				return
			}
			if hasUnknown(m) {
				unknown = append(unknown, kind+"|"+where+": "+describeUnknown(m.GetUnknown()))
			}
			m.Range(func(fd protoreflect.FieldDescriptor, v protoreflect.Value) bool {
				if !fd.IsExtension() {
					return true
				}
				one := m.New()
				one.Set(fd, v)
				b, err := proto.MarshalOptions{Deterministic: true, AllowPartial: true}.Marshal(one.Interface())
				if err != nil {
					b = []byte("marshal error: " + err.Error())
				}
				vals[kind+"|"+where+"|"+string(fd.FullName())] = hex.EncodeToString(b)
				return true
			})
		})
	}
	return
}

// newB5Oracle: the resolver is built from the image's OWN descriptors by protodesc + dynamicpb;
// nothing of buf takes part.  binpb = the wire form of the image.
func newB5Oracle(tag string, binpb []byte, decls []b5Declared) (*b5Oracle, error) {
	fds := &descriptorpb.FileDescriptorSet{}
	if err := proto.Unmarshal(binpb, fds); err != nil { // Image and FileDescriptorSet share field 1; the buf extension stays unknown
		return nil, err
	}
	files, err := protodesc.NewFiles(fds)
	if err != nil {
		return nil, fmt.Errorf("protodesc.NewFiles: %v", err)
	}
	o := &b5Oracle{tag: tag, types: dynamicpb.NewTypes(files), siteOf: map[string]string{}, fileOf: map[string]string{}, kindOf: map[string]string{}}
	img := &imagev1.Image{}
	if err := (proto.UnmarshalOptions{Resolver: o.types}).Unmarshal(binpb, img); err != nil {
		return nil, err
	}
	o.want, o.unknown = collectOptions(img)
	for _, d := range decls {
		where := "at file level"
		if d.depth > 0 {
			where = fmt.Sprintf("in a message at depth %d", d.depth)
			if d.pattern != "" {
				where += " (enclosing messages " + d.pattern + ": N = pure namespace, f = fields only, e = declares extensions)"
			}
		}
		o.siteOf[d.full] = "declared in " + d.file + " " + where
		o.fileOf[d.full] = d.file
	}
	return o, nil
}

func (o *b5Oracle) decode(raw []byte, format string) (*imagev1.Image, error) {
	img := &imagev1.Image{}
	var err error
	func() {
		defer func() {
			if p := recover(); p != nil {
				err = fmt.Errorf("panic: %v", p)
			}
		}()
		switch format {
		case "json":
			err = protojson.UnmarshalOptions{Resolver: o.types}.Unmarshal(raw, img)
		case "txtpb":
			err = prototext.UnmarshalOptions{Resolver: o.types}.Unmarshal(raw, img)
		case "yaml":
			err = protoyaml.UnmarshalOptions{Resolver: o.types}.Unmarshal(raw, img)
		default:
			err = proto.UnmarshalOptions{Resolver: o.types}.Unmarshal(raw, img)
		}
	}()
	return img, err
}

// inspect decodes what buf wrote and compares the option values with the binpb form.
func (o *b5Oracle) inspect(raw []byte, format, what string, fail func(class, what string)) {
	if raw == nil {
		fail("C11-text-encoding-not-decodable-independently", fmt.Sprintf("[%s] %s: the output cannot be decompressed", o.tag, what))
		return
	}
	img, err := o.decode(raw, format)
	if err != nil {
		fail("C11-text-encoding-not-decodable-independently", fmt.Sprintf("[%s] %s cannot be decoded with a resolver built from the image's own descriptors (protodesc + dynamicpb): %s", o.tag, what, firstLines(err.Error(), 3)))
		return
	}
	got, unk := collectOptions(img)
	keys := make([]string, 0, len(o.want))
	for k := range o.want {
		keys = append(keys, k)
	}
	sort.Strings(keys)
	var dropped, changed []string
	for _, k := range keys {
		g, ok := got[k]
		switch {
		case !ok:
			dropped = append(dropped, k)
		case g != o.want[k]:
			changed = append(changed, k)
		}
	}
	describe := func(k string) string {
		p := strings.SplitN(k, "|", 3)
		return fmt.Sprintf("option (%s) on %s %s, %s", p[2], p[0], p[1], o.siteOf[p[2]])
	}
	if len(dropped) > 0 {
		fail("C11-text-encoding-drops-option-value", fmt.Sprintf("[%s] %s lacks %d of the %d option values the binpb form of the same image holds; first: %s", o.tag, what, len(dropped), len(keys), describe(dropped[0])))
	}
	if len(changed) > 0 {
		k := changed[0]
		fail("C11-text-encoding-changes-option-value", fmt.Sprintf("[%s] %s holds another value than the binpb form for %d options; first: %s: wire bytes %s vs %s", o.tag, what, len(changed), describe(k), o.want[k], got[k]))
	}
	var added []string
	for k := range got {
		if _, ok := o.want[k]; !ok {
			added = append(added, k)
		}
	}
	if len(added) > 0 {
		sort.Strings(added)
		fail("C11-text-encoding-adds-option-value", fmt.Sprintf("[%s] %s holds %d option values the binpb form does not; first: %s", o.tag, what, len(added), describe(added[0])))
	}
	if len(unk) > 0 && format == "binpb" {
		fail("C11-text-encoding-drops-option-value", fmt.Sprintf("[%s] %s: options with fields no descriptor of the image declares: %s", o.tag, what, unk[0]))
	}
}

// ---------------------------------------------------------------------------------------
// (c) the resolver: by number, by name, undeclared pairs

func descOf(xt protoreflect.ExtensionType) string {
	d := xt.TypeDescriptor()
	t := d.Kind().String()
	if d.Message() != nil {
		t += ":" + string(d.Message().FullName())
	}
	if d.Enum() != nil {
		t += ":" + string(d.Enum().FullName())
	}
	cm := "?"
	if d.ContainingMessage() != nil {
		cm = string(d.ContainingMessage().FullName())
	}
	return fmt.Sprintf("%s extends %s number %d %s %s", d.FullName(), cm, d.Number(), d.Cardinality(), t)
}

func declDesc(d b5Declared) string {
	t := protoreflect.Kind(d.fd.GetType()).String()
	if d.fd.GetTypeName() != "" {
		t += ":" + strings.TrimPrefix(d.fd.GetTypeName(), ".")
	}
	return fmt.Sprintf("%s extends %s number %d %s %s", d.full, d.extendee, d.num, protoreflect.Cardinality(d.fd.GetLabel()), t)
}

func checkResolver(tag, which string, res protoencoding.Resolver, decls []b5Declared, fail func(class, what string)) (lookups int) {
	if res == nil {
		fail("C11-resolver-misses-declared-extension", fmt.Sprintf("[%s] the %s has no resolver", tag, which))
		return
	}
	declared := map[string]bool{}
	extendees := map[string]bool{}
	for _, d := range decls {
		declared[fmt.Sprintf("%s#%d", d.extendee, d.num)] = true
		extendees[d.extendee] = true
	}
	var exts []string
	for e := range extendees {
		exts = append(exts, e)
	}
	sort.Strings(exts)
	find := func(f func() (protoreflect.ExtensionType, error)) (xt protoreflect.ExtensionType, err error) {
		defer func() {
			if p := recover(); p != nil {
				err = fmt.Errorf("panic: %v", p)
			}
		}()
		xt, err = f()
		if err == nil && xt == nil {
			err = fmt.Errorf("nil extension type without an error")
		}
		return
	}
	seen := map[string]bool{}
	report := func(class, what string) {
		if !seen[class] { // one witness per class and resolver: the family would repeat it hundreds of times
			seen[class] = true
			fail(class, what)
		}
	}
	for _, d := range decls {
		where := fmt.Sprintf("(%s, depth %d, enclosing messages %q)", d.file, d.depth, d.pattern)
		want := declDesc(d)
		byNum, errN := find(func() (protoreflect.ExtensionType, error) {
			return res.FindExtensionByNumber(protoreflect.FullName(d.extendee), protoreflect.FieldNumber(d.num))
		})
		byName, errS := find(func() (protoreflect.ExtensionType, error) {
			return res.FindExtensionByName(protoreflect.FullName(d.full))
		})
		lookups += 2
		switch {
		case errN != nil:
			report("C11-resolver-misses-declared-extension", fmt.Sprintf("[%s] %s: FindExtensionByNumber(%s, %d) = %v, but the image declares %s %s", tag, which, d.extendee, d.num, errN, want, where))
		case descOf(byNum) != want:
			report("C11-resolver-extension-by-number-wrong", fmt.Sprintf("[%s] %s: FindExtensionByNumber(%s, %d) = %s, the declaration is %s %s", tag, which, d.extendee, d.num, descOf(byNum), want, where))
		}
		switch {
		case errS != nil:
			report("C11-resolver-misses-declared-extension", fmt.Sprintf("[%s] %s: FindExtensionByName(%s) = %v, but the image declares it %s", tag, which, d.full, errS, where))
		case descOf(byName) != want:
			report("C11-resolver-by-name-vs-by-number-differ", fmt.Sprintf("[%s] %s: FindExtensionByName(%s) = %s, the declaration is %s %s", tag, which, d.full, descOf(byName), want, where))
		case errN == nil && descOf(byName) != descOf(byNum):
			report("C11-resolver-by-name-vs-by-number-differ", fmt.Sprintf("[%s] %s: by name %s, by number %s", tag, which, descOf(byName), descOf(byNum)))
		}
		for _, x := range exts {
			if declared[fmt.Sprintf("%s#%d", x, d.num)] {
				continue
			}
			lookups++
			if xt, err := find(func() (protoreflect.ExtensionType, error) {
				return res.FindExtensionByNumber(protoreflect.FullName(x), protoreflect.FieldNumber(d.num))
			}); err == nil {
				report("C11-resolver-finds-undeclared-extension", fmt.Sprintf("[%s] %s: FindExtensionByNumber(%s, %d) = %s, but no extension of %s has that number (it is the number of %s)", tag, which, x, d.num, descOf(xt), x, d.full))
			}
		}
	}
	return
}

// ---------------------------------------------------------------------------------------
// the workspace run

func (e *b3Env) declSiteWorkspace(r *hx.Rand, wi int, random bool) (compiled [][]*imagev1.ImageFile) {
	if os.Getenv("C11_TIMING") != "" {
		t0 := time.Now()
		defer func() { fmt.Fprintf(os.Stderr, "B5 workspace %d sequential part: %v\n", wi, time.Since(t0)) }()
	}
	ws := genB5WS(r, random)
	dir := filepath.Join(e.root, fmt.Sprintf("ws%d", wi))
	tmp := filepath.Join(e.root, fmt.Sprintf("t%d", wi))
	ws.write(dir)
	must0(os.RemoveAll(tmp))
	must0(os.MkdirAll(tmp, 0o755))
	variant := "stratified"
	if random {
		variant = "random"
	}
	e.run.Count("B5:workspace=" + variant)
	tdir := filepath.Join(dir, "m1", "t")
	builds := []struct {
		tag  string
		opts []bufctl.FunctionOption
		cli  string
		args []string
	}{
		{"all-targets", nil, dir, nil},
		{"path-t", []bufctl.FunctionOption{bufctl.WithTargetPaths([]string{tdir}, nil)}, dir + " --path " + tdir, []string{"--path", tdir}},
	}
	encs := b3Encodings()
	k := 0
	for bi, bd := range builds {
		tag := fmt.Sprintf("declsite-ws%d/%s/%s", wi, variant, bd.tag)
		failSeq := func(class, what string) {
			e.fail(class, what, map[string]any{"workspace": dir, "build": bd.tag}, "buf build "+bd.cli+" -o x.json   # and .yaml .txtpb .binpb; the workspace is left in place")
		}
		img, err := buildImage(e.ctl, dir, bd.opts...)
		if err != nil {
			e.fail("C11-generator-declsite-workspace-does-not-build", firstLines(err.Error(), 6), map[string]any{"workspace": dir, "build": bd.tag}, "buf build "+bd.cli)
			return
		}
		base := protoFiles(img)
		compiled = append(compiled, base)
		decls := declaredExtensions(base)
		binpb := must(proto.MarshalOptions{Deterministic: true}.Marshal(must(bufimage.ImageToProtoImage(img))))
		orc, err := newB5Oracle(tag, binpb, decls)
		if err != nil {
			failSeq("C11-generator-declsite-family-blind", "the independent resolver cannot be built from the image: "+err.Error())
			return
		}
		// self-check: the family is there (from the descriptors), everything declared is used
		facts := b5Facts(base, decls, orc)
		for _, need := range b5Required(random, bd.tag == "path-t") {
			if facts[need] == 0 {
				failSeq("C11-generator-declsite-family-blind", fmt.Sprintf("[%s] the built image has no instance of %q", tag, need))
			}
		}
		if len(orc.unknown) > 0 {
			failSeq("C11-generator-declsite-family-blind", fmt.Sprintf("[%s] the independent resolver leaves unknown fields in options of the built image: %s", tag, orc.unknown[0]))
		}
		if wi == 0 {
			for kf, n := range facts {
				if bi == 1 || !strings.HasPrefix(kf, "use:") {
					e.run.CountN("B5:"+bd.tag+":"+kf, n)
				}
			}
		}
		// (c) the resolver of the source-built image
		e.run.Eval()
		n := checkResolver(tag, "resolver of the image built from the sources", img.Resolver(), decls, failSeq)
		e.run.CountN("B5:resolver-lookups-source-built", n)
		// (a) + (b): round trips
		getFor := func(fl flagSet) func() (bufimage.Image, error) {
			opts := append(append([]bufctl.FunctionOption{}, bd.opts...), fl.getOpts()...)
			return func() (bufimage.Image, error) { return safeGetImage(e.ctl, dir, opts...) }
		}
		queue := func(enc encCase, fl flagSet) {
			k++
			what := fmt.Sprintf("`buf build %s%s -o x%s`", bd.cli, fl.cli(), enc.ext+enc.suffix)
			e.add(rtJob{tag: tag, srcDesc: bd.cli, tmp: tmp, get: getFor(fl), pristine: applyFlags(base, fl.exclImports, fl.exclSI, false),
				want: applyFlags(base, fl.exclImports, fl.exclSI, fl.fds), enc: enc, fl: fl, k: k, part: "B5",
				inspect: func(path string, fail func(class, what string)) {
					raw, err := os.ReadFile(path)
					if err != nil {
						fail("C11-roundtrip-write-error", err.Error())
						return
					}
					orc.inspect(decompress(raw, enc.comp), enc.format, what, fail)
				},
				inspectBack: func(back bufimage.Image, fail func(class, what string)) {
					checkResolver(tag, "resolver of the image read back from "+enc.ext+enc.suffix, back.Resolver(), decls, fail)
				}})
		}
		quick := !e.run.Thorough()
		for ei, enc := range encs {
			fl := b3Flags[0]
			if enc.comp != "" {
				// compressed spellings: one per format and build in the quick tier, without source info
				if quick && (ei/3+bi+wi+int(e.run.Seed))%2+1 != enc2idx(enc.comp) {
					continue
				}
				fl = b3Flags[1]
			}
			if bi == 1 && enc.comp == "" && enc.format != "binpb" && (ei/3+wi)%2 == 0 {
				fl = b3Flags[2] // as a FileDescriptorSet
			}
			queue(enc, fl)
		}
		if bi == 0 {
			queue(encCase{format: "json", comp: "", ext: ".pn.json", suffix: "#use_proto_names=true"}, b3Flags[0])
			queue(encCase{format: "yaml", comp: "", ext: ".pn.yaml", suffix: "#use_proto_names=true,use_enum_numbers=true"}, b3Flags[1])
		}
		// (d) the real binary
		if e.b != nil && (wi == 0 || e.run.Thorough()) {
			var jobs []job
			formats := []string{"json", "yaml", "txtpb", "binpb"}
			for _, f := range formats {
				jobs = append(jobs, job{dir, append(append([]string{"build"}, bd.args...), "-o", filepath.Join(tmp, fmt.Sprintf("bin%d.%s", bi, f)))})
			}
			res := e.b.execAll(jobs)
			for i, f := range formats {
				e.run.Count("B5:binary=" + f)
				failBin := func(class, what string) {
					e.fail(class, what, map[string]any{"workspace": dir, "build": bd.tag, "encoding": f}, e.b.cmdLine(jobs[i])+"   # decode the output with a resolver made of the image's own descriptors and list the options")
				}
				if res[i].code != 0 {
					failBin("C11-roundtrip-write-error", fmt.Sprintf("binary: exit %d: %s", res[i].code, firstLines(res[i].stderr, 3)))
					continue
				}
				raw, err := os.ReadFile(jobs[i].args[len(jobs[i].args)-1])
				if err != nil {
					failBin("C11-roundtrip-write-error", err.Error())
					continue
				}
				orc.inspect(raw, f, "[binary] `buf build "+bd.cli+" -o x."+f+"`", failBin)
			}
		}
	}
	return
}

func enc2idx(comp string) int {
	if comp == ".gz" {
		return 1
	}
	return 2
}

// b5Facts re-derives the family from the descriptors and the decoded options.
func b5Facts(files []*imagev1.ImageFile, decls []b5Declared, o *b5Oracle) map[string]int {
	facts := map[string]int{}
	kindOf := map[string]string{}
	for _, k := range b5Kinds {
		kindOf[k.extendee] = k.kind
	}
	isImport := map[string]bool{}
	for _, f := range files {
		isImport[f.GetName()] = f.GetBufExtension().GetIsImport()
	}
	used := map[string]bool{}
	var visit func(m protoreflect.Message)
	visit = func(m protoreflect.Message) {
		m.Range(func(fd protoreflect.FieldDescriptor, v protoreflect.Value) bool {
			if fd.IsExtension() {
				used[string(fd.FullName())] = true
			}
			if fd.Message() != nil && !fd.IsMap() {
				if fd.IsList() {
					for i := 0; i < v.List().Len(); i++ {
						visit(v.List().Get(i).Message())
					}
				} else {
					visit(v.Message())
				}
			}
			return true
		})
	}
	for k := range o.want {
		p := strings.SplitN(k, "|", 3)
		used[p[2]] = true
		userFile := p[1]
		if i := strings.Index(userFile, ":"); i >= 0 {
			userFile = userFile[:i]
		}
		declFile := o.fileOf[p[2]]
		rel := "other-file"
		switch {
		case declFile == userFile:
			rel = "same-file"
		case strings.HasPrefix(declFile, "x/"):
			rel = "other-module"
		case isImport[userFile]:
			rel = "user-is-import"
		case isImport[declFile]:
			rel = "declared-in-import"
		}
		facts["use:"+p[0]+":"+rel]++
	}
	// user-message extensions live inside the carrier values: decode them from the canonical bytes
	for k, hx := range o.want {
		p := strings.SplitN(k, "|", 3)
		if !strings.HasPrefix(p[2], "base.carrier_") {
			continue
		}
		xt, err := o.types.FindExtensionByName(protoreflect.FullName(p[2]))
		if err != nil {
			continue
		}
		holder := dynamicpb.NewMessage(xt.TypeDescriptor().ContainingMessage())
		if err := (proto.UnmarshalOptions{Resolver: o.types}).Unmarshal(must(hex.DecodeString(hx)), holder); err == nil {
			visit(holder)
		}
	}
	for _, d := range decls {
		kind := kindOf[d.extendee]
		if kind == "" || strings.HasPrefix(d.file, "google/") || d.file == "i/base.proto" {
			continue
		}
		facts[fmt.Sprintf("decl:%s:depth=%d", kind, d.depth)]++
		if d.depth >= 2 && strings.Trim(d.pattern, "N") == "" {
			facts["decl:"+kind+":below-namespaces-only"]++
		}
		if strings.Contains(d.pattern, "e") {
			facts["decl:"+kind+":below-parent-with-extensions"]++
		}
		if strings.Contains(d.pattern, "e") && strings.Contains(d.pattern, "N") {
			facts["decl:"+kind+":below-mixed-parents"]++
		}
		if d.afterEmpty {
			facts["decl:"+kind+":after-empty-sibling"]++
		}
		role := "target-file"
		switch {
		case strings.HasPrefix(d.file, "x/"):
			role = "other-module"
		case isImport[d.file]:
			role = "import-file"
		}
		facts["decl:"+kind+":in-"+role]++
		if !used[d.full] {
			facts["declared-but-unused"]++
		} else {
			facts["declared-and-used"]++
		}
	}
	// numbers shared by different extendees
	byNum := map[int32]map[string]bool{}
	for _, d := range decls {
		if byNum[d.num] == nil {
			byNum[d.num] = map[string]bool{}
		}
		byNum[d.num][d.extendee] = true
	}
	for _, s := range byNum {
		if len(s) > 1 {
			facts["number-shared-by-extendees"]++
		}
		if len(s) == len(b5Kinds) {
			facts["number-shared-by-all-ten-extendees"]++
		}
	}
	if facts["declared-but-unused"] == 0 {
		facts["every-declared-extension-is-used"] = 1
	}
	return facts
}

func b5Required(random, pathBuild bool) []string {
	need := []string{"every-declared-extension-is-used", "number-shared-by-extendees", "declared-and-used"}
	if random {
		return need
	}
	need = append(need, "number-shared-by-all-ten-extendees")
	for _, k := range b5Kinds {
		for d := 0; d <= 4; d++ {
			need = append(need, fmt.Sprintf("decl:%s:depth=%d", k.kind, d))
		}
		need = append(need, "decl:"+k.kind+":below-namespaces-only", "decl:"+k.kind+":below-parent-with-extensions", "decl:"+k.kind+":below-mixed-parents",
			"decl:"+k.kind+":after-empty-sibling", "decl:"+k.kind+":in-target-file", "decl:"+k.kind+":in-other-module")
		if pathBuild {
			need = append(need, "decl:"+k.kind+":in-import-file")
		}
		if k.kind == "user" {
			continue
		}
		need = append(need, "use:"+k.kind+":same-file", "use:"+k.kind+":other-file", "use:"+k.kind+":other-module")
		if pathBuild {
			need = append(need, "use:"+k.kind+":user-is-import", "use:"+k.kind+":declared-in-import")
		}
	}
	return need
}

// partB5Start: sequential part (builds, self-checks, resolver checks, binary leg, Part F lines of
// the compiled files); the round trips run in the background, the caller calls finish().
func partB5Start(run *hx.Run, r *hx.Rand, b *bufRun, root string) *b3Env {
	e := &b3Env{run: run, root: filepath.Join(root, "b5"), b: b}
	must0(os.RemoveAll(e.root))
	must0(os.MkdirAll(e.root, 0o755))
	e.ctl = newController(e.root, strings.NewReader(""), io.Discard)
	n := run.N(2, 8) // workspace 0 is the stratified family, the others are random trees
	var cases []fextCase
	for i := 0; i < n; i++ {
		for bi, files := range e.declSiteWorkspace(r.Fork(uint64(i)), i, i > 0) {
			if bi == 0 && i < 3 {
				cases = append(cases, compiledFextCases(files)...)
			}
		}
	}
	if len(cases) > 0 {
		if probe, err := getFextProbe(run); err == nil {
			runFextCases(run, probe, cases, "b5")
		}
	}
	e.start()
	return e
}

// ---------------------------------------------------------------------------------------
// Part F: findExtension, verbatim, against the model

const fextProbeMain = `package main

import (
	"bufio"
	"encoding/hex"
	"fmt"
	"os"
	"strconv"
	"strings"

	"google.golang.org/protobuf/proto"
	"google.golang.org/protobuf/reflect/protodesc"
	"google.golang.org/protobuf/reflect/protoreflect"
	"google.golang.org/protobuf/types/descriptorpb"
)

// line: <hex FileDescriptorSet> <path of the file to search> <extendee#number,...>
// answer: per query the full name of the extension found or "-"
func main() {
	sc := bufio.NewScanner(os.Stdin)
	sc.Buffer(make([]byte, 1<<20), 1<<28)
	w := bufio.NewWriter(os.Stdout)
	defer w.Flush()
	for sc.Scan() {
		parts := strings.Split(sc.Text(), " ")
		if len(parts) != 3 {
			fmt.Fprintln(w, "bad-line")
			continue
		}
		raw, err := hex.DecodeString(parts[0])
		if err != nil {
			fmt.Fprintln(w, "bad-hex")
			continue
		}
		set := &descriptorpb.FileDescriptorSet{}
		if err := proto.Unmarshal(raw, set); err != nil {
			fmt.Fprintln(w, "bad-proto")
			continue
		}
		files, err := protodesc.FileOptions{AllowUnresolvable: true}.NewFiles(set)
		if err != nil {
			fmt.Fprintln(w, "bad-descriptors:"+strings.ReplaceAll(err.Error(), " ", "_"))
			continue
		}
		fd, err := files.FindFileByPath(parts[1])
		if err != nil {
			fmt.Fprintln(w, "no-file")
			continue
		}
		var out []string
		for _, q := range strings.Split(parts[2], ",") {
			i := strings.LastIndex(q, "#")
			n, _ := strconv.Atoi(q[i+1:])
			func() {
				defer func() {
					if p := recover(); p != nil {
						out = append(out, "panic")
					}
				}()
				x := findExtension(fd, protoreflect.FullName(q[:i]), protoreflect.FieldNumber(n))
				if x == nil {
					out = append(out, "-")
				} else {
					out = append(out, string(x.FullName()))
				}
			}()
		}
		fmt.Fprintln(w, strings.Join(out, " "))
	}
}
`

func buildFextProbe(run *hx.Run) (string, error) {
	repo := os.Getenv("VERIF_REPO")
	if repo == "" {
		repo = "/repo"
	}
	srcPath := filepath.Join(repo, "private/bufpkg/bufimage/build_image.go")
	src, err := os.ReadFile(srcPath)
	if err != nil {
		return "", err
	}
	fset := token.NewFileSet()
	parsed, err := parser.ParseFile(fset, srcPath, src, parser.ParseComments)
	if err != nil {
		return "", err
	}
	var fn, ct string
	cut := func(from, to token.Pos) string {
		return string(src[fset.Position(from).Offset:fset.Position(to).Offset])
	}
	for _, d := range parsed.Decls {
		switch d := d.(type) {
		case *ast.FuncDecl:
			if d.Name.Name == "findExtension" && d.Recv == nil {
				fn = cut(d.Pos(), d.End())
			}
		case *ast.GenDecl:
			for _, s := range d.Specs {
				if ts, ok := s.(*ast.TypeSpec); ok && ts.Name.Name == "container" {
					ct = cut(d.Pos(), d.End())
				}
			}
		}
	}
	if fn == "" || ct == "" {
		return "", fmt.Errorf("build_image.go no longer declares `func findExtension` and `type container`")
	}
	if !regexp.MustCompile(`findExtension\(r\.pathToFile\[[^\]]*\], message, field\)`).Match(src) {
		return "", fmt.Errorf("FindExtensionByNumber in build_image.go no longer calls findExtension(r.pathToFile[…], message, field)")
	}
	dir := filepath.Join(run.OutDir, "c11fext")
	if err := os.MkdirAll(dir, 0o755); err != nil {
		return "", err
	}
	harnessDir := filepath.Join(os.Getenv("VERIF_DIR"), "harness")
	if os.Getenv("VERIF_DIR") == "" {
		harnessDir = "harness"
		if _, err := os.Stat(filepath.Join(harnessDir, "go.mod")); err != nil {
			harnessDir = "."
		}
	}
	gomod, err := os.ReadFile(filepath.Join(harnessDir, "go.mod"))
	if err != nil {
		return "", err
	}
	mod := strings.Replace(string(gomod), "module github.com/bufbuild/verifharness", "module github.com/bufbuild/verifharness/c11fext", 1)
	mod = regexp.MustCompile(`replace github.com/bufbuild/buf => .*`).ReplaceAllString(mod, "replace github.com/bufbuild/buf => "+repo)
	gosum, err := os.ReadFile(filepath.Join(harnessDir, "go.sum"))
	if err != nil {
		return "", err
	}
	for name, data := range map[string][]byte{
		"find_extension.go": []byte("// Cut by harness c11 out of private/bufpkg/bufimage/build_image.go (verbatim). DO NOT EDIT.\npackage main\n\nimport \"google.golang.org/protobuf/reflect/protoreflect\"\n\n" + ct + "\n\n" + fn + "\n"),
		"main.go":           []byte(fextProbeMain),
		"go.mod":            []byte(mod),
		"go.sum":            gosum,
	} {
		if err := os.WriteFile(filepath.Join(dir, name), data, 0o644); err != nil {
			return "", err
		}
	}
	exe := filepath.Join(dir, "probe")
	cmd := exec.Command("go", "build", "-o", exe, ".")
	cmd.Dir = dir
	cmd.Env = append(os.Environ(), "GOPROXY=off", "GOFLAGS=-mod=mod")
	if b, err := cmd.CombinedOutput(); err != nil {
		return "", fmt.Errorf("go build of the findExtension probe in %s: %v\n%s", dir, err, b)
	}
	return exe, nil
}

var fextProbeExe string
var fextProbeErr error
var fextProbeDone bool

func getFextProbe(run *hx.Run) (string, error) {
	if !fextProbeDone {
		fextProbeExe, fextProbeErr = buildFextProbe(run)
		fextProbeDone = true
		if fextProbeErr != nil {
			run.Fail(hx.OracleFailure{Class: "C11-findext-probe-not-buildable", What: fextProbeErr.Error(), Input: "private/bufpkg/bufimage/build_image.go (findExtension, container)",
				Replay: fmt.Sprintf("build/c11 --out /tmp/c11-replay --seed %d --tier %s", run.Seed, run.Tier)})
		}
	}
	return fextProbeExe, fextProbeErr
}

// fextCase: one file of a descriptor set + queries
type fextCase struct {
	set     *descriptorpb.FileDescriptorSet
	file    *descriptorpb.FileDescriptorProto
	queries []fextQuery
	tag     string
}

type fextQuery struct {
	extendee string
	num      int32
}

type fextDecl struct {
	full, extendee string
	num            int32
	depth          int
	belowEmpty     bool
}

// encFextTree: the model's view of one file: scopes with their own extensions, names interned.
func encFextTree(f *descriptorpb.FileDescriptorProto, extendeeID map[string]int) (tree string, decls []fextDecl) {
	var out []string
	intern := func(s string) int {
		if id, ok := extendeeID[s]; ok {
			return id
		}
		extendeeID[s] = len(extendeeID)
		return extendeeID[s]
	}
	exts := func(scope string, es []*descriptorpb.FieldDescriptorProto, depth int, belowEmpty bool) {
		out = append(out, fmt.Sprint(len(es)))
		for _, e := range es {
			full := e.GetName()
			if scope != "" {
				full = scope + "." + full
			}
			x := strings.TrimPrefix(e.GetExtendee(), ".")
			out = append(out, fmt.Sprintf("%d,%d,%d", intern(x), e.GetNumber(), len(decls)))
			decls = append(decls, fextDecl{full, x, e.GetNumber(), depth, belowEmpty})
		}
	}
	var msgs func(scope string, ms []*descriptorpb.DescriptorProto, depth int, belowEmpty bool)
	msgs = func(scope string, ms []*descriptorpb.DescriptorProto, depth int, belowEmpty bool) {
		out = append(out, fmt.Sprint(len(ms)))
		for _, m := range ms {
			name := m.GetName()
			if scope != "" {
				name = scope + "." + name
			}
			out = append(out, "M")
			exts(name, m.GetExtension(), depth, belowEmpty)
			msgs(name, m.GetNestedType(), depth+1, belowEmpty || len(m.GetExtension()) == 0)
		}
	}
	out = append(out, "F")
	exts(f.GetPackage(), f.GetExtension(), 0, false)
	msgs(f.GetPackage(), f.GetMessageType(), 1, false)
	return strings.Join(out, " "), decls
}

func genFextMsg(r *hx.Rand, name string, depth int, extendees []string, counter *int, pEmpty int) *descriptorpb.DescriptorProto {
	m := &descriptorpb.DescriptorProto{Name: proto.String(name)}
	if !r.Chance(pEmpty, 10) {
		for i, n := 0, 1+r.Intn(3); i < n; i++ {
			*counter++
			m.Extension = append(m.Extension, &descriptorpb.FieldDescriptorProto{
				Name: proto.String(fmt.Sprintf("x%d", *counter)), Number: proto.Int32(int32(1 + r.Intn(6))), Extendee: proto.String("." + hx.Pick(r, extendees)),
				Label: descriptorpb.FieldDescriptorProto_LABEL_OPTIONAL.Enum(), Type: descriptorpb.FieldDescriptorProto_TYPE_INT32.Enum()})
		}
	}
	if r.Chance(1, 3) {
		m.Field = []*descriptorpb.FieldDescriptorProto{{Name: proto.String("keep"), Number: proto.Int32(1), Label: descriptorpb.FieldDescriptorProto_LABEL_OPTIONAL.Enum(), Type: descriptorpb.FieldDescriptorProto_TYPE_INT32.Enum()}}
	}
	if depth < 6 {
		kids := r.Intn(3)
		if depth < 2 && kids == 0 {
			kids = 1
		}
		for i := 0; i < kids; i++ {
			m.NestedType = append(m.NestedType, genFextMsg(r, fmt.Sprintf("N%d", i), depth+1, extendees, counter, pEmpty))
		}
	}
	return m
}

func genFextCase(r *hx.Rand, i int) fextCase {
	nExt := 1 + r.Intn(4)
	var extendees []string
	f := &descriptorpb.FileDescriptorProto{Name: proto.String(fmt.Sprintf("g%d.proto", i)), Package: proto.String("p"), Syntax: proto.String("proto2")}
	for k := 0; k < nExt; k++ {
		extendees = append(extendees, fmt.Sprintf("p.E%d", k))
		f.MessageType = append(f.MessageType, &descriptorpb.DescriptorProto{Name: proto.String(fmt.Sprintf("E%d", k)),
			ExtensionRange: []*descriptorpb.DescriptorProto_ExtensionRange{{Start: proto.Int32(1), End: proto.Int32(100)}}})
	}
	counter := 0
	pEmpty := []int{3, 6, 8, 9}[r.Intn(4)]
	if r.Chance(1, 3) {
		for n := r.Intn(3); n > 0; n-- {
			counter++
			f.Extension = append(f.Extension, &descriptorpb.FieldDescriptorProto{Name: proto.String(fmt.Sprintf("x%d", counter)), Number: proto.Int32(int32(1 + r.Intn(6))), Extendee: proto.String("." + hx.Pick(r, extendees)),
				Label: descriptorpb.FieldDescriptorProto_LABEL_OPTIONAL.Enum(), Type: descriptorpb.FieldDescriptorProto_TYPE_INT32.Enum()})
		}
	}
	for t, tn := 0, 1+r.Intn(3); t < tn; t++ {
		f.MessageType = append(f.MessageType, genFextMsg(r, fmt.Sprintf("T%d", t), 1, extendees, &counter, pEmpty))
	}
	if r.Chance(1, 2) {
		hx.Shuffle(r, f.MessageType)
	}
	c := fextCase{set: &descriptorpb.FileDescriptorSet{File: []*descriptorpb.FileDescriptorProto{f}}, file: f, tag: "generated"}
	for _, x := range append(extendees, "p.Nobody") {
		for n := int32(1); n <= 7; n++ {
			c.queries = append(c.queries, fextQuery{x, n})
		}
	}
	return c
}

// compiledFextCases: every non-WKT file of a compiled image; queries = every declared pair and,
// per declared number, every extendee of the file (numbers shared across extendees).
func compiledFextCases(files []*imagev1.ImageFile) []fextCase {
	set := &descriptorpb.FileDescriptorSet{}
	for _, f := range files {
		c := proto.CloneOf(f)
		c.ClearBufExtension()
		c.ClearSourceCodeInfo()
		fd := &descriptorpb.FileDescriptorProto{}
		must0(proto.Unmarshal(must(proto.Marshal(c)), fd))
		set.File = append(set.File, fd)
	}
	var out []fextCase
	for _, fd := range set.File {
		if strings.HasPrefix(fd.GetName(), "google/protobuf/") {
			continue
		}
		_, decls := encFextTree(fd, map[string]int{})
		if len(decls) == 0 {
			continue
		}
		c := fextCase{set: set, file: fd, tag: "compiled-declsite-family"}
		xs := map[string]bool{}
		nums := map[int32]bool{}
		for _, d := range decls {
			xs[d.extendee] = true
			nums[d.num] = true
		}
		var xl []string
		for x := range xs {
			xl = append(xl, x)
		}
		sort.Strings(xl)
		var nl []int32
		for n := range nums {
			nl = append(nl, n)
		}
		sort.Slice(nl, func(i, j int) bool { return nl[i] < nl[j] })
		for _, n := range nl {
			for _, x := range xl {
				c.queries = append(c.queries, fextQuery{x, n})
			}
		}
		out = append(out, c)
	}
	return out
}

func partF(run *hx.Run, r *hx.Rand) {
	probe, err := getFextProbe(run)
	if err != nil {
		return
	}
	var cases []fextCase
	// witnesses: an extension two / three deep below pure namespaces; a shared number, the other extendee first
	i32, opt := descriptorpb.FieldDescriptorProto_TYPE_INT32.Enum(), descriptorpb.FieldDescriptorProto_LABEL_OPTIONAL.Enum()
	rng := []*descriptorpb.DescriptorProto_ExtensionRange{{Start: proto.Int32(1), End: proto.Int32(100)}}
	for d := 2; d <= 3; d++ {
		cur := &descriptorpb.DescriptorProto{Name: proto.String("Fields"), Extension: []*descriptorpb.FieldDescriptorProto{{Name: proto.String("deep"), Number: proto.Int32(7), Extendee: proto.String(".p.E0"), Label: opt, Type: i32}}}
		for k := d - 1; k >= 1; k-- {
			cur = &descriptorpb.DescriptorProto{Name: proto.String(fmt.Sprintf("Scope%d", k)), NestedType: []*descriptorpb.DescriptorProto{cur}}
		}
		f := &descriptorpb.FileDescriptorProto{Name: proto.String(fmt.Sprintf("w%d.proto", d)), Package: proto.String("p"), Syntax: proto.String("proto2"),
			MessageType: []*descriptorpb.DescriptorProto{{Name: proto.String("E0"), ExtensionRange: rng}, cur}}
		cases = append(cases, fextCase{set: &descriptorpb.FileDescriptorSet{File: []*descriptorpb.FileDescriptorProto{f}}, file: f, tag: fmt.Sprintf("witness-namespace-depth%d", d),
			queries: []fextQuery{{"p.E0", 7}, {"p.E0", 8}, {"p.E1", 7}}})
	}
	{
		f := &descriptorpb.FileDescriptorProto{Name: proto.String("wc.proto"), Package: proto.String("p"), Syntax: proto.String("proto2"),
			MessageType: []*descriptorpb.DescriptorProto{{Name: proto.String("E0"), ExtensionRange: rng}, {Name: proto.String("E1"), ExtensionRange: rng},
				{Name: proto.String("H"), Extension: []*descriptorpb.FieldDescriptorProto{{Name: proto.String("b"), Number: proto.Int32(7), Extendee: proto.String(".p.E1"), Label: opt, Type: i32}}}},
			Extension: []*descriptorpb.FieldDescriptorProto{{Name: proto.String("a"), Number: proto.Int32(7), Extendee: proto.String(".p.E0"), Label: opt, Type: i32}}}
		cases = append(cases, fextCase{set: &descriptorpb.FileDescriptorSet{File: []*descriptorpb.FileDescriptorProto{f}}, file: f, tag: "witness-shared-number",
			queries: []fextQuery{{"p.E0", 7}, {"p.E1", 7}, {"p.E2", 7}}})
	}
	n := run.N(600, 12000)
	for i := 0; i < n; i++ {
		cases = append(cases, genFextCase(r.Fork(uint64(i)), i))
	}
	runFextCases(run, probe, cases, "gen")
}

func runFextCases(run *hx.Run, probe string, cases []fextCase, batch string) {
	var in bytes.Buffer
	setHex := map[*descriptorpb.FileDescriptorSet]string{}
	for _, c := range cases {
		h, ok := setHex[c.set]
		if !ok {
			h = hex.EncodeToString(must(proto.MarshalOptions{Deterministic: true}.Marshal(c.set)))
			setHex[c.set] = h
		}
		var qs []string
		for _, q := range c.queries {
			qs = append(qs, fmt.Sprintf("%s#%d", q.extendee, q.num))
		}
		in.WriteString(h + " " + c.file.GetName() + " " + strings.Join(qs, ",") + "\n")
	}
	inFile := filepath.Join(filepath.Dir(probe), "in-"+batch+".txt")
	must0(os.WriteFile(inFile, in.Bytes(), 0o644))
	cmd := exec.Command(probe)
	cmd.Stdin = &in
	var out, errb bytes.Buffer
	cmd.Stdout, cmd.Stderr = &out, &errb
	if err := cmd.Run(); err != nil {
		run.Fail(hx.OracleFailure{Class: "C11-panic-findext-probe", What: err.Error() + ": " + firstLines(errb.String(), 5), Input: nil, Replay: probe + " < " + inFile})
		return
	}
	sc := bufio.NewScanner(&out)
	sc.Buffer(make([]byte, 1<<20), 1<<28)
	i := 0
	for sc.Scan() {
		if i >= len(cases) {
			break
		}
		c := cases[i]
		i++
		ids := map[string]int{}
		tree, decls := encFextTree(c.file, ids)
		var qs []string
		for _, q := range c.queries {
			id, ok := ids[q.extendee]
			if !ok {
				id = 1000000 + len(qs) // a message nothing in the file extends
			}
			qs = append(qs, fmt.Sprintf("%d,%d", id, q.num))
		}
		line := "fext\t" + tree + "\t" + strings.Join(qs, " ")
		replay := fmt.Sprintf("sed -n %dp %s | %s   # answers per query (extendee#number) with the full name of the extension found or -; file %s (%s); probe = findExtension cut verbatim out of build_image.go, source next to it", i, inFile, probe, c.file.GetName(), c.tag)
		answers := strings.Split(sc.Text(), " ")
		if len(answers) != len(c.queries) {
			run.Case(line, "probe:"+sc.Text()[:min(len(sc.Text()), 100)], true)
			run.Fail(hx.OracleFailure{Class: "C11-panic-findext-probe", What: sc.Text()[:min(len(sc.Text()), 300)], Input: line, Replay: replay})
			continue
		}
		idOf := map[string]int{}
		for k, d := range decls {
			if _, dup := idOf[d.full]; !dup {
				idOf[d.full] = k
			}
		}
		var impl []string
		deep := false
		for qi, a := range answers {
			q := c.queries[qi]
			var declared *fextDecl
			for k := range decls {
				if decls[k].extendee == q.extendee && decls[k].num == q.num {
					declared = &decls[k]
					break
				}
			}
			if declared != nil && declared.belowEmpty {
				deep = true
			}
			switch {
			case a == "-":
				impl = append(impl, "-")
				if declared != nil {
					run.Fail(hx.OracleFailure{Class: "C11-find-extension-misses-declared", What: fmt.Sprintf("findExtension(%s, %s, %d) = nil, but the file declares %s at depth %d", c.file.GetName(), q.extendee, q.num, declared.full, declared.depth), Input: line, Replay: replay})
				}
			default:
				k, ok := idOf[a]
				if !ok {
					impl = append(impl, "?"+a)
					run.Fail(hx.OracleFailure{Class: "C11-find-extension-wrong-extendee", What: fmt.Sprintf("findExtension(%s, %s, %d) = %s, which the file does not declare", c.file.GetName(), q.extendee, q.num, a), Input: line, Replay: replay})
					continue
				}
				impl = append(impl, fmt.Sprint(k))
				if decls[k].extendee != q.extendee || decls[k].num != q.num {
					run.Fail(hx.OracleFailure{Class: "C11-find-extension-wrong-extendee", What: fmt.Sprintf("findExtension(%s, %s, %d) = %s, which extends %s with number %d", c.file.GetName(), q.extendee, q.num, a, decls[k].extendee, decls[k].num), Input: line, Replay: replay})
				}
			}
		}
		run.Case(line, strings.Join(impl, " "), deep)
		run.Count("F:" + c.tag)
		if deep {
			run.Count("F:declared-below-a-scope-without-own-extensions")
		}
	}
	if i != len(cases) {
		run.Fail(hx.OracleFailure{Class: "C11-panic-findext-probe", What: fmt.Sprintf("the probe answered %d of %d lines: %s", i, len(cases), firstLines(errb.String(), 5)), Input: nil, Replay: probe + " < " + inFile})
	}
}
