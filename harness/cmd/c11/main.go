// Command c11 is the harness for property C11 ("an image faithfully stands in for its sources,
// in every encoding").
//
// Part A (model correspondence + oracle): (A1) synthetic images (arbitrary dependency graphs,
// import flags) through the real bufimage.ImageWithOnlyPaths / ImageWithOnlyPathsAllowNotExist
// with generated --path / --exclude-path lists (files, directories, string-prefix siblings,
// missing paths, ".", unnormalised, duplicates); (A2) generated multi-module workspaces
// (cross-module imports, WKT imports, directories ending in ".proto", untargeted modules)
// built in-process: module-level targeting (bufmodule.LocalModuleWithTargetPaths + BuildImage)
// versus image-level filtering of the fully built image; both ordered (path, isImport) lists
// are compared with the Lean model and, under the property's side condition, with each other.
//
// Part B (oracle; real `buf` binary built from the working tree): encodings x compressions x
// flags round trip, source packagings, lint / breaking / build --path on image vs sources.
// Part B2 (partb2.go): the CHECK CONFIGURATION an image input gets: buf.yaml v1beta1 / v1 / v2 x
// {no / empty / use+except / ignore / ignore_only / comment ignores / options / disabled / invalid}
// lint sections x {no / empty / use / except / ignore / ignore_only / ignore_unstable_packages}
// breaking sections x {buf.yaml of the working directory, --config inline, --config file};
// lint with --path/--exclude-path on the image; module in a sub-directory; sections on the module.
//
// Part C (model correspondence): stripBufExtensionField observed through
// bufimage.NewImageFile + ImageToProtoImage on descriptors with crafted unknown fields, and the
// image <-> proto image field mapping through ImageToProtoImage / NewImageForProto.
package main

import (
	"context"
	"errors"
	"fmt"
	"io"
	"log/slog"
	"os"
	"sort"
	"strings"
	"time"

	"github.com/bufbuild/buf/private/bufpkg/bufanalysis"
	"github.com/bufbuild/buf/private/bufpkg/bufimage"
	"github.com/bufbuild/buf/private/bufpkg/bufmodule"
	"github.com/bufbuild/buf/private/bufpkg/bufparse"
	"github.com/bufbuild/buf/private/pkg/storage/storagemem"
	"github.com/bufbuild/verifharness/internal/hx"
	"github.com/google/uuid"
	"google.golang.org/protobuf/proto"
	"google.golang.org/protobuf/types/descriptorpb"
)

var ctx = context.Background()
var unusedDepWitnesses int
var xBuiltWS []xBuilt // the workspaces of Part X2, for the binary leg X3 (run from partB)
var logger = slog.New(slog.NewTextHandler(io.Discard, nil))

func must[T any](v T, err error) T {
	if err != nil {
		panic(err)
	}
	return v
}

func must0(err error) {
	if err != nil {
		panic(err)
	}
}

func main() {
	run := hx.Start("C11")
	defer run.Finish()
	r := hx.NewRand(run.Seed)
	if len(run.Args) > 0 && run.Args[0] == "replay" {
		replay(run, run.Args[1:])
		return
	}
	// C11_PARTS=a1,a2,c,l,f,x1,x2,x3,o1,o2,b,b2,b3,b4,b5 restricts a run to some parts (replay / development); the
	// generators fork per part, so a part produces the same cases alone as in a full run.
	timed("A1", on("a1"), func() { partA1(run, r.Fork(1)) })
	timed("A2", on("a2"), func() { partA2(run, r.Fork(2)) })
	timed("C", on("c"), func() { partC(run, r.Fork(3)) })
	timed("L", on("l"), func() { partL(run, r.Fork(5)) })
	timed("F", on("f"), func() { partF(run, r.Fork(8)) })
	// Part X (partx.go): the extension bits of every rebuilt image file
	xo = &xOracle{run: run, count: map[string]int{}}
	timed("X1", on("x1"), func() { partX1(run, r.Fork(9)) })
	timed("X2", on("x2"), func() { xBuiltWS = partX2(run, r.Fork(10)) })
	// Part O (parto.go): output-file histories (O2, the binary leg, runs from partB)
	timed("O1", on("o1"), func() { partO1(run, r.Fork(11)) })
	partB(run, r.Fork(4))
}

// timed runs one part; C11_TIMING=1 prints the wall time of every part on stderr.
func timed(name string, enabled bool, f func()) {
	if !enabled {
		return
	}
	t0 := time.Now()
	f()
	if os.Getenv("C11_TIMING") != "" {
		fmt.Fprintf(os.Stderr, "part %s: %.1fs\n", name, time.Since(t0).Seconds())
	}
}

func on(part string) bool {
	v := os.Getenv("C11_PARTS")
	if v == "" {
		return true
	}
	for _, p := range strings.Split(v, ",") {
		if p == part {
			return true
		}
	}
	return false
}

func replayCmd(run *hx.Run, line string) string {
	return fmt.Sprintf("build/c11 --out /tmp/c11-replay --seed %d --tier %s replay %q", run.Seed, run.Tier, line)
}

func replay(run *hx.Run, args []string) {
	if len(args) < 1 {
		fmt.Fprintln(os.Stderr, "replay needs a protocol line (TAB-separated fields as one argument)")
		os.Exit(2)
	}
	line := args[0]
	if !strings.Contains(line, "\t") {
		line = strings.ReplaceAll(line, "\\t", "\t") // the recorded replay commands quote the line with %q
	}
	fields := strings.Split(line, "\t")
	switch fields[0] {
	case "iwop":
		files := parseFiles(fields[2])
		fmt.Println(runIwop(run, fields[1] == "1", files, parseStrs(fields[3]), parseStrs(fields[4]), line))
	case "tgt":
		ws := parseWS(fields[1])
		fmt.Println(runTgt(run, ws, parseStrs(fields[2]), parseStrs(fields[3]), line))
	case "xflt":
		xo = &xOracle{run: run, count: map[string]int{}}
		if fields[1] == "tflt" {
			fmt.Fprintln(os.Stderr, "tflt lines restate what bufimageutil.FilterImage did to a compiled workspace; re-run Part X2 with C11_PARTS=x2")
			os.Exit(2)
		}
		img, err := imageFromXIn(fields[2])
		if err != nil {
			fmt.Println("err:build:" + err.Error())
			return
		}
		// payload hashes of the rebuilt descriptors differ from the recorded line; everything else is the same
		fmt.Println(runXflt(run, img, fields[1], parseStrs(fields[3]), parseStrs(fields[4]), line))
	case "pimg":
		fmt.Println(runPimg(run, fields, line))
	default:
		fmt.Fprintln(os.Stderr, "unknown line kind")
		os.Exit(2)
	}
}

// ---------------------------------------------------------------------------------------
// shared encodings

type mfile struct {
	path     string
	isImport bool
	deps     []string
}

func encStrs(xs []string) string {
	if len(xs) == 0 {
		return "-"
	}
	parts := make([]string, len(xs))
	for i, x := range xs {
		parts[i] = hx.Enc(x)
	}
	return strings.Join(parts, ",")
}

// parseStrs is the inverse of encStrs; note that a list holding one empty string cannot be
// told from the empty list, so the generators emit "" only together with other entries.
func parseStrs(s string) []string {
	if s == "-" {
		return nil
	}
	var out []string
	for _, p := range strings.Split(s, ",") {
		out = append(out, hx.Dec(p))
	}
	return out
}

func encFiles(fs []mfile) string {
	if len(fs) == 0 {
		return "-"
	}
	parts := make([]string, len(fs))
	for i, f := range fs {
		imp := "N"
		if f.isImport {
			imp = "I"
		}
		parts[i] = hx.Enc(f.path) + ":" + imp + ":" + encStrs(f.deps)
	}
	return strings.Join(parts, ";")
}

func parseFiles(s string) []mfile {
	if s == "-" {
		return nil
	}
	var out []mfile
	for _, p := range strings.Split(s, ";") {
		q := strings.Split(p, ":")
		out = append(out, mfile{path: hx.Dec(q[0]), isImport: q[1] == "I", deps: parseStrs(q[2])})
	}
	return out
}

func showImage(img bufimage.Image, err error) string {
	if err != nil {
		return errClass(err)
	}
	var parts []string
	for _, f := range img.Files() {
		imp := "N"
		if f.IsImport() {
			imp = "I"
		}
		parts = append(parts, hx.Enc(f.Path())+":"+imp)
	}
	return "ok " + strings.Join(parts, ",")
}

func errClass(err error) string {
	msg := err.Error()
	var fas bufanalysis.FileAnnotationSet
	switch {
	case errors.Is(err, bufmodule.ErrNoTargetProtoFiles):
		return "err:no-targets"
	case errors.As(err, &fas):
		return "err:compile"
	case strings.Contains(msg, "cannot set the same path for both"):
		return "err:same-path"
	case strings.Contains(msg, `"." is not a valid path value`):
		return "err:dot-path"
	case strings.Contains(msg, "has no matching file in the image"):
		return "err:no-match"
	case strings.Contains(msg, "image contains no files"):
		return "err:no-files"
	case strings.Contains(msg, "duplicate file"):
		return "err:duplicate"
	case strings.Contains(msg, "path is empty"), strings.Contains(msg, "normalization error"),
		strings.Contains(msg, "was not normalized"), strings.Contains(msg, "duplicate path"):
		return "err:invalid-path"
	}
	return "err:other:" + hx.Enc(msg)
}

// comps is the harness' own notion of path containment (independent of normalpath and of the
// Lean model): component-wise prefix on "/"-split, "." = root.
func comps(p string) []string {
	if p == "." || p == "" {
		return nil
	}
	return strings.Split(p, "/")
}

func contains(dir, p string) bool {
	a, b := comps(dir), comps(p)
	if len(a) > len(b) {
		return false
	}
	for i := range a {
		if a[i] != b[i] {
			return false
		}
	}
	return true
}

func sideCondition(paths, excl []string) bool {
	for _, p := range paths {
		for _, e := range excl {
			if contains(e, p) {
				return false
			}
		}
	}
	return true
}

// ---------------------------------------------------------------------------------------
// Part A1: synthetic images through ImageWithOnlyPaths

var dirPool = []string{"a", "a/b", "a/bc", "ab", "a/b.proto", "c/d/e", "c/d", "c", "x", ""}

func joinDir(d, f string) string {
	if d == "" {
		return f
	}
	return d + "/" + f
}

func buildSynthetic(files []mfile) (bufimage.Image, error) {
	var ifs []bufimage.ImageFile
	for _, f := range files {
		fdp := &descriptorpb.FileDescriptorProto{Name: proto.String(f.path), Dependency: f.deps}
		imf, err := bufimage.NewImageFile(fdp, nil, uuid.Nil, "", "", f.isImport, false, nil)
		if err != nil {
			return nil, err
		}
		ifs = append(ifs, imf)
	}
	return bufimage.NewImage(ifs)
}

// candidatePaths lists every file, every ancestor directory, and some paths that match nothing.
func candidatePaths(filePaths []string) []string {
	seen := map[string]struct{}{}
	var out []string
	add := func(p string) {
		if _, ok := seen[p]; !ok && p != "" {
			seen[p] = struct{}{}
			out = append(out, p)
		}
	}
	for _, p := range filePaths {
		add(p)
		c := comps(p)
		for i := 1; i < len(c); i++ {
			add(strings.Join(c[:i], "/"))
		}
	}
	sort.Strings(out)
	out = append(out, "nope", "a/nope.proto", "a/b/zz", "a/bcd")
	return out
}

func pickPaths(r *hx.Rand, cands []string, hostile bool) (paths, excl []string) {
	pick := func(max int) []string {
		n := r.Intn(max + 1)
		seen := map[string]struct{}{}
		var out []string
		for i := 0; i < n; i++ {
			p := hx.Pick(r, cands)
			if _, ok := seen[p]; ok {
				continue
			}
			seen[p] = struct{}{}
			out = append(out, p)
		}
		return out
	}
	switch r.Intn(10) {
	case 0:
		excl = pick(3)
	case 1, 2:
		paths = pick(3)
	default:
		paths = pick(3)
		excl = pick(3)
	}
	if hostile && r.Chance(1, 12) {
		bad := hx.Pick(r, []string{".", "a//b", "a/./b", "../a", "/a", "a/", "a/b/.."})
		if r.Bool() {
			paths = append(paths, bad)
		} else {
			excl = append(excl, bad)
		}
	}
	if hostile && r.Chance(1, 25) && len(paths) > 0 {
		if r.Bool() {
			paths = append(paths, paths[0]) // duplicate
		} else {
			excl = append(excl, paths[0]) // same path in both
		}
	}
	return
}

func genSynthetic(r *hx.Rand) []mfile {
	n := 1 + r.Intn(8)
	var files []mfile
	for i := 0; i < n; i++ {
		d := hx.Pick(r, dirPool)
		files = append(files, mfile{path: joinDir(d, fmt.Sprintf("f%d.proto", i)), isImport: r.Chance(1, 4)})
	}
	for i := range files {
		nd := r.Intn(4)
		for k := 0; k < nd; k++ {
			switch {
			case r.Chance(1, 12):
				files[i].deps = append(files[i].deps, "missing/m.proto")
			case r.Chance(1, 6):
				files[i].deps = append(files[i].deps, files[r.Intn(n)].path) // may be cyclic / self
			case i > 0:
				files[i].deps = append(files[i].deps, files[r.Intn(i)].path)
			}
		}
	}
	if r.Chance(1, 5) {
		hx.Shuffle(r, files)
	}
	return files
}

func runIwop(run *hx.Run, allow bool, files []mfile, paths, excl []string, line string) (out string) {
	defer func() {
		if p := recover(); p != nil {
			out = "panic"
			run.Fail(hx.OracleFailure{Class: "C11-panic-image-with-only-paths", What: fmt.Sprint(p), Input: line, Replay: replayCmd(run, line)})
		}
	}()
	img, err := buildSynthetic(files)
	if err != nil {
		return "err:build:" + hx.Enc(err.Error())
	}
	var res bufimage.Image
	if allow {
		res, err = bufimage.ImageWithOnlyPathsAllowNotExist(img, paths, excl)
	} else {
		res, err = bufimage.ImageWithOnlyPaths(img, paths, excl)
	}
	if err == nil {
		oracleSubImage(run, img, res, paths, excl, line)
	}
	return showImage(res, err)
}

// oracleSubImage: structural facts every filtered image must satisfy, judged on the
// implementation alone: files come from the source image, no duplicates, closed under the
// imports the source image can resolve, every non-import is selected by the path arguments,
// every import is needed by some non-import.
func oracleSubImage(run *hx.Run, src, res bufimage.Image, paths, excl []string, line string) {
	fail := func(class, what string) {
		run.Fail(hx.OracleFailure{Class: class, What: what, Input: line, Replay: replayCmd(run, line)})
	}
	seen := map[string]bool{}
	for _, f := range res.Files() {
		if seen[f.Path()] {
			fail("C11-filtered-image-duplicate", "duplicate file "+f.Path())
		}
		seen[f.Path()] = true
		if src.GetFile(f.Path()) == nil {
			fail("C11-filtered-image-foreign-file", "file not in the source image: "+f.Path())
		}
	}
	for _, f := range res.Files() {
		for _, d := range f.FileDescriptorProto().GetDependency() {
			if src.GetFile(d) != nil && !seen[d] {
				fail("C11-filtered-image-not-closed", f.Path()+" imports "+d+" which the source image has but the result lacks")
			}
		}
		if !f.IsImport() {
			sel := len(paths) == 0
			for _, p := range paths {
				if contains(p, f.Path()) {
					sel = true
				}
			}
			if !sel {
				fail("C11-filtered-image-unselected-target", f.Path()+" is a non-import but no --path selects it")
			}
		}
	}
}

func partA1(run *hx.Run, r *hx.Rand) {
	n := run.N(4000, 40000)
	for i := 0; i < n; i++ {
		cr := r.Fork(uint64(i))
		files := genSynthetic(cr)
		var fps []string
		for _, f := range files {
			fps = append(fps, f.path)
		}
		paths, excl := pickPaths(cr, candidatePaths(fps), true)
		allow := cr.Chance(2, 3)
		al := "0"
		if allow {
			al = "1"
		}
		line := "iwop\t" + al + "\t" + encFiles(files) + "\t" + encStrs(paths) + "\t" + encStrs(excl)
		out := runIwop(run, allow, files, paths, excl, line)
		nontrivial := strings.HasPrefix(out, "ok ") && (len(paths) > 0 || len(excl) > 0)
		run.Case(line, out, nontrivial)
		run.Count("A1:files=" + fmt.Sprint(len(files)))
		switch {
		case strings.HasPrefix(out, "ok "):
			run.Count("A1:result=ok")
		default:
			run.Count("A1:result=" + strings.SplitN(out, ":", 3)[1])
		}
		run.Count(fmt.Sprintf("A1:paths=%d,excl=%d", min(len(paths), 3), min(len(excl), 3)))
		if !sideCondition(paths, excl) {
			run.Count("A1:side-condition-violated")
		}
		if i < 2 {
			run.Sample(map[string]any{"kind": "iwop", "files": files2any(files), "paths": paths, "exclude": excl, "allowNotExist": allow, "impl": out})
		}
	}
}

func files2any(fs []mfile) []any {
	var out []any
	for _, f := range fs {
		out = append(out, map[string]any{"path": f.path, "isImport": f.isImport, "deps": f.deps})
	}
	return out
}

// ---------------------------------------------------------------------------------------
// Part A2: workspaces, module-level vs image-level targeting

type srcFile struct {
	path    string
	imports []string
	body    string
}

type module struct {
	name   string
	target bool
	files  []srcFile
}

type workspace struct {
	mods []module
}

// wktFiles: the well-known types the generator imports, with their own imports.
var wktFiles = []mfile{
	{path: "google/protobuf/any.proto"},
	{path: "google/protobuf/descriptor.proto"},
	{path: "google/protobuf/source_context.proto"},
	{path: "google/protobuf/timestamp.proto"},
	{path: "google/protobuf/type.proto", deps: []string{"google/protobuf/any.proto", "google/protobuf/source_context.proto"}},
}

func genWorkspace(r *hx.Rand, rich bool) workspace {
	nm := 1 + r.Intn(3)
	var ws workspace
	type fref struct{ path, pkg string }
	var all []fref
	idx := 0
	var optFile *fref
	for m := 0; m < nm; m++ {
		mod := module{name: fmt.Sprintf("buf.build/acme/m%d", m), target: true}
		nf := 1 + r.Intn(4)
		for f := 0; f < nf; f++ {
			d := hx.Pick(r, dirPool)
			path := joinDir(d, fmt.Sprintf("f%d.proto", idx))
			pkg := fmt.Sprintf("pkg.f%d", idx)
			var sb strings.Builder
			syntax := hx.Pick(r, []string{"proto3", "proto3", "proto2"})
			if rich && r.Chance(1, 10) {
				syntax = "" // syntax unspecified
			}
			if rich {
				sb.WriteString("// leading comment of file " + path + "\n")
			}
			if syntax != "" {
				sb.WriteString("syntax = \"" + syntax + "\";\n")
			}
			sb.WriteString("package " + pkg + ";\n")
			var imports []string
			var types []string
			k := r.Intn(3)
			for q := 0; q < k && len(all) > 0; q++ {
				o := hx.Pick(r, all)
				dup := false
				for _, im := range imports {
					dup = dup || im == o.path
				}
				if dup {
					continue
				}
				imports = append(imports, o.path)
				if r.Chance(4, 5) { // else: unused import
					types = append(types, "."+o.pkg+".M")
				}
			}
			if r.Chance(1, 3) {
				w := hx.Pick(r, []string{"timestamp", "any", "type"})
				imports = append(imports, "google/protobuf/"+w+".proto")
				types = append(types, map[string]string{"timestamp": ".google.protobuf.Timestamp", "any": ".google.protobuf.Any", "type": ".google.protobuf.Type"}[w])
			}
			useOpt := rich && optFile != nil && r.Chance(1, 2)
			if useOpt {
				has := false
				for _, im := range imports {
					has = has || im == optFile.path
				}
				if !has {
					imports = append(imports, optFile.path)
				}
			}
			defOpt := rich && optFile == nil && r.Chance(1, 2)
			if defOpt {
				imports = append(imports, "google/protobuf/descriptor.proto")
			}
			hx.Shuffle(r, imports)
			for _, im := range imports {
				sb.WriteString("import \"" + im + "\";\n")
			}
			opt := func() string {
				if useOpt {
					return fmt.Sprintf(" [(%s.tag) = \"t%d\", (%s.cfg) = {level: %d, names: \"n\"}]", optFile.pkg, idx, optFile.pkg, r.Intn(9))
				}
				return ""
			}
			req := ""
			if syntax == "proto2" || syntax == "" {
				req = "optional "
			}
			if rich {
				sb.WriteString("// comment on M\n")
			}
			sb.WriteString("message M {\n")
			if useOpt {
				sb.WriteString(fmt.Sprintf("  option (%s.mtag) = %d;\n", optFile.pkg, idx))
			}
			sb.WriteString("  " + req + "string id = 1" + opt() + "; // trailing\n")
			for q, t := range types {
				sb.WriteString(fmt.Sprintf("  %s%s r%d = %d;\n", req, t, q, q+2))
			}
			if rich && r.Chance(1, 3) {
				sb.WriteString("  " + req + "int32 BadName = 15;\n") // lint: FIELD_LOWER_SNAKE_CASE
			}
			sb.WriteString("}\n")
			if rich && r.Chance(1, 3) {
				sb.WriteString(fmt.Sprintf("enum E { E_UNSPECIFIED = 0; E_ONE = 1; }\nmessage bad_msg%d { }\n", idx)) // lint: MESSAGE_PASCAL_CASE
			}
			if syntax == "proto2" && rich && r.Chance(1, 2) {
				sb.WriteString("message X { extensions 100 to 200; }\nextend X { optional int32 xe = 100; }\n")
			}
			if defOpt {
				sb.WriteString("message Cfg { " + req + "int32 level = 1; repeated string names = 2; }\n")
				sb.WriteString(fmt.Sprintf("extend google.protobuf.FieldOptions { optional string tag = %d; optional Cfg cfg = %d; }\n", 50000+idx, 51000+idx))
				sb.WriteString(fmt.Sprintf("extend google.protobuf.MessageOptions { optional int64 mtag = %d; }\n", 52000+idx))
				optFile = &fref{path, pkg}
			}
			mod.files = append(mod.files, srcFile{path: path, imports: imports, body: sb.String()})
			all = append(all, fref{path, pkg})
			idx++
		}
		ws.mods = append(ws.mods, mod)
	}
	return ws
}

func (ws workspace) modelFiles() [][]mfile {
	var out [][]mfile
	for _, m := range ws.mods {
		var fs []mfile
		for _, f := range m.files {
			fs = append(fs, mfile{path: f.path, deps: f.imports})
		}
		out = append(out, fs)
	}
	return out
}

func encWS(ws workspace) string {
	var parts []string
	for i, fs := range ws.modelFiles() {
		t := "N"
		if ws.mods[i].target {
			t = "T"
		}
		parts = append(parts, t+"|"+encFiles(fs))
	}
	// the well-known types: an untargeted module that is always available
	parts = append(parts, "N|"+encFiles(wktFiles))
	return strings.Join(parts, "/")
}

func parseWS(s string) workspace {
	var ws workspace
	parts := strings.Split(s, "/")
	for i, p := range parts[:len(parts)-1] {
		q := strings.SplitN(p, "|", 2)
		m := module{name: fmt.Sprintf("buf.build/acme/m%d", i), target: q[0] == "T"}
		for _, f := range parseFiles(q[1]) {
			var sb strings.Builder
			sb.WriteString("syntax = \"proto3\";\npackage p" + strings.NewReplacer("/", "_", ".", "_").Replace(f.path) + ";\n")
			for _, d := range f.deps {
				sb.WriteString("import \"" + d + "\";\n")
			}
			m.files = append(m.files, srcFile{path: f.path, imports: f.deps, body: sb.String()})
		}
		ws.mods = append(ws.mods, m)
	}
	return ws
}

func buildWS(ws workspace, paths, excl []string, withPaths bool) (bufimage.Image, error) {
	b := bufmodule.NewModuleSetBuilder(ctx, logger, bufmodule.NopModuleDataProvider, bufmodule.NopCommitProvider)
	for i, m := range ws.mods {
		data := map[string][]byte{}
		for _, f := range m.files {
			data[f.path] = []byte(f.body)
		}
		bucket, err := storagemem.NewReadBucket(data)
		if err != nil {
			return nil, err
		}
		var opts []bufmodule.LocalModuleOption
		if m.name != "" { // Part X2 has unnamed modules
			opts = append(opts, bufmodule.LocalModuleWithFullNameAndCommitID(must(bufparse.ParseFullName(m.name)), uuid.NewSHA1(uuid.NameSpaceURL, []byte(m.name))))
		}
		if withPaths && m.target {
			opts = append(opts, bufmodule.LocalModuleWithTargetPaths(paths, excl))
		}
		b.AddLocalModule(bucket, fmt.Sprintf("mod-%d", i), m.target, opts...)
	}
	ms, err := b.Build()
	if err != nil {
		return nil, err
	}
	return bufimage.BuildImage(ctx, logger, bufmodule.ModuleSetToModuleReadBucketWithOnlyProtoFiles(ms))
}

var fullCacheKey string
var fullCacheImg bufimage.Image
var fullCacheErr error

// cachedFull builds the untargeted image once per workspace (the key is the encoded workspace).
func cachedFull(ws workspace, line string) (bufimage.Image, error) {
	key := strings.Split(line, "\t")[1]
	if key != fullCacheKey {
		fullCacheImg, fullCacheErr = buildWS(ws, nil, nil, false)
		fullCacheKey = key
	}
	return fullCacheImg, fullCacheErr
}

type pf struct {
	path string
	imp  bool
}

func imageList(img bufimage.Image) []pf {
	var out []pf
	for _, f := range img.Files() {
		out = append(out, pf{f.Path(), f.IsImport()})
	}
	return out
}

func runTgt(run *hx.Run, ws workspace, paths, excl []string, line string) (out string) {
	defer func() {
		if p := recover(); p != nil {
			out = "panic"
			run.Fail(hx.OracleFailure{Class: "C11-panic-targeting", What: fmt.Sprint(p), Input: line, Replay: replayCmd(run, line)})
		}
	}()
	full, ferr := cachedFull(ws, line)
	if ferr != nil {
		return "F=" + errClass(ferr)
	}
	var img bufimage.Image
	var ierr error
	if len(paths) == 0 && len(excl) == 0 {
		img = full // bufctl.filterImage
	} else {
		img, ierr = bufimage.ImageWithOnlyPathsAllowNotExist(full, paths, excl)
	}
	mimg, merr := buildWS(ws, paths, excl, true)
	out = "M=" + showImage(mimg, merr) + "|I=" + showImage(img, ierr)

	// ---- oracle: the property's own statement, on the implementation alone
	fail := func(class, what string) {
		run.Fail(hx.OracleFailure{Class: class, What: what, Input: map[string]any{"line": line, "paths": paths, "exclude": excl}, Replay: replayCmd(run, line)})
	}
	if ierr == nil && img != full {
		oracleSubImage(run, full, img, paths, excl, line)
	}
	applicable := sideCondition(paths, excl)
	for _, p := range paths {
		if p == "." {
			applicable = false
		}
		// a --path that selects an import of the full image (a file of an untargeted module or
		// a well-known type) is outside the statement: sources have no such target
		for _, f := range full.Files() {
			if f.IsImport() && contains(p, f.Path()) {
				applicable = false
			}
		}
	}
	// a file path that is also a directory of another file cannot exist in a source tree
	for _, f := range full.Files() {
		for _, g := range full.Files() {
			if f.Path() != g.Path() && contains(f.Path(), g.Path()) {
				applicable = false
			}
		}
	}
	if !applicable {
		run.Count("A2:oracle=not-applicable")
		return out
	}
	run.Count("A2:oracle=applicable")
	imgNoFiles := ierr != nil && errClass(ierr) == "err:no-files"
	modNoTargets := merr != nil && errClass(merr) == "err:no-targets"
	switch {
	case imgNoFiles && modNoTargets:
		return out
	case ierr != nil || merr != nil:
		fail("C11-path-image-vs-source-error", fmt.Sprintf("image-level: %v; module-level: %v", ierr, merr))
		return out
	}
	a, b := imageList(img), imageList(mimg)
	am, bm := map[pf]bool{}, map[pf]bool{}
	for _, x := range a {
		am[x] = true
	}
	for _, x := range b {
		bm[x] = true
	}
	same := len(am) == len(bm)
	for x := range am {
		same = same && bm[x]
	}
	if !same {
		fail("C11-path-image-vs-source-files", fmt.Sprintf("filtering the image gives %v, building the targeted sources gives %v", a, b))
		return out
	}
	for i := range a {
		if a[i] != b[i] {
			run.Count("A2:same-files-different-order")
			break
		}
	}
	// the rest of the image-file metadata: unused-dependency indexes per path
	for _, f := range img.Files() {
		g := mimg.GetFile(f.Path())
		if g == nil || fmt.Sprint(f.UnusedDependencyIndexes()) == fmt.Sprint(g.UnusedDependencyIndexes()) {
			continue
		}
		what := fmt.Sprintf("%s: filtering the image keeps unused_dependency %v, building the targeted sources gives %v", f.Path(), f.UnusedDependencyIndexes(), g.UnusedDependencyIndexes())
		if f.IsImport() && g.IsImport() {
			run.Count("A2:import-unused-dependency-differs")
			// a recorded finding with hundreds of witnesses in the thorough tier: hx keeps the first
			// 200 failures of a run, so all but the first witnesses are only counted - otherwise
			// this class alone would push every later failure (Parts B..B4) out of oracle.json
			if unusedDepWitnesses++; unusedDepWitnesses <= 20 {
				fail("C11-path-build-import-unused-dependency-differs", what)
			}
		} else {
			fail("C11-path-image-vs-source-unused-dependency", what)
		}
	}
	// both must be topologically ordered
	for _, im := range []bufimage.Image{img, mimg} {
		pos := map[string]int{}
		for i, f := range im.Files() {
			pos[f.Path()] = i
		}
		for i, f := range im.Files() {
			for _, d := range f.FileDescriptorProto().GetDependency() {
				if j, ok := pos[d]; ok && j >= i {
					fail("C11-path-image-not-topological", f.Path()+" precedes its import "+d)
				}
			}
		}
	}
	return out
}

func partA2(run *hx.Run, r *hx.Rand) {
	nws := run.N(100, 800)
	per := 6
	for i := 0; i < nws; i++ {
		cr := r.Fork(uint64(i))
		ws := genWorkspace(cr, false)
		if len(ws.mods) > 1 && cr.Chance(1, 4) {
			ws.mods[cr.Intn(len(ws.mods))].target = false
		}
		var fps []string
		for _, m := range ws.mods {
			for _, f := range m.files {
				fps = append(fps, f.path)
			}
		}
		cands := candidatePaths(fps)
		if cr.Chance(1, 6) {
			cands = append(cands, "google", "google/protobuf/any.proto")
		}
		for k := 0; k < per; k++ {
			paths, excl := pickPaths(cr, cands, false)
			if cr.Chance(1, 40) {
				paths = append(paths, ".")
			}
			line := "tgt\t" + encWS(ws) + "\t" + encStrs(paths) + "\t" + encStrs(excl)
			out := runTgt(run, ws, paths, excl, line)
			run.Case(line, out, strings.Contains(out, "ok ") && (len(paths) > 0 || len(excl) > 0))
			run.Count(fmt.Sprintf("A2:modules=%d", len(ws.mods)))
			if !sideCondition(paths, excl) {
				run.Count("A2:side-condition-violated")
			}
			if strings.Contains(out, "M=err") {
				run.Count("A2:module-level=" + strings.SplitN(strings.SplitN(out, "|", 2)[0], ":", 3)[1])
			}
			if i < 2 && k == 0 {
				run.Sample(map[string]any{"kind": "tgt", "paths": paths, "exclude": excl, "impl": out})
			}
		}
	}
}
