package main

// Part B4 (oracle only, real `buf` binary): the PACKAGING half of C11 on workspaces that VENDOR
// files at well-known-type paths.  "Every source packaging of the same tree builds to the same
// image": directory, tar (USTAR / PAX / GNU headers), tar.gz, .tgz, tar.zst, zip, tar below a
// top-level directory read with #strip_components, zip read with #subdir, a git repository,
// `buf export` output, `buf export --exclude-imports` output, the export of an export.
//
// Family: the vendored file is an IDENTICAL copy of buf's built-in well-known type or a MODIFIED
// one (an extra field in the main message + an extra message), the module that holds it is
// NAMED or UNNAMED, the workspace has ONE module (at "." or in a sub-directory) or SEVERAL (the
// vendored files in a module of their own or next to their user), buf.yaml is v1 (+ buf.work.yaml
// for several modules) or v2; every workspace also holds a file whose path is longer than 100
// characters (the classic tar name limit), a file reached only through a symlink (one layout),
// and a user of the vendored types.  `buf export` is also run with --path and
// --path + --exclude-imports.
//
// Comparison: an archive keeps buf.yaml, so its image must be equal to the directory's file by
// file in the SAME ORDER including is_import, unused dependencies and module info
// (proto.Equal per file after canonical wire form, normalisation (n1) of partb3.go).  `buf export`
// output is ONE module without a name, so for export packagings the module info of the buf
// extension is cleared on both sides (the only normalisation); order, descriptors, is_import and
// unused dependencies are compared.  For `export --path P` every exported file is a target of the
// re-build, so descriptors are compared per path against `build --path P` (is_import is not).
// Independently the FILES of every export directory must be exactly the workspace's own .proto
// files the built image names (byte-identical to the sources).

import (
	"archive/tar"
	"archive/zip"
	"bytes"
	"compress/gzip"
	"fmt"
	"os"
	"os/exec"
	"path/filepath"
	"sort"
	"strings"

	"github.com/bufbuild/buf/private/gen/data/datawkt"
	imagev1 "github.com/bufbuild/buf/private/gen/proto/go/buf/alpha/image/v1"
	"github.com/bufbuild/buf/private/pkg/storage"
	"github.com/bufbuild/verifharness/internal/hx"
	"github.com/klauspost/compress/zstd"
	"google.golang.org/protobuf/proto"
)

type b4Mod struct {
	dir   string // relative to the workspace root ("." allowed)
	name  string // "" = unnamed
	files map[string]string
	links map[string]string // path -> path of the real file relative to the workspace root
}

type b4WS struct {
	label   string
	version string // v1 | v2
	mods    []b4Mod
	pathArg string // a --path value (relative to the workspace root)
	extra   map[string]string
}

func wktSource(path string) string {
	return string(must(storage.ReadPath(ctx, datawkt.ReadBucket, path)))
}

// modifiedWKT: an extra field in the main message where the text is known, always an extra message.
func modifiedWKT(path string) string {
	s := wktSource(path)
	for _, anchor := range []string{"  int32 nanos = 2;\n", "  bytes value = 2;\n", "  string file_name = 1;\n", "  repeated string paths = 1;\n"} {
		if strings.Contains(s, anchor) {
			s = strings.Replace(s, anchor, anchor+"  // vendored change\n  bool vendored_extra = 15;\n", 1)
			break
		}
	}
	return s + "\n// appended by the vendored copy\nmessage " + extraName(path) + " { string note = 1; }\n"
}

func extraName(path string) string {
	b := strings.TrimSuffix(filepath.Base(path), ".proto")
	return "Vendored" + strings.ToUpper(b[:1]) + strings.ReplaceAll(b[1:], "_", "") + "Extra"
}

var vendorable = []struct{ path, typ string }{
	{"google/protobuf/timestamp.proto", "google.protobuf.Timestamp"},
	{"google/protobuf/duration.proto", "google.protobuf.Duration"},
	{"google/protobuf/any.proto", "google.protobuf.Any"},
	{"google/protobuf/empty.proto", "google.protobuf.Empty"},
	{"google/protobuf/field_mask.proto", "google.protobuf.FieldMask"},
	{"google/protobuf/source_context.proto", "google.protobuf.SourceContext"},
	{"google/protobuf/wrappers.proto", "google.protobuf.StringValue"},
	{"google/protobuf/struct.proto", "google.protobuf.Value"},
}

func longPath(r *hx.Rand, min int) string {
	parts := []string{"deep"}
	n := 4
	for n < min {
		w := fmt.Sprintf("segment_%d_%s", len(parts), strings.Repeat("x", 5+r.Intn(20)))
		parts = append(parts, w)
		n += len(w) + 1
	}
	return strings.Join(parts, "/") + "/leaf_file.proto"
}

type b4Layout struct {
	label          string
	version        string
	multi          bool // vendored files in a module of their own
	subdir         bool // single module below the workspace root
	vendorNamed    bool
	appNamed       bool
	modified       bool
	symlink        bool
	vendorBuiltins int // how many WKT files to vendor
}

func b4Layouts() []b4Layout {
	return []b4Layout{
		{label: "v2-single-unnamed-modified", version: "v2", modified: true, vendorBuiltins: 2},
		{label: "v2-single-named-modified", version: "v2", vendorNamed: true, appNamed: true, modified: true, vendorBuiltins: 1},
		{label: "v2-multi-vendor-unnamed-modified", version: "v2", multi: true, appNamed: true, modified: true, vendorBuiltins: 2},
		{label: "v2-multi-vendor-named-identical", version: "v2", multi: true, vendorNamed: true, vendorBuiltins: 3},
		{label: "v1-single-unnamed-identical", version: "v1", vendorBuiltins: 2},
		{label: "v1-single-named-modified", version: "v1", vendorNamed: true, appNamed: true, modified: true, vendorBuiltins: 1},
		{label: "v1-work-vendor-unnamed-modified", version: "v1", multi: true, modified: true, vendorBuiltins: 2},
		{label: "v2-subdir-unnamed-modified-symlink", version: "v2", subdir: true, modified: true, symlink: true, vendorBuiltins: 1},
		{label: "v2-multi-all-unnamed-identical", version: "v2", multi: true, vendorBuiltins: 1},
		{label: "v1-work-vendor-named-identical", version: "v1", multi: true, vendorNamed: true, appNamed: true, vendorBuiltins: 2},
	}
}

func genB4WS(r *hx.Rand, lay b4Layout, idx int) b4WS {
	ws := b4WS{label: lay.label, version: lay.version, extra: map[string]string{}}
	vend := map[string]string{}
	picks := append([]struct{ path, typ string }{}, vendorable...)
	hx.Shuffle(r, picks)
	if idx%2 == 0 {
		// the seed's witness file at least every second workspace
		for i, p := range picks {
			if p.path == "google/protobuf/timestamp.proto" {
				picks[0], picks[i] = picks[i], picks[0]
			}
		}
	}
	picks = picks[:lay.vendorBuiltins]
	if picks[0].path == "google/protobuf/struct.proto" && lay.vendorBuiltins == 1 {
		picks[0] = vendorable[1]
	}
	for i, p := range picks {
		if lay.modified && (i == 0 || r.Bool()) {
			vend[p.path] = modifiedWKT(p.path)
		} else {
			vend[p.path] = wktSource(p.path)
		}
	}
	app := map[string]string{}
	var user strings.Builder
	user.WriteString("syntax = \"proto3\";\npackage app.user.v1;\n")
	for _, p := range picks {
		user.WriteString("import \"" + p.path + "\";\n")
	}
	user.WriteString("import \"google/protobuf/api.proto\";\n") // a built-in WKT that is NOT vendored
	user.WriteString("// uses the vendored well-known types\nmessage User {\n  string id = 1;\n")
	for i, p := range picks {
		user.WriteString(fmt.Sprintf("  %s f%d = %d;\n", p.typ, i, i+2))
	}
	user.WriteString("  google.protobuf.Api api = 14;\n")
	if lay.modified && idx%4 >= 2 {
		// else nothing refers to what the modified copy adds: a build that silently falls back to
		// the built-in file still succeeds
		user.WriteString("  google.protobuf." + extraName(picks[0].path) + " extra = 15;\n")
	}
	user.WriteString("}\n")
	app["app/user/v1/user.proto"] = user.String()
	lp := longPath(r, 101+r.Intn(80))
	app[lp] = "syntax = \"proto3\";\npackage deep.leaf;\nimport \"app/user/v1/user.proto\";\nmessage Leaf { app.user.v1.User u = 1; }\n"
	lp2 := longPath(r, 101+r.Intn(30))
	if lp2 != lp {
		// not imported by anything: a dropped file goes unnoticed by the compiler
		app[lp2] = "syntax = \"proto2\";\npackage deep.alone;\nmessage Alone { optional string s = 1; }\n"
	}
	app["other/v1/other.proto"] = "syntax = \"proto3\";\npackage other.v1;\nimport \"google/protobuf/descriptor.proto\";\nextend google.protobuf.FieldOptions { string tag = 50500; }\nmessage Other { string id = 1 [(tag) = \"x\"]; }\n"
	links := map[string]string{}
	if lay.symlink {
		ws.extra["_store/linked.proto"] = "syntax = \"proto3\";\npackage linked.v1;\nmessage Linked { string id = 1; }\n"
		links["linked/v1/linked.proto"] = "_store/linked.proto"
	}
	name := func(named bool, n string) string {
		if named {
			return "buf.build/acme/" + n
		}
		return ""
	}
	switch {
	case lay.multi:
		ws.mods = []b4Mod{
			{dir: "vendor", name: name(lay.vendorNamed, "vendored"), files: vend},
			{dir: "app", name: name(lay.appNamed, "app"), files: app, links: links},
		}
		ws.pathArg = "app/app/user"
	default:
		all := map[string]string{}
		for k, v := range vend {
			all[k] = v
		}
		for k, v := range app {
			all[k] = v
		}
		dir := "."
		ws.pathArg = "app/user"
		if lay.subdir {
			dir = "proto"
			ws.pathArg = "proto/app/user"
		}
		ws.mods = []b4Mod{{dir: dir, name: name(lay.vendorNamed, "mono"), files: all, links: links}}
	}
	return ws
}

func (ws b4WS) write(root string) {
	must0(os.RemoveAll(root))
	must0(os.MkdirAll(root, 0o755))
	put := func(rel, body string) {
		full := filepath.Join(root, rel)
		must0(os.MkdirAll(filepath.Dir(full), 0o755))
		must0(os.WriteFile(full, []byte(body), 0o644))
	}
	for rel, body := range ws.extra {
		put(rel, body)
	}
	for _, m := range ws.mods {
		for p, body := range m.files {
			put(filepath.Join(m.dir, p), body)
		}
		for p, target := range m.links {
			full := filepath.Join(root, m.dir, p)
			must0(os.MkdirAll(filepath.Dir(full), 0o755))
			rel := must(filepath.Rel(filepath.Dir(full), filepath.Join(root, target)))
			must0(os.Symlink(rel, full))
		}
	}
	switch ws.version {
	case "v2":
		var y strings.Builder
		y.WriteString("version: v2\nmodules:\n")
		for _, m := range ws.mods {
			y.WriteString("  - path: " + m.dir + "\n")
			if m.name != "" {
				y.WriteString("    name: " + m.name + "\n")
			}
		}
		put("buf.yaml", y.String())
	case "v1":
		if len(ws.mods) == 1 && ws.mods[0].dir == "." {
			y := "version: v1\n"
			if ws.mods[0].name != "" {
				y += "name: " + ws.mods[0].name + "\n"
			}
			put("buf.yaml", y)
			return
		}
		var w strings.Builder
		w.WriteString("version: v1\ndirectories:\n")
		for _, m := range ws.mods {
			w.WriteString("  - " + m.dir + "\n")
			y := "version: v1\n"
			if m.name != "" {
				y += "name: " + m.name + "\n"
			}
			put(filepath.Join(m.dir, "buf.yaml"), y)
		}
		put("buf.work.yaml", w.String())
	}
}

// ownFiles: import path -> content of every .proto file the workspace itself holds.
func (ws b4WS) ownFiles() map[string]string {
	out := map[string]string{}
	for _, m := range ws.mods {
		for p, body := range m.files {
			out[p] = body
		}
		for p, target := range m.links {
			out[p] = ws.extra[target]
		}
	}
	return out
}

// ---- archives (written by the harness: regular files only, symlinks resolved to their content)

type tarFormat struct {
	name   string
	format tar.Format
}

var tarFormats = []tarFormat{{"pax", tar.FormatPAX}, {"gnu", tar.FormatGNU}, {"auto", tar.FormatUnknown}}

func tarBytes(dir, prefix string, tf tar.Format) []byte {
	var buf bytes.Buffer
	tw := tar.NewWriter(&buf)
	for _, p := range walkFiles(dir) {
		data := must(os.ReadFile(filepath.Join(dir, p))) // follows symlinks
		must0(tw.WriteHeader(&tar.Header{Name: prefix + filepath.ToSlash(p), Mode: 0o644, Size: int64(len(data)), Typeflag: tar.TypeReg, Format: tf}))
		must(tw.Write(data))
	}
	must0(tw.Close())
	return buf.Bytes()
}

func gz(b []byte) []byte {
	var zb bytes.Buffer
	zw := gzip.NewWriter(&zb)
	must(zw.Write(b))
	must0(zw.Close())
	return zb.Bytes()
}

func zst(b []byte) []byte {
	var zb bytes.Buffer
	zw := must(zstd.NewWriter(&zb))
	must(zw.Write(b))
	must0(zw.Close())
	return zb.Bytes()
}

func zipBytes(dir, prefix string) []byte {
	var buf bytes.Buffer
	zw := zip.NewWriter(&buf)
	for _, p := range walkFiles(dir) {
		w := must(zw.Create(prefix + filepath.ToSlash(p)))
		must(w.Write(must(os.ReadFile(filepath.Join(dir, p)))))
	}
	must0(zw.Close())
	return buf.Bytes()
}

func gitInit(dir string) bool {
	if _, err := exec.LookPath("git"); err != nil {
		return false
	}
	for _, args := range [][]string{
		{"init", "-q", "-b", "main"},
		{"add", "-A"},
		{"-c", "user.name=c11", "-c", "user.email=c11@example.com", "-c", "commit.gpgsign=false", "commit", "-q", "-m", "snapshot"},
	} {
		c := exec.Command("git", args...)
		c.Dir = dir
		c.Env = append(os.Environ(), "GIT_CONFIG_GLOBAL=/dev/null", "GIT_CONFIG_SYSTEM=/dev/null", "HOME="+dir)
		if err := c.Run(); err != nil {
			return false
		}
	}
	return true
}

// ---- comparison

func parseImage(b string) ([]*imagev1.ImageFile, error) {
	img := &imagev1.Image{}
	if err := proto.Unmarshal([]byte(b), img); err != nil {
		return nil, err
	}
	return canonFiles(img), nil
}

func clearModuleInfo(files []*imagev1.ImageFile) []*imagev1.ImageFile {
	var out []*imagev1.ImageFile
	for _, f := range files {
		c := proto.CloneOf(f)
		if e := c.GetBufExtension(); e != nil {
			e.ClearModuleInfo()
		}
		out = append(out, c)
	}
	return out
}

func descriptorsByPath(files []*imagev1.ImageFile) map[string]*imagev1.ImageFile {
	out := map[string]*imagev1.ImageFile{}
	for _, f := range clearBufExt(files) {
		out[f.GetName()] = f
	}
	return out
}

func listDir(dir string) map[string]string {
	out := map[string]string{}
	if _, err := os.Stat(dir); err != nil {
		return out
	}
	for _, p := range walkFiles(dir) {
		out[filepath.ToSlash(p)] = string(must(os.ReadFile(filepath.Join(dir, p))))
	}
	return out
}

func partB4(run *hx.Run, r *hx.Rand, b *bufRun, root string) {
	base := filepath.Join(root, "b4")
	must0(os.RemoveAll(base))
	must0(os.MkdirAll(base, 0o755))
	lays := b4Layouts()
	n := run.N(len(lays), 3*len(lays))
	type wsRun struct {
		ws       b4WS
		dir, tmp string
		git      bool
		tf       tarFormat
	}
	var runs []wsRun
	for i := 0; i < n; i++ {
		cr := r.Fork(uint64(i))
		lay := lays[i%len(lays)]
		ws := genB4WS(cr, lay, i)
		dir := filepath.Join(base, fmt.Sprintf("ws%d", i))
		tmp := filepath.Join(base, fmt.Sprintf("t%d", i))
		ws.write(dir)
		must0(os.RemoveAll(tmp))
		must0(os.MkdirAll(tmp, 0o755))
		tf := tarFormats[i%len(tarFormats)]
		tb := tarBytes(dir, "", tf.format)
		must0(os.WriteFile(filepath.Join(tmp, "src.tar"), tb, 0o644))
		must0(os.WriteFile(filepath.Join(tmp, "src.tar.gz"), gz(tb), 0o644))
		must0(os.WriteFile(filepath.Join(tmp, "src.tgz"), gz(tarBytes(dir, "", tarFormats[(i+1)%3].format)), 0o644))
		must0(os.WriteFile(filepath.Join(tmp, "src.tar.zst"), zst(tarBytes(dir, "", tarFormats[(i+2)%3].format)), 0o644))
		must0(os.WriteFile(filepath.Join(tmp, "top.tar"), tarBytes(dir, "release-1.0/", tf.format), 0o644))
		must0(os.WriteFile(filepath.Join(tmp, "src.zip"), zipBytes(dir, ""), 0o644))
		must0(os.WriteFile(filepath.Join(tmp, "sub.zip"), zipBytes(dir, "a/b/"), 0o644))
		wr := wsRun{ws: ws, dir: dir, tmp: tmp, tf: tf}
		if i%3 == 0 || run.Thorough() {
			// a git repository of the same tree.  Symlinks are resolved to their content, as in the
			// archives: buf's git reader deliberately does not read symlinks (private/pkg/git/cloner.go,
			// "we do NOT want to read in symlinks"), so a committed symlink is no packaging of the file
			// behind it.  (The thorough tier builds a repository for every layout, the symlink layout
			// included; with `cp -a` it alarmed with C11-packaging-differs on the unchanged tree.)
			g := filepath.Join(tmp, "repo")
			must0(exec.Command("cp", "-aL", dir, g).Run())
			wr.git = gitInit(g)
		}
		runs = append(runs, wr)
		run.Count("B4:workspace=" + lay.label)
		run.Count("B4:tar-header=" + tf.name)
	}
	// batch 1: the directory build, the exports, the archive builds
	type ref struct {
		wi  int
		key string
	}
	var jobs []job
	var refs []ref
	add := func(wi int, key, dir string, args ...string) {
		jobs = append(jobs, job{dir, args})
		refs = append(refs, ref{wi, key})
	}
	for wi, w := range runs {
		o := func(name string) string { return filepath.Join(w.tmp, name) }
		add(wi, "dir", w.dir, "build", "-o", "-#format=binpb")
		add(wi, "dir-path", w.dir, "build", "--path", w.ws.pathArg, "-o", "-#format=binpb")
		add(wi, "export", w.dir, "export", ".", "-o", o("exp"))
		add(wi, "export-x", w.dir, "export", ".", "--exclude-imports", "-o", o("expx"))
		add(wi, "export-p", w.dir, "export", ".", "--path", w.ws.pathArg, "-o", o("expp"))
		add(wi, "export-px", w.dir, "export", ".", "--path", w.ws.pathArg, "--exclude-imports", "-o", o("exppx"))
		add(wi, "export-tar", w.tmp, "export", "src.tar", "-o", o("exptar"))
		for _, a := range []string{"src.tar", "src.tar.gz", "src.tgz", "src.tar.zst", "src.zip", "top.tar#strip_components=1", "sub.zip#subdir=a/b", "src.tar.gz#format=targz", "src.tar#format=tar,compression=none"} {
			add(wi, "pk:"+a, w.tmp, "build", a, "-o", "-#format=binpb")
		}
		if w.git {
			add(wi, "pk:git", w.tmp, "build", "repo/.git#branch=main", "-o", "-#format=binpb")
		}
	}
	res1 := b.execAll(jobs)
	got := make([]map[string]result, len(runs))
	cmd := make([]map[string]string, len(runs))
	for i := range runs {
		got[i] = map[string]result{}
		cmd[i] = map[string]string{}
	}
	for i, rf := range refs {
		got[rf.wi][rf.key] = res1[i]
		cmd[rf.wi][rf.key] = b.cmdLine(jobs[i])
	}
	// batch 2: build the export outputs, export an export
	jobs, refs = nil, nil
	for wi, w := range runs {
		for _, e := range []string{"exp", "expx", "expp", "exptar"} {
			add(wi, "build:"+e, w.tmp, "build", e, "-o", "-#format=binpb")
		}
		add(wi, "export2", w.tmp, "export", "exp", "-o", filepath.Join(w.tmp, "exp2"))
	}
	res2 := b.execAll(jobs)
	for i, rf := range refs {
		got[rf.wi][rf.key] = res2[i]
		cmd[rf.wi][rf.key] = b.cmdLine(jobs[i])
	}
	jobs, refs = nil, nil
	for wi, w := range runs {
		add(wi, "build:exp2", w.tmp, "build", "exp2", "-o", "-#format=binpb")
	}
	res3 := b.execAll(jobs)
	for i, rf := range refs {
		got[rf.wi][rf.key] = res3[i]
		cmd[rf.wi][rf.key] = b.cmdLine(jobs[i])
	}
	// judge
	for wi, w := range runs {
		g, c := got[wi], cmd[wi]
		fail := func(class, what string, keys ...string) {
			var rp []string
			for _, k := range keys {
				rp = append(rp, c[k])
			}
			run.Fail(hx.OracleFailure{Class: class, What: "[" + w.ws.label + "] " + what, Input: map[string]any{"workspace": w.dir, "layout": w.ws.label, "tar": w.tf.name},
				Replay: strings.Join(rp, " ; ") + "   # the workspace and the packagings are left in place"})
		}
		d := g["dir"]
		if d.code != 0 {
			fail("C11-generator-vendored-workspace-does-not-build", firstLines(d.stderr, 5), "dir")
			continue
		}
		dfiles, err := parseImage(d.stdout)
		if err != nil {
			fail("C11-build-failed", "unreadable image: "+err.Error(), "dir")
			continue
		}
		own := w.ws.ownFiles()
		// self-check: the vendored files are in the image as the workspace's copies, as targets
		vendored := 0
		for _, f := range dfiles {
			if datawkt.Exists(f.GetName()) {
				if _, ok := own[f.GetName()]; ok {
					vendored++
					if f.GetBufExtension().GetIsImport() {
						fail("C11-generator-vendored-family-blind", "the vendored "+f.GetName()+" is an import of the directory build", "dir")
					}
					isMod := strings.Contains(own[f.GetName()], extraName(f.GetName()))
					hasMsg := false
					for _, m := range f.GetMessageType() {
						hasMsg = hasMsg || m.GetName() == extraName(f.GetName())
					}
					if isMod != hasMsg {
						fail("C11-generator-vendored-family-blind", "the image does not hold the workspace's copy of "+f.GetName(), "dir")
					}
					run.Count(fmt.Sprintf("B4:vendored-modified=%v", isMod))
				} else {
					run.Count("B4:built-in-wkt-in-image")
				}
			}
			if len(f.GetName()) > 100 {
				run.Count("B4:path-longer-than-100")
			}
		}
		if vendored == 0 {
			fail("C11-generator-vendored-family-blind", "no vendored well-known type in the image", "dir")
		}
		// archives and git: equal file by file
		for key, rs := range g {
			if !strings.HasPrefix(key, "pk:") {
				continue
			}
			run.Count("B4:packaging=" + strings.TrimPrefix(key, "pk:"))
			run.Distinct(fmt.Sprintf("B4:%d:%s", wi, key))
			if rs.code != 0 {
				fail("C11-packaging-differs", fmt.Sprintf("%s does not build (exit %d): %s", key[3:], rs.code, firstLines(rs.stderr, 3)), "dir", key)
				continue
			}
			pf, err := parseImage(rs.stdout)
			if err != nil {
				fail("C11-packaging-differs", key[3:]+": unreadable image", "dir", key)
				continue
			}
			if df := diffImages(dfiles, pf); df != "" {
				fail("C11-packaging-differs", fmt.Sprintf("%s builds to a different image than the directory: %s", key[3:], df), "dir", key)
			}
		}
		// exports: the files
		imagePaths := func(files []*imagev1.ImageFile, onlyTargets bool) map[string]string {
			out := map[string]string{}
			for _, f := range files {
				if body, ok := own[f.GetName()]; ok && !(onlyTargets && f.GetBufExtension().GetIsImport()) {
					out[f.GetName()] = body
				}
			}
			return out
		}
		var pfiles []*imagev1.ImageFile
		if p := g["dir-path"]; p.code == 0 {
			pfiles, _ = parseImage(p.stdout)
		} else {
			fail("C11-build-failed", "build --path "+w.ws.pathArg+": "+firstLines(p.stderr, 3), "dir-path")
		}
		checkDir := func(key, sub string, want map[string]string, explain string) bool {
			rs := g[key]
			run.Count("B4:export=" + key)
			run.Distinct(fmt.Sprintf("B4:%d:%s", wi, key))
			if rs.code != 0 {
				fail("C11-export-failed", fmt.Sprintf("%s: exit %d %s", key, rs.code, firstLines(rs.stderr, 3)), key)
				return false
			}
			have := listDir(filepath.Join(w.tmp, sub))
			var missing, extra, changed []string
			for p, body := range want {
				if hb, ok := have[p]; !ok {
					missing = append(missing, p)
				} else if hb != body {
					changed = append(changed, p)
				}
			}
			for p := range have {
				if _, ok := want[p]; !ok {
					extra = append(extra, p)
				}
			}
			sort.Strings(missing)
			sort.Strings(extra)
			sort.Strings(changed)
			if len(missing)+len(extra)+len(changed) > 0 {
				fail("C11-export-files-differ", fmt.Sprintf("%s: the exported files are not %s: missing %v, unexpected %v, different content %v", key, explain, missing, extra, changed), "dir", key)
				return false
			}
			return true
		}
		checkDir("export", "exp", imagePaths(dfiles, false), "the workspace's own files of the image")
		checkDir("export-x", "expx", imagePaths(dfiles, true), "the workspace's own target files")
		checkDir("export-tar", "exptar", imagePaths(dfiles, false), "the workspace's own files of the image")
		checkDir("export2", "exp2", imagePaths(dfiles, false), "the files of the first export")
		if pfiles != nil {
			checkDir("export-p", "expp", imagePaths(pfiles, false), "the own files of `build --path`")
			checkDir("export-px", "exppx", imagePaths(pfiles, true), "the own target files of `build --path`")
		}
		// exports: the images
		wantNoMod := clearModuleInfo(dfiles)
		for _, e := range []string{"exp", "expx", "exptar", "exp2"} {
			key := "build:" + e
			rs := g[key]
			run.Count("B4:packaging=" + e)
			run.Distinct(fmt.Sprintf("B4:%d:%s", wi, key))
			src := map[string]string{"exp": "export", "expx": "export-x", "exptar": "export-tar", "exp2": "export2"}[e]
			if rs.code != 0 {
				fail("C11-packaging-differs", fmt.Sprintf("the output of `buf %s` does not build (exit %d): %s", strings.TrimSuffix(strings.TrimPrefix(c[src][strings.Index(c[src], " export"):], " "), ")"), rs.code, firstLines(rs.stderr, 3)), "dir", src, key)
				continue
			}
			pf, err := parseImage(rs.stdout)
			if err != nil {
				fail("C11-packaging-differs", e+": unreadable image", "dir", src, key)
				continue
			}
			if df := diffImages(wantNoMod, clearModuleInfo(pf)); df != "" {
				fail("C11-packaging-differs", fmt.Sprintf("the `buf export` output (%s) builds to a different image than the directory: %s", e, df), "dir", src, key)
			}
		}
		if pfiles != nil {
			rs := g["build:expp"]
			run.Count("B4:packaging=expp")
			if rs.code != 0 {
				fail("C11-packaging-differs", fmt.Sprintf("the output of `buf export --path %s` does not build (exit %d): %s", w.ws.pathArg, rs.code, firstLines(rs.stderr, 3)), "dir-path", "export-p", "build:expp")
			} else if pf, err := parseImage(rs.stdout); err == nil {
				want, have := descriptorsByPath(pfiles), descriptorsByPath(pf)
				for p, wf := range want {
					hf, ok := have[p]
					if !ok {
						fail("C11-packaging-differs", fmt.Sprintf("the `buf export --path` output builds to an image without %s", p), "dir-path", "export-p", "build:expp")
					} else if !proto.Equal(wf, hf) {
						fail("C11-packaging-differs", fmt.Sprintf("the `buf export --path` output builds to a different descriptor: %s", firstFieldDiff(p, wf.ProtoReflect(), hf.ProtoReflect())), "dir-path", "export-p", "build:expp")
					}
				}
				for p := range have {
					if _, ok := want[p]; !ok {
						fail("C11-packaging-differs", fmt.Sprintf("the `buf export --path` output builds to an image with the additional file %s", p), "dir-path", "export-p", "build:expp")
					}
				}
			}
		}
	}
}
