package main

import (
	"fmt"
	"strconv"
	"strings"

	"github.com/bufbuild/buf/private/bufpkg/bufimage"
	"github.com/bufbuild/buf/private/bufpkg/bufparse"
	imagev1 "github.com/bufbuild/buf/private/gen/proto/go/buf/alpha/image/v1"
	"github.com/bufbuild/buf/private/pkg/uuidutil"
	"github.com/bufbuild/verifharness/internal/hx"
	"github.com/google/uuid"
	"google.golang.org/protobuf/encoding/protowire"
	"google.golang.org/protobuf/proto"
	"google.golang.org/protobuf/types/descriptorpb"
)

// ---------------------------------------------------------------------------------------
// Part C1: stripBufExtensionField through NewImageFile + ImageToProtoImage

func appendVarintPadded(b []byte, v uint64, pad int) []byte {
	// a denormalised varint: `pad` extra continuation bytes carrying zero bits
	enc := protowire.AppendVarint(nil, v)
	if pad == 0 || len(enc)+pad > 10 {
		return append(b, enc...)
	}
	enc[len(enc)-1] |= 0x80
	for i := 0; i < pad-1; i++ {
		enc = append(enc, 0x80)
	}
	enc = append(enc, 0x00)
	return append(b, enc...)
}

var fieldNumbers = []protowire.Number{8042, 8042, 8042, 8041, 8043, 1005, 1, 2, 15, 16, 2047, 2048, 536870911, 64336 >> 3}

func genField(r *hx.Rand, depth int) []byte {
	num := hx.Pick(r, fieldNumbers)
	if r.Chance(1, 6) {
		num = protowire.Number(1 + r.Intn(20000))
	}
	var b []byte
	typ := hx.Pick(r, []protowire.Type{protowire.VarintType, protowire.Fixed32Type, protowire.Fixed64Type, protowire.BytesType, protowire.BytesType, protowire.StartGroupType})
	if typ == protowire.StartGroupType && depth >= 3 {
		typ = protowire.VarintType
	}
	pad := 0
	if r.Chance(1, 8) {
		pad = 1 + r.Intn(3)
	}
	b = appendVarintPadded(b, protowire.EncodeTag(num, typ), pad)
	switch typ {
	case protowire.VarintType:
		v := r.Uint64()
		if r.Bool() {
			v = uint64(r.Intn(300))
		}
		b = appendVarintPadded(b, v, hx.Pick(r, []int{0, 0, 0, 1, 2}))
	case protowire.Fixed32Type:
		b = protowire.AppendFixed32(b, uint32(r.Uint64()))
	case protowire.Fixed64Type:
		b = protowire.AppendFixed64(b, r.Uint64())
	case protowire.BytesType:
		n := r.Intn(6)
		if r.Chance(1, 10) {
			n = 120 + r.Intn(40) // two-byte length
		}
		pl := make([]byte, n)
		for i := range pl {
			pl[i] = byte(r.Intn(256))
		}
		if r.Chance(1, 3) {
			// a payload that itself looks like field 8042
			pl = protowire.AppendVarint(protowire.AppendTag(nil, 8042, protowire.VarintType), 1)
		}
		b = appendVarintPadded(b, uint64(len(pl)), hx.Pick(r, []int{0, 0, 1}))
		b = append(b, pl...)
	case protowire.StartGroupType:
		k := r.Intn(3)
		for i := 0; i < k; i++ {
			b = append(b, genField(r, depth+1)...)
		}
		end := num
		if r.Chance(1, 15) {
			end = num + 1 // mismatched end group: malformed
		}
		b = appendVarintPadded(b, protowire.EncodeTag(end, protowire.EndGroupType), hx.Pick(r, []int{0, 0, 1}))
	}
	return b
}

func genUnknown(r *hx.Rand) []byte {
	var b []byte
	n := r.Intn(6)
	for i := 0; i < n; i++ {
		b = append(b, genField(r, 0)...)
	}
	switch r.Intn(12) {
	case 0: // truncate
		if len(b) > 0 {
			b = b[:r.Intn(len(b))]
		}
	case 1: // flip a byte
		if len(b) > 0 {
			b[r.Intn(len(b))] ^= byte(1 << r.Intn(8))
		}
	case 2: // append garbage
		b = append(b, hx.Pick(r, [][]byte{{0x00}, {0x07}, {0x06, 0x01}, {0xd4, 0xf6, 0x03}, {0x80, 0x80, 0x80, 0x80, 0x80, 0x80, 0x80, 0x80, 0x80, 0x80, 0x01},
			{0xff, 0xff, 0xff, 0xff, 0xff, 0xff, 0xff, 0xff, 0xff, 0x01, 0x00}, {0xf8, 0xff, 0xff, 0xff, 0x7f, 0x00}, {0x80, 0x80, 0x80, 0x80, 0x40, 0x00}, {0xd4, 0xf6, 0x03, 0x05}})...)
	}
	return b
}

func stripVia(b []byte) []byte {
	fdp := &descriptorpb.FileDescriptorProto{Name: proto.String("a.proto")}
	fdp.ProtoReflect().SetUnknown(b)
	imf := must(bufimage.NewImageFile(fdp, nil, uuid.Nil, "", "", false, false, nil))
	img := must(bufimage.NewImage([]bufimage.ImageFile{imf}))
	pi := must(bufimage.ImageToProtoImage(img))
	return pi.GetFile()[0].ProtoReflect().GetUnknown()
}

// topLevel splits well-formed bytes into top-level fields with protowire (the harness' own
// reading of the wire format, for the oracle).
func topLevel(b []byte) (nums []protowire.Number, raws [][]byte, ok bool) {
	for len(b) > 0 {
		num, typ, n := protowire.ConsumeTag(b)
		if n < 0 {
			return nil, nil, false
		}
		m := protowire.ConsumeFieldValue(num, typ, b[n:])
		if m < 0 {
			return nil, nil, false
		}
		nums = append(nums, num)
		raws = append(raws, b[:n+m])
		b = b[n+m:]
	}
	return nums, raws, true
}

func runStrip(run *hx.Run, b []byte, line string) (out string) {
	defer func() {
		if p := recover(); p != nil {
			out = "panic"
			run.Fail(hx.OracleFailure{Class: "C11-panic-strip", What: fmt.Sprint(p), Input: line, Replay: replayCmd(run, line)})
		}
	}()
	res := stripVia(b)
	// oracle: a well-formed input keeps exactly the non-8042 top-level fields, byte for byte;
	// the proto image file then carries the buf extension exactly once when marshalled.
	if nums, raws, ok := topLevel(b); ok {
		var want []byte
		for i := range nums {
			if nums[i] != 8042 {
				want = append(want, raws[i]...)
			}
		}
		if string(want) != string(res) {
			run.Fail(hx.OracleFailure{Class: "C11-strip-not-exactly-8042", What: fmt.Sprintf("input %x: got %x, want %x", b, res, want), Input: line, Replay: replayCmd(run, line)})
		}
	} else if string(res) != string(b) {
		run.Fail(hx.OracleFailure{Class: "C11-strip-malformed-changed", What: fmt.Sprintf("malformed input %x was changed to %x", b, res), Input: line, Replay: replayCmd(run, line)})
	}
	if again := stripVia(res); string(again) != string(res) {
		run.Fail(hx.OracleFailure{Class: "C11-strip-not-idempotent", What: fmt.Sprintf("input %x: once %x, twice %x", b, res, again), Input: line, Replay: replayCmd(run, line)})
	}
	return hx.Enc(string(res))
}

// ---------------------------------------------------------------------------------------
// Part C2: image file <-> proto image file

func b01(b bool) string {
	if b {
		return "1"
	}
	return "0"
}

func showNats(xs []int32) string {
	if len(xs) == 0 {
		return "-"
	}
	var p []string
	for _, x := range xs {
		p = append(p, strconv.Itoa(int(x)))
	}
	return strings.Join(p, ",")
}

func parseNats(s string) []int32 {
	if s == "-" {
		return nil
	}
	var out []int32
	for _, p := range strings.Split(s, ",") {
		out = append(out, int32(must(strconv.Atoi(p))))
	}
	return out
}

func depsN(n int) []string {
	var d []string
	for i := 0; i < n; i++ {
		d = append(d, fmt.Sprintf("d%d.proto", i))
	}
	return d
}

func optS(s string) *string { // "~" = absent
	if s == "~" {
		return nil
	}
	v := hx.Dec(s)
	return &v
}

func showOptS(has bool, s string) string {
	if !has {
		return "~"
	}
	return hx.Enc(s)
}

func runPimg(run *hx.Run, f []string, line string) (out string) {
	defer func() {
		if p := recover(); p != nil {
			out = "panic"
			run.Fail(hx.OracleFailure{Class: "C11-panic-proto-image", What: fmt.Sprint(p), Input: line, Replay: replayCmd(run, line)})
		}
	}()
	switch f[1] {
	case "i2p":
		nd := must(strconv.Atoi(f[2]))
		fdp := &descriptorpb.FileDescriptorProto{Name: proto.String("a.proto"), Dependency: depsN(nd)}
		fdp.ProtoReflect().SetUnknown([]byte(hx.Dec(f[8])))
		var fn bufparse.FullName
		if f[6] != "~" {
			q := strings.Split(f[6], ":")
			var err error
			fn, err = bufparse.NewFullName(hx.Dec(q[0]), hx.Dec(q[1]), hx.Dec(q[2]))
			if err != nil {
				return "err:gen"
			}
		}
		commit := uuid.Nil
		if c := optS(f[7]); c != nil {
			commit = must(uuidutil.FromDashless(*c))
		}
		imf, err := bufimage.NewImageFile(fdp, fn, commit, "", "", f[3] == "1", f[4] == "1", parseNats(f[5]))
		if err != nil {
			return "err:gen"
		}
		img := must(bufimage.NewImage([]bufimage.ImageFile{imf}))
		pi := must(bufimage.ImageToProtoImage(img))
		return showProtoFile(pi.GetFile()[0])
	case "p2i":
		nd := must(strconv.Atoi(f[2]))
		b := imagev1.ImageFile_builder{Name: proto.String("a.proto"), Dependency: depsN(nd)}
		if f[4] != "~" {
			eb := imagev1.ImageFileExtension_builder{UnusedDependency: parseNats(f[6])}
			if f[4] != "~" && f[4] != "x" {
				eb.IsImport = proto.Bool(f[4] == "1")
			}
			if f[5] != "x" {
				eb.IsSyntaxUnspecified = proto.Bool(f[5] == "1")
			}
			if f[7] != "^" {
				mb := imagev1.ModuleInfo_builder{Commit: optS(f[8])}
				if f[7] != "~" {
					q := strings.Split(f[7], ":")
					mb.Name = imagev1.ModuleName_builder{Remote: proto.String(hx.Dec(q[0])), Owner: proto.String(hx.Dec(q[1])), Repository: proto.String(hx.Dec(q[2]))}.Build()
				}
				eb.ModuleInfo = mb.Build()
			}
			b.BufExtension = eb.Build()
		}
		pf := b.Build()
		pf.ProtoReflect().SetUnknown([]byte(hx.Dec(f[3])))
		img, err := bufimage.NewImageForProto(imagev1.Image_builder{File: []*imagev1.ImageFile{pf}}.Build(), bufimage.WithNoReparse())
		if err != nil {
			return "err:bad-proto"
		}
		imf := img.Files()[0]
		name := "~"
		if fn := imf.FullName(); fn != nil {
			name = hx.Enc(fn.Registry()) + ":" + hx.Enc(fn.Owner()) + ":" + hx.Enc(fn.Name())
		}
		commit := "~"
		if imf.CommitID() != uuid.Nil {
			commit = hx.Enc(uuidutil.ToDashless(imf.CommitID()))
		}
		res := "ok imp=" + b01(imf.IsImport()) + " su=" + b01(imf.IsSyntaxUnspecified()) + " unused=" + showNats(imf.UnusedDependencyIndexes()) +
			" name=" + name + " commit=" + commit + " unk=" + hx.Enc(string(imf.FileDescriptorProto().ProtoReflect().GetUnknown()))
		// oracle: converting back gives a proto image file that converts to the same image file
		pi2 := must(bufimage.ImageToProtoImage(img))
		img2, err := bufimage.NewImageForProto(pi2, bufimage.WithNoReparse())
		if err != nil {
			run.Fail(hx.OracleFailure{Class: "C11-proto-image-roundtrip-error", What: err.Error(), Input: line, Replay: replayCmd(run, line)})
		} else {
			f2 := img2.Files()[0]
			same := f2.IsImport() == imf.IsImport() && f2.IsSyntaxUnspecified() == imf.IsSyntaxUnspecified() &&
				fmt.Sprint(f2.UnusedDependencyIndexes()) == fmt.Sprint(imf.UnusedDependencyIndexes()) && f2.CommitID() == imf.CommitID() &&
				(f2.FullName() == nil) == (imf.FullName() == nil) && (f2.FullName() == nil || f2.FullName().String() == imf.FullName().String()) &&
				string(f2.FileDescriptorProto().ProtoReflect().GetUnknown()) == string(without8042(imf.FileDescriptorProto().ProtoReflect().GetUnknown())) &&
				proto.Equal(noUnknown(f2.FileDescriptorProto()), noUnknown(imf.FileDescriptorProto()))
			if !same {
				run.Fail(hx.OracleFailure{Class: "C11-proto-image-roundtrip", What: "image -> proto image -> image changed the file", Input: line, Replay: replayCmd(run, line)})
			}
		}
		return res
	}
	return "bad"
}

// without8042 is the oracle's own expectation: unknown field 8042 (which would otherwise be
// written next to the real buf extension) is dropped at top level, everything else is kept.
func without8042(b []byte) []byte {
	nums, raws, ok := topLevel(b)
	if !ok {
		return b
	}
	var out []byte
	for i := range nums {
		if nums[i] != 8042 {
			out = append(out, raws[i]...)
		}
	}
	return out
}

func noUnknown(f *descriptorpb.FileDescriptorProto) *descriptorpb.FileDescriptorProto {
	c := proto.Clone(f).(*descriptorpb.FileDescriptorProto)
	c.ProtoReflect().SetUnknown(nil)
	return c
}

func showProtoFile(pf *imagev1.ImageFile) string {
	unk := hx.Enc(string(pf.ProtoReflect().GetUnknown()))
	if !pf.HasBufExtension() {
		return "ok ext=~ unk=" + unk
	}
	e := pf.GetBufExtension()
	ob := func(has, v bool) string {
		if !has {
			return "~"
		}
		return b01(v)
	}
	mi := "^;~"
	if e.HasModuleInfo() {
		m := e.GetModuleInfo()
		name := "~"
		if m.HasName() {
			n := m.GetName()
			name = hx.Enc(n.GetRemote()) + ":" + hx.Enc(n.GetOwner()) + ":" + hx.Enc(n.GetRepository())
		}
		mi = name + ";" + showOptS(m.HasCommit(), m.GetCommit())
	}
	return "ok ext=" + ob(e.HasIsImport(), e.GetIsImport()) + ";" + ob(e.HasIsSyntaxUnspecified(), e.GetIsSyntaxUnspecified()) + ";" + showNats(e.GetUnusedDependency()) + ";" + mi + " unk=" + unk
}

func genCommit(r *hx.Rand, hostile bool) string {
	const hexd = "0123456789abcdef"
	var sb strings.Builder
	for i := 0; i < 32; i++ {
		sb.WriteByte(hexd[r.Intn(16)])
	}
	c := sb.String()
	if !hostile {
		return c
	}
	switch r.Intn(8) {
	case 0:
		return strings.ToUpper(c)
	case 1:
		return c[:31]
	case 2:
		return c + "0"
	case 3:
		return c[:10] + "g" + c[11:]
	case 4:
		return strings.Repeat("0", 32)
	case 5:
		return ""
	}
	return c
}

func genName(r *hx.Rand, hostile bool) string {
	reg := hx.Pick(r, []string{"buf.build", "bsr.example.com", "localhost"})
	owner := hx.Pick(r, []string{"acme", "o-1", "x"})
	name := hx.Pick(r, []string{"weather", "m0", "pet_store"})
	if hostile {
		switch r.Intn(10) {
		case 0:
			reg = ""
		case 1:
			owner = ""
		case 2:
			name = ""
		case 3:
			owner = "a/b"
		case 4:
			name = "c/d"
		}
	}
	return hx.Enc(reg) + ":" + hx.Enc(owner) + ":" + hx.Enc(name)
}

func genUnused(r *hx.Rand, nd int, hostile bool) string {
	var xs []int32
	for i := 0; i < nd; i++ {
		if r.Chance(1, 3) {
			xs = append(xs, int32(i))
		}
	}
	if hostile && r.Chance(1, 6) {
		xs = append(xs, int32(nd+r.Intn(3)))
	}
	if r.Chance(1, 4) {
		hx.Shuffle(r, xs)
	}
	return showNats(xs)
}

func partC(run *hx.Run, r *hx.Rand) {
	n := run.N(3000, 30000)
	for i := 0; i < n; i++ {
		cr := r.Fork(uint64(i))
		b := genUnknown(cr)
		line := "strip\t" + hx.Enc(string(b))
		out := runStrip(run, b, line)
		_, _, ok := topLevel(b)
		run.Case(line, out, ok && len(b) > 0)
		if ok {
			run.Count("C:strip=well-formed")
			if out != hx.Enc(string(b)) {
				run.Count("C:strip=removed-something")
			}
		} else {
			run.Count("C:strip=malformed")
		}
	}
	m := run.N(1500, 15000)
	for i := 0; i < m; i++ {
		cr := r.Fork(uint64(1_000_000 + i))
		nd := cr.Intn(4)
		unk := hx.Enc(string(genUnknownSmall(cr)))
		var line string
		if cr.Bool() {
			name := "~"
			if cr.Chance(2, 3) {
				name = genName(cr, false)
			}
			commit := "~"
			if cr.Chance(1, 2) {
				commit = hx.Enc(genCommit(cr, false))
			}
			line = strings.Join([]string{"pimg", "i2p", strconv.Itoa(nd), b01(cr.Bool()), b01(cr.Bool()), genUnused(cr, nd, false), name, commit, unk}, "\t")
			run.Count("C:pimg=i2p")
		} else {
			if cr.Chance(1, 8) {
				line = strings.Join([]string{"pimg", "p2i", strconv.Itoa(nd), unk, "~"}, "\t")
			} else {
				imp := hx.Pick(cr, []string{"0", "1", "x"})
				su := hx.Pick(cr, []string{"0", "1", "x"})
				name := hx.Pick(cr, []string{"^", "~", "n", "n", "n"})
				if name == "n" {
					name = genName(cr, true)
				}
				commit := "~"
				if cr.Chance(2, 3) {
					commit = hx.Enc(genCommit(cr, true))
					if commit == "-" {
						commit = "-" // present but empty
					}
				}
				line = strings.Join([]string{"pimg", "p2i", strconv.Itoa(nd), unk, imp, su, genUnused(cr, nd, true), name, commit}, "\t")
			}
			run.Count("C:pimg=p2i")
		}
		out := runPimg(run, strings.Split(line, "\t"), line)
		run.Case(line, out, strings.HasPrefix(out, "ok ") && !strings.Contains(line, "\t~\t~\t"))
		if strings.HasPrefix(out, "err:") {
			run.Count("C:pimg=" + out)
		}
	}
}

func genUnknownSmall(r *hx.Rand) []byte {
	if r.Chance(1, 2) {
		return nil
	}
	var b []byte
	for i, n := 0, 1+r.Intn(2); i < n; i++ {
		b = append(b, genField(r, 2)...)
	}
	return b
}
