// Part O of the C11 harness: OUTPUT-FILE HISTORIES.
//
// "A built image written in any supported encoding and compression and read back equals the
// original" is a statement about the FILE the reader finds, and that file has a history: the
// output path may already exist - an earlier, LONGER output of the same command (`buf build -o
// x.binpb`, later `buf build --path a -o x.binpb`), a shorter one, a foreign file, an output in
// another encoding under the same name, a symbolic link (to a file, dangling, a chain, a loop), a
// directory, a read-only file, a FIFO - or be stdout.  Every single-shot round trip of Parts B /
// B3 / B5 / X writes to a fresh path.
//
// The commands that write a message file go through ONE function, buffetch's internal writer
// (putFileWriteCloserPotentiallyUncompressed: os.Create for a local path): `buf build -o`,
// `buf convert --to`, `buf alpha protoc -o` (controller.PutImage / PutMessage).  `buf export -o`
// and `buf generate` write through storageos buckets (properties C13-C15), not through it.
//
// O1 (in-process, the real bufctl controller): per workspace five images of different sizes
// (everything / --path b / --path a / the same without source info) x every encoding x
// compression (+ #format= on a neutral extension, so that one file name changes its encoding) x
// history shapes.  After EVERY write: the bytes of the path == the bytes the same write leaves at a
// fresh path; no other directory entry changed; a link is still a link; a failing write (link
// loop, directory) returned an error and changed nothing.  After the last write the image is read
// back through the controller and compared file by file with the image written.  Each history
// goes to the Lean model as an `ofh` line (BufModel.OutFile): per step ok / error class, per name
// where every byte of what it holds came from.
// Oracle only: read-only output file, FIFO, stdout (`-`), PutMessage (`buf convert`).
// O2 (real binary): the same histories for `buf build -o`, `buf convert --to`, `buf alpha protoc
// -o` and `-o -`, read back with `buf build FILE -o -#format=binpb` / `buf convert`.
package main

import (
	"bytes"
	"errors"
	"fmt"
	"io"
	"os"
	"path/filepath"
	"sort"
	"strings"
	"sync"
	"syscall"
	"time"

	"github.com/bufbuild/buf/private/buf/bufctl"
	"github.com/bufbuild/buf/private/buf/buffetch"
	"github.com/bufbuild/buf/private/bufpkg/bufimage"
	imagev1 "github.com/bufbuild/buf/private/gen/proto/go/buf/alpha/image/v1"
	"github.com/bufbuild/verifharness/internal/hx"
	"google.golang.org/protobuf/proto"
	"google.golang.org/protobuf/reflect/protoreflect"
	"google.golang.org/protobuf/types/dynamicpb"
)

// ---------------------------------------------------------------------------------------
// the workspace: three files of clearly different sizes

type oFile struct{ path, body string }

func genOWS(r *hx.Rand) []oFile {
	msgs := func(pkg string, n int, imp string, comments bool) string {
		var b strings.Builder
		b.WriteString("syntax = \"proto3\";\npackage " + pkg + ";\n")
		if imp != "" {
			b.WriteString("import \"" + imp + "\";\n")
		}
		for i := 0; i < n; i++ {
			if comments {
				fmt.Fprintf(&b, "// Message number %d of package %s carries a few fields so that the image is long.\n", i, pkg)
			}
			fmt.Fprintf(&b, "message M%d {\n", i)
			for j, nf := 0, 1+r.Intn(5); j < nf; j++ {
				if comments && r.Bool() {
					fmt.Fprintf(&b, "  // field %d\n", j)
				}
				fmt.Fprintf(&b, "  %s f%d = %d;\n", hx.Pick(r, []string{"string", "int32", "bytes", "bool", "repeated uint64"}), j, j+1)
			}
			if imp != "" && i == 0 {
				b.WriteString("  oa.M0 link = 15;\n")
			}
			b.WriteString("}\n")
		}
		return b.String()
	}
	return []oFile{
		{"a/a.proto", msgs("oa", 1+r.Intn(2), "", false)},
		{"b/b.proto", msgs("ob", 3+r.Intn(4), "a/a.proto", true)},
		{"c/c.proto", msgs("oc", 8+r.Intn(8), "", true) + "message Data {\n  repeated string items = 1;\n  int64 n = 2;\n}\n"},
	}
}

func writeOWS(dir string, files []oFile) {
	must0(os.RemoveAll(dir))
	must0(os.MkdirAll(dir, 0o755))
	must0(os.WriteFile(filepath.Join(dir, "buf.yaml"), []byte("version: v2\n"), 0o644))
	for _, f := range files {
		must0(os.MkdirAll(filepath.Dir(filepath.Join(dir, f.path)), 0o755))
		must0(os.WriteFile(filepath.Join(dir, f.path), []byte(f.body), 0o644))
	}
}

// oVariant is one image of the workspace (what `buf build <flags>` would write).
type oVariant struct {
	tag   string
	paths []string // --path (workspace relative)
	noSI  bool
	cli   []string
}

var oVariants = []oVariant{
	{tag: "all"},
	{tag: "all-nosi", noSI: true, cli: []string{"--exclude-source-info"}},
	{tag: "path-b", paths: []string{"b"}, cli: []string{"--path", "b"}},
	{tag: "path-a", paths: []string{"a"}, cli: []string{"--path", "a"}},
	{tag: "path-a-nosi", paths: []string{"a"}, noSI: true, cli: []string{"--path", "a", "--exclude-source-info"}},
}

func oEncodings() []encCase {
	return append(b3Encodings(),
		encCase{format: "json", comp: "", ext: ".data", suffix: "#format=json"},
		encCase{format: "binpb", comp: "", ext: ".data", suffix: "#format=binpb"},
		encCase{format: "yaml", comp: ".zst", ext: ".data", suffix: "#format=yaml,compression=zstd"},
		encCase{format: "txtpb", comp: ".gz", ext: ".data", suffix: "#format=txtpb,compression=gzip"},
	)
}

// ---------------------------------------------------------------------------------------
// histories

type oStep struct {
	op      string // put | pre | ln | mkdir | rm | chmod (oracle only, not in the line)
	name    string // directory entry the step names
	target  string // ln
	variant int    // put: which image
	enc     int    // put: index into the encoding list (the file NAME is fixed per history; the enc may change for .data)
	garbage int    // pre: length of the foreign bytes
	expect  string // put: "" ok | "eloop" | "eisdir"
}

type oShape struct {
	name  string
	steps func(long, mid, short int) []oStep // variants: long > mid > short in every encoding (checked)
	// neutral: the shape switches the encoding under one name, so it only runs for the .data encodings
	neutral bool
}

// F is the output name of the history; the encoding decides its extension later.
var oShapes = []oShape{
	{name: "long-short", steps: func(l, m, s int) []oStep {
		return []oStep{{op: "put", name: "F", variant: l}, {op: "put", name: "F", variant: s}}
	}},
	{name: "short-long-short", steps: func(l, m, s int) []oStep {
		return []oStep{{op: "put", name: "F", variant: s}, {op: "put", name: "F", variant: l}, {op: "put", name: "F", variant: s}}
	}},
	{name: "descending", steps: func(l, m, s int) []oStep {
		return []oStep{{op: "put", name: "F", variant: l}, {op: "put", name: "F", variant: m}, {op: "put", name: "F", variant: s}}
	}},
	{name: "same-twice", steps: func(l, m, s int) []oStep {
		return []oStep{{op: "put", name: "F", variant: m}, {op: "put", name: "F", variant: m}}
	}},
	{name: "foreign-longer", steps: func(l, m, s int) []oStep {
		return []oStep{{op: "pre", name: "F", garbage: 2}, {op: "put", name: "F", variant: s}}
	}},
	{name: "foreign-shorter", steps: func(l, m, s int) []oStep {
		return []oStep{{op: "pre", name: "F", garbage: -1}, {op: "put", name: "F", variant: l}, {op: "put", name: "F", variant: s}}
	}},
	{name: "foreign-equal-length", steps: func(l, m, s int) []oStep {
		// garbage 0: exactly as long as the image written next (a writer that skips an "unchanged" output by size)
		return []oStep{{op: "pre", name: "F", garbage: 0, variant: s}, {op: "put", name: "F", variant: s}, {op: "put", name: "F", variant: m}, {op: "pre", name: "F", garbage: 0, variant: s}, {op: "put", name: "F", variant: s}}
	}},
	{name: "removed-between", steps: func(l, m, s int) []oStep {
		return []oStep{{op: "put", name: "F", variant: l}, {op: "rm", name: "F"}, {op: "put", name: "F", variant: s}}
	}},
	{name: "symlink-to-longer", steps: func(l, m, s int) []oStep {
		return []oStep{{op: "put", name: "T", variant: l}, {op: "ln", name: "F", target: "T"}, {op: "put", name: "F", variant: s}}
	}},
	{name: "symlink-chain", steps: func(l, m, s int) []oStep {
		return []oStep{{op: "pre", name: "T", garbage: 2}, {op: "ln", name: "L", target: "T"}, {op: "ln", name: "F", target: "L"}, {op: "put", name: "F", variant: m}, {op: "put", name: "F", variant: s}}
	}},
	{name: "symlink-dangling", steps: func(l, m, s int) []oStep {
		return []oStep{{op: "ln", name: "F", target: "T"}, {op: "put", name: "F", variant: l}, {op: "put", name: "F", variant: s}}
	}},
	{name: "symlink-loop", steps: func(l, m, s int) []oStep {
		return []oStep{{op: "put", name: "K", variant: l}, {op: "ln", name: "F", target: "L"}, {op: "ln", name: "L", target: "F"}, {op: "put", name: "F", variant: s, expect: "eloop"}}
	}},
	{name: "directory", steps: func(l, m, s int) []oStep {
		return []oStep{{op: "put", name: "K", variant: l}, {op: "mkdir", name: "F"}, {op: "put", name: "F", variant: s, expect: "eisdir"}, {op: "put", name: "K", variant: s}}
	}},
	{name: "two-names-one-file", steps: func(l, m, s int) []oStep {
		return []oStep{{op: "put", name: "T", variant: l}, {op: "ln", name: "F", target: "T"}, {op: "put", name: "F", variant: m}, {op: "put", name: "T", variant: s}}
	}},
	{name: "encoding-switch", neutral: true, steps: func(l, m, s int) []oStep {
		// enc is an OFFSET into the four .data encodings here
		return []oStep{{op: "put", name: "F", variant: l, enc: 2}, {op: "put", name: "F", variant: m, enc: 0}, {op: "put", name: "F", variant: s, enc: 1}, {op: "put", name: "F", variant: s, enc: 3}}
	}},
}

// ---------------------------------------------------------------------------------------
// environment

type oEnv struct {
	run   *hx.Run
	ctl   bufctl.Controller
	root  string
	count map[string]int
}

func (e *oEnv) fail(class, what string, input any, replay string) {
	e.count[class]++
	if e.count[class] > 4 {
		e.run.Count("O:more-failures:" + class)
		return
	}
	e.run.Fail(hx.OracleFailure{Class: class, What: what, Input: input, Replay: replay})
}

// oPayload is what one (workspace, variant, encoding) write leaves at a fresh path.
type oPayload struct {
	id    int
	bytes []byte
	want  []*imagev1.ImageFile
	desc  string
}

type oWorkspace struct {
	wi       int
	dir      string
	images   []bufimage.Image // per variant (a fresh object per use is not needed: PutImage does not change it, checked by B3)
	want     [][]*imagev1.ImageFile
	payloads map[[2]int]*oPayload // (variant, enc index)
	nextID   int
	mu       sync.Mutex
}

func errnoTag(err error) string {
	switch {
	case err == nil:
		return "ok"
	case errors.Is(err, syscall.ELOOP):
		return "err:eloop"
	case errors.Is(err, syscall.EISDIR):
		return "err:eisdir"
	case errors.Is(err, syscall.ENOENT):
		return "err:enoent"
	case errors.Is(err, syscall.EEXIST):
		return "err:eexist"
	}
	return "err:other"
}

func (e *oEnv) buildVariant(dir string, v oVariant) (bufimage.Image, error) {
	var opts []bufctl.FunctionOption
	if len(v.paths) > 0 {
		var ps []string
		for _, p := range v.paths {
			ps = append(ps, filepath.Join(dir, p))
		}
		opts = append(opts, bufctl.WithTargetPaths(ps, nil))
	}
	opts = append(opts, bufctl.WithImageExcludeSourceInfo(v.noSI))
	return buildImage(e.ctl, dir, opts...)
}

// payload writes (once) variant v in encoding ei to a FRESH path and returns the bytes.
func (e *oEnv) payload(w *oWorkspace, v, ei int) *oPayload {
	w.mu.Lock()
	defer w.mu.Unlock()
	if p, ok := w.payloads[[2]int{v, ei}]; ok {
		return p
	}
	enc := oEncodings()[ei]
	w.nextID++
	fresh := filepath.Join(e.root, fmt.Sprintf("fresh%d", w.wi), fmt.Sprintf("p%d_%s_%d%s", w.nextID, oVariants[v].tag, ei, enc.ext))
	must0(os.MkdirAll(filepath.Dir(fresh), 0o755))
	must0(os.RemoveAll(fresh))
	p := &oPayload{id: w.nextID, want: w.want[v], desc: oVariants[v].tag + " as " + enc.ext + enc.suffix}
	if err := safePutImage(e.ctl, fresh+enc.suffix, w.images[v]); err != nil {
		e.fail("C11-outfile-fresh-write-error", fmt.Sprintf("writing %s to the fresh path %s: %v", p.desc, fresh, err), nil, "")
	} else {
		p.bytes = must(os.ReadFile(fresh))
	}
	w.payloads[[2]int{v, ei}] = p
	return p
}

// snapshot: every entry of dir as "L:<target>" | "D" | "F:<bytes>"
func snapshot(dir string) map[string]string {
	out := map[string]string{}
	for _, de := range must(os.ReadDir(dir)) {
		p := filepath.Join(dir, de.Name())
		fi := must(os.Lstat(p))
		switch {
		case fi.Mode()&os.ModeSymlink != 0:
			out[de.Name()] = "L:" + must(os.Readlink(p))
		case fi.IsDir():
			out[de.Name()] = "D"
		default:
			out[de.Name()] = "F:" + string(must(os.ReadFile(p)))
		}
	}
	return out
}

// resolveName follows the links of the history directory like open(2) does; "" for a loop.
func resolveName(dir, name string) string {
	for i := 0; i < 50; i++ {
		t, err := os.Readlink(filepath.Join(dir, name))
		if err != nil {
			return name
		}
		name = t
	}
	return ""
}

// attribute says for every byte of data which payload written to this file it comes from (the
// latest first): the harness side of the `ofh` answer.  0 = from no payload.
func attribute(data []byte, written []*oPayloadRef) string {
	if len(data) == 0 {
		return "empty"
	}
	var segs []string
	cur, lo := -1, 0
	flush := func(hi int) {
		if cur >= 0 {
			segs = append(segs, fmt.Sprintf("%d:%d:%d", cur, lo, hi))
		}
	}
	for pos, b := range data {
		id := 0
		for k := len(written) - 1; k >= 0; k-- {
			if pos < len(written[k].bytes) && written[k].bytes[pos] == b {
				id = written[k].id
				break
			}
		}
		if id != cur {
			flush(pos)
			cur, lo = id, pos
		}
	}
	flush(len(data))
	return strings.Join(segs, "+")
}

type oPayloadRef struct {
	id    int
	bytes []byte
}

type oHistory struct {
	w     *oWorkspace
	hi    int
	shape oShape
	ei    int // encoding of the history (index into oEncodings)
	steps []oStep
}

func (h *oHistory) describe(upto int) string {
	var parts []string
	for i, s := range h.steps {
		if i > upto {
			break
		}
		switch s.op {
		case "put":
			parts = append(parts, fmt.Sprintf("write %s -> %s", oVariants[s.variant].tag, s.name))
		case "pre":
			parts = append(parts, fmt.Sprintf("foreign file %s", s.name))
		case "ln":
			parts = append(parts, fmt.Sprintf("symlink %s -> %s", s.name, s.target))
		default:
			parts = append(parts, s.op+" "+s.name)
		}
	}
	return strings.Join(parts, "; ")
}

// runHistory executes one history in its own directory and returns the protocol line + answer.
func (e *oEnv) runHistory(h *oHistory) {
	encs := oEncodings()
	enc := encs[h.ei]
	dir := filepath.Join(e.root, fmt.Sprintf("h%d_%d", h.w.wi, h.hi))
	must0(os.RemoveAll(dir))
	must0(os.MkdirAll(dir, 0o755))
	file := func(name string) string { return name + enc.ext }
	nameIDs := map[string]int{}
	var names []string
	nid := func(name string) int {
		if id, ok := nameIDs[name]; ok {
			return id
		}
		nameIDs[name] = len(nameIDs)
		names = append(names, name)
		return nameIDs[name]
	}
	written := map[string][]*oPayloadRef{} // per RESOLVED name: payloads written to it, in order
	garbageID := 900
	var ops, results []string
	replayBase := fmt.Sprintf("C11_PARTS=o1 build/c11 --out /tmp/c11-replay --seed %d --tier %s   # history %d of workspace %d (shape %s, %s%s) is left in <out>/o/h%d_%d; workspace <out>/o/ws%d", e.run.Seed, e.run.Tier, h.hi, h.w.wi, h.shape.name, enc.ext, enc.suffix, h.w.wi, h.hi, h.w.wi)
	input := func(i int) map[string]any {
		return map[string]any{"shape": h.shape.name, "encoding": enc.ext + enc.suffix, "history": h.describe(i), "directory": dir}
	}
	var last *oPayload
	lastName, lastSuffix := "", ""
	for i, s := range h.steps {
		path := filepath.Join(dir, file(s.name))
		switch s.op {
		case "pre":
			n := 0
			switch {
			case s.garbage > 0:
				n = s.garbage * (len(e.payload(h.w, 0, h.ei).bytes) + 100)
			case s.garbage == 0:
				n = len(e.payload(h.w, s.variant, h.ei).bytes)
			default:
				n = 7
			}
			garbageID++
			g := &oPayloadRef{id: garbageID, bytes: genBytesO(uint64(h.hi*131+i), n)}
			before := resolveName(dir, file(s.name))
			err := os.WriteFile(path, g.bytes, 0o644)
			ops = append(ops, fmt.Sprintf("pre:%d:%d:%d", nid(s.name), g.id, n))
			results = append(results, errnoTag(err))
			if err == nil {
				written[before] = append(written[before], g)
			}
		case "ln":
			err := os.Symlink(file(s.target), path)
			ops = append(ops, fmt.Sprintf("ln:%d:%d", nid(s.name), nid(s.target)))
			results = append(results, errnoTag(err))
		case "mkdir":
			err := os.Mkdir(path, 0o755)
			ops = append(ops, fmt.Sprintf("mkdir:%d", nid(s.name)))
			results = append(results, errnoTag(err))
		case "rm":
			err := os.Remove(path)
			ops = append(ops, fmt.Sprintf("rm:%d", nid(s.name)))
			results = append(results, errnoTag(err))
			delete(written, file(s.name))
		case "put":
			ei := h.ei
			if h.shape.neutral {
				ei = len(b3Encodings()) + s.enc
			}
			penc := encs[ei]
			p := e.payload(h.w, s.variant, ei)
			if p.bytes == nil {
				return
			}
			before := snapshot(dir)
			target := resolveName(dir, file(s.name))
			err := safePutImage(e.ctl, path+penc.suffix, h.w.images[s.variant])
			after := snapshot(dir)
			ops = append(ops, fmt.Sprintf("put:%d:%d:%d", nid(s.name), p.id, len(p.bytes)))
			results = append(results, errnoTag(err))
			e.run.Eval()
			cmd := fmt.Sprintf("buf build %s%s -o '%s%s'", h.w.dir, cliOf(oVariants[s.variant]), path, penc.suffix)
			replay := replayBase + "; step " + fmt.Sprint(i) + ": " + cmd
			if s.expect != "" {
				e.run.Count("O1:failing-write=" + s.expect)
				if err == nil {
					e.fail("C11-outfile-error-expected", fmt.Sprintf("writing an image to %s (%s) returned no error", file(s.name), map[string]string{"eloop": "a loop of symbolic links", "eisdir": "a directory"}[s.expect]), input(i), replay)
				} else if errnoTag(err) != "err:"+s.expect {
					e.run.Count("O1:failing-write-other-error")
				}
				if d := diffSnapshots(before, after, ""); d != "" {
					e.fail("C11-outfile-failed-write-changed-files", "a write that failed changed the directory: "+d, input(i), replay)
				}
				continue
			}
			if err != nil {
				e.fail("C11-outfile-write-error", fmt.Sprintf("step %d (%s): %v", i, cmd, err), input(i), replay)
				return
			}
			written[target] = append(written[target], &oPayloadRef{p.id, p.bytes})
			last, lastName, lastSuffix = p, s.name, penc.suffix
			// (a) the path holds exactly what the same write leaves at a fresh path
			got, rerr := os.ReadFile(path)
			if rerr != nil {
				e.fail("C11-outfile-unreadable", fmt.Sprintf("after `%s` the output cannot be read: %v", cmd, rerr), input(i), replay)
				return
			}
			if !bytes.Equal(got, p.bytes) {
				class, what := "C11-outfile-bytes-differ", fmt.Sprintf("after the history [%s] the output %s holds %d bytes that differ from the %d bytes the same write leaves at a fresh path", h.describe(i), file(s.name), len(got), len(p.bytes))
				if len(got) > len(p.bytes) && bytes.Equal(got[:len(p.bytes)], p.bytes) {
					class = "C11-outfile-stale-tail"
					what = fmt.Sprintf("after the history [%s] the output %s holds the %d bytes of the image just written FOLLOWED BY %d bytes of what the path held before (a fresh path gets %d bytes): the file was not truncated", h.describe(i), file(s.name), len(p.bytes), len(got)-len(p.bytes), len(p.bytes))
				}
				e.fail(class, what, input(i), replay)
			}
			// (b) nothing else in the directory changed; a link is still a link
			if d := diffSnapshots(before, after, target); d != "" {
				class := "C11-outfile-other-entry-changed"
				if strings.Contains(d, "was a symbolic link") {
					class = "C11-outfile-symlink-replaced"
				}
				e.fail(class, fmt.Sprintf("`%s` changed more than its output: %s", cmd, d), input(i), replay)
			}
			e.run.Count(fmt.Sprintf("O1:write:%s:%s", penc.format+penc.comp, sizeRelation(before, target, len(p.bytes))))
		}
	}
	// (c) the property itself: the image read back from the path is the image written last
	if last != nil {
		path := filepath.Join(dir, file(lastName)) + lastSuffix
		back, err := safeGetImage(e.ctl, path)
		replay := replayBase + "; buf build '" + path + "' -o -#format=json"
		if err != nil {
			e.fail("C11-outfile-readback-error", fmt.Sprintf("after the history [%s] the image cannot be read back from %s: %s", h.describe(len(h.steps)), file(lastName), firstLines(err.Error(), 3)), input(len(h.steps)), replay)
		} else if d := diffImages(last.want, protoFiles(back)); d != "" {
			e.fail("C11-outfile-readback-differs", fmt.Sprintf("after the history [%s] the image read back from %s is not the image written (%s): %s", h.describe(len(h.steps)), file(lastName), last.desc, d), input(len(h.steps)), replay)
		}
		e.run.Eval()
	}
	e.run.Count("O1:shape=" + h.shape.name)
	// Leg C: what every name holds at the end
	sort.Slice(names, func(i, j int) bool { return nameIDs[names[i]] < nameIDs[names[j]] })
	var qs, ans []string
	for _, n := range names {
		qs = append(qs, fmt.Sprint(nameIDs[n]))
		data, err := os.ReadFile(filepath.Join(dir, file(n)))
		if err != nil {
			ans = append(ans, fmt.Sprintf("%d=%s", nameIDs[n], errnoTag(err)))
			continue
		}
		ans = append(ans, fmt.Sprintf("%d=%s", nameIDs[n], attribute(data, written[resolveName(dir, file(n))])))
	}
	line := "ofh\t" + strings.Join(ops, " ") + "\t" + strings.Join(qs, ",")
	e.run.Case(line, strings.Join(results, ",")+" | "+strings.Join(ans, " "), true)
}

func cliOf(v oVariant) string {
	if len(v.cli) == 0 {
		return ""
	}
	return " " + strings.Join(v.cli, " ")
}

func sizeRelation(before map[string]string, target string, n int) string {
	old, ok := before[target]
	switch {
	case !ok:
		return "over-nothing"
	case !strings.HasPrefix(old, "F:"):
		return "over-other"
	case len(old)-2 > n:
		return "over-longer"
	case len(old)-2 == n:
		return "over-equal"
	}
	return "over-shorter"
}

// diffSnapshots: "" when nothing but `except` changed.
func diffSnapshots(before, after map[string]string, except string) string {
	var ds []string
	for n, b := range before {
		a, ok := after[n]
		switch {
		case !ok:
			ds = append(ds, n+" disappeared")
		case n == except:
		case a != b && strings.HasPrefix(b, "L:"):
			ds = append(ds, n+" was a symbolic link to "+b[2:]+" and is now "+kindOf(a))
		case a != b:
			ds = append(ds, n+" changed ("+kindOf(b)+" -> "+kindOf(a)+")")
		}
	}
	for n := range after {
		if _, ok := before[n]; !ok && n != except {
			ds = append(ds, "new entry "+n)
		}
	}
	sort.Strings(ds)
	return strings.Join(ds, "; ")
}

func kindOf(s string) string {
	switch {
	case strings.HasPrefix(s, "L:"):
		return "a symbolic link to " + s[2:]
	case s == "D":
		return "a directory"
	}
	return fmt.Sprintf("a file of %d bytes", len(s)-2)
}

func genBytesO(seed uint64, n int) []byte {
	r := hx.NewRand(seed ^ 0x0f11e)
	b := make([]byte, n)
	for i := range b {
		b[i] = byte(r.Intn(256))
	}
	return b
}

// ---------------------------------------------------------------------------------------
// O1

var oWorkspaces []*oWorkspace // for O2

func partO1(run *hx.Run, r *hx.Rand) {
	root := must(filepath.Abs(filepath.Join(run.OutDir, "o")))
	must0(os.RemoveAll(root))
	must0(os.MkdirAll(root, 0o755))
	stdout := &lockedBuf{}
	e := &oEnv{run: run, root: root, count: map[string]int{}}
	e.ctl = newController(root, nil, stdout)
	encs := oEncodings()
	nEnc := len(b3Encodings())
	nWS := run.N(2, 5)
	for wi := 0; wi < nWS; wi++ {
		files := genOWS(r.Fork(uint64(wi)))
		w := &oWorkspace{wi: wi, dir: filepath.Join(root, fmt.Sprintf("ws%d", wi)), payloads: map[[2]int]*oPayload{}}
		writeOWS(w.dir, files)
		ok := true
		for _, v := range oVariants {
			img, err := e.buildVariant(w.dir, v)
			if err != nil {
				e.fail("C11-outfile-generator-workspace-does-not-build", firstLines(err.Error(), 4), map[string]any{"workspace": w.dir, "variant": v.tag}, "")
				ok = false
				break
			}
			w.images = append(w.images, img)
			w.want = append(w.want, protoFiles(img))
		}
		if !ok {
			continue
		}
		oWorkspaces = append(oWorkspaces, w)
		// long > mid > short in EVERY encoding (self-check of the generator: otherwise "over a longer file" is not reached)
		const long, mid, short = 0, 2, 4
		for ei := range encs {
			l, m, s := e.payload(w, long, ei), e.payload(w, mid, ei), e.payload(w, short, ei)
			if l.bytes == nil || m.bytes == nil || s.bytes == nil {
				continue
			}
			if !(len(l.bytes) > len(m.bytes) && len(m.bytes) > len(s.bytes)) {
				e.fail("C11-outfile-generator-blind", fmt.Sprintf("workspace %d, %s: sizes %d / %d / %d are not strictly descending", wi, encs[ei].ext+encs[ei].suffix, len(l.bytes), len(m.bytes), len(s.bytes)), nil, "")
			}
		}
		// histories: every encoding gets long-short (the plain case) in the first workspace and a
		// rotating selection of the other shapes; thorough: everything
		hi := 0
		for ei := 0; ei < nEnc; ei++ {
			for si, sh := range oShapes {
				if sh.neutral {
					continue
				}
				pick := run.Thorough() || (si == 0 && wi == 0) || (si+ei+wi*2+int(run.Seed))%5 == 0
				if !pick {
					continue
				}
				h := &oHistory{w: w, hi: hi, shape: sh, ei: ei, steps: sh.steps(long, mid, short)}
				hi++
				e.runHistory(h)
			}
		}
		for _, sh := range oShapes {
			if sh.neutral {
				h := &oHistory{w: w, hi: hi, shape: sh, ei: nEnc, steps: sh.steps(long, mid, short)}
				hi++
				e.runHistory(h)
			}
		}
		e.special(w, stdout, r.Fork(uint64(100+wi)))
	}
}

// special: the members of the family the model does not carry (oracle only).
func (e *oEnv) special(w *oWorkspace, stdout *lockedBuf, r *hx.Rand) {
	encs := oEncodings()
	nEnc := len(b3Encodings())
	dir := filepath.Join(e.root, fmt.Sprintf("s%d", w.wi))
	must0(os.RemoveAll(dir))
	must0(os.MkdirAll(dir, 0o755))
	const long, short = 0, 4
	replay := fmt.Sprintf("C11_PARTS=o1 build/c11 --out /tmp/c11-replay --seed %d --tier %s   # files under <out>/o/s%d, workspace <out>/o/ws%d", e.run.Seed, e.run.Tier, w.wi, w.wi)
	// read-only output file: an error, or the new content - never silence with the old content
	for k := 0; k < 3; k++ {
		ei := (w.wi*3 + k*5 + int(e.run.Seed)) % nEnc
		enc := encs[ei]
		path := filepath.Join(dir, "ro"+enc.ext)
		pl, ps := e.payload(w, long, ei), e.payload(w, short, ei)
		if pl.bytes == nil || ps.bytes == nil {
			continue
		}
		must0(os.WriteFile(path, pl.bytes, 0o444))
		err := safePutImage(e.ctl, path+enc.suffix, w.images[short])
		got := must(os.ReadFile(path))
		in := map[string]any{"file": path, "mode": "0444", "euid": os.Geteuid(), "error": fmt.Sprint(err)}
		switch {
		case err != nil && !bytes.Equal(got, pl.bytes):
			e.fail("C11-outfile-failed-write-changed-files", fmt.Sprintf("writing over the read-only file %s failed (%v) but its content changed (%d -> %d bytes)", path, err, len(pl.bytes), len(got)), in, replay)
		case err == nil && !bytes.Equal(got, ps.bytes):
			e.fail("C11-outfile-readonly-silent", fmt.Sprintf("writing over the read-only file %s reported success but the file holds %d bytes that are not the image written (%d bytes)", path, len(got), len(ps.bytes)), in, replay)
		case err == nil && os.Geteuid() != 0:
			e.fail("C11-outfile-readonly-silent", fmt.Sprintf("writing over the read-only file %s as uid %d reported success", path, os.Geteuid()), in, replay)
		}
		e.run.Count(fmt.Sprintf("O1:read-only:error=%v", err != nil))
		e.run.Eval()
		os.Chmod(path, 0o644)
	}
	// a missing parent directory: an error, nothing created
	{
		enc := encs[(w.wi+int(e.run.Seed))%nEnc]
		path := filepath.Join(dir, "no", "such", "dir", "x"+enc.ext)
		err := safePutImage(e.ctl, path+enc.suffix, w.images[short])
		if err == nil {
			e.fail("C11-outfile-error-expected", "writing an image below a missing directory returned no error: "+path, nil, replay)
		}
		if _, serr := os.Stat(filepath.Join(dir, "no")); serr == nil {
			e.fail("C11-outfile-failed-write-changed-files", "a write below a missing directory failed but created "+filepath.Join(dir, "no"), nil, replay)
		}
		e.run.Count("O1:missing-parent")
		e.run.Eval()
	}
	// FIFO: the bytes that arrive at the reader are the fresh bytes
	for k := 0; k < 2; k++ {
		ei := (w.wi*2 + k*7 + int(e.run.Seed)) % nEnc
		enc := encs[ei]
		ps := e.payload(w, short, ei)
		if ps.bytes == nil {
			continue
		}
		path := filepath.Join(dir, fmt.Sprintf("fifo%d%s", k, enc.ext))
		must0(syscall.Mkfifo(path, 0o644))
		rd := must(os.OpenFile(path, os.O_RDWR, 0)) // O_RDWR never blocks on a FIFO (Linux)
		done := make(chan error, 1)
		go func() { done <- safePutImage(e.ctl, path+enc.suffix, w.images[short]) }()
		var got bytes.Buffer
		buf := make([]byte, 65536)
		var perr error
		finished := false
		deadline := time.Now().Add(20 * time.Second)
		for time.Now().Before(deadline) {
			rd.SetReadDeadline(time.Now().Add(50 * time.Millisecond))
			n, _ := rd.Read(buf)
			got.Write(buf[:n])
			if finished && n == 0 {
				break
			}
			select {
			case perr = <-done:
				finished = true
			default:
			}
		}
		rd.Close()
		in := map[string]any{"fifo": path}
		switch {
		case !finished:
			e.fail("C11-outfile-fifo-hangs", "writing an image to a FIFO with a reader did not return within 20 s: "+path, in, replay)
		case perr != nil:
			e.fail("C11-outfile-write-error", fmt.Sprintf("writing an image to the FIFO %s: %v", path, perr), in, replay)
		case !bytes.Equal(got.Bytes(), ps.bytes):
			e.fail("C11-outfile-fifo-bytes-differ", fmt.Sprintf("the reader of the FIFO %s received %d bytes, a fresh path gets %d", path, got.Len(), len(ps.bytes)), in, replay)
		}
		e.run.Count("O1:fifo")
		e.run.Eval()
	}
	// stdout: `-o -#format=…`, twice in a row: each time exactly the fresh bytes
	for k := 0; k < 3; k++ {
		ei := (w.wi + k*4 + int(e.run.Seed)) % nEnc
		enc := encs[ei]
		pl, ps := e.payload(w, long, ei), e.payload(w, short, ei)
		if pl.bytes == nil || ps.bytes == nil {
			continue
		}
		ref := "-#format=" + enc.format
		if enc.comp != "" {
			ref += ",compression=" + map[string]string{".gz": "gzip", ".zst": "zstd"}[enc.comp]
		}
		stdout.Reset()
		err1 := safePutImage(e.ctl, ref, w.images[long])
		err2 := safePutImage(e.ctl, ref, w.images[short])
		got := []byte(stdout.String())
		stdout.Reset()
		want := append(append([]byte{}, pl.bytes...), ps.bytes...)
		if err1 != nil || err2 != nil {
			e.fail("C11-outfile-write-error", fmt.Sprintf("writing to stdout (%s): %v / %v", ref, err1, err2), nil, replay)
		} else if !bytes.Equal(got, want) {
			e.fail("C11-outfile-stdout-differs", fmt.Sprintf("two images written to stdout as %s give %d bytes; the same two writes to fresh paths give %d + %d bytes", ref, len(got), len(pl.bytes), len(ps.bytes)), nil, replay)
		}
		e.run.Count("O1:stdout")
		e.run.Eval()
	}
	// PutMessage (`buf convert --to`): a long message, then a short one, over the same path
	e.messages(w, dir, replay)
}

func (e *oEnv) messages(w *oWorkspace, dir, replay string) {
	schema := w.images[0]
	md, err := schema.Resolver().FindMessageByName("oc.Data")
	if err != nil {
		e.fail("C11-outfile-generator-blind", "message oc.Data not found in the workspace image: "+err.Error(), nil, "")
		return
	}
	mk := func(n int) proto.Message {
		m := dynamicpb.NewMessage(md.Descriptor())
		l := m.Mutable(md.Descriptor().Fields().ByName("items")).List()
		for i := 0; i < n; i++ {
			l.Append(protoreflect.ValueOfString(fmt.Sprintf("item number %d", i)))
		}
		m.Set(md.Descriptor().Fields().ByName("n"), protoreflect.ValueOfInt64(int64(n)))
		return m
	}
	long, short := mk(40), mk(2)
	for _, ext := range []string{".binpb", ".json", ".txtpb", ".yaml", ".json.gz", ".binpb.zst"} {
		fresh, reused := filepath.Join(dir, "msg_fresh"+ext), filepath.Join(dir, "msg"+ext)
		errs := []error{
			e.putMessage(schema, fresh, short),
			e.putMessage(schema, reused, long),
			e.putMessage(schema, reused, short),
		}
		e.run.Eval()
		e.run.Count("O1:message")
		if errs[0] != nil || errs[1] != nil || errs[2] != nil {
			e.fail("C11-outfile-write-error", fmt.Sprintf("PutMessage %s: %v", ext, errs), nil, replay)
			continue
		}
		a, b := must(os.ReadFile(fresh)), must(os.ReadFile(reused))
		if !bytes.Equal(a, b) {
			class := "C11-outfile-bytes-differ"
			if len(b) > len(a) && bytes.Equal(b[:len(a)], a) {
				class = "C11-outfile-stale-tail"
			}
			e.fail(class, fmt.Sprintf("a message written over a longer message file (%s, the path of `buf convert --to`) leaves %d bytes, a fresh path gets %d", reused, len(b), len(a)), map[string]any{"file": reused}, replay)
		}
		back, _, err := e.ctl.GetMessage(ctx, schema, reused, "oc.Data", buffetch.MessageEncodingBinpb)
		if err != nil {
			e.fail("C11-outfile-readback-error", fmt.Sprintf("the message written over a longer message file %s cannot be read back: %s", reused, firstLines(err.Error(), 2)), map[string]any{"file": reused}, replay)
		} else if !proto.Equal(back, short) {
			e.fail("C11-outfile-readback-differs", fmt.Sprintf("the message read back from %s is not the message written", reused), map[string]any{"file": reused}, replay)
		}
	}
}

func (e *oEnv) putMessage(schema bufimage.Image, path string, m proto.Message) (err error) {
	defer func() {
		if p := recover(); p != nil {
			err = fmt.Errorf("panic: %v", p)
		}
	}()
	return e.ctl.PutMessage(ctx, schema, path, m, buffetch.MessageEncodingBinpb)
}

// ---------------------------------------------------------------------------------------
// O2: the real binary

type oProc struct {
	dir   string
	args  []string
	stdin []byte
	res   result
}

func runProcs(b *bufRun, procs []*oProc) {
	sem := make(chan struct{}, 8)
	var wg sync.WaitGroup
	for _, p := range procs {
		wg.Add(1)
		go func(p *oProc) {
			defer wg.Done()
			sem <- struct{}{}
			defer func() { <-sem }()
			p.res = b.execRawStdin(p.dir, p.stdin, p.args...)
		}(p)
	}
	wg.Wait()
	b.count += len(procs)
	for range procs {
		b.run.Eval()
	}
}

func partO2(run *hx.Run, r *hx.Rand, b *bufRun) {
	if len(oWorkspaces) == 0 {
		return
	}
	e := &oEnv{run: run, count: map[string]int{}}
	encs := b3Encodings()
	nWS := run.N(1, 3)
	if nWS > len(oWorkspaces) {
		nWS = len(oWorkspaces)
	}
	for wi := 0; wi < nWS; wi++ {
		w := oWorkspaces[wi]
		out := filepath.Join(filepath.Dir(w.dir), fmt.Sprintf("bin%d", wi))
		must0(os.RemoveAll(out))
		must0(os.MkdirAll(out, 0o755))
		// warm the well-known-type cache once (parallel processes race on it otherwise)
		b.exec(w.dir, "build", "-o", filepath.Join(out, "warm.binpb"))
		long, short := oVariants[0], oVariants[4]
		type hist struct {
			name          string
			fresh, reused string
			suffix        string
			viaLink       bool
		}
		var hists []hist
		// stage 1: long outputs + fresh short outputs, stage 2: short over long, stage 3: read back
		var s1, s2, s3 []*oProc
		build := func(v oVariant, o string) *oProc {
			return &oProc{dir: w.dir, args: append(append([]string{"build"}, v.cli...), "-o", o)}
		}
		for ei, enc := range encs {
			if !run.Thorough() && wi > 0 && ei%3 != int(run.Seed)%3 {
				continue
			}
			h := hist{name: enc.ext, fresh: filepath.Join(out, "fresh"+enc.ext), reused: filepath.Join(out, "reused"+enc.ext)}
			target := h.reused
			if (ei+wi+int(run.Seed))%4 == 0 {
				// the output path is a symbolic link to the earlier, longer output
				target = filepath.Join(out, "target"+enc.ext)
				must0(os.Symlink(filepath.Base(target), h.reused))
				h.viaLink = true
			}
			s1 = append(s1, build(long, target), build(short, h.fresh))
			s2 = append(s2, build(short, h.reused))
			s3 = append(s3, &oProc{dir: w.dir, args: []string{"build", h.reused, "-o", "-#format=binpb"}}, &oProc{dir: w.dir, args: []string{"build", h.fresh, "-o", "-#format=binpb"}})
			hists = append(hists, h)
		}
		// neutral extension: yaml first, binpb over it
		{
			h := hist{name: ".data yaml->binpb", fresh: filepath.Join(out, "fresh.data"), reused: filepath.Join(out, "reused.data"), suffix: "#format=binpb"}
			s1 = append(s1, build(long, h.reused+"#format=yaml"), build(short, h.fresh+h.suffix))
			s2 = append(s2, build(short, h.reused+h.suffix))
			s3 = append(s3, &oProc{dir: w.dir, args: []string{"build", h.reused + h.suffix, "-o", "-#format=binpb"}}, &oProc{dir: w.dir, args: []string{"build", h.fresh + h.suffix, "-o", "-#format=binpb"}})
			hists = append(hists, h)
		}
		// buf alpha protoc -o
		{
			h := hist{name: "alpha protoc", fresh: filepath.Join(out, "protoc_fresh.binpb"), reused: filepath.Join(out, "protoc_reused.binpb")}
			s1 = append(s1, &oProc{dir: w.dir, args: []string{"alpha", "protoc", "-I", ".", "a/a.proto", "b/b.proto", "c/c.proto", "--include_source_info", "-o", h.reused}},
				&oProc{dir: w.dir, args: []string{"alpha", "protoc", "-I", ".", "a/a.proto", "-o", h.fresh}})
			s2 = append(s2, &oProc{dir: w.dir, args: []string{"alpha", "protoc", "-I", ".", "a/a.proto", "-o", h.reused}})
			s3 = append(s3, &oProc{dir: w.dir, args: []string{"build", h.reused, "-o", "-#format=binpb"}}, &oProc{dir: w.dir, args: []string{"build", h.fresh, "-o", "-#format=binpb"}})
			hists = append(hists, h)
		}
		// buf convert --to: a long message, then a short one
		longMsg, shortMsg := `{"items":["`+strings.Repeat("a long item ", 40)+`","b","c"],"n":"3"}`, `{"n":"1"}`
		must0(os.WriteFile(filepath.Join(out, "long.json"), []byte(longMsg), 0o644))
		must0(os.WriteFile(filepath.Join(out, "short.json"), []byte(shortMsg), 0o644))
		var convs []hist
		for _, ext := range []string{".binpb", ".json", ".txtpb", ".yaml", ".json.gz"} {
			h := hist{name: "convert " + ext, fresh: filepath.Join(out, "msg_fresh"+ext), reused: filepath.Join(out, "msg_reused"+ext)}
			conv := func(from, to string) *oProc {
				return &oProc{dir: w.dir, args: []string{"convert", ".", "--type", "oc.Data", "--from", filepath.Join(out, from), "--to", to}}
			}
			s1 = append(s1, conv("long.json", h.reused), conv("short.json", h.fresh))
			s2 = append(s2, conv("short.json", h.reused))
			s3 = append(s3, &oProc{dir: w.dir, args: []string{"convert", ".", "--type", "oc.Data", "--from", h.reused, "--to", "-#format=json"}},
				&oProc{dir: w.dir, args: []string{"convert", ".", "--type", "oc.Data", "--from", h.fresh, "--to", "-#format=json"}})
			convs = append(convs, h)
		}
		all := append(append([]hist{}, hists...), convs...)
		// a directory as output, stdout twice
		dirOut := filepath.Join(out, "isdir.binpb")
		must0(os.Mkdir(dirOut, 0o755))
		pDir := build(short, dirOut)
		pStd := build(short, "-#format=binpb")
		s2 = append(s2, pDir, pStd)
		runProcs(b, s1)
		for _, p := range s1 {
			if p.res.code != 0 {
				e.fail("binary-outfile-write-error", fmt.Sprintf("`buf %s` failed (%d): %s", strings.Join(p.args, " "), p.res.code, firstLines(p.res.stderr, 3)), nil, "cd "+w.dir+" && buf "+strings.Join(p.args, " "))
			}
		}
		runProcs(b, s2)
		runProcs(b, s3)
		for i, h := range all {
			write, backReused, backFresh := s2[i], s3[2*i], s3[2*i+1]
			cmd1, cmd2 := "buf "+strings.Join(s1[2*i].args, " "), "buf "+strings.Join(write.args, " ")
			replay := fmt.Sprintf("cd %s && %s && %s && buf %s | cmp - <(buf %s)   # files are left in place: %s vs %s", w.dir, cmd1, cmd2, strings.Join(backReused.args, " "), strings.Join(backFresh.args, " "), h.reused, h.fresh)
			in := map[string]any{"first": cmd1, "second": cmd2, "output": h.reused, "fresh": h.fresh, "through-symlink": h.viaLink}
			run.Count("O2:history=" + strings.SplitN(h.name, " ", 2)[0])
			if write.res.code != 0 {
				e.fail("binary-outfile-write-error", fmt.Sprintf("`%s` over an existing longer output failed (%d): %s", cmd2, write.res.code, firstLines(write.res.stderr, 3)), in, replay)
				continue
			}
			a, errA := os.ReadFile(h.fresh)
			g, errG := os.ReadFile(h.reused)
			if errA != nil || errG != nil {
				e.fail("binary-outfile-unreadable", fmt.Sprintf("%v / %v", errA, errG), in, replay)
				continue
			}
			if !bytes.Equal(a, g) {
				class, what := "binary-outfile-bytes-differ", fmt.Sprintf("`%s` after `%s`: the output holds %d bytes that differ from the %d bytes the same command writes to a fresh path", cmd2, cmd1, len(g), len(a))
				if len(g) > len(a) && bytes.Equal(g[:len(a)], a) {
					class = "binary-outfile-stale-tail"
					what = fmt.Sprintf("`%s` after `%s`: the output holds the %d bytes of the new output FOLLOWED BY %d bytes of the earlier, longer output", cmd2, cmd1, len(a), len(g)-len(a))
				}
				e.fail(class, what, in, replay)
			}
			if h.viaLink {
				if fi, err := os.Lstat(h.reused); err != nil || fi.Mode()&os.ModeSymlink == 0 {
					e.fail("binary-outfile-symlink-replaced", fmt.Sprintf("`%s`: the output path was a symbolic link and is not any more", cmd2), in, replay)
				}
			}
			// the property: reading the output back gives what reading the fresh output gives
			switch {
			case backFresh.res.code != 0:
				e.fail("binary-outfile-readback-error", fmt.Sprintf("the FRESH output cannot be read back: `buf %s` (%d): %s", strings.Join(backFresh.args, " "), backFresh.res.code, firstLines(backFresh.res.stderr, 3)), in, replay)
			case backReused.res.code != 0:
				e.fail("binary-outfile-readback-error", fmt.Sprintf("after `%s` and `%s` the output cannot be read back: `buf %s` exits %d: %s", cmd1, cmd2, strings.Join(backReused.args, " "), backReused.res.code, firstLines(backReused.res.stderr, 3)), in, replay)
			case backReused.res.stdout != backFresh.res.stdout:
				what := fmt.Sprintf("after `%s` and `%s` the output read back (`buf %s`) differs from the fresh output read back", cmd1, cmd2, strings.Join(backReused.args, " "))
				if _, fs1, err1 := imageFiles([]byte(backReused.res.stdout)); err1 == nil {
					if _, fs2, err2 := imageFiles([]byte(backFresh.res.stdout)); err2 == nil {
						what += fmt.Sprintf(": files %v vs %v", keysOf(fs1), keysOf(fs2))
					}
				}
				e.fail("binary-outfile-readback-differs", what, in, replay)
			}
		}
		if pDir.res.code == 0 {
			e.fail("binary-outfile-error-expected", "`buf build -o "+dirOut+"` (a directory) exits 0", nil, "cd "+w.dir+" && buf "+strings.Join(pDir.args, " "))
		}
		if fresh, err := os.ReadFile(filepath.Join(out, "fresh.binpb")); err == nil && pStd.res.stdout != string(fresh) {
			e.fail("binary-outfile-stdout-differs", fmt.Sprintf("`buf %s` prints %d bytes, the same build to a fresh file leaves %d", strings.Join(pStd.args, " "), len(pStd.res.stdout), len(fresh)), nil, "cd "+w.dir+" && buf "+strings.Join(pStd.args, " "))
		}
	}
}

func keysOf(fs fileSet) []string {
	var out []string
	for k := range fs {
		out = append(out, k)
	}
	sort.Strings(out)
	return out
}

var _ = io.Discard
