package main

// Part X: the EXTENSION BITS of every rebuilt image file.
//
// An image file carries, next to its path, import flag and dependency list: the descriptor,
// is_syntax_unspecified, the unused_dependency indexes, the module full name and the commit id.
// Every place of /repo that hands out a NEW ImageFile object (ImageFileWithIsImport <-
// addFileWithImports <- ImageWithOnlyPaths[AllowNotExist] <- ImageByDir / bufctl.filterImage;
// ImageWithoutImports; CloneImage / CloneImageFile; NewImageForProto <- every reader;
// bufimageutil.filterImageFile <- FilterImage <- `--type`) has to hand these on.
//
//   X1  synthetic images (arbitrary graphs as in A1; every file with random bits: no syntax, unused
//       indexes first / middle / last / several, 0-3 named modules with / without commit, distinct
//       descriptors) through ImageWithOnlyPaths[AllowNotExist], ImageWithoutImports, ImageByDir:
//       protocol lines `xflt` (the model's result carries all bits per file) + oracle; CloneImage
//       and ImageToProtoImage -> wire -> NewImageForProto: oracle.
//   X2  compiled workspaces (2-3 modules, named with commit / unnamed; every file proto3 / proto2 /
//       NO syntax statement; unused imports at index 0 / middle / last / several / all; messages,
//       enums, a service) built in-process.  For every "special" file (no syntax and/or unused
//       imports) a stratified set of selections so that it (i) stays a target, (ii) flips from
//       target to import, (iii) is dropped - by file path, by directory, by --exclude-path - plus
//       random selections: filtered image vs UNFILTERED image (all bits), vs the model (`xflt`
//       lines on the built image), and vs the SOURCES built with module-level targeting
//       (is_syntax_unspecified / module / commit / is_import; unused_dependency of a both-sides
//       import is the recorded finding of Part A2 and is not looked at here).  ImageWithoutImports,
//       ImageByDir, CloneImage, the type filter (include / exclude types; `tflt` lines), the proto
//       round trip, and the in-process controller (what `buf build IMAGE …` calls): GetImage of an
//       image file with --path / --exclude-path / --exclude-imports / --type, written and read back
//       as binpb / json / txtpb / yaml (+ gz / zst), --as-file-descriptor-set (no extension at all).
//   X3  the real binary: `buf build IMAGE --path/--exclude-path/--exclude-imports/--type -o OUT` on
//       the in-process image of X2 (names + commits), and `buf build <sources> --path …` vs
//       `buf build IMAGE --path …` on the same workspace written to disk.
//
// Oracle classes (at most 6 recorded per class, all counted): extbits-syntax-unspecified-lost,
// extbits-unused-deps-changed, extbits-unused-index-out-of-range, extbits-module-name-lost,
// extbits-commit-lost, extbits-is-import-wrong, extbits-descriptor-changed, extbits-foreign-file,
// extbits-file-set-wrong, extbits-source-image-changed, extbits-image-vs-sources-<bit>,
// extbits-fds-carries-extension, extbits-operation-failed, extbits-generator-blind.

import (
	"fmt"
	"hash/fnv"
	"os"
	"path/filepath"
	"sort"
	"strconv"
	"strings"
	"time"

	"github.com/bufbuild/buf/private/buf/bufctl"
	"github.com/bufbuild/buf/private/bufpkg/bufimage"
	"github.com/bufbuild/buf/private/bufpkg/bufimage/bufimageutil"
	"github.com/bufbuild/buf/private/bufpkg/bufparse"
	imagev1 "github.com/bufbuild/buf/private/gen/proto/go/buf/alpha/image/v1"
	"github.com/bufbuild/buf/private/pkg/uuidutil"
	"github.com/bufbuild/verifharness/internal/hx"
	"github.com/google/uuid"
	"google.golang.org/protobuf/proto"
	"google.golang.org/protobuf/types/descriptorpb"
)

// ---------------------------------------------------------------------------------------
// bits of one image file

type xbits struct {
	path    string
	imp, su bool
	unused  []int32
	mod     string // full name or ""
	commit  string // dashless or "" (uuid.Nil)
	payload uint64 // 60-bit hash of the descriptor without name and dependency list
	body    uint64 // … additionally without public / weak dependency lists and source info
	deps    []string
	public  bool
}

func hash60(b []byte) uint64 {
	h := fnv.New64a()
	h.Write(b)
	return h.Sum64() & (1<<60 - 1)
}

func payloadOf(fdp *descriptorpb.FileDescriptorProto) (payload, body uint64) {
	c := proto.Clone(fdp).(*descriptorpb.FileDescriptorProto)
	c.Name = nil
	c.Dependency = nil
	payload = hash60(must(proto.MarshalOptions{Deterministic: true}.Marshal(c)))
	c.PublicDependency = nil
	c.WeakDependency = nil
	c.SourceCodeInfo = nil
	body = hash60(must(proto.MarshalOptions{Deterministic: true}.Marshal(c)))
	return
}

func bitsOf(f bufimage.ImageFile) xbits {
	fdp := f.FileDescriptorProto()
	b := xbits{path: f.Path(), imp: f.IsImport(), su: f.IsSyntaxUnspecified(), deps: append([]string(nil), fdp.GetDependency()...),
		unused: append([]int32(nil), f.UnusedDependencyIndexes()...), public: len(fdp.GetPublicDependency()) > 0}
	if fn := f.FullName(); fn != nil {
		b.mod = fn.String()
	}
	if f.CommitID() != uuid.Nil {
		b.commit = uuidutil.ToDashless(f.CommitID())
	}
	b.payload, b.body = payloadOf(fdp)
	return b
}

func bitsOfImage(img bufimage.Image) []xbits {
	var out []xbits
	for _, f := range img.Files() {
		out = append(out, bitsOf(f))
	}
	return out
}

// bitsOfProto reads the bits off a serialised image file (what the binary wrote).
func bitsOfProto(pf *imagev1.ImageFile) (xbits, bool) {
	b := xbits{path: pf.GetName(), deps: append([]string(nil), pf.GetDependency()...), public: len(pf.GetPublicDependency()) > 0}
	has := pf.HasBufExtension()
	if e := pf.GetBufExtension(); e != nil {
		b.imp, b.su = e.GetIsImport(), e.GetIsSyntaxUnspecified()
		b.unused = append([]int32(nil), e.GetUnusedDependency()...)
		if mi := e.GetModuleInfo(); mi != nil {
			if n := mi.GetName(); n != nil {
				b.mod = n.GetRemote() + "/" + n.GetOwner() + "/" + n.GetRepository()
			}
			if c := mi.GetCommit(); c != "" && c != strings.Repeat("0", 32) {
				b.commit = c
			}
		}
	}
	// the descriptor = the image file message without field 8042
	fdp := &descriptorpb.FileDescriptorProto{}
	c := proto.Clone(pf).(*imagev1.ImageFile)
	c.ClearBufExtension()
	must0(proto.Unmarshal(must(proto.MarshalOptions{Deterministic: true}.Marshal(c)), fdp))
	b.payload, b.body = payloadOf(fdp)
	return b, has
}

func encMod(m string) string {
	if m == "" {
		return "~"
	}
	q := strings.SplitN(m, "/", 3)
	return hx.Enc(q[0]) + "/" + hx.Enc(q[1]) + "/" + hx.Enc(q[2])
}

func encOptHex(s string) string {
	if s == "" {
		return "~"
	}
	return hx.Enc(s)
}

// input form:  pathhex:I|N:deps:S|s:unused:mod:commit:payload
func encXIn(fs []xbits) string {
	if len(fs) == 0 {
		return "-"
	}
	parts := make([]string, len(fs))
	for i, f := range fs {
		parts[i] = strings.Join([]string{hx.Enc(f.path), flagIN(f.imp), encStrs(f.deps), flagSs(f.su), showNats(f.unused), encMod(f.mod), encOptHex(f.commit), strconv.FormatUint(f.payload, 10)}, ":")
	}
	return strings.Join(parts, ";")
}

func flagIN(imp bool) string {
	if imp {
		return "I"
	}
	return "N"
}

func flagSs(su bool) string {
	if su {
		return "S"
	}
	return "s"
}

// output form: pathhex:I|N:S|s:unused:mod:commit:payload:deps(.-separated); files separated by one space
func encXOut(fs []xbits) string {
	parts := make([]string, len(fs))
	for i, f := range fs {
		deps := "-"
		if len(f.deps) > 0 {
			d := make([]string, len(f.deps))
			for k, x := range f.deps {
				d[k] = hx.Enc(x)
			}
			deps = strings.Join(d, ".")
		}
		parts[i] = strings.Join([]string{hx.Enc(f.path), flagIN(f.imp), flagSs(f.su), showNats(f.unused), encMod(f.mod), encOptHex(f.commit), strconv.FormatUint(f.payload, 10), deps}, ":")
	}
	return strings.Join(parts, " ")
}

func showXImage(img bufimage.Image, err error) string {
	if err != nil {
		return errClass(err)
	}
	return "ok " + encXOut(bitsOfImage(img))
}

// ---------------------------------------------------------------------------------------
// oracle

type xOracle struct {
	run   *hx.Run
	count map[string]int
}

var xo *xOracle

// fail records at most 6 failures per class: 4 from the in-process legs and 2 from the real binary
// (their replay is a `buf` command line), so that a class that fires everywhere still comes with
// a witness against the binary.
func (o *xOracle) fail(class, what string, input any, replay string) {
	key, limit := class, 4
	if strings.HasPrefix(replay, "cd ") {
		key, limit = class+"\x00binary", 2
	}
	o.count[key]++
	if o.count[key] <= limit {
		o.run.Fail(hx.OracleFailure{Class: class, What: what, Input: input, Replay: replay})
	} else {
		o.run.Count("X:not-recorded:" + class)
	}
}

func (b xbits) String() string {
	return fmt.Sprintf("{%s import=%v syntax_unspecified=%v unused=%v module=%q commit=%q deps=%v}", b.path, b.imp, b.su, b.unused, b.mod, b.commit, b.deps)
}

func unusedPathSet(b xbits) (paths []string, outOfRange []int32) {
	for _, i := range b.unused {
		if i < 0 || int(i) >= len(b.deps) {
			outOfRange = append(outOfRange, i)
			continue
		}
		paths = append(paths, b.deps[i])
	}
	sort.Strings(paths)
	return
}

func increasing(xs []int32) bool {
	for i := 1; i < len(xs); i++ {
		if xs[i] <= xs[i-1] {
			return false
		}
	}
	return true
}

// checkBits: every file of `after` must be a file of `before` with the same bits.
//
//	sameDescriptor  the operation may not touch the descriptor (everything but the type filter)
//	wantImport      nil = unchanged; otherwise the independently computed flag per path
//	                (a path missing from the map is not judged)
func (o *xOracle) checkBits(op string, before, after []xbits, sameDescriptor bool, wantImport map[string]bool, input any, replay string) {
	src := map[string]xbits{}
	for _, b := range before {
		src[b.path] = b
	}
	seen := map[string]bool{}
	for _, h := range after {
		g, ok := src[h.path]
		if !ok {
			o.fail("extbits-foreign-file", fmt.Sprintf("%s: result file %s is not a file of the input image", op, h.path), input, replay)
			continue
		}
		if seen[h.path] {
			o.fail("extbits-file-set-wrong", fmt.Sprintf("%s: %s occurs twice in the result", op, h.path), input, replay)
		}
		seen[h.path] = true
		if h.su != g.su {
			o.fail("extbits-syntax-unspecified-lost", fmt.Sprintf("%s: %s had is_syntax_unspecified=%v in the input image and has %v in the result (is_import %v -> %v)", op, h.path, g.su, h.su, g.imp, h.imp), input, replay)
		}
		if h.mod != g.mod {
			o.fail("extbits-module-name-lost", fmt.Sprintf("%s: %s belonged to module %q in the input image and to %q in the result", op, h.path, g.mod, h.mod), input, replay)
		}
		if h.commit != g.commit {
			o.fail("extbits-commit-lost", fmt.Sprintf("%s: %s had commit %q in the input image and %q in the result", op, h.path, g.commit, h.commit), input, replay)
		}
		hp, oor := unusedPathSet(h)
		if len(oor) > 0 {
			o.fail("extbits-unused-index-out-of-range", fmt.Sprintf("%s: %s has unused_dependency %v but only %d dependencies %v", op, h.path, h.unused, len(h.deps), h.deps), input, replay)
		}
		if sameDescriptor {
			if h.payload != g.payload || strings.Join(h.deps, "\x00") != strings.Join(g.deps, "\x00") {
				o.fail("extbits-descriptor-changed", fmt.Sprintf("%s: the descriptor of %s changed (dependencies %v -> %v)", op, h.path, g.deps, h.deps), input, replay)
			}
			if fmt.Sprint(h.unused) != fmt.Sprint(g.unused) {
				o.fail("extbits-unused-deps-changed", fmt.Sprintf("%s: %s had unused_dependency %v in the input image and %v in the result (dependencies %v, is_import %v -> %v)", op, h.path, g.unused, h.unused, g.deps, g.imp, h.imp), input, replay)
			}
		} else {
			// dependencies may have been dropped / appended: the unused PATHS of the input file,
			// restricted to the dependencies still present, are the paths the new indexes name
			gp, _ := unusedPathSet(g)
			still := map[string]bool{}
			for _, d := range h.deps {
				still[d] = true
			}
			var want []string
			for _, p := range gp {
				if still[p] {
					want = append(want, p)
				}
			}
			if strings.Join(want, "\x00") != strings.Join(hp, "\x00") {
				o.fail("extbits-unused-deps-changed", fmt.Sprintf("%s: %s: unused dependencies were %v (indexes %v of %v); the result has dependencies %v and unused indexes %v = %v, expected %v", op, h.path, gp, g.unused, g.deps, h.deps, h.unused, hp, want), input, replay)
			}
			if increasing(g.unused) && !increasing(h.unused) {
				o.fail("extbits-unused-deps-changed", fmt.Sprintf("%s: %s: unused indexes %v are not strictly increasing (input %v)", op, h.path, h.unused, g.unused), input, replay)
			}
		}
		want := g.imp
		judged := true
		if wantImport != nil {
			want, judged = wantImport[h.path]
		}
		if judged && h.imp != want {
			o.fail("extbits-is-import-wrong", fmt.Sprintf("%s: %s has is_import=%v, expected %v (input image: %v)", op, h.path, h.imp, want, g.imp), input, replay)
		}
	}
}

// checkUnchanged: an operation must leave the image it was given as it was.
func (o *xOracle) checkUnchanged(op string, before []xbits, img bufimage.Image, input any, replay string) {
	now := bitsOfImage(img)
	if encXIn(before) != encXIn(now) || encXOut(before) != encXOut(now) {
		o.fail("extbits-source-image-changed", fmt.Sprintf("%s changed the image it was given: %s -> %s", op, encXOut(before), encXOut(now)), input, replay)
	}
}

// expectTargets: the files a selection makes non-imports (the harness' own reading of
// --path / --exclude-path, valid under the property's side condition): with paths, a file is a
// target iff some path equals / contains it and no exclude path does; without, iff it was a
// non-import and no exclude path equals / contains it.
func expectTargets(full []xbits, paths, excl []string) map[string]bool {
	out := map[string]bool{}
	for _, f := range full {
		ex := false
		for _, e := range excl {
			ex = ex || contains(e, f.path)
		}
		sel := !f.imp
		if len(paths) > 0 {
			sel = false
			for _, p := range paths {
				sel = sel || contains(p, f.path)
			}
		}
		out[f.path] = sel && !ex
	}
	return out
}

// expectClosure: targets + everything they reach through dependencies the image resolves.
func expectClosure(full []xbits, targets map[string]bool) map[string]bool {
	by := map[string]xbits{}
	for _, f := range full {
		by[f.path] = f
	}
	out := map[string]bool{}
	var walk func(p string)
	walk = func(p string) {
		f, ok := by[p]
		if !ok || out[p] {
			return
		}
		out[p] = true
		for _, d := range f.deps {
			walk(d)
		}
	}
	for _, f := range full {
		if targets[f.path] {
			walk(f.path)
		}
	}
	return out
}

func importMap(targets map[string]bool) map[string]bool {
	out := map[string]bool{}
	for p, t := range targets {
		out[p] = !t
	}
	return out
}

func (o *xOracle) checkFileSet(op string, after []xbits, want map[string]bool, input any, replay string) {
	got := map[string]bool{}
	for _, h := range after {
		got[h.path] = true
	}
	var missing, extra []string
	for p, w := range want {
		if w && !got[p] {
			missing = append(missing, p)
		}
	}
	for p := range got {
		if !want[p] {
			extra = append(extra, p)
		}
	}
	if len(missing)+len(extra) > 0 {
		sort.Strings(missing)
		sort.Strings(extra)
		o.fail("extbits-file-set-wrong", fmt.Sprintf("%s: missing %v, unexpected %v", op, missing, extra), input, replay)
	}
}

// ---------------------------------------------------------------------------------------
// X1: synthetic images

type xsFile struct {
	mfile
	su     bool
	unused []int32
	mod    int // -1 = no module
	salt   int
}

var xModNames = []string{"buf.build/acme/alpha", "buf.build/acme/beta", "bsr.example.com/o-1/pet_store"}

func xModCommit(mod int, withCommit []bool) uuid.UUID {
	if mod < 0 || !withCommit[mod] {
		return uuid.Nil
	}
	return uuid.NewSHA1(uuid.NameSpaceURL, []byte(xModNames[mod]))
}

// unusedPattern picks indexes out of n dependencies: none / first / last / middle / several / all.
func unusedPattern(r *hx.Rand, n int) (idx []int32, name string) {
	if n == 0 {
		return nil, "none"
	}
	switch r.Intn(7) {
	case 0, 1:
		return nil, "none"
	case 2:
		return []int32{0}, "first"
	case 3:
		return []int32{int32(n - 1)}, "last"
	case 4:
		if n >= 3 {
			return []int32{int32(1 + r.Intn(n-2))}, "middle"
		}
		return []int32{0}, "first"
	case 5:
		for i := 0; i < n; i++ {
			if r.Bool() {
				idx = append(idx, int32(i))
			}
		}
		if len(idx) < 2 {
			idx = nil
			for i := 0; i < n && i < 2; i++ {
				idx = append(idx, int32(i))
			}
		}
		return idx, "several"
	}
	for i := 0; i < n; i++ {
		idx = append(idx, int32(i))
	}
	return idx, "all"
}

func genXSynthetic(r *hx.Rand) ([]xsFile, []bool) {
	base := genSynthetic(r)
	withCommit := []bool{r.Bool(), r.Bool(), r.Bool()}
	out := make([]xsFile, len(base))
	for i, f := range base {
		x := xsFile{mfile: f, su: r.Chance(2, 5), mod: r.Intn(4) - 1, salt: i}
		x.unused, _ = unusedPattern(r, len(f.deps))
		out[i] = x
	}
	return out, withCommit
}

func buildXSynthetic(files []xsFile, withCommit []bool) (bufimage.Image, error) {
	var ifs []bufimage.ImageFile
	for _, f := range files {
		fdp := &descriptorpb.FileDescriptorProto{Name: proto.String(f.path), Dependency: f.deps,
			MessageType: []*descriptorpb.DescriptorProto{{Name: proto.String(fmt.Sprintf("M%d", f.salt))}}}
		if !f.su {
			fdp.Syntax = proto.String("proto3")
		}
		var fn bufparse.FullName
		if f.mod >= 0 {
			fn = must(bufparse.ParseFullName(xModNames[f.mod]))
		}
		imf, err := bufimage.NewImageFile(fdp, fn, xModCommit(f.mod, withCommit), "", "", f.isImport, f.su, f.unused)
		if err != nil {
			return nil, err
		}
		ifs = append(ifs, imf)
	}
	return bufimage.NewImage(ifs)
}

func xReplay(run *hx.Run, line string) string { return replayCmd(run, line) }

// runXflt evaluates one `xflt` line on an image (the line's `files` field describes it) and
// applies the oracle; used by X1, X2 and replay.
func runXflt(run *hx.Run, img bufimage.Image, op string, paths, excl []string, line string) (out string) {
	defer func() {
		if p := recover(); p != nil {
			out = "panic"
			xo.fail("C11-panic-extbits", fmt.Sprint(p), line, xReplay(run, line))
		}
	}()
	before := bitsOfImage(img)
	switch op {
	case "iwop0", "iwop1":
		var res bufimage.Image
		var err error
		if op == "iwop1" {
			res, err = bufimage.ImageWithOnlyPathsAllowNotExist(img, paths, excl)
		} else {
			res, err = bufimage.ImageWithOnlyPaths(img, paths, excl)
		}
		if err == nil {
			after := bitsOfImage(res)
			var want map[string]bool
			if sideCondition(paths, excl) && len(paths)+len(excl) > 0 {
				t := expectTargets(before, paths, excl)
				want = importMap(t)
				xo.checkFileSet(op, after, expectClosure(before, t), line, xReplay(run, line))
				run.Count("X:is-import-judged")
			} else {
				want = map[string]bool{} // nothing judged
			}
			xo.checkBits(op, before, after, true, want, line, xReplay(run, line))
		}
		xo.checkUnchanged(op, before, img, line, xReplay(run, line))
		return showXImage(res, err)
	case "noimp":
		res := bufimage.ImageWithoutImports(img)
		after := bitsOfImage(res)
		want := map[string]bool{}
		for _, b := range before {
			want[b.path] = !b.imp
		}
		xo.checkFileSet(op, after, want, line, xReplay(run, line))
		xo.checkBits(op, before, after, true, nil, line, xReplay(run, line))
		xo.checkUnchanged(op, before, img, line, xReplay(run, line))
		return "ok " + encXOut(after)
	case "bydir":
		imgs, err := bufimage.ImageByDir(img)
		if err != nil {
			return errClass(err)
		}
		var parts []string
		dirs := map[string]bool{}
		for _, res := range imgs {
			after := bitsOfImage(res)
			// the non-imports of one image all live in one directory, and are all of that directory
			dir := ""
			for _, h := range after {
				if !h.imp {
					dir = filepath.ToSlash(filepath.Dir(h.path))
				}
			}
			if dirs[dir] {
				xo.fail("extbits-file-set-wrong", "bydir: two images for directory "+dir, line, xReplay(run, line))
			}
			dirs[dir] = true
			t := map[string]bool{}
			for _, b := range before {
				t[b.path] = !b.imp && filepath.ToSlash(filepath.Dir(b.path)) == dir
			}
			xo.checkFileSet("bydir["+dir+"]", after, expectClosure(before, t), line, xReplay(run, line))
			xo.checkBits("bydir["+dir+"]", before, after, true, importMap(t), line, xReplay(run, line))
			parts = append(parts, encXOut(after))
		}
		for _, b := range before {
			if !b.imp && !dirs[filepath.ToSlash(filepath.Dir(b.path))] {
				xo.fail("extbits-file-set-wrong", "bydir: no image for the directory of "+b.path, line, xReplay(run, line))
			}
		}
		xo.checkUnchanged(op, before, img, line, xReplay(run, line))
		return "ok " + strings.Join(parts, "|")
	}
	return "bad-op"
}

// oracleOnlyOps: CloneImage and the proto round trip (no model line: identity).
func xIdentityOps(run *hx.Run, img bufimage.Image, tag string, input any, replay string) {
	defer func() {
		if p := recover(); p != nil {
			xo.fail("C11-panic-extbits", fmt.Sprint(p), input, replay)
		}
	}()
	before := bitsOfImage(img)
	if c, err := bufimage.CloneImage(img); err != nil {
		xo.fail("extbits-operation-failed", tag+": CloneImage: "+err.Error(), input, replay)
	} else {
		xo.checkFileSet(tag+": CloneImage", bitsOfImage(c), allPaths(before), input, replay)
		xo.checkBits(tag+": CloneImage", before, bitsOfImage(c), true, nil, input, replay)
		for i, f := range c.Files() {
			if f.FileDescriptorProto() == img.Files()[i].FileDescriptorProto() {
				xo.fail("extbits-descriptor-changed", tag+": CloneImage shares the descriptor of "+f.Path(), input, replay)
			}
		}
	}
	run.Eval()
	pi, err := bufimage.ImageToProtoImage(img)
	if err != nil {
		xo.fail("extbits-operation-failed", tag+": ImageToProtoImage: "+err.Error(), input, replay)
		return
	}
	// what is on the wire
	var wire []xbits
	for _, pf := range pi.GetFile() {
		b, has := bitsOfProto(pf)
		if !has {
			xo.fail("extbits-operation-failed", tag+": ImageToProtoImage wrote no buf extension for "+pf.GetName(), input, replay)
		}
		wire = append(wire, b)
	}
	xo.checkFileSet(tag+": ImageToProtoImage", wire, allPaths(before), input, replay)
	xo.checkBits(tag+": ImageToProtoImage", before, wire, true, nil, input, replay)
	data := must(proto.Marshal(pi))
	pi2 := &imagev1.Image{}
	must0(proto.Unmarshal(data, pi2))
	back, err := bufimage.NewImageForProto(pi2)
	if err != nil {
		xo.fail("extbits-operation-failed", tag+": NewImageForProto: "+err.Error(), input, replay)
		return
	}
	xo.checkFileSet(tag+": NewImageForProto", bitsOfImage(back), allPaths(before), input, replay)
	xo.checkBits(tag+": NewImageForProto(ImageToProtoImage)", before, bitsOfImage(back), true, nil, input, replay)
	xo.checkUnchanged(tag+": CloneImage / ImageToProtoImage", before, img, input, replay)
	run.Eval()
}

func allPaths(bs []xbits) map[string]bool {
	out := map[string]bool{}
	for _, b := range bs {
		out[b.path] = true
	}
	return out
}

func xfltLine(op string, files []xbits, paths, excl []string) string {
	return "xflt\t" + op + "\t" + encXIn(files) + "\t" + encStrs(paths) + "\t" + encStrs(excl)
}

func partX1(run *hx.Run, r *hx.Rand) {
	n := run.N(2500, 25000)
	for i := 0; i < n; i++ {
		cr := r.Fork(uint64(i))
		files, wc := genXSynthetic(cr)
		img, err := buildXSynthetic(files, wc)
		if err != nil {
			run.Count("X1:input-rejected")
			continue
		}
		bits := bitsOfImage(img)
		var fps []string
		for _, f := range files {
			fps = append(fps, f.path)
		}
		op := hx.Pick(cr, []string{"iwop1", "iwop1", "iwop1", "iwop0", "iwop0", "noimp", "bydir"})
		var paths, excl []string
		if strings.HasPrefix(op, "iwop") {
			paths, excl = pickPaths(cr, candidatePaths(fps), i%4 == 3)
		}
		line := xfltLine(op, bits, paths, excl)
		out := runXflt(run, img, op, paths, excl, line)
		// non-trivial: a result in which some file with a set bit changed its flag or survived as import
		nontrivial := false
		if strings.HasPrefix(out, "ok ") {
			for _, b := range bits {
				if b.su || len(b.unused) > 0 || b.mod != "" {
					nontrivial = true
				}
			}
		}
		run.Case(line, out, nontrivial)
		run.Count("X1:op=" + op)
		if strings.HasPrefix(out, "ok ") {
			run.Count("X1:result=ok")
			xCountFlips(run, "X1", bits, out)
		} else {
			run.Count("X1:result=" + strings.SplitN(out, ":", 3)[1])
		}
		if i%5 == 0 {
			xIdentityOps(run, img, "X1", line, xReplay(run, line))
		}
	}
}

// xCountFlips counts, for the evidence, what happened to files with a set bit.
func xCountFlips(run *hx.Run, part string, before []xbits, out string) {
	src := map[string]xbits{}
	for _, b := range before {
		src[b.path] = b
	}
	for _, img := range strings.Split(strings.TrimPrefix(out, "ok "), "|") {
		if img == "" {
			continue
		}
		for _, f := range strings.Fields(img) {
			q := strings.Split(f, ":")
			g := src[hx.Dec(q[0])]
			kind := ""
			if g.su {
				kind += "+nosyntax"
			}
			if len(g.unused) > 0 {
				kind += "+unused"
			}
			if g.commit != "" {
				kind += "+commit"
			}
			if kind == "" {
				continue
			}
			switch {
			case !g.imp && q[1] == "I":
				xcount(run, part+":flip-target-to-import"+kind)
			case g.imp && q[1] == "N":
				xcount(run, part+":flip-import-to-target"+kind)
			case q[1] == "N":
				xcount(run, part+":stays-target"+kind)
			default:
				xcount(run, part+":stays-import"+kind)
			}
		}
	}
}

// ---------------------------------------------------------------------------------------
// X2: compiled workspaces

type xImp struct {
	path string
	used bool
}

type xSrc struct {
	path, pkg, syntax string
	imports           []xImp
	pattern           string
	options           bool
}

type xWS struct {
	mods  []module
	files []xSrc // all files, generation order (a file imports only earlier ones)
}

var xDirs = []string{"a", "a/b", "ab", "c/d", "x", "a"}

// genXWS: 6-9 files over 2-3 modules; every file has message M (fields of the USED imports'
// M), message N (referenced by nobody), enum E, and every third a service; the last file
// t/agg.proto imports (and uses) several files so that most files have an importer outside their
// directory; l/leaf.proto imports nothing and nobody imports it.
func genXWS(r *hx.Rand, wi int) xWS {
	nm := 2 + r.Intn(2)
	ws := xWS{}
	for m := 0; m < nm; m++ {
		name := fmt.Sprintf("buf.build/acme/x%d", m)
		if m == nm-1 && r.Chance(1, 3) {
			name = "" // an unnamed module: no module info at all
		}
		ws.mods = append(ws.mods, module{name: name, target: true})
	}
	nf := 5 + r.Intn(4)
	synPlan := []string{"", "proto3", "", "proto2", "proto3", "", "proto2", ""}
	for i := 0; i < nf; i++ {
		d := xDirs[(i+wi)%len(xDirs)]
		if r.Chance(1, 4) {
			d = hx.Pick(r, xDirs)
		}
		f := xSrc{path: joinDir(d, fmt.Sprintf("f%d.proto", i)), pkg: fmt.Sprintf("xp.f%d", i), syntax: synPlan[(i+wi)%len(synPlan)]}
		if r.Chance(1, 5) {
			f.syntax = hx.Pick(r, []string{"", "proto3", "proto2"})
		}
		// imports of earlier files
		k := 0
		if i > 0 {
			k = r.Intn(min(i, 4) + 1)
		}
		perm := make([]int, i)
		for q := range perm {
			perm[q] = q
		}
		hx.Shuffle(r, perm)
		for _, q := range perm[:k] {
			f.imports = append(f.imports, xImp{path: ws.files[q].path, used: true})
		}
		idx, pat := unusedPattern(r, len(f.imports))
		f.pattern = pat
		for _, u := range idx {
			f.imports[u].used = false
		}
		if i == 1 && wi%3 == 0 {
			// custom options, one of them with source retention (StripSourceRetentionOptions rebuilds
			// this file); descriptor.proto becomes an import of the image that belongs to no module
			f.imports = append(f.imports, xImp{path: "google/protobuf/descriptor.proto", used: true})
			f.options = true
		}
		ws.files = append(ws.files, f)
	}
	agg := xSrc{path: "t/agg.proto", pkg: "xp.agg", syntax: "proto3", pattern: "none"}
	perm := make([]int, nf)
	for q := range perm {
		perm[q] = q
	}
	hx.Shuffle(r, perm)
	for _, q := range perm[:min(nf, 3+r.Intn(2))] {
		agg.imports = append(agg.imports, xImp{path: ws.files[q].path, used: true})
	}
	ws.files = append(ws.files, agg, xSrc{path: "l/leaf.proto", pkg: "xp.leaf", syntax: hx.Pick(r, []string{"", "proto3"}), pattern: "none"})
	for i, f := range ws.files {
		mi := i % nm
		ws.mods[mi].files = append(ws.mods[mi].files, srcFile{path: f.path, imports: impPaths(f.imports), body: f.source(ws, i)})
	}
	return ws
}

func impPaths(is []xImp) []string {
	var out []string
	for _, i := range is {
		out = append(out, i.path)
	}
	return out
}

func (ws xWS) pkgOf(path string) string {
	for _, f := range ws.files {
		if f.path == path {
			return f.pkg
		}
	}
	return ""
}

func (f xSrc) source(ws xWS, i int) string {
	var sb strings.Builder
	if f.syntax != "" {
		sb.WriteString("syntax = \"" + f.syntax + "\";\n")
	}
	sb.WriteString("package " + f.pkg + ";\n")
	for _, im := range f.imports {
		sb.WriteString("import \"" + im.path + "\";\n")
	}
	opt := ""
	if f.syntax != "proto3" {
		opt = "optional "
	}
	if f.options {
		sb.WriteString("extend google.protobuf.MessageOptions {\n  optional string src_note = 50001 [retention = RETENTION_SOURCE];\n  optional string rt_note = 50002;\n}\n")
	}
	sb.WriteString("message M {\n")
	if f.options {
		sb.WriteString("  option (src_note) = \"only in sources\";\n  option (rt_note) = \"kept\";\n")
	}
	sb.WriteString("  " + opt + "string id = 1;\n  " + opt + "E e = 2;\n")
	n := 3
	for _, im := range f.imports {
		if im.used && !strings.HasPrefix(im.path, "google/protobuf/") {
			sb.WriteString(fmt.Sprintf("  %s.%s.M r%d = %d;\n", opt, ws.pkgOf(im.path), n, n))
			n++
		}
	}
	sb.WriteString("  message Inner { " + opt + "int32 v = 1; }\n  " + opt + "Inner inner = 100;\n}\n")
	sb.WriteString("message N { " + opt + "int64 n = 1; }\n")
	sb.WriteString("enum E { E_UNSPECIFIED = 0; E_ONE = 1; }\n")
	if i%3 == 0 {
		sb.WriteString("service S { rpc Get(M) returns (N); }\n")
	}
	return sb.String()
}

// special: files whose bits are not all default.
func xSpecial(b xbits) string {
	k := ""
	if b.su {
		k += "nosyntax"
	}
	if len(b.unused) > 0 {
		if k != "" {
			k += "+"
		}
		k += "unused"
	}
	return k
}

type xSel struct {
	stratum     string
	paths, excl []string
}

// reach[p] = the set of files p reaches (including itself).
func xReach(bits []xbits) map[string]map[string]bool {
	by := map[string]xbits{}
	for _, b := range bits {
		by[b.path] = b
	}
	out := map[string]map[string]bool{}
	var walk func(p string, acc map[string]bool)
	walk = func(p string, acc map[string]bool) {
		if acc[p] {
			return
		}
		if _, ok := by[p]; !ok {
			return
		}
		acc[p] = true
		for _, d := range by[p].deps {
			walk(d, acc)
		}
	}
	for _, b := range bits {
		acc := map[string]bool{}
		walk(b.path, acc)
		out[b.path] = acc
	}
	return out
}

func dirOf(p string) string { return filepath.ToSlash(filepath.Dir(p)) }

// xSelections: for every special file the selections that keep / flip / drop it.
func xSelections(r *hx.Rand, full []xbits, cands []string) []xSel {
	reach := xReach(full)
	var own []xbits // files of the workspace (targets of the full build)
	for _, b := range full {
		if !b.imp {
			own = append(own, b)
		}
	}
	var out []xSel
	for _, s := range own {
		kind := xSpecial(s)
		if kind == "" {
			continue
		}
		out = append(out, xSel{kind + "/stay/file", []string{s.path}, nil})
		out = append(out, xSel{kind + "/stay/dir", []string{dirOf(s.path)}, nil})
		var importers, strangers []xbits
		for _, q := range own {
			if q.path == s.path {
				continue
			}
			if reach[q.path][s.path] {
				importers = append(importers, q)
			} else if !reach[s.path][q.path] {
				strangers = append(strangers, q)
			}
		}
		if len(importers) > 0 {
			q := hx.Pick(r, importers)
			out = append(out, xSel{kind + "/flip/file", []string{q.path}, nil})
			for _, q := range importers {
				if !contains(dirOf(q.path), s.path) {
					out = append(out, xSel{kind + "/flip/dir", []string{dirOf(q.path)}, nil})
					break
				}
			}
			out = append(out, xSel{kind + "/flip/exclude-file", nil, []string{s.path}})
			outside := false
			for _, q := range importers {
				outside = outside || !contains(dirOf(s.path), q.path)
			}
			if outside {
				out = append(out, xSel{kind + "/flip/exclude-dir", nil, []string{dirOf(s.path)}})
				q := importers[0]
				for _, c := range importers {
					if !contains(dirOf(s.path), c.path) {
						q = c
					}
				}
				out = append(out, xSel{kind + "/flip/path+exclude", []string{dirOf(q.path)}, []string{s.path}})
			}
		} else {
			out = append(out, xSel{kind + "/drop/exclude-file", nil, []string{s.path}})
		}
		if len(strangers) > 0 {
			q := hx.Pick(r, strangers)
			out = append(out, xSel{kind + "/drop/file", []string{q.path}, nil})
		}
	}
	for k := 0; k < 3; k++ {
		p, e := pickPaths(r, cands, false)
		if len(p)+len(e) == 0 {
			continue
		}
		out = append(out, xSel{"random", p, e})
	}
	// keep what the statement covers: side condition, no selection of a well-known-type import
	var keep []xSel
	for _, s := range out {
		ok := sideCondition(s.paths, s.excl)
		for _, p := range s.paths {
			ok = ok && p != "."
			for _, b := range full {
				if b.imp && contains(p, b.path) {
					ok = false
				}
			}
		}
		if ok {
			keep = append(keep, s)
		}
	}
	return keep
}

func (ws xWS) asWorkspace() workspace { return workspace{mods: ws.mods} }

type xEnv struct {
	run  *hx.Run
	ctl  bufctl.Controller
	root string
	vsN  map[string]int
}

func (e *xEnv) workspace(r *hx.Rand, wi int) (xWS, bufimage.Image, bool) {
	run := e.run
	var ws xWS
	var full bufimage.Image
	var err error
	for try := 0; ; try++ {
		ws = genXWS(r.Fork(uint64(1000+try)), wi)
		full, err = buildWS(ws.asWorkspace(), nil, nil, false)
		if err == nil {
			break
		}
		if try > 3 {
			xo.fail("extbits-generator-blind", "generated workspace does not build: "+firstLines(err.Error(), 3), nil, "")
			return ws, nil, false
		}
	}
	fb := bitsOfImage(full)
	in := func(sel xSel) map[string]any {
		return map[string]any{"workspace": fmt.Sprintf("X2 workspace %d (sources in <out>/x/ws%d)", wi, wi), "stratum": sel.stratum, "paths": sel.paths, "exclude": sel.excl}
	}
	// generator bookkeeping vs the compiler: no-syntax files and unused imports are where planned
	for _, f := range ws.files {
		var b *xbits
		for i := range fb {
			if fb[i].path == f.path {
				b = &fb[i]
			}
		}
		if b == nil {
			xo.fail("extbits-generator-blind", "file "+f.path+" is missing from the full build", nil, "")
			continue
		}
		var planned []int32
		for i, im := range f.imports {
			if !im.used {
				planned = append(planned, int32(i))
			}
		}
		if b.su != (f.syntax == "") || fmt.Sprint(planned) != fmt.Sprint(b.unused) {
			xo.fail("extbits-generator-blind", fmt.Sprintf("%s: planned no-syntax=%v unused=%v, the full build says %v %v", f.path, f.syntax == "", planned, b.su, b.unused), nil, "")
		}
		xcount(run, "X2:file-syntax="+map[string]string{"": "none", "proto2": "proto2", "proto3": "proto3"}[f.syntax])
		xcount(run, "X2:file-unused-pattern="+f.pattern)
		if b.su && len(b.unused) > 0 {
			xcount(run, "X2:file-nosyntax-and-unused")
		}
	}
	dir := filepath.Join(e.root, fmt.Sprintf("ws%d", wi))
	must0(os.RemoveAll(dir))
	writeXWS(dir, ws)
	var fps []string
	for _, f := range ws.files {
		fps = append(fps, f.path)
	}
	cands := candidatePaths(fps)
	cands = cands[:len(cands)-4]
	sels := xSelections(r, fb, cands)
	for si, sel := range sels {
		op := "iwop1"
		if si%3 == 2 {
			op = "iwop0" // every path of a stratified selection exists
		}
		line := xfltLine(op, fb, sel.paths, sel.excl)
		out := runXflt(run, full, op, sel.paths, sel.excl, line)
		run.Case(line, out, strings.HasPrefix(out, "ok "))
		xcount(run, "X2:stratum="+sel.stratum)
		if strings.HasPrefix(out, "ok ") {
			xCountFlips(run, "X2", fb, out)
		}
		// image-level vs module-level targeting: the bits that do not depend on being a target
		// (one build per selection, ~10 ms: every file-level flip and every random selection, every
		// 2nd other flip, every 4th - thorough 2nd - stay / drop selection)
		what := sel.stratum
		if q := strings.SplitN(what, "/", 2); len(q) == 2 {
			what = q[1]
		}
		every := 4
		switch what {
		case "flip/file", "flip/exclude-file", "random":
			every = 1
		case "flip/dir", "flip/exclude-dir", "flip/path+exclude":
			every = 2
		}
		if run.Thorough() && every > 2 {
			every = 2
		}
		e.vsN[what]++
		if e.vsN[what]%every == 0 {
			t0 := time.Now()
			e.vsSources(ws, full, fb, sel, in(sel), xReplay(run, line))
			xT["vsSources"] += time.Since(t0)
			xcount(run, "X2:vs-sources="+what)
		}
	}
	// the other rebuilders, on the full image and on a filtered one (which has imports)
	images := []struct {
		tag string
		img bufimage.Image
	}{{"full", full}}
	if len(sels) > 0 {
		s := sels[r.Intn(len(sels))]
		if fi, err := bufimage.ImageWithOnlyPathsAllowNotExist(full, s.paths, s.excl); err == nil {
			images = append(images, struct {
				tag string
				img bufimage.Image
			}{fmt.Sprintf("--path %v --exclude-path %v", s.paths, s.excl), fi})
		}
	}
	for _, im := range images {
		b := bitsOfImage(im.img)
		for _, op := range []string{"noimp", "bydir"} {
			line := xfltLine(op, b, nil, nil)
			out := runXflt(run, im.img, op, nil, nil, line)
			run.Case(line, out, true)
			xcount(run, "X2:op="+op)
		}
		xIdentityOps(run, im.img, "X2 "+im.tag, map[string]any{"workspace": dir, "image": im.tag}, xReplay(run, xfltLine("noimp", b, nil, nil)))
		e.stripRetention(im.img, im.tag, dir)
		t0 := time.Now()
		e.typeFilters(r, ws, im.img, im.tag, dir)
		xT["typeFilters"] += time.Since(t0)
	}
	t0 := time.Now()
	e.controller(r, wi, ws, full, fb, sels, dir)
	xT["controller"] += time.Since(t0)
	return ws, full, true
}

func writeXWS(dir string, ws xWS) {
	var yaml strings.Builder
	yaml.WriteString("version: v2\nmodules:\n")
	for mi, m := range ws.mods {
		md := fmt.Sprintf("m%d", mi)
		yaml.WriteString("  - path: " + md + "\n")
		if m.name != "" {
			yaml.WriteString("    name: " + m.name + "\n")
		}
		for _, f := range m.files {
			full := filepath.Join(dir, md, f.path)
			must0(os.MkdirAll(filepath.Dir(full), 0o755))
			must0(os.WriteFile(full, []byte(f.body), 0o644))
		}
	}
	must0(os.WriteFile(filepath.Join(dir, "buf.yaml"), []byte(yaml.String()), 0o644))
}

// vsSources: the image filtered by a selection vs the sources built with that selection.
func (e *xEnv) vsSources(ws xWS, full bufimage.Image, fb []xbits, sel xSel, input any, replay string) {
	img, ierr := bufimage.ImageWithOnlyPathsAllowNotExist(full, sel.paths, sel.excl)
	mimg, merr := buildWS(ws.asWorkspace(), sel.paths, sel.excl, true)
	e.run.Eval()
	if ierr != nil || merr != nil {
		if ierr != nil && merr != nil && errClass(ierr) == "err:no-files" && errClass(merr) == "err:no-targets" {
			return
		}
		xo.fail("extbits-image-vs-sources-error", fmt.Sprintf("%s: image-level: %v; module-level: %v", sel.stratum, ierr, merr), input, replay)
		return
	}
	a, b := bitsOfImage(img), bitsOfImage(mimg)
	bm := map[string]xbits{}
	for _, x := range b {
		bm[x.path] = x
	}
	if len(a) != len(b) {
		xo.fail("extbits-image-vs-sources-files", fmt.Sprintf("%s: filtering the image gives %d files, building the targeted sources %d", sel.stratum, len(a), len(b)), input, replay)
	}
	for _, x := range a {
		y, ok := bm[x.path]
		if !ok {
			xo.fail("extbits-image-vs-sources-files", fmt.Sprintf("%s: %s is in the filtered image but not in the image built from the targeted sources", sel.stratum, x.path), input, replay)
			continue
		}
		pre := fmt.Sprintf("%s: %s: filtering the image (--path %v --exclude-path %v) gives ", sel.stratum, x.path, sel.paths, sel.excl)
		if x.su != y.su {
			xo.fail("extbits-image-vs-sources-syntax-unspecified", pre+fmt.Sprintf("is_syntax_unspecified=%v, building the sources with the same selection gives %v (is_import %v)", x.su, y.su, x.imp), input, replay)
		}
		if x.mod != y.mod {
			xo.fail("extbits-image-vs-sources-module-name", pre+fmt.Sprintf("module %q, the sources %q", x.mod, y.mod), input, replay)
		}
		if x.commit != y.commit {
			xo.fail("extbits-image-vs-sources-commit", pre+fmt.Sprintf("commit %q, the sources %q", x.commit, y.commit), input, replay)
		}
		if x.imp != y.imp {
			xo.fail("extbits-image-vs-sources-is-import", pre+fmt.Sprintf("is_import=%v, the sources %v", x.imp, y.imp), input, replay)
		}
		if x.payload != y.payload || strings.Join(x.deps, "\x00") != strings.Join(y.deps, "\x00") {
			xo.fail("extbits-image-vs-sources-descriptor", pre+"another descriptor than the sources", input, replay)
		}
		// unused_dependency of a file that is a target on both sides must agree; for a file that is an
		// import on both sides the difference is the recorded finding
		// C11-path-build-import-unused-dependency-differs, reported by Part A2 / Part B only
		if !x.imp && !y.imp && fmt.Sprint(x.unused) != fmt.Sprint(y.unused) {
			xo.fail("extbits-image-vs-sources-unused-of-target", pre+fmt.Sprintf("unused_dependency %v for a TARGET, the sources %v", x.unused, y.unused), input, replay)
		}
	}
}

// stripRetention: bufimageutil.StripSourceRetentionOptions (`--exclude-source-retention-options`)
// rebuilds every file that holds such an option: the descriptor changes, nothing else may.
func (e *xEnv) stripRetention(img bufimage.Image, tag, dir string) {
	input := map[string]any{"workspace": dir, "image": tag}
	replay := "CLI equivalent: cd " + dir + " && buf build --exclude-source-retention-options -o -#format=json   # vs the same without the flag: bufExtension per file"
	defer func() {
		if p := recover(); p != nil {
			xo.fail("C11-panic-extbits", fmt.Sprint(p), input, replay)
		}
	}()
	before := bitsOfImage(img)
	res, err := bufimageutil.StripSourceRetentionOptions(img)
	e.run.Eval()
	if err != nil {
		xo.fail("extbits-operation-failed", "StripSourceRetentionOptions: "+err.Error(), input, replay)
		return
	}
	after := bitsOfImage(res)
	op := "StripSourceRetentionOptions"
	xo.checkFileSet(op, after, allPaths(before), input, replay)
	xo.checkBits(op, before, after, false, nil, input, replay)
	rebuilt := 0
	for i := range after {
		if i < len(before) && after[i].path == before[i].path {
			if strings.Join(after[i].deps, "\x00") != strings.Join(before[i].deps, "\x00") || fmt.Sprint(after[i].unused) != fmt.Sprint(before[i].unused) {
				xo.fail("extbits-unused-deps-changed", fmt.Sprintf("%s: %s: dependencies %v unused %v -> dependencies %v unused %v", op, after[i].path, before[i].deps, before[i].unused, after[i].deps, after[i].unused), input, replay)
			}
			if after[i].payload != before[i].payload {
				rebuilt++
			}
		}
	}
	if rebuilt > 0 {
		xcount(e.run, "X2:strip-source-retention=rebuilt-a-file")
	}
	xo.checkUnchanged(op, before, img, input, replay)
}

// typeFilters: bufimageutil.FilterImage with include / exclude types.
func (e *xEnv) typeFilters(r *hx.Rand, ws xWS, img bufimage.Image, tag, dir string) {
	run := e.run
	var targets, all []xSrc
	by := map[string]bufimage.ImageFile{}
	for _, f := range img.Files() {
		by[f.Path()] = f
	}
	for _, f := range ws.files {
		if g, ok := by[f.path]; ok {
			all = append(all, f)
			if !g.IsImport() {
				targets = append(targets, f)
			}
		}
	}
	if len(targets) == 0 {
		return
	}
	type tf struct {
		name     string
		inc, exc []string
	}
	var tfs []tf
	t := hx.Pick(r, targets)
	tfs = append(tfs, tf{"include one message", []string{t.pkg + ".M"}, nil})
	tfs = append(tfs, tf{"include the lone message of a file", []string{hx.Pick(r, targets).pkg + ".N"}, nil})
	tfs = append(tfs, tf{"exclude an unreferenced message", nil, []string{hx.Pick(r, all).pkg + ".N"}})
	tfs = append(tfs, tf{"exclude a referenced message", nil, []string{hx.Pick(r, all).pkg + ".M"}})
	t2 := hx.Pick(r, targets)
	tfs = append(tfs, tf{"include + exclude", []string{t2.pkg + ".M", hx.Pick(r, targets).pkg + ".E"}, []string{hx.Pick(r, all).pkg + ".M.Inner"}})
	tfs = append(tfs, tf{"include an enum and a service", []string{hx.Pick(r, targets).pkg + ".E", ws.files[0].pkg + ".S"}, nil})
	for _, f := range tfs {
		input := map[string]any{"workspace": dir, "image": tag, "include_types": f.inc, "exclude_types": f.exc}
		replay := fmt.Sprintf("CLI equivalent: cd %s && buf build -o /tmp/x.binpb%s   # then compare the buf extension (field 8042) of every file with `buf build -o -#format=json`", dir, typeFlags(f.inc, f.exc))
		func() {
			defer func() {
				if p := recover(); p != nil {
					xo.fail("C11-panic-extbits", fmt.Sprint(p), input, replay)
				}
			}()
			// FilterImage may share descriptors with its input: work on a clone, judge against the original
			work, err := bufimage.CloneImage(img)
			if err != nil {
				xo.fail("extbits-operation-failed", "CloneImage: "+err.Error(), input, replay)
				return
			}
			before := bitsOfImage(work)
			res, err := bufimageutil.FilterImage(work, bufimageutil.WithIncludeTypes(f.inc...), bufimageutil.WithExcludeTypes(f.exc...))
			run.Eval()
			if err != nil {
				xcount(run, "X2:type-filter=error")
				return
			}
			after := bitsOfImage(res)
			xcount(run, "X2:type-filter="+f.name)
			xo.checkBits("type filter ("+f.name+")", before, after, false, nil, input, replay)
			xo.checkUnchanged("type filter ("+f.name+")", before, work, input, replay)
			// protocol line: the image-file level of filterImageFile
			am := map[string]xbits{}
			for _, a := range after {
				am[a.path] = a
			}
			var instr []string
			changed := 0
			for _, b := range before {
				a, kept := am[b.path]
				if !kept {
					instr = append(instr, strings.Join([]string{hx.Enc(b.path), "D", "0", "0", "0", "-"}, ":"))
					continue
				}
				if a.body != b.body {
					changed++
				}
				instr = append(instr, strings.Join([]string{hx.Enc(b.path), "K", b01(a.body != b.body), b01(b.public), strconv.FormatUint(a.payload, 10), encStrs(a.deps)}, ":"))
				if len(b.unused) > 0 {
					xcount(run, "X2:type-filter-file-with-unused-deps")
				}
			}
			line := "xflt\ttflt\t" + encXIn(before) + "\t" + strings.Join(instr, ";") + "\t-"
			run.Case(line, "ok "+encXOut(after), changed > 0)
		}()
	}
}

func typeFlags(inc, exc []string) string {
	s := ""
	for _, t := range inc {
		s += " --type " + t
	}
	for _, t := range exc {
		s += " --exclude-type " + t
	}
	return s
}

// controller: the in-process bufctl.Controller on an IMAGE input = what `buf build IMAGE …` runs.
func (e *xEnv) controller(r *hx.Rand, wi int, ws xWS, full bufimage.Image, fb []xbits, sels []xSel, dir string) {
	run := e.run
	tmp := filepath.Join(e.root, fmt.Sprintf("t%d", wi))
	must0(os.MkdirAll(tmp, 0o755))
	imgFile := filepath.Join(tmp, "full.binpb")
	if err := safePutImage(e.ctl, imgFile, full); err != nil {
		xo.fail("extbits-operation-failed", "PutImage: "+err.Error(), nil, "")
		return
	}
	encs := []string{".binpb", ".json", ".txtpb", ".yaml", ".binpb.gz", ".json.zst", ".txtpb.gz", ".yaml.zst"}
	k := 0
	// (a) path selections / --exclude-imports through GetImage, written and read back
	pick := sels
	if len(pick) > 6 {
		hx.Shuffle(r, pick)
		pick = pick[:6]
	}
	pick = append(pick, xSel{"no selection", nil, nil})
	for _, sel := range pick {
		for _, exclImports := range []bool{false, true} {
			if exclImports && k%2 == 0 {
				k++
				continue
			}
			enc := encs[k%len(encs)]
			k++
			cli := fmt.Sprintf("buf build %s%s%s -o %s", imgFile, selFlags(sel), map[bool]string{true: " --exclude-imports", false: ""}[exclImports], filepath.Join(tmp, fmt.Sprintf("o%d%s", k, enc)))
			input := map[string]any{"image": imgFile, "stratum": sel.stratum, "paths": sel.paths, "exclude": sel.excl, "exclude_imports": exclImports, "encoding": enc}
			opts := []bufctl.FunctionOption{bufctl.WithTargetPaths(sel.paths, sel.excl), bufctl.WithImageExcludeImports(exclImports)}
			got, err := safeGetImage(e.ctl, imgFile, opts...)
			run.Eval()
			t := expectTargets(fb, sel.paths, sel.excl)
			want := expectClosure(fb, t)
			if exclImports {
				// --exclude-imports is applied BEFORE the path filter (bufctl.filterImage): the imports of
				// the input image are gone, then the selection is applied to what is left
				var left []xbits
				for _, b := range fb {
					if !b.imp {
						left = append(left, b)
					}
				}
				t = expectTargets(left, sel.paths, sel.excl)
				want = expectClosure(left, t)
			}
			anyWant := false
			for _, w := range want {
				anyWant = anyWant || w
			}
			if err != nil {
				if !anyWant {
					continue // "image contains no files"
				}
				xo.fail("extbits-operation-failed", "GetImage: "+firstLines(err.Error(), 2), input, cli)
				continue
			}
			after := bitsOfImage(got)
			op := "controller GetImage(IMAGE" + selFlags(sel) + map[bool]string{true: " --exclude-imports", false: ""}[exclImports] + ")"
			xo.checkFileSet(op, after, want, input, cli)
			xo.checkBits(op, fb, after, true, importMap(t), input, cli)
			// write in the encoding, read back
			outFile := filepath.Join(tmp, fmt.Sprintf("o%d%s", k, enc))
			if err := safePutImage(e.ctl, outFile, got); err != nil {
				xo.fail("extbits-operation-failed", "PutImage "+enc+": "+firstLines(err.Error(), 2), input, cli)
				continue
			}
			back, err := safeGetImage(e.ctl, outFile)
			run.Eval()
			if err != nil {
				xo.fail("extbits-operation-failed", "GetImage of "+enc+": "+firstLines(err.Error(), 2), input, cli)
				continue
			}
			xo.checkFileSet(op+" -> "+enc+" -> read", bitsOfImage(back), allPaths(after), input, cli)
			xo.checkBits(op+" -> "+enc+" -> read", after, bitsOfImage(back), true, nil, input, cli)
			xcount(run, "X2:controller-roundtrip="+enc)
		}
	}
	// (b) --as-file-descriptor-set: no buf extension at all; the plain form: one per file
	for _, fds := range []bool{true, false} {
		outFile := filepath.Join(tmp, fmt.Sprintf("fds%v.binpb", fds))
		cli := fmt.Sprintf("buf build %s -o %s%s", imgFile, outFile, map[bool]string{true: " --as-file-descriptor-set", false: ""}[fds])
		got, err := safeGetImage(e.ctl, imgFile)
		if err == nil {
			err = safePutImage(e.ctl, outFile, got, bufctl.WithImageAsFileDescriptorSet(fds))
		}
		if err != nil {
			xo.fail("extbits-operation-failed", "write: "+firstLines(err.Error(), 2), nil, cli)
			continue
		}
		pi := &imagev1.Image{}
		must0(proto.Unmarshal(must(os.ReadFile(outFile)), pi))
		var wire []xbits
		for _, pf := range pi.GetFile() {
			b, has := bitsOfProto(pf)
			if has == fds {
				xo.fail("extbits-fds-carries-extension", fmt.Sprintf("%s: buf extension present=%v on %s with --as-file-descriptor-set=%v", cli, has, pf.GetName(), fds), nil, cli)
			}
			wire = append(wire, b)
		}
		if !fds {
			xo.checkFileSet("written image", wire, allPaths(fb), nil, cli)
			xo.checkBits("written image", fb, wire, true, nil, nil, cli)
		}
		run.Eval()
	}
	// (c) --type through the controller (mutates in place: own image object)
	var targets []xSrc
	for _, f := range ws.files {
		targets = append(targets, f)
	}
	for q := 0; q < 2; q++ {
		t := hx.Pick(r, targets)
		inc := []string{t.pkg + ".M"}
		var exc []string
		if q == 1 {
			inc, exc = nil, []string{t.pkg + ".N", hx.Pick(r, targets).pkg + ".M"}
		}
		cli := fmt.Sprintf("buf build %s%s -o -#format=json", imgFile, typeFlags(inc, exc))
		input := map[string]any{"image": imgFile, "include_types": inc, "exclude_types": exc}
		got, err := safeGetImage(e.ctl, imgFile, bufctl.WithImageIncludeTypes(inc), bufctl.WithImageExcludeTypes(exc))
		run.Eval()
		if err != nil {
			xcount(run, "X2:controller-type-filter=error")
			continue
		}
		xcount(run, "X2:controller-type-filter=ok")
		xo.checkBits("controller GetImage(IMAGE"+typeFlags(inc, exc)+")", fb, bitsOfImage(got), false, nil, input, cli)
	}
}

func selFlags(s xSel) string {
	out := ""
	for _, p := range s.paths {
		out += " --path " + p
	}
	for _, p := range s.excl {
		out += " --exclude-path " + p
	}
	return out
}

func partX2(run *hx.Run, r *hx.Rand) []xBuilt {
	root := must(filepath.Abs(filepath.Join(run.OutDir, "x")))
	must0(os.RemoveAll(root))
	must0(os.MkdirAll(root, 0o755))
	e := &xEnv{run: run, ctl: newController(root, strings.NewReader(""), os.Stderr), root: root, vsN: map[string]int{}}
	n := run.N(10, 24)
	var built []xBuilt
	for wi := 0; wi < n; wi++ {
		ws, full, ok := e.workspace(r.Fork(uint64(wi)), wi)
		if ok {
			built = append(built, xBuilt{wi, ws, full, filepath.Join(root, fmt.Sprintf("ws%d", wi)), filepath.Join(root, fmt.Sprintf("t%d", wi))})
		}
	}
	if os.Getenv("C11_TIMING") != "" {
		fmt.Fprintf(os.Stderr, "part X2 split: %v\n", xT)
	}
	// every stratum must have been reached (a blind generator is a failure of the check itself)
	for _, kind := range []string{"nosyntax", "unused", "nosyntax+unused"} {
		for _, what := range []string{"stay/file", "stay/dir", "flip/file", "flip/exclude-file", "drop/file"} {
			if !xHas(run, "X2:stratum="+kind+"/"+what) {
				xo.fail("extbits-generator-blind", "no selection of stratum "+kind+"/"+what+" in this run", nil, "")
			}
		}
	}
	for _, c := range []string{"X2:flip-target-to-import+nosyntax", "X2:flip-target-to-import+unused", "X2:stays-target+nosyntax", "X2:type-filter-file-with-unused-deps", "X2:strip-source-retention=rebuilt-a-file"} {
		if !xHasPrefix(run, c) {
			xo.fail("extbits-generator-blind", "nothing counted under "+c, nil, "")
		}
	}
	return built
}

type xBuilt struct {
	wi       int
	ws       xWS
	full     bufimage.Image
	dir, tmp string
}

// xcount bumps a distribution counter and remembers that it was touched (self-check of the strata).
var xSeen = map[string]bool{}
var xT = map[string]time.Duration{}

func xcount(run *hx.Run, key string) {
	run.Count(key)
	xSeen[key] = true
}

func xHas(run *hx.Run, key string) bool { return xSeen[key] }

func xHasPrefix(run *hx.Run, key string) bool {
	for k := range xSeen {
		if strings.HasPrefix(k, key) {
			return true
		}
	}
	return false
}

// ---------------------------------------------------------------------------------------
// X3: the real binary

func partX3(run *hx.Run, r *hx.Rand, b *bufRun, built []xBuilt) {
	n := run.N(2, 8)
	if len(built) < n {
		n = len(built)
	}
	for _, w := range built[:n] {
		fb := bitsOfImage(w.full)
		imgFile := filepath.Join(w.tmp, "full.binpb") // written by the in-process controller: names + commits
		var fps []string
		for _, f := range w.ws.files {
			fps = append(fps, f.path)
		}
		cands := candidatePaths(fps)
		sels := xSelections(r, fb, cands[:len(cands)-4])
		if len(sels) > 10 {
			// one per stratum first
			seen := map[string]bool{}
			var first, rest []xSel
			for _, s := range sels {
				if !seen[s.stratum] {
					seen[s.stratum] = true
					first = append(first, s)
				} else {
					rest = append(rest, s)
				}
			}
			sels = append(first, rest...)
			sels = sels[:min(len(sels), 14)]
		}
		// (a) IMAGE with selections, --exclude-imports, --type; every output format once
		type xjob struct {
			sel         xSel
			exclImports bool
			inc, exc    []string
			format      string
			fds         bool
		}
		var jobs []xjob
		formats := []string{"binpb", "json", "txtpb", "yaml", "binpb", "binpb"}
		for i, s := range sels {
			jobs = append(jobs, xjob{sel: s, format: formats[i%len(formats)]})
		}
		jobs = append(jobs, xjob{sel: xSel{"no selection", nil, nil}, exclImports: true, format: "binpb"})
		if len(sels) > 0 {
			jobs = append(jobs, xjob{sel: sels[0], exclImports: true, format: "json"})
		}
		t := hx.Pick(r, w.ws.files)
		jobs = append(jobs, xjob{sel: xSel{"no selection", nil, nil}, inc: []string{t.pkg + ".M"}, format: "binpb"})
		jobs = append(jobs, xjob{sel: xSel{"no selection", nil, nil}, exc: []string{hx.Pick(r, w.ws.files).pkg + ".M", t.pkg + ".N"}, format: "binpb"})
		jobs = append(jobs, xjob{sel: xSel{"no selection", nil, nil}, format: "binpb", fds: true})
		var bj []job
		for i, j := range jobs {
			args := []string{"build", imgFile, "-o", filepath.Join(w.tmp, fmt.Sprintf("bin%d.%s", i, j.format))}
			for _, p := range j.sel.paths {
				args = append(args, "--path", p)
			}
			for _, p := range j.sel.excl {
				args = append(args, "--exclude-path", p)
			}
			if j.exclImports {
				args = append(args, "--exclude-imports")
			}
			for _, t := range j.inc {
				args = append(args, "--type", t)
			}
			for _, t := range j.exc {
				args = append(args, "--exclude-type", t)
			}
			if j.fds {
				args = append(args, "--as-file-descriptor-set")
			}
			bj = append(bj, job{w.tmp, args})
		}
		res := b.execAll(bj)
		// read every non-binpb output back through the binary as binpb
		var back []job
		for i, j := range jobs {
			if j.format != "binpb" {
				back = append(back, job{w.tmp, []string{"build", filepath.Join(w.tmp, fmt.Sprintf("bin%d.%s", i, j.format)), "-o", filepath.Join(w.tmp, fmt.Sprintf("bin%d.back.binpb", i))}})
			}
		}
		bres := b.execAll(back)
		bi := 0
		for i, j := range jobs {
			cli := "cd " + w.tmp + " && buf " + strings.Join(bj[i].args, " ")
			input := map[string]any{"image": imgFile, "stratum": j.sel.stratum, "paths": j.sel.paths, "exclude": j.sel.excl, "exclude_imports": j.exclImports, "include_types": j.inc, "exclude_types": j.exc, "format": j.format}
			outFile := filepath.Join(w.tmp, fmt.Sprintf("bin%d.%s", i, j.format))
			if j.format != "binpb" {
				if bres[bi].code != 0 {
					xo.fail("extbits-operation-failed", "reading "+outFile+" back: "+firstLines(bres[bi].stderr, 2), input, cli)
				}
				outFile = filepath.Join(w.tmp, fmt.Sprintf("bin%d.back.binpb", i))
				bi++
			}
			left := fb
			if j.exclImports {
				left = nil
				for _, x := range fb {
					if !x.imp {
						left = append(left, x)
					}
				}
			}
			tg := expectTargets(left, j.sel.paths, j.sel.excl)
			want := expectClosure(left, tg)
			anyWant := false
			for _, v := range want {
				anyWant = anyWant || v
			}
			if res[i].code != 0 {
				if !anyWant || len(j.inc)+len(j.exc) > 0 {
					run.Count("X3:binary-error-expected-or-type-filter")
					continue
				}
				xo.fail("extbits-operation-failed", firstLines(res[i].stderr, 2), input, cli)
				continue
			}
			data, err := os.ReadFile(outFile)
			if err != nil {
				xo.fail("extbits-operation-failed", err.Error(), input, cli)
				continue
			}
			pi := &imagev1.Image{}
			if err := proto.Unmarshal(data, pi); err != nil {
				xo.fail("extbits-operation-failed", err.Error(), input, cli)
				continue
			}
			var wire []xbits
			for _, pf := range pi.GetFile() {
				x, has := bitsOfProto(pf)
				if has == j.fds {
					xo.fail("extbits-fds-carries-extension", fmt.Sprintf("buf extension present=%v on %s with --as-file-descriptor-set=%v", has, pf.GetName(), j.fds), input, cli)
				}
				wire = append(wire, x)
			}
			run.Count("X3:binary=" + map[bool]string{true: "type-filter", false: "path-filter"}[len(j.inc)+len(j.exc) > 0] + "/" + j.format)
			run.Count("X3:stratum=" + j.sel.stratum)
			switch {
			case j.fds:
				xo.checkFileSet("binary --as-file-descriptor-set", wire, allPaths(fb), input, cli)
			case len(j.inc)+len(j.exc) > 0:
				xo.checkBits("binary"+typeFlags(j.inc, j.exc), fb, wire, false, nil, input, cli)
			default:
				op := "binary" + selFlags(j.sel) + map[bool]string{true: " --exclude-imports", false: ""}[j.exclImports] + " -o ." + j.format
				if len(j.sel.paths)+len(j.sel.excl) > 0 || j.exclImports {
					xo.checkFileSet(op, wire, want, input, cli)
					xo.checkBits(op, fb, wire, true, importMap(tg), input, cli)
				} else {
					xo.checkBits(op, fb, wire, true, nil, input, cli)
				}
			}
		}
		// (b) sources vs image on disk: `buf build --path m/p` vs `buf build IMAGE --path p`
		diskImg := filepath.Join(w.tmp, "disk.binpb")
		if r0 := b.exec(w.dir, "build", "-o", diskImg); r0.code != 0 {
			xo.fail("extbits-operation-failed", "buf build of the workspace: "+firstLines(r0.stderr, 3), w.dir, "cd "+w.dir+" && buf build")
			continue
		}
		modOf := map[string][]int{}
		for mi, m := range w.ws.mods {
			for _, f := range m.files {
				c := comps(f.path)
				for k := 1; k <= len(c); k++ {
					p := strings.Join(c[:k], "/")
					if len(modOf[p]) == 0 || modOf[p][len(modOf[p])-1] != mi {
						modOf[p] = append(modOf[p], mi)
					}
				}
			}
		}
		var sj, ij []job
		var used []xSel
		for _, s := range sels {
			if len(used) >= 8 {
				break
			}
			var sa, ia []string
			for _, p := range s.paths {
				ia = append(ia, "--path", p)
				for _, mi := range modOf[p] {
					sa = append(sa, "--path", fmt.Sprintf("m%d/%s", mi, p))
				}
			}
			for _, p := range s.excl {
				ia = append(ia, "--exclude-path", p)
				for _, mi := range modOf[p] {
					sa = append(sa, "--exclude-path", fmt.Sprintf("m%d/%s", mi, p))
				}
			}
			k := len(used)
			used = append(used, s)
			sj = append(sj, job{w.dir, append([]string{"build", "-o", filepath.Join(w.tmp, fmt.Sprintf("src%d.binpb", k))}, sa...)})
			ij = append(ij, job{w.dir, append([]string{"build", diskImg, "-o", filepath.Join(w.tmp, fmt.Sprintf("img%d.binpb", k))}, ia...)})
		}
		sres, ires := b.execAll(sj), b.execAll(ij)
		for k, s := range used {
			cli := "cd " + w.dir + " && buf " + strings.Join(sj[k].args, " ") + " && buf " + strings.Join(ij[k].args, " ") + "   # compare bufExtension per file"
			input := map[string]any{"workspace": w.dir, "stratum": s.stratum, "paths": s.paths, "exclude": s.excl}
			if sres[k].code != 0 || ires[k].code != 0 {
				if sres[k].code != 0 && ires[k].code != 0 {
					continue
				}
				xo.fail("extbits-image-vs-sources-error", fmt.Sprintf("sources: exit %d %s; image: exit %d %s", sres[k].code, firstLines(sres[k].stderr, 2), ires[k].code, firstLines(ires[k].stderr, 2)), input, cli)
				continue
			}
			read := func(p string) map[string]xbits {
				pi := &imagev1.Image{}
				must0(proto.Unmarshal(must(os.ReadFile(p)), pi))
				out := map[string]xbits{}
				for _, pf := range pi.GetFile() {
					x, _ := bitsOfProto(pf)
					out[x.path] = x
				}
				return out
			}
			sm, im := read(filepath.Join(w.tmp, fmt.Sprintf("src%d.binpb", k))), read(filepath.Join(w.tmp, fmt.Sprintf("img%d.binpb", k)))
			run.Count("X3:sources-vs-image")
			for p, x := range im {
				y, ok := sm[p]
				if !ok {
					xo.fail("extbits-image-vs-sources-files", s.stratum+": "+p+" only in the filtered image", input, cli)
					continue
				}
				pre := fmt.Sprintf("%s: %s: `buf build IMAGE%s` writes ", s.stratum, p, selFlags(s))
				if x.su != y.su {
					xo.fail("extbits-image-vs-sources-syntax-unspecified", pre+fmt.Sprintf("isSyntaxUnspecified=%v, `buf build <sources>` with the same selection writes %v (isImport %v)", x.su, y.su, x.imp), input, cli)
				}
				if x.mod != y.mod {
					xo.fail("extbits-image-vs-sources-module-name", pre+fmt.Sprintf("module %q, the sources %q", x.mod, y.mod), input, cli)
				}
				if x.commit != y.commit {
					xo.fail("extbits-image-vs-sources-commit", pre+fmt.Sprintf("commit %q, the sources %q", x.commit, y.commit), input, cli)
				}
				if x.imp != y.imp {
					xo.fail("extbits-image-vs-sources-is-import", pre+fmt.Sprintf("isImport=%v, the sources %v", x.imp, y.imp), input, cli)
				}
				if !x.imp && !y.imp && fmt.Sprint(x.unused) != fmt.Sprint(y.unused) {
					xo.fail("extbits-image-vs-sources-unused-of-target", pre+fmt.Sprintf("unusedDependency %v for a target, the sources %v", x.unused, y.unused), input, cli)
				}
			}
			if len(sm) != len(im) {
				xo.fail("extbits-image-vs-sources-files", fmt.Sprintf("%s: %d files from the sources, %d from the image", s.stratum, len(sm), len(im)), input, cli)
			}
		}
	}
}

// imageFromXIn rebuilds an image from the `files` field of an xflt line (replay).
func imageFromXIn(s string) (bufimage.Image, error) {
	if s == "-" {
		return bufimage.NewImage(nil)
	}
	var ifs []bufimage.ImageFile
	for _, p := range strings.Split(s, ";") {
		q := strings.Split(p, ":")
		fdp := &descriptorpb.FileDescriptorProto{Name: proto.String(hx.Dec(q[0])), Dependency: parseStrs(q[2]),
			MessageType: []*descriptorpb.DescriptorProto{{Name: proto.String("P" + q[7])}}}
		var fn bufparse.FullName
		if q[5] != "~" {
			m := strings.Split(q[5], "/")
			fn = must(bufparse.NewFullName(hx.Dec(m[0]), hx.Dec(m[1]), hx.Dec(m[2])))
		}
		commit := uuid.Nil
		if q[6] != "~" {
			commit = must(uuidutil.FromDashless(hx.Dec(q[6])))
		}
		imf, err := bufimage.NewImageFile(fdp, fn, commit, "", "", q[1] == "I", q[3] == "S", parseNats(q[4]))
		if err != nil {
			return nil, err
		}
		ifs = append(ifs, imf)
	}
	return bufimage.NewImage(ifs)
}
