package main

import (
	"archive/tar"
	"archive/zip"
	"bytes"
	"compress/gzip"
	"errors"
	"fmt"
	"os"
	"os/exec"
	"path/filepath"
	"sort"
	"strings"
	"time"

	imagev1 "github.com/bufbuild/buf/private/gen/proto/go/buf/alpha/image/v1"
	"github.com/bufbuild/verifharness/internal/hx"
	"google.golang.org/protobuf/proto"
)

// ---------------------------------------------------------------------------------------
// Part B: the real binary (oracle only)

type bufRun struct {
	bin, home string
	run       *hx.Run
	count     int
}

type result struct {
	stdout, stderr string
	code           int
}

func (b *bufRun) exec(dir string, args ...string) result {
	res := b.execRaw(dir, args...)
	b.count++
	b.run.Eval()
	return res
}

// execRaw runs the binary without touching the run's counters (safe to call concurrently).
func (b *bufRun) execRaw(dir string, args ...string) result {
	return b.execRawStdin(dir, nil, args...)
}

func (b *bufRun) execRawStdin(dir string, stdin []byte, args ...string) result {
	c := exec.Command(b.bin, args...)
	if stdin != nil {
		c.Stdin = bytes.NewReader(stdin)
	}
	c.Dir = dir
	c.Env = append(os.Environ(), "HOME="+b.home, "BUF_CACHE_DIR="+filepath.Join(b.home, "cache"), "NO_COLOR=1")
	var stdout, stderr bytes.Buffer
	c.Stdout, c.Stderr = &stdout, &stderr
	err := c.Run()
	code := 0
	var ee *exec.ExitError
	if errors.As(err, &ee) {
		code = ee.ExitCode()
	} else if err != nil {
		code = -1
	}
	return result{stdout.String(), stderr.String(), code}
}

func writeWS(dir string, ws workspace, named bool, lintExcept string) {
	var yaml strings.Builder
	yaml.WriteString("version: v2\nmodules:\n")
	for mi, m := range ws.mods {
		md := fmt.Sprintf("m%d", mi)
		yaml.WriteString("  - path: " + md + "\n")
		if named {
			yaml.WriteString("    name: " + m.name + "\n")
		}
		for _, f := range m.files {
			full := filepath.Join(dir, md, f.path)
			must0(os.MkdirAll(filepath.Dir(full), 0o755))
			must0(os.WriteFile(full, []byte(f.body), 0o644))
		}
	}
	yaml.WriteString("lint:\n  use:\n    - STANDARD\n")
	if lintExcept != "" {
		yaml.WriteString("  except:\n    - " + lintExcept + "\n")
	}
	yaml.WriteString("breaking:\n  use:\n    - FILE\n")
	must0(os.WriteFile(filepath.Join(dir, "buf.yaml"), []byte(yaml.String()), 0o644))
}

func walkFiles(dir string) []string {
	var out []string
	must0(filepath.Walk(dir, func(p string, info os.FileInfo, err error) error {
		if err != nil {
			return err
		}
		if !info.IsDir() {
			out = append(out, must(filepath.Rel(dir, p)))
		}
		return nil
	}))
	sort.Strings(out)
	return out
}

func makeTar(dir, out string, gz bool) {
	var buf bytes.Buffer
	tw := tar.NewWriter(&buf)
	for _, p := range walkFiles(dir) {
		data := must(os.ReadFile(filepath.Join(dir, p)))
		must0(tw.WriteHeader(&tar.Header{Name: filepath.ToSlash(p), Mode: 0o644, Size: int64(len(data)), Typeflag: tar.TypeReg}))
		must(tw.Write(data))
	}
	must0(tw.Close())
	if gz {
		var zb bytes.Buffer
		zw := gzip.NewWriter(&zb)
		must(zw.Write(buf.Bytes()))
		must0(zw.Close())
		buf = zb
	}
	must0(os.WriteFile(out, buf.Bytes(), 0o644))
}

func makeZip(dir, out string) {
	var buf bytes.Buffer
	zw := zip.NewWriter(&buf)
	for _, p := range walkFiles(dir) {
		w := must(zw.Create(filepath.ToSlash(p)))
		must(w.Write(must(os.ReadFile(filepath.Join(dir, p)))))
	}
	must0(zw.Close())
	must0(os.WriteFile(out, buf.Bytes(), 0o644))
}

// stripModDirs removes the module directory prefix a source-side diagnostic carries
// ("m0/a/f.proto:1:1:…" → "a/f.proto:1:1:…"): image paths are module-relative.
func stripModDirs(s string, nmods int) string {
	lines := strings.Split(s, "\n")
	for i, l := range lines {
		for m := 0; m < nmods; m++ {
			pre := fmt.Sprintf("m%d/", m)
			if strings.HasPrefix(l, pre) {
				lines[i] = l[len(pre):]
			}
		}
	}
	sort.Strings(lines)
	return strings.Join(lines, "\n")
}

func sortedLines(s string) string {
	lines := strings.Split(s, "\n")
	sort.Strings(lines)
	return strings.Join(lines, "\n")
}

type fileSet map[string]string

func imageFiles(b []byte) (order []string, files fileSet, err error) {
	img := &imagev1.Image{}
	if err := proto.Unmarshal(b, img); err != nil {
		return nil, nil, err
	}
	files = fileSet{}
	for _, f := range img.GetFile() {
		order = append(order, f.GetName())
		files[f.GetName()] = string(must(proto.MarshalOptions{Deterministic: true}.Marshal(f)))
	}
	return order, files, nil
}

// normUnusedOfImports marshals every file with the unused_dependency list of IMPORT files cleared.
func normUnusedOfImports(b []byte) (fileSet, error) {
	img := &imagev1.Image{}
	if err := proto.Unmarshal(b, img); err != nil {
		return nil, err
	}
	out := fileSet{}
	for _, f := range img.GetFile() {
		if e := f.GetBufExtension(); e != nil && e.GetIsImport() {
			e.SetUnusedDependency(nil)
		}
		out[f.GetName()] = string(must(proto.MarshalOptions{Deterministic: true}.Marshal(f)))
	}
	return out, nil
}

func unusedOf(b []byte) map[string][]int32 {
	img := &imagev1.Image{}
	out := map[string][]int32{}
	if proto.Unmarshal(b, img) != nil {
		return out
	}
	for _, f := range img.GetFile() {
		if u := f.GetBufExtension().GetUnusedDependency(); len(u) > 0 {
			out[f.GetName()] = u
		}
	}
	return out
}

func partB(run *hx.Run, r *hx.Rand) {
	repo := os.Getenv("VERIF_REPO")
	if repo == "" {
		repo = "/repo"
	}
	root := must(filepath.Abs(filepath.Join(run.OutDir, "b")))
	must0(os.RemoveAll(root))
	must0(os.MkdirAll(root, 0o755))
	bin := filepath.Join(root, "buf")
	cmd := exec.Command("go", "build", "-o", bin, "./cmd/buf")
	cmd.Dir = repo
	cmd.Env = append(os.Environ(), "GOPROXY=off", "GOFLAGS=-mod=mod")
	if out, err := cmd.CombinedOutput(); err != nil {
		run.Fail(hx.OracleFailure{Class: "C11-buf-binary-does-not-build", What: string(out), Input: nil, Replay: "go build ./cmd/buf"})
		return
	}
	b := &bufRun{bin: bin, home: root, run: run}
	n := run.N(4, 23) // was (5, 24) until Part O (parto.go) took its seconds
	if !on("b") {
		n = 0
	}
	// B3: round trip of the legacy / options schema family, field by field (partb3.go); its
	// in-process round trips run in the background while B and B2 spawn their processes
	var b3 *b3Env
	timed("B3 (sequential part)", on("b3"), func() { b3 = partB3Start(run, r.Fork(6000), b, root) })
	// B5: declaration sites of extensions (partb5.go); round trips in the background as well
	var b5 *b3Env
	timed("B5 (sequential part)", on("b5"), func() { b5 = partB5Start(run, r.Fork(8000), b, root) })
	tB := time.Now()
	for i := 0; i < n; i++ {
		cr := r.Fork(uint64(i))
		var ws workspace
		var dir string
		// find a workspace that builds (the rich generator can produce a rare compile error)
		for try := 0; ; try++ {
			ws = genWorkspace(cr, true)
			dir = filepath.Join(root, fmt.Sprintf("ws%d", i))
			must0(os.RemoveAll(dir))
			writeWS(dir, ws, i%2 == 0, "")
			if res := b.exec(dir, "build"); res.code == 0 {
				break
			} else if try > 5 {
				run.Fail(hx.OracleFailure{Class: "C11-generator-workspace-does-not-build", What: res.stderr, Input: nil, Replay: ""})
				return
			}
		}
		partBWorkspace(run, b, cr, ws, dir, root, i, i%2 == 0)
	}
	if os.Getenv("C11_TIMING") != "" {
		fmt.Fprintf(os.Stderr, "part B (workspaces): %.1fs\n", time.Since(tB).Seconds())
	}
	// B2: the check configuration chosen for an image input, under a matrix of config shapes
	timed("B2", on("b2"), func() {
		for i, nb2 := 0, run.N(1, 8); i < nb2; i++ {
			partBChecks(run, b, r.Fork(uint64(5000+i)), root, i)
		}
	})
	timed("B3 (wait for the round trips)", b3 != nil, func() { b3.finish() })
	timed("B5 (wait for the round trips)", b5 != nil, func() { b5.finish() })
	// B4: packagings of workspaces that vendor files at well-known-type paths (partb4.go)
	timed("B4", on("b4"), func() { partB4(run, r.Fork(7000), b, root) })
	// X3: the extension bits through the real binary (partx.go)
	timed("X3", on("x3") && len(xBuiltWS) > 0, func() { partX3(run, r.Fork(9000), b, xBuiltWS) })
	// O2: output-file histories through the real binary (parto.go)
	timed("O2", on("o2") && len(oWorkspaces) > 0, func() { partO2(run, r.Fork(9500), b) })
	run.Set("buf_process_runs", b.count)
}

func partBWorkspace(run *hx.Run, b *bufRun, r *hx.Rand, ws workspace, dir, root string, i int, named bool) {
	fail := func(class, what string, input any) {
		run.Fail(hx.OracleFailure{Class: class, What: what, Input: map[string]any{"workspace": dir, "case": input},
			Replay: fmt.Sprintf("build/c11 --out /tmp/c11-replay --seed %d --tier %s   # part B workspace %d is left in <out>/b/ws%d", run.Seed, run.Tier, i, i)})
	}
	tmp := filepath.Join(root, fmt.Sprintf("t%d", i))
	must0(os.MkdirAll(tmp, 0o755))
	flagsets := [][]string{{}, {"--exclude-imports"}, {"--exclude-source-info"}, {"--as-file-descriptor-set"}, {"--exclude-imports", "--exclude-source-info"}}
	direct := map[int]string{}
	directOf := func(fi int) string {
		if v, ok := direct[fi]; ok {
			return v
		}
		res := b.exec(dir, append([]string{"build", "-o", "-#format=binpb"}, flagsets[fi]...)...)
		if res.code != 0 {
			fail("C11-build-failed", res.stderr, flagsets[fi])
		}
		direct[fi] = res.stdout
		return res.stdout
	}
	// (1) encodings x compressions x flags (planned first so the random choices keep their order,
	// then all writes and all reads 12 at a time)
	type encPlan struct {
		format, comp, file string
		fi                 int
	}
	var plan []encPlan
	k := 0
	for _, format := range []string{"binpb", "json", "txtpb", "yaml"} {
		for _, comp := range []string{"", ".gz", ".zst"} {
			fi := k % len(flagsets)
			if r.Chance(1, 3) {
				fi = r.Intn(len(flagsets))
			}
			k++
			plan = append(plan, encPlan{format, comp, filepath.Join(tmp, fmt.Sprintf("img%d.%s%s", k, format, comp)), fi})
		}
	}
	var wjobs, rjobs []job
	for _, p := range plan {
		wjobs = append(wjobs, job{dir, append([]string{"build", "-o", p.file}, flagsets[p.fi]...)})
		rjobs = append(rjobs, job{dir, append([]string{"build", p.file, "-o", "-#format=binpb"}, flagsets[p.fi]...)})
	}
	wres := b.execAll(wjobs)
	rres := b.execAll(rjobs)
	for pi, p := range plan {
		format, comp, file, fi := p.format, p.comp, p.file, p.fi
		res, back := wres[pi], rres[pi]
		if res.code != 0 {
			fail("C11-encode-failed", res.stderr, file)
			continue
		}
		run.Count("B:roundtrip=" + format + comp)
		run.Distinct(fmt.Sprintf("B:%d:%s%s:%v", i, format, comp, flagsets[fi]))
		if back.code != 0 && format == "yaml" && strings.Contains(back.stderr, "unknown field \"[") {
			fail("C11-yaml-image-with-custom-options-unreadable", fmt.Sprintf("%s %v: %s", filepath.Base(file), flagsets[fi], firstLines(back.stderr, 3)), file)
			continue
		}
		if back.code != 0 {
			fail("C11-encoding-roundtrip-read-error", fmt.Sprintf("%s %v: %s", filepath.Base(file), flagsets[fi], back.stderr), file)
			continue
		}
		if back.stdout != directOf(fi) {
			fail("C11-encoding-roundtrip-differs", fmt.Sprintf("%s written with %v and read back differs from the direct binpb build (%d vs %d bytes)", filepath.Base(file), flagsets[fi], len(back.stdout), len(directOf(fi))), file)
		}
	}
	// (2) packagings
	base := directOf(0)
	makeTar(dir, filepath.Join(tmp, "src.tar"), false)
	makeTar(dir, filepath.Join(tmp, "src.tar.gz"), true)
	makeZip(dir, filepath.Join(tmp, "src.zip"))
	for _, pk := range []string{"src.tar", "src.tar.gz", "src.zip"} {
		res := b.exec(tmp, "build", pk, "-o", "-#format=binpb")
		run.Count("B:packaging=" + pk)
		if res.code != 0 || res.stdout != base {
			fail("C11-packaging-differs", fmt.Sprintf("%s builds to a different image than the directory (exit %d, %s)", pk, res.code, res.stderr), pk)
		}
	}
	exp := filepath.Join(tmp, "export")
	if res := b.exec(dir, "export", ".", "-o", exp); res.code != 0 {
		fail("C11-export-failed", res.stderr, nil)
	} else {
		// `buf export` output is one anonymous module: module names cannot survive; compare the
		// descriptors (all of them when the workspace modules are anonymous too)
		flags := []string{"--as-file-descriptor-set"}
		want := directOf(3)
		if !named {
			flags, want = nil, base
		}
		res := b.exec(tmp, append([]string{"build", "export", "-o", "-#format=binpb"}, flags...)...)
		run.Count("B:packaging=export")
		if res.code != 0 || res.stdout != want {
			fail("C11-packaging-differs", fmt.Sprintf("the `buf export` output builds to a different image than the directory (exit %d, %s)", res.code, res.stderr), "export")
		}
	}
	imgFile := filepath.Join(tmp, "full.binpb")
	must0(os.WriteFile(imgFile, []byte(base), 0o644))
	// (3)+(4) lint and breaking compare "the image" with "the sources it was built from" for ONE
	// module: an image of several modules is linted as one module (DIRECTORY_SAME_PACKAGE etc.
	// see files of other modules) and `buf breaking` refuses a workspace of n modules against one
	// image; both are counted for the evidence, not judged.
	{
		a := b.exec(dir, "lint")
		c := b.exec(dir, "lint", imgFile)
		if len(ws.mods) > 1 && (a.code != c.code || stripModDirs(a.stdout, len(ws.mods)) != sortedLines(c.stdout)) {
			run.Count("B:lint-multi-module-image-differs")
		}
	}
	one := workspace{mods: ws.mods[:1]}
	oneDir := filepath.Join(tmp, "one")
	writeWS(oneDir, one, named, "")
	oneImg := filepath.Join(tmp, "one.binpb")
	if res := b.exec(oneDir, "build", "-o", oneImg); res.code != 0 {
		fail("C11-build-failed", res.stderr, "first module alone")
		return
	}
	for _, except := range []string{"", "PACKAGE_DIRECTORY_MATCH", "FIELD_LOWER_SNAKE_CASE"} {
		writeWS(oneDir, one, named, except)
		a := b.exec(oneDir, "lint")
		c := b.exec(oneDir, "lint", oneImg)
		run.Count("B:lint")
		if a.code != 0 {
			run.Count("B:lint=violations")
		}
		if a.code != c.code || stripModDirs(a.stdout, 1) != sortedLines(c.stdout) {
			fail("C11-lint-image-vs-source", fmt.Sprintf("sources: exit %d\n%s\nimage: exit %d\n%s", a.code, a.stdout, c.code, c.stdout), except)
		}
	}
	writeWS(oneDir, one, named, "")
	old := mutateWS(r, one)
	oldDir := filepath.Join(tmp, "old")
	writeWS(oldDir, old, named, "")
	oldImg := filepath.Join(tmp, "old.binpb")
	if res := b.exec(oldDir, "build", "-o", oldImg); res.code == 0 {
		a := b.exec(oneDir, "breaking", "--against", oldImg)
		c := b.exec(oneDir, "breaking", oneImg, "--against", oldImg)
		d := b.exec(oneDir, "breaking", oneImg, "--against", oldDir)
		run.Count("B:breaking")
		if a.code == 100 {
			run.Count("B:breaking=violations")
		}
		if a.code != c.code || stripModDirs(a.stdout, 1) != sortedLines(c.stdout) {
			fail("C11-breaking-image-vs-source", fmt.Sprintf("sources: exit %d\n%s%s\nimage: exit %d\n%s%s", a.code, a.stdout, a.stderr, c.code, c.stdout, c.stderr), nil)
		}
		if c.code != d.code || sortedLines(c.stdout) != sortedLines(d.stdout) {
			fail("C11-breaking-against-image-vs-source", fmt.Sprintf("against image: exit %d\n%s%s\nagainst sources: exit %d\n%s%s", c.code, c.stdout, c.stderr, d.code, d.stdout, d.stderr), nil)
		}
	}
	// (5) build --path / --exclude-path on image vs on sources
	var fps []string
	modOf := map[string][]int{}
	for mi, m := range ws.mods {
		for _, f := range m.files {
			fps = append(fps, f.path)
			c := comps(f.path)
			for j := 1; j <= len(c); j++ {
				p := strings.Join(c[:j], "/")
				if len(modOf[p]) == 0 || modOf[p][len(modOf[p])-1] != mi {
					modOf[p] = append(modOf[p], mi)
				}
			}
		}
	}
	cands := candidatePaths(fps)
	cands = cands[:len(cands)-4] // only existing paths: the CLI rejects missing ones for sources
	for t := 0; t < 4; t++ {
		paths, excl := pickPaths(r, cands, false)
		if !sideCondition(paths, excl) || (len(paths) == 0 && len(excl) == 0) {
			continue
		}
		var srcArgs, imgArgs []string
		for _, p := range paths {
			imgArgs = append(imgArgs, "--path", p)
			for _, mi := range modOf[p] {
				srcArgs = append(srcArgs, "--path", fmt.Sprintf("m%d/%s", mi, p))
			}
		}
		for _, e := range excl {
			imgArgs = append(imgArgs, "--exclude-path", e)
			for _, mi := range modOf[e] {
				srcArgs = append(srcArgs, "--exclude-path", fmt.Sprintf("m%d/%s", mi, e))
			}
		}
		a := b.exec(dir, append([]string{"build", "-o", "-#format=binpb"}, srcArgs...)...)
		c := b.exec(dir, append([]string{"build", imgFile, "-o", "-#format=binpb"}, imgArgs...)...)
		run.Count("B:path-build")
		in := map[string]any{"paths": paths, "exclude": excl}
		if a.code != 0 || c.code != 0 {
			if a.code != 0 && c.code != 0 {
				run.Count("B:path-build=both-fail")
				continue
			}
			fail("C11-path-build-image-vs-source-error", fmt.Sprintf("sources: exit %d %s; image: exit %d %s", a.code, a.stderr, c.code, c.stderr), in)
			continue
		}
		ao, af, err1 := imageFiles([]byte(a.stdout))
		co, cf, err2 := imageFiles([]byte(c.stdout))
		if err1 != nil || err2 != nil {
			fail("C11-path-build-unreadable", fmt.Sprint(err1, err2), in)
			continue
		}
		same := len(af) == len(cf)
		for kk, v := range af {
			same = same && cf[kk] == v
		}
		if !same {
			// is the ONLY difference the unused-dependency indexes of files that are imports on both sides?
			an, aerr := normUnusedOfImports([]byte(a.stdout))
			cn, cerr := normUnusedOfImports([]byte(c.stdout))
			onlyUnused := aerr == nil && cerr == nil && len(an) == len(cn)
			for kk, v := range an {
				onlyUnused = onlyUnused && cn[kk] == v
			}
			if onlyUnused {
				run.Count("B:path-build=import-unused-dependency-differs")
				if unusedDepWitnesses++; unusedDepWitnesses <= 20 {
					fail("C11-path-build-import-unused-dependency-differs", fmt.Sprintf("same files, flags and descriptors, but an import file carries different unused_dependency indexes: sources %v, image %v", unusedOf([]byte(a.stdout)), unusedOf([]byte(c.stdout))), in)
				}
			} else {
				fail("C11-path-build-image-vs-source", fmt.Sprintf("sources give %v, image gives %v (or file contents differ)", ao, co), in)
			}
		} else if strings.Join(ao, ",") != strings.Join(co, ",") {
			run.Count("B:path-build=same-files-different-order")
		}
	}
}

func firstLines(s string, n int) string {
	l := strings.Split(s, "\n")
	if len(l) > n {
		l = l[:n]
	}
	return strings.Join(l, " | ")
}

// mutateWS makes a "past" version: some fields renumbered / removed, a file dropped.
func mutateWS(r *hx.Rand, ws workspace) workspace {
	var out workspace
	for _, m := range ws.mods {
		nm := module{name: m.name, target: m.target}
		for _, f := range m.files {
			body := f.body
			switch r.Intn(4) {
			case 0:
				body = strings.Replace(body, "string id = 1", "string id = 9", 1)
			case 1:
				body = strings.Replace(body, "string id = 1", "int64 id = 1", 1)
			case 2:
				body = strings.Replace(body, "}\n", "  reserved 14;\n}\nmessage Gone { }\n", 1)
			}
			nm.files = append(nm.files, srcFile{path: f.path, imports: f.imports, body: body})
		}
		out.mods = append(out.mods, nm)
	}
	return out
}
