package main

import (
	"encoding/json"
	"fmt"
	"os"
	"path/filepath"
	"regexp"
	"sort"
	"strings"
	"sync"

	"github.com/bufbuild/verifharness/internal/hx"
)

// ---------------------------------------------------------------------------------------
// Part B2: WHICH CHECK CONFIGURATION an image input gets (oracle only, real binary).
//
// `buf lint IMAGE` / `buf breaking IMAGE` have no workspace to take the lint / breaking
// configuration from: bufctl.GetTargetImageWithConfigsAndCheckClient reads the buf.yaml of the
// current directory (or --config) itself and re-implements the choice "top-level section, or
// the default OF THAT FILE VERSION".  The property says the image stands in for its sources, so
// for every configuration shape the four runs
//
//	S/ws   buf lint                  (cwd: sources + buf.yaml = K)
//	I/ws   buf lint IMAGE            (cwd: the same directory)
//	S/cfg  buf lint --config K       (cwd: sources + a DIFFERENT or no buf.yaml)
//	I/cfg  buf lint IMAGE --config K (cwd: the same directory as S/cfg)
//
// must agree in stdout, stderr and exit code; the same for `buf breaking … --against OLD`.
// The workspaces are one module at "." (an image does not record module directories; with the
// module at the root, paths of the configuration, of the CLI and of the image coincide), plus a
// "module in a sub-directory" layout where the source-side configuration is written relative to
// the buf.yaml and the image-side one relative to the module.
//
// The generator PLANTS the facts that make the configurations observable: violations that
// exist only in one version's default rule set (FIELD_NO_DESCRIPTOR v1beta1; IMPORT_USED,
// ENUM_FIRST_VALUE_ZERO, SYNTAX_SPECIFIED v1+; FIELD_NOT_REQUIRED v2; EXTENSION_NO_DELETE,
// FIELD_SAME_DEFAULT breaking v2), `// buf:lint:ignore RULE` comments on elements that really
// violate RULE (honoured by default in v2 only), violations in string-prefix sibling directories
// (a, a/b, ab, c, c/d), breaking changes in stable and unstable packages and a deleted file.

type chkFile struct {
	idx                  int
	dir, path, pkg       string
	syntax               string // "proto3", "proto2", "" (unspecified)
	imp                  int    // index of the imported file or -1
	useImp               bool
	badField, badMsg     int // 0 absent, 1 no comment, 2 comment naming the rule, 3 comment naming another rule
	badEnum, badValue    int
	svc, descriptorField int
	required, nonZero    int
	pkgIgnore            int // 0 none, 2 PACKAGE_DIRECTORY_MATCH ignored by comment, 3 other rule
	hasDefault, hasExt   bool
	brkType, brkRename   bool
	brkDelField          bool
	brkDelMsg            bool
	brkDelValue          bool
	brkDelRPC            bool
	brkDefault           bool
	brkDelExt            bool
}

type chkWS struct {
	files    []chkFile
	goneFile bool // the old version has c/gone.proto
	name     string
}

func (f chkFile) p2() bool { return f.syntax != "proto3" }

func ignoreComment(mode int, rule string, indent string) string {
	switch mode {
	case 2:
		return indent + "// buf:lint:ignore " + rule + "\n"
	case 3:
		return indent + "// buf:lint:ignore ENUM_NO_ALLOW_ALIAS\n"
	}
	return ""
}

func (ws chkWS) render(f chkFile, old bool) string {
	var sb strings.Builder
	lbl := ""
	if f.p2() {
		lbl = "optional "
	}
	sb.WriteString(fmt.Sprintf("// File %s.\n", f.path))
	if f.syntax != "" {
		sb.WriteString("syntax = \"" + f.syntax + "\";\n")
	}
	sb.WriteString(ignoreComment(f.pkgIgnore, "PACKAGE_DIRECTORY_MATCH", ""))
	sb.WriteString("package " + f.pkg + ";\n")
	if f.imp >= 0 {
		sb.WriteString("import \"" + ws.files[f.imp].path + "\";\n")
	}
	sb.WriteString("// M is documented.\nmessage M {\n")
	if old && f.brkType {
		sb.WriteString("  " + lbl + "int64 id = 1;\n")
	} else {
		sb.WriteString("  " + lbl + "string id = 1;\n")
	}
	if old && f.brkRename {
		sb.WriteString("  " + lbl + "string title = 2;\n")
	} else {
		sb.WriteString("  " + lbl + "string name = 2;\n")
	}
	if old && f.brkDelField {
		sb.WriteString("  " + lbl + "string gone = 3;\n")
	}
	if f.imp >= 0 && f.useImp {
		sb.WriteString("  " + lbl + "." + ws.files[f.imp].pkg + ".M r = 4;\n")
	}
	if f.badField > 0 {
		sb.WriteString(ignoreComment(f.badField, "FIELD_LOWER_SNAKE_CASE", "  "))
		sb.WriteString("  " + lbl + "int32 BadName = 15;\n")
	}
	if f.descriptorField > 0 {
		sb.WriteString(ignoreComment(f.descriptorField, "FIELD_NO_DESCRIPTOR", "  "))
		sb.WriteString("  " + lbl + "int32 descriptor = 16;\n")
	}
	if f.required > 0 && f.p2() {
		sb.WriteString(ignoreComment(f.required, "FIELD_NOT_REQUIRED", "  "))
		sb.WriteString("  required string req = 20;\n")
	}
	if f.hasDefault && f.p2() {
		d := 5
		if old && f.brkDefault {
			d = 7
		}
		sb.WriteString(fmt.Sprintf("  optional int32 dflt = 21 [default = %d];\n", d))
	}
	sb.WriteString("}\n")
	if old && f.brkDelMsg {
		sb.WriteString("message Gone { }\n")
	}
	if f.badMsg > 0 {
		sb.WriteString(ignoreComment(f.badMsg, "MESSAGE_PASCAL_CASE", ""))
		sb.WriteString(fmt.Sprintf("message bad_msg%d { }\n", f.idx))
	}
	if f.badEnum > 0 {
		sb.WriteString(ignoreComment(f.badEnum, "ENUM_PASCAL_CASE", ""))
		sb.WriteString(fmt.Sprintf("enum bad_enum%d { BAD_ENUM%d_UNSPECIFIED = 0; }\n", f.idx, f.idx))
	}
	if f.badValue > 0 || f.brkDelValue {
		sb.WriteString(fmt.Sprintf("enum E%d {\n  E%d_UNSPECIFIED = 0;\n", f.idx, f.idx))
		if f.badValue > 0 {
			sb.WriteString(ignoreComment(f.badValue, "ENUM_VALUE_UPPER_SNAKE_CASE", "  "))
			sb.WriteString(fmt.Sprintf("  badValue%d = 1;\n", f.idx))
		}
		if old && f.brkDelValue {
			sb.WriteString(fmt.Sprintf("  E%d_GONE = 2;\n", f.idx))
		}
		sb.WriteString("}\n")
	}
	if f.nonZero > 0 && f.p2() {
		sb.WriteString(ignoreComment(f.nonZero, "ENUM_FIRST_VALUE_ZERO", ""))
		sb.WriteString(fmt.Sprintf("enum P%d { P%d_ONE = 1; }\n", f.idx, f.idx))
	}
	if f.svc > 0 || f.brkDelRPC {
		sb.WriteString(ignoreComment(f.svc, "SERVICE_SUFFIX", ""))
		sb.WriteString(fmt.Sprintf("service Svc%d {\n  rpc Get(M) returns (M);\n", f.idx))
		if old && f.brkDelRPC {
			sb.WriteString("  rpc Gone(M) returns (M);\n")
		}
		sb.WriteString("}\n")
	}
	if f.hasExt && f.syntax == "proto2" {
		sb.WriteString("message X { extensions 100 to 200; }\nextend X {\n  optional int32 xe = 100;\n")
		if old && f.brkDelExt {
			sb.WriteString("  optional int32 xgone = 101;\n")
		}
		sb.WriteString("}\n")
	}
	return sb.String()
}

var chkDirPool = []string{"a", "a/b", "ab", "c", "c/d"}

func genCheckWS(r *hx.Rand, named bool) chkWS {
	var ws chkWS
	if named {
		ws.name = "buf.build/acme/chk"
	}
	n := 4 + r.Intn(3)
	fixedDirs := []string{"a", "a/b", "ab", "c/d"}
	mode := func(p int) int { // present with probability p/4; then comment mode 1..3
		if r.Intn(4) >= p {
			return 0
		}
		return 1 + r.Intn(3)
	}
	for i := 0; i < n; i++ {
		f := chkFile{idx: i, imp: -1}
		if i < len(fixedDirs) {
			f.dir = fixedDirs[i]
		} else {
			f.dir = hx.Pick(r, chkDirPool)
		}
		f.path = f.dir + fmt.Sprintf("/f%d.proto", i)
		f.pkg = fmt.Sprintf("pkg.f%d", i) + hx.Pick(r, []string{"", ".v1", ".v1", ".v1beta1", ".v2alpha1"})
		f.syntax = hx.Pick(r, []string{"proto3", "proto3", "proto2"})
		if i >= 4 && r.Chance(1, 2) {
			f.syntax = ""
		}
		if i > 0 && r.Chance(2, 3) {
			f.imp = r.Intn(i)
			f.useImp = r.Chance(2, 3)
		}
		f.badField, f.badMsg, f.badEnum, f.badValue = mode(2), mode(2), mode(1), mode(2)
		f.svc, f.descriptorField, f.required, f.nonZero = mode(1), mode(1), mode(2), mode(2)
		if r.Chance(1, 3) {
			f.pkgIgnore = 2 + r.Intn(2)
		}
		f.hasDefault, f.hasExt = r.Bool(), r.Bool()
		f.brkType, f.brkRename, f.brkDelField, f.brkDelMsg = r.Chance(1, 3), r.Chance(1, 3), r.Chance(1, 3), r.Chance(1, 3)
		f.brkDelValue, f.brkDelRPC, f.brkDefault, f.brkDelExt = r.Chance(1, 3), r.Chance(1, 4), r.Chance(1, 2), r.Chance(1, 2)
		ws.files = append(ws.files, f)
	}
	// planted facts (see the comment at the top)
	f := &ws.files[0] // a/
	f.syntax, f.badField, f.badMsg, f.brkRename, f.brkDelMsg = "proto3", 2, 1, true, true
	f = &ws.files[1] // a/b/ : unstable package, breaking change, uncommented violations
	f.pkg, f.badField, f.brkType, f.svc, f.pkgIgnore = "pkg.f1.v1beta1", 1, true, 2, 0
	f = &ws.files[2] // ab/ : stable package, an unused import
	f.pkg, f.badEnum, f.brkDelField, f.imp, f.useImp, f.badValue = "pkg.f2.v1", 2, true, 0, false, 2
	f = &ws.files[3] // c/d/ : proto2 facts
	f.syntax, f.required, f.nonZero, f.descriptorField = "proto2", 1, 1, 1
	f.hasDefault, f.hasExt, f.brkDefault, f.brkDelExt = true, true, true, true
	if n > 4 {
		ws.files[4].syntax = "" // SYNTAX_SPECIFIED
	}
	ws.goneFile = r.Chance(2, 3)
	return ws
}

func (ws chkWS) write(dir, sub string, old bool) {
	base := filepath.Join(dir, sub)
	for _, f := range ws.files {
		full := filepath.Join(base, f.path)
		must0(os.MkdirAll(filepath.Dir(full), 0o755))
		must0(os.WriteFile(full, []byte(ws.render(f, old)), 0o644))
	}
	if old && ws.goneFile {
		full := filepath.Join(base, "c/gone.proto")
		must0(os.MkdirAll(filepath.Dir(full), 0o755))
		must0(os.WriteFile(full, []byte("syntax = \"proto3\";\npackage pkg.gone.v1;\nmessage M { string id = 1; }\n"), 0o644))
	}
}

// ---- configurations

type lintCfg struct {
	use, except, ignore []string
	ignoreOnly          map[string][]string
	commentIgnores      int // 0 unset; 1 allowed; 2 disallowed (spelled per version)
	enumZeroSuffix      string
	serviceSuffix       string
	rpcAllowSame        bool
}

type brkCfg struct {
	use, except, ignore []string
	ignoreOnly          map[string][]string
	unstable            bool
}

type checkCfg struct {
	version          string
	name             string
	lintKind         string
	brkKind          string
	lint             *lintCfg // nil: no lint key
	breaking         *brkCfg
	lintNull         bool   // an empty section spelled `lint:` (null) instead of `lint: {}`
	sub              string // module sub-directory ("" = module at the root)
	prefixPaths      bool   // v2 + sub: configuration paths are relative to the buf.yaml, i.e. prefixed with sub
	moduleLevel      bool   // v2: the sections are written on the single module instead of at the top level
	explicitModuleV2 bool   // v2: spell `modules: [{path: .}]` although it is the default
}

func prefixed(pre string, xs []string) []string {
	if pre == "" {
		return xs
	}
	out := make([]string, len(xs))
	for i, x := range xs {
		if x == "." {
			out[i] = pre
		} else {
			out[i] = pre + "/" + x
		}
	}
	return out
}

func (c checkCfg) toMap() map[string]any {
	m := map[string]any{"version": c.version}
	pre := ""
	if c.prefixPaths {
		pre = c.sub
	}
	var lint, brk any
	hasLint, hasBrk := false, false
	if c.lint != nil {
		hasLint = true
		l := map[string]any{}
		if len(c.lint.use) > 0 {
			l["use"] = c.lint.use
		}
		if len(c.lint.except) > 0 {
			l["except"] = c.lint.except
		}
		if len(c.lint.ignore) > 0 {
			l["ignore"] = prefixed(pre, c.lint.ignore)
		}
		if len(c.lint.ignoreOnly) > 0 {
			io := map[string]any{}
			for k, v := range c.lint.ignoreOnly {
				io[k] = prefixed(pre, v)
			}
			l["ignore_only"] = io
		}
		switch {
		case c.lint.commentIgnores == 1 && c.version == "v2":
			l["disallow_comment_ignores"] = false
		case c.lint.commentIgnores == 2 && c.version == "v2":
			l["disallow_comment_ignores"] = true
		case c.lint.commentIgnores == 1:
			l["allow_comment_ignores"] = true
		case c.lint.commentIgnores == 2:
			l["allow_comment_ignores"] = false
		}
		if c.lint.enumZeroSuffix != "" {
			l["enum_zero_value_suffix"] = c.lint.enumZeroSuffix
		}
		if c.lint.serviceSuffix != "" {
			l["service_suffix"] = c.lint.serviceSuffix
		}
		if c.lint.rpcAllowSame {
			l["rpc_allow_same_request_response"] = true
		}
		lint = l
		if len(l) == 0 && c.lintNull {
			lint = nil
		}
	}
	if c.breaking != nil {
		hasBrk = true
		b := map[string]any{}
		if len(c.breaking.use) > 0 {
			b["use"] = c.breaking.use
		}
		if len(c.breaking.except) > 0 {
			b["except"] = c.breaking.except
		}
		if len(c.breaking.ignore) > 0 {
			b["ignore"] = prefixed(pre, c.breaking.ignore)
		}
		if len(c.breaking.ignoreOnly) > 0 {
			io := map[string]any{}
			for k, v := range c.breaking.ignoreOnly {
				io[k] = prefixed(pre, v)
			}
			b["ignore_only"] = io
		}
		if c.breaking.unstable {
			b["ignore_unstable_packages"] = true
		}
		brk = b
		if len(b) == 0 && c.lintNull {
			brk = nil
		}
	}
	top := m
	if c.version == "v2" && (c.sub != "" || c.moduleLevel || c.explicitModuleV2) {
		mod := map[string]any{"path": "."}
		if c.sub != "" {
			mod["path"] = c.sub
		}
		if c.name != "" {
			mod["name"] = c.name
		}
		m["modules"] = []any{mod}
		if c.moduleLevel {
			top = mod
		}
	} else {
		if c.name != "" {
			m["name"] = c.name
		}
		if c.version == "v1beta1" && c.sub != "" {
			m["build"] = map[string]any{"roots": []string{c.sub}}
		}
	}
	if hasLint {
		top["lint"] = lint
	}
	if hasBrk {
		top["breaking"] = brk
	}
	return m
}

func (c checkCfg) json() string { return string(must(json.Marshal(c.toMap()))) }

func (c checkCfg) yaml() string {
	var sb strings.Builder
	yamlMap(&sb, c.toMap(), 0)
	return sb.String()
}

func yamlMap(sb *strings.Builder, m map[string]any, ind int) {
	keys := make([]string, 0, len(m))
	for k := range m {
		keys = append(keys, k)
	}
	sort.Slice(keys, func(i, j int) bool { // version first, as people write it
		if (keys[i] == "version") != (keys[j] == "version") {
			return keys[i] == "version"
		}
		return keys[i] < keys[j]
	})
	pad := strings.Repeat("  ", ind)
	for _, k := range keys {
		switch v := m[k].(type) {
		case nil:
			sb.WriteString(pad + k + ":\n")
		case string:
			sb.WriteString(pad + k + ": " + yamlScalar(v) + "\n")
		case bool:
			sb.WriteString(fmt.Sprintf("%s%s: %v\n", pad, k, v))
		case []string:
			sb.WriteString(pad + k + ":\n")
			for _, x := range v {
				sb.WriteString(pad + "  - " + yamlScalar(x) + "\n")
			}
		case []any: // list of maps (modules)
			sb.WriteString(pad + k + ":\n")
			for _, x := range v {
				var inner strings.Builder
				yamlMap(&inner, x.(map[string]any), ind+2)
				s := inner.String()
				// turn the first key's indentation into "- "
				p2 := strings.Repeat("  ", ind+2)
				sb.WriteString(pad + "  - " + strings.TrimPrefix(s, p2))
			}
		case map[string]any:
			if len(v) == 0 {
				sb.WriteString(pad + k + ": {}\n")
			} else {
				sb.WriteString(pad + k + ":\n")
				yamlMap(sb, v, ind+1)
			}
		default:
			panic(fmt.Sprintf("yaml: %T", v))
		}
	}
}

func yamlScalar(s string) string {
	if s == "." || strings.ContainsAny(s, ": #{}[],&*!|>'\"%@`") {
		return fmt.Sprintf("%q", s)
	}
	return s
}

var lintKinds = []string{"none", "empty", "use-except", "ignore", "ignore-only", "comment-nondefault", "comment-default-explicit", "options", "combo", "disabled", "bad-rule"}
var brkKinds = []string{"none", "empty", "use", "except", "ignore", "ignore-only", "unstable", "combo"}

var lintRulePool = []string{"FIELD_LOWER_SNAKE_CASE", "MESSAGE_PASCAL_CASE", "ENUM_PASCAL_CASE", "PACKAGE_DIRECTORY_MATCH", "PACKAGE_VERSION_SUFFIX",
	"ENUM_VALUE_UPPER_SNAKE_CASE", "SERVICE_SUFFIX", "RPC_REQUEST_STANDARD_NAME", "ENUM_VALUE_PREFIX", "BASIC", "MINIMAL"}
var brkRulePool = []string{"FIELD_SAME_TYPE", "FIELD_NO_DELETE", "MESSAGE_NO_DELETE", "FILE_NO_DELETE", "FIELD_SAME_NAME", "FIELD_SAME_JSON_NAME",
	"ENUM_VALUE_NO_DELETE", "RPC_NO_DELETE", "WIRE", "WIRE_JSON"}

func topLintCategory(version string) string {
	if version == "v2" {
		return "STANDARD"
	}
	return "DEFAULT"
}

func (ws chkWS) pathCands() []string {
	seen := map[string]bool{}
	var out []string
	for _, f := range ws.files {
		for _, p := range []string{f.dir, f.path, strings.SplitN(f.dir, "/", 2)[0]} {
			if !seen[p] {
				seen[p] = true
				out = append(out, p)
			}
		}
	}
	sort.Strings(out)
	return out
}

func pickSome(r *hx.Rand, pool []string, min, max int) []string {
	n := min + r.Intn(max-min+1)
	seen := map[string]bool{}
	var out []string
	for len(out) < n && len(seen) < len(pool) {
		p := hx.Pick(r, pool)
		if !seen[p] {
			seen[p] = true
			out = append(out, p)
		}
	}
	return out
}

// noNested drops a path that is inside (or equal to) another picked path: buf accepts such lists
// but they add nothing, and for --path/--exclude-path the side condition needs them apart.
func pickPathsFor(r *hx.Rand, ws chkWS, min, max int, extra ...string) []string {
	return noNested(pickSome(r, append(ws.pathCands(), extra...), min, max))
}

// noNested keeps the first of two paths one of which contains the other: buf rejects such a
// list ("ignore path a/b is within ignore path a which is not allowed"), and reports WHICH pair
// in map order.
func noNested(paths []string) []string {
	var out []string
	for _, p := range paths {
		ok := true
		for _, q := range out {
			if contains(q, p) || contains(p, q) {
				ok = false
			}
		}
		if ok {
			out = append(out, p)
		}
	}
	return out
}

func genLintCfg(r *hx.Rand, ws chkWS, version, kind string) *lintCfg {
	top := topLintCategory(version)
	switch kind {
	case "none":
		return nil
	case "empty":
		return &lintCfg{}
	case "use-except":
		l := &lintCfg{}
		switch r.Intn(4) {
		case 0:
			l.use = []string{top, "COMMENTS"}
		case 1:
			l.use = []string{"BASIC"}
		case 2:
			l.use = append([]string{"MINIMAL"}, pickSome(r, lintRulePool[:9], 1, 3)...)
		default:
			l.use = []string{top}
		}
		l.except = []string{"PACKAGE_DIRECTORY_MATCH"} // every file violates it (a/b/f1.proto without a comment ignore)
		for _, x := range pickSome(r, lintRulePool[:9], 0, 2) {
			if x != "PACKAGE_DIRECTORY_MATCH" {
				l.except = append(l.except, x)
			}
		}
		return l
	case "ignore":
		l := &lintCfg{ignore: pickPathsFor(r, ws, 1, 2)}
		if r.Chance(1, 3) {
			l.ignore = append(l.ignore, "nope")
		}
		if r.Chance(1, 3) {
			l.ignore = noNested(append(l.ignore, "a")) // a/ and a/b/ but not ab/
		}
		return l
	case "ignore-only":
		l := &lintCfg{ignoreOnly: map[string][]string{}}
		for _, rule := range pickSome(r, lintRulePool, 1, 3) {
			l.ignoreOnly[rule] = pickPathsFor(r, ws, 1, 2)
		}
		l.ignoreOnly["FIELD_LOWER_SNAKE_CASE"] = []string{"a"} // a/ and a/b/ but not ab/
		return l
	case "comment-nondefault":
		if version == "v2" {
			return &lintCfg{commentIgnores: 2}
		}
		return &lintCfg{commentIgnores: 1}
	case "comment-default-explicit":
		// the default value spelled out, next to another key so that the section is not empty
		l := &lintCfg{use: []string{top}, commentIgnores: 1}
		if version != "v2" {
			l.commentIgnores = 2
		}
		return l
	case "options":
		return &lintCfg{enumZeroSuffix: hx.Pick(r, []string{"_NONE", "_UNSPECIFIED", "_ONE"}), serviceSuffix: hx.Pick(r, []string{"", "API", fmt.Sprintf("Svc%d", r.Intn(4))}), rpcAllowSame: r.Bool()}
	case "combo":
		l := &lintCfg{ignore: pickPathsFor(r, ws, 0, 2), commentIgnores: r.Intn(3), ignoreOnly: map[string][]string{}}
		if r.Bool() {
			l.use = []string{top, "UNARY_RPC"}
		}
		if r.Bool() {
			l.except = pickSome(r, lintRulePool[:9], 1, 2)
		}
		for _, rule := range pickSome(r, lintRulePool, 0, 2) {
			l.ignoreOnly[rule] = pickPathsFor(r, ws, 1, 2)
		}
		if r.Bool() {
			l.enumZeroSuffix = "_NONE"
		}
		if len(l.use)+len(l.except)+len(l.ignore)+len(l.ignoreOnly)+l.commentIgnores == 0 && l.enumZeroSuffix == "" {
			l.except = []string{"PACKAGE_VERSION_SUFFIX"}
		}
		return l
	case "disabled":
		return &lintCfg{ignore: []string{"."}}
	case "bad-rule":
		return &lintCfg{use: []string{top, "NOT_A_RULE"}}
	}
	panic(kind)
}

func genBrkCfg(r *hx.Rand, ws chkWS, kind string) *brkCfg {
	extra := []string{"nope"}
	if ws.goneFile {
		extra = append(extra, "c/gone.proto")
	}
	switch kind {
	case "none":
		return nil
	case "empty":
		return &brkCfg{}
	case "use":
		switch r.Intn(4) {
		case 0:
			return &brkCfg{use: []string{"WIRE"}}
		case 1:
			return &brkCfg{use: []string{"PACKAGE"}}
		case 2:
			return &brkCfg{use: []string{"WIRE_JSON"}}
		}
		return &brkCfg{use: pickSome(r, brkRulePool[:8], 2, 4)}
	case "except":
		return &brkCfg{use: []string{"FILE"}, except: pickSome(r, brkRulePool[:8], 1, 3)}
	case "ignore":
		b := &brkCfg{ignore: pickPathsFor(r, ws, 1, 2)}
		if r.Chance(1, 2) {
			b.ignore = noNested(append(b.ignore, hx.Pick(r, extra)))
		}
		return b
	case "ignore-only":
		b := &brkCfg{ignoreOnly: map[string][]string{}}
		for _, rule := range pickSome(r, brkRulePool, 1, 3) {
			b.ignoreOnly[rule] = pickPathsFor(r, ws, 1, 2, extra...)
		}
		b.ignoreOnly["FIELD_SAME_NAME"] = []string{"a"}
		return b
	case "unstable":
		return &brkCfg{unstable: true}
	case "combo":
		b := &brkCfg{ignore: pickPathsFor(r, ws, 0, 1), unstable: r.Bool(), ignoreOnly: map[string][]string{}}
		if r.Bool() {
			b.use = []string{hx.Pick(r, []string{"FILE", "PACKAGE", "WIRE_JSON"})}
		}
		for _, rule := range pickSome(r, brkRulePool, 0, 2) {
			b.ignoreOnly[rule] = pickPathsFor(r, ws, 1, 2)
		}
		if len(b.use)+len(b.ignore)+len(b.ignoreOnly) == 0 && !b.unstable {
			b.except = []string{"FILE_NO_DELETE"}
		}
		return b
	}
	panic(kind)
}

// ---- running

type job struct {
	dir  string
	args []string
}

func (b *bufRun) execAll(jobs []job) []result {
	out := make([]result, len(jobs))
	sem := make(chan struct{}, 12)
	var wg sync.WaitGroup
	for i := range jobs {
		wg.Add(1)
		sem <- struct{}{}
		go func(i int) {
			defer wg.Done()
			defer func() { <-sem }()
			out[i] = b.execRaw(jobs[i].dir, jobs[i].args...)
		}(i)
	}
	wg.Wait()
	for range jobs {
		b.count++
		b.run.Eval()
	}
	return out
}

func shellQuote(args []string) string {
	parts := make([]string, len(args))
	for i, a := range args {
		if a != "" && !strings.ContainsAny(a, " '\"{}[]$&|;<>()*?!#~`\\\n") {
			parts[i] = a
		} else {
			parts[i] = "'" + strings.ReplaceAll(a, "'", `'\''`) + "'"
		}
	}
	return strings.Join(parts, " ")
}

func (b *bufRun) cmdLine(j job) string {
	return "(cd " + j.dir + " && " + b.bin + " " + shellQuote(j.args) + ")"
}

type cfgCase struct {
	cfg      checkCfg
	label    string
	dir      string // sources + buf.yaml = cfg
	decoy    string // sources + another / no buf.yaml
	decoyTag string
	argKind  string // inline | file
	cfgArg   string
	img      string
	format   string
	// job indexes; -1 = not run
	lint    [4]int // S/ws I/ws S/cfg I/cfg
	brk     [4]int
	brkDir  int // I/ws against the old SOURCES
	pathS   int
	pathI   int
	pathArg []string
}

func firstDiff(a, b string) string {
	al, bl := strings.Split(a, "\n"), strings.Split(b, "\n")
	for i := 0; i < len(al) || i < len(bl); i++ {
		var x, y string
		if i < len(al) {
			x = al[i]
		}
		if i < len(bl) {
			y = bl[i]
		}
		if x != y {
			return fmt.Sprintf("first difference at line %d: %q vs %q (%d vs %d lines)", i+1, x, y, len(al), len(bl))
		}
	}
	return "identical"
}

var decodeSource = regexp.MustCompile(`(?m)^Failure: decode [^:]*:`)

// stderrClass is stderr with the one part removed that legitimately names where the
// configuration came from ("decode buf.yaml:" / "decode .:" / "decode config file:").
func stderrClass(s string) string {
	// an empty selection is the same outcome on both sides (theorem targeting_equivalence: "both
	// fail (no-files / no-targets)"); the two implementations word it differently
	if strings.HasPrefix(s, "Failure: no .proto files were targeted.") || strings.HasPrefix(s, "Failure: image contains no files") {
		return "Failure: <nothing selected>"
	}
	return decodeSource.ReplaceAllString(s, "Failure: decode <config>:")
}

func sameResult(a, b result) bool {
	return a.code == b.code && a.stdout == b.stdout && stderrClass(a.stderr) == stderrClass(b.stderr)
}

func describe(tag string, r result) string {
	return fmt.Sprintf("%s: exit %d, stdout %d lines, stderr %q", tag, r.code, strings.Count(r.stdout, "\n"), firstLines(r.stderr, 2))
}

// stripLinePrefix removes "sub/" at the start of every diagnostic line (sources below a module
// sub-directory are reported relative to the working directory, image files relative to the module).
func stripLinePrefix(s, sub string) string {
	if sub == "" {
		return s
	}
	lines := strings.Split(s, "\n")
	for i, l := range lines {
		lines[i] = strings.TrimPrefix(l, sub+"/")
	}
	return strings.Join(lines, "\n")
}

func partBChecks(run *hx.Run, b *bufRun, r *hx.Rand, root string, wi int) {
	ws := genCheckWS(r, wi%2 == 1)
	base := filepath.Join(root, fmt.Sprintf("chk%d", wi))
	must0(os.RemoveAll(base))
	must0(os.MkdirAll(filepath.Join(base, "configs"), 0o755))
	replayNote := fmt.Sprintf("build/c11 --out /tmp/c11-replay --seed %d --tier %s   # part B2 workspace %d: directories are left in <out>/b/chk%d; the commands below reproduce the two sides", run.Seed, run.Tier, wi, wi)
	fail := func(class, what string, c *cfgCase, cmds ...string) {
		in := map[string]any{"workspace": base}
		if c != nil {
			in["config"] = c.cfg.yaml()
			in["config_label"] = c.label
			in["config_given_as"] = c.argKind + " (decoy buf.yaml in cwd: " + c.decoyTag + ")"
		}
		in["commands"] = cmds
		run.Fail(hx.OracleFailure{Class: class, What: what, Input: in, Replay: replayNote + "\n" + strings.Join(cmds, "\n")})
	}

	// the old version (breaking): sources and image
	oldDir := filepath.Join(base, "old")
	ws.write(oldDir, "", true)
	must0(os.WriteFile(filepath.Join(oldDir, "buf.yaml"), []byte("version: v2\n"), 0o644))
	oldImg := filepath.Join(base, "old.binpb")
	if res := b.exec(oldDir, "build", "-o", oldImg); res.code != 0 {
		fail("C11-generator-workspace-does-not-build", "old version: "+res.stderr, nil)
		return
	}
	// decoy directories for the --config runs: no buf.yaml / a v1 one / a v2 one, all DIFFERENT from any generated config
	decoys := map[string]string{
		"none": "",
		"v1":   "version: v1\nlint:\n  use:\n    - MINIMAL\n  allow_comment_ignores: true\nbreaking:\n  use:\n    - WIRE\n",
		"v2":   "version: v2\nlint:\n  use:\n    - MINIMAL\n  disallow_comment_ignores: true\nbreaking:\n  use:\n    - WIRE\n",
	}
	decoyTags := []string{"none", "v1", "v2"}
	for tag, text := range decoys {
		d := filepath.Join(base, "decoy-"+tag)
		ws.write(d, "", false)
		if text != "" {
			must0(os.WriteFile(filepath.Join(d, "buf.yaml"), []byte(text), 0o644))
		}
	}

	// ---- the configuration matrix
	var cases []*cfgCase
	versions := []string{"v1beta1", "v1", "v2"}
	off := r.Intn(len(brkKinds))
	for _, v := range versions {
		kinds := append([]string{"none"}, lintKinds...) // the first "none" is the version-only file
		for k, lk := range kinds {
			cr := r.Fork(uint64(len(cases)))
			bk := brkKinds[(k+off)%len(brkKinds)]
			if k == 0 {
				bk = "none"
			} else if lk == "none" && bk == "none" {
				bk = "empty"
			}
			c := &cfgCase{cfg: checkCfg{version: v, name: ws.name, lintKind: lk, brkKind: bk}}
			c.cfg.lint = genLintCfg(cr, ws, v, lk)
			c.cfg.breaking = genBrkCfg(cr, ws, bk)
			c.cfg.lintNull = cr.Bool()
			c.cfg.explicitModuleV2 = v == "v2" && cr.Chance(1, 4)
			c.label = fmt.Sprintf("%s/lint=%s/breaking=%s", v, lk, bk)
			c.decoyTag = decoyTags[(k+len(cases))%3]
			c.format = "text"
			selfChecked := lk == "none" || lk == "comment-nondefault" || lk == "disabled" || lk == "use-except" || bk == "unstable"
			if !selfChecked && cr.Chance(1, 3) {
				c.format = "json"
			}
			cases = append(cases, c)
		}
	}
	images := map[string]string{}
	var jobs []job
	add := func(dir string, args ...string) int {
		jobs = append(jobs, job{dir, args})
		return len(jobs) - 1
	}
	cands := ws.pathCands()
	for ci, c := range cases {
		c.dir = filepath.Join(base, fmt.Sprintf("k%02d-%s", ci, c.cfg.version))
		ws.write(c.dir, "", false)
		must0(os.WriteFile(filepath.Join(c.dir, "buf.yaml"), []byte(c.cfg.yaml()), 0o644))
		c.decoy = filepath.Join(base, "decoy-"+c.decoyTag)
		if ci%2 == 0 {
			c.argKind, c.cfgArg = "inline", c.cfg.json()
		} else {
			c.argKind = "file"
			c.cfgArg = filepath.Join(base, "configs", fmt.Sprintf("k%02d.yaml", ci))
			must0(os.WriteFile(c.cfgArg, []byte(c.cfg.yaml()), 0o644))
		}
		// one image per file version, built from the version-only directory (first case of the version)
		if _, ok := images[c.cfg.version]; !ok {
			img := filepath.Join(base, "new-"+c.cfg.version+".binpb")
			if res := b.exec(c.dir, "build", "-o", img); res.code != 0 {
				fail("C11-generator-workspace-does-not-build", "new version ("+c.cfg.version+"): "+res.stderr, c)
				return
			}
			images[c.cfg.version] = img
		}
		c.img = images[c.cfg.version]
		ef := "--error-format=" + c.format
		c.lint = [4]int{
			add(c.dir, "lint", ef),
			add(c.dir, "lint", c.img, ef),
			add(c.decoy, "lint", "--config", c.cfgArg, ef),
			add(c.decoy, "lint", c.img, "--config", c.cfgArg, ef),
		}
		c.brk = [4]int{
			add(c.dir, "breaking", "--against", oldImg, ef),
			add(c.dir, "breaking", c.img, "--against", oldImg, ef),
			add(c.decoy, "breaking", "--against", oldImg, "--config", c.cfgArg, ef),
			add(c.decoy, "breaking", c.img, "--against", oldImg, "--config", c.cfgArg, ef),
		}
		c.brkDir, c.pathS, c.pathI = -1, -1, -1
		if ci%4 == 1 {
			c.brkDir = add(c.dir, "breaking", c.img, "--against", oldDir, ef)
		}
		if ci%3 == 0 || c.cfg.lintKind == "ignore" || c.cfg.lintKind == "ignore-only" {
			// --path / --exclude-path together with lint on the image (existing paths, no --path inside an --exclude-path)
			cr := r.Fork(uint64(1000 + ci))
			for try := 0; try < 20; try++ {
				paths, excl := pickSome(cr, cands, 0, 2), pickSome(cr, cands, 0, 2)
				if len(paths)+len(excl) == 0 || !sideCondition(paths, excl) {
					continue
				}
				var pa []string
				for _, p := range paths {
					pa = append(pa, "--path", p)
				}
				for _, e := range excl {
					pa = append(pa, "--exclude-path", e)
				}
				c.pathArg = pa
				break
			}
			if c.pathArg != nil {
				c.pathS = add(c.dir, append([]string{"lint", ef}, c.pathArg...)...)
				c.pathI = add(c.dir, append([]string{"lint", c.img, ef}, c.pathArg...)...)
			}
		}
	}
	// the image must not depend on the version of the buf.yaml it was built under
	imgBytes := string(must(os.ReadFile(images["v2"])))
	for _, v := range versions {
		if string(must(os.ReadFile(images[v]))) != imgBytes {
			fail("C11-image-depends-on-config-version", "the image built under a "+v+" buf.yaml differs from the one built under v2 (same sources)", nil, "cmp "+images[v]+" "+images["v2"])
		}
	}

	// ---- module in a sub-directory: source-side paths relative to the buf.yaml, image-side relative to the module
	type subCase struct {
		src, img checkCfg
		dir      string
		label    string
		lintS    int
		lintI    int
		brkS     int
		brkI     int
		inline   bool
	}
	var subs []*subCase
	for si, kind := range []string{"ignore", "ignore-only", "combo", "roots-v1beta1", "none"} {
		cr := r.Fork(uint64(2000 + si))
		s := &subCase{label: "subdir/" + kind}
		v, lk, bk := "v2", kind, hx.Pick(cr, []string{"ignore", "ignore-only", "combo"})
		if kind == "roots-v1beta1" {
			v, lk = "v1beta1", hx.Pick(cr, []string{"ignore", "ignore-only"})
		}
		if kind == "none" {
			bk = "none"
		}
		s.src = checkCfg{version: v, name: ws.name, lintKind: lk, brkKind: bk, sub: "proto", prefixPaths: v == "v2"}
		s.src.lint = genLintCfg(cr, ws, v, lk)
		s.src.breaking = genBrkCfg(cr, ws, bk)
		s.img = s.src
		s.img.sub, s.img.prefixPaths = "", false
		s.dir = filepath.Join(base, fmt.Sprintf("sub%d", si))
		ws.write(s.dir, "proto", false)
		must0(os.WriteFile(filepath.Join(s.dir, "buf.yaml"), []byte(s.src.yaml()), 0o644))
		// the image side runs in a directory that holds the module-relative configuration
		idir := filepath.Join(s.dir, "imgside")
		must0(os.MkdirAll(idir, 0o755))
		must0(os.WriteFile(filepath.Join(idir, "buf.yaml"), []byte(s.img.yaml()), 0o644))
		s.inline = si%2 == 1
		s.lintS = add(s.dir, "lint")
		s.brkS = add(s.dir, "breaking", "--against", oldImg)
		if s.inline {
			s.lintI = add(base, "lint", images[v], "--config", s.img.json())
			s.brkI = add(base, "breaking", images[v], "--against", oldImg, "--config", s.img.json())
		} else {
			s.lintI = add(idir, "lint", images[v])
			s.brkI = add(idir, "breaking", images[v], "--against", oldImg)
		}
		subs = append(subs, s)
	}

	// ---- v2: the sections written ON the single module (path ".") instead of at the top level
	type modCase struct {
		cfg   checkCfg
		dir   string
		label string
		jobs  [4]int // lint S, lint I, breaking S, breaking I
	}
	var mods []*modCase
	for mi, kind := range []string{"module-level-only", "module-level-and-top-level"} {
		cr := r.Fork(uint64(3000 + mi))
		m := &modCase{label: "v2/" + kind}
		m.cfg = checkCfg{version: "v2", name: ws.name, lintKind: "use-except", brkKind: "use", moduleLevel: true}
		m.cfg.lint = genLintCfg(cr, ws, "v2", "use-except")
		m.cfg.breaking = &brkCfg{use: []string{"WIRE"}}
		m.dir = filepath.Join(base, fmt.Sprintf("mod%d", mi))
		ws.write(m.dir, "", false)
		text := m.cfg.yaml()
		if mi == 1 {
			text += "lint:\n  use:\n    - MINIMAL\nbreaking:\n  use:\n    - PACKAGE\n"
		}
		must0(os.WriteFile(filepath.Join(m.dir, "buf.yaml"), []byte(text), 0o644))
		m.jobs = [4]int{add(m.dir, "lint"), add(m.dir, "lint", images["v2"]), add(m.dir, "breaking", "--against", oldImg), add(m.dir, "breaking", images["v2"], "--against", oldImg)}
		mods = append(mods, m)
	}

	// ---- no buf.yaml at all and no --config: both sides fall back to the same (v1) defaults
	noneDir := filepath.Join(base, "decoy-none")
	noCfg := [4]int{add(noneDir, "lint"), add(noneDir, "lint", images["v1"]), add(noneDir, "breaking", "--against", oldImg), add(noneDir, "breaking", images["v1"], "--against", oldImg)}

	res := b.execAll(jobs)

	// ---- judge
	lintOut := map[string]string{} // label -> S/ws stdout, for the self-check of the generator
	brkOut := map[string]string{}
	for _, c := range cases {
		run.Count("B2:config=" + c.cfg.version + "/lint=" + c.cfg.lintKind)
		run.Count("B2:config=" + c.cfg.version + "/breaking=" + c.cfg.brkKind)
		run.Count("B2:config-given-as=" + c.argKind + ",cwd-buf.yaml=" + c.decoyTag)
		run.Distinct(fmt.Sprintf("B2:%d:%s", wi, c.label))
		type cmp struct {
			class, what string
			a, b        int
		}
		for _, kind := range []string{"lint", "breaking"} {
			ix := c.lint
			if kind == "breaking" {
				ix = c.brk
			}
			s := res[ix[0]]
			switch {
			case s.code == 100:
				run.Count("B2:" + kind + "=violations")
			case s.code == 0:
				run.Count("B2:" + kind + "=clean")
			default:
				run.Count("B2:" + kind + "=error")
			}
			if s.code != 0 && s.code != 100 && !(s.code == 1 && c.cfg.lintKind == "bad-rule") {
				fail("C11-"+kind+"-sources-unexpected-error", describe("sources", s), c, b.cmdLine(jobs[ix[0]]))
			}
			for _, q := range []cmp{
				{"C11-" + kind + "-image-vs-source", "workspace buf.yaml", ix[0], ix[1]},
				{"C11-" + kind + "-image-vs-source", "--config", ix[2], ix[3]},
				{"C11-" + kind + "-config-flag-vs-workspace", "sources: buf.yaml in the workspace vs the same configuration through --config", ix[0], ix[2]},
			} {
				x, y := res[q.a], res[q.b]
				run.Count("B2:" + kind + "-comparison")
				if !sameResult(x, y) {
					fail(q.class, fmt.Sprintf("%s [%s, %s]\n%s\n%s\nstdout: %s", kind, c.label, q.what, describe("first", x), describe("second", y), firstDiff(x.stdout, y.stdout)),
						c, b.cmdLine(jobs[q.a]), b.cmdLine(jobs[q.b]))
				}
			}
		}
		if c.brkDir >= 0 {
			x, y := res[c.brk[1]], res[c.brkDir]
			run.Count("B2:breaking-against-sources-comparison")
			if !sameResult(x, y) {
				fail("C11-breaking-against-image-vs-source", fmt.Sprintf("[%s]\n%s\n%s\nstdout: %s", c.label, describe("against image", x), describe("against sources", y), firstDiff(x.stdout, y.stdout)),
					c, b.cmdLine(jobs[c.brk[1]]), b.cmdLine(jobs[c.brkDir]))
			}
		}
		if c.pathS >= 0 {
			x, y := res[c.pathS], res[c.pathI]
			run.Count("B2:lint-with-paths-comparison")
			if x.stdout != res[c.lint[0]].stdout {
				run.Count("B2:lint-with-paths=selection-changes-output")
			}
			if x.code == 1 && stderrClass(x.stderr) == "Failure: <nothing selected>" {
				run.Count("B2:lint-with-paths=nothing-selected")
			}
			if !sameResult(x, y) {
				fail("C11-lint-paths-image-vs-source", fmt.Sprintf("[%s] %v\n%s\n%s\nstdout: %s", c.label, c.pathArg, describe("sources", x), describe("image", y), firstDiff(x.stdout, y.stdout)),
					c, b.cmdLine(jobs[c.pathS]), b.cmdLine(jobs[c.pathI]))
			}
		}
		if c.format == "text" {
			lintOut[c.cfg.version+"/"+c.cfg.lintKind+"/"+c.cfg.brkKind] = res[c.lint[0]].stdout
			brkOut[c.cfg.version+"/"+c.cfg.lintKind+"/"+c.cfg.brkKind] = res[c.brk[0]].stdout
		}
	}
	for _, s := range subs {
		for _, kind := range []string{"lint", "breaking"} {
			a, c := s.lintS, s.lintI
			if kind == "breaking" {
				a, c = s.brkS, s.brkI
			}
			x, y := res[a], res[c]
			run.Count("B2:subdir-" + kind + "-comparison")
			run.Count("B2:config=" + s.label)
			if x.code != y.code || stripLinePrefix(x.stdout, "proto") != y.stdout || stderrClass(x.stderr) != stderrClass(y.stderr) {
				cc := &cfgCase{cfg: s.src, label: s.label, argKind: "workspace (image side: module-relative configuration)", decoyTag: "-"}
				fail("C11-"+kind+"-image-vs-source-module-subdir", fmt.Sprintf("[%s] module in proto/\n%s\n%s\nstdout: %s", s.label, describe("sources", x), describe("image", y), firstDiff(stripLinePrefix(x.stdout, "proto"), y.stdout)),
					cc, b.cmdLine(jobs[a]), b.cmdLine(jobs[c]))
			}
		}
	}

	for q, kind := range []string{"lint", "breaking"} {
		x, y := res[noCfg[2*q]], res[noCfg[2*q+1]]
		run.Count("B2:" + kind + "-comparison")
		run.Count("B2:config=no-buf.yaml")
		if !sameResult(x, y) {
			fail("C11-"+kind+"-image-vs-source", fmt.Sprintf("%s [no buf.yaml in the working directory, no --config]\n%s\n%s\nstdout: %s", kind, describe("sources", x), describe("image", y), firstDiff(x.stdout, y.stdout)),
				nil, b.cmdLine(jobs[noCfg[2*q]]), b.cmdLine(jobs[noCfg[2*q+1]]))
		}
	}
	for _, m := range mods {
		for q, kind := range []string{"lint", "breaking"} {
			x, y := res[m.jobs[2*q]], res[m.jobs[2*q+1]]
			run.Count("B2:module-level-" + kind + "-comparison")
			run.Count("B2:config=" + m.label)
			if !sameResult(x, y) {
				cc := &cfgCase{cfg: m.cfg, label: m.label, argKind: "workspace", decoyTag: "-"}
				fail("C11-"+kind+"-image-ignores-module-level-config", fmt.Sprintf("[%s] %s section on the single module at \".\": the sources are checked with it, the image with the top-level section / the v2 default\n%s\n%s\nstdout: %s\nbuf.yaml:\n%s",
					m.label, kind, describe("sources", x), describe("image", y), firstDiff(x.stdout, y.stdout), string(must(os.ReadFile(filepath.Join(m.dir, "buf.yaml"))))),
					cc, b.cmdLine(jobs[m.jobs[2*q]]), b.cmdLine(jobs[m.jobs[2*q+1]]))
			}
		}
	}

	// ---- self-check of the generator: the planted facts must make the configurations observable ON THE
	// SOURCES (otherwise an image side that picks the wrong configuration could not be noticed)
	first := func(m map[string]string, version, lk string) (string, bool) {
		for k, v := range m {
			p := strings.Split(k, "/")
			if p[0] == version && p[1] == lk && (lk != "none" || p[2] == "none") {
				return v, true
			}
		}
		return "", false
	}
	firstBrk := func(version, bk string) (string, bool) {
		for k, v := range brkOut {
			p := strings.Split(k, "/")
			if p[0] == version && p[2] == bk && (bk != "none" || p[1] == "none") {
				return v, true
			}
		}
		return "", false
	}
	distinct := func(what string, a string, aok bool, c string, cok bool) {
		if !aok || !cok {
			fail("C11-generator-check-matrix-blind", "self-check: a configuration of the matrix is missing for "+what, nil)
			return
		}
		run.Count("B2:self-check")
		if a == c {
			fail("C11-generator-check-matrix-blind", "the generated workspace does not distinguish "+what+" on the SOURCES: the planted facts are gone (generator or buf's rules changed)", nil)
		}
	}
	l0, ok0 := first(lintOut, "v1beta1", "none")
	l1, ok1 := first(lintOut, "v1", "none")
	l2, ok2 := first(lintOut, "v2", "none")
	distinct("lint defaults of v1beta1 and v1", l0, ok0, l1, ok1)
	distinct("lint defaults of v1 and v2", l1, ok1, l2, ok2)
	b1, okb1 := firstBrk("v1", "none")
	b2, okb2 := firstBrk("v2", "none")
	distinct("breaking defaults of v1 and v2", b1, okb1, b2, okb2)
	for _, v := range versions {
		d, okd := first(lintOut, v, "none")
		for _, lk := range []string{"use-except", "comment-nondefault", "disabled"} {
			o, ok := first(lintOut, v, lk)
			distinct("lint "+lk+" from the "+v+" default", d, okd, o, ok)
		}
		bd, okbd := firstBrk(v, "none")
		o, ok := firstBrk(v, "unstable")
		distinct("breaking ignore_unstable_packages from the "+v+" default", bd, okbd, o, ok)
	}
	seen := map[string]bool{}
	for _, v := range lintOut {
		seen[v] = true
	}
	run.CountN("B2:distinct-lint-outputs", len(seen))
	seen = map[string]bool{}
	for _, v := range brkOut {
		seen[v] = true
	}
	run.CountN("B2:distinct-breaking-outputs", len(seen))
}
