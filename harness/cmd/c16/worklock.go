package main

import (
	"bytes"
	"fmt"
	"os"
	"sort"
	"strings"

	"github.com/bufbuild/buf/private/bufpkg/bufconfig"
	"github.com/bufbuild/buf/private/bufpkg/bufparse"
	"github.com/bufbuild/buf/private/bufpkg/bufplugin"
	"github.com/bufbuild/buf/private/pkg/uuidutil"
	"github.com/bufbuild/verifharness/internal/hx"
	"github.com/bufbuild/verifharness/internal/nd"
	"gopkg.in/yaml.v3"
)

// ---------------------------------------------------------------------------------------------
// Section B: buf.work.yaml

type yWork struct {
	Version     string   `yaml:"version,omitempty"`
	Directories []string `yaml:"directories,omitempty"`
}

func runWork(run *hx.Run, r *hx.Rand, n int) {
	pool := append(append([]string{}, moduleDirs...), hostileDirs...)
	for i := 0; i < n; i++ {
		rr := r.Fork(uint64(i))
		var dirs []string
		hostile := rr.Chance(1, 3)
		for j, m := 0, rr.Intn(5); j < m || (!hostile && j == 0); j++ {
			switch {
			case hostile && rr.Chance(1, 12):
				dirs = append(dirs, hx.Pick(rr, badPaths))
			case rr.Chance(1, 3):
				dirs = append(dirs, joinp(hx.Pick(rr, pool[1:5]), hx.Pick(rr, subDirs)))
			case hostile:
				dirs = append(dirs, hx.Pick(rr, pool))
			default:
				dirs = append(dirs, hx.Pick(rr, []string{"proto", "vendor", "api", "x y", "é", "third_party/googleapis", "a-b", "libs/one", "libs/two"}))
			}
		}
		data := mustYAML(yWork{"v1", dirs})
		line := "work\t" + nd.Strs(dirs).String()
		replay := fmt.Sprintf("%s --seed %d --tier %s --out <dir>   # section work case %d; document:\n%s", os.Args[0], run.Seed, run.Tier, i, data)
		f1, err := bufconfig.ReadBufWorkYAMLFile(bytes.NewReader(data), "buf.work.yaml")
		if err != nil {
			run.Case(line, "err", false)
			run.Count("work:err")
			continue
		}
		run.Count("work:ok")
		c1 := nd.Strs(f1.DirPaths())
		var w1 bytes.Buffer
		if err := bufconfig.WriteBufWorkYAMLFile(&w1, f1); err != nil {
			failC(run, hx.OracleFailure{Class: "work-write-error", What: err.Error(), Input: string(data), Replay: replay})
			continue
		}
		var yw yWork
		wstr := "unparsable"
		if err := yaml.Unmarshal(w1.Bytes(), &yw); err == nil {
			wstr = nd.Strs(yw.Directories).String()
		}
		third := "same"
		f2, err := bufconfig.ReadBufWorkYAMLFile(bytes.NewReader(w1.Bytes()), "buf.work.yaml")
		if err != nil {
			third = "err"
			failC(run, hx.OracleFailure{Class: "work-reread-error", What: err.Error(), Input: string(data), Replay: replay})
		} else {
			c2 := nd.Strs(f2.DirPaths())
			if c2.String() != c1.String() {
				third = c2.String()
				failC(run, hx.OracleFailure{Class: "work-roundtrip-changed", What: "buf.work.yaml directories changed over read/write/read", Input: string(data), Replay: replay})
			}
			var w2 bytes.Buffer
			if err := bufconfig.WriteBufWorkYAMLFile(&w2, f2); err != nil || !bytes.Equal(w1.Bytes(), w2.Bytes()) {
				failC(run, hx.OracleFailure{Class: "work-write-not-idempotent", What: "second write differs", Input: string(data), Replay: replay})
			}
		}
		run.Case(line, "ok "+c1.String()+" "+wstr+" "+third, len(dirs) > 1)
	}
}

// ---------------------------------------------------------------------------------------------
// Section C: buf.lock

type gLockDep struct {
	Remote, Owner, Repo string
	NameValid           bool
	Commit              string
	CommitValid         bool
	Digest              string
	DigestType          string // b4 | b5 | other
}

type yLockDepV1 struct {
	Remote     string `yaml:"remote,omitempty"`
	Owner      string `yaml:"owner,omitempty"`
	Repository string `yaml:"repository,omitempty"`
	Branch     string `yaml:"branch,omitempty"`
	Commit     string `yaml:"commit,omitempty"`
	Digest     string `yaml:"digest,omitempty"`
}

type yLockV1 struct {
	Version string       `yaml:"version,omitempty"`
	Deps    []yLockDepV1 `yaml:"deps,omitempty"`
	Plugins []yLockDepV2 `yaml:"plugins,omitempty"` // not a key of v1beta1/v1 files: the reader must reject it
}

type yLockDepV2 struct {
	Name   string `yaml:"name,omitempty"`
	Commit string `yaml:"commit,omitempty"`
	Digest string `yaml:"digest,omitempty"`
}

type yLockV2 struct {
	Version string       `yaml:"version,omitempty"`
	Deps    []yLockDepV2 `yaml:"deps,omitempty"`
	Plugins []yLockDepV2 `yaml:"plugins,omitempty"`
}

// gLockPlugin: a `plugins:` entry with the verdicts of the library parsers (parameters of the model).
type gLockPlugin struct {
	Name        string
	NameValid   bool
	Commit      string
	CommitValid bool
	Digest      string
	DigestValid bool
}

func mkLockPlugin(name, commit, digest string) gLockPlugin {
	p := gLockPlugin{Name: name, Commit: commit, Digest: digest}
	if name != "" {
		_, err := bufparse.ParseFullName(name)
		p.NameValid = err == nil
	}
	if commit != "" {
		_, err := uuidutil.FromDashless(commit)
		p.CommitValid = err == nil
	}
	if digest != "" {
		_, err := bufplugin.ParseDigest(digest)
		p.DigestValid = err == nil
	}
	return p
}

func lockPluginsNode(ps []gLockPlugin) nd.Node {
	xs := []nd.Node{}
	for _, p := range ps {
		xs = append(xs, nd.L(nd.A(p.Name), nd.B(p.NameValid), nd.A(p.Commit), nd.B(p.CommitValid), nd.A(p.Digest), nd.B(p.DigestValid)))
	}
	return nd.L(xs...)
}

func hexStr(r *hx.Rand, n int) string {
	const digits = "0123456789abcdef"
	b := make([]byte, n)
	for i := range b {
		b[i] = digits[r.Intn(16)]
	}
	if strings.Trim(string(b), "0") == "" {
		b[0] = '1'
	}
	return string(b)
}

func lockDepsNode(ds []gLockDep) nd.Node {
	xs := []nd.Node{}
	for _, d := range ds {
		xs = append(xs, nd.L(nd.A(d.Remote), nd.A(d.Owner), nd.A(d.Repo), nd.B(d.NameValid), nd.A(d.Commit), nd.B(d.CommitValid), nd.A(d.Digest), nd.A(d.DigestType)))
	}
	return nd.L(xs...)
}

func canonLock(f bufconfig.BufLockFile) (nd.Node, error) {
	xs := []nd.Node{}
	for _, k := range f.DepModuleKeys() {
		dg, err := k.Digest()
		if err != nil {
			return nd.Node{}, err
		}
		xs = append(xs, nd.L(nd.A(k.FullName().Registry()), nd.A(k.FullName().Owner()), nd.A(k.FullName().Name()), nd.A(uuidutil.ToDashless(k.CommitID())), nd.A(dg.String())))
	}
	ps := []nd.Node{}
	for _, k := range f.RemotePluginKeys() {
		dg, err := k.Digest()
		if err != nil {
			return nd.Node{}, err
		}
		ps = append(ps, nd.L(nd.A(k.FullName().String()), nd.A(uuidutil.ToDashless(k.CommitID())), nd.A(dg.String())))
	}
	return nd.L(nd.A(f.FileVersion().String()), nd.L(xs...), nd.L(ps...)), nil
}

// lockPluginsFaithful: the `plugins:` entries of a buf.lock document (decoded with yaml.v3) are,
// as a set, exactly the (full name, commit, digest) triples of RemotePluginKeys(), which are
// sorted by full name (implementation-only oracle; independent of the model).
func lockPluginsFaithful(doc []byte, f bufconfig.BufLockFile) []string {
	var y struct {
		Plugins []yLockDepV2 `yaml:"plugins"`
	}
	if err := yaml.Unmarshal(doc, &y); err != nil {
		return []string{"document does not decode: " + err.Error()}
	}
	var want, got []string
	for _, p := range y.Plugins {
		want = append(want, p.Name+" "+p.Commit+" "+p.Digest)
	}
	sort.Strings(want)
	prev := ""
	for _, k := range f.RemotePluginKeys() {
		dg, err := k.Digest()
		if err != nil {
			return []string{"Digest(): " + err.Error()}
		}
		name := k.FullName().String()
		if prev != "" && !(prev < name) {
			return []string{fmt.Sprintf("RemotePluginKeys() not sorted by full name: %q before %q", prev, name)}
		}
		prev = name
		got = append(got, name+" "+uuidutil.ToDashless(k.CommitID())+" "+dg.String())
	}
	sort.Strings(got)
	if strings.Join(want, "|") != strings.Join(got, "|") {
		return []string{fmt.Sprintf("document %q, keys %q", want, got)}
	}
	return nil
}

func digestClass(s string) string {
	switch {
	case strings.HasPrefix(s, "shake256:"):
		return "b4"
	case strings.HasPrefix(s, "b5:"):
		return "b5"
	}
	return "other"
}

func runLock(run *hx.Run, r *hx.Rand, n int) {
	owners := []string{"acme", "googleapis", "bufbuild"}
	repos := []string{"a", "b", "googleapis", "protovalidate", "weather"}
	for i := 0; i < n; i++ {
		rr := r.Fork(uint64(i))
		ver := hx.Pick(rr, []string{"v1beta1", "v1", "v2", "v2"})
		var ds []gLockDep
		for j, m := 0, rr.Intn(5); j < m; j++ {
			d := gLockDep{Remote: hx.Pick(rr, []string{"buf.build", "example.com"}), Owner: hx.Pick(rr, owners), Repo: hx.Pick(rr, repos), NameValid: true,
				Commit: hexStr(rr, 32), CommitValid: true}
			want := "b4"
			if ver == "v2" {
				want = "b5"
			}
			dt := want
			if rr.Chance(1, 15) {
				dt = hx.Pick(rr, []string{"b4", "b5", "other"})
			}
			switch dt {
			case "b4":
				d.Digest = "shake256:" + hexStr(rr, 128)
			case "b5":
				d.Digest = "b5:" + hexStr(rr, 128)
			default:
				d.Digest = hx.Pick(rr, []string{"b1-abcdef", "b3-0011", ""})
			}
			d.DigestType = dt
			switch {
			case rr.Chance(1, 40):
				d.Owner = ""
			case rr.Chance(1, 40):
				d.Commit = ""
			case rr.Chance(1, 40):
				d.Commit, d.CommitValid = "xyz", false
			}
			ds = append(ds, d)
		}
		// plugins: section (v2; rarely also put into a v1beta1/v1 file, which must be rejected)
		var ps []gLockPlugin
		if (ver == "v2" && rr.Chance(1, 2)) || (ver != "v2" && rr.Chance(1, 12)) {
			for j, m := 0, 1+rr.Intn(3); j < m; j++ {
				name := hx.Pick(rr, []string{"buf.build", "example.com"}) + "/" + hx.Pick(rr, owners) + "/" + hx.Pick(rr, []string{"plug-a", "plug-b", "go", "lint"})
				commit := hexStr(rr, 32)
				digest := "p1:" + hexStr(rr, 128)
				switch {
				case rr.Chance(1, 25):
					name = hx.Pick(rr, []string{"", "acme/plug", "buf.build/acme", "buf.build/acme/p/q"})
				case rr.Chance(1, 25):
					commit = hx.Pick(rr, []string{"", "xyz", hexStr(rr, 31)})
				case rr.Chance(1, 15):
					digest = hx.Pick(rr, []string{"", "p1:abcd", "b5:" + hexStr(rr, 128), "shake256:" + hexStr(rr, 128), "p2:" + hexStr(rr, 128), "p1:zz", "p1" + hexStr(rr, 128)})
				}
				ps = append(ps, mkLockPlugin(name, commit, digest))
			}
			if len(ps) > 1 && rr.Chance(1, 10) {
				ps[1].Name, ps[1].NameValid = ps[0].Name, ps[0].NameValid // duplicate plugin name
			}
			run.Count("lock:" + ver + ":with-plugins")
		}
		yps := []yLockDepV2{}
		for _, p := range ps {
			yps = append(yps, yLockDepV2{p.Name, p.Commit, p.Digest})
		}
		if len(yps) == 0 {
			yps = nil
		}
		var data []byte
		if ver == "v2" {
			y := yLockV2{Version: ver, Plugins: yps}
			for _, d := range ds {
				name := d.Remote + "/" + d.Owner + "/" + d.Repo
				if d.Owner == "" {
					name = "" // v2 spells the name as one string; an absent owner is modelled as an absent name
				}
				y.Deps = append(y.Deps, yLockDepV2{name, d.Commit, d.Digest})
			}
			data = mustYAML(y)
		} else {
			y := yLockV1{Version: ver, Plugins: yps}
			for _, d := range ds {
				y.Deps = append(y.Deps, yLockDepV1{Remote: d.Remote, Owner: d.Owner, Repository: d.Repo, Commit: d.Commit, Digest: d.Digest})
			}
			data = mustYAML(y)
		}
		line := "lock\t" + ver + "\t" + lockDepsNode(ds).String() + "\t" + lockPluginsNode(ps).String()
		replay := fmt.Sprintf("%s --seed %d --tier %s --out <dir>   # section lock case %d; document:\n%s", os.Args[0], run.Seed, run.Tier, i, data)
		f1, err := bufconfig.ReadBufLockFile(ctx, bytes.NewReader(data), "buf.lock")
		if err != nil {
			run.Case(line, "err", false)
			run.Count("lock:" + ver + ":err")
			continue
		}
		c1, err := canonLock(f1)
		if err != nil {
			run.Case(line, "err", false)
			continue
		}
		run.Count("lock:" + ver + ":ok")
		if ds := lockPluginsFaithful(data, f1); len(ds) > 0 {
			failC(run, hx.OracleFailure{Class: "lock-plugin-read-unfaithful", What: "buf.lock plugins: RemotePluginKeys() do not say what the document says: " + strings.Join(ds, "; "), Input: string(data), Replay: replay})
		}
		var w1 bytes.Buffer
		if err := bufconfig.WriteBufLockFile(&w1, f1); err != nil {
			failC(run, hx.OracleFailure{Class: "lock-write-error", What: err.Error(), Input: string(data), Replay: replay})
			continue
		}
		if ds := lockPluginsFaithful(w1.Bytes(), f1); len(ds) > 0 {
			failC(run, hx.OracleFailure{Class: "lock-plugin-written-unfaithful", What: "buf.lock plugins: the written document does not spell the keys that were written: " + strings.Join(ds, "; "),
				Input: map[string]string{"document": string(data), "written": w1.String()}, Replay: replay})
		}
		// re-parse the written file into the structured form
		var wds []gLockDep
		var wps []gLockPlugin
		if ver == "v2" {
			var y yLockV2
			if err := yaml.Unmarshal(w1.Bytes(), &y); err == nil {
				for _, p := range y.Plugins {
					wps = append(wps, mkLockPlugin(p.Name, p.Commit, p.Digest))
				}
				for _, d := range y.Deps {
					parts := strings.SplitN(d.Name, "/", 3)
					for len(parts) < 3 {
						parts = append(parts, "")
					}
					wds = append(wds, gLockDep{parts[0], parts[1], parts[2], true, d.Commit, true, d.Digest, digestClass(d.Digest)})
				}
			}
		} else {
			var y yLockV1
			if err := yaml.Unmarshal(w1.Bytes(), &y); err == nil {
				for _, d := range y.Deps {
					wds = append(wds, gLockDep{d.Remote, d.Owner, d.Repository, true, d.Commit, true, d.Digest, digestClass(d.Digest)})
				}
			}
		}
		third := "same"
		f2, err := bufconfig.ReadBufLockFile(ctx, bytes.NewReader(w1.Bytes()), "buf.lock")
		if err != nil {
			third = "err"
			failC(run, hx.OracleFailure{Class: "lock-reread-error", What: err.Error(), Input: string(data), Replay: replay})
		} else {
			c2, _ := canonLock(f2)
			if c2.String() != c1.String() {
				third = c2.String()
				failC(run, hx.OracleFailure{Class: "lock-roundtrip-changed", What: "buf.lock dependencies / plugins / pinned digests changed over read/write/read", Input: string(data), Replay: replay})
			}
			var w2 bytes.Buffer
			if err := bufconfig.WriteBufLockFile(&w2, f2); err != nil || !bytes.Equal(w1.Bytes(), w2.Bytes()) {
				failC(run, hx.OracleFailure{Class: "lock-write-not-idempotent", What: "second write differs", Input: string(data), Replay: replay})
			}
		}
		run.Case(line, "ok "+c1.String()+" "+lockDepsNode(wds).String()+" "+lockPluginsNode(wps).String()+" "+third, len(ds)+len(ps) > 0)
	}
}
