// Command c16 is the correspondence + oracle harness for property C16
// ("configuration files round-trip and migration to v2 preserves behaviour").
//
// Section A (buf.yaml, all versions), B (buf.work.yaml), C (buf.lock): structured documents are
// generated from the seed, rendered to YAML, read with the real bufconfig readers, the accessor
// values are canonicalised into one Node, written back with the real writers, read again and
// written again.  Oracle (implementation only): accessor values equal before/after, second
// write byte-identical to the first.  Correspondence: the line
//     ok <accessors> <written document, re-parsed by the harness> <same|err|accessors after>
// must be what the Lean model (BufModel.Config) computes from the structured document alone.
// plugins.go: the `plugins:` section of buf.yaml accessor by accessor (Type, Name, Ref incl. label /
// commit, Args, Options with value types) against the document, over read/write/read and against
// the written document, + a stratified family of plugin shapes x option value types.
// Section D (gen.go): buf.gen.yaml.  Section E (migrate.go): `buf config migrate` on generated
// v1/v1beta1 workspaces on disk: images, lint and breaking results before/after.
// Section F (migroot, this file): the migrator's roots/excludes -> module path/excludes
// translation against the model, and the real workspace targeting before/after.
package main

import (
	"bytes"
	"context"
	"flag"
	"fmt"
	"os"
	"sort"
	"strings"
	"time"

	"github.com/bufbuild/buf/private/bufpkg/bufconfig"
	"github.com/bufbuild/verifharness/internal/hx"
	"github.com/bufbuild/verifharness/internal/nd"
	"gopkg.in/yaml.v3"
)

var ctx = context.Background()

// ---------------------------------------------------------------------------------------------
// structured documents

type gLint struct {
	Use, Except, Ignore                []string
	IgnoreOnly                         map[string][]string
	EnumZero, ServiceSuffix            string
	RPCSame, RPCReq, RPCResp           bool
	CommentFlag                        bool // v1: allow_comment_ignores, v2: disallow_comment_ignores
	DisableBuiltin                     bool
}

type gBreaking struct {
	Use, Except, Ignore []string
	IgnoreOnly          map[string][]string
	IgnoreUnstable      bool
	DisableBuiltin      bool
}

type gRef struct {
	Full, Ref string
	Valid     bool
	Raw       string // what is written into the document
}

type gName struct {
	Name  string
	Valid bool
}

type gModule struct {
	Path               string
	Name               gName
	Includes, Excludes []string
	Lint               gLint
	Breaking           gBreaking
}

type gPlugin struct {
	Path       []string
	IsRef      bool
	Options    map[string]any
	NullOption bool
}

type gV2 struct {
	Name     gName
	Modules  []gModule
	Deps     []gRef
	Lint     gLint
	Breaking gBreaking
	Plugins  []gPlugin
}

type gV1 struct {
	Name            gName
	Deps            []gRef
	Roots, Excludes []string
	Lint            gLint
	Breaking        gBreaking
}

// YAML mirrors of the external structs.
type yLintV1 struct {
	Use            []string            `yaml:"use,omitempty"`
	Except         []string            `yaml:"except,omitempty"`
	Ignore         []string            `yaml:"ignore,omitempty"`
	IgnoreOnly     map[string][]string `yaml:"ignore_only,omitempty"`
	EnumZero       string              `yaml:"enum_zero_value_suffix,omitempty"`
	RPCSame        bool                `yaml:"rpc_allow_same_request_response,omitempty"`
	RPCReq         bool                `yaml:"rpc_allow_google_protobuf_empty_requests,omitempty"`
	RPCResp        bool                `yaml:"rpc_allow_google_protobuf_empty_responses,omitempty"`
	ServiceSuffix  string              `yaml:"service_suffix,omitempty"`
	Allow          bool                `yaml:"allow_comment_ignores,omitempty"`
	DisableBuiltin bool                `yaml:"disable_builtin,omitempty"`
}

type yLintV2 struct {
	Use            []string            `yaml:"use,omitempty"`
	Except         []string            `yaml:"except,omitempty"`
	Ignore         []string            `yaml:"ignore,omitempty"`
	IgnoreOnly     map[string][]string `yaml:"ignore_only,omitempty"`
	EnumZero       string              `yaml:"enum_zero_value_suffix,omitempty"`
	RPCSame        bool                `yaml:"rpc_allow_same_request_response,omitempty"`
	RPCReq         bool                `yaml:"rpc_allow_google_protobuf_empty_requests,omitempty"`
	RPCResp        bool                `yaml:"rpc_allow_google_protobuf_empty_responses,omitempty"`
	ServiceSuffix  string              `yaml:"service_suffix,omitempty"`
	Disallow       bool                `yaml:"disallow_comment_ignores,omitempty"`
	DisableBuiltin bool                `yaml:"disable_builtin,omitempty"`
}

type yBreaking struct {
	Use            []string            `yaml:"use,omitempty"`
	Except         []string            `yaml:"except,omitempty"`
	Ignore         []string            `yaml:"ignore,omitempty"`
	IgnoreOnly     map[string][]string `yaml:"ignore_only,omitempty"`
	IgnoreUnstable bool                `yaml:"ignore_unstable_packages,omitempty"`
	DisableBuiltin bool                `yaml:"disable_builtin,omitempty"`
}

type yBuild struct {
	Roots    []string `yaml:"roots,omitempty"`
	Excludes []string `yaml:"excludes,omitempty"`
}

type yV1 struct {
	Version  string    `yaml:"version,omitempty"`
	Name     string    `yaml:"name,omitempty"`
	Deps     []string  `yaml:"deps,omitempty"`
	Build    yBuild    `yaml:"build,omitempty"`
	Lint     yLintV1   `yaml:"lint,omitempty"`
	Breaking yBreaking `yaml:"breaking,omitempty"`
}

type yModule struct {
	Path     string    `yaml:"path,omitempty"`
	Name     string    `yaml:"name,omitempty"`
	Includes []string  `yaml:"includes,omitempty"`
	Excludes []string  `yaml:"excludes,omitempty"`
	Lint     yLintV2   `yaml:"lint,omitempty"`
	Breaking yBreaking `yaml:"breaking,omitempty"`
}

type yPlugin struct {
	Plugin  any            `yaml:"plugin,omitempty"`
	Options map[string]any `yaml:"options,omitempty"`
}

type yV2 struct {
	Version  string    `yaml:"version,omitempty"`
	Name     string    `yaml:"name,omitempty"`
	Modules  []yModule `yaml:"modules,omitempty"`
	Deps     []string  `yaml:"deps,omitempty"`
	Lint     yLintV2   `yaml:"lint,omitempty"`
	Breaking yBreaking `yaml:"breaking,omitempty"`
	Plugins  []yPlugin `yaml:"plugins,omitempty"`
}

func (l gLint) y1() yLintV1 {
	return yLintV1{l.Use, l.Except, l.Ignore, l.IgnoreOnly, l.EnumZero, l.RPCSame, l.RPCReq, l.RPCResp, l.ServiceSuffix, l.CommentFlag, l.DisableBuiltin}
}
func (l gLint) y2() yLintV2 {
	return yLintV2{l.Use, l.Except, l.Ignore, l.IgnoreOnly, l.EnumZero, l.RPCSame, l.RPCReq, l.RPCResp, l.ServiceSuffix, l.CommentFlag, l.DisableBuiltin}
}
func (b gBreaking) y() yBreaking {
	return yBreaking{b.Use, b.Except, b.Ignore, b.IgnoreOnly, b.IgnoreUnstable, b.DisableBuiltin}
}
func lintOfY1(l yLintV1) gLint {
	return gLint{Use: l.Use, Except: l.Except, Ignore: l.Ignore, IgnoreOnly: l.IgnoreOnly, EnumZero: l.EnumZero, ServiceSuffix: l.ServiceSuffix,
		RPCSame: l.RPCSame, RPCReq: l.RPCReq, RPCResp: l.RPCResp, CommentFlag: l.Allow, DisableBuiltin: l.DisableBuiltin}
}
func lintOfY2(l yLintV2) gLint {
	return gLint{Use: l.Use, Except: l.Except, Ignore: l.Ignore, IgnoreOnly: l.IgnoreOnly, EnumZero: l.EnumZero, ServiceSuffix: l.ServiceSuffix,
		RPCSame: l.RPCSame, RPCReq: l.RPCReq, RPCResp: l.RPCResp, CommentFlag: l.Disallow, DisableBuiltin: l.DisableBuiltin}
}
func breakingOfY(b yBreaking) gBreaking {
	return gBreaking{b.Use, b.Except, b.Ignore, b.IgnoreOnly, b.IgnoreUnstable, b.DisableBuiltin}
}

func rawDeps(ds []gRef) []string {
	var out []string
	for _, d := range ds {
		out = append(out, d.Raw)
	}
	return out
}

func mustYAML(v any) []byte {
	var buf bytes.Buffer
	enc := yaml.NewEncoder(&buf)
	enc.SetIndent(2)
	if err := enc.Encode(v); err != nil {
		panic(err)
	}
	enc.Close()
	return buf.Bytes()
}

func (d gV1) yaml(ver string) []byte {
	return mustYAML(yV1{Version: ver, Name: d.Name.Name, Deps: rawDeps(d.Deps), Build: yBuild{d.Roots, d.Excludes}, Lint: d.Lint.y1(), Breaking: d.Breaking.y()})
}

func (d gV2) yaml() []byte {
	y := yV2{Version: "v2", Name: d.Name.Name, Deps: rawDeps(d.Deps), Lint: d.Lint.y2(), Breaking: d.Breaking.y()}
	for _, m := range d.Modules {
		y.Modules = append(y.Modules, yModule{m.Path, m.Name.Name, m.Includes, m.Excludes, m.Lint.y2(), m.Breaking.y()})
	}
	for _, p := range d.Plugins {
		yp := yPlugin{Options: p.Options}
		if len(p.Path) == 1 {
			yp.Plugin = p.Path[0]
		} else {
			yp.Plugin = p.Path
		}
		y.Plugins = append(y.Plugins, yp)
	}
	return mustYAML(y)
}

// ---------------------------------------------------------------------------------------------
// Nodes of structured documents (layouts documented in lean/Driver/C16.lean)

func lintNode(l gLint) nd.Node {
	return nd.L(nd.Strs(l.Use), nd.Strs(l.Except), nd.Strs(l.Ignore), nd.Map(l.IgnoreOnly), nd.A(l.EnumZero),
		nd.B(l.RPCSame), nd.B(l.RPCReq), nd.B(l.RPCResp), nd.A(l.ServiceSuffix), nd.B(l.CommentFlag), nd.B(l.DisableBuiltin))
}

func breakingNode(b gBreaking) nd.Node {
	return nd.L(nd.Strs(b.Use), nd.Strs(b.Except), nd.Strs(b.Ignore), nd.Map(b.IgnoreOnly), nd.B(b.IgnoreUnstable), nd.B(b.DisableBuiltin))
}

func refsNode(ds []gRef) nd.Node {
	xs := []nd.Node{}
	for _, d := range ds {
		xs = append(xs, nd.L(nd.A(d.Full), nd.A(d.Ref), nd.B(d.Valid)))
	}
	return nd.L(xs...)
}

func optVal(v any) string { return fmt.Sprintf("%T:%v", v, v) }

func optsNode(m map[string]any) nd.Node {
	sm := map[string]string{}
	for k, v := range m {
		sm[k] = optVal(v)
	}
	return nd.StrMap(sm)
}

func (d gV1) node() nd.Node {
	return nd.L(nd.A(d.Name.Name), nd.B(d.Name.Valid), refsNode(d.Deps), nd.Strs(d.Roots), nd.Strs(d.Excludes), lintNode(d.Lint), breakingNode(d.Breaking))
}

func (d gV2) node() nd.Node {
	ms := []nd.Node{}
	for _, m := range d.Modules {
		ms = append(ms, nd.L(nd.A(m.Path), nd.A(m.Name.Name), nd.B(m.Name.Valid), nd.Strs(m.Includes), nd.Strs(m.Excludes), lintNode(m.Lint), breakingNode(m.Breaking)))
	}
	ps := []nd.Node{}
	for _, p := range d.Plugins {
		opts := map[string]any{}
		for k, v := range p.Options {
			if v != nil {
				opts[k] = v
			}
		}
		ps = append(ps, nd.L(nd.Strs(p.Path), nd.B(p.IsRef), optsNode(opts), nd.B(p.NullOption)))
	}
	return nd.L(nd.A(d.Name.Name), nd.B(d.Name.Valid), nd.L(ms...), refsNode(d.Deps), lintNode(d.Lint), breakingNode(d.Breaking), nd.L(ps...))
}

// ---------------------------------------------------------------------------------------------
// accessor canonicalisation (implementation side)

func checkNode(c bufconfig.CheckConfig) nd.Node {
	return nd.L(nd.B(c.Disabled()), nd.Strs(c.UseIDsAndCategories()), nd.Strs(c.ExceptIDsAndCategories()), nd.Strs(c.IgnorePaths()),
		nd.Map(c.IgnoreIDOrCategoryToPaths()), nd.B(c.DisableBuiltin()))
}

func implLintNode(l bufconfig.LintConfig) nd.Node {
	return nd.L(checkNode(l), nd.A(l.EnumZeroValueSuffix()), nd.B(l.RPCAllowSameRequestResponse()), nd.B(l.RPCAllowGoogleProtobufEmptyRequests()),
		nd.B(l.RPCAllowGoogleProtobufEmptyResponses()), nd.A(l.ServiceSuffix()), nd.B(l.AllowCommentIgnores()))
}

func implBreakingNode(b bufconfig.BreakingConfig) nd.Node {
	return nd.L(checkNode(b), nd.B(b.IgnoreUnstablePackages()))
}

func pluginKind(p bufconfig.PluginConfig) string {
	switch p.Type() {
	case bufconfig.PluginConfigTypeLocal:
		return "local"
	case bufconfig.PluginConfigTypeLocalWasm:
		return "local_wasm"
	case bufconfig.PluginConfigTypeRemoteWasm:
		return "remote_wasm"
	}
	return "unknown"
}

func canonYAML(f bufconfig.BufYAMLFile) nd.Node {
	ms := []nd.Node{}
	for _, m := range f.ModuleConfigs() {
		name := ""
		if m.FullName() != nil {
			name = m.FullName().String()
		}
		rte, rti := m.RootToExcludes(), m.RootToIncludes()
		roots := make([]string, 0, len(rte))
		for r := range rte {
			roots = append(roots, r)
		}
		sort.Strings(roots)
		rs := []nd.Node{}
		for _, r := range roots {
			rs = append(rs, nd.L(nd.A(r), nd.Strs(rti[r]), nd.Strs(rte[r])))
		}
		ms = append(ms, nd.L(nd.A(m.DirPath()), nd.A(name), nd.L(rs...), implLintNode(m.LintConfig()), implBreakingNode(m.BreakingConfig())))
	}
	ds := []nd.Node{}
	for _, d := range f.ConfiguredDepModuleRefs() {
		ds = append(ds, nd.L(nd.A(d.FullName().String()), nd.A(d.Ref())))
	}
	ps := []nd.Node{}
	for _, p := range f.PluginConfigs() {
		ps = append(ps, nd.L(nd.A(pluginKind(p)), nd.A(p.Name()), nd.Strs(p.Args()), optsNode(p.Options())))
	}
	return nd.L(nd.A(f.FileVersion().String()), nd.L(ms...), nd.L(ds...), nd.L(ps...))
}

// ---------------------------------------------------------------------------------------------
// written document -> structured document (for the <written> part of the line)

func splitRef(s string) gRef {
	if i := strings.Index(s, ":"); i >= 0 {
		return gRef{Full: s[:i], Ref: s[i+1:], Valid: true, Raw: s}
	}
	return gRef{Full: s, Valid: true, Raw: s}
}

func isRefName(s string) bool { return strings.HasPrefix(s, "buf.build/") || strings.HasPrefix(s, "example.com/") }

func parseWrittenV2(data []byte) (gV2, error) {
	var y yV2
	dec := yaml.NewDecoder(bytes.NewReader(data))
	dec.KnownFields(true)
	if err := dec.Decode(&y); err != nil {
		return gV2{}, err
	}
	d := gV2{Name: gName{y.Name, true}, Lint: lintOfY2(y.Lint), Breaking: breakingOfY(y.Breaking)}
	for _, s := range y.Deps {
		d.Deps = append(d.Deps, splitRef(s))
	}
	for _, m := range y.Modules {
		d.Modules = append(d.Modules, gModule{m.Path, gName{m.Name, true}, m.Includes, m.Excludes, lintOfY2(m.Lint), breakingOfY(m.Breaking)})
	}
	for _, p := range y.Plugins {
		gp := gPlugin{Options: p.Options}
		switch v := p.Plugin.(type) {
		case string:
			gp.Path = []string{v}
		case []any:
			for _, x := range v {
				gp.Path = append(gp.Path, fmt.Sprint(x))
			}
		}
		if len(gp.Path) > 0 {
			gp.IsRef = isRefName(gp.Path[0])
		}
		d.Plugins = append(d.Plugins, gp)
	}
	return d, nil
}

func parseWrittenV1(data []byte) (gV1, error) {
	var y yV1
	dec := yaml.NewDecoder(bytes.NewReader(data))
	dec.KnownFields(true)
	if err := dec.Decode(&y); err != nil {
		return gV1{}, err
	}
	d := gV1{Name: gName{y.Name, true}, Roots: y.Build.Roots, Excludes: y.Build.Excludes, Lint: lintOfY1(y.Lint), Breaking: breakingOfY(y.Breaking)}
	for _, s := range y.Deps {
		d.Deps = append(d.Deps, splitRef(s))
	}
	return d, nil
}

// ---------------------------------------------------------------------------------------------
// generators

var (
	moduleDirs  = []string{".", "proto", "vendor", "proto/api", "a", "a/b", "a-b", "a/b/c", "x y", "é", "third_party/googleapis"}
	hostileDirs = []string{"proto/", "./proto", "a//b", "a/./b", "a/c/../b", "", "vendor/."}
	badPaths    = []string{"../x", "/abs", "a/../..", ".."}
	dirSubs     = []string{"foo", "foo/bar", "foo/baz", "v1", "v1/internal", "bar", "a b", "é", "-x", "foo-bar", "b", "c", "gen"}
	subDirs     = []string{"foo", "foo/bar", "foo/baz", "v1", "v1/internal", "bar", "a b", "é", "-x", "foo-bar", "x.proto", "gen/x.proto", "b", "c"}
	lintIDs     = []string{"DEFAULT", "BASIC", "MINIMAL", "STANDARD", "COMMENTS", "ENUM_PASCAL_CASE", "FIELD_LOWER_SNAKE_CASE", "RPC_REQUEST_STANDARD_NAME",
		"PACKAGE_VERSION_SUFFIX", "ENUM_FIRST_VALUE_ZERO", "OTHER", "FILE_LAYOUT", "SERVICE_SUFFIX", "IMPORT_USED", "PLUGIN_RULE"}
	breakingIDs = []string{"FILE", "PACKAGE", "WIRE", "WIRE_JSON", "FIELD_SAME_TYPE", "FIELD_NO_DELETE", "FILE_SAME_PACKAGE", "ENUM_VALUE_NO_DELETE", "FIELD_SAME_CTYPE", "RPC_NO_DELETE"}
	goodNames   = []string{"buf.build/acme/a", "buf.build/acme/b", "buf.build/acme/weather", "example.com/org/repo", "buf.build/other/a"}
	badNames    = []string{"acme/a", "buf.build//a", "buf.build/acme/", "just-a-name"}
	depNames    = []string{"buf.build/googleapis/googleapis", "buf.build/acme/dep1", "buf.build/acme/dep2", "buf.build/bufbuild/protovalidate", "example.com/org/dep"}
	depRefs     = []string{"", "", "v1", "main", "7a6bc1e3207144b38e9066861e1de0ff"}
)

func joinp(dir, sub string) string {
	if dir == "." || dir == "" {
		return sub
	}
	return strings.TrimSuffix(dir, "/") + "/" + sub
}

// pickPool: directory names only, unless the document is hostile (then ".proto" names too).
func pickPool(r *hx.Rand, hostile bool) []string {
	if hostile && r.Chance(1, 4) {
		return subDirs
	}
	return dirSubs
}

func pickSome(r *hx.Rand, pool []string, max int) []string {
	n := r.Intn(max + 1)
	var out []string
	for i := 0; i < n; i++ {
		out = append(out, hx.Pick(r, pool))
	}
	return out
}

// genPathsUnder picks paths below one of the given base directories (workspace-relative).
func genPathsUnder(r *hx.Rand, bases []string, max int, hostile bool) []string {
	n := r.Intn(max + 1)
	var out []string
	for i := 0; i < n; i++ {
		base := hx.Pick(r, bases)
		switch {
		case hostile && r.Chance(1, 14):
			out = append(out, hx.Pick(r, badPaths))
		case hostile && r.Chance(1, 10):
			out = append(out, base) // the module directory itself: disables the checks
		case hostile && r.Chance(1, 14):
			out = append(out, joinp(base, hx.Pick(r, subDirs))+"/")
		case hostile && r.Chance(1, 20):
			out = append(out, "")
		default:
			out = append(out, joinp(base, hx.Pick(r, subDirs)))
		}
	}
	return out
}

func genIgnoreOnly(r *hx.Rand, ids []string, bases []string, hostile bool) map[string][]string {
	if !r.Chance(1, 3) {
		return nil
	}
	m := map[string][]string{}
	for i, n := 0, 1+r.Intn(3); i < n; i++ {
		m[hx.Pick(r, ids)] = genPathsUnder(r, bases, 3, hostile)
	}
	return m
}

func genLint(r *hx.Rand, bases []string, hostile bool) gLint {
	l := gLint{}
	if r.Chance(1, 2) {
		l.Use = pickSome(r, lintIDs, 4)
	}
	if r.Chance(1, 3) {
		l.Except = pickSome(r, lintIDs, 3)
	}
	if r.Chance(1, 2) {
		l.Ignore = genPathsUnder(r, bases, 3, hostile)
	}
	l.IgnoreOnly = genIgnoreOnly(r, lintIDs, bases, hostile)
	if r.Chance(1, 5) {
		l.EnumZero = hx.Pick(r, []string{"_UNSPECIFIED", "_NONE", "é"})
	}
	if r.Chance(1, 5) {
		l.ServiceSuffix = hx.Pick(r, []string{"API", "Service", "Svc"})
	}
	l.RPCSame, l.RPCReq, l.RPCResp = r.Chance(1, 6), r.Chance(1, 6), r.Chance(1, 6)
	l.CommentFlag = r.Chance(1, 4)
	l.DisableBuiltin = r.Chance(1, 10)
	return l
}

func genBreaking(r *hx.Rand, bases []string, hostile bool) gBreaking {
	b := gBreaking{}
	if r.Chance(1, 2) {
		b.Use = pickSome(r, breakingIDs, 3)
	}
	if r.Chance(1, 3) {
		b.Except = pickSome(r, breakingIDs, 3)
	}
	if r.Chance(1, 3) {
		b.Ignore = genPathsUnder(r, bases, 3, hostile)
	}
	b.IgnoreOnly = genIgnoreOnly(r, breakingIDs, bases, hostile)
	b.IgnoreUnstable = r.Chance(1, 4)
	b.DisableBuiltin = r.Chance(1, 10)
	return b
}

func genName(r *hx.Rand, used map[string]bool, allowDup bool) gName {
	if !r.Chance(1, 2) {
		return gName{"", true}
	}
	if r.Chance(1, 25) {
		return gName{hx.Pick(r, badNames), false}
	}
	for try := 0; try < 5; try++ {
		n := hx.Pick(r, goodNames)
		if !used[n] || (allowDup && r.Chance(1, 10)) {
			used[n] = true
			return gName{n, true}
		}
	}
	return gName{"", true}
}

func genDeps(r *hx.Rand) []gRef {
	if !r.Chance(1, 2) {
		return nil
	}
	var out []gRef
	seen := map[string]bool{}
	for i, n := 0, 1+r.Intn(3); i < n; i++ {
		full := hx.Pick(r, depNames)
		if seen[full] && !r.Chance(1, 8) {
			continue
		}
		seen[full] = true
		ref := hx.Pick(r, depRefs)
		d := gRef{Full: full, Ref: ref, Valid: true, Raw: full}
		if ref != "" {
			d.Raw = full + ":" + ref
		}
		if r.Chance(1, 30) {
			d = gRef{Full: "", Ref: "", Valid: false, Raw: hx.Pick(r, []string{"nope", "buf.build/acme/dep1:", "buf.build/acme", "a/b/c:d:e"})}
		}
		out = append(out, d)
	}
	return out
}

func genPlugins(r *hx.Rand) []gPlugin {
	if !r.Chance(1, 4) {
		return nil
	}
	var out []gPlugin
	for i, n := 0, 1+r.Intn(3); i < n; i++ {
		// every plugin shape (plugins.go): local bare / relative / absolute, local Wasm, remote
		// unpinned / pinned by label / pinned by commit, each with or without args
		p := mkPlugin(r, hx.Pick(r, pluginShapes), r.Chance(1, 3))
		if r.Chance(1, 2) {
			p.Options = map[string]any{}
			for j, m := 0, 1+r.Intn(3); j < m; j++ {
				p.Options[hx.Pick(r, pluginOptionKeys)] = hx.Pick(r, pluginOptionValues)
			}
			if r.Chance(1, 20) {
				p.Options["nullopt"] = nil
				p.NullOption = true
			}
		}
		out = append(out, p)
	}
	return out
}

func genV2(r *hx.Rand) gV2 {
	d := gV2{Name: gName{"", true}}
	hostile := r.Chance(1, 3)
	used := map[string]bool{}
	nMods := 0
	if r.Chance(5, 6) {
		nMods = 1 + r.Intn(3)
	}
	var dirs []string
	for i := 0; i < nMods; i++ {
		dir := hx.Pick(r, moduleDirs)
		if hostile && r.Chance(1, 8) {
			dir = hx.Pick(r, hostileDirs)
		}
		if hostile && r.Chance(1, 40) {
			dir = hx.Pick(r, badPaths)
		}
		dirs = append(dirs, dir)
	}
	if nMods == 0 {
		dirs = []string{"."}
		d.Name = genName(r, used, false)
	} else if r.Chance(1, 40) {
		d.Name = genName(r, used, false) // top-level name together with modules: an error if non-empty
	}
	allBases := append([]string{}, dirs...)
	if hostile {
		allBases = append(allBases, "elsewhere")
	}
	for _, dir := range dirs[:nMods] {
		m := gModule{Path: dir, Name: genName(r, used, true)}
		if r.Chance(1, 12) {
			m.Path = "" // same as "."
			if dir != "." {
				m.Path = dir
			}
		}
		if r.Chance(1, 3) {
			n := 1 + r.Intn(2)
			for j := 0; j < n; j++ {
				m.Includes = append(m.Includes, joinp(dir, hx.Pick(r, pickPool(r, hostile))))
			}
			if hostile && r.Chance(1, 8) {
				m.Includes = append(m.Includes, hx.Pick(r, []string{dir, "elsewhere/x", ""}))
			}
		}
		if r.Chance(1, 3) {
			n := 1 + r.Intn(2)
			for j := 0; j < n; j++ {
				base := dir
				if len(m.Includes) > 0 && r.Chance(9, 10) {
					base = hx.Pick(r, m.Includes)
				}
				m.Excludes = append(m.Excludes, joinp(base, hx.Pick(r, pickPool(r, hostile))))
			}
			if hostile && r.Chance(1, 8) {
				m.Excludes = append(m.Excludes, hx.Pick(r, []string{dir, "elsewhere/x", "", "../y"}))
			}
		}
		if r.Chance(1, 3) {
			m.Lint = genLint(r, []string{dir}, hostile)
			if hostile && r.Chance(1, 6) {
				m.Lint.Ignore = append(m.Lint.Ignore, "elsewhere/x")
			}
		}
		if r.Chance(1, 4) {
			m.Breaking = genBreaking(r, []string{dir}, hostile)
		}
		d.Modules = append(d.Modules, m)
	}
	if r.Chance(1, 2) {
		d.Lint = genLint(r, allBases, hostile || r.Chance(1, 3))
	}
	if r.Chance(1, 3) {
		d.Breaking = genBreaking(r, allBases, hostile || r.Chance(1, 3))
	}
	d.Deps = genDeps(r)
	d.Plugins = genPlugins(r)
	return d
}

func genV1(r *hx.Rand, v1beta1 bool) gV1 {
	d := gV1{Name: genName(r, map[string]bool{}, false)}
	hostile := r.Chance(1, 3)
	bases := []string{"."}
	if v1beta1 && r.Chance(1, 2) {
		n := 1 + r.Intn(2)
		for i := 0; i < n; i++ {
			d.Roots = append(d.Roots, hx.Pick(r, []string{"proto", "src", "a", "a/b", "b", ".", "proto/", "x y"}))
		}
		bases = d.Roots
	} else if !v1beta1 && r.Chance(1, 30) {
		d.Roots = []string{"proto"} // not allowed in v1
	}
	if r.Chance(1, 2) {
		n := 1 + r.Intn(3)
		for i := 0; i < n; i++ {
			d.Excludes = append(d.Excludes, joinp(hx.Pick(r, bases), hx.Pick(r, pickPool(r, hostile))))
		}
		if hostile && r.Chance(1, 6) {
			d.Excludes = append(d.Excludes, hx.Pick(r, []string{"elsewhere", "", "../y", hx.Pick(r, bases)}))
		}
	}
	if r.Chance(2, 3) {
		d.Lint = genLint(r, []string{"."}, hostile)
	}
	if r.Chance(1, 2) {
		d.Breaking = genBreaking(r, []string{"."}, hostile)
	}
	d.Deps = genDeps(r)
	return d
}

// ---------------------------------------------------------------------------------------------
// one buf.yaml case

func readYAML(data []byte) (f bufconfig.BufYAMLFile, err error) {
	defer func() {
		if p := recover(); p != nil {
			err = fmt.Errorf("panic: %v", p)
		}
	}()
	return bufconfig.ReadBufYAMLFile(bytes.NewReader(data), "buf.yaml")
}

func writeYAML(f bufconfig.BufYAMLFile) (data []byte, err error) {
	defer func() {
		if p := recover(); p != nil {
			err = fmt.Errorf("panic: %v", p)
		}
	}()
	var buf bytes.Buffer
	err = bufconfig.WriteBufYAMLFile(&buf, f)
	return buf.Bytes(), err
}

// classifyYAMLChange names the witness family of a round-trip difference.
func classifyYAMLChange(f1, f2 bufconfig.BufYAMLFile) string {
	m1, m2 := f1.ModuleConfigs(), f2.ModuleConfigs()
	if len(m1) == len(m2) {
		for i := range m1 {
			if (m1[i].LintConfig().Disabled() && !m2[i].LintConfig().Disabled()) || (m1[i].BreakingConfig().Disabled() && !m2[i].BreakingConfig().Disabled()) {
				return "yaml-roundtrip-disabled-checks-dropped"
			}
		}
		if len(m1) == 1 && m1[0].DirPath() == "." && len(m1[0].RootToIncludes()["."]) > 0 && len(m2[0].RootToIncludes()["."]) == 0 {
			return "yaml-roundtrip-includes-dropped"
		}
	}
	return "yaml-roundtrip-changed"
}

func yamlCase(run *hx.Run, idx int, ver string, input nd.Node, data []byte, parseWritten func([]byte) (nd.Node, error)) {
	line := "yaml\t" + ver + "\t" + input.String()
	replay := fmt.Sprintf("%s --seed %d --tier %s --out <dir> --only %d   # section yaml; document:\n%s", os.Args[0], run.Seed, run.Tier, idx, data)
	f1, err := readYAML(data)
	if err != nil {
		if strings.HasPrefix(err.Error(), "panic:") {
			failC(run, hx.OracleFailure{Class: "yaml-read-panic", What: err.Error(), Input: string(data), Replay: replay})
		}
		run.Case(line, "err", false)
		run.Count("yaml:" + ver + ":err")
		return
	}
	run.Count("yaml:" + ver + ":ok")
	c1 := canonYAML(f1)
	for _, m := range f1.ModuleConfigs() {
		if m.LintConfig().Disabled() || m.BreakingConfig().Disabled() {
			run.Count("yaml:" + ver + ":module-with-disabled-checks")
			break
		}
	}
	if n := len(f1.ModuleConfigs()); n > 1 {
		run.Count("yaml:" + ver + ":multi-module")
	}
	w1, err := writeYAML(f1)
	if err != nil {
		failC(run, hx.OracleFailure{Class: "yaml-write-error", What: "writing a successfully read buf.yaml failed: " + err.Error(), Input: string(data), Replay: replay})
		run.Case(line, "ok "+c1.String()+" write-error", true)
		return
	}
	wn, err := parseWritten(w1)
	wstr := "unparsable"
	if err == nil {
		wstr = wn.String()
	}
	third := "same"
	f2, err := readYAML(w1)
	if err != nil {
		third = "err"
		failC(run, hx.OracleFailure{Class: "yaml-reread-error", What: "the written buf.yaml is rejected by the reader: " + err.Error(),
			Input: map[string]string{"document": string(data), "written": string(w1)}, Replay: replay})
		pluginOracle(run, data, w1, f1, nil, replay)
	} else {
		// plugins: section, accessor by accessor (Ref incl. label/commit, option value types)
		pluginOracle(run, data, w1, f1, f2, replay)
		c2 := canonYAML(f2)
		if c2.String() != c1.String() {
			third = c2.String()
			failC(run, hx.OracleFailure{Class: classifyYAMLChange(f1, f2), What: "buf.yaml read -> write -> read changed the configuration",
				Input: map[string]string{"document": string(data), "written": string(w1), "before": c1.String(), "after": c2.String()}, Replay: replay})
		}
		if f1.IncludeDocsLink() != f2.IncludeDocsLink() {
			failC(run, hx.OracleFailure{Class: "yaml-docs-link-changed", What: "IncludeDocsLink changed over a round trip", Input: string(data), Replay: replay})
		}
		w2, err := writeYAML(f2)
		if err != nil || !bytes.Equal(w1, w2) {
			failC(run, hx.OracleFailure{Class: "yaml-write-not-idempotent", What: "second write differs from the first",
				Input: map[string]string{"document": string(data), "first": string(w1), "second": string(w2)}, Replay: replay})
		}
	}
	run.Case(line, "ok "+c1.String()+" "+wstr+" "+third, true)
	if idx%997 == 3 {
		run.Sample(map[string]string{"document": string(data), "written": string(w1)})
	}
}

const docsLink = "# For details on buf.yaml configuration, visit https://buf.build/docs/configuration/%s/buf-yaml\n"

func runYAML(run *hx.Run, r *hx.Rand, n int) {
	for i := 0; i < n; i++ {
		if run.Only >= 0 && run.Only != i {
			continue
		}
		rr := r.Fork(uint64(i))
		switch k := rr.Intn(10); {
		case k < 6:
			d := genV2(rr)
			data := d.yaml()
			if rr.Chance(1, 20) {
				data = append([]byte(fmt.Sprintf(docsLink, "v2")), data...)
			}
			yamlCase(run, i, "v2", d.node(), data, func(b []byte) (nd.Node, error) {
				w, err := parseWrittenV2(b)
				return w.node(), err
			})
		default:
			ver := "v1"
			if k >= 8 {
				ver = "v1beta1"
			}
			d := genV1(rr, ver == "v1beta1")
			yamlCase(run, i, ver, d.node(), d.yaml(ver), func(b []byte) (nd.Node, error) {
				w, err := parseWrittenV1(b)
				return w.node(), err
			})
		}
	}
}

// corpus: the two recorded witnesses, run first.
func runCorpus(run *hx.Run) {
	if run.Only >= 0 {
		return
	}
	w1 := gV2{Name: gName{"", true}, Modules: []gModule{{Path: ".", Name: gName{"", true}, Includes: []string{"foo"}}}}
	yamlCase(run, -1, "v2", w1.node(), w1.yaml(), func(b []byte) (nd.Node, error) { w, err := parseWrittenV2(b); return w.node(), err })
	w2 := gV2{Name: gName{"", true}, Modules: []gModule{{Path: "proto", Name: gName{"", true}}, {Path: "vendor", Name: gName{"", true}}},
		Lint: gLint{Ignore: []string{"vendor"}}}
	yamlCase(run, -2, "v2", w2.node(), w2.yaml(), func(b []byte) (nd.Node, error) { w, err := parseWrittenV2(b); return w.node(), err })
	w3 := gV1{Name: gName{"", true}, Lint: gLint{Ignore: []string{"."}}, Breaking: gBreaking{Ignore: []string{"."}}}
	yamlCase(run, -3, "v1", w3.node(), w3.yaml("v1"), func(b []byte) (nd.Node, error) { w, err := parseWrittenV1(b); return w.node(), err })
}

func main() {
	flag.Int("only-mig", -1, "section E: regenerate only this migration case")
	flag.Int("only-migchk", -1, "section G: run only this rule-selection migration case")
	run := hx.Start("C16")
	r := hx.NewRand(run.Seed)
	t0 := time.Now()
	section := func(name string) {
		run.Set("seconds:"+name, time.Since(t0).Seconds())
		fmt.Fprintf(os.Stderr, "%s %.1fs\n", name, time.Since(t0).Seconds())
		t0 = time.Now()
	}
	// C16_SECTIONS (development aid): run only the named sections, e.g. C16_SECTIONS=G.
	want := func(name string) bool {
		s := os.Getenv("C16_SECTIONS")
		return s == "" || strings.Contains(s, name)
	}
	if want("0") {
		runCorpus(run)
		section("runCorpus")
	}
	if want("A") {
		runYAML(run, r.Fork(1), run.N(4000, 40000))
		section("runYAML")
		runPluginFamily(run, r.Fork(7))
		section("runPluginFamily")
	}
	if want("B") {
		runWork(run, r.Fork(2), run.N(600, 8000))
		section("runWork")
	}
	if want("C") {
		runLock(run, r.Fork(3), run.N(800, 10000))
		section("runLock")
	}
	if want("D") {
		runGen(run, r.Fork(4), run.N(1500, 20000))
		section("runGen")
	}
	if want("F") {
		runMigWs(run, r.Fork(6), run.N(80, 300))
		section("runMigWs")
	}
	if want("G") {
		runMigChk(run, r.Fork(8), run.N(150, 2000))
		section("runMigChk")
	}
	if want("E") {
		runMigrations(run, r.Fork(5), run.N(60, 500))
		section("runMigrations")
	}
	run.Finish()
}

// failC records an oracle failure, keeping at most a few witnesses per class (hx.Run keeps 200
// failures in total; a frequent recorded finding must not crowd out a new class).
var failPerClass = map[string]int{}

func failC(run *hx.Run, f hx.OracleFailure) {
	failPerClass[f.Class]++
	run.Count("fail:" + f.Class)
	if failPerClass[f.Class] <= 4 {
		run.Fail(f)
	}
}
