// C16, buf.gen.yaml part: generator of structured buf.gen.yaml documents (v1beta1 / v1 / v2),
// implementation-only round-trip oracle, and the correspondence lines for the Lean model
// BufModel.ConfigGen (driver Driver.C16Gen).
//
// Per case:   document (mirror structs below) --yaml.v3--> text
//             text --ReadBufGenYAMLFile--> f1 --accessors--> c1
//             f1 --WriteBufGenYAMLFile--> w1 --Read--> f2 --accessors--> c2 --Write--> w2
// Oracle:     c1 == c2 (class gen-roundtrip-changed[/<root cause>]), w1 == w2 bytes
//             (gen-write-not-idempotent), second read must succeed (gen-reread-error),
//             write must succeed (gen-write-error), no panics (gen-panic).
// Protocol:   input  "gen\t" + Node(( version body env ))
//             output "err" | "ok " c1 " " W " " ("same" | c2 | "reread-err")
//             where W is w1 yaml-unmarshalled into the v2 mirror struct, as a Node.
//
// The env part of the input carries the answers of the library parameters of the model for
// every string of the document that plays the corresponding role (computed here by calling the
// real library): remote plugin reference/identity parsing (bufremotepluginref), module full-name
// parsing (bufparse.ParseFullName), path validation (normalpath.NormalizeAndValidate(p) == p),
// exec.LookPath (PATH is emptied, so always "not found").
package main

import (
	"bytes"
	"errors"
	"fmt"
	"os"
	"os/exec"
	"path/filepath"
	"sort"
	"strconv"
	"strings"

	"github.com/bufbuild/buf/private/bufpkg/bufconfig"
	"github.com/bufbuild/buf/private/bufpkg/bufparse"
	"github.com/bufbuild/buf/private/bufpkg/bufremoteplugin/bufremotepluginref"
	"github.com/bufbuild/buf/private/pkg/normalpath"
	"github.com/bufbuild/verifharness/internal/hx"
	"github.com/bufbuild/verifharness/internal/nd"
	"google.golang.org/protobuf/types/descriptorpb"
	"gopkg.in/yaml.v3"
)

// ---------------------------------------------------------------------------------------------
// Mirror structs of the external YAML shapes (these ARE the structured documents).
// `any` fields hold: nil | string | []string | int (deliberately ill-typed) ; after a YAML
// unmarshal they hold nil | string | []any | other.

type gV1Beta1 struct {
	Version string            `yaml:"version,omitempty"`
	Managed bool              `yaml:"managed,omitempty"`
	Plugins []gPluginV1Beta1  `yaml:"plugins,omitempty"`
	Options gOptionsV1Beta1   `yaml:"options,omitempty"`
}

type gPluginV1Beta1 struct {
	Name     string `yaml:"name,omitempty"`
	Out      string `yaml:"out,omitempty"`
	Opt      any    `yaml:"opt,omitempty"`
	Path     string `yaml:"path,omitempty"`
	Strategy string `yaml:"strategy,omitempty"`
}

type gOptionsV1Beta1 struct {
	CcEnableArenas    *bool  `yaml:"cc_enable_arenas,omitempty"`
	JavaMultipleFiles *bool  `yaml:"java_multiple_files,omitempty"`
	OptimizeFor       string `yaml:"optimize_for,omitempty"`
}

type genDocV1 struct {
	Version string      `yaml:"version,omitempty"`
	Plugins []gPluginV1 `yaml:"plugins,omitempty"`
	Managed gManagedV1  `yaml:"managed,omitempty"`
	Types   gTypesV1    `yaml:"types,omitempty"`
}

type gTypesV1 struct {
	Include []string `yaml:"include,omitempty"`
}

type gPluginV1 struct {
	Plugin     string `yaml:"plugin,omitempty"`
	Name       string `yaml:"name,omitempty"`
	Out        string `yaml:"out,omitempty"`
	Revision   int    `yaml:"revision,omitempty"`
	Opt        any    `yaml:"opt,omitempty"`
	Path       any    `yaml:"path,omitempty"`
	ProtocPath any    `yaml:"protoc_path,omitempty"`
	Strategy   string `yaml:"strategy,omitempty"`
}

// gPrefixV1 is default / except / override of the v1 managed sub-sections.  csharp_namespace
// and ruby_package have no default in the real struct; the generator keeps Default "" there.
type gPrefixV1 struct {
	Default  string            `yaml:"default,omitempty"`
	Except   []string          `yaml:"except,omitempty"`
	Override map[string]string `yaml:"override,omitempty"`
	// plain: render as a plain string (java_package_prefix / optimize_for accept that form).
	// Not part of the structured document: both spellings unmarshal to the same struct.
	plain bool
}

func (p gPrefixV1) isEmpty() bool { return p.Default == "" && len(p.Except) == 0 && len(p.Override) == 0 }

func (p gPrefixV1) MarshalYAML() (any, error) {
	if p.plain && len(p.Except) == 0 && len(p.Override) == 0 {
		return p.Default, nil
	}
	type raw struct {
		Default  string            `yaml:"default,omitempty"`
		Except   []string          `yaml:"except,omitempty"`
		Override map[string]string `yaml:"override,omitempty"`
	}
	return raw{p.Default, p.Except, p.Override}, nil
}

func (p gPrefixV1) IsZero() bool { return p.isEmpty() }

type gManagedV1 struct {
	Enabled             bool                         `yaml:"enabled,omitempty"`
	CcEnableArenas      *bool                        `yaml:"cc_enable_arenas,omitempty"`
	JavaMultipleFiles   *bool                        `yaml:"java_multiple_files,omitempty"`
	JavaStringCheckUtf8 *bool                        `yaml:"java_string_check_utf8,omitempty"`
	JavaPackagePrefix   gPrefixV1                    `yaml:"java_package_prefix,omitempty"`
	CsharpNamespace     gPrefixV1                    `yaml:"csharp_namespace,omitempty"`
	OptimizeFor         gPrefixV1                    `yaml:"optimize_for,omitempty"`
	GoPackagePrefix     gPrefixV1                    `yaml:"go_package_prefix,omitempty"`
	ObjcClassPrefix     gPrefixV1                    `yaml:"objc_class_prefix,omitempty"`
	RubyPackage         gPrefixV1                    `yaml:"ruby_package,omitempty"`
	Override            map[string]map[string]string `yaml:"override,omitempty"`
}

type genDocV2 struct {
	Version string      `yaml:"version,omitempty"`
	Managed gManagedV2  `yaml:"managed,omitempty"`
	Clean   bool        `yaml:"clean,omitempty"`
	Plugins []gPluginV2 `yaml:"plugins,omitempty"`
	Inputs  []gInputV2  `yaml:"inputs,omitempty"`
}

type gPluginV2 struct {
	Remote         *string  `yaml:"remote,omitempty"`
	Revision       *int     `yaml:"revision,omitempty"`
	Local          any      `yaml:"local,omitempty"`
	ProtocBuiltin  *string  `yaml:"protoc_builtin,omitempty"`
	ProtocPath     any      `yaml:"protoc_path,omitempty"`
	Out            string   `yaml:"out,omitempty"`
	Opt            any      `yaml:"opt,omitempty"`
	IncludeImports bool     `yaml:"include_imports,omitempty"`
	IncludeWKT     bool     `yaml:"include_wkt,omitempty"`
	Strategy       *string  `yaml:"strategy,omitempty"`
	Types          []string `yaml:"types,omitempty"`
	ExcludeTypes   []string `yaml:"exclude_types,omitempty"`
}

type gManagedV2 struct {
	Enabled  bool          `yaml:"enabled,omitempty"`
	Disable  []gDisableV2  `yaml:"disable,omitempty"`
	Override []gOverrideV2 `yaml:"override,omitempty"`
}

type gDisableV2 struct {
	FileOption  string `yaml:"file_option,omitempty"`
	FieldOption string `yaml:"field_option,omitempty"`
	Module      string `yaml:"module,omitempty"`
	Path        string `yaml:"path,omitempty"`
	Field       string `yaml:"field,omitempty"`
}

type gOverrideV2 struct {
	FileOption  string `yaml:"file_option,omitempty"`
	FieldOption string `yaml:"field_option,omitempty"`
	Module      string `yaml:"module,omitempty"`
	Path        string `yaml:"path,omitempty"`
	Field       string `yaml:"field,omitempty"`
	Value       any    `yaml:"value,omitempty"` // nil | string | bool | int (ill-typed)
}

type gInputV2 struct {
	Module              *string  `yaml:"module,omitempty"`
	Directory           *string  `yaml:"directory,omitempty"`
	ProtoFile           *string  `yaml:"proto_file,omitempty"`
	Tarball             *string  `yaml:"tarball,omitempty"`
	ZipArchive          *string  `yaml:"zip_archive,omitempty"`
	BinaryImage         *string  `yaml:"binary_image,omitempty"`
	JSONImage           *string  `yaml:"json_image,omitempty"`
	TextImage           *string  `yaml:"text_image,omitempty"`
	YAMLImage           *string  `yaml:"yaml_image,omitempty"`
	GitRepo             *string  `yaml:"git_repo,omitempty"`
	Types               []string `yaml:"types,omitempty"`
	ExcludeTypes        []string `yaml:"exclude_types,omitempty"`
	TargetPaths         []string `yaml:"paths,omitempty"`
	ExcludePaths        []string `yaml:"exclude_paths,omitempty"`
	Compression         *string  `yaml:"compression,omitempty"`
	StripComponents     *uint32  `yaml:"strip_components,omitempty"`
	Subdir              *string  `yaml:"subdir,omitempty"`
	Branch              *string  `yaml:"branch,omitempty"`
	Commit              *string  `yaml:"commit,omitempty"`
	Tag                 *string  `yaml:"tag,omitempty"`
	Ref                 *string  `yaml:"ref,omitempty"`
	Depth               *uint32  `yaml:"depth,omitempty"`
	RecurseSubmodules   *bool    `yaml:"recurse_submodules,omitempty"`
	IncludePackageFiles *bool    `yaml:"include_package_files,omitempty"`
}

// ---------------------------------------------------------------------------------------------
// Document -> Node.

func optS(p *string) nd.Node {
	if p == nil {
		return nd.L()
	}
	return nd.L(nd.A(*p))
}

func optB(p *bool) nd.Node {
	if p == nil {
		return nd.L()
	}
	return nd.L(nd.B(*p))
}

func optI(p *int) nd.Node {
	if p == nil {
		return nd.L()
	}
	return nd.L(nd.A(strconv.Itoa(*p)))
}

func optU(p *uint32) nd.Node {
	if p == nil {
		return nd.L()
	}
	return nd.L(nd.A(strconv.FormatUint(uint64(*p), 10)))
}

// anyStrs: ( n ) | ( s str ) | ( l (strs) ) | ( x ).
func anyStrs(v any) nd.Node {
	switch t := v.(type) {
	case nil:
		return nd.L(nd.A("n"))
	case string:
		return nd.L(nd.A("s"), nd.A(t))
	case []string:
		return nd.L(nd.A("l"), nd.Strs(t))
	case []any:
		ss := make([]string, 0, len(t))
		for _, e := range t {
			s, ok := e.(string)
			if !ok {
				return nd.L(nd.A("x"))
			}
			ss = append(ss, s)
		}
		return nd.L(nd.A("l"), nd.Strs(ss))
	default:
		return nd.L(nd.A("x"))
	}
}

// anyVal: ( n ) | ( s str ) | ( b 0/1 ) | ( x ).
func anyVal(v any) nd.Node {
	switch t := v.(type) {
	case nil:
		return nd.L(nd.A("n"))
	case string:
		return nd.L(nd.A("s"), nd.A(t))
	case bool:
		return nd.L(nd.A("b"), nd.B(t))
	default:
		return nd.L(nd.A("x"))
	}
}

func (p gPluginV2) node() nd.Node {
	return nd.L(optS(p.Remote), optI(p.Revision), anyStrs(p.Local), optS(p.ProtocBuiltin), anyStrs(p.ProtocPath),
		nd.A(p.Out), anyStrs(p.Opt), nd.B(p.IncludeImports), nd.B(p.IncludeWKT), optS(p.Strategy),
		nd.Strs(p.Types), nd.Strs(p.ExcludeTypes))
}

func (m gManagedV2) node() nd.Node {
	ds := make([]nd.Node, len(m.Disable))
	for i, d := range m.Disable {
		ds[i] = nd.L(nd.A(d.FileOption), nd.A(d.FieldOption), nd.A(d.Module), nd.A(d.Path), nd.A(d.Field))
	}
	os := make([]nd.Node, len(m.Override))
	for i, o := range m.Override {
		os[i] = nd.L(nd.A(o.FileOption), nd.A(o.FieldOption), nd.A(o.Module), nd.A(o.Path), nd.A(o.Field), anyVal(o.Value))
	}
	return nd.L(nd.B(m.Enabled), nd.L(ds...), nd.L(os...))
}

func (i gInputV2) node() nd.Node {
	return nd.L(optS(i.Module), optS(i.Directory), optS(i.ProtoFile), optS(i.Tarball), optS(i.ZipArchive),
		optS(i.BinaryImage), optS(i.JSONImage), optS(i.TextImage), optS(i.YAMLImage), optS(i.GitRepo),
		nd.Strs(i.Types), nd.Strs(i.ExcludeTypes), nd.Strs(i.TargetPaths), nd.Strs(i.ExcludePaths),
		optS(i.Compression), optU(i.StripComponents), optS(i.Subdir), optS(i.Branch), optS(i.Commit), optS(i.Tag),
		optS(i.Ref), optU(i.Depth), optB(i.RecurseSubmodules), optB(i.IncludePackageFiles))
}

func (d *genDocV2) body() nd.Node {
	ps := make([]nd.Node, len(d.Plugins))
	for i, p := range d.Plugins {
		ps[i] = p.node()
	}
	is := make([]nd.Node, len(d.Inputs))
	for i, x := range d.Inputs {
		is[i] = x.node()
	}
	return nd.L(nd.B(d.Clean), d.Managed.node(), nd.L(ps...), nd.L(is...))
}

func (p gPrefixV1) node() nd.Node {
	return nd.L(nd.A(p.Default), nd.Strs(p.Except), nd.StrMap(p.Override))
}

func (d *genDocV1) body() nd.Node {
	ps := make([]nd.Node, len(d.Plugins))
	for i, p := range d.Plugins {
		ps[i] = nd.L(nd.A(p.Plugin), nd.A(p.Name), nd.A(p.Out), nd.A(strconv.Itoa(p.Revision)),
			anyStrs(p.Opt), anyStrs(p.Path), anyStrs(p.ProtocPath), nd.A(p.Strategy))
	}
	m := d.Managed
	keys := make([]string, 0, len(m.Override))
	for k := range m.Override {
		keys = append(keys, k)
	}
	sort.Strings(keys)
	ov := make([]nd.Node, len(keys))
	for i, k := range keys {
		ov[i] = nd.L(nd.A(k), nd.StrMap(m.Override[k]))
	}
	mn := nd.L(nd.B(m.Enabled), optB(m.CcEnableArenas), optB(m.JavaMultipleFiles), optB(m.JavaStringCheckUtf8),
		m.JavaPackagePrefix.node(), m.CsharpNamespace.node(), m.OptimizeFor.node(), m.GoPackagePrefix.node(),
		m.ObjcClassPrefix.node(), m.RubyPackage.node(), nd.L(ov...))
	return nd.L(nd.L(ps...), mn, nd.Strs(d.Types.Include))
}

func (d *gV1Beta1) body() nd.Node {
	ps := make([]nd.Node, len(d.Plugins))
	for i, p := range d.Plugins {
		ps[i] = nd.L(nd.A(p.Name), nd.A(p.Out), anyStrs(p.Opt), nd.A(p.Path), nd.A(p.Strategy))
	}
	return nd.L(nd.B(d.Managed), nd.L(ps...),
		nd.L(optB(d.Options.CcEnableArenas), optB(d.Options.JavaMultipleFiles), nd.A(d.Options.OptimizeFor)))
}

// ---------------------------------------------------------------------------------------------
// Library parameters (env).

type genEnv struct {
	remote map[string]struct{}
	module map[string]struct{}
	path   map[string]struct{}
	look   map[string]struct{} // plugin names the writer may look up as protoc-gen-<name>
}

func newGenEnv() *genEnv {
	return &genEnv{remote: map[string]struct{}{}, module: map[string]struct{}{}, path: map[string]struct{}{}, look: map[string]struct{}{}}
}

// lookPathFinds is exec.LookPath as the writer uses it (library parameter of the model).
func lookPathFinds(binary string) bool {
	_, err := exec.LookPath(binary)
	return err == nil || errors.Is(err, exec.ErrDot)
}

// remoteHostOf mirrors bufconfig.parseRemoteHostName (identity first, then reference).
func remoteHostOf(s string) (string, bool) {
	if id, err := bufremotepluginref.PluginIdentityForString(s); err == nil {
		return id.Remote(), true
	}
	if ref, err := bufremotepluginref.PluginReferenceForString(s, 0); err == nil {
		return ref.Remote(), true
	}
	return "", false
}

func validPath(p string) bool {
	n, err := normalpath.NormalizeAndValidate(p)
	return err == nil && n == p
}

func sortedKeys(m map[string]struct{}) []string {
	ks := make([]string, 0, len(m))
	for k := range m {
		ks = append(ks, k)
	}
	sort.Strings(ks)
	return ks
}

// node: ( ((name host)...) (valid module names) (valid paths) (names found by LookPath) ).
func (e *genEnv) node(run *hx.Run) nd.Node {
	var rs []nd.Node
	for _, s := range sortedKeys(e.remote) {
		host, ok := remoteHostOf(s)
		if ok != bufremotepluginref.IsPluginReferenceOrIdentity(s) {
			// The model uses one classification for both call sites.
			failC(run, hx.OracleFailure{Class: "gen-env-remote-classification-split", What: "IsPluginReferenceOrIdentity disagrees with parseRemoteHostName", Input: s})
		}
		if ok {
			rs = append(rs, nd.L(nd.A(s), nd.A(host)))
		}
	}
	var ms []string
	for _, s := range sortedKeys(e.module) {
		if _, err := bufparse.ParseFullName(s); err == nil {
			ms = append(ms, s)
		}
	}
	var ps []string
	for _, s := range sortedKeys(e.path) {
		if validPath(s) {
			ps = append(ps, s)
		}
	}
	var ls []string
	for _, s := range sortedKeys(e.look) {
		if lookPathFinds("protoc-gen-" + s) {
			ls = append(ls, "protoc-gen-"+s)
		}
	}
	return nd.L(nd.L(rs...), nd.Strs(ms), nd.Strs(ps), nd.Strs(ls))
}

func (e *genEnv) addV2(d *genDocV2) {
	for _, p := range d.Plugins {
		if p.Remote != nil {
			e.remote[*p.Remote] = struct{}{}
		}
	}
	for _, x := range d.Managed.Disable {
		e.module[x.Module] = struct{}{}
		e.path[x.Path] = struct{}{}
	}
	for _, x := range d.Managed.Override {
		e.module[x.Module] = struct{}{}
		e.path[x.Path] = struct{}{}
	}
}

func (e *genEnv) addV1Beta1(d *gV1Beta1) {
	for _, p := range d.Plugins {
		e.look[p.Name] = struct{}{}
	}
}

func (e *genEnv) addV1(d *genDocV1) {
	for _, p := range d.Plugins {
		e.remote[p.Plugin] = struct{}{}
		e.remote[p.Name] = struct{}{}
		e.look[p.Plugin] = struct{}{}
		e.look[p.Name] = struct{}{}
	}
	m := d.Managed
	for _, px := range []gPrefixV1{m.JavaPackagePrefix, m.CsharpNamespace, m.OptimizeFor, m.GoPackagePrefix, m.ObjcClassPrefix, m.RubyPackage} {
		for _, s := range px.Except {
			e.module[s] = struct{}{}
		}
		for s := range px.Override {
			e.module[s] = struct{}{}
		}
	}
	for _, fm := range m.Override {
		for p := range fm {
			e.path[p] = struct{}{}
		}
	}
}

// ---------------------------------------------------------------------------------------------
// Canonical accessor view of what was read.

func valNode(v any) (nd.Node, nd.Node) {
	switch v.(type) {
	case string:
		return nd.A("s"), nd.A(fmt.Sprintf("%v", v))
	case bool:
		return nd.A("b"), nd.A(fmt.Sprintf("%v", v))
	case descriptorpb.FileOptions_OptimizeMode:
		return nd.A("o"), nd.A(fmt.Sprintf("%v", v))
	case descriptorpb.FieldOptions_JSType:
		return nd.A("j"), nd.A(fmt.Sprintf("%v", v))
	default:
		return nd.A(fmt.Sprintf("?%T", v)), nd.A(fmt.Sprintf("%v", v))
	}
}

func canonPlugin(p bufconfig.GeneratePluginConfig) nd.Node {
	return nd.L(
		nd.A(strconv.Itoa(int(p.Type()))), nd.A(p.Name()), nd.A(p.Out()), nd.A(p.Opt()),
		nd.B(p.IncludeImports()), nd.B(p.IncludeWKT()), nd.A(strconv.Itoa(int(p.Strategy()))),
		nd.Strs(p.Path()), nd.Strs(p.ProtocPath()), nd.A(p.RemoteHost()), nd.A(strconv.Itoa(p.Revision())),
		nd.Strs(p.IncludeTypes()), nd.Strs(p.ExcludeTypes()))
}

func canonInput(i bufconfig.InputConfig) nd.Node {
	return nd.L(
		nd.A(strconv.Itoa(int(i.Type()))), nd.A(i.Location()), nd.A(i.Compression()),
		nd.A(strconv.FormatUint(uint64(i.StripComponents()), 10)), nd.A(i.SubDir()), nd.A(i.Branch()),
		nd.A(i.CommitOrTag()), nd.A(i.Ref()), optU(i.Depth()), nd.B(i.RecurseSubmodules()),
		nd.B(i.IncludePackageFiles()), nd.Strs(i.TargetPaths()), nd.Strs(i.ExcludePaths()),
		nd.Strs(i.IncludeTypes()), nd.Strs(i.ExcludeTypes()))
}

// canon: ( clean (plugins) ( enabled (disables) (overrides) ) (type-config include) (inputs) ).
func canon(f bufconfig.BufGenYAMLFile) nd.Node {
	g := f.GenerateConfig()
	var ps []nd.Node
	for _, p := range g.GeneratePluginConfigs() {
		ps = append(ps, canonPlugin(p))
	}
	var ds, os []nd.Node
	enabled := false
	if m := g.GenerateManagedConfig(); m != nil {
		enabled = m.Enabled()
		for _, d := range m.Disables() {
			ds = append(ds, nd.L(nd.A(d.Path()), nd.A(d.FullName()), nd.A(d.FieldName()),
				nd.A(strconv.Itoa(int(d.FileOption()))), nd.A(strconv.Itoa(int(d.FieldOption())))))
		}
		for _, o := range m.Overrides() {
			tag, val := valNode(o.Value())
			os = append(os, nd.L(nd.A(o.Path()), nd.A(o.FullName()), nd.A(o.FieldName()),
				nd.A(strconv.Itoa(int(o.FileOption()))), nd.A(strconv.Itoa(int(o.FieldOption()))), tag, val))
		}
	}
	var types []string
	if t := g.GenerateTypeConfig(); t != nil {
		types = t.IncludeTypes()
	}
	var is []nd.Node
	for _, i := range f.InputConfigs() {
		is = append(is, canonInput(i))
	}
	return nd.L(nd.B(g.CleanPluginOuts()), nd.L(ps...), nd.L(nd.B(enabled), nd.L(ds...), nd.L(os...)), nd.Strs(types), nd.L(is...))
}

// ---------------------------------------------------------------------------------------------
// The exact relation the property is checked against (oracle side; implementation values and the
// Go library only, independent of the Lean model): read(write(c)) == normaliseCanon(c).
// Every field not touched here must survive a write + read unchanged; the touched ones are the
// five recorded finding families (classified by diffCauses below).

// protocBuiltinNames: protoc's builtin plugins (hard-coded, NOT read from bufconfig, so that a
// change of bufconfig.ProtocProxyPluginNames shows).
var protocBuiltinNames = map[string]bool{"cpp": true, "csharp": true, "java": true, "js": true, "objc": true, "php": true,
	"python": true, "pyi": true, "ruby": true, "kotlin": true, "rust": true}

func cloneNode(n nd.Node) nd.Node {
	if !n.IsList {
		return n
	}
	xs := make([]nd.Node, len(n.List))
	for i, x := range n.List {
		xs[i] = cloneNode(x)
	}
	return nd.L(xs...)
}

func normaliseCanon(c nd.Node) nd.Node {
	out := cloneNode(c)
	for i := range out.List[1].List {
		p := out.List[1].List[i]
		p.List[11], p.List[12] = nd.Strs(nil), nd.Strs(nil) // types / exclude_types are never written
		switch p.List[0].Atom {
		case "2": // local: v2 has no separate name
			p.List[1] = nd.A(strings.Join(atoms(p.List[7]), " "))
		case "4": // local-or-protoc-builtin: resolved by the writer
			binary := "protoc-gen-" + p.List[1].Atom
			if lookPathFinds(binary) || !protocBuiltinNames[p.List[1].Atom] {
				p.List[0], p.List[1], p.List[7] = nd.A("2"), nd.A(binary), nd.Strs([]string{binary})
			} else {
				p.List[0] = nd.A("3")
			}
		}
	}
	out.List[3] = nd.Strs(nil) // v1 types.include
	for i := range out.List[4].List {
		out.List[4].List[i].List[14] = nd.Strs(nil) // input exclude_types
	}
	return out
}

// ---------------------------------------------------------------------------------------------
// Round-trip difference classification (oracle side; implementation values only).

var pluginFieldNames = []string{"type", "name", "out", "opt", "include_imports", "include_wkt", "strategy", "path", "protoc_path", "remote_host", "revision", "include_types", "exclude_types"}
var inputFieldNames = []string{"type", "location", "compression", "strip_components", "subdir", "branch", "commit_or_tag", "ref", "depth", "recurse_submodules", "include_package_files", "paths", "exclude_paths", "types", "exclude_types"}

// diffCauses returns the root-cause classes explaining c1 != c2 (deduplicated, sorted) and a text.
func diffCauses(c1, c2 nd.Node) ([]string, string) {
	causes := map[string]struct{}{}
	var what []string
	add := func(c, w string) {
		causes[c] = struct{}{}
		what = append(what, w)
	}
	generic := "gen-roundtrip-changed"
	top := []string{"clean", "plugins", "managed", "type_config", "inputs"}
	for k := range top {
		a, b := c1.List[k], c2.List[k]
		if a.String() == b.String() {
			continue
		}
		switch top[k] {
		case "type_config":
			if len(b.List) == 0 {
				add(generic+"/v1-types-include-dropped", "GenerateTypeConfig().IncludeTypes() "+strsOf(a)+" -> none")
			} else {
				add(generic, "type_config changed")
			}
		case "plugins":
			if len(a.List) != len(b.List) {
				add(generic, "number of plugins changed")
				continue
			}
			for i := range a.List {
				pa, pb := a.List[i], b.List[i]
				if pa.String() == pb.String() {
					continue
				}
				typeBefore := pa.List[0].Atom
				for j, fn := range pluginFieldNames {
					if pa.List[j].String() == pb.List[j].String() {
						continue
					}
					w := fmt.Sprintf("plugin[%d].%s: %s -> %s", i, fn, show(pa.List[j]), show(pb.List[j]))
					switch {
					case (fn == "include_types" || fn == "exclude_types") && len(pb.List[j].List) == 0:
						add(generic+"/plugin-types-dropped", w)
					case typeBefore == "4" && (fn == "type" || fn == "name" || fn == "path"):
						add(generic+"/v1-local-or-protoc-builtin-resolved", w)
					case typeBefore == "2" && fn == "name" && pb.List[j].Atom == strings.Join(atoms(pa.List[7]), " "):
						add(generic+"/v1-local-name-replaced-by-path", w)
					default:
						add(generic, w)
					}
				}
			}
		case "inputs":
			if len(a.List) != len(b.List) {
				add(generic, "number of inputs changed")
				continue
			}
			for i := range a.List {
				ia, ib := a.List[i], b.List[i]
				for j, fn := range inputFieldNames {
					if ia.List[j].String() == ib.List[j].String() {
						continue
					}
					w := fmt.Sprintf("input[%d].%s: %s -> %s", i, fn, show(ia.List[j]), show(ib.List[j]))
					if fn == "exclude_types" && len(ib.List[j].List) == 0 {
						add(generic+"/input-exclude-types-dropped", w)
					} else {
						add(generic, w)
					}
				}
			}
		default:
			add(generic, top[k]+" changed: "+show(a)+" -> "+show(b))
		}
	}
	out := make([]string, 0, len(causes))
	for c := range causes {
		out = append(out, c)
	}
	sort.Strings(out)
	return out, strings.Join(what, "; ")
}

func atoms(n nd.Node) []string {
	ss := make([]string, len(n.List))
	for i, x := range n.List {
		ss[i] = x.Atom
	}
	return ss
}

func strsOf(n nd.Node) string { return fmt.Sprintf("%q", atoms(n)) }

func show(n nd.Node) string {
	if !n.IsList {
		return strconv.Quote(n.Atom)
	}
	parts := make([]string, len(n.List))
	for i, x := range n.List {
		parts[i] = show(x)
	}
	return "[" + strings.Join(parts, " ") + "]"
}

// ---------------------------------------------------------------------------------------------
// Generator.

func sp(s string) *string { return &s }
func bp(b bool) *bool     { return &b }
func ip(i int) *int       { return &i }
func up(u uint32) *uint32 { return &u }

var (
	gRemoteGood  = []string{"buf.build/protocolbuffers/go", "buf.build/protocolbuffers/go:v1.31.0", "buf.build/connectrpc/go:v1.11.0", "buf.build/grpc/java", "example.com/acme/plug", "buf.build/bufbuild/es:v1.4.2"}
	gRemoteBad   = []string{"buf.build/protocolbuffers", "notaref", "a/b/c/d", "buf.build//go", "buf.build/acme/p:"}
	gLocalNames  = []string{"go", "java", "cpp", "python", "connect-go", "validate", "go-grpc", "kotlin", "es", "protoc-gen-go", "rust"}
	gBuiltin     = []string{"java", "cpp", "python", "csharp", "objc", "php", "ruby", "kotlin", "pyi", "js", "rust", "notbuiltin"}
	gOuts        = []string{"gen/go", "gen", ".", "out dir", "true", "123", "gen/java", "../out", "gen:x"}
	gOpts        = []string{"paths=source_relative", "a=b,c=d", "plugins=grpc", "true", "x y", "", "Mfoo.proto=bar", "lang=ts"}
	gLocalPaths  = []string{"protoc-gen-go", "/usr/local/bin/protoc-gen-go", "./bin/plug", "go", "run", "./cmd/protoc-gen-x", "--flag", "protoc-gen-validate", ""}
	gProtocPaths = []string{"protoc", "/opt/protoc/bin/protoc", "--experimental_allow_proto3_optional", "-I.", ""}
	gModGood     = []string{"buf.build/acme/weather", "buf.build/googleapis/googleapis", "example.com/a/b", "buf.build/acme/petapis", "buf.build/bufbuild/protovalidate"}
	gModBad      = []string{"acme/weather", "buf.build/acme", "buf.build/acme/weather/x", "buf.build//x", "nomod"}
	gPathGood    = []string{"a/b.proto", "foo", "dir/sub", "acme/weather/v1/weather.proto", "x.proto", "dir"}
	gPathBad     = []string{"/abs/x.proto", "../x", "a//b", "./a", "a/", "a/../b"}
	gStrFileOpts = []string{"java_package", "java_package_prefix", "java_package_suffix", "java_outer_classname", "go_package", "go_package_prefix", "objc_class_prefix", "csharp_namespace", "csharp_namespace_prefix", "php_namespace", "php_metadata_namespace", "php_metadata_namespace_suffix", "ruby_package", "ruby_package_suffix"}
	gBoolFileOpt = []string{"java_multiple_files", "java_string_check_utf8", "cc_enable_arenas"}
	gBadFileOpts = []string{"java_pkg", "jstype", "go-package", "optimize"}
	gFields      = []string{"pkg.Msg.field", "a.b.c", "acme.weather.v1.Location.id", "x"}
	gStrVals     = []string{"com.example", "github.com/acme/gen/go", "PFX", "", "true", "Acme::Weather", "x y", "123"}
	gOptModes    = []string{"SPEED", "CODE_SIZE", "LITE_RUNTIME"}
	gJSTypes     = []string{"JS_NORMAL", "JS_STRING", "JS_NUMBER"}
	gTypes       = []string{"acme.weather.v1.Location", "pkg.Msg", "pkg.Svc", "a.b.C", "google.type.Date"}
	gTargetPaths = []string{"proto/a", "acme/weather", "x.proto", "dir/sub", "."}
	gCompression = []string{"gzip", "zstd", "none", ""}
	gGitNames    = []string{"main", "v1.2.3", "dev/feature", "refs/heads/x", "0123456789abcdef0123456789abcdef01234567", ""}
	gSubdirs     = []string{"proto", "a/b", ".", ""}
	gU32         = []uint32{0, 1, 2, 50, 4294967295}
)

// spell re-spells a canonical option name (parseFileOption trims and lower-cases: ASCII only here).
func spell(r *hx.Rand, s string) string {
	switch r.Intn(8) {
	case 0:
		return strings.ToUpper(s)
	case 1:
		return " " + s + " "
	case 2:
		return strings.ToUpper(s[:1]) + s[1:] + "\t"
	default:
		return s
	}
}

func someOf(r *hx.Rand, pool []string, max int) []string {
	n := 1 + r.Intn(max)
	out := make([]string, 0, n)
	for i := 0; i < n; i++ {
		out = append(out, hx.Pick(r, pool))
	}
	return out
}

func distinctOf(r *hx.Rand, pool []string, max int) []string {
	cp := append([]string(nil), pool...)
	hx.Shuffle(r, cp)
	n := 1 + r.Intn(max)
	if n > len(cp) {
		n = len(cp)
	}
	return cp[:n]
}

// genOpt: nil | string | list ; bad => ill-typed.
func genOpt(r *hx.Rand, pool []string) any {
	switch r.Intn(6) {
	case 0, 1:
		return nil
	case 2, 3:
		return hx.Pick(r, pool)
	case 4:
		return someOf(r, pool, 3)
	default:
		if r.Chance(1, 3) {
			return []string{}
		}
		return someOf(r, pool, 1)
	}
}

func genStrategyV2(r *hx.Rand) *string {
	switch r.Intn(4) {
	case 0:
		return sp("directory")
	case 1:
		return sp("all")
	default:
		return nil
	}
}

type gctx struct {
	r     *hx.Rand
	run   *hx.Run
	tags  map[string]struct{} // distribution tags of this document
	bad   bool                // document was deliberately invalidated
	lossy bool                // document deliberately uses a feature the v2 writer does not carry
}

func (g *gctx) tag(s string) { g.tags[s] = struct{}{} }

func (g *gctx) pluginV2(invalid bool) gPluginV2 {
	r := g.r
	p := gPluginV2{Out: hx.Pick(r, gOuts), Opt: genOpt(r, gOpts)}
	kind := r.Intn(4)
	switch kind {
	case 0:
		p.Remote = sp(hx.Pick(r, gRemoteGood))
		if r.Chance(1, 2) {
			p.Revision = ip(hx.Pick(r, []int{0, 1, 7, 2147483647}))
			g.tag("plugin:remote+revision")
		} else {
			g.tag("plugin:remote")
		}
	case 1:
		p.Local = hx.Pick(r, gLocalPaths[:8])
		p.Strategy = genStrategyV2(r)
		g.tag("plugin:local-string")
	case 2:
		p.Local = someOf(r, gLocalPaths, 3)
		p.Strategy = genStrategyV2(r)
		g.tag("plugin:local-list")
	default:
		p.ProtocBuiltin = sp(hx.Pick(r, gBuiltin))
		p.ProtocPath = genOpt(r, gProtocPaths)
		p.Strategy = genStrategyV2(r)
		if p.ProtocPath != nil {
			g.tag("plugin:protoc_builtin+protoc_path")
		} else {
			g.tag("plugin:protoc_builtin")
		}
	}
	if r.Chance(1, 3) {
		p.IncludeImports = true
		p.IncludeWKT = r.Bool()
		g.tag("plugin:include_imports")
	}
	if g.lossy && r.Chance(1, 2) {
		if r.Bool() {
			p.Types = someOf(r, gTypes, 2)
		} else {
			p.ExcludeTypes = someOf(r, gTypes, 2)
		}
		g.tag("plugin:types")
	}
	if invalid {
		g.bad = true
		switch m := r.Intn(14); m {
		case 0:
			p.Remote, p.ProtocBuiltin = sp(hx.Pick(r, gRemoteGood)), sp("java")
			g.tag("invalid:two-plugin-kinds")
		case 1:
			p.Out = ""
			g.tag("invalid:missing-out")
		case 2:
			p.Strategy = sp(hx.Pick(r, []string{"bogus", "Directory", "ALL"}))
			g.tag("invalid:unknown-strategy")
		case 3:
			p = gPluginV2{Remote: sp(hx.Pick(r, gRemoteGood)), Out: "gen", Revision: ip(hx.Pick(r, []int{-1, -7, 2147483648}))}
			g.tag("invalid:revision-out-of-range")
		case 4:
			p = gPluginV2{Remote: sp(hx.Pick(r, gRemoteGood)), Out: "gen", Strategy: sp("all")}
			g.tag("invalid:remote+strategy")
		case 5:
			if p.ProtocBuiltin != nil {
				p.ProtocBuiltin, p.Local = nil, "protoc-gen-x"
			}
			p.ProtocPath = "protoc"
			g.tag("invalid:protoc_path-on-non-builtin")
		case 6:
			if p.Remote != nil {
				p.Remote, p.Local = nil, "protoc-gen-x"
			}
			p.Revision = ip(1)
			g.tag("invalid:revision-on-non-remote")
		case 7:
			p.IncludeImports, p.IncludeWKT = false, true
			g.tag("invalid:wkt-without-imports")
		case 8:
			p.Opt = 7
			g.tag("invalid:opt-ill-typed")
		case 9:
			p = gPluginV2{Local: []string{}, Out: "gen"}
			g.tag("invalid:local-empty-list")
		case 10:
			p = gPluginV2{Remote: sp(hx.Pick(r, gRemoteBad)), Out: "gen"}
			g.tag("invalid:bad-remote-name")
		case 11:
			p.Remote, p.Local, p.ProtocBuiltin, p.ProtocPath, p.Revision = nil, nil, nil, nil, nil
			g.tag("invalid:no-plugin-kind")
		case 12:
			p = gPluginV2{Local: 7, Out: "gen"}
			g.tag("invalid:local-ill-typed")
		default:
			p = gPluginV2{ProtocBuiltin: sp("java"), ProtocPath: 7, Out: "gen"}
			g.tag("invalid:protoc_path-ill-typed")
		}
	}
	return p
}

// typedValue returns a correctly typed value for a canonical file option name.
func typedValue(r *hx.Rand, opt string) any {
	switch {
	case opt == "optimize_for":
		return hx.Pick(r, gOptModes)
	case opt == "java_multiple_files" || opt == "java_string_check_utf8" || opt == "cc_enable_arenas":
		return r.Bool()
	default:
		return hx.Pick(r, gStrVals)
	}
}

func anyFileOpt(r *hx.Rand) string {
	switch r.Intn(6) {
	case 0:
		return "optimize_for"
	case 1:
		return hx.Pick(r, gBoolFileOpt)
	default:
		return hx.Pick(r, gStrFileOpts)
	}
}

func (g *gctx) disableV2(invalid bool) gDisableV2 {
	r := g.r
	var d gDisableV2
	switch r.Intn(9) {
	case 0:
		d.FileOption = spell(r, anyFileOpt(r))
	case 1:
		d.Module = hx.Pick(r, gModGood)
	case 2:
		d.Path = hx.Pick(r, gPathGood)
	case 3:
		d.FileOption, d.Module = spell(r, anyFileOpt(r)), hx.Pick(r, gModGood)
	case 4:
		d.FileOption, d.Path = spell(r, anyFileOpt(r)), hx.Pick(r, gPathGood)
	case 5:
		d.FieldOption = spell(r, "jstype")
	case 6:
		d.FieldOption, d.Field = spell(r, "jstype"), hx.Pick(r, gFields)
	case 7:
		d.Field = hx.Pick(r, gFields)
	default:
		d.Module, d.Path, d.Field = hx.Pick(r, gModGood), hx.Pick(r, gPathGood), hx.Pick(r, gFields)
	}
	if invalid {
		g.bad = true
		switch r.Intn(6) {
		case 0:
			d = gDisableV2{}
			g.tag("invalid:empty-disable")
		case 1:
			d = gDisableV2{FileOption: anyFileOpt(r), Field: hx.Pick(r, gFields)}
			g.tag("invalid:disable-file_option+field")
		case 2:
			d.FileOption, d.FieldOption, d.Field = anyFileOpt(r), "jstype", ""
			g.tag("invalid:disable-both-options")
		case 3:
			d.Path = hx.Pick(r, gPathBad)
			g.tag("invalid:bad-path")
		case 4:
			d.Module = hx.Pick(r, gModBad)
			g.tag("invalid:bad-module")
		default:
			if r.Bool() {
				d = gDisableV2{FileOption: hx.Pick(r, gBadFileOpts)}
			} else {
				d = gDisableV2{FieldOption: hx.Pick(r, []string{"js_type", "java_package", "ctype"})}
			}
			g.tag("invalid:bad-managed-option-name")
		}
	}
	return d
}

func (g *gctx) overrideV2(invalid bool) gOverrideV2 {
	r := g.r
	var o gOverrideV2
	if r.Chance(1, 5) {
		o.FieldOption = spell(r, "jstype")
		o.Value = hx.Pick(r, gJSTypes)
		if r.Bool() {
			o.Field = hx.Pick(r, gFields)
		}
		g.tag("managed:override-field-option")
	} else {
		opt := anyFileOpt(r)
		o.FileOption = spell(r, opt)
		o.Value = typedValue(r, opt)
		g.tag("managed:override-file-option")
	}
	if r.Chance(1, 3) {
		o.Module = hx.Pick(r, gModGood)
	}
	if r.Chance(1, 3) {
		o.Path = hx.Pick(r, gPathGood)
	}
	if invalid {
		g.bad = true
		switch r.Intn(9) {
		case 0:
			o.FileOption, o.FieldOption = "", ""
			g.tag("invalid:override-no-option")
		case 1:
			o.FileOption, o.FieldOption, o.Field = "java_package", "jstype", ""
			g.tag("invalid:override-both-options")
		case 2:
			o.Value = nil
			g.tag("invalid:override-no-value")
		case 3:
			o = gOverrideV2{FileOption: "go_package_prefix", Field: hx.Pick(r, gFields), Value: "x"}
			g.tag("invalid:override-file_option+field")
		case 4:
			switch r.Intn(4) {
			case 0:
				o = gOverrideV2{FileOption: hx.Pick(r, gStrFileOpts), Value: true}
			case 1:
				o = gOverrideV2{FileOption: hx.Pick(r, gBoolFileOpt), Value: "true"}
			case 2:
				o = gOverrideV2{FileOption: anyFileOpt(r), Value: 7}
			default:
				o = gOverrideV2{FieldOption: "jstype", Value: false}
			}
			g.tag("invalid:override-value-type")
		case 5:
			if r.Bool() {
				o = gOverrideV2{FileOption: "optimize_for", Value: hx.Pick(r, []string{"FAST", "speed", ""})}
			} else {
				o = gOverrideV2{FieldOption: "jstype", Value: hx.Pick(r, []string{"JS_BIG", "js_string", ""})}
			}
			g.tag("invalid:override-bad-enum")
		case 6:
			o.Path = hx.Pick(r, gPathBad)
			g.tag("invalid:bad-path")
		case 7:
			o.Module = hx.Pick(r, gModBad)
			g.tag("invalid:bad-module")
		default:
			o = gOverrideV2{FileOption: hx.Pick(r, gBadFileOpts), Value: "x"}
			g.tag("invalid:bad-managed-option-name")
		}
	}
	return o
}

func (g *gctx) managedV2(invalid bool) gManagedV2 {
	r := g.r
	var m gManagedV2
	flavour := r.Intn(6)
	switch flavour {
	case 0, 1:
		g.tag("managed:absent")
		if !invalid {
			return m
		}
		flavour = 3
	case 2:
		m.Enabled = true
		g.tag("managed:enabled-no-rules")
		if !invalid {
			return m
		}
	}
	if flavour >= 3 {
		m.Enabled = flavour != 5
		if m.Enabled {
			g.tag("managed:enabled+rules")
		} else {
			g.tag("managed:disabled+rules")
		}
	}
	nd_, no := r.Intn(4), r.Intn(4)
	if invalid && nd_+no == 0 {
		nd_ = 1
	}
	badAt := -1
	if invalid {
		badAt = r.Intn(nd_ + no)
	}
	for i := 0; i < nd_; i++ {
		m.Disable = append(m.Disable, g.disableV2(i == badAt))
	}
	for i := 0; i < no; i++ {
		m.Override = append(m.Override, g.overrideV2(nd_+i == badAt))
	}
	return m
}

var inputKinds = []string{"module", "directory", "proto_file", "tarball", "zip_archive", "binary_image", "json_image", "text_image", "yaml_image", "git_repo"}

func (i *gInputV2) setKind(kind string, loc string) {
	p := sp(loc)
	switch kind {
	case "module":
		i.Module = p
	case "directory":
		i.Directory = p
	case "proto_file":
		i.ProtoFile = p
	case "tarball":
		i.Tarball = p
	case "zip_archive":
		i.ZipArchive = p
	case "binary_image":
		i.BinaryImage = p
	case "json_image":
		i.JSONImage = p
	case "text_image":
		i.TextImage = p
	case "yaml_image":
		i.YAMLImage = p
	case "git_repo":
		i.GitRepo = p
	}
}

func (g *gctx) inputV2(invalid bool) gInputV2 {
	r := g.r
	var in gInputV2
	kind := hx.Pick(r, inputKinds)
	g.tag("input:" + kind)
	switch kind {
	case "module":
		in.setKind(kind, hx.Pick(r, []string{"buf.build/acme/weather", "buf.build/acme/weather:main", "buf.build/googleapis/googleapis:75b4300737fb4efca0831636be94e517", ""}))
	case "directory":
		in.setKind(kind, hx.Pick(r, []string{"proto", ".", "a/b", "/abs/dir", "dir with space"}))
	case "proto_file":
		in.setKind(kind, hx.Pick(r, []string{"foo/bar.proto", "x.proto"}))
		if r.Bool() {
			in.IncludePackageFiles = bp(r.Bool())
		}
	case "tarball":
		in.setKind(kind, hx.Pick(r, []string{"a.tar.gz", "https://example.com/a.tar", "-"}))
		if r.Bool() {
			in.Compression = sp(hx.Pick(r, gCompression))
		}
		if r.Bool() {
			in.StripComponents = up(hx.Pick(r, gU32))
		}
		if r.Bool() {
			in.Subdir = sp(hx.Pick(r, gSubdirs))
		}
	case "zip_archive":
		in.setKind(kind, hx.Pick(r, []string{"x.zip", "https://example.com/x.zip"}))
		if r.Bool() {
			in.StripComponents = up(hx.Pick(r, gU32))
		}
		if r.Bool() {
			in.Subdir = sp(hx.Pick(r, gSubdirs))
		}
	case "git_repo":
		in.setKind(kind, hx.Pick(r, []string{"https://github.com/acme/weather.git", "ssh://git@github.com/acme/weather", "../repo"}))
		if r.Chance(1, 3) {
			in.Branch = sp(hx.Pick(r, gGitNames))
		}
		switch r.Intn(4) {
		case 0:
			in.Tag = sp(hx.Pick(r, gGitNames))
		case 1:
			in.Commit = sp(hx.Pick(r, gGitNames))
		}
		if r.Chance(1, 3) {
			in.Ref = sp(hx.Pick(r, gGitNames))
		}
		if r.Chance(1, 3) {
			in.Depth = up(hx.Pick(r, gU32))
		}
		if r.Chance(1, 3) {
			in.RecurseSubmodules = bp(r.Bool())
		}
		if r.Chance(1, 3) {
			in.Subdir = sp(hx.Pick(r, gSubdirs))
		}
	default: // images
		in.setKind(kind, hx.Pick(r, []string{"image.binpb", "image.json.gz", "-", "img.txtpb", "img.yaml"}))
		if r.Bool() {
			in.Compression = sp(hx.Pick(r, gCompression))
		}
	}
	if r.Chance(1, 3) {
		in.Types = someOf(r, gTypes, 3)
	}
	if r.Chance(1, 3) {
		in.TargetPaths = someOf(r, gTargetPaths, 3)
	}
	if r.Chance(1, 4) {
		in.ExcludePaths = someOf(r, gTargetPaths, 2)
	}
	if g.lossy && r.Chance(1, 2) {
		in.ExcludeTypes = someOf(r, gTypes, 2)
		g.tag("input:exclude_types")
	}
	if invalid {
		g.bad = true
		switch r.Intn(5) {
		case 0:
			other := hx.Pick(r, inputKinds)
			in.setKind(other, "other")
			if other != kind {
				g.tag("invalid:input-two-kinds")
			} else {
				g.bad = false
			}
		case 1:
			in = gInputV2{Types: in.Types, TargetPaths: []string{"x"}}
			g.tag("invalid:input-no-kind")
		case 2:
			in = gInputV2{Directory: sp("proto")}
			switch r.Intn(5) {
			case 0:
				in.Compression = sp("gzip")
			case 1:
				in.Branch = sp("main")
			case 2:
				in.Depth = up(1)
			case 3:
				in.IncludePackageFiles = bp(false)
			default:
				in.StripComponents = up(0)
			}
			g.tag("invalid:input-option-not-allowed")
		case 3:
			in = gInputV2{GitRepo: sp("https://github.com/acme/weather.git"), Commit: sp("abc"), Tag: sp("v1")}
			g.tag("invalid:input-commit+tag")
		default:
			in = gInputV2{ZipArchive: sp("x.zip"), Compression: sp("gzip")}
			g.tag("invalid:input-option-not-allowed")
		}
	}
	return in
}

func (g *gctx) docV2(invalid bool) *genDocV2 {
	r := g.r
	d := &genDocV2{Version: "v2", Clean: r.Chance(1, 5)}
	np := 1 + r.Intn(3)
	if r.Chance(1, 40) {
		np = 0
		g.tag("plugins:none")
	}
	ni := r.Intn(4)
	// where the deliberate defect goes
	where := -1
	if invalid {
		where = r.Intn(3)
		if where == 0 && np == 0 {
			np = 1
		}
		if where == 2 && ni == 0 {
			ni = 1
		}
	}
	badP, badI := -1, -1
	if where == 0 {
		badP = r.Intn(np)
	}
	if where == 2 {
		badI = r.Intn(ni)
	}
	for i := 0; i < np; i++ {
		d.Plugins = append(d.Plugins, g.pluginV2(i == badP))
	}
	d.Managed = g.managedV2(where == 1)
	for i := 0; i < ni; i++ {
		d.Inputs = append(d.Inputs, g.inputV2(i == badI))
	}
	if ni == 0 {
		g.tag("input:none")
	}
	return d
}

func (g *gctx) pluginV1(rtOnly bool, invalid bool) gPluginV1 {
	r := g.r
	p := gPluginV1{Out: hx.Pick(r, gOuts), Opt: genOpt(r, gOpts)}
	kind := r.Intn(6)
	if rtOnly {
		kind = r.Intn(3)
	}
	switch kind {
	case 0: // remote
		p.Plugin = hx.Pick(r, gRemoteGood)
		if r.Bool() {
			p.Revision = hx.Pick(r, []int{0, 1, 7, 2147483647})
			g.tag("plugin:v1-remote+revision")
		} else {
			g.tag("plugin:v1-remote")
		}
	case 1: // protoc builtin: plugin + protoc_path
		p.Plugin = hx.Pick(r, gBuiltin)
		switch r.Intn(3) {
		case 0:
			p.ProtocPath = hx.Pick(r, gProtocPaths)
		case 1:
			p.ProtocPath = someOf(r, gProtocPaths, 3)
		default:
			p.ProtocPath = []string{}
		}
		p.Strategy = hx.Pick(r, []string{"", "directory", "all"})
		g.tag("plugin:v1-protoc_path")
	case 2: // local whose name equals its path spelling
		path := someOf(r, gLocalPaths[:8], 2)
		p.Plugin = strings.Join(path, " ")
		if len(path) == 1 && r.Bool() {
			p.Path = path[0]
		} else {
			p.Path = path
		}
		p.Strategy = hx.Pick(r, []string{"", "directory", "all"})
		g.tag("plugin:v1-local-name=path")
	case 3: // name/plugin + path (name differs from path)
		if r.Bool() {
			p.Name = hx.Pick(r, gLocalNames)
		} else {
			p.Plugin = hx.Pick(r, gLocalNames)
		}
		if r.Bool() {
			p.Path = hx.Pick(r, gLocalPaths[:8])
		} else {
			p.Path = someOf(r, gLocalPaths, 3)
		}
		p.Strategy = hx.Pick(r, []string{"", "directory", "all"})
		g.tag("plugin:v1-local-path")
	default: // name or plugin only: local-or-protoc-builtin
		if r.Bool() {
			p.Name = hx.Pick(r, gLocalNames)
		} else {
			p.Plugin = hx.Pick(r, gLocalNames)
		}
		if r.Chance(1, 4) {
			p.Path = []string{}
		}
		p.Strategy = hx.Pick(r, []string{"", "directory", "all"})
		g.tag("plugin:v1-name-only")
	}
	if invalid {
		g.bad = true
		switch r.Intn(10) {
		case 0:
			p.Plugin, p.Name = "go", "go"
			g.tag("invalid:two-plugin-kinds")
		case 1:
			p.Out = ""
			g.tag("invalid:missing-out")
		case 2:
			p.Strategy = hx.Pick(r, []string{"bogus", "Directory"})
			if p.Plugin != "" && kind == 0 {
				p.Plugin = "go"
			}
			g.tag("invalid:unknown-strategy")
		case 3:
			p = gPluginV1{Plugin: hx.Pick(r, gRemoteGood), Out: "gen", Revision: hx.Pick(r, []int{-1, 2147483648})}
			g.tag("invalid:revision-out-of-range")
		case 4:
			p = gPluginV1{Plugin: hx.Pick(r, gRemoteGood), Out: "gen", Strategy: "all"}
			g.tag("invalid:remote+strategy")
		case 5:
			p = gPluginV1{Plugin: hx.Pick(r, gRemoteGood), Out: "gen"}
			if r.Bool() {
				p.Path = hx.Pick(r, []any{"protoc-gen-x", []string{}})
			} else {
				p.ProtocPath = hx.Pick(r, []any{"protoc", []string{}})
			}
			g.tag("invalid:remote+path")
		case 6:
			p = gPluginV1{Name: hx.Pick(r, gRemoteGood), Out: "gen"}
			g.tag("invalid:name-is-remote-ref")
		case 7:
			p.Plugin, p.Name = "", ""
			g.tag("invalid:no-plugin-kind")
		case 8:
			p.Opt = 7
			g.tag("invalid:opt-ill-typed")
		default:
			p = gPluginV1{Plugin: "go", Out: "gen", Path: 7}
			g.tag("invalid:path-ill-typed")
		}
	}
	return p
}

func (g *gctx) prefixV1(withDefault bool, defaults []string) gPrefixV1 {
	r := g.r
	var p gPrefixV1
	if withDefault {
		p.Default = hx.Pick(r, defaults)
	}
	mods := distinctOf(r, gModGood, 4)
	cut := r.Intn(len(mods) + 1)
	if r.Bool() {
		p.Except = mods[:cut]
	}
	if r.Bool() && cut < len(mods) {
		p.Override = map[string]string{}
		for _, m := range mods[cut:] {
			p.Override[m] = hx.Pick(r, defaults)
		}
	}
	return p
}

func (g *gctx) managedV1(invalid bool) gManagedV1 {
	r := g.r
	var m gManagedV1
	if r.Chance(1, 4) && !invalid {
		g.tag("managed:absent")
		return m
	}
	m.Enabled = r.Chance(3, 4)
	strDefaults := []string{"com.example", "github.com/acme/gen", "PFX", "x y"}
	any_ := false
	if r.Chance(1, 3) {
		m.CcEnableArenas = bp(r.Bool())
		any_ = true
		g.tag("managed:v1-cc_enable_arenas")
	}
	if r.Chance(1, 3) {
		m.JavaMultipleFiles = bp(r.Bool())
		any_ = true
		g.tag("managed:v1-java_multiple_files")
	}
	if r.Chance(1, 4) {
		m.JavaStringCheckUtf8 = bp(r.Bool())
		any_ = true
		g.tag("managed:v1-java_string_check_utf8")
	}
	if r.Chance(1, 3) {
		m.JavaPackagePrefix = g.prefixV1(true, strDefaults)
		m.JavaPackagePrefix.plain = r.Bool()
		any_ = true
		g.tag("managed:v1-java_package_prefix")
	}
	if r.Chance(1, 4) {
		m.CsharpNamespace = g.prefixV1(false, strDefaults)
		any_ = true
		g.tag("managed:v1-csharp_namespace")
	}
	if r.Chance(1, 3) {
		m.OptimizeFor = g.prefixV1(true, gOptModes)
		m.OptimizeFor.plain = r.Bool()
		any_ = true
		g.tag("managed:v1-optimize_for")
	}
	if r.Chance(1, 2) {
		m.GoPackagePrefix = g.prefixV1(true, strDefaults)
		any_ = true
		g.tag("managed:v1-go_package_prefix")
	}
	if r.Chance(1, 4) {
		m.ObjcClassPrefix = g.prefixV1(r.Bool(), []string{"ACM", "X", "PFX"})
		any_ = true
		g.tag("managed:v1-objc_class_prefix")
	}
	if r.Chance(1, 4) {
		m.RubyPackage = g.prefixV1(false, []string{"Acme::Weather", "X"})
		any_ = true
		g.tag("managed:v1-ruby_package")
	}
	if r.Chance(1, 3) {
		m.Override = map[string]map[string]string{}
		for i, n := 0, 1+r.Intn(3); i < n; i++ {
			opt := anyFileOpt(r)
			key := opt
			if r.Chance(1, 4) {
				key = strings.ToUpper(opt)
			}
			fm := map[string]string{}
			for _, p := range distinctOf(r, gPathGood, 3) {
				v := typedValue(r, opt)
				if b, ok := v.(bool); ok {
					fm[p] = hx.Pick(r, map[bool][]string{true: {"true", "1", "T", "TRUE"}, false: {"false", "0", "F", "False"}}[b])
				} else {
					fm[p] = v.(string)
				}
			}
			m.Override[key] = fm
		}
		any_ = true
		g.tag("managed:v1-per-file-override")
	}
	if !any_ {
		g.tag("managed:v1-enabled-only")
	}
	if !m.Enabled && any_ {
		g.tag("managed:disabled+rules")
	}
	if invalid {
		g.bad = true
		switch r.Intn(10) {
		case 0:
			m.JavaPackagePrefix = gPrefixV1{Except: []string{gModGood[0]}}
			g.tag("invalid:v1-prefix-without-default")
		case 1:
			m.GoPackagePrefix = gPrefixV1{Override: map[string]string{gModGood[0]: "x"}}
			g.tag("invalid:v1-prefix-without-default")
		case 2:
			m.GoPackagePrefix = gPrefixV1{Default: "x", Except: []string{gModGood[1], gModGood[0], gModGood[1]}}
			g.tag("invalid:v1-duplicate-except")
		case 3:
			m.RubyPackage = gPrefixV1{Except: []string{gModGood[1]}, Override: map[string]string{gModGood[1]: "X", gModGood[2]: "Y"}}
			g.tag("invalid:v1-override-also-except")
		case 4:
			if r.Bool() {
				m.CsharpNamespace = gPrefixV1{Except: []string{hx.Pick(r, gModBad)}}
			} else {
				m.ObjcClassPrefix = gPrefixV1{Default: "X", Override: map[string]string{hx.Pick(r, gModBad): "Y"}}
			}
			g.tag("invalid:bad-module")
		case 5:
			m.Override = map[string]map[string]string{hx.Pick(r, gBadFileOpts): {"a.proto": "x"}}
			g.tag("invalid:bad-managed-option-name")
		case 6:
			m.Override = map[string]map[string]string{hx.Pick(r, gBoolFileOpt): {"a.proto": hx.Pick(r, []string{"yes", "", "2"})}}
			g.tag("invalid:v1-bad-bool-string")
		case 7:
			m.Override = map[string]map[string]string{"go_package": {hx.Pick(r, gPathBad): "x"}}
			g.tag("invalid:bad-path")
		case 8:
			if r.Bool() {
				m.OptimizeFor = gPrefixV1{Default: hx.Pick(r, []string{"FAST", "speed"})}
			} else {
				m.OptimizeFor = gPrefixV1{Default: "SPEED", Override: map[string]string{gModGood[0]: "FAST"}}
			}
			g.tag("invalid:override-bad-enum")
		default:
			m.Override = map[string]map[string]string{"optimize_for": {"a.proto": "FAST"}}
			g.tag("invalid:override-bad-enum")
		}
	}
	return m
}

func (g *gctx) docV1(invalid bool) *genDocV1 {
	r := g.r
	d := &genDocV1{Version: "v1"}
	rtOnly := r.Chance(1, 2) // only plugin spellings that the v2 form can carry unchanged
	if rtOnly {
		g.tag("v1:representable-plugins-only")
	}
	np := 1 + r.Intn(3)
	where := -1
	if invalid {
		where = r.Intn(3)
	}
	badP := -1
	if where == 0 {
		badP = r.Intn(np)
	}
	if where == 2 {
		np = 0
		g.bad = true
		g.tag("invalid:no-plugins")
	}
	for i := 0; i < np; i++ {
		d.Plugins = append(d.Plugins, g.pluginV1(rtOnly, i == badP))
	}
	d.Managed = g.managedV1(where == 1)
	if g.lossy {
		d.Types.Include = someOf(r, gTypes, 3)
		g.tag("v1:types.include")
	}
	return d
}

func (g *gctx) docV1Beta1(invalid bool) *gV1Beta1 {
	r := g.r
	d := &gV1Beta1{Version: "v1beta1", Managed: r.Bool()}
	np := 1 + r.Intn(3)
	for i := 0; i < np; i++ {
		p := gPluginV1Beta1{Name: hx.Pick(r, gLocalNames), Out: hx.Pick(r, gOuts), Opt: genOpt(r, gOpts),
			Strategy: hx.Pick(r, []string{"", "directory", "all"})}
		switch r.Intn(3) {
		case 0:
			p.Path = hx.Pick(r, gLocalPaths[:8])
			g.tag("plugin:v1beta1-path")
		case 1:
			p.Path = hx.Pick(r, gLocalPaths[:8])
			p.Name = p.Path
			g.tag("plugin:v1beta1-name=path")
		default:
			g.tag("plugin:v1beta1-name-only")
		}
		d.Plugins = append(d.Plugins, p)
	}
	if r.Bool() {
		if r.Bool() {
			d.Options.CcEnableArenas = bp(r.Bool())
		}
		if r.Bool() {
			d.Options.JavaMultipleFiles = bp(r.Bool())
		}
		if r.Bool() {
			d.Options.OptimizeFor = hx.Pick(r, gOptModes)
		}
		if d.Managed {
			g.tag("managed:v1beta1-options")
		} else {
			g.tag("managed:disabled+rules")
		}
	} else {
		g.tag("managed:v1beta1-no-options")
	}
	if invalid {
		g.bad = true
		switch r.Intn(6) {
		case 0:
			d.Plugins = nil
			g.tag("invalid:no-plugins")
		case 1:
			d.Plugins[0].Out = ""
			g.tag("invalid:missing-out")
		case 2:
			d.Plugins[0].Name = ""
			g.tag("invalid:no-plugin-kind")
		case 3:
			d.Plugins[0].Strategy = "bogus"
			g.tag("invalid:unknown-strategy")
		case 4:
			d.Options.OptimizeFor = "FAST"
			g.tag("invalid:override-bad-enum")
		default:
			d.Plugins[0].Opt = 7
			g.tag("invalid:opt-ill-typed")
		}
	}
	return d
}

// ---------------------------------------------------------------------------------------------
// One case.

type genOutcome struct {
	readErr  error
	c1, c2   nd.Node
	w1, w2   []byte
	writeErr error
	rereadEr error
	write2Er error
	panicked any
}

func roundTrip(text []byte) (out genOutcome) {
	defer func() {
		if p := recover(); p != nil {
			out.panicked = p
		}
	}()
	f1, err := bufconfig.ReadBufGenYAMLFile(bytes.NewReader(text))
	if err != nil {
		out.readErr = err
		return
	}
	out.c1 = canon(f1)
	var b1 bytes.Buffer
	if err := bufconfig.WriteBufGenYAMLFile(&b1, f1); err != nil {
		out.writeErr = err
		return
	}
	out.w1 = b1.Bytes()
	f2, err := bufconfig.ReadBufGenYAMLFile(bytes.NewReader(out.w1))
	if err != nil {
		out.rereadEr = err
		return
	}
	out.c2 = canon(f2)
	var b2 bytes.Buffer
	if err := bufconfig.WriteBufGenYAMLFile(&b2, f2); err != nil {
		out.write2Er = err
		return
	}
	out.w2 = b2.Bytes()
	return
}

// runGen is the entry point: n generated documents.
func runGen(run *hx.Run, r *hx.Rand, n int) {
	// exec.LookPath is a parameter of the writer (v1/v1beta1 name-only plugins): PATH is one
	// directory holding exactly these executables, so that both outcomes occur for builtin
	// (java: found, cpp: not) and other (go: found, validate: not) names.
	binDir := filepath.Join(run.OutDir, "genbin")
	if err := os.MkdirAll(binDir, 0o755); err != nil {
		panic(err)
	}
	for _, b := range []string{"protoc-gen-go", "protoc-gen-java", "protoc-gen-kotlin", "protoc-gen-es"} {
		if err := os.WriteFile(filepath.Join(binDir, b), []byte("#!/bin/sh\nexit 1\n"), 0o755); err != nil {
			panic(err)
		}
	}
	os.Setenv("PATH", binDir)
	defer os.Setenv("PATH", "")
	if !lookPathFinds("protoc-gen-go") || lookPathFinds("protoc-gen-cpp") || lookPathFinds("protoc-gen-validate") {
		panic("PATH not as arranged")
	}
	for i := 0; i < n; i++ {
		if run.Only >= 0 && run.Only != i {
			continue
		}
		cr := r.Fork(uint64(i))
		g := &gctx{r: cr, run: run, tags: map[string]struct{}{}}
		invalid := cr.Chance(1, 6)
		g.lossy = cr.Chance(1, 8)
		env := newGenEnv()
		var doc any
		var body nd.Node
		var version string
		switch v := cr.Intn(10); {
		case v == 0:
			version = "v1beta1"
			d := g.docV1Beta1(invalid)
			env.addV1Beta1(d)
			doc, body = d, d.body()
		case v <= 3:
			version = "v1"
			d := g.docV1(invalid)
			env.addV1(d)
			doc, body = d, d.body()
		default:
			version = "v2"
			d := g.docV2(invalid)
			env.addV2(d)
			doc, body = d, d.body()
		}
		text, err := yaml.Marshal(doc)
		if err != nil {
			panic(err)
		}
		replay := fmt.Sprintf("c16 --seed %d --tier %s --only %d (gen case %d)", run.Seed, run.Tier, i, i)
		inputLine := "gen\t" + nd.L(nd.A(version), body, env.node(run)).String()

		out := roundTrip(text)
		run.Count("gen:version:" + version)
		for t := range g.tags {
			run.Count("gen:" + t)
		}
		fail := func(class, what string) {
			failC(run, hx.OracleFailure{Class: class, What: what, Input: string(text), Replay: replay})
			run.Count("gen:oracle:" + class)
		}
		var implLine string
		switch {
		case out.panicked != nil:
			fail("gen-panic", fmt.Sprintf("panic: %v", out.panicked))
			implLine = "panic"
		case out.readErr != nil:
			implLine = "err"
			run.Count("gen:read:err")
			if !g.bad {
				run.Count("gen:read:err-unplanned")
			}
		default:
			run.Count("gen:read:ok")
			if g.bad {
				run.Count("gen:read:ok-though-invalidated")
			}
			switch {
			case out.writeErr != nil:
				fail("gen-write-error", "write of a successfully read file failed: "+out.writeErr.Error())
				implLine = "ok " + out.c1.String() + " write-err"
			case out.rereadEr != nil:
				fail("gen-reread-error", "reading the written file failed: "+out.rereadEr.Error()+"\nwritten:\n"+string(out.w1))
				implLine = "ok " + out.c1.String() + " " + writtenNode(out.w1).String() + " reread-err"
			default:
				third := "same"
				// the exact relation: what was re-read is the normal form of what was read
				fourth := "norm-agree"
				if want := normaliseCanon(out.c1); want.String() != out.c2.String() {
					fourth = "norm-DISAGREE"
					fail("gen-reread-not-normal-form", "read(write(c)) differs from normalise(c): want "+show(want)+"\ngot "+show(out.c2)+"\nwritten:\n"+string(out.w1))
				}
				if out.c1.String() != out.c2.String() {
					third = out.c2.String()
					causes, what := diffCauses(out.c1, out.c2)
					for _, c := range causes {
						fail(c, what+"\nwritten:\n"+string(out.w1))
					}
					run.Count("gen:roundtrip:changed")
				} else {
					run.Count("gen:roundtrip:same")
				}
				if out.write2Er != nil {
					fail("gen-write-error", "second write failed: "+out.write2Er.Error())
				} else if !bytes.Equal(out.w1, out.w2) {
					fail("gen-write-not-idempotent", "first write:\n"+string(out.w1)+"\nsecond write:\n"+string(out.w2))
				}
				implLine = "ok " + out.c1.String() + " " + writtenNode(out.w1).String() + " " + third + " " + fourth
			}
		}
		run.Case(inputLine, implLine, out.readErr == nil)
		if i < 2 {
			run.Sample(map[string]any{"yaml": string(text), "impl": implLine})
		}
	}
}

// writtenNode: the external v2 document that was written, as a Node (v2 body layout).
func writtenNode(w []byte) nd.Node {
	var d genDocV2
	dec := yaml.NewDecoder(bytes.NewReader(w))
	dec.KnownFields(true)
	if err := dec.Decode(&d); err != nil {
		return nd.L(nd.A("unparsable-written-yaml"))
	}
	if d.Version != "v2" {
		return nd.L(nd.A("written-version-" + d.Version))
	}
	return d.body()
}
