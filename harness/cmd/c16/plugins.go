// Plugins of buf.yaml (v2 `plugins:` section): oracle and stratified generator family.
//
// Oracle (implementation only; nothing here consults the Lean model).  For every buf.yaml that
// the real reader accepts:
//
//	(a) read is faithful to the document: for the i-th `plugins:` entry of the document (decoded
//	    with yaml.v3 into plain Go values) the i-th PluginConfig has the documented Type (a first
//	    path element that bufparse.ParseRef accepts and that is not an existing file = remote; else
//	    `.wasm` = local Wasm; else local), Ref() is nil unless remote and else spells exactly the
//	    first path element INCLUDING its `:label` / `:commit`, Args() are the remaining path
//	    elements, Options() has the same keys with values of the same Go type and value
//	    (class yaml-plugin-read-unfaithful);
//	(b) read -> write -> read: every accessor of every PluginConfig is equal before and after —
//	    Type, Name, Ref (full name AND the label/commit it is pinned to), Args, Options with the
//	    value types preserved (class yaml-plugin-roundtrip-changed);
//	(c) the written document spells every plugin: its `plugin:` key is the reference (with pin) or
//	    the name followed by the args, its options are the accessor's options with the same YAML
//	    scalar types (class yaml-plugin-written-unfaithful).
//
// Idempotence of the writer is checked by yamlCase for the whole document.
//
// Generator family (runPluginFamily): every plugin shape (local bare / relative / absolute path,
// local Wasm, remote unpinned, remote pinned by label (v1, v1.2.0, main, feature/x), remote pinned
// by commit (32 hex digits)) x {no args, args} x every option value type alone (string; strings
// that look like another type "7" "true" "1.5" "null" "" "2001-01-01"; int 0 / positive /
// negative / beyond 32 bit; uint64 beyond int64; float; bool true / false; list of strings / ints
// / mixed; nested map), and documents that hold all shapes at once.
package main

import (
	"fmt"
	"os"
	"path/filepath"
	"sort"
	"strings"
	"time"

	"github.com/bufbuild/buf/private/bufpkg/bufconfig"
	"github.com/bufbuild/buf/private/bufpkg/bufparse"
	"github.com/bufbuild/verifharness/internal/hx"
	"github.com/bufbuild/verifharness/internal/nd"
	"gopkg.in/yaml.v3"
)

// canonVal renders a decoded YAML value with its Go type, recursively and deterministically.
func canonVal(v any) string {
	switch x := v.(type) {
	case nil:
		return "nil"
	case map[string]any:
		keys := make([]string, 0, len(x))
		for k := range x {
			keys = append(keys, k)
		}
		sort.Strings(keys)
		var sb strings.Builder
		sb.WriteString("map{")
		for _, k := range keys {
			sb.WriteString(fmt.Sprintf("%q=", k) + canonVal(x[k]) + ";")
		}
		sb.WriteString("}")
		return sb.String()
	case []any:
		var sb strings.Builder
		sb.WriteString("list[")
		for _, e := range x {
			sb.WriteString(canonVal(e) + ";")
		}
		sb.WriteString("]")
		return sb.String()
	case []string:
		var sb strings.Builder
		sb.WriteString("list[")
		for _, e := range x {
			sb.WriteString(canonVal(e) + ";")
		}
		sb.WriteString("]")
		return sb.String()
	case time.Time:
		return "time:" + x.UTC().Format(time.RFC3339Nano)
	case string:
		return fmt.Sprintf("string:%q", x)
	default:
		return fmt.Sprintf("%T:%v", v, v)
	}
}

func canonOptions(m map[string]any) string {
	if len(m) == 0 {
		return "map{}"
	}
	return canonVal(m)
}

// pluginFacts: every accessor of a PluginConfig, as strings.
type pluginFacts struct {
	Type, Name, RefFull, RefRef, RefString, Args, Options string
	HasRef                                                bool
}

func factsOf(p bufconfig.PluginConfig) pluginFacts {
	f := pluginFacts{Type: pluginKind(p), Name: p.Name(), Args: fmt.Sprintf("%q", p.Args()), Options: canonOptions(p.Options())}
	if len(p.Args()) == 0 {
		f.Args = "[]"
	}
	if ref := p.Ref(); ref != nil {
		f.HasRef = true
		f.RefFull = ref.FullName().String()
		f.RefRef = ref.Ref()
		f.RefString = ref.String()
	}
	return f
}

func (a pluginFacts) diff(b pluginFacts) []string {
	var out []string
	cmp := func(acc, x, y string) {
		if x != y {
			out = append(out, fmt.Sprintf("%s: %s -> %s", acc, x, y))
		}
	}
	cmp("Type()", a.Type, b.Type)
	cmp("Name()", a.Name, b.Name)
	if a.HasRef != b.HasRef {
		out = append(out, fmt.Sprintf("Ref() nil-ness: has=%v -> has=%v", a.HasRef, b.HasRef))
	}
	cmp("Ref().FullName()", a.RefFull, b.RefFull)
	cmp("Ref().Ref() (label or commit)", fmt.Sprintf("%q", a.RefRef), fmt.Sprintf("%q", b.RefRef))
	cmp("Ref().String()", a.RefString, b.RefString)
	cmp("Args()", a.Args, b.Args)
	cmp("Options()", a.Options, b.Options)
	return out
}

type yPluginsDoc struct {
	Plugins []yPlugin `yaml:"plugins"`
}

func pathOfPluginKey(v any) ([]string, bool) {
	switch x := v.(type) {
	case string:
		return []string{x}, true
	case []any:
		var out []string
		for _, e := range x {
			s, ok := e.(string)
			if !ok {
				return nil, false
			}
			out = append(out, s)
		}
		return out, true
	}
	return nil, false
}

// documentedKind: the plugin type the documentation of the `plugin` key gives a first path element.
func documentedKind(first string) string {
	if _, err := bufparse.ParseRef(first); err == nil {
		if _, err := os.Stat(first); os.IsNotExist(err) {
			return "remote_wasm"
		}
	}
	if filepath.Ext(first) == ".wasm" {
		return "local_wasm"
	}
	return "local"
}

func argsStr(a []string) string {
	if len(a) == 0 {
		return "[]"
	}
	return fmt.Sprintf("%q", a)
}

// pluginDocFaithful compares PluginConfigs with the `plugins:` section of a YAML document decoded
// into plain values.  what = "read" (document -> accessors) or "written" (accessors -> document).
func pluginDocFaithful(doc []byte, f bufconfig.BufYAMLFile) []string {
	var y yPluginsDoc
	if err := yaml.Unmarshal(doc, &y); err != nil {
		return []string{"the plugins section does not decode: " + err.Error()}
	}
	ps := f.PluginConfigs()
	if len(y.Plugins) != len(ps) {
		return []string{fmt.Sprintf("document lists %d plugins, PluginConfigs() has %d", len(y.Plugins), len(ps))}
	}
	var out []string
	for i, yp := range y.Plugins {
		path, ok := pathOfPluginKey(yp.Plugin)
		if !ok || len(path) == 0 {
			out = append(out, fmt.Sprintf("plugin %d: `plugin` key is %v", i, yp.Plugin))
			continue
		}
		fx := factsOf(ps[i])
		kind := documentedKind(path[0])
		if fx.Type != kind {
			out = append(out, fmt.Sprintf("plugin %d %q: Type() is %s, documented %s", i, path[0], fx.Type, kind))
		}
		if kind == "remote_wasm" {
			if !fx.HasRef {
				out = append(out, fmt.Sprintf("plugin %d %q: remote plugin without Ref()", i, path[0]))
			} else if fx.RefString != path[0] {
				out = append(out, fmt.Sprintf("plugin %d: document names %q, Ref() is %q (full name %q, label/commit %q)", i, path[0], fx.RefString, fx.RefFull, fx.RefRef))
			}
		} else {
			if fx.HasRef {
				out = append(out, fmt.Sprintf("plugin %d %q: local plugin with Ref() %q", i, path[0], fx.RefString))
			}
			if fx.Name != path[0] {
				out = append(out, fmt.Sprintf("plugin %d: document names %q, Name() is %q", i, path[0], fx.Name))
			}
		}
		if fx.Name == "" {
			out = append(out, fmt.Sprintf("plugin %d: Name() is empty", i))
		}
		if a := argsStr(path[1:]); a != fx.Args {
			out = append(out, fmt.Sprintf("plugin %d %q: document args %s, Args() %s", i, path[0], a, fx.Args))
		}
		if o := canonOptions(yp.Options); o != fx.Options {
			out = append(out, fmt.Sprintf("plugin %d %q: document options %s, Options() %s", i, path[0], o, fx.Options))
		}
	}
	return out
}

// pluginOracle: clauses (a), (b), (c) above.  f2 may be nil (written document rejected: reported
// by yamlCase already).
func pluginOracle(run *hx.Run, data, w1 []byte, f1, f2 bufconfig.BufYAMLFile, replay string) {
	ps1 := f1.PluginConfigs()
	if len(ps1) == 0 && (f2 == nil || len(f2.PluginConfigs()) == 0) {
		return
	}
	run.Count("plugin-oracle:documents")
	for _, p := range ps1 {
		fx := factsOf(p)
		shape := fx.Type
		if fx.HasRef {
			switch {
			case fx.RefRef == "":
				shape += ":unpinned"
			case len(fx.RefRef) == 32 && strings.Trim(fx.RefRef, "0123456789abcdef") == "":
				shape += ":commit"
			default:
				shape += ":label"
			}
		}
		if len(p.Args()) > 0 {
			shape += "+args"
		}
		run.Count("plugin-oracle:shape=" + shape)
		for _, v := range p.Options() {
			run.Count(fmt.Sprintf("plugin-oracle:option-type=%T", v))
		}
	}
	input := func(extra map[string]string) map[string]string {
		m := map[string]string{"document": string(data), "written": string(w1)}
		for k, v := range extra {
			m[k] = v
		}
		return m
	}
	if ds := pluginDocFaithful(data, f1); len(ds) > 0 {
		failC(run, hx.OracleFailure{Class: "yaml-plugin-read-unfaithful", What: "buf.yaml plugins: the accessors do not say what the document says: " + strings.Join(ds, "; "),
			Input: input(nil), Replay: replay})
	}
	if ds := pluginDocFaithful(w1, f1); len(ds) > 0 {
		failC(run, hx.OracleFailure{Class: "yaml-plugin-written-unfaithful", What: "buf.yaml plugins: the written document does not spell the configuration that was written: " + strings.Join(ds, "; "),
			Input: input(nil), Replay: replay})
	}
	if f2 == nil {
		return
	}
	ps2 := f2.PluginConfigs()
	if len(ps1) != len(ps2) {
		failC(run, hx.OracleFailure{Class: "yaml-plugin-roundtrip-changed", What: fmt.Sprintf("buf.yaml read -> write -> read: %d plugins before, %d after", len(ps1), len(ps2)),
			Input: input(nil), Replay: replay})
		return
	}
	for i := range ps1 {
		if ds := factsOf(ps1[i]).diff(factsOf(ps2[i])); len(ds) > 0 {
			failC(run, hx.OracleFailure{Class: "yaml-plugin-roundtrip-changed",
				What:  fmt.Sprintf("buf.yaml read -> write -> read changed plugin %d (%s): %s", i, ps1[i].Name(), strings.Join(ds, "; ")),
				Input: input(nil), Replay: replay})
			return
		}
	}
}

// ---------------------------------------------------------------------------------------------
// generator vocabulary (also used by genPlugins for the random documents)

type pluginShape struct {
	name  string
	first func(r *hx.Rand) string
	isRef bool
}

var pluginShapes = []pluginShape{
	{"local-bare", func(r *hx.Rand) string { return hx.Pick(r, []string{"buf-plugin-foo", "buf-plugin-bar"}) }, false},
	{"local-relative", func(r *hx.Rand) string { return hx.Pick(r, []string{"./bin/check", "plugins/lint"}) }, false},
	{"local-absolute", func(r *hx.Rand) string { return "/opt/verif-no-such-dir/bin/check" }, false},
	{"local-wasm", func(r *hx.Rand) string { return hx.Pick(r, []string{"plugin.wasm", "./plugins/x.wasm"}) }, false},
	{"remote-unpinned", func(r *hx.Rand) string { return hx.Pick(r, []string{"buf.build/acme/plugin", "example.com/org/check"}) }, true},
	{"remote-label", func(r *hx.Rand) string {
		return hx.Pick(r, []string{"buf.build/acme/plugin", "example.com/org/check"}) + ":" + hx.Pick(r, []string{"v1", "v1.2.0", "main", "feature/x"})
	}, true},
	{"remote-commit", func(r *hx.Rand) string {
		return hx.Pick(r, []string{"buf.build/acme/plugin", "example.com/org/check"}) + ":" + hexStr(r, 32)
	}, true},
}

// one value of every YAML type an options map can hold (Go types as yaml.v3 decodes them)
var pluginOptionValues = []any{
	"_time", "a b", "7", "true", "1.5", "null", "", "2001-01-01", "~", "0x10", "multi\nline", " lead",
	3, 0, -3, 1 << 40, uint64(12345678901234567890),
	1.5, 1e10, -0.25,
	true, false,
	[]any{"a", "b"}, []any{1, 2}, []any{1, "x", 2.5, true},
	map[string]any{"k": "v", "n": 2},
}

var pluginOptionKeys = []string{"timestamp_suffix", "max", "strict", "ratio", "name", "list", "nested"}

func mkPlugin(r *hx.Rand, sh pluginShape, withArgs bool) gPlugin {
	p := gPlugin{Path: []string{sh.first(r)}, IsRef: sh.isRef}
	if withArgs {
		p.Path = append(p.Path, hx.Pick(r, [][]string{{"--x", "1"}, {"--flag", "value"}, {"-v"}, {"a b", ""}})...)
	}
	return p
}

// runPluginFamily: stratified buf.yaml v2 documents about the plugins section only.
const pluginFamBase = 1000000

func runPluginFamily(run *hx.Run, r *hx.Rand) {
	type cse struct {
		ps []gPlugin
	}
	var cases []cse
	rr := r.Fork(1)
	for _, sh := range pluginShapes {
		for _, withArgs := range []bool{false, true} {
			// no options
			cases = append(cases, cse{[]gPlugin{mkPlugin(rr, sh, withArgs)}})
			// every option value alone
			for vi, v := range pluginOptionValues {
				p := mkPlugin(rr, sh, withArgs)
				p.Options = map[string]any{pluginOptionKeys[vi%len(pluginOptionKeys)]: v}
				cases = append(cases, cse{[]gPlugin{p}})
			}
		}
	}
	// all shapes in one document, options of several types on each
	for k := 0; k < 12; k++ {
		var ps []gPlugin
		for si, sh := range pluginShapes {
			p := mkPlugin(rr, sh, (k+si)%2 == 0)
			p.Options = map[string]any{}
			for j := 0; j < 1+(k+si)%4; j++ {
				p.Options[pluginOptionKeys[(k+si+j)%len(pluginOptionKeys)]] = pluginOptionValues[(k*7+si*3+j*5)%len(pluginOptionValues)]
			}
			ps = append(ps, p)
		}
		hx.Shuffle(rr, ps)
		cases = append(cases, cse{ps})
	}
	for k, c := range cases {
		if run.Only >= 0 && run.Only != pluginFamBase+k {
			continue
		}
		d := gV2{Name: gName{"", true}, Plugins: c.ps}
		if k%3 == 1 {
			d.Modules = []gModule{{Path: "proto", Name: gName{"", true}}}
		}
		run.Count("plugin-family:cases")
		yamlCase(run, pluginFamBase+k, "v2", d.node(), d.yaml(), func(b []byte) (nd.Node, error) {
			w, err := parseWrittenV2(b)
			return w.node(), err
		})
	}
}
