package main

import (
	"flag"
	"fmt"
	"os"
	"reflect"
	"runtime"
	"sort"
	"strconv"
	"strings"
	"sync"

	"buf.build/go/bufplugin/check"
	"github.com/bufbuild/buf/private/buf/bufmigrate"
	"github.com/bufbuild/buf/private/bufpkg/bufcheck"
	"github.com/bufbuild/buf/private/bufpkg/bufconfig"
	"github.com/bufbuild/buf/private/bufpkg/bufmodule"
	"github.com/bufbuild/buf/private/bufpkg/bufplugin"
	"github.com/bufbuild/buf/private/pkg/storage"
	"github.com/bufbuild/buf/private/pkg/storage/storagemem"
	"github.com/bufbuild/buf/private/pkg/wasm"
	"github.com/bufbuild/verifharness/internal/hx"
	"github.com/bufbuild/verifharness/internal/nd"
	"gopkg.in/yaml.v3"
)

// Section G: the RULE SELECTION of a lint / breaking section through `buf config migrate`.
//
// One case = one v1beta1 / v1 buf.yaml (module "." with a lint and a breaking section) on an
// in-memory bucket, migrated by the real migrator (bufmigrate.Migrator.Migrate, exactly what
// `buf config migrate` runs).  Observed, implementation only:
//   - the `use`, `except`, `ignore`, `ignore_only`, `disable_builtin` keys of both sections of the
//     WRITTEN v2 buf.yaml, in file order (parsed with yaml.v3, not through buf's reader);
//   - the rule ids the real bufcheck.Client selects (ConfiguredRules) for the section as the real
//     v1 reader returns it, and for the migrated section as the real v2 reader returns it.
//   correspondence: protocol op `migchk` == BufModel.MigrateRules.migrateSection on the
//     regenerated rule tables (lean/Driver/C16Mig.lean), line by line.
//   oracle (implementation only, the property's own statement at the level of rule selection):
//     selected after == selected before minus the rules v2 does not have; for every rule selected
//     after, the ignore_only paths that apply to it are the same before and after (computed from
//     the real rule lists: a key is a rule, a deprecated rule standing for its replacements, or a
//     category standing for its member rules).  Classes:
//       migrate-error/*                      the migrator fails on a configuration buf accepts
//       migrate-{lint,breaking}-changed-except-category-grew
//                                            a rule is no longer selected because a category named in
//                                            `except` has more members in v2 and the repair (`use` +=
//                                            the missing ids) cannot win against `except` / replaces
//                                            the default rule set
//       migrate-{lint,breaking}-changed-ignore-only-category-key   (recorded) a category key of
//                                            ignore_only whose membership differs between versions
//       migrate-ignore-only-key-collision    two ignore_only keys translate to the same v2 id; the
//                                            paths of one of them are lost (map iteration order)
//       migrate-selection-changed            anything else (never on the unchanged tree)
//       migrate-ignore-only-changed          anything else (never on the unchanged tree)
//
// The id space is taken from the real client: every rule id and category of every version and
// rule type, alone in each of use / except / ignore_only, in pairs, with deprecated ids, with ids
// v2 does not have, ids of the other rule type, unknown and blank ids, disable_builtin, sections
// switched off with `ignore: [.]`, absent sections (the v1 defaults).

type gSection struct {
	Use, Except, Ignore []string
	IgnoreOnly          map[string][]string
	DisableBuiltin      bool
}

func (s gSection) node() nd.Node {
	return nd.L(nd.Strs(s.Use), nd.Strs(s.Except), nd.Strs(s.Ignore), nd.Map(s.IgnoreOnly), nd.B(s.DisableBuiltin))
}

func (s gSection) describe() string {
	return fmt.Sprintf("use=%v except=%v ignore=%v ignore_only=%v disable_builtin=%v", s.Use, s.Except, s.Ignore, s.IgnoreOnly, s.DisableBuiltin)
}

// ruleSpace is what the real client says about one (version, rule type).
type ruleSpace struct {
	rules      []bufcheck.Rule
	ids        []string            // all rule ids, sorted
	categories []string            // all category ids carried by the rules, sorted
	deprecated map[string][]string // deprecated rule id -> replacements
	members    map[string][]string // category -> member rule ids
	isRule     map[string]bool
}

func (sp *ruleSpace) universe() []string { return append(append([]string(nil), sp.ids...), sp.categories...) }

// denote: the non-deprecated rule ids an id of a configuration stands for in this space.
func (sp *ruleSpace) denote(id string) []string {
	undep := func(r string) []string {
		if repl, ok := sp.deprecated[r]; ok {
			return repl
		}
		return []string{r}
	}
	var out []string
	if sp.isRule[id] {
		out = undep(id)
	} else {
		for _, r := range sp.members[id] {
			out = append(out, undep(r)...)
		}
	}
	return out
}

type migChkEnv struct {
	client bufcheck.Client
	spaces map[string]*ruleSpace // "v1beta1/lint" ...
	// mode: which variant of equivalentCheckConfigInV2 the tree under test has, probed on the two
	// witnesses of the recorded findings (see probeMode): "00" as coded at the time of writing,
	// first character 1 = the rule selection is checked once more after the repair step, second
	// character 1 = undeprecateMap merges the paths of colliding keys.
	mode string
}

var migChkVersions = map[string]bufconfig.FileVersion{
	"v1beta1": bufconfig.FileVersionV1Beta1, "v1": bufconfig.FileVersionV1, "v2": bufconfig.FileVersionV2,
}

func typeName(lint bool) string {
	if lint {
		return "lint"
	}
	return "breaking"
}

func newCheckClient() (bufcheck.Client, error) {
	return bufcheck.NewClient(quietLogger,
		bufcheck.NewLocalRunnerProvider(wasm.UnimplementedRuntime, bufplugin.NopPluginKeyProvider, bufplugin.NopPluginDataProvider))
}

func newMigChkEnv() (*migChkEnv, error) {
	client, err := newCheckClient()
	if err != nil {
		return nil, err
	}
	env := &migChkEnv{client: client, spaces: map[string]*ruleSpace{}}
	for name, fv := range migChkVersions {
		for _, lint := range []bool{true, false} {
			rt := check.RuleTypeBreaking
			if lint {
				rt = check.RuleTypeLint
			}
			rules, err := client.AllRules(ctx, rt, fv)
			if err != nil {
				return nil, err
			}
			sp := &ruleSpace{rules: rules, deprecated: map[string][]string{}, members: map[string][]string{}, isRule: map[string]bool{}}
			for _, r := range rules {
				sp.ids = append(sp.ids, r.ID())
				sp.isRule[r.ID()] = true
				if r.Deprecated() {
					sp.deprecated[r.ID()] = append([]string{}, r.ReplacementIDs()...)
				}
				for _, c := range r.Categories() {
					sp.members[c.ID()] = append(sp.members[c.ID()], r.ID())
				}
			}
			for c := range sp.members {
				sp.categories = append(sp.categories, c)
			}
			sort.Strings(sp.ids)
			sort.Strings(sp.categories)
			env.spaces[name+"/"+typeName(lint)] = sp
		}
	}
	return env, nil
}

type migChkCase struct {
	ver            string
	lint, breaking gSection
	family         string
}

func (c *migChkCase) yaml() []byte {
	l := yLintV1{Use: c.lint.Use, Except: c.lint.Except, Ignore: c.lint.Ignore, IgnoreOnly: c.lint.IgnoreOnly, DisableBuiltin: c.lint.DisableBuiltin}
	b := yBreaking{Use: c.breaking.Use, Except: c.breaking.Except, Ignore: c.breaking.Ignore, IgnoreOnly: c.breaking.IgnoreOnly, DisableBuiltin: c.breaking.DisableBuiltin}
	return mustYAML(yV1{Version: c.ver, Lint: l, Breaking: b})
}

func ruleIDsOf(rules []bufcheck.Rule) []string {
	out := make([]string, 0, len(rules))
	for _, r := range rules {
		out = append(out, r.ID())
	}
	sort.Strings(out)
	return out
}

func strSet(xs []string) map[string]bool {
	m := map[string]bool{}
	for _, x := range xs {
		m[x] = true
	}
	return m
}

// pathsFor: the ignore_only paths that apply to rule r under the given map, in the given space.
func pathsFor(sp *ruleSpace, io map[string][]string, r string) []string {
	set := map[string]bool{}
	for k, ps := range io {
		for _, d := range sp.denote(k) {
			if d == r {
				for _, p := range ps {
					set[p] = true
				}
			}
		}
	}
	out := make([]string, 0, len(set))
	for p := range set {
		out = append(out, p)
	}
	sort.Strings(out)
	return out
}

// observeSection: the written keys of one v2 section + the selections.
type secObs struct {
	written        gSection
	disabled       bool
	before, after  []string
	ioBefore       map[string][]string // as the real v1 reader returns it
	ioAfter        map[string][]string // as the real v2 reader returns it
	exceptBefore   []string
	useBefore      []string
	afterErr       string
	disabledBefore bool
}

func (o *secObs) node(collision bool) nd.Node {
	return nd.L(nd.B(o.disabled), nd.Strs(o.written.Use), nd.Strs(o.written.Except), nd.Strs(o.written.Ignore),
		nd.Map(o.written.IgnoreOnly), nd.B(o.written.DisableBuiltin), nd.Strs(o.before), nd.Strs(o.after), nd.B(collision))
}

// chkRec records what one case reports; cases run on worker goroutines and are replayed in case
// order (see migRec).
type chkRec struct {
	migRec
	Seed   uint64
	Tier   string
	inputs []string
	outs   []string
	nontr  []bool
}

func (m *chkRec) Case(in, out string, nontrivial bool) {
	m.inputs, m.outs, m.nontr = append(m.inputs, in), append(m.outs, out), append(m.nontr, nontrivial)
}

// chkObservation is everything section G observes of one buf.yaml through the real code.
type chkObservation struct {
	status   string // unreadable | migrate-error | after-read-error | ok
	errText  string
	beforeOK bool // the rule selection of the file's own version accepts both sections
	obs      map[bool]*secObs
	written  []byte
}

// observe reads the v1beta1 / v1 buf.yaml with buf's reader, migrates it in memory with the real
// migrator, parses the written file and reads it back with buf's reader.
func (env *migChkEnv) observe(client bufcheck.Client, data []byte) *chkObservation {
	out := &chkObservation{obs: map[bool]*secObs{}, beforeOK: true}
	f1, err := readYAML(data)
	if err != nil {
		out.status, out.errText = "unreadable", err.Error()
		return out
	}
	m1 := f1.ModuleConfigs()[0]
	bucket := storagemem.NewReadWriteBucket()
	if err := storage.PutPath(ctx, bucket, "buf.yaml", data); err != nil {
		panic(err)
	}
	if err := storage.PutPath(ctx, bucket, "a.proto", []byte("syntax = \"proto3\";\npackage a;\n")); err != nil {
		panic(err)
	}
	for _, lint := range []bool{true, false} {
		var cc bufconfig.CheckConfig = m1.BreakingConfig()
		rt := check.RuleTypeBreaking
		if lint {
			cc, rt = m1.LintConfig(), check.RuleTypeLint
		}
		o := &secObs{disabledBefore: cc.Disabled(), ioBefore: cc.IgnoreIDOrCategoryToPaths(), exceptBefore: cc.ExceptIDsAndCategories()}
		if !cc.Disabled() {
			o.useBefore = cc.UseIDsAndCategories()
			rules, err := client.ConfiguredRules(ctx, rt, cc)
			if err != nil {
				out.beforeOK = false
			}
			o.before = ruleIDsOf(rules)
		}
		out.obs[lint] = o
	}
	migrator := bufmigrate.NewMigrator(quietLogger, noModuleKeys{}, bufmodule.NopCommitProvider)
	if err := migrator.Migrate(ctx, bucket, nil, []string{"."}, nil); err != nil {
		out.status, out.errText = "migrate-error", err.Error()
		return out
	}
	written, err := storage.ReadPath(ctx, bucket, "buf.yaml")
	if err != nil {
		panic(err)
	}
	out.written = written
	var y yV2
	if err := yaml.Unmarshal(written, &y); err != nil {
		panic(fmt.Errorf("written buf.yaml does not parse: %w\n%s", err, written))
	}
	yl, yb := y.Lint, y.Breaking
	if len(y.Modules) == 1 {
		if !reflect.DeepEqual(y.Modules[0].Lint, yLintV2{}) {
			yl = y.Modules[0].Lint
		}
		if !reflect.DeepEqual(y.Modules[0].Breaking, yBreaking{}) {
			yb = y.Modules[0].Breaking
		}
	} else if len(y.Modules) > 1 {
		panic(fmt.Errorf("one module migrated to %d modules:\n%s", len(y.Modules), written))
	}
	out.obs[true].written = gSection{yl.Use, yl.Except, yl.Ignore, yl.IgnoreOnly, yl.DisableBuiltin}
	out.obs[false].written = gSection{yb.Use, yb.Except, yb.Ignore, yb.IgnoreOnly, yb.DisableBuiltin}
	f2, err := bufconfig.GetBufYAMLFileForPrefix(ctx, bucket, ".")
	if err != nil {
		out.status, out.errText = "after-read-error", err.Error()
		return out
	}
	m2 := f2.ModuleConfigs()[0]
	for _, lint := range []bool{true, false} {
		var cc bufconfig.CheckConfig = m2.BreakingConfig()
		rt := check.RuleTypeBreaking
		if lint {
			cc, rt = m2.LintConfig(), check.RuleTypeLint
		}
		o := out.obs[lint]
		o.disabled = cc.Disabled()
		o.ioAfter = cc.IgnoreIDOrCategoryToPaths()
		if !cc.Disabled() {
			rules, err := client.ConfiguredRules(ctx, rt, cc)
			if err != nil {
				o.afterErr = err.Error()
				o.after = []string{"?"}
				continue
			}
			o.after = ruleIDsOf(rules)
		}
	}
	out.status = "ok"
	return out
}

// secVerdict: the property's own statement about one migrated section, on the real rule lists.
type secVerdict struct {
	selClass     string // "" = the selection is preserved
	lost, gained []string
	notInV2      []string
	ioClass      string // "" = the ignore_only paths of every selected rule are preserved
	ioDiffs      []string
	ioRules      map[string]bool // the rules whose ignore_only paths differ
	collision    bool
}

// hasNonBlank: does the `use` list name anything (newRulesConfig drops blank entries before it
// decides whether the default rules apply)?
func hasNonBlank(ids []string) bool {
	for _, id := range ids {
		if strings.TrimSpace(id) != "" {
			return true
		}
	}
	return false
}

func (env *migChkEnv) judge(ver string, lint bool, o *secObs) *secVerdict {
	v := &secVerdict{ioRules: map[string]bool{}}
	tn := typeName(lint)
	oldSp, newSp := env.spaces[ver+"/"+tn], env.spaces["v2/"+tn]
	afterSet := strSet(o.after)
	var want []string
	for _, r := range o.before {
		if newSp.isRule[r] {
			want = append(want, r)
			if !afterSet[r] {
				v.lost = append(v.lost, r)
			}
		} else {
			v.notInV2 = append(v.notInV2, r)
		}
	}
	wantSet := strSet(want)
	for _, r := range o.after {
		if !wantSet[r] {
			v.gained = append(v.gained, r)
		}
	}
	sharedCategory := func(id string) bool {
		return !oldSp.isRule[id] && len(oldSp.members[id]) > 0 && len(newSp.members[id]) > 0
	}
	if len(v.lost)+len(v.gained) > 0 {
		// The recorded family: some lost rule is, in v2, a member of a category that `except` names (a
		// category of both versions) - the repair then adds the missing ids to `use`, which cannot win
		// against `except` and, when `use` was absent, replaces the default rule set (then the other
		// default rules are lost as well).
		v.selClass = "migrate-selection-changed"
		if len(v.gained) == 0 {
			anyCovered, allExplained := false, true
			for _, r := range v.lost {
				covered := false
				for _, e := range o.exceptBefore {
					if sharedCategory(e) {
						for _, m := range newSp.members[e] {
							if m == r {
								covered = true
							}
						}
					}
				}
				anyCovered = anyCovered || covered
				allExplained = allExplained && (covered || (!hasNonBlank(o.useBefore) && hasNonBlank(o.written.Use)))
			}
			if anyCovered && allExplained {
				v.selClass = "migrate-" + tn + "-changed-except-category-grew"
			}
		}
	}
	// ignore_only: per rule selected before and after, the paths that apply to it.
	for _, r := range o.after {
		if !wantSet[r] {
			continue
		}
		b, a := pathsFor(oldSp, o.ioBefore, r), pathsFor(newSp, o.ioAfter, r)
		if strings.Join(b, "\x00") != strings.Join(a, "\x00") {
			v.ioDiffs = append(v.ioDiffs, fmt.Sprintf("%s: %v -> %v", r, b, a))
			v.ioRules[r] = true
		}
	}
	// two keys translating to a common id (judged on the real rule lists: a key that v2 does not have
	// as such, or that is deprecated, stands for what it denotes)
	targets := map[string]int{}
	for k := range o.ioBefore {
		ts := []string{k}
		if _, dep := oldSp.deprecated[k]; dep || (!newSp.isRule[k] && len(newSp.members[k]) == 0) {
			ts = oldSp.denote(k)
		}
		seen := map[string]bool{}
		for _, t := range ts {
			if !newSp.isRule[t] && len(newSp.members[t]) == 0 {
				continue // an id v2 does not have is dropped, it cannot collide
			}
			if !seen[t] {
				seen[t] = true
				targets[t]++
			}
		}
	}
	for _, n := range targets {
		if n > 1 {
			v.collision = true
		}
	}
	if len(v.ioDiffs) > 0 {
		v.ioClass = "migrate-ignore-only-changed"
		hasSharedCategoryKey := false
		for k := range o.ioBefore {
			if sharedCategory(k) {
				hasSharedCategoryKey = true
			}
		}
		switch {
		case v.collision:
			v.ioClass = "migrate-ignore-only-key-collision"
		case hasSharedCategoryKey:
			v.ioClass = "migrate-" + tn + "-changed-ignore-only-category-key"
		}
	}
	return v
}

func (env *migChkEnv) runCase(run *chkRec, client bufcheck.Client, idx int, c *migChkCase) {
	data := c.yaml()
	describe := fmt.Sprintf("buf.yaml (%s, family %s):\n%s", c.ver, c.family, data)
	replay := fmt.Sprintf("%s --seed %d --tier %s --out <dir> --only-migchk %d   # or: write the buf.yaml above next to any .proto file and run `buf config migrate`", os.Args[0], run.Seed, run.Tier, idx)
	run.Count("migchk:family:" + c.family)
	run.Count("migchk:ver:" + c.ver)
	mkLine := func(hl, hb map[string][]string) string {
		return "migchk\t" + env.mode + "\t" + c.ver + "\t" + c.lint.node().String() + "\t" + c.breaking.node().String() + "\t" + nd.Map(hl).String() + "\t" + nd.Map(hb).String()
	}
	defer func() {
		if p := recover(); p != nil {
			run.Fail(hx.OracleFailure{Class: "migrate-panic", What: fmt.Sprint(p), Input: describe, Replay: replay})
			run.Case(mkLine(nil, nil), "panic", true)
		}
	}()
	ob := env.observe(client, data)
	withWritten := describe + "\nwritten:\n" + string(ob.written)
	switch ob.status {
	case "unreadable":
		// the generator stays inside what the reader accepts; an unreadable file is not a migration case
		run.Count("migchk:unreadable")
		return
	case "migrate-error":
		run.Count("migchk:migrate-error")
		if ob.beforeOK {
			// buf lint / buf breaking accept the configuration, the migrator does not
			run.Fail(hx.OracleFailure{Class: "migrate-error/rule-selection", What: "buf config migrate fails although the configuration is accepted by the rule selection of its own version: " + ob.errText,
				Input: describe, Replay: replay})
		} else {
			run.Count("migchk:rejected-before-and-by-migrator")
		}
		run.Case(mkLine(nil, nil), "err", false)
		return
	case "after-read-error":
		run.Fail(hx.OracleFailure{Class: "migrate-after-read-error", What: ob.errText, Input: withWritten, Replay: replay})
		run.Case(mkLine(nil, nil), "after-read-error", true)
		return
	}
	if !ob.beforeOK {
		run.Count("migchk:rejected-before-but-migrated")
	}
	collisions := map[bool]bool{}
	for _, lint := range []bool{true, false} {
		o := ob.obs[lint]
		tn := typeName(lint)
		if o.afterErr != "" {
			run.Fail(hx.OracleFailure{Class: "migrate-" + tn + "-failed/rule-selection", What: "the migrated " + tn + " section is rejected by the v2 rule selection: " + o.afterErr,
				Input: withWritten, Replay: replay})
			continue
		}
		if o.disabledBefore != o.disabled {
			run.Fail(hx.OracleFailure{Class: "migrate-" + tn + "-changed-disabled-module", What: fmt.Sprintf("%s checks switched off before: %v, after: %v", tn, o.disabledBefore, o.disabled),
				Input: withWritten, Replay: replay})
			continue
		}
		if o.disabled || !ob.beforeOK {
			continue
		}
		run.Eval()
		v := env.judge(c.ver, lint, o)
		collisions[lint] = v.collision
		if len(v.notInV2) > 0 {
			run.Count("migchk:" + tn + ":selected-rule-not-in-v2")
		}
		if v.collision {
			run.Count("migchk:" + tn + ":ignore-only-collision")
		}
		if v.selClass != "" {
			run.Fail(hx.OracleFailure{Class: v.selClass, What: fmt.Sprintf("%s rules selected before migration (%d) and after (%d) differ: no longer selected %v, newly selected %v",
				tn, len(o.before), len(o.after), v.lost, v.gained), Input: withWritten, Replay: replay})
		} else {
			run.Count("migchk:" + tn + ":selection-preserved")
		}
		if v.ioClass != "" {
			run.Fail(hx.OracleFailure{Class: v.ioClass, What: tn + " ignore_only paths that apply to a selected rule differ before/after migration: " + strings.Join(v.ioDiffs, "; "),
				Input: withWritten, Replay: replay})
		} else if len(o.ioBefore) > 0 {
			run.Count("migchk:" + tn + ":ignore-only-preserved")
		}
	}
	out := "ok " + ob.obs[true].node(collisions[true]).String() + " " + ob.obs[false].node(collisions[false]).String()
	run.Case(mkLine(ob.obs[true].written.IgnoreOnly, ob.obs[false].written.IgnoreOnly), out, true)
	if idx < 3 {
		run.Sample(map[string]any{"section": "migchk", "buf.yaml": string(data), "written": string(ob.written)})
	}
}

// ---------------------------------------------------------------------------------------------
// generator

var migChkPaths = []string{"a", "b/c", "d.proto", "e/f.proto", "g"}

func pickPathsG(r *hx.Rand) []string {
	p := append([]string(nil), migChkPaths...)
	hx.Shuffle(r, p)
	out := p[:1+r.Intn(2)]
	sort.Strings(out)
	return out
}

// distinctPaths gives the i-th key of a collision case its own path list.
func distinctPaths(i int) []string { return []string{migChkPaths[i%len(migChkPaths)]} }

func (env *migChkEnv) section(r *hx.Rand, ver string, lint bool, slot string, ids []string) gSection {
	var s gSection
	switch slot {
	case "use":
		s.Use = ids
	case "except":
		s.Except = ids
	case "ignore_only":
		s.IgnoreOnly = map[string][]string{}
		for _, id := range ids {
			s.IgnoreOnly[id] = pickPathsG(r)
		}
	}
	return s
}

// systematic: every id / category of every version and type alone in every slot.
func (env *migChkEnv) aloneCases(r *hx.Rand) []*migChkCase {
	var out []*migChkCase
	for _, ver := range []string{"v1beta1", "v1"} {
		lu, bu := env.spaces[ver+"/lint"].universe(), env.spaces[ver+"/breaking"].universe()
		n := len(lu)
		if len(bu) > n {
			n = len(bu)
		}
		for _, slot := range []string{"use", "except", "ignore_only"} {
			for i := 0; i < n; i++ {
				c := &migChkCase{ver: ver, family: "alone-" + slot}
				// with an `except` alone the `use` list is absent (defaults) on even i, a broad category on odd i
				if i < len(lu) {
					c.lint = env.section(r, ver, true, slot, []string{lu[i]})
				}
				if i < len(bu) {
					c.breaking = env.section(r, ver, false, slot, []string{bu[i]})
				}
				if slot != "use" && i%2 == 1 {
					c.lint.Use, c.breaking.Use = []string{"STANDARD"}, []string{"FILE"}
					if i%4 == 3 {
						c.lint.Use, c.breaking.Use = []string{"BASIC", "COMMENTS"}, []string{"WIRE_JSON"}
					}
				}
				out = append(out, c)
			}
		}
	}
	return out
}

func pickIDs(r *hx.Rand, pool []string, lo, hi int) []string {
	n := lo + r.Intn(hi-lo+1)
	seen := map[string]bool{}
	var out []string
	for len(out) < n && len(out) < len(pool) {
		id := hx.Pick(r, pool)
		if !seen[id] {
			seen[id] = true
			out = append(out, id)
		}
	}
	return out
}

// randomSection draws a section over the whole id space of (ver, type).
func (env *migChkEnv) randomSection(r *hx.Rand, ver string, lint bool, hostile bool, paths func() []string) gSection {
	tn := typeName(lint)
	sp := env.spaces[ver+"/"+tn]
	uni := sp.universe()
	var dep []string
	for id := range sp.deprecated {
		dep = append(dep, id)
	}
	sort.Strings(dep)
	pool := func() []string {
		switch r.Intn(10) {
		case 0, 1:
			return sp.categories
		case 2:
			if len(dep) > 0 {
				return dep
			}
		}
		return uni
	}
	var s gSection
	if r.Chance(3, 5) {
		s.Use = pickIDs(r, pool(), 1, 3)
	}
	if r.Chance(1, 2) {
		s.Except = pickIDs(r, pool(), 1, 3)
	}
	if r.Chance(2, 5) {
		s.IgnoreOnly = map[string][]string{}
		for _, k := range pickIDs(r, pool(), 1, 3) {
			s.IgnoreOnly[k] = paths()
		}
	}
	if r.Chance(1, 8) {
		s.Ignore = paths()
	}
	if hostile {
		other := env.spaces[ver+"/"+typeName(!lint)].universe()
		v2only := []string{}
		for _, id := range env.spaces["v2/"+tn].universe() {
			if !sp.isRule[id] && len(sp.members[id]) == 0 {
				v2only = append(v2only, id)
			}
		}
		bad := []string{"NOPE", "", " ", "field_lower_snake_case", hx.Pick(r, other)}
		if len(v2only) > 0 {
			bad = append(bad, hx.Pick(r, v2only))
		}
		id := hx.Pick(r, bad)
		switch r.Intn(3) {
		case 0:
			s.Use = append(s.Use, id)
		case 1:
			s.Except = append(s.Except, id)
		default:
			if s.IgnoreOnly == nil {
				s.IgnoreOnly = map[string][]string{}
			}
			s.IgnoreOnly[id] = paths()
		}
	}
	if r.Chance(1, 25) {
		s.DisableBuiltin = true
	}
	if r.Chance(1, 20) {
		s.Ignore = append([]string{"."}, s.Ignore...)
	}
	return s
}

// fixed families: the shapes the theorems name.
func (env *migChkEnv) fixedCases(r *hx.Rand) []*migChkCase {
	var out []*migChkCase
	add := func(ver, fam string, l, b gSection) { out = append(out, &migChkCase{ver: ver, family: fam, lint: l, breaking: b}) }
	for _, ver := range []string{"v1beta1", "v1"} {
		add(ver, "absent-sections", gSection{}, gSection{})
		add(ver, "disabled", gSection{Ignore: []string{"."}}, gSection{Use: []string{"FILE"}, Ignore: []string{".", "a"}})
		add(ver, "disable-builtin", gSection{DisableBuiltin: true, Use: []string{"NOPE"}}, gSection{DisableBuiltin: true})
		// a category named in `except` whose v2 membership is larger
		lcs, bcs := env.spaces[ver+"/lint"].categories, env.spaces[ver+"/breaking"].categories
		for i, lc := range lcs {
			bc := bcs[i%len(bcs)]
			add(ver, "except-category", gSection{Except: []string{lc}}, gSection{Except: []string{bc}})
			add(ver, "except-category", gSection{Use: []string{"STANDARD", "COMMENTS", "UNARY_RPC"}, Except: []string{lc}},
				gSection{Use: []string{"FILE", "WIRE_JSON"}, Except: []string{bc}})
		}
		add(ver, "except-category", gSection{Use: []string{"PACKAGE_NO_IMPORT_CYCLE", "BASIC"}, Except: []string{"MINIMAL"}},
			gSection{Use: []string{"FILE"}, Except: []string{"WIRE"}})
		if ver == "v1" {
			// v1: PACKAGE_NO_IMPORT_CYCLE is a rule without a category; in v2 it belongs to MINIMAL, BASIC,
			// DEFAULT and STANDARD
			for _, cat := range []string{"MINIMAL", "BASIC", "DEFAULT", "STANDARD"} {
				add(ver, "except-category", gSection{Use: []string{"PACKAGE_NO_IMPORT_CYCLE", "COMMENTS"}, Except: []string{cat}}, gSection{})
			}
		}
		// ignore_only keys that translate to a common v2 id, each with its own path
		col := func(keys ...string) map[string][]string {
			m := map[string][]string{}
			for i, k := range keys {
				m[k] = distinctPaths(i)
			}
			return m
		}
		add(ver, "ignore-only-collision", gSection{}, gSection{IgnoreOnly: col("FIELD_SAME_LABEL", "FIELD_SAME_CARDINALITY")})
		add(ver, "ignore-only-collision", gSection{}, gSection{Use: []string{"WIRE_JSON"}, IgnoreOnly: col("FIELD_SAME_LABEL", "FIELD_WIRE_JSON_COMPATIBLE_CARDINALITY", "FIELD_SAME_CTYPE", "FIELD_SAME_CPP_STRING_TYPE")})
		add(ver, "ignore-only-collision", gSection{}, gSection{IgnoreOnly: col("FILE_SAME_JAVA_STRING_CHECK_UTF8", "FIELD_SAME_JAVA_UTF8_VALIDATION")})
		if ver == "v1beta1" {
			add(ver, "ignore-only-collision", gSection{IgnoreOnly: col("FILE_LAYOUT", "DIRECTORY_SAME_PACKAGE")}, gSection{})
			add(ver, "ignore-only-collision", gSection{IgnoreOnly: col("STYLE_BASIC", "STYLE_DEFAULT", "ENUM_PASCAL_CASE")}, gSection{})
			add(ver, "ignore-only-collision", gSection{Use: []string{"STYLE_STANDARD", "SENSIBLE"}, IgnoreOnly: col("SENSIBLE", "PACKAGE_AFFINITY", "OTHER", "STYLE_STANDARD")}, gSection{})
		}
	}
	return out
}

// probeMode migrates the two witness configurations and says which variant the tree implements.
// The variant only selects the MODEL the lines are compared with; the oracle judges every case
// by the property itself whatever the variant.
func (env *migChkEnv) probeMode() string {
	bit := func(ok bool) string {
		if ok {
			return "1"
		}
		return "0"
	}
	sel := env.observe(env.client, (&migChkCase{ver: "v1beta1", breaking: gSection{Except: []string{"WIRE"}}}).yaml())
	selFixed := sel.status == "ok" && sel.obs[false].afterErr == "" && env.judge("v1beta1", false, sel.obs[false]).selClass == ""
	io := env.observe(env.client, (&migChkCase{ver: "v1", breaking: gSection{Use: []string{"FILE"},
		IgnoreOnly: map[string][]string{"FIELD_SAME_LABEL": {"a"}, "FIELD_SAME_CARDINALITY": {"b"}}}}).yaml())
	ioFixed := io.status == "ok" && strings.Join(io.obs[false].written.IgnoreOnly["FIELD_SAME_CARDINALITY"], ",") == "a,b"
	return bit(selFixed) + bit(ioFixed)
}

func runMigChk(run *hx.Run, r *hx.Rand, nRandom int) {
	env, err := newMigChkEnv()
	if err != nil {
		panic(err)
	}
	env.mode = env.probeMode()
	run.Set("migchk:variant", env.mode)
	only := -1
	if f := flag.Lookup("only-migchk"); f != nil {
		if v, err := strconv.Atoi(f.Value.String()); err == nil {
			only = v
		}
	}
	cases := env.fixedCases(r.Fork(1))
	alone := env.aloneCases(r.Fork(2))
	if run.Thorough() {
		cases = append(cases, alone...)
	} else {
		// quick: a seed-dependent third of the systematic family (the thorough tier runs all of it;
		// every id still occurs in the random sections below)
		off := int(run.Seed % 3)
		for i, c := range alone {
			if i%3 == off {
				cases = append(cases, c)
			}
		}
	}
	rr := r.Fork(3)
	for i := 0; i < nRandom; i++ {
		ver := "v1"
		if rr.Chance(1, 2) {
			ver = "v1beta1"
		}
		hostileL, hostileB := rr.Chance(1, 12), rr.Chance(1, 12)
		c := &migChkCase{ver: ver, family: "random"}
		c.lint = env.randomSection(rr, ver, true, hostileL, func() []string { return pickPathsG(rr) })
		c.breaking = env.randomSection(rr, ver, false, hostileB && !hostileL, func() []string { return pickPathsG(rr) })
		if hostileL || hostileB {
			c.family = "random-hostile"
		}
		cases = append(cases, c)
	}
	var todo []int
	for i := range cases {
		if only >= 0 && i != only {
			continue
		}
		todo = append(todo, i)
	}
	workers := runtime.GOMAXPROCS(0)
	if workers > 8 {
		workers = 8
	}
	recs := make([]*chkRec, len(cases))
	next := make(chan int)
	var wg sync.WaitGroup
	for w := 0; w < workers; w++ {
		// one client per worker (it caches the rule lists per file version)
		client, err := newCheckClient()
		if err != nil {
			panic(err)
		}
		wg.Add(1)
		go func() {
			defer wg.Done()
			for i := range next {
				rec := &chkRec{Seed: run.Seed, Tier: run.Tier}
				env.runCase(rec, client, i, cases[i])
				recs[i] = rec
			}
		}()
	}
	for _, i := range todo {
		next <- i
	}
	close(next)
	wg.Wait()
	var none []string
	for _, i := range todo {
		rec := recs[i]
		rec.replay(run, &none)
		for j := range rec.inputs {
			run.Case(rec.inputs[j], rec.outs[j], rec.nontr[j])
		}
	}
}
