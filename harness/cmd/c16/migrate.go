// Second half of property C16: "Migrating a v1 or v1beta1 workspace to v2 (`buf config migrate`)
// preserves, for every module, the set of files built, their descriptors, and the lint and
// breaking results."
//
// runMigrations writes random v1 / v1beta1 workspaces to disk, observes them with buf's own
// controller (the same calls `buf build`, `buf lint` and `buf breaking` make), migrates them
// in-process with bufmigrate exactly as `buf config migrate` does, observes again and reports
// every difference as an oracle failure.  Nothing here talks to a network: the controller and
// the migrator get no-op registry providers and generated `deps` only ever name modules of the
// same workspace.
//
// What is observed, before and after:
//   - the whole-workspace image (what `buf build <input>` produces): the set of file paths, the
//     import flag of each, and each FileDescriptorProto including source code info (proto.Equal);
//   - per original module: the set of non-import files of the module's image(s).  A v1beta1
//     module with several roots is one image before and one image per root after, so the
//     after-images are grouped by the original module that owns their files;
//   - the lint annotation set of the workspace (what `buf lint <input>` reports);
//   - the breaking annotation set of the workspace against an UNMIGRATED previous version of the
//     same workspace (what `buf breaking <input> --against <prev>` reports).
//
// Oracle failure classes:
//
//	migrate-error                       the migrator returns an error for a valid workspace
//	migrate-panic                       buf panics
//	migrate-after-build-failed          the migrated workspace does not build
//	migrate-files-changed               file set of the workspace image or of a module differs
//	migrate-descriptor-changed          a FileDescriptorProto differs
//	migrate-lint-failed                 `buf lint` worked before and is an error after
//	migrate-breaking-failed             `buf breaking` worked before and is an error after
//	migrate-breaking-changed-roots-split  `buf breaking` refuses to run against the unmigrated
//	                                    tree because a multi-root v1beta1 module became several
//	                                    modules (the comparison then goes on against a migrated
//	                                    copy of the previous tree)
//	migrate-lint-changed[-disabled-module|-no-buf-yaml-module|-roots-split|-field-no-descriptor]
//	migrate-breaking-changed[-disabled-module|-no-buf-yaml-module]
//	                                    the annotations of a module differ; the suffix says that
//	                                    the module had `ignore: [.]` / had no buf.yaml
//
// The suffixes -roots-split (a multi-root v1beta1 module whose lost / new lint annotations are
// all of rules that compare the files of one image with each other) and -field-no-descriptor
// (lost annotations of the v1beta1-only rule FIELD_NO_DESCRIPTOR) name what v2 cannot express.
//
// The first len(migStrata) cases of every run are a stratified family of check sections (ids
// that v2 does not know in each of use / except / ignore_only, switched-off sections).
//
// The generator stays inside what buf accepts BEFORE the migration; see the comments on
// migLintUseCommon (mixed v1/v1beta1 workspaces) and on deps in genMigCase.
package main

import (
	"bytes"
	"context"
	"crypto/sha256"
	"encoding/hex"
	"errors"
	"flag"
	"fmt"
	"io"
	"io/fs"
	"log/slog"
	"net/http"
	"os"
	"path/filepath"
	"runtime"
	"runtime/debug"
	"sort"
	"strconv"
	"strings"
	"sync"

	"github.com/bufbuild/buf/private/buf/bufctl"
	"github.com/bufbuild/buf/private/buf/bufmigrate"
	"github.com/bufbuild/buf/private/buf/bufwkt/bufwktstore"
	"github.com/bufbuild/buf/private/bufpkg/bufanalysis"
	"github.com/bufbuild/buf/private/bufpkg/bufcheck"
	"github.com/bufbuild/buf/private/bufpkg/bufconfig"
	"github.com/bufbuild/buf/private/bufpkg/bufimage"
	"github.com/bufbuild/buf/private/bufpkg/bufmodule"
	"github.com/bufbuild/buf/private/bufpkg/bufparse"
	"github.com/bufbuild/buf/private/bufpkg/bufplugin"
	"github.com/bufbuild/buf/private/pkg/app"
	"github.com/bufbuild/buf/private/pkg/git"
	"github.com/bufbuild/buf/private/pkg/httpauth"
	"github.com/bufbuild/buf/private/pkg/storage/storageos"
	"github.com/bufbuild/buf/private/pkg/wasm"
	"github.com/bufbuild/verifharness/internal/hx"
	"google.golang.org/protobuf/proto"
	"gopkg.in/yaml.v3"
	"google.golang.org/protobuf/types/descriptorpb"
)

// ---------------------------------------------------------------------------------------------
// Environment: one controller and one migrator for all cases.
// ---------------------------------------------------------------------------------------------

// migNoModuleKeys is the ModuleKeyProvider for a world without a registry.
type migNoModuleKeys struct{}

func (migNoModuleKeys) GetModuleKeysForModuleRefs(
	_ context.Context,
	refs []bufparse.Ref,
	_ bufmodule.DigestType,
) ([]bufmodule.ModuleKey, error) {
	if len(refs) == 0 {
		return nil, nil
	}
	return nil, &fs.PathError{Op: "read", Path: refs[0].String(), Err: fs.ErrNotExist}
}

type migEnv struct {
	ctx        context.Context
	stderr     *bytes.Buffer
	controller bufctl.Controller
	// client is what controller.GetCheckClientForWorkspace builds for a workspace without
	// plugins; it caches the rule lists per file version, so one per environment is kept.
	client   bufcheck.Client
	migrator bufmigrate.Migrator
	provider storageos.Provider
}

func newMigEnv(baseDir string) (*migEnv, error) {
	cacheDir := filepath.Join(baseDir, "_cache")
	if err := os.MkdirAll(filepath.Join(cacheDir, "wkt"), 0o755); err != nil {
		return nil, err
	}
	logger := slog.New(slog.NewTextHandler(io.Discard, nil))
	stderr := &bytes.Buffer{}
	container := app.NewContainer(
		map[string]string{
			"HOME":           cacheDir,
			"BUF_CACHE_DIR":  cacheDir,
			"BUF_CONFIG_DIR": cacheDir,
		},
		strings.NewReader(""),
		io.Discard,
		stderr,
	)
	wktBucket, err := storageos.NewProvider().NewReadWriteBucket(filepath.Join(cacheDir, "wkt"))
	if err != nil {
		return nil, err
	}
	// The same constructor bufcli.NewController ends in, with registry-less providers.
	controller, err := bufctl.NewController(
		logger,
		container,
		bufmodule.NopGraphProvider,
		migNoModuleKeys{},
		bufmodule.NopModuleDataProvider,
		bufmodule.NopCommitProvider,
		bufplugin.NopPluginKeyProvider,
		bufplugin.NopPluginDataProvider,
		bufwktstore.NewStore(logger, wktBucket),
		&http.Client{},
		httpauth.NewNopAuthenticator(),
		git.ClonerOptions{},
		bufctl.WithFileAnnotationErrorFormat("text"),
	)
	if err != nil {
		return nil, err
	}
	client, err := bufcheck.NewClient(
		logger,
		bufcheck.NewLocalRunnerProvider(wasm.UnimplementedRuntime, bufplugin.NopPluginKeyProvider, bufplugin.NopPluginDataProvider),
		bufcheck.ClientWithStderr(stderr),
	)
	if err != nil {
		return nil, err
	}
	return &migEnv{
		ctx:        context.Background(),
		client:     client,
		stderr:     stderr,
		controller: controller,
		migrator:   bufmigrate.NewMigrator(logger, migNoModuleKeys{}, bufmodule.NopCommitProvider),
		provider:   storageos.NewProvider(storageos.ProviderWithSymlinks()),
	}, nil
}

// ---------------------------------------------------------------------------------------------
// Generated workspace model.
// ---------------------------------------------------------------------------------------------

type migFile struct {
	unit     *migUnit
	letter   string // unique per unit, makes type names unique inside a package
	dir      string // directory of the import path
	name     string // base name
	pkg      string
	prevPkg  string // package on the "against" side
	excluded bool   // lives in a build.excludes directory
	onlyPrev bool   // exists only on the "against" side (FILE_NO_DELETE)
	// proto2 files have a required field and a default value that differs between the two
	// sides: FIELD_NOT_REQUIRED and FIELD_SAME_DEFAULT exist in v2 only, so these files show
	// whether the migrated configuration really selects the rules of the old one.
	proto2 bool

	imports []string // import paths, in order
	uses    []string // fully-qualified message types referenced by fields 6..

	commented     bool
	badField      bool
	commentIgnore bool
	hasEnum       bool
	enumZero      string // suffix of the zero value
	hasService    bool
	svcSuffix     string
	rpcSame       bool
	rpcEmpty      bool
	// descriptorField: a field named "descriptor" (v1beta1 lint rule FIELD_NO_DESCRIPTOR, which
	// has no counterpart in v1 / v2).
	descriptorField bool
	mut             int // breaking mutation, see migMut*
}

const (
	migMutNone = iota
	migMutFieldRemoved
	migMutFieldRetyped
	migMutCardinality
	migMutEnumValueRemoved
	migMutMessageRemoved
	migMutPackageChanged
	migMutCount
)

func (f *migFile) imp() string { return f.dir + "/" + f.name }

// disk is the path relative to the workspace directory.
func (f *migFile) disk() string {
	return filepath.Join(f.unit.mod.dir, f.unit.root, filepath.FromSlash(f.imp()))
}

func (f *migFile) text(prev bool) string {
	var b strings.Builder
	l := f.letter
	pkg := f.pkg
	if prev {
		pkg = f.prevPkg
	}
	if f.proto2 {
		def := "now"
		if prev && f.mut != migMutNone {
			def = "then"
		}
		b.WriteString("syntax = \"proto2\";\n\n")
		b.WriteString("package " + pkg + ";\n\n")
		b.WriteString("message Thing" + l + " {\n")
		b.WriteString("  required string id = 1;\n")
		b.WriteString("  optional string note = 2 [default = \"" + def + "\"];\n")
		b.WriteString("}\n")
		return b.String()
	}
	b.WriteString("syntax = \"proto3\";\n\n")
	b.WriteString("package " + pkg + ";\n\n")
	for _, imp := range f.imports {
		b.WriteString("import \"" + imp + "\";\n")
	}
	if len(f.imports) > 0 {
		b.WriteString("\n")
	}
	if f.commented {
		b.WriteString("// Thing" + l + " is a thing.\n")
	}
	b.WriteString("message Thing" + l + " {\n")
	b.WriteString("  string id = 1;\n")
	if f.badField {
		if f.commentIgnore {
			b.WriteString("  // buf:lint:ignore FIELD_LOWER_SNAKE_CASE\n")
		}
		b.WriteString("  string displayName = 2;\n")
	} else {
		b.WriteString("  string display_name = 2;\n")
	}
	if f.mut == migMutFieldRetyped && !prev {
		b.WriteString("  string count = 3;\n")
	} else {
		b.WriteString("  int32 count = 3;\n")
	}
	if f.mut == migMutCardinality && prev {
		b.WriteString("  repeated string tags = 4;\n")
	} else {
		b.WriteString("  string tags = 4;\n")
	}
	if f.hasEnum {
		b.WriteString("  Kind" + l + " kind = 5;\n")
	}
	for i, u := range f.uses {
		b.WriteString("  " + u + " ref_" + strconv.Itoa(i) + " = " + strconv.Itoa(6+i) + ";\n")
	}
	if f.mut == migMutFieldRemoved && prev {
		b.WriteString("  string legacy = 12;\n")
	}
	if f.descriptorField {
		b.WriteString("  string descriptor = 13;\n")
	}
	b.WriteString("}\n")
	if f.mut == migMutMessageRemoved && prev {
		b.WriteString("\nmessage Legacy" + l + " {\n  string id = 1;\n}\n")
	}
	if f.hasEnum {
		b.WriteString("\nenum Kind" + l + " {\n")
		b.WriteString("  KIND_" + l + f.enumZero + " = 0;\n")
		b.WriteString("  KIND_" + l + "_ONE = 1;\n")
		if f.mut == migMutEnumValueRemoved && prev {
			b.WriteString("  KIND_" + l + "_TWO = 2;\n")
		}
		b.WriteString("}\n")
	}
	if f.hasService {
		b.WriteString("\nmessage GetThing" + l + "Request {\n  string id = 1;\n}\n")
		b.WriteString("\nmessage GetThing" + l + "Response {\n  Thing" + l + " thing = 1;\n}\n")
		b.WriteString("\nservice Thing" + l + f.svcSuffix + " {\n")
		b.WriteString("  rpc GetThing" + l + "(GetThing" + l + "Request) returns (GetThing" + l + "Response);\n")
		if f.rpcSame {
			b.WriteString("  rpc Echo(Thing" + l + ") returns (Thing" + l + ");\n")
		}
		if f.rpcEmpty {
			b.WriteString("  rpc Ping(google.protobuf.Empty) returns (google.protobuf.Empty);\n")
		}
		b.WriteString("}\n")
	}
	return b.String()
}

// migUnit is one (module, root) pair: a v1 module has one unit with root ".".
type migUnit struct {
	mod   *migModule
	key   string // lower-case, unique in the workspace; part of directories and packages
	root  string // relative to the module directory
	ver   string // package version of the unit's main package
	files []*migFile
}

func (u *migUnit) base() *migFile { return u.files[0] }

type migModule struct {
	idx     int
	dir     string // relative to the workspace directory, "." for a module at the top
	version string // "v1", "v1beta1" or "" for a directory without a buf.yaml
	mixed   bool   // the workspace has both v1 (or default) and v1beta1 modules
	name    string
	deps    []string
	units   []*migUnit
	// excludes as written in build.excludes (relative to the module directory).
	excludes         []string
	lock             bool
	lintDisabled     bool
	breakingDisabled bool
	yaml             string
	// generator choices, for the distribution counters
	usesDeprecatedIDs         bool
	usesV1Beta1OnlyCategories bool
	// stratum >= 0: the lint / breaking sections are one of migStrata instead of random ones.
	stratum int
	// fullSpace: the sections were drawn from the whole id / category space of the version.
	fullSpace bool
}

func (m *migModule) multiRoot() bool { return len(m.units) > 1 }

type migCase struct {
	idx       int
	workspace bool // has a buf.work.yaml
	workYAML  string
	modules   []*migModule

	dir, prevDir, prevMigDir string
	// imp -> module index, over all files of both sides.
	owner map[string]int
	// explain (set by runMigrationCase): which of the lost / new annotations of module j are those
	// of a recorded root cause in the module's own check section, judged on the rule SELECTION by
	// the section G machinery (migchk.go); returns the class and the annotations it explains.
	explain func(j int, lint bool, lost, gained []string) (class string, explainedLost, explainedGained []string)
}

var (
	migModuleNames = []string{"alpha", "beta", "gamma"}
	migWorkDirs    = []string{"proto", "vendor/x", "api", "third_party/protos", "idl"}
	migRootPool    = []string{"src", "protos/a", "idl/main"}
	migVersions    = []string{"v1", "v1", "v2", "v1beta1", "v1alpha1"}

	migLintUseV1 = [][]string{
		{"DEFAULT"}, {"DEFAULT"}, {"BASIC"}, {"MINIMAL"}, {"STANDARD"},
		{"DEFAULT", "COMMENTS"}, {"BASIC", "UNARY_RPC"},
		{"FIELD_LOWER_SNAKE_CASE", "ENUM_ZERO_VALUE_SUFFIX", "PACKAGE_DIRECTORY_MATCH", "SERVICE_SUFFIX"},
		{"MINIMAL", "FIELD_LOWER_SNAKE_CASE", "RPC_REQUEST_RESPONSE_UNIQUE", "IMPORT_USED"},
	}
	// In a workspace that mixes v1 and v1beta1 modules every `use` list must be valid in both
	// versions: bufcheck expands the `use` lists of all related check configs (the other modules
	// of the workspace) with the rule set of the module being checked, so `buf lint` and
	// `buf breaking` fail on such a workspace BEFORE any migration ("FILE_LAYOUT" is not a
	// known rule or category ID).  That is not what C16 is about, so it is not generated.
	migLintUseCommon = [][]string{
		{"DEFAULT"}, {"DEFAULT"}, {"BASIC"}, {"MINIMAL"}, {"STANDARD"}, {"DEFAULT", "COMMENTS"},
		{"FIELD_LOWER_SNAKE_CASE", "ENUM_ZERO_VALUE_SUFFIX", "PACKAGE_DIRECTORY_MATCH", "SERVICE_SUFFIX"},
	}
	// v1beta1 lists naming categories that exist in v1beta1 only.
	migLintUseV1Beta1Only = [][]string{
		{"FILE_LAYOUT", "SENSIBLE"}, {"STYLE_DEFAULT"}, {"STYLE_BASIC", "PACKAGE_AFFINITY"},
		{"OTHER", "MINIMAL"}, {"DEFAULT", "OTHER"}, {"STYLE_STANDARD", "FILE_LAYOUT"},
		{"FIELD_NO_DESCRIPTOR", "ENUM_PASCAL_CASE", "SERVICE_SUFFIX"}, {"FIELD_NO_DESCRIPTOR"},
	}
	// Lists of rule IDs only.  Every v1beta1 category but the STYLE_* ones and OTHER holds
	// FIELD_NO_DESCRIPTOR; these lists do not.
	migLintUseIDs = [][]string{
		{"FIELD_LOWER_SNAKE_CASE", "ENUM_ZERO_VALUE_SUFFIX", "PACKAGE_DIRECTORY_MATCH", "SERVICE_SUFFIX"},
		{"ENUM_PASCAL_CASE", "ENUM_VALUE_PREFIX", "FILE_LOWER_SNAKE_CASE", "PACKAGE_VERSION_SUFFIX", "RPC_REQUEST_RESPONSE_UNIQUE"},
		{"PACKAGE_SAME_DIRECTORY", "DIRECTORY_SAME_PACKAGE", "ENUM_ZERO_VALUE_SUFFIX", "RPC_REQUEST_STANDARD_NAME", "COMMENT_MESSAGE"},
		{"FIELD_LOWER_SNAKE_CASE", "SERVICE_SUFFIX", "ENUM_FIRST_VALUE_ZERO"},
	}
	// Rule IDs that are deprecated in v1beta1 and v1.
	migDeprecatedIDs = []string{
		"IMPORT_NO_WEAK", "FIELD_SAME_LABEL", "FILE_SAME_PHP_GENERIC_SERVICES",
		"FILE_SAME_JAVA_STRING_CHECK_UTF8", "MESSAGE_SAME_MESSAGE_SET_WIRE_FORMAT", "FIELD_SAME_CTYPE",
	}
	// IMPORT_NO_WEAK is deprecated in v1beta1 and v1.
	migLintExcept = []string{
		"ENUM_ZERO_VALUE_SUFFIX", "PACKAGE_VERSION_SUFFIX", "FIELD_LOWER_SNAKE_CASE",
		"RPC_REQUEST_STANDARD_NAME", "RPC_RESPONSE_STANDARD_NAME", "SERVICE_SUFFIX",
		"PACKAGE_DIRECTORY_MATCH", "IMPORT_NO_WEAK", "ENUM_VALUE_PREFIX", "PACKAGE_SAME_DIRECTORY",
		"DIRECTORY_SAME_PACKAGE", "ENUM_FIRST_VALUE_ZERO", "RPC_REQUEST_RESPONSE_UNIQUE",
	}
	migLintExceptV1Only      = []string{"IMPORT_USED", "SYNTAX_SPECIFIED"}
	migLintExceptV1Beta1Only = []string{"FILE_LAYOUT", "STYLE_DEFAULT", "PACKAGE_AFFINITY", "SENSIBLE", "OTHER", "FIELD_NO_DESCRIPTOR"}
	// DEFAULT is a deprecated category.
	migLintIgnoreOnly = []string{
		"FIELD_LOWER_SNAKE_CASE", "ENUM_ZERO_VALUE_SUFFIX", "PACKAGE_DIRECTORY_MATCH", "SERVICE_SUFFIX",
		"PACKAGE_VERSION_SUFFIX", "BASIC", "DEFAULT", "MINIMAL", "IMPORT_NO_WEAK", "RPC_REQUEST_RESPONSE_UNIQUE",
	}
	migLintIgnoreOnlyV1Beta1Only = []string{"FILE_LAYOUT", "STYLE_DEFAULT", "SENSIBLE", "FIELD_NO_DESCRIPTOR"}

	migBreakingUse = [][]string{
		{"FILE"}, {"FILE"}, {"PACKAGE"}, {"WIRE_JSON"}, {"WIRE"},
		{"WIRE", "FILE_NO_DELETE"},
		{"FIELD_NO_DELETE", "FIELD_SAME_TYPE", "ENUM_VALUE_NO_DELETE", "MESSAGE_NO_DELETE", "FILE_NO_DELETE"},
		{"FIELD_SAME_LABEL", "FIELD_NO_DELETE", "FILE_SAME_PACKAGE"},
		{"FIELD_SAME_CTYPE", "FILE_SAME_PHP_GENERIC_SERVICES"},
	}
	// FIELD_SAME_LABEL, FIELD_SAME_CTYPE, FILE_SAME_PHP_GENERIC_SERVICES,
	// FILE_SAME_JAVA_STRING_CHECK_UTF8 and MESSAGE_SAME_MESSAGE_SET_WIRE_FORMAT are deprecated in
	// v1beta1 and v1.
	migBreakingExcept = []string{
		"FIELD_SAME_LABEL", "FILE_SAME_PHP_GENERIC_SERVICES", "FILE_SAME_JAVA_STRING_CHECK_UTF8",
		"MESSAGE_SAME_MESSAGE_SET_WIRE_FORMAT", "FIELD_SAME_CTYPE", "FIELD_NO_DELETE", "ENUM_VALUE_NO_DELETE",
		"FILE_SAME_PACKAGE", "FIELD_SAME_TYPE", "MESSAGE_NO_DELETE", "FILE_NO_DELETE", "FIELD_SAME_CARDINALITY",
		"RPC_NO_DELETE", "ENUM_NO_DELETE", "FIELD_SAME_NAME", "FIELD_SAME_JSON_NAME", "ONEOF_NO_DELETE",
		"SERVICE_NO_DELETE", "FILE_SAME_GO_PACKAGE", "FIELD_SAME_ONEOF", "FILE_SAME_SYNTAX",
	}
	migBreakingIgnoreOnly = []string{
		"FIELD_NO_DELETE", "FILE", "WIRE", "FIELD_SAME_LABEL", "ENUM_VALUE_NO_DELETE", "FIELD_SAME_TYPE",
		"FILE_NO_DELETE", "PACKAGE", "FILE_SAME_PACKAGE", "MESSAGE_NO_DELETE", "WIRE_JSON", "FIELD_SAME_CARDINALITY",
	}
)

func migPickSome(r *hx.Rand, pool []string, lo, hi int) []string {
	p := append([]string(nil), pool...)
	hx.Shuffle(r, p)
	n := lo + r.Intn(hi-lo+1)
	if n > len(p) {
		n = len(p)
	}
	out := p[:n]
	sort.Strings(out)
	return out
}

// migPickPaths picks lo..hi paths none of which contains another (bufconfig rejects nested
// ignore paths inside one list).
func migPickPaths(r *hx.Rand, pool []string, lo, hi int) []string {
	p := append([]string(nil), pool...)
	hx.Shuffle(r, p)
	n := lo + r.Intn(hi-lo+1)
	var out []string
	for _, x := range p {
		if len(out) == n {
			break
		}
		ok := true
		for _, y := range out {
			if x == y || strings.HasPrefix(x, y+"/") || strings.HasPrefix(y, x+"/") {
				ok = false
			}
		}
		if ok {
			out = append(out, x)
		}
	}
	sort.Strings(out)
	return out
}

func migContainsAny(s string, subs []string) bool {
	for _, sub := range subs {
		if strings.Contains(s, sub) {
			return true
		}
	}
	return false
}

func migWithout(xs []string, drop []string) []string {
	d := map[string]bool{}
	for _, x := range drop {
		d[x] = true
	}
	var out []string
	for _, x := range xs {
		if !d[x] {
			out = append(out, x)
		}
	}
	return out
}

func migYAMLList(b *strings.Builder, indent, key string, xs []string) {
	if len(xs) == 0 {
		return
	}
	b.WriteString(indent + key + ":\n")
	for _, x := range xs {
		b.WriteString(indent + "  - " + x + "\n")
	}
}

func migYAMLMap(b *strings.Builder, indent, key string, m map[string][]string) {
	if len(m) == 0 {
		return
	}
	keys := make([]string, 0, len(m))
	for k := range m {
		keys = append(keys, k)
	}
	sort.Strings(keys)
	b.WriteString(indent + key + ":\n")
	for _, k := range keys {
		migYAMLList(b, indent+"  ", k, m[k])
	}
}

// migIgnoreCandidates are paths a lint/breaking ignore may name.  For v1 they are relative to
// the module directory, for v1beta1 relative to the roots; v1 has the single root ".", so in
// both versions they are import paths.
func migIgnoreCandidates(m *migModule) []string {
	set := map[string]bool{}
	for _, u := range m.units {
		set["acme/"+u.key] = true
		for _, f := range u.files {
			if f.excluded {
				continue
			}
			set[f.dir] = true
			set[f.imp()] = true
		}
	}
	out := make([]string, 0, len(set))
	for k := range set {
		out = append(out, k)
	}
	sort.Strings(out)
	return out
}

// genMigModuleYAML writes the buf.yaml of a module (everything but protos is decided here).
// migStrata is the stratified family of check sections, one per case at the start of every run,
// so that each way an id can fail to exist in v2 (a category or a rule that only v1beta1 has, a
// deprecated rule with and without replacements) meets each of use / except / ignore_only, and
// both sections are switched off once, whatever the seed.
type migStratumSection struct {
	use, except, ignoreOnly []string
	disabled                bool
}

var migStrata = []struct {
	beta, deprecated bool
	lint, breaking   migStratumSection
}{
	{beta: true, lint: migStratumSection{use: []string{"FILE_LAYOUT", "SENSIBLE"}}},
	{beta: true, lint: migStratumSection{use: []string{"FIELD_NO_DESCRIPTOR", "ENUM_PASCAL_CASE", "SERVICE_SUFFIX"}}},
	{beta: true, lint: migStratumSection{use: []string{"DEFAULT"}, except: []string{"SENSIBLE", "STYLE_DEFAULT"}}},
	{beta: true, lint: migStratumSection{use: []string{"DEFAULT"}, except: []string{"FIELD_NO_DESCRIPTOR"}}},
	{beta: true, lint: migStratumSection{use: []string{"DEFAULT"}, ignoreOnly: []string{"STYLE_DEFAULT", "FILE_LAYOUT"}}},
	{beta: true, lint: migStratumSection{use: []string{"DEFAULT"}, ignoreOnly: []string{"FIELD_NO_DESCRIPTOR"}}},
	{deprecated: true, breaking: migStratumSection{use: []string{"FIELD_SAME_CTYPE", "FIELD_SAME_LABEL", "FIELD_NO_DELETE"}}},
	{deprecated: true, breaking: migStratumSection{use: []string{"FILE"}, except: []string{"FILE_SAME_PHP_GENERIC_SERVICES", "FILE_SAME_JAVA_STRING_CHECK_UTF8"},
		ignoreOnly: []string{"FIELD_SAME_LABEL"}},
		lint: migStratumSection{use: []string{"DEFAULT"}, except: []string{"IMPORT_NO_WEAK"}}},
	{lint: migStratumSection{use: []string{"DEFAULT"}, disabled: true}},
	{breaking: migStratumSection{use: []string{"FILE"}, disabled: true}},
	// a category of both versions in `except` whose v2 membership is larger (FILE_SAME_PACKAGE is in
	// FILE only in v1beta1, in all four categories in v2): without and with a `use` list
	{beta: true, breaking: migStratumSection{except: []string{"WIRE"}}},
	{beta: true, breaking: migStratumSection{use: []string{"FILE"}, except: []string{"WIRE_JSON"}}},
	// ignore_only keys that translate to the same v2 id (a deprecated rule and its replacements)
	{deprecated: true, breaking: migStratumSection{use: []string{"FILE"},
		ignoreOnly: []string{"FIELD_SAME_LABEL", "FIELD_SAME_CARDINALITY", "FIELD_WIRE_JSON_COMPATIBLE_CARDINALITY"}}},
}

func genMigModuleYAML(r *hx.Rand, m *migModule) {
	if m.version == "" {
		return
	}
	var b strings.Builder
	b.WriteString("version: " + m.version + "\n")
	if m.name != "" {
		b.WriteString("name: " + m.name + "\n")
	}
	migYAMLList(&b, "", "deps", m.deps)
	var roots []string
	if m.version == "v1beta1" && !(len(m.units) == 1 && m.units[0].root == ".") {
		for _, u := range m.units {
			roots = append(roots, u.root)
		}
	}
	if len(roots) > 0 || len(m.excludes) > 0 {
		b.WriteString("build:\n")
		migYAMLList(&b, "  ", "roots", roots)
		migYAMLList(&b, "  ", "excludes", m.excludes)
	}
	paths := migIgnoreCandidates(m)
	beta := m.version == "v1beta1"
	if m.stratum >= 0 {
		st := migStrata[m.stratum]
		section := func(name string, sec migStratumSection) bool {
			var body strings.Builder
			migYAMLList(&body, "  ", "use", sec.use)
			migYAMLList(&body, "  ", "except", sec.except)
			if sec.disabled {
				migYAMLList(&body, "  ", "ignore", []string{"."})
			}
			if len(sec.ignoreOnly) > 0 && len(paths) > 0 {
				io := map[string][]string{}
				for _, k := range sec.ignoreOnly {
					io[k] = migPickPaths(r, paths, 1, 2)
				}
				migYAMLMap(&body, "  ", "ignore_only", io)
			}
			if body.Len() > 0 {
				b.WriteString(name + ":\n" + body.String())
			}
			return sec.disabled
		}
		m.lintDisabled = section("lint", st.lint)
		m.breakingDisabled = section("breaking", st.breaking)
		m.usesDeprecatedIDs = st.deprecated
		m.usesV1Beta1OnlyCategories = st.beta
		m.yaml = b.String()
		return
	}
	// A third of the modules that may (no v1 / v1beta1 mix in the workspace, see migLintUseCommon):
	// sections over the WHOLE id and category space of the version as the real client lists it -
	// every rule id, every category, deprecated ids, ids v2 does not have - in use, except and
	// ignore_only (the generator of section G, migchk.go).
	if migFull != nil && !m.mixed && r.Chance(1, 3) {
		m.fullSpace = true
		pathsFn := func() []string { return migPickPaths(r, paths, 1, 2) }
		write := func(name string, sec gSection, extra func(*strings.Builder)) bool {
			var body strings.Builder
			migYAMLList(&body, "  ", "use", sec.Use)
			migYAMLList(&body, "  ", "except", sec.Except)
			migYAMLList(&body, "  ", "ignore", sec.Ignore)
			migYAMLMap(&body, "  ", "ignore_only", sec.IgnoreOnly)
			extra(&body)
			if body.Len() > 0 {
				b.WriteString(name + ":\n" + body.String())
			}
			return len(sec.Ignore) > 0 && sec.Ignore[0] == "."
		}
		var lintSec, breakingSec gSection
		if len(paths) > 0 {
			lintSec = migFull.randomSection(r, m.version, true, false, pathsFn)
			breakingSec = migFull.randomSection(r, m.version, false, false, pathsFn)
		}
		lintSec.DisableBuiltin, breakingSec.DisableBuiltin = false, false
		m.lintDisabled = write("lint", lintSec, func(body *strings.Builder) {
			if r.Chance(1, 3) {
				body.WriteString("  allow_comment_ignores: true\n")
			}
		})
		m.breakingDisabled = write("breaking", breakingSec, func(body *strings.Builder) {})
		m.usesDeprecatedIDs = migContainsAny(b.String(), migDeprecatedIDs)
		m.usesV1Beta1OnlyCategories = beta
		m.yaml = b.String()
		if os.Getenv("C16_DEBUG") != "" {
			fmt.Fprintf(os.Stderr, "full-space module %s:\n%s\n", m.dir, m.yaml)
		}
		return
	}
	// Categories and rules of v1beta1 that v2 does not have, and deprecated rule IDs, on a
	// fraction of the modules.  (Before the fixes handoff/C16-fix-migrate-deprecated-rule-ids.diff
	// and C16-fix-migrate-ids-not-in-v2.diff the migrator rejected both outright - "... is not a
	// known rule or category ID" -, which hid everything else about the case.)
	betaOnly := beta && !m.mixed && r.Chance(1, 3)
	deprecated := r.Chance(1, 4)
	m.usesDeprecatedIDs = deprecated
	m.usesV1Beta1OnlyCategories = betaOnly

	// lint
	if !r.Chance(1, 4) {
		var body strings.Builder
		var use []string
		if !r.Chance(1, 5) {
			switch {
			case m.mixed:
				use = hx.Pick(r, migLintUseCommon)
			case beta && betaOnly:
				use = hx.Pick(r, migLintUseV1Beta1Only)
			case beta && r.Chance(1, 2):
				use = hx.Pick(r, migLintUseIDs)
			case beta:
				use = hx.Pick(r, migLintUseCommon)
			default:
				use = hx.Pick(r, migLintUseV1)
			}
		}
		exceptPool := append([]string(nil), migLintExcept...)
		ignoreOnlyPool := append([]string(nil), migLintIgnoreOnly...)
		if beta && betaOnly {
			// Half of the time nothing but ids that v2 does not know, so that each of use,
			// except and ignore_only meets them often enough.
			if r.Chance(1, 2) {
				exceptPool = append([]string(nil), migLintExceptV1Beta1Only...)
			} else {
				exceptPool = append(exceptPool, migLintExceptV1Beta1Only...)
			}
			if r.Chance(1, 2) {
				ignoreOnlyPool = append([]string(nil), migLintIgnoreOnlyV1Beta1Only...)
			} else {
				ignoreOnlyPool = append(ignoreOnlyPool, migLintIgnoreOnlyV1Beta1Only...)
			}
		} else if !beta {
			exceptPool = append(exceptPool, migLintExceptV1Only...)
		}
		if !deprecated {
			exceptPool = migWithout(exceptPool, migDeprecatedIDs)
			ignoreOnlyPool = migWithout(ignoreOnlyPool, migDeprecatedIDs)
		}
		m.lintDisabled = genMigCheckBody(r, &body, use, exceptPool, ignoreOnlyPool, paths)
		if r.Chance(1, 5) {
			body.WriteString("  enum_zero_value_suffix: _NONE\n")
		}
		if r.Chance(1, 5) {
			body.WriteString("  rpc_allow_same_request_response: true\n")
		}
		if r.Chance(1, 6) {
			body.WriteString("  rpc_allow_google_protobuf_empty_requests: true\n")
		}
		if r.Chance(1, 6) {
			body.WriteString("  rpc_allow_google_protobuf_empty_responses: true\n")
		}
		if r.Chance(1, 5) {
			body.WriteString("  service_suffix: API\n")
		}
		if r.Chance(1, 3) {
			body.WriteString("  allow_comment_ignores: true\n")
		}
		if body.Len() > 0 {
			b.WriteString("lint:\n" + body.String())
		}
	}
	// breaking
	if !r.Chance(1, 4) {
		var body strings.Builder
		var use []string
		if !r.Chance(1, 5) {
			use = hx.Pick(r, migBreakingUse)
		}
		exceptPool, ignoreOnlyPool := migBreakingExcept, migBreakingIgnoreOnly
		if !deprecated {
			use = migWithout(use, migDeprecatedIDs)
			exceptPool = migWithout(exceptPool, migDeprecatedIDs)
			ignoreOnlyPool = migWithout(ignoreOnlyPool, migDeprecatedIDs)
		}
		m.breakingDisabled = genMigCheckBody(r, &body, use, exceptPool, ignoreOnlyPool, paths)
		if r.Chance(1, 4) {
			body.WriteString("  ignore_unstable_packages: true\n")
		}
		if body.Len() > 0 {
			b.WriteString("breaking:\n" + body.String())
		}
	}
	m.yaml = b.String()
}

// genMigCheckBody writes use / except / ignore / ignore_only and says whether the section
// disables the checks of the module through an ignore path equal to the module directory.
func genMigCheckBody(
	r *hx.Rand,
	body *strings.Builder,
	use []string,
	exceptPool []string,
	ignoreOnlyPool []string,
	paths []string,
) (disabled bool) {
	migYAMLList(body, "  ", "use", use)
	if r.Chance(2, 5) {
		migYAMLList(body, "  ", "except", migPickSome(r, migWithout(exceptPool, use), 1, 3))
	}
	switch {
	case r.Chance(1, 10):
		disabled = true
		ign := []string{"."}
		if r.Chance(1, 3) && len(paths) > 0 {
			ign = append(ign, hx.Pick(r, paths))
		}
		migYAMLList(body, "  ", "ignore", ign)
	case r.Chance(1, 3) && len(paths) > 0:
		migYAMLList(body, "  ", "ignore", migPickPaths(r, paths, 1, 2))
	}
	if r.Chance(3, 10) && len(paths) > 0 {
		m := map[string][]string{}
		for _, k := range migPickSome(r, ignoreOnlyPool, 1, 2) {
			m[k] = migPickPaths(r, paths, 1, 2)
		}
		migYAMLMap(body, "  ", "ignore_only", m)
	}
	return disabled
}

func genMigFileFlags(r *hx.Rand, f *migFile) {
	f.commented = r.Chance(1, 2)
	f.badField = r.Chance(2, 5)
	f.commentIgnore = f.badField && r.Chance(1, 2)
	f.hasEnum = r.Chance(3, 5)
	f.enumZero = hx.Pick(r, []string{"_UNSPECIFIED", "_UNSPECIFIED", "_NONE", "_UNKNOWN"})
	f.hasService = r.Chance(1, 2)
	f.svcSuffix = hx.Pick(r, []string{"Service", "Service", "API", "s"})
	f.rpcSame = r.Chance(1, 3)
	f.rpcEmpty = r.Chance(1, 5)
	if f.hasService && f.rpcEmpty {
		f.imports = append(f.imports, "google/protobuf/empty.proto")
	}
	if r.Chance(3, 5) {
		f.mut = 1 + r.Intn(migMutCount-1)
	}
	if f.mut == migMutEnumValueRemoved && !f.hasEnum {
		f.mut = migMutFieldRemoved
	}
	f.descriptorField = r.Chance(1, 12)
}

func genMigCase(r *hx.Rand, idx int) *migCase {
	c := &migCase{idx: idx, owner: map[string]int{}}
	c.workspace = r.Chance(7, 10)
	var dirs []string
	if c.workspace {
		pool := append([]string(nil), migWorkDirs...)
		hx.Shuffle(r, pool)
		dirs = pool[:1+r.Intn(3)]
		var b strings.Builder
		b.WriteString("version: v1\n")
		migYAMLList(&b, "", "directories", dirs)
		c.workYAML = b.String()
	} else if r.Chance(3, 5) {
		dirs = []string{"."}
	} else {
		dirs = []string{hx.Pick(r, []string{"proto", "api/src"})}
	}
	names := append([]string(nil), migModuleNames...)
	hx.Shuffle(r, names)
	versions := make([]string, len(dirs))
	nBeta := 0
	for j := range dirs {
		switch x := r.Intn(20); {
		case x < 10:
			versions[j] = "v1"
		case x < 18:
			versions[j] = "v1beta1"
			nBeta++
		default:
			versions[j] = "" // no buf.yaml at all: the v1 defaults apply
		}
	}
	// The first len(migStrata) cases of a run are the stratified family: module 0 gets the
	// sections of one stratum (see migStrata).  A v1beta1 stratum makes the whole workspace
	// v1beta1, because ids that only v1beta1 knows must not meet a v1 module (migLintUseCommon).
	stratum := -1
	if idx < len(migStrata) {
		stratum = idx
		if migStrata[stratum].beta {
			for j := range versions {
				versions[j] = "v1beta1"
			}
			nBeta = len(dirs)
		} else if versions[0] == "" {
			versions[0] = "v1"
			nBeta = 0
			for _, v := range versions {
				if v == "v1beta1" {
					nBeta++
				}
			}
		}
	}
	for j, d := range dirs {
		m := &migModule{idx: j, dir: d, version: versions[j], mixed: nBeta > 0 && nBeta < len(dirs), stratum: -1}
		if j == 0 {
			m.stratum = stratum
		}
		var roots []string
		if m.version == "v1beta1" && r.Chance(9, 20) {
			pool := append([]string(nil), migRootPool...)
			hx.Shuffle(r, pool)
			roots = pool[:1+r.Intn(2)]
			sort.Strings(roots)
		} else {
			roots = []string{"."}
		}
		if m.version != "" && r.Chance(1, 2) {
			m.name = "buf.build/acme/" + names[j]
		}
		for k, root := range roots {
			key := names[j]
			if k > 0 {
				key += "r" + strconv.Itoa(k)
			}
			m.units = append(m.units, &migUnit{mod: m, key: key, root: root, ver: hx.Pick(r, migVersions)})
		}
		// files: 2..6 per module, every unit gets its base file first.
		nFiles := 2 + r.Intn(5)
		if nFiles < len(m.units) {
			nFiles = len(m.units)
		}
		for k := 0; k < nFiles; k++ {
			u := m.units[k%len(m.units)]
			if k >= len(m.units) {
				u = hx.Pick(r, m.units)
			}
			f := &migFile{unit: u, letter: string(rune('A' + len(u.files)))}
			basePkg := "acme." + u.key + "." + u.ver
			baseDir := "acme/" + u.key + "/" + u.ver
			kind := 0
			if len(u.files) > 0 {
				kind = r.Intn(5)
			}
			switch kind {
			case 0, 1:
				f.dir, f.pkg = baseDir, basePkg
			case 2:
				f.dir, f.pkg = "acme/"+u.key+"/util", "acme."+u.key+".util"
			case 3:
				f.dir, f.pkg = "misc_"+u.key, basePkg
			case 4:
				f.dir, f.pkg = baseDir+"/sub", basePkg
			}
			f.name = "thing_" + strings.ToLower(f.letter) + ".proto"
			if len(u.files) > 0 && r.Chance(1, 8) {
				f.name = "thing" + f.letter + ".proto"
			}
			genMigFileFlags(r, f)
			if len(u.files) == 0 && f.mut == migMutPackageChanged {
				// The base file is imported by others through its package; keep the package.
				f.mut = migMutMessageRemoved
			}
			f.prevPkg = f.pkg
			if f.mut == migMutPackageChanged {
				f.prevPkg = "acme." + u.key + ".v0"
			}
			// imports: own base, an earlier root's base of the same module, an earlier module's base.
			var candidates []*migFile
			if len(u.files) > 0 {
				candidates = append(candidates, u.base())
			}
			for _, ou := range m.units {
				if ou != u && len(ou.files) > 0 && ou.key < u.key {
					candidates = append(candidates, ou.base())
				}
			}
			if c.workspace {
				for _, om := range c.modules {
					candidates = append(candidates, om.units[0].base())
				}
			}
			for _, cand := range candidates {
				if !r.Chance(2, 5) {
					continue
				}
				f.imports = append(f.imports, cand.imp())
				if r.Chance(3, 4) {
					f.uses = append(f.uses, cand.pkg+".Thing"+cand.letter)
				}
			}
			u.files = append(u.files, f)
		}
		// a proto2 file
		if r.Chance(1, 4) {
			u := hx.Pick(r, m.units)
			f := &migFile{unit: u, letter: "Two", proto2: true, mut: r.Intn(2)}
			f.dir, f.pkg = "acme/"+u.key+"/"+u.ver, "acme."+u.key+"."+u.ver
			f.prevPkg = f.pkg
			f.name = "thing_two.proto"
			u.files = append(u.files, f)
		}
		// a file that exists only on the against side
		if r.Chance(1, 4) {
			u := hx.Pick(r, m.units)
			f := &migFile{unit: u, letter: "Old", onlyPrev: true}
			f.dir, f.pkg = "acme/"+u.key+"/"+u.ver, "acme."+u.key+"."+u.ver
			f.prevPkg = f.pkg
			f.name = "old_thing.proto"
			u.files = append(u.files, f)
		}
		// excluded directories with protos inside
		if m.version != "" && r.Chance(7, 20) {
			u := hx.Pick(r, m.units)
			dir := "legacy_" + u.key
			pkg := "acme." + u.key + ".legacy"
			if r.Chance(1, 3) {
				dir = "acme/" + u.key + "/" + u.ver + "/internal"
				pkg = "acme." + u.key + "." + u.ver + ".internal"
			}
			for k := 0; k < 1+r.Intn(2); k++ {
				f := &migFile{unit: u, letter: string(rune('X' + k)), excluded: true, dir: dir, pkg: pkg, prevPkg: pkg}
				f.name = "legacy_" + strings.ToLower(f.letter) + ".proto"
				genMigFileFlags(r, f)
				if f.mut == migMutPackageChanged {
					f.mut = migMutFieldRemoved
				}
				f.badField = true
				if r.Chance(1, 2) {
					f.imports = append(f.imports, u.base().imp())
				}
				u.files = append(u.files, f)
			}
			if u.root == "." {
				m.excludes = []string{dir}
			} else {
				m.excludes = []string{u.root + "/" + dir}
			}
		}
		if m.version != "" && r.Chance(3, 20) {
			m.lock = true
		}
		// deps only ever name another module of this workspace whose name survives migration
		// (a named v1beta1 module with several roots loses its name, and a dep on it would then
		// have to be resolved on the registry).
		if c.workspace && m.version != "" {
			for _, om := range c.modules {
				if om.name != "" && !om.multiRoot() && r.Chance(1, 3) {
					m.deps = append(m.deps, om.name)
				}
			}
		}
		genMigModuleYAML(r, m)
		for _, u := range m.units {
			for _, f := range u.files {
				c.owner[f.imp()] = j
			}
		}
		c.modules = append(c.modules, m)
	}
	return c
}

// write materializes one side of the case.  Config files are the original v1/v1beta1 ones on
// both sides.
func (c *migCase) write(dir string, prev bool) error {
	put := func(rel, content string) error {
		p := filepath.Join(dir, rel)
		if err := os.MkdirAll(filepath.Dir(p), 0o755); err != nil {
			return err
		}
		return os.WriteFile(p, []byte(content), 0o644)
	}
	if err := os.RemoveAll(dir); err != nil {
		return err
	}
	if err := os.MkdirAll(dir, 0o755); err != nil {
		return err
	}
	if c.workspace {
		if err := put("buf.work.yaml", c.workYAML); err != nil {
			return err
		}
	}
	for _, m := range c.modules {
		if m.version != "" {
			if err := put(filepath.Join(m.dir, "buf.yaml"), m.yaml); err != nil {
				return err
			}
		}
		if m.lock {
			if err := put(filepath.Join(m.dir, "buf.lock"), "# Generated by buf. DO NOT EDIT.\nversion: v1\n"); err != nil {
				return err
			}
		}
		for _, u := range m.units {
			for _, f := range u.files {
				if f.onlyPrev && !prev {
					continue
				}
				if err := put(f.disk(), f.text(prev)); err != nil {
					return err
				}
			}
		}
	}
	return nil
}

func (c *migCase) configs() map[string]string {
	out := map[string]string{}
	if c.workspace {
		out["buf.work.yaml"] = c.workYAML
	}
	for _, m := range c.modules {
		if m.version != "" {
			out[filepath.ToSlash(filepath.Join(m.dir, "buf.yaml"))] = m.yaml
		} else {
			out[filepath.ToSlash(filepath.Join(m.dir, "buf.yaml"))] = "<absent>"
		}
		if m.lock {
			out[filepath.ToSlash(filepath.Join(m.dir, "buf.lock"))] = "version: v1\n"
		}
	}
	return out
}

func (c *migCase) protoList() []string {
	var out []string
	for _, m := range c.modules {
		for _, u := range m.units {
			for _, f := range u.files {
				s := filepath.ToSlash(f.disk())
				if f.excluded {
					s += " (excluded)"
				}
				if f.onlyPrev {
					s += " (against side only)"
				}
				out = append(out, s)
			}
		}
	}
	sort.Strings(out)
	return out
}

// input is what the user would pass to buf before / after the migration.  Without a
// buf.work.yaml the module directory itself is the input before; after, the buf.yaml v2 is
// written at the top (that is where `buf config migrate --module <dir>` puts it).
func (c *migCase) input(root string, migrated bool) string {
	if c.workspace || migrated {
		return root
	}
	return filepath.Join(root, c.modules[0].dir)
}

// ---------------------------------------------------------------------------------------------
// Observation.
// ---------------------------------------------------------------------------------------------

type migObs struct {
	buildErr string
	// whole-workspace image
	files   map[string]*descriptorpb.FileDescriptorProto
	imports map[string]bool
	// original module index -> sorted non-import files of the module image(s); -1 collects
	// images that mix files of several original modules or hold unknown files.
	perModule map[int][]string
	nImages   int

	lintErr     string
	lint        []string
	breakingErr string
	breaking    []string
	// the same annotations by original module (owner of the image they were reported for)
	lintByModule     map[int][]string
	breakingByModule map[int][]string
}

func (e *migEnv) errText(err error) string {
	s := err.Error()
	if extra := strings.TrimSpace(e.stderr.String()); extra != "" {
		s += " | " + extra
	}
	return s
}

func migCanonAnnotations(anns []bufanalysis.FileAnnotation, strip ...string) []string {
	if len(anns) == 0 {
		return nil
	}
	// Deduplicated and sorted the way the commands print them.
	set := bufanalysis.NewFileAnnotationSet(anns...)
	var out []string
	for _, a := range set.FileAnnotations() {
		path, ext := "", ""
		if fi := a.FileInfo(); fi != nil {
			path, ext = fi.Path(), fi.ExternalPath()
		}
		for i := 0; i+1 < len(strip); i += 2 {
			if strings.HasPrefix(ext, strip[i]) {
				ext = strip[i+1] + strings.TrimPrefix(ext, strip[i])
				break
			}
		}
		out = append(out, fmt.Sprintf("%s|%s|%d|%d|%d|%d|%s|%s",
			path, ext, a.StartLine(), a.StartColumn(), a.EndLine(), a.EndColumn(), a.Type(), a.Message()))
	}
	sort.Strings(out)
	return out
}

// against builds the images of the "against" input once, the way breaking.go does.
func (e *migEnv) against(input string) ([]bufimage.Image, error) {
	e.stderr.Reset()
	iwcs, _, err := e.controller.GetTargetImageWithConfigsAndCheckClient(e.ctx, input, wasm.UnimplementedRuntime)
	if err != nil {
		return nil, errors.New(e.errText(err))
	}
	images := make([]bufimage.Image, len(iwcs))
	for i, iwc := range iwcs {
		images[i] = iwc
	}
	return images, nil
}

// observe does what `buf build`, `buf lint` and `buf breaking --against` do for the input.
// stripPairs rewrites external path prefixes so that the two sides are comparable
// (workspace directory -> "$WS", against directory -> "$PREV").
func (e *migEnv) observe(c *migCase, input string, againstImages []bufimage.Image, stripPairs []string) *migObs {
	o := &migObs{
		files:     map[string]*descriptorpb.FileDescriptorProto{},
		imports:   map[string]bool{},
		perModule: map[int][]string{},

		lintByModule:     map[int][]string{},
		breakingByModule: map[int][]string{},
	}
	// buf build
	e.stderr.Reset()
	image, err := e.controller.GetImage(e.ctx, input)
	if err != nil {
		o.buildErr = e.errText(err)
		return o
	}
	for _, f := range image.Files() {
		o.files[f.Path()] = f.FileDescriptorProto()
		o.imports[f.Path()] = f.IsImport()
	}
	// buf lint / buf breaking: per-module images with their configs.
	e.stderr.Reset()
	iwcs, _, err := e.controller.GetTargetImageWithConfigsAndCheckClient(e.ctx, input, wasm.UnimplementedRuntime)
	client := e.client
	if err != nil {
		o.buildErr = "per-module images: " + e.errText(err)
		return o
	}
	o.nImages = len(iwcs)
	owners := make([]int, len(iwcs))
	for k, iwc := range iwcs {
		owner := -2
		var paths []string
		for _, f := range iwc.Files() {
			if f.IsImport() {
				continue
			}
			paths = append(paths, f.Path())
			w, ok := c.owner[f.Path()]
			switch {
			case !ok:
				owner = -1
			case owner == -2:
				owner = w
			case owner != w:
				owner = -1
			}
		}
		if owner == -2 {
			owner = -1
		}
		owners[k] = owner
		o.perModule[owner] = append(o.perModule[owner], paths...)
	}
	for k := range o.perModule {
		sort.Strings(o.perModule[k])
	}
	allCheckConfigs := make([]bufconfig.CheckConfig, 0, len(iwcs)*2)
	for _, iwc := range iwcs {
		allCheckConfigs = append(allCheckConfigs, iwc.LintConfig(), iwc.BreakingConfig())
	}
	var lintAnns []bufanalysis.FileAnnotation
	lintByOwner := map[int][]bufanalysis.FileAnnotation{}
	for k, iwc := range iwcs {
		err := client.Lint(e.ctx, iwc.LintConfig(), iwc,
			bufcheck.WithPluginConfigs(iwc.PluginConfigs()...),
			bufcheck.WithRelatedCheckConfigs(allCheckConfigs...),
		)
		if err != nil {
			var set bufanalysis.FileAnnotationSet
			if errors.As(err, &set) {
				lintAnns = append(lintAnns, set.FileAnnotations()...)
				lintByOwner[owners[k]] = append(lintByOwner[owners[k]], set.FileAnnotations()...)
			} else {
				o.lintErr = err.Error()
				break
			}
		}
	}
	o.lint = migCanonAnnotations(lintAnns, stripPairs...)
	for k, anns := range lintByOwner {
		o.lintByModule[k] = migCanonAnnotations(anns, stripPairs...)
	}
	if againstImages == nil {
		return o
	}
	if len(iwcs) != len(againstImages) {
		o.breakingErr = fmt.Sprintf("input contained %d images, whereas against contained %d images", len(iwcs), len(againstImages))
		return o
	}
	var breakingAnns []bufanalysis.FileAnnotation
	breakingByOwner := map[int][]bufanalysis.FileAnnotation{}
	for i, iwc := range iwcs {
		err := client.Breaking(e.ctx, iwc.BreakingConfig(), iwc, againstImages[i],
			bufcheck.WithPluginConfigs(iwc.PluginConfigs()...),
			bufcheck.WithRelatedCheckConfigs(allCheckConfigs...),
		)
		if err != nil {
			var set bufanalysis.FileAnnotationSet
			if errors.As(err, &set) {
				breakingAnns = append(breakingAnns, set.FileAnnotations()...)
				breakingByOwner[owners[i]] = append(breakingByOwner[owners[i]], set.FileAnnotations()...)
			} else {
				o.breakingErr = err.Error()
				break
			}
		}
	}
	o.breaking = migCanonAnnotations(breakingAnns, stripPairs...)
	for k, anns := range breakingByOwner {
		o.breakingByModule[k] = migCanonAnnotations(anns, stripPairs...)
	}
	return o
}

// migrate is configmigrate.run with the bucket rooted at the directory.
func (e *migEnv) migrate(c *migCase, dir string) error {
	bucket, err := e.provider.NewReadWriteBucket(dir, storageos.ReadWriteBucketWithSymlinksIfSupported())
	if err != nil {
		return err
	}
	if c.workspace {
		return e.migrator.Migrate(e.ctx, bucket, []string{"."}, nil, nil)
	}
	return e.migrator.Migrate(e.ctx, bucket, nil, []string{filepath.ToSlash(c.modules[0].dir)}, nil)
}

// ---------------------------------------------------------------------------------------------
// Comparison.
// ---------------------------------------------------------------------------------------------

// migSetDiff returns the items only in a and only in b.
func migSetDiff(a, b []string) (onlyA, onlyB []string) {
	ma, mb := map[string]bool{}, map[string]bool{}
	for _, x := range a {
		ma[x] = true
	}
	for _, x := range b {
		mb[x] = true
	}
	for _, x := range a {
		if !mb[x] {
			onlyA = append(onlyA, x)
		}
	}
	for _, x := range b {
		if !ma[x] {
			onlyB = append(onlyB, x)
		}
	}
	return onlyA, onlyB
}

func migFirst(xs []string) string {
	if len(xs) == 0 {
		return "-"
	}
	return xs[0]
}

// compareAnnotations reports one failure per original module whose annotations changed.  The
// class is refined for the two situations in which the migrator is known to build the v2 check
// configuration from scratch instead of from the old one:
//
//   - "<class>-disabled-module": the module had the checks switched off with `ignore: [.]`;
//   - "<class>-no-buf-yaml-module": the module directory had no buf.yaml (the v1 defaults
//     applied before, the v2 defaults apply after).
//
// A difference of the workspace-wide sets that no module accounts for is reported under the
// plain class.
func (c *migCase) compareAnnotations(
	class string,
	fail func(class, what string),
	beforeAll, afterAll []string,
	beforeBy, afterBy map[int][]string,
	disabled func(*migModule) bool,
) {
	reported := false
	for j := -1; j < len(c.modules); j++ {
		l, g := migSetDiff(beforeBy[j], afterBy[j])
		if class == "migrate-lint-changed" && j >= 0 && c.modules[j].version == "v1beta1" {
			// FIELD_NO_DESCRIPTOR exists in v1beta1 only: its annotations cannot survive.
			var rest, gone []string
			for _, a := range l {
				if migAnnotationRule(a) != "FIELD_NO_DESCRIPTOR" {
					rest = append(rest, a)
				} else {
					gone = append(gone, a)
				}
			}
			if len(gone) > 0 {
				reported = true
				fail(class+"-field-no-descriptor", fmt.Sprintf("module %s: %d FIELD_NO_DESCRIPTOR annotations lost (first %s)",
					c.modules[j].dir, len(gone), migFirst(gone)))
				l = rest
			}
		}
		if j >= 0 && c.explain != nil && (len(l) > 0 || len(g) > 0) && !disabled(c.modules[j]) && c.modules[j].version != "" {
			// annotations whose rule the module's own section stopped selecting (resp. whose ignore_only
			// paths changed) for a recorded root cause: reported under that cause's class
			if cls, el, eg := c.explain(j, class == "migrate-lint-changed", l, g); cls != "" && len(el)+len(eg) > 0 {
				reported = true
				fail(cls, fmt.Sprintf("module %s: %d annotations lost (first %s), %d new (first %s)", c.modules[j].dir, len(el), migFirst(el), len(eg), migFirst(eg)))
				l, _ = migSetDiff(l, el)
				g, _ = migSetDiff(g, eg)
			}
		}
		if len(l) == 0 && len(g) == 0 {
			continue
		}
		cls, who := class, "images that mix modules"
		if j >= 0 {
			m := c.modules[j]
			who = "module " + m.dir
			switch {
			case disabled(m):
				cls += "-disabled-module"
			case m.version == "":
				cls += "-no-buf-yaml-module"
			case class == "migrate-lint-changed" && m.multiRoot() && migOnlyCrossFileLintRules(l) && migOnlyCrossFileLintRules(g):
				// One image per root after the migration: a rule that compares the files of one
				// module with each other no longer sees the files of the other roots.
				cls += "-roots-split"
			}
		}
		reported = true
		fail(cls, fmt.Sprintf("%s: %d annotations before, %d after; %d lost (first %s), %d new (first %s)",
			who, len(beforeBy[j]), len(afterBy[j]), len(l), migFirst(l), len(g), migFirst(g)))
	}
	if l, g := migSetDiff(beforeAll, afterAll); !reported && (len(l) > 0 || len(g) > 0) {
		fail(class, fmt.Sprintf("workspace: %d annotations before, %d after; %d lost (first %s), %d new (first %s)",
			len(beforeAll), len(afterAll), len(l), migFirst(l), len(g), migFirst(g)))
	}
}

// migCrossFileLintRules are the lint rules whose verdict on one file depends on the other files
// of the same image (all other lint rules look at one file at a time).
var migCrossFileLintRules = map[string]bool{
	"DIRECTORY_SAME_PACKAGE":           true,
	"PACKAGE_SAME_DIRECTORY":           true,
	"PACKAGE_SAME_CSHARP_NAMESPACE":    true,
	"PACKAGE_SAME_GO_PACKAGE":          true,
	"PACKAGE_SAME_JAVA_MULTIPLE_FILES": true,
	"PACKAGE_SAME_JAVA_PACKAGE":        true,
	"PACKAGE_SAME_PHP_NAMESPACE":       true,
	"PACKAGE_SAME_RUBY_PACKAGE":        true,
	"PACKAGE_SAME_SWIFT_PREFIX":        true,
	"PACKAGE_NO_IMPORT_CYCLE":          true,
	"RPC_REQUEST_RESPONSE_UNIQUE":      true,
}

// migOnlyCrossFileLintRules reports whether every canonical annotation
// (path|external path|line|col|line|col|RULE|message) is of a cross-file lint rule.
func migOnlyCrossFileLintRules(anns []string) bool {
	for _, a := range anns {
		if !migCrossFileLintRules[migAnnotationRule(a)] {
			return false
		}
	}
	return true
}

// migAnnotationRule is the rule id of a canonical annotation.
func migAnnotationRule(a string) string {
	fields := strings.SplitN(a, "|", 8)
	if len(fields) < 7 {
		return ""
	}
	return fields[6]
}

// migRec records what one case wants to tell hx.Run.  Cases run on several goroutines (the
// migrator builds fresh bufcheck clients for every check config, which dominates the cost);
// the records are replayed on the caller's goroutine in case order, so the output of a run
// does not depend on scheduling.
type migRec struct {
	seed uint64
	tier string

	counts     []string
	countNs    []int
	evals      int
	distinct   []string
	samples    []any
	failures   []hx.OracleFailure
	genFailure string
}

func (m *migRec) Count(key string) { m.CountN(key, 1) }
func (m *migRec) CountN(key string, n int) {
	m.counts = append(m.counts, key)
	m.countNs = append(m.countNs, n)
}
func (m *migRec) Eval()                   { m.evals++ }
func (m *migRec) Distinct(key string)     { m.distinct = append(m.distinct, key) }
func (m *migRec) Sample(v any)            { m.samples = append(m.samples, v) }
func (m *migRec) Fail(f hx.OracleFailure) { m.failures = append(m.failures, f) }

func (m *migRec) replay(run *hx.Run, genFailures *[]string) {
	for i, k := range m.counts {
		run.CountN(k, m.countNs[i])
	}
	for i := 0; i < m.evals; i++ {
		run.Eval()
	}
	for _, d := range m.distinct {
		run.Distinct(d)
	}
	for _, v := range m.samples {
		run.Sample(v)
	}
	for _, f := range m.failures {
		failC(run, f)
	}
	// The reasons why generated inputs were unusable (they must stay rare).
	if m.genFailure != "" && len(*genFailures) < 10 {
		*genFailures = append(*genFailures, m.genFailure)
		run.Set("mig:gen-build-failures", *genFailures)
	}
}

func migOnlyFlag() int {
	if f := flag.Lookup("only-mig"); f != nil {
		if v, err := strconv.Atoi(f.Value.String()); err == nil {
			return v
		}
	}
	return -1
}

// runMigrations generates n v1/v1beta1 workspaces on disk under filepath.Join(run.OutDir,"mig"),
// observes them, migrates them in-process, observes again and reports differences through run.Fail.
func runMigrations(run *hx.Run, r *hx.Rand, n int) {
	base, err := filepath.Abs(filepath.Join(run.OutDir, "mig"))
	if err != nil {
		panic(err)
	}
	if migFull == nil {
		if migFull, err = newMigChkEnv(); err != nil {
			panic(err)
		}
	}
	if err := os.MkdirAll(base, 0o755); err != nil {
		panic(err)
	}
	// run.Only selects one case; a main that defines --only-mig may use that instead.
	only := run.Only
	if v := migOnlyFlag(); v >= 0 {
		only = v
	}
	var todo []int
	for i := 0; i < n; i++ {
		if only >= 0 && i != only {
			continue
		}
		todo = append(todo, i)
	}
	workers := runtime.GOMAXPROCS(0)
	if workers > 8 {
		workers = 8
	}
	if workers > len(todo) {
		workers = len(todo)
	}
	recs := make([]*migRec, n)
	next := make(chan int)
	var wg sync.WaitGroup
	for w := 0; w < workers; w++ {
		env, err := newMigEnv(filepath.Join(base, fmt.Sprintf("_env%d", w)))
		if err != nil {
			panic(err)
		}
		wg.Add(1)
		go func() {
			defer wg.Done()
			for i := range next {
				rec := &migRec{seed: run.Seed, tier: run.Tier}
				runMigrationCase(rec, env, r.Fork(uint64(i)), base, i)
				recs[i] = rec
			}
		}()
	}
	for _, i := range todo {
		next <- i
	}
	close(next)
	wg.Wait()
	var genFailures []string
	for _, i := range todo {
		recs[i].replay(run, &genFailures)
	}
}

// migHarnessError is a failure of the harness itself (disk), never of buf.
type migHarnessError struct{ err error }

func (e migHarnessError) Error() string { return "c16 migrate harness: " + e.err.Error() }

func runMigrationCase(run *migRec, env *migEnv, rr *hx.Rand, base string, i int) {
	c := genMigCase(rr, i)
	c.dir = filepath.Join(base, fmt.Sprintf("w%d", i))
	c.prevDir = filepath.Join(base, fmt.Sprintf("w%d-prev", i))
	c.prevMigDir = filepath.Join(base, fmt.Sprintf("w%d-prevmig", i))
	failed := false
	migratedYAML := ""
	fail := func(class, what string) {
		failed = true
		input := map[string]any{
			"case":    i,
			"configs": c.configs(),
			"protos":  c.protoList(),
			"dir":     c.dir,
		}
		if migratedYAML != "" {
			input["migrated_buf_yaml"] = migratedYAML
		}
		// Refine the class by root cause, so that a recorded finding only covers its own witness family.
		if (class == "migrate-lint-changed" || class == "migrate-breaking-changed") && hasIgnoreOnlyCategoryKey(c.configs()) {
			// ignore_only keyed by a CATEGORY: the migrator copies the key, but the category's
			// membership differs between v1beta1/v1 and v2.
			class += "-ignore-only-category-key"
		}
		switch class {
		case "migrate-error", "migrate-lint-failed", "migrate-breaking-failed":
			switch {
			case strings.Contains(what, `"FIELD_NO_DESCRIPTOR" is not a known rule or category ID`):
				class += "/v1beta1-field-no-descriptor-not-in-v2"
			case strings.Contains(what, "is not a known rule or category ID"):
				class += "/rule-or-category-id-unknown-in-v2"
			}
		}
		run.Fail(hx.OracleFailure{
			Class: class,
			What:  what,
			Input: input,
			Replay: fmt.Sprintf("%s --seed %d --tier %s --out <dir> --only-mig %d",
				os.Args[0], run.seed, run.tier, i),
		})
		run.Count("mig:fail:" + class)
	}
	defer func() {
		if p := recover(); p != nil {
			if _, harness := p.(migHarnessError); harness {
				panic(p)
			}
			fail("migrate-panic", fmt.Sprint(p)+"\n"+string(debug.Stack()))
		}
		if !failed && os.Getenv("C16_MIG_KEEP") == "" {
			os.RemoveAll(c.dir)
			os.RemoveAll(c.prevDir)
		}
		os.RemoveAll(c.prevMigDir)
	}()

	c.explain = migExplainer(c, env)
	if err := c.write(c.dir, false); err != nil {
		panic(migHarnessError{err})
	}
	if err := c.write(c.prevDir, true); err != nil {
		panic(migHarnessError{err})
	}
	strip := []string{c.prevMigDir, "$PREV", c.prevDir, "$PREV", c.dir, "$WS"}

	// ---- before
	againstImages, err := env.against(c.input(c.prevDir, false))
	if err != nil {
		run.Count("mig:gen-build-failed")
		run.genFailure = fmt.Sprintf("case %d against: %v", i, err)
		return
	}
	before := env.observe(c, c.input(c.dir, false), againstImages, strip)
	if before.buildErr != "" || before.lintErr != "" || before.breakingErr != "" {
		run.Count("mig:gen-build-failed")
		run.genFailure = fmt.Sprintf("case %d: build=%q lint=%q breaking=%q", i, before.buildErr, before.lintErr, before.breakingErr)
		return
	}
	run.Eval()

	// ---- bookkeeping
	hasV1, hasBeta, hasExcludes, hasDisabled, multiRoot, noYAML := false, false, false, false, false, false
	for _, m := range c.modules {
		switch m.version {
		case "v1":
			hasV1 = true
		case "v1beta1":
			hasBeta = true
		default:
			noYAML = true
		}
		hasExcludes = hasExcludes || len(m.excludes) > 0
		hasDisabled = hasDisabled || m.lintDisabled || m.breakingDisabled
		multiRoot = multiRoot || m.multiRoot()
		if len(m.deps) > 0 {
			run.Count("mig:module-with-workspace-deps")
		}
		if m.usesDeprecatedIDs && strings.Contains(m.yaml, "_") && migContainsAny(m.yaml, migDeprecatedIDs) {
			run.Count("mig:module-with-deprecated-rule-ids")
		}
		if m.usesV1Beta1OnlyCategories {
			run.Count("mig:module-with-v1beta1-only-categories")
		}
		if m.fullSpace {
			run.Count("mig:module-with-full-id-space-sections")
		}
		if m.lock {
			run.Count("mig:module-with-empty-buf-lock")
		}
		if m.version == "v1beta1" && m.units[0].root != "." {
			run.Count("mig:module-with-roots")
		}
	}
	if hasV1 {
		run.Count("mig:v1")
	}
	if hasBeta {
		run.Count("mig:v1beta1")
	}
	if hasV1 && hasBeta {
		run.Count("mig:mixed-v1-v1beta1")
	}
	if c.workspace {
		run.Count("mig:workspace")
		run.Count(fmt.Sprintf("mig:workspace-modules=%d", len(c.modules)))
	} else {
		run.Count("mig:single-module")
		if c.modules[0].dir != "." {
			run.Count("mig:single-module-in-subdir")
		}
	}
	if multiRoot {
		run.Count("mig:roots>1")
	}
	if hasExcludes {
		run.Count("mig:excludes")
	}
	if hasDisabled {
		run.Count("mig:disabled-by-ignore")
	}
	if noYAML {
		run.Count("mig:no-buf-yaml-module")
	}
	if len(before.lint) > 0 {
		run.Count("mig:lint-annotations>0")
	}
	if len(before.breaking) > 0 {
		run.Count("mig:breaking-annotations>0")
	}
	run.CountN("mig:lint-annotations-total", len(before.lint))
	run.CountN("mig:breaking-annotations-total", len(before.breaking))
	run.CountN("mig:files-built-total", len(before.files))
	if len(before.lint) > 0 || len(before.breaking) > 0 || hasExcludes {
		h := sha256.New()
		cfg := c.configs()
		keys := make([]string, 0, len(cfg))
		for k := range cfg {
			keys = append(keys, k)
		}
		sort.Strings(keys)
		for _, k := range keys {
			h.Write([]byte(k + "\x00" + cfg[k] + "\x00"))
		}
		run.Distinct("mig:" + hex.EncodeToString(h.Sum(nil)))
	}
	if i < 2 {
		run.Sample(map[string]any{
			"kind":                 "migration",
			"case":                 i,
			"configs":              c.configs(),
			"protos":               c.protoList(),
			"lint_annotations":     len(before.lint),
			"breaking_annotations": len(before.breaking),
		})
	}

	// ---- migrate
	if err := env.migrate(c, c.dir); err != nil {
		fail("migrate-error", err.Error())
		return
	}
	if b, err := os.ReadFile(filepath.Join(c.dir, "buf.yaml")); err == nil {
		migratedYAML = string(b)
	}

	// ---- after: the against side is the same unmigrated previous tree.
	after := env.observe(c, c.input(c.dir, true), againstImages, strip)
	if after.buildErr != "" {
		fail("migrate-after-build-failed", after.buildErr)
		return
	}

	// files
	var beforePaths, afterPaths []string
	for p := range before.files {
		beforePaths = append(beforePaths, p)
	}
	for p := range after.files {
		afterPaths = append(afterPaths, p)
	}
	sort.Strings(beforePaths)
	sort.Strings(afterPaths)
	lost, gained := migSetDiff(beforePaths, afterPaths)
	filesChanged := len(lost) > 0 || len(gained) > 0
	if filesChanged {
		fail("migrate-files-changed", fmt.Sprintf("workspace image: %d files lost (first %s), %d gained (first %s)",
			len(lost), migFirst(lost), len(gained), migFirst(gained)))
	} else {
		for _, p := range beforePaths {
			if before.imports[p] != after.imports[p] {
				filesChanged = true
				fail("migrate-files-changed", fmt.Sprintf("%s: is_import %v before, %v after", p, before.imports[p], after.imports[p]))
				break
			}
		}
	}
	// per-module membership
	if !filesChanged {
		for j := -1; j < len(c.modules); j++ {
			l, g := migSetDiff(before.perModule[j], after.perModule[j])
			if len(l) > 0 || len(g) > 0 {
				who := "images that mix modules"
				if j >= 0 {
					who = "module " + c.modules[j].dir
				}
				fail("migrate-files-changed", fmt.Sprintf("%s: %d files lost (first %s), %d gained (first %s)",
					who, len(l), migFirst(l), len(g), migFirst(g)))
				filesChanged = true
				break
			}
		}
	}
	// descriptors
	for _, p := range beforePaths {
		a, ok := after.files[p]
		if !ok {
			continue
		}
		if !proto.Equal(before.files[p], a) {
			fail("migrate-descriptor-changed", p+": FileDescriptorProto differs")
			break
		}
	}
	// lint
	if after.lintErr != "" {
		fail("migrate-lint-failed", "lint worked before and fails after migration: "+after.lintErr)
	} else {
		c.compareAnnotations("migrate-lint-changed", fail, before.lint, after.lint, before.lintByModule, after.lintByModule,
			func(m *migModule) bool { return m.lintDisabled })
	}
	// breaking
	if after.breakingErr != "" && after.nImages != len(againstImages) {
		// A v1beta1 module with several roots is one image on the unmigrated against side and
		// one image per root after the migration, so `buf breaking` refuses to run.  Report it,
		// then compare against a migrated copy of the previous tree so that the breaking
		// configuration itself is still checked.
		class := "migrate-breaking-changed"
		if multiRoot {
			class = "migrate-breaking-changed-roots-split"
		}
		fail(class, fmt.Sprintf("breaking worked before (%d annotations) and fails after against the same tree: %s",
			len(before.breaking), after.breakingErr))
		if err := c.write(c.prevMigDir, true); err != nil {
			panic(migHarnessError{err})
		}
		if err := env.migrate(c, c.prevMigDir); err != nil {
			fail("migrate-error", "previous tree: "+err.Error())
			return
		}
		againstMigrated, err := env.against(c.input(c.prevMigDir, true))
		if err != nil {
			fail("migrate-after-build-failed", "previous tree: "+err.Error())
			return
		}
		run.Count("mig:breaking-compared-against-migrated-prev")
		after = env.observe(c, c.input(c.dir, true), againstMigrated, strip)
	}
	if after.breakingErr != "" {
		fail("migrate-breaking-failed", "breaking worked before and fails after migration: "+after.breakingErr)
	} else {
		c.compareAnnotations("migrate-breaking-changed", fail, before.breaking, after.breaking, before.breakingByModule, after.breakingByModule,
			func(m *migModule) bool { return m.breakingDisabled })
	}
	if !failed {
		run.Count("mig:preserved")
		if hasBeta {
			run.Count("mig:preserved:v1beta1")
		}
		if multiRoot {
			run.Count("mig:preserved:roots>1")
		}
		if hasExcludes {
			run.Count("mig:preserved:excludes")
		}
		if noYAML {
			run.Count("mig:preserved:no-buf-yaml-module")
		}
		if len(before.lint) > 0 {
			run.Count("mig:preserved:lint-annotations>0")
		}
		if len(before.breaking) > 0 {
			run.Count("mig:preserved:breaking-annotations>0")
		}
	}
}


var migCategoryKeys = map[string]bool{"FILE": true, "PACKAGE": true, "WIRE": true, "WIRE_JSON": true, "DEFAULT": true, "BASIC": true,
	"MINIMAL": true, "STANDARD": true, "COMMENTS": true, "UNARY_RPC": true, "OTHER": true, "FILE_LAYOUT": true, "PACKAGE_AFFINITY": true,
	"SENSIBLE": true, "STYLE_DEFAULT": true, "STYLE_BASIC": true, "STYLE_STANDARD": true}

// hasIgnoreOnlyCategoryKey reports whether some generated config has an ignore_only entry whose
// key is a category name rather than a rule id.
func hasIgnoreOnlyCategoryKey(configs map[string]string) bool {
	for _, text := range configs {
		lines := strings.Split(text, "\n")
		for i, line := range lines {
			if strings.TrimSpace(line) != "ignore_only:" {
				continue
			}
			indent := len(line) - len(strings.TrimLeft(line, " "))
			for _, l := range lines[i+1:] {
				t := strings.TrimLeft(l, " ")
				if len(l)-len(t) <= indent {
					break
				}
				if strings.HasSuffix(t, ":") && migCategoryKeys[strings.TrimSuffix(t, ":")] {
					return true
				}
			}
		}
	}
	return false
}


// migFull is the id / category space of every version and rule type as the real client lists it
// (read-only after runMigrations set it).
var migFull *migChkEnv

// migExplainer judges the check sections of module j on their own: the module's lint and breaking
// sections alone are migrated in memory (section G, migchk.go) and the rule selection before /
// after is compared on the real rule lists.  Annotations of rules that the section stopped
// selecting because a category named in `except` grew, or whose ignore_only paths changed because
// two keys translate to the same v2 id, are attributed to that root cause.
func migExplainer(c *migCase, env *migEnv) func(j int, lint bool, lost, gained []string) (string, []string, []string) {
	type key struct {
		j    int
		lint bool
	}
	cache := map[key]*secVerdict{}
	verdict := func(j int, lint bool) *secVerdict {
		k := key{j, lint}
		if v, ok := cache[k]; ok {
			return v
		}
		cache[k] = nil
		m := c.modules[j]
		if migFull == nil || m.version == "" || m.version == "v2" {
			return nil
		}
		var y yV1
		if err := yaml.Unmarshal([]byte(m.yaml), &y); err != nil {
			return nil
		}
		// the check sections only: no name, deps, roots (the translation depends on nothing else)
		ob := migFull.observe(env.client, mustYAML(yV1{Version: m.version, Lint: y.Lint, Breaking: y.Breaking}))
		if ob.status != "ok" || !ob.beforeOK || ob.obs[lint].afterErr != "" || ob.obs[lint].disabled || ob.obs[lint].disabledBefore {
			return nil
		}
		cache[k] = migFull.judge(m.version, lint, ob.obs[lint])
		return cache[k]
	}
	return func(j int, lint bool, lost, gained []string) (string, []string, []string) {
		v := verdict(j, lint)
		if v == nil {
			return "", nil, nil
		}
		if strings.HasSuffix(v.selClass, "-except-category-grew") {
			lostRules := strSet(v.lost)
			var el []string
			for _, a := range lost {
				if lostRules[migAnnotationRule(a)] {
					el = append(el, a)
				}
			}
			if len(el) > 0 {
				return v.selClass, el, nil
			}
		}
		if v.ioClass == "migrate-ignore-only-key-collision" {
			var el, eg []string
			for _, a := range lost {
				if v.ioRules[migAnnotationRule(a)] {
					el = append(el, a)
				}
			}
			for _, a := range gained {
				if v.ioRules[migAnnotationRule(a)] {
					eg = append(eg, a)
				}
			}
			if len(el)+len(eg) > 0 {
				return v.ioClass, el, eg
			}
		}
		return "", nil, nil
	}
}
