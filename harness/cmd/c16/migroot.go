package main

import (
	"context"
	"fmt"
	"io"
	"io/fs"
	"log/slog"
	"os"
	"sort"
	"strings"

	"github.com/bufbuild/buf/private/buf/bufmigrate"
	"github.com/bufbuild/buf/private/buf/buftarget"
	"github.com/bufbuild/buf/private/buf/bufworkspace"
	"github.com/bufbuild/buf/private/bufpkg/bufconfig"
	"github.com/bufbuild/buf/private/bufpkg/bufmodule"
	"github.com/bufbuild/buf/private/bufpkg/bufparse"
	"github.com/bufbuild/buf/private/bufpkg/bufplugin"
	"github.com/bufbuild/buf/private/pkg/normalpath"
	"github.com/bufbuild/buf/private/pkg/storage"
	"github.com/bufbuild/buf/private/pkg/storage/storagemem"
	"github.com/bufbuild/verifharness/internal/hx"
	"github.com/bufbuild/verifharness/internal/nd"
)

// Section F: workspace-level file ownership before and after `buf config migrate`, on an in-memory
// bucket, no compilation.  A generated v1/v1beta1 workspace (buf.work.yaml with several module
// directories, or a list of module directories; v1beta1 modules with several roots, v1 modules,
// directories without buf.yaml; excludes per root) is migrated by the real migrator.
//   correspondence: for every file the (module directory, root, root-relative path) triples under
//     which the REAL workspace targeting knows it BEFORE migration, the v2 modules the real migrator
//     wrote (path, workspace-relative excludes) and the triples AFTER migration == the Lean model
//     evaluating BufModel.Config.owners on the v1 workspace and on readV2 (writeV2 (migrateFile ws));
//     each module also carries whether its lint / breaking checks are switched off (`ignore: [.]`,
//     as the real v1 reader sees it); the v2 modules carry the flags the real v2 reader returns for
//     the migrated file == the model's migrateFile (equivLint …) (equivBreaking …) through
//     readV2 (writeV2 …) (theorem migrate_keeps_disabled);
//   oracle (implementation only): after == before renamed (dir, root, p) -> (dir/root, ".", p)
//     (class migws-owners-changed); the switched-off flags of dir/root == those of the v1 module
//     (class migws-disabled-changed).

var quietLogger = slog.New(slog.NewTextHandler(io.Discard, nil))

// noModuleKeys: there are no remote dependencies in the generated modules.
type noModuleKeys struct{}

func (noModuleKeys) GetModuleKeysForModuleRefs(_ context.Context, refs []bufparse.Ref, _ bufmodule.DigestType) ([]bufmodule.ModuleKey, error) {
	if len(refs) == 0 {
		return nil, nil
	}
	return nil, &fs.PathError{Op: "read", Path: refs[0].String(), Err: fs.ErrNotExist}
}

type migRoot struct {
	Root     string
	Excludes []string // relative to the root
}

type fileOwner struct {
	BucketID string // module identity as the workspace code names it
	Path     string // the path under which the module knows the file
}

// workspaceOwners: path (relative to the bucket root) -> owners, for the workspace the real code
// finds for subDir of the bucket mapped on `prefix` (the CLI's fetch layer hands the workspace code
// a bucket rooted at the controlling workspace; bucket ids and module paths are relative to that).
func workspaceOwners(root storage.ReadBucket, prefix string, subDir string) (map[string][]fileOwner, error) {
	bucket := root
	if prefix != "." {
		bucket = storage.MapReadBucket(root, storage.MapOnPrefix(prefix))
	}
	bucketTargeting, err := buftarget.NewBucketTargeting(ctx, quietLogger, bucket, subDir, nil, nil, buftarget.TerminateAtControllingWorkspace)
	if err != nil {
		return nil, err
	}
	workspace, err := bufworkspace.NewWorkspaceProvider(quietLogger, bufmodule.NopGraphProvider, bufmodule.NopModuleDataProvider,
		bufmodule.NopCommitProvider, bufplugin.NopPluginKeyProvider).GetWorkspaceForBucket(ctx, bucket, bucketTargeting)
	if err != nil {
		return nil, err
	}
	owners := map[string][]fileOwner{}
	for _, module := range workspace.Modules() {
		if !module.IsLocal() {
			continue
		}
		id := module.BucketID()
		if err := module.WalkFileInfos(ctx, func(fi bufmodule.FileInfo) error {
			if fi.FileType() == bufmodule.FileTypeProto {
				// the in-memory bucket's external paths are its root-relative paths
				owners[fi.ExternalPath()] = append(owners[fi.ExternalPath()], fileOwner{normalpath.Join(prefix, id), fi.Path()})
			}
			return nil
		}); err != nil {
			return nil, err
		}
	}
	return owners, nil
}

type wsModule struct {
	Dir   string // relative to the destination directory
	Kind  string // v1beta1 | v1 | none (no buf.yaml)
	Roots []migRoot
	// LintIgnore / BreakingIgnore: the `ignore` list of the section ("" = no section).  "." names
	// the module itself and switches the checks off; any other path leaves them on.
	LintIgnore     string
	BreakingIgnore string
	// LintOff / BreakingOff: what the REAL v1 reader says (CheckConfig.Disabled()), filled in
	// after the buf.yaml was written.
	LintOff     bool
	BreakingOff bool
}

// tripleOf names an owner by (module dir relative to dest, root, path): the root is what lies
// between the module directory and the module-relative path in the external path.
func tripleOf(dest, ext string, o fileOwner, idIsBucketRelative bool) (nd.Node, string) {
	relExt, err := normalpath.Rel(dest, ext)
	if err != nil {
		return nd.L(nd.A("?"), nd.A("?"), nd.A("?")), "?"
	}
	dir := o.BucketID
	if idIsBucketRelative {
		if d, err := normalpath.Rel(dest, o.BucketID); err == nil {
			dir = d
		}
	}
	below, err := normalpath.Rel(dir, relExt) // root/path
	if err != nil {
		return nd.L(nd.A(dir), nd.A("?"), nd.A(o.Path)), dir + "\x00?"
	}
	root := "?"
	switch {
	case below == o.Path:
		root = "."
	case strings.HasSuffix(below, "/"+o.Path):
		root = strings.TrimSuffix(below, "/"+o.Path)
	}
	return nd.L(nd.A(dir), nd.A(root), nd.A(o.Path)), dir + "\x00" + root
}

func sortedTriples(dest, ext string, os []fileOwner, idIsBucketRelative bool) nd.Node {
	type kt struct {
		k string
		n nd.Node
	}
	var xs []kt
	for _, o := range os {
		n, k := tripleOf(dest, ext, o, idIsBucketRelative)
		xs = append(xs, kt{k, n})
	}
	sort.SliceStable(xs, func(a, b int) bool { return xs[a].k < xs[b].k })
	out := []nd.Node{}
	for _, x := range xs {
		out = append(out, x.n)
	}
	return nd.L(out...)
}

func runMigWs(run *hx.Run, r *hx.Rand, n int) {
	for i := 0; i < n; i++ {
		if run.Only >= 0 && run.Only != i {
			continue
		}
		rr := r.Fork(uint64(i))
		// workspace mode: buf.work.yaml at dest lists the module directories; module mode: the
		// module directories are handed to the migrator one by one (destination ".").
		workspaceMode := rr.Chance(2, 3)
		dest := "."
		if workspaceMode && rr.Chance(1, 2) {
			dest = "ws"
		}
		dirPool := []string{"proto", "a/b", "x y", "api", "vendor/x"}
		hx.Shuffle(rr, dirPool)
		nm := 1 + rr.Intn(3)
		var mods []wsModule
		if !workspaceMode && rr.Chance(1, 4) {
			mods = []wsModule{{Dir: "."}}
		} else {
			for _, d := range dirPool[:nm] {
				mods = append(mods, wsModule{Dir: d})
			}
		}
		exPool := []string{"gen", "vendor", "internal/x", "gen2"}
		for k := range mods {
			m := &mods[k]
			switch x := rr.Intn(10); {
			case x < 6:
				m.Kind = "v1beta1"
			case x < 9:
				m.Kind = "v1"
			default:
				m.Kind = "none"
			}
			if m.Kind == "v1beta1" && rr.Chance(3, 4) {
				pool := []string{"src", "protos/a", "protos/b", "lib"}
				hx.Shuffle(rr, pool)
				for _, root := range pool[:1+rr.Intn(2)] {
					m.Roots = append(m.Roots, migRoot{Root: root})
				}
			} else {
				m.Roots = []migRoot{{Root: "."}}
			}
			if m.Kind != "none" {
				for j := range m.Roots {
					if rr.Chance(1, 2) {
						hx.Shuffle(rr, exPool)
						m.Roots[j].Excludes = append([]string{}, exPool[:1+rr.Intn(2)]...)
						sort.Strings(m.Roots[j].Excludes)
					}
				}
			}
			sort.Slice(m.Roots, func(a, b int) bool { return m.Roots[a].Root < m.Roots[b].Root })
			if m.Kind != "none" {
				pick := func() string {
					switch x := rr.Intn(8); {
					case x < 3:
						return "." // the module itself: checks switched off
					case x < 4:
						return "pkg" // an ordinary ignore path: checks stay on
					}
					return ""
				}
				m.LintIgnore, m.BreakingIgnore = pick(), pick()
			}
		}
		sort.Slice(mods, func(a, b int) bool { return mods[a].Dir < mods[b].Dir })

		bucket := storagemem.NewReadWriteBucket()
		put := func(path, content string) {
			if err := storage.PutPath(ctx, bucket, path, []byte(content)); err != nil {
				panic(err)
			}
		}
		var files []string
		seen := map[string]bool{}
		add := func(p string) {
			if !seen[p] {
				seen[p] = true
				files = append(files, p)
			}
		}
		var describe strings.Builder
		for k, m := range mods {
			abs := normalpath.Join(dest, m.Dir)
			for j, root := range m.Roots {
				base := normalpath.Join(abs, root.Root)
				add(normalpath.Join(base, fmt.Sprintf("m%dr%d.proto", k, j)))
				add(normalpath.Join(base, "pkg", fmt.Sprintf("m%dr%d_p.proto", k, j)))
				for e, ex := range exPool {
					if rr.Chance(2, 3) {
						add(normalpath.Join(base, ex, fmt.Sprintf("m%dr%d_e%d.proto", k, j, e)))
					}
				}
				add(normalpath.Join(base, "genx", fmt.Sprintf("m%dr%d_gx.proto", k, j))) // sibling with a common name prefix
				add(normalpath.Join(base, "gen", "notproto.txt"))
			}
			add(normalpath.Join(abs, "outside", fmt.Sprintf("m%d_o.proto", k)))
			if m.Kind == "none" {
				fmt.Fprintf(&describe, "%s: (no buf.yaml)\n", abs)
				continue
			}
			var yml strings.Builder
			yml.WriteString("version: " + m.Kind + "\n")
			var fullEx []string
			for _, root := range m.Roots {
				for _, ex := range root.Excludes {
					fullEx = append(fullEx, normalpath.Join(root.Root, ex))
				}
			}
			multi := len(m.Roots) > 1 || m.Roots[0].Root != "."
			if multi || len(fullEx) > 0 {
				yml.WriteString("build:\n")
				if multi {
					yml.WriteString("  roots:\n")
					for _, root := range m.Roots {
						yml.WriteString("    - " + root.Root + "\n")
					}
				}
				if len(fullEx) > 0 {
					yml.WriteString("  excludes:\n")
					for _, ex := range fullEx {
						yml.WriteString("    - " + ex + "\n")
					}
				}
			}
			if m.LintIgnore != "" {
				yml.WriteString("lint:\n  ignore:\n    - " + m.LintIgnore + "\n")
			}
			if m.BreakingIgnore != "" {
				yml.WriteString("breaking:\n  ignore:\n    - " + m.BreakingIgnore + "\n")
			}
			put(normalpath.Join(abs, "buf.yaml"), yml.String())
			fmt.Fprintf(&describe, "%s/buf.yaml:\n%s", abs, yml.String())
			// The flags as the real v1beta1/v1 reader sees them.
			if v1File, err := bufconfig.GetBufYAMLFileForPrefix(ctx, bucket, abs); err == nil && len(v1File.ModuleConfigs()) == 1 {
				mods[k].LintOff = v1File.ModuleConfigs()[0].LintConfig().Disabled()
				mods[k].BreakingOff = v1File.ModuleConfigs()[0].BreakingConfig().Disabled()
			} else {
				panic(fmt.Sprintf("c16 migws harness: generated buf.yaml unreadable: %v\n%s", err, yml.String()))
			}
		}
		add(normalpath.Join(dest, "nomodule", "n.proto"))
		sort.Strings(files)
		for k, f := range files {
			put(f, fmt.Sprintf("syntax = \"proto3\";\npackage p%d;\n", k))
		}
		if workspaceMode {
			var w strings.Builder
			w.WriteString("version: v1\ndirectories:\n")
			for _, m := range mods {
				w.WriteString("  - " + m.Dir + "\n")
			}
			put(normalpath.Join(dest, "buf.work.yaml"), w.String())
			fmt.Fprintf(&describe, "%s/buf.work.yaml:\n%s", dest, w.String())
		}
		// protocol line: module dirs and files relative to dest
		modNodes := []nd.Node{}
		for _, m := range mods {
			rootNodes := []nd.Node{}
			for _, root := range m.Roots {
				rootNodes = append(rootNodes, nd.L(nd.A(root.Root), nd.Strs(root.Excludes)))
			}
			modNodes = append(modNodes, nd.L(nd.A(m.Dir), nd.L(rootNodes...), nd.B(m.LintOff), nd.B(m.BreakingOff)))
		}
		var relFiles []string
		for _, f := range files {
			rf, err := normalpath.Rel(dest, f)
			if err != nil {
				panic(err)
			}
			relFiles = append(relFiles, rf)
		}
		line := "migws\t" + nd.L(modNodes...).String() + "\t" + nd.Strs(relFiles).String()
		replay := fmt.Sprintf("%s --seed %d --tier %s --out <dir> --only %d   # section migws case %d (workspace mode %v, destination %q):\n%s files: %v",
			os.Args[0], run.Seed, run.Tier, i, i, workspaceMode, dest, describe.String(), files)
		run.Count(map[bool]string{true: "migws:workspace-mode", false: "migws:module-mode"}[workspaceMode])
		run.Count(fmt.Sprintf("migws:modules=%d", len(mods)))
		for _, m := range mods {
			run.Count("migws:kind:" + m.Kind)
			if len(m.Roots) > 1 {
				run.Count("migws:roots>1")
			}
			if m.LintOff {
				run.Count("migws:lint-off")
			}
			if m.BreakingOff {
				run.Count("migws:breaking-off")
			}
			if (m.LintIgnore != "" && !m.LintOff) || (m.BreakingIgnore != "" && !m.BreakingOff) {
				run.Count("migws:ignore-but-on")
			}
			for _, root := range m.Roots {
				if len(root.Excludes) > 0 {
					run.Count("migws:excludes")
					break
				}
			}
		}

		func() {
			defer func() {
				if p := recover(); p != nil {
					failC(run, hx.OracleFailure{Class: "migws-panic", What: fmt.Sprint(p), Input: describe.String(), Replay: replay})
					run.Case(line, "panic", true)
				}
			}()
			// BEFORE: the real v1 workspace(s)
			before := map[string][]fileOwner{}
			if workspaceMode {
				b, err := workspaceOwners(bucket, dest, ".")
				if err != nil {
					run.Count("migws:before-error"); if os.Getenv("C16_DEBUG") != "" { fmt.Fprintln(os.Stderr, "before-error:", err, "\n", describe.String()) }
					run.Case(line, "before-error", false)
					return
				}
				before = b
			} else {
				for _, m := range mods {
					b, err := workspaceOwners(bucket, ".", m.Dir)
					if err != nil {
						run.Count("migws:before-error"); if os.Getenv("C16_DEBUG") != "" { fmt.Fprintln(os.Stderr, "before-error:", err, "\n", describe.String()) }
						run.Case(line, "before-error", false)
						return
					}
					for p, os := range b {
						before[p] = append(before[p], os...)
					}
				}
			}
			migrator := bufmigrate.NewMigrator(quietLogger, noModuleKeys{}, bufmodule.NopCommitProvider)
			var wsDirs, modDirs []string
			if workspaceMode {
				wsDirs = []string{dest}
			} else {
				for _, m := range mods {
					modDirs = append(modDirs, m.Dir)
				}
			}
			if err := migrator.Migrate(ctx, bucket, wsDirs, modDirs, nil); err != nil {
				failC(run, hx.OracleFailure{Class: "migws-migrate-error", What: err.Error(), Input: describe.String(), Replay: replay})
				run.Case(line, "migrate-error", true)
				return
			}
			f, err := bufconfig.GetBufYAMLFileForPrefix(ctx, bucket, dest)
			if err != nil {
				failC(run, hx.OracleFailure{Class: "migws-after-read-error", What: err.Error(), Input: describe.String(), Replay: replay})
				run.Case(line, "after-read-error", true)
				return
			}
			v2mods := []nd.Node{}
			for _, m := range f.ModuleConfigs() {
				var ex []string
				for _, x := range m.RootToExcludes()["."] {
					ex = append(ex, normalpath.Join(m.DirPath(), x))
				}
				v2mods = append(v2mods, nd.L(nd.A(m.DirPath()), nd.Strs(ex), nd.B(m.LintConfig().Disabled()), nd.B(m.BreakingConfig().Disabled())))
			}
			// oracle (implementation only): every (module, root) of the v1 workspace is a v2 module
			// at dir/root whose checks are switched off exactly when the v1 module's were.
			{
				got := map[string][2]bool{}
				for _, m := range f.ModuleConfigs() {
					got[m.DirPath()] = [2]bool{m.LintConfig().Disabled(), m.BreakingConfig().Disabled()}
				}
				var offDiffs []string
				for _, m := range mods {
					for _, root := range m.Roots {
						dir := normalpath.Join(m.Dir, root.Root)
						g, ok := got[dir]
						if !ok {
							continue // ownership differences are reported by migws-owners-changed
						}
						if g[0] != m.LintOff || g[1] != m.BreakingOff {
							offDiffs = append(offDiffs, fmt.Sprintf("%s: lint off %v -> %v, breaking off %v -> %v", dir, m.LintOff, g[0], m.BreakingOff, g[1]))
						}
					}
				}
				if len(offDiffs) > 0 {
					failC(run, hx.OracleFailure{Class: "migws-disabled-changed", What: "checks switched off with `ignore: [.]` before migration are not switched off after (or vice versa): " + strings.Join(offDiffs, "; "),
						Input: describe.String(), Replay: replay})
				}
			}
			after, err := workspaceOwners(bucket, dest, ".")
			if err != nil {
				failC(run, hx.OracleFailure{Class: "migws-after-workspace-error", What: err.Error(), Input: describe.String(), Replay: replay})
				run.Case(line, "after-workspace-error", true)
				return
			}
			bs, as := []nd.Node{}, []nd.Node{}
			agree := true
			var diffs []string
			for _, file := range files {
				b := sortedTriples(dest, file, before[file], true)
				a := sortedTriples(dest, file, after[file], true)
				bs, as = append(bs, b), append(as, a)
				// oracle: after == before renamed (dir, root, p) -> (dir/root, ".", p)
				var want []string
				for _, t := range b.List {
					want = append(want, normalpath.Join(t.List[0].Atom, t.List[1].Atom)+"\x00.\x00"+t.List[2].Atom)
				}
				var got []string
				for _, t := range a.List {
					got = append(got, t.List[0].Atom+"\x00"+t.List[1].Atom+"\x00"+t.List[2].Atom)
				}
				sort.Strings(want)
				sort.Strings(got)
				if strings.Join(want, "\n") != strings.Join(got, "\n") {
					agree = false
					diffs = append(diffs, fmt.Sprintf("%s: before %s, after %s", file, show(b), show(a)))
				}
			}
			for p := range after {
				if !seen[p] {
					agree = false
					diffs = append(diffs, "file appeared: "+p)
				}
			}
			agreeS := "agree"
			if !agree {
				agreeS = "DISAGREE"
				failC(run, hx.OracleFailure{Class: "migws-owners-changed", What: "file ownership (module, module-relative path) differs before/after migration: " + strings.Join(diffs, "; "),
					Input: describe.String(), Replay: replay})
			}
			run.Case(line, nd.L(bs...).String()+" "+nd.L(v2mods...).String()+" "+nd.L(as...).String()+" "+agreeS, true)
		}()
	}
}
