package main

import (
	"context"
	"fmt"
	"io"
	"io/fs"
	"log/slog"
	"os"
	"sort"
	"strings"

	"github.com/bufbuild/buf/private/buf/bufmigrate"
	"github.com/bufbuild/buf/private/buf/buftarget"
	"github.com/bufbuild/buf/private/buf/bufworkspace"
	"github.com/bufbuild/buf/private/bufpkg/bufconfig"
	"github.com/bufbuild/buf/private/bufpkg/bufmodule"
	"github.com/bufbuild/buf/private/bufpkg/bufparse"
	"github.com/bufbuild/buf/private/bufpkg/bufplugin"
	"github.com/bufbuild/buf/private/pkg/normalpath"
	"github.com/bufbuild/buf/private/pkg/storage"
	"github.com/bufbuild/buf/private/pkg/storage/storagemem"
	"github.com/bufbuild/verifharness/internal/hx"
	"github.com/bufbuild/verifharness/internal/nd"
)

// Section F: the migrator's translation of a v1beta1/v1 module's roots and excludes into v2
// modules (path = moduleDir/root, excludes kept), on an in-memory bucket, no compilation:
//   correspondence: the v2 modules (path, workspace-relative excludes) the real migrator wrote and
//     the owner modules of every file according to the real workspace targeting of the migrated
//     tree == BufModel.Config.migrateRoot / inV2Module;
//   oracle: the set of proto files the real workspace targeting attributes to the module before
//     migration == the union over the migrated modules after.

var quietLogger = slog.New(slog.NewTextHandler(io.Discard, nil))

// noModuleKeys: there are no remote dependencies in the generated modules.
type noModuleKeys struct{}

func (noModuleKeys) GetModuleKeysForModuleRefs(_ context.Context, refs []bufparse.Ref, _ bufmodule.DigestType) ([]bufmodule.ModuleKey, error) {
	if len(refs) == 0 {
		return nil, nil
	}
	return nil, &fs.PathError{Op: "read", Path: refs[0].String(), Err: fs.ErrNotExist}
}

type migRoot struct {
	Root     string
	Excludes []string // relative to the root
}

func workspaceFiles(bucket storage.ReadBucket, subDir string) (map[string][]string, error) {
	bucketTargeting, err := buftarget.NewBucketTargeting(ctx, quietLogger, bucket, subDir, nil, nil, buftarget.TerminateAtControllingWorkspace)
	if err != nil {
		return nil, err
	}
	workspace, err := bufworkspace.NewWorkspaceProvider(quietLogger, bufmodule.NopGraphProvider, bufmodule.NopModuleDataProvider,
		bufmodule.NopCommitProvider, bufplugin.NopPluginKeyProvider).GetWorkspaceForBucket(ctx, bucket, bucketTargeting)
	if err != nil {
		return nil, err
	}
	owners := map[string][]string{}
	for _, module := range workspace.Modules() {
		if !module.IsLocal() {
			continue
		}
		id := module.BucketID()
		if err := module.WalkFileInfos(ctx, func(fi bufmodule.FileInfo) error {
			if fi.FileType() == bufmodule.FileTypeProto {
				owners[fi.ExternalPath()] = append(owners[fi.ExternalPath()], id)
			}
			return nil
		}); err != nil {
			return nil, err
		}
	}
	return owners, nil
}

func runMigRoots(run *hx.Run, r *hx.Rand, n int) {
	for i := 0; i < n; i++ {
		rr := r.Fork(uint64(i))
		moduleDir := hx.Pick(rr, []string{".", "proto", "a/b", "x y"})
		v1beta1 := rr.Chance(2, 3)
		var roots []migRoot
		if v1beta1 && rr.Chance(3, 4) {
			pool := []string{"src", "protos/a", "protos/b", "lib"}
			hx.Shuffle(rr, pool)
			for _, root := range pool[:1+rr.Intn(2)] {
				roots = append(roots, migRoot{Root: root})
			}
		} else {
			roots = []migRoot{{Root: "."}}
		}
		exPool := []string{"gen", "vendor", "internal/x", "gen2"}
		for j := range roots {
			if rr.Chance(1, 2) {
				hx.Shuffle(rr, exPool)
				roots[j].Excludes = append([]string{}, exPool[:1+rr.Intn(2)]...)
				sort.Strings(roots[j].Excludes)
			}
		}
		sort.Slice(roots, func(a, b int) bool { return roots[a].Root < roots[b].Root })
		// files: below roots, below excludes, outside roots
		var files []string
		seen := map[string]bool{}
		add := func(p string) {
			if !seen[p] {
				seen[p] = true
				files = append(files, p)
			}
		}
		for j, root := range roots {
			base := normalpath.Join(moduleDir, root.Root)
			add(normalpath.Join(base, fmt.Sprintf("r%d.proto", j)))
			add(normalpath.Join(base, "pkg", fmt.Sprintf("r%d_p.proto", j)))
			for k, ex := range exPool {
				if rr.Chance(2, 3) {
					add(normalpath.Join(base, ex, fmt.Sprintf("r%d_e%d.proto", j, k)))
				}
			}
			add(normalpath.Join(base, "genx", fmt.Sprintf("r%d_gx.proto", j))) // sibling with a common name prefix
		}
		add(normalpath.Join(moduleDir, "outside", "o.proto"))
		sort.Strings(files)

		var yml strings.Builder
		if v1beta1 {
			yml.WriteString("version: v1beta1\n")
		} else {
			yml.WriteString("version: v1\n")
		}
		var fullEx []string
		for _, root := range roots {
			for _, ex := range root.Excludes {
				fullEx = append(fullEx, normalpath.Join(root.Root, ex))
			}
		}
		if (len(roots) > 0 && (len(roots) > 1 || roots[0].Root != ".")) || len(fullEx) > 0 {
			yml.WriteString("build:\n")
			if len(roots) > 1 || roots[0].Root != "." {
				yml.WriteString("  roots:\n")
				for _, root := range roots {
					yml.WriteString("    - " + root.Root + "\n")
				}
			}
			if len(fullEx) > 0 {
				yml.WriteString("  excludes:\n")
				for _, ex := range fullEx {
					yml.WriteString("    - " + ex + "\n")
				}
			}
		}
		bucket := storagemem.NewReadWriteBucket()
		put := func(path, content string) {
			if err := storage.PutPath(ctx, bucket, path, []byte(content)); err != nil {
				panic(err)
			}
		}
		put(normalpath.Join(moduleDir, "buf.yaml"), yml.String())
		for k, f := range files {
			put(f, fmt.Sprintf("syntax = \"proto3\";\npackage p%d;\n", k))
		}
		rootNodes := []nd.Node{}
		for _, root := range roots {
			rootNodes = append(rootNodes, nd.L(nd.A(root.Root), nd.Strs(root.Excludes)))
		}
		line := "migroot\t" + hx.Enc(moduleDir) + "\t" + nd.L(rootNodes...).String() + "\t" + nd.Strs(files).String()
		replay := fmt.Sprintf("%s --seed %d --tier %s --out <dir>   # section migroot case %d: module dir %q, buf.yaml:\n%s files: %v",
			os.Args[0], run.Seed, run.Tier, i, moduleDir, yml.String(), files)
		run.Count(map[bool]string{true: "migroot:v1beta1", false: "migroot:v1"}[v1beta1])
		if len(roots) > 1 {
			run.Count("migroot:roots>1")
		}
		if len(fullEx) > 0 {
			run.Count("migroot:excludes")
		}

		func() {
			defer func() {
				if p := recover(); p != nil {
					failC(run, hx.OracleFailure{Class: "migroot-panic", What: fmt.Sprint(p), Input: yml.String(), Replay: replay})
					run.Case(line, "panic", true)
				}
			}()
			before, err := workspaceFiles(bucket, moduleDir)
			if err != nil {
				run.Count("migroot:before-error")
				run.Case(line, "before-error", false)
				return
			}
			migrator := bufmigrate.NewMigrator(quietLogger, noModuleKeys{}, bufmodule.NopCommitProvider)
			if err := migrator.Migrate(ctx, bucket, nil, []string{moduleDir}, nil); err != nil {
				failC(run, hx.OracleFailure{Class: "migroot-migrate-error", What: err.Error(), Input: yml.String(), Replay: replay})
				run.Case(line, "migrate-error", true)
				return
			}
			f, err := bufconfig.GetBufYAMLFileForPrefix(ctx, bucket, ".")
			if err != nil {
				failC(run, hx.OracleFailure{Class: "migroot-after-read-error", What: err.Error(), Input: yml.String(), Replay: replay})
				run.Case(line, "after-read-error", true)
				return
			}
			mods := []nd.Node{}
			for _, m := range f.ModuleConfigs() {
				var ex []string
				for _, x := range m.RootToExcludes()["."] {
					ex = append(ex, normalpath.Join(m.DirPath(), x))
				}
				mods = append(mods, nd.L(nd.A(m.DirPath()), nd.Strs(ex)))
			}
			after, err := workspaceFiles(bucket, ".")
			if err != nil {
				failC(run, hx.OracleFailure{Class: "migroot-after-workspace-error", What: err.Error(), Input: yml.String(), Replay: replay})
				run.Case(line, "after-workspace-error", true)
				return
			}
			owners := []nd.Node{}
			for _, file := range files {
				o := append([]string{}, after[file]...)
				sort.Strings(o)
				owners = append(owners, nd.Strs(o))
			}
			// oracle: same proto files before and after
			var bs, as []string
			for p := range before {
				bs = append(bs, p)
			}
			for p := range after {
				as = append(as, p)
			}
			sort.Strings(bs)
			sort.Strings(as)
			if strings.Join(bs, "\n") != strings.Join(as, "\n") {
				failC(run, hx.OracleFailure{Class: "migroot-files-changed", What: fmt.Sprintf("files of the module before migration %v, after %v", bs, as),
					Input: map[string]any{"moduleDir": moduleDir, "buf.yaml": yml.String(), "files": files}, Replay: replay})
			}
			run.Case(line, nd.L(nd.L(mods...), nd.L(owners...)).String(), true)
		}()
	}
}
