package main

// Section R: redirects.  A registry may answer an RPC with a 3xx; the http.Client buf builds
// follows it, and the request that goes out to the NEXT host is a registry request like any
// other: the property ("a token configured for one host is never sent to another host") applies
// to every hop.  The fake network is one httptest server reached through HTTP_PROXY (set in
// main before any transport is built; loopback registries of sections D/E bypass proxies), so it
// sees every request together with the host it was meant for.
//
// Oracle (implementation only): whatever Authorization header arrives at host H — first request
// or any hop of a redirect chain — must be the token the configuration configures FOR H
// (expectedToken); nothing may arrive at a host the configuration does not cover.  A hop that
// legitimately carries no token is fine (the client need not re-authenticate).
//
// Go's net/http forwards the headers of the first request to a redirect target that is the same
// host or a SUBDOMAIN of it.  A sub-domain is another host; whether a token reaches it is decided
// by this oracle like for any other host, and counted separately (R:subdomain-hop…).

import (
	"fmt"
	"io"
	"log/slog"
	"net/http"
	"net/http/httptest"
	"os"
	"path/filepath"
	"strings"
	"sync"

	"connectrpc.com/connect"
	"github.com/bufbuild/buf/private/buf/bufcli"
	"github.com/bufbuild/buf/private/bufpkg/bufconnect"
	"github.com/bufbuild/buf/private/pkg/app"
	"github.com/bufbuild/buf/private/pkg/app/appext"
	"github.com/bufbuild/buf/private/pkg/connectclient"
	"github.com/bufbuild/verifharness/internal/hx"
	"google.golang.org/protobuf/types/known/emptypb"
)

type hop struct {
	host string
	auth []string
}

type network struct {
	srv   *httptest.Server
	mu    sync.Mutex
	route map[string]string // host -> "status location-host" ("" = final answer)
	seen  []hop
}

func newNetwork() *network {
	n := &network{route: map[string]string{}}
	n.srv = httptest.NewServer(http.HandlerFunc(func(w http.ResponseWriter, r *http.Request) {
		host := r.URL.Hostname()
		if host == "" {
			host = r.Host
		}
		io.Copy(io.Discard, r.Body)
		n.mu.Lock()
		n.seen = append(n.seen, hop{host: host, auth: r.Header.Values("Authorization")})
		rt := n.route[host]
		n.mu.Unlock()
		if rt == "" {
			w.WriteHeader(http.StatusUnauthorized)
			return
		}
		var status int
		var to string
		fmt.Sscanf(rt, "%d %s", &status, &to)
		w.Header().Set("Location", "http://"+to+r.URL.Path)
		w.WriteHeader(status)
	}))
	n.srv.Config.SetKeepAlivesEnabled(false)
	return n
}

func (n *network) program(route map[string]string) {
	n.mu.Lock()
	n.route, n.seen = route, nil
	n.mu.Unlock()
}

func (n *network) take() []hop {
	n.mu.Lock()
	defer n.mu.Unlock()
	s := n.seen
	n.seen = nil
	return s
}

// redirect targets relative to a registry host R: look-alikes that share only characters with R,
// real sub- and parent domains, unrelated hosts, hosts another entry is configured for.
func redirectTargets(reg string) []string {
	if reg == "" {
		return []string{"unrelated.example"}
	}
	labels := strings.Split(reg, ".")
	out := []string{
		"evil" + reg,            // ends in the same characters, no label boundary
		reg + ".evil.test",      // R as a prefix
		"sub." + reg,            // a real subdomain
		"a.b." + reg,            // deeper
		"unrelated.example",     // nothing in common
		labels[len(labels)-1],   // the top label alone
		reg[1:],                 // R without its first character
		strings.ToUpper(reg),    // same host, other case (host names are case-insensitive: SAME host)
		reg + ".",               // trailing dot
		"other.registry.test",   // a host that has its own entry in some configurations
		"xn--" + reg,            // punycode look-alike prefix
	}
	if len(labels) > 2 {
		out = append(out, strings.Join(labels[1:], ".")) // the parent domain
	}
	// no empty or one-dot names ("h"[1:] is empty)
	keep := out[:0]
	for _, t := range out {
		if strings.Trim(t, ".") != "" {
			keep = append(keep, t)
		}
	}
	return keep
}

func sectionR(run *hx.Run, r *hx.Rand, ne *netrcEnv, nw *network) {
	cfgDir := filepath.Join(ne.dir, "bufconfig-r")
	must(os.MkdirAll(cfgDir, 0o755))
	must(os.WriteFile(filepath.Join(cfgDir, "config.yaml"), []byte("version: v1\ntls:\n  use: \"false\"\n"), 0o600))
	logger := slog.New(slog.NewTextHandler(io.Discard, nil))
	registries := []string{"bsr.test", "eu.bsr.test", "buf.build", "registry.corp.example", "h"}
	statuses := []int{301, 302, 303, 307, 308}
	n := run.N(150, 1500)
	for i := 0; i < n; i++ {
		cr := r.Fork(uint64(i))
		if run.Only >= 0 && run.Only != i {
			continue
		}
		reg := hx.Pick(cr, registries)
		targets := redirectTargets(reg)
		// the configuration: a token for the registry, sometimes also one for a target host, a
		// host-less token, or a .netrc (with or without default)
		names := []string{reg, "other.registry.test", hx.Pick(cr, targets)}
		var bufToken string
		switch cr.Intn(6) {
		case 0:
			bufToken = ""
		case 1:
			bufToken = "tkALL"
		case 2:
			bufToken = "tk0@" + reg + ",tk1@other.registry.test"
		case 3:
			bufToken = "tk0@" + reg + ",tk1@" + names[2]
		default:
			bufToken = "tk0@" + reg
		}
		if kind, _ := specEnv(bufToken); kind == "malformed" {
			bufToken = "tk0@" + reg // a generated target name may not be a valid host for BUF_TOKEN
		}
		es := genEntries(cr, names, "np")
		absent := cr.Chance(1, 3)
		toks := renderNetrc(cr, es, true)
		path := ne.write(toks, absent)
		env := map[string]string{"BUF_CONFIG_DIR": cfgDir, bufconnect.TokenEnvKey: bufToken, "NETRC": path, "HOME": ne.dir}
		nc, err := appext.NewNameContainer(app.NewContainer(env, nil, io.Discard, io.Discard), "buf")
		must(err)
		container := appext.NewContainer(nc, logger)
		srcs := []srcSpec{{static: true, fromEnv: true, token: bufToken}, {es: es, toks: toks, absent: absent}}
		// the redirect chain: 1-3 hops
		chain := []string{reg}
		route := map[string]string{}
		hops := 1 + cr.Intn(3)
		for k := 0; k < hops; k++ {
			next := hx.Pick(cr, targets)
			if k > 0 && cr.Chance(1, 4) {
				next = hx.Pick(cr, redirectTargets(chain[len(chain)-1]))
			}
			if k > 0 && cr.Chance(1, 3) {
				next = reg // back to the registry (after a subdomain: with the token again; after leaving the site: without)
			}
			if _, dup := route[chain[len(chain)-1]]; dup || next == chain[len(chain)-1] {
				break
			}
			route[chain[len(chain)-1]] = fmt.Sprintf("%d %s", hx.Pick(cr, statuses), next)
			chain = append(chain, next)
		}
		nw.program(route)
		input := map[string]any{"BUF_TOKEN": bufToken, "netrc": strings.Join(toks, ""), "netrc_absent": absent, "registry": reg, "redirects": route}
		cfg, cfgErr := bufcli.NewConnectClientConfig(container)
		if cfgErr != nil {
			run.Fail(hx.OracleFailure{Class: "wellformed-token-string-rejected", What: fmt.Sprintf("BUF_TOKEN %q rejected: %v", bufToken, cfgErr), Input: input, Replay: replay(run, "R", i)})
			continue
		}
		panicked := func() (p any) {
			defer func() { p = recover() }()
			client := connectclient.Make(cfg, reg, func(hc connect.HTTPClient, addr string, opts ...connect.ClientOption) *connect.Client[emptypb.Empty, emptypb.Empty] {
				return connect.NewClient[emptypb.Empty, emptypb.Empty](hc, addr+"/verif.v1.Probe/Ping", opts...)
			})
			_, _ = client.CallUnary(ctx, connect.NewRequest(&emptypb.Empty{}))
			return nil
		}()
		run.Eval()
		seen := nw.take()
		if panicked != nil {
			run.Fail(hx.OracleFailure{Class: "panic", What: fmt.Sprintf("request panicked: %v", panicked), Input: input, Replay: replay(run, "R", i)})
			continue
		}
		run.Distinct(fmt.Sprintf("R-%s-%v-%s", reg, route, bufToken))
		run.Count(fmt.Sprintf("R:hops-followed=%d", len(seen)-1))
		if len(seen) == 0 || !strings.EqualFold(seen[0].host, reg) {
			run.Fail(hx.OracleFailure{Class: "request-misrouted", What: fmt.Sprintf("the call for %q was first seen at %v", reg, seen), Input: input, Replay: replay(run, "R", i)})
			continue
		}
		// correspondence: the token every hop carried, against the model's hopHeaders (net/http's
		// copy-to-the-site rule followed by buf's checkRedirect); only when each hop has 0/1 header
		if len(seen) > 1 {
			first, hosts, outs, ok := "none", []string{}, []string{}, true
			tokOf := func(h hop) string {
				if len(h.auth) == 0 {
					return "none"
				}
				if len(h.auth) > 1 || !strings.HasPrefix(h.auth[0], bufconnect.AuthenticationTokenPrefix) {
					ok = false
				}
				return hx.Enc(strings.TrimPrefix(h.auth[0], bufconnect.AuthenticationTokenPrefix))
			}
			first = tokOf(seen[0])
			for _, h := range seen[1:] {
				hosts = append(hosts, h.host)
				outs = append(outs, tokOf(h))
			}
			if ok {
				run.Case("hops\t"+first+"\t"+hx.Enc(reg)+"\t"+encList(hosts), strings.Join(outs, ","), first != "none")
			}
		}
		for k, h := range seen {
			got := ""
			if len(h.auth) > 1 {
				run.Fail(hx.OracleFailure{Class: "several-authorization-headers", What: fmt.Sprintf("hop %d (%s) carries %d Authorization headers", k, h.host, len(h.auth)), Input: input, Replay: replay(run, "R", i)})
				continue
			}
			if len(h.auth) == 1 {
				got = strings.TrimPrefix(h.auth[0], bufconnect.AuthenticationTokenPrefix)
			}
			// host names are case-insensitive and a trailing dot names the same host
			canon := strings.TrimSuffix(strings.ToLower(h.host), ".")
			want, _ := expectedToken(srcs, canon)
			kind := "first-request"
			if k > 0 {
				kind = "redirect-hop"
				if strings.HasSuffix(canon, "."+strings.ToLower(reg)) {
					kind = "subdomain-hop"
				} else if canon == strings.ToLower(reg) {
					kind = "same-host-hop"
				}
			}
			run.Count("R:" + kind + ":" + map[bool]string{true: "with-token", false: "without-token"}[got != ""])
			if k == 0 {
				if got != want {
					in2 := map[string]any{}
					for a, b := range input {
						in2[a] = b
					}
					judgeHeader(run, "R", i, srcs, canon, got, in2)
				}
				continue
			}
			if got == "" || got == want {
				continue // nothing sent, or exactly what is configured for this host
			}
			in2 := map[string]any{"hop": k, "hop_host": h.host, "hops_seen": fmt.Sprint(seen)}
			for a, b := range input {
				in2[a] = b
			}
			in2["got"], in2["want"] = got, want
			run.Fail(hx.OracleFailure{Class: "token-forwarded-on-redirect-" + kind, What: fmt.Sprintf("the registry %q redirected (hop %d) to host %q, which received Authorization token %q; the configuration configures %q for that host", reg, k, h.host, got, want), Input: in2, Replay: replay(run, "R", i)})
		}
	}
}
