// Section E of the C19 harness: clients of SEVERAL registries made from ONE shared
// connectclient.Config — concurrently, nested, and sequentially.
//
// Seed C19-m5 (WithInterceptors stores a slice with spare capacity, Make appends the per-address
// authorization interceptor onto that SHARED slice without cloning) went unnoticed because
// section D builds its clients one after the other and the generated connect constructors copy
// the chain eagerly: only when a second Make for another address runs between the append of the
// first Make and its factory call does the client of registry A end up with the authorization
// interceptor of registry B — and then every request to A carries B's token.
//
// One config per round, built exactly as buf does (bufcli.NewConnectClientConfig over a
// container with BUF_TOKEN = token@host entries for some of four loopback registries and a
// .netrc with machines for others, optionally a default entry or a host-less token); then
//
//	variant "concurrent": two goroutines per registry call connectclient.Make at the same
//	    instant (barrier), with runtime.Gosched / sleep perturbation drawn from the case seed
//	    before Make and inside the stub factory (between Make's append and connect.NewClient
//	    reading the options); then every client sends several requests, concurrently;
//	variant "nested": deterministic — the stub factory of registry A itself calls Make for B,
//	    whose factory calls Make for C, ...: the interleaving of the seed without a scheduler;
//	variant "sequential": Make for A, B, C, D in turn, then the clients are USED in reverse
//	    order (catches state kept per config instead of per client: a cached first address, a
//	    lazily bound interceptor).
//
// Oracle (judgeHeader, the same independent re-statement as section D): every request that
// reaches registry X carries exactly the token configured for X, or none.  The model is
// sequential and pure (Token.chainAuth is a function of configuration and address); its tie to
// concurrent construction is this section: one `chain` line per (round, registry), carrying
// the WORST header that registry saw.
package main

import (
	"fmt"
	"io"
	"log/slog"
	"net/http"
	"os"
	"path/filepath"
	"runtime"
	"strings"
	"sync"
	"time"

	"connectrpc.com/connect"
	"github.com/bufbuild/buf/private/buf/bufcli"
	"github.com/bufbuild/buf/private/bufpkg/bufconnect"
	"github.com/bufbuild/buf/private/pkg/app"
	"github.com/bufbuild/buf/private/pkg/app/appext"
	"github.com/bufbuild/buf/private/pkg/connectclient"
	"github.com/bufbuild/verifharness/internal/hx"
	"google.golang.org/protobuf/types/known/emptypb"
)

type pingClient = *connect.Client[emptypb.Empty, emptypb.Empty]

// perturb yields / sleeps as drawn from r (r is owned by the calling goroutine).
func perturb(r *hx.Rand) {
	switch r.Intn(4) {
	case 0:
	case 1:
		for k := r.Intn(8); k >= 0; k-- {
			runtime.Gosched()
		}
	case 2:
		time.Sleep(time.Duration(r.Intn(200)) * time.Microsecond)
	default:
		runtime.Gosched()
		time.Sleep(time.Duration(r.Intn(50)) * time.Microsecond)
	}
}

func sectionE(run *hx.Run, r *hx.Rand, ne *netrcEnv) {
	regs := []*registry{newRegistry("A"), newRegistry("B"), newRegistry("C"), newRegistry("D")}
	defer func() {
		for _, g := range regs {
			g.srv.Close()
		}
	}()
	cfgDir := filepath.Join(ne.dir, "bufconfig")
	must(os.MkdirAll(cfgDir, 0o755))
	must(os.WriteFile(filepath.Join(cfgDir, "config.yaml"), []byte("version: v1\ntls:\n  use: \"false\"\n"), 0o600))
	logger := slog.New(slog.NewTextHandler(io.Discard, nil))
	variants := []string{"concurrent", "concurrent", "nested", "concurrent", "sequential"}
	n := run.N(250, 2500)
	for i := 0; i < n; i++ {
		cr := r.Fork(uint64(i))
		if run.Only >= 0 && run.Only != i {
			continue
		}
		variant := variants[i%len(variants)]
		// configuration: every registry gets its credential from BUF_TOKEN, from .netrc, from both
		// (BUF_TOKEN wins) or from nowhere; all secrets differ
		var envEntries []string
		var es []nEntry
		for gi, g := range regs {
			how := cr.Intn(4)
			if how == 0 || how == 2 {
				envEntries = append(envEntries, fmt.Sprintf("e%dx%s@%s", i, g.name, g.addr))
			}
			if how == 1 || how == 2 {
				es = append(es, nEntry{name: g.addr, login: "l", hasLogin: true, password: fmt.Sprintf("n%dx%s", i, g.name)})
			}
			_ = gi
		}
		hx.Shuffle(cr, envEntries)
		hx.Shuffle(cr, es)
		bufToken := strings.Join(envEntries, ",")
		if cr.Chance(1, 10) {
			bufToken = fmt.Sprintf("hostless%d", i) // by design sent to every host
		}
		if cr.Chance(1, 5) {
			es = append(es, nEntry{isDefault: true, login: "l", hasLogin: true, password: fmt.Sprintf("d%d", i)})
		}
		toks := renderNetrc(cr, es, true)
		path := ne.write(toks, false)
		env := map[string]string{"BUF_CONFIG_DIR": cfgDir, bufconnect.TokenEnvKey: bufToken, "NETRC": path, "HOME": ne.dir}
		base := app.NewContainer(env, nil, io.Discard, io.Discard)
		nc, err := appext.NewNameContainer(base, "buf")
		must(err)
		container := appext.NewContainer(nc, logger)
		regMap := map[string]string{}
		for _, g := range regs {
			regMap[g.name] = g.addr
		}
		input := map[string]any{"BUF_TOKEN": bufToken, "netrc": strings.Join(toks, ""), "registries": regMap, "variant": variant}
		srcs := []srcSpec{{static: true, fromEnv: true, token: bufToken}, {es: es, toks: toks}}
		cfg, cfgErr := bufcli.NewConnectClientConfig(container)
		if cfgErr != nil {
			run.Fail(hx.OracleFailure{Class: "wellformed-token-string-rejected", What: fmt.Sprintf("BUF_TOKEN %q rejected: %v", bufToken, cfgErr), Input: input, Replay: replay(run, "E", i)})
			continue
		}
		type made struct {
			reg    int
			client pingClient
		}
		var clients []made
		var panics []string
		var mu sync.Mutex
		guard := func(f func()) {
			defer func() {
				if p := recover(); p != nil {
					mu.Lock()
					panics = append(panics, fmt.Sprint(p))
					mu.Unlock()
				}
			}()
			f()
		}
		reqsPerClient := 3
		callErrs := make([]error, len(regs))
		call := func(m made) {
			for k := 0; k < reqsPerClient; k++ {
				_, cerr := m.client.CallUnary(ctx, connect.NewRequest(&emptypb.Empty{}))
				mu.Lock()
				callErrs[m.reg] = cerr
				mu.Unlock()
			}
		}
		switch variant {
		case "concurrent":
			perReg := 2
			start := make(chan struct{})
			var wg sync.WaitGroup
			for gi := range regs {
				for c := 0; c < perReg; c++ {
					wg.Add(1)
					gr := cr.Fork(uint64(1000 + gi*10 + c))
					go func(gi int) {
						defer wg.Done()
						<-start
						guard(func() {
							perturb(gr)
							cl := connectclient.Make(cfg, regs[gi].addr, func(hc connect.HTTPClient, addr string, opts ...connect.ClientOption) pingClient {
								perturb(gr)
								return pingFactory(hc, addr, opts...)
							})
							mu.Lock()
							clients = append(clients, made{gi, cl})
							mu.Unlock()
						})
					}(gi)
				}
			}
			close(start)
			wg.Wait()
			var wg2 sync.WaitGroup
			for _, m := range clients {
				wg2.Add(1)
				go func(m made) {
					defer wg2.Done()
					guard(func() { call(m) })
				}(m)
			}
			wg2.Wait()
		case "nested":
			// Make(A) -> factory -> Make(B) -> factory -> Make(C) -> ...
			order := []int{0, 1, 2, 3}
			hx.Shuffle(cr, order)
			var build func(pos int)
			build = func(pos int) {
				gi := order[pos]
				cl := connectclient.Make(cfg, regs[gi].addr, func(hc connect.HTTPClient, addr string, opts ...connect.ClientOption) pingClient {
					if pos+1 < len(order) {
						build(pos + 1)
					}
					return pingFactory(hc, addr, opts...)
				})
				clients = append(clients, made{gi, cl})
			}
			guard(func() { build(0) })
			for _, m := range clients {
				guard(func() { call(m) })
			}
		default:
			order := []int{0, 1, 2, 3}
			hx.Shuffle(cr, order)
			guard(func() {
				for _, gi := range order {
					clients = append(clients, made{gi, connectclient.Make(cfg, regs[gi].addr, pingFactory)})
				}
			})
			for k := len(clients) - 1; k >= 0; k-- {
				m := clients[k]
				guard(func() { call(m) })
			}
		}
		run.Count("E:variant:" + variant)
		if len(panics) > 0 {
			run.Fail(hx.OracleFailure{Class: "panic", What: "making or using clients of one shared config panicked: " + panics[0], Input: input, Replay: replay(run, "E", i)})
			for _, g := range regs {
				g.take()
			}
			continue
		}
		perRegClients := map[int]int{}
		for _, m := range clients {
			perRegClients[m.reg]++
		}
		for gi, g := range regs {
			hits, hosts := g.take()
			want, wsrc := expectedToken(srcs, g.addr)
			run.Count([]string{"E:no-token", "E:token-from-BUF_TOKEN", "E:token-from-netrc"}[wsrc+1])
			if len(hits) != perRegClients[gi]*reqsPerClient {
				run.Fail(hx.OracleFailure{Class: "request-misrouted", What: fmt.Sprintf("registry %s received %d requests, %d clients x %d requests were sent to it", g.name, len(hits), perRegClients[gi], reqsPerClient), Input: input, Replay: replay(run, "E", i)})
			}
			// the worst header this registry saw: one that differs from the configured token, if any
			var worst http.Header
			bad := 0
			for k, h := range hits {
				if hosts[k] != g.addr {
					run.Fail(hx.OracleFailure{Class: "request-misrouted", What: fmt.Sprintf("registry %s received a request for Host %q", g.name, hosts[k]), Input: input, Replay: replay(run, "E", i)})
				}
				_, raw, _ := renderObservation(h, nil, g.addr)
				run.Eval()
				if raw != want {
					bad++
					if worst == nil {
						worst = h
					}
				}
			}
			if worst == nil && len(hits) > 0 {
				worst = hits[0]
			}
			out, raw, _ := renderObservation(worst, callErrs[gi], g.addr)
			run.Case("chain\t"+hx.Enc(bufToken)+"\t"+fileField(toks, false)+"\t"+hx.Enc(g.addr), out, raw != "")
			if bad > 0 {
				in := map[string]any{}
				for k, v := range input {
					in[k] = v
				}
				in["registry"] = g.name
				in["requests_with_wrong_credential"] = fmt.Sprintf("%d of %d", bad, len(hits))
				judgeHeader(run, "E", i, srcs, g.addr, raw, in)
			}
		}
		if i < 2 {
			run.Sample(input)
		}
	}
}
