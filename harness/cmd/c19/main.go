// Command c19 is the correspondence + oracle harness for property C19
// ("credentials are only sent to the registry they were configured for").
//
// Section A  BUF_TOKEN strings: every string over {t,u,h,g,@,',',:} up to a length bound, plus
//
//	random longer ones, through bufconnect.NewTokenProviderFromString /
//	NewTokenProviderFromContainer; RemoteToken is asked for a fixed host list plus every
//	piece of the string itself.
//
// Section B  generated .netrc files (several machines, default entry, field order / layout
//
//	variations) written to disk and read through the real netrc token provider.
//
// Section K  a small deterministic family of .netrc files in which a VALUE is spelled like a
//
//	keyword ("default" / "machine").
//
// Section C  the real interceptor (bufconnect.NewAuthorizationInterceptorProvider) invoked on a
//
//	connect request with 1-4 providers.
//
// Section D  the whole chain: bufcli.NewConnectClientConfig (BUF_TOKEN + NETRC from the
//
//	container) -> connectclient.Make -> a unary call against three loopback HTTP
//	servers standing in for registries; the Authorization header each server receives
//	is what the oracle judges.
//
// Every case is one protocol line answered by the Lean model (lean/Driver/C19.lean).  The
// oracle functions (oracle*) never look at the model: they restate the property on the
// generator's structured input.
package main

import (
	"context"
	"errors"
	"fmt"
	"io"
	"log/slog"
	"net/http"
	"net/http/httptest"
	"os"
	"path/filepath"
	"sort"
	"strings"
	"sync"

	"connectrpc.com/connect"
	"github.com/bufbuild/buf/private/buf/bufcli"
	"github.com/bufbuild/buf/private/bufpkg/bufconnect"
	"github.com/bufbuild/buf/private/pkg/app"
	"github.com/bufbuild/buf/private/pkg/app/appext"
	"github.com/bufbuild/buf/private/pkg/connectclient"
	"github.com/bufbuild/buf/private/pkg/netrc"
	"github.com/bufbuild/verifharness/internal/hx"
	"google.golang.org/protobuf/types/known/emptypb"
)

var ctx = context.Background()

func must(err error) {
	if err != nil {
		panic(err)
	}
}

func replay(run *hx.Run, section string, idx int) string {
	return fmt.Sprintf("harness c19 --seed %d --tier %s --only %d   # section %s", run.Seed, run.Tier, idx, section)
}

func b2s(b bool) string {
	if b {
		return "1"
	}
	return "0"
}

func encList(xs []string) string {
	if len(xs) == 0 {
		return "empty"
	}
	out := make([]string, len(xs))
	for i, x := range xs {
		out[i] = hx.Enc(x)
	}
	return strings.Join(out, ",")
}

// ---------------------------------------------------------------------------------------------
// Section A: BUF_TOKEN strings

// errClass maps the error of newTokenProviderFromString to the model's enum by the fixed part
// of the message (the package exposes no sentinel errors).
func errClass(err error) string {
	m := err.Error()
	switch {
	case strings.Contains(m, ", repeated remote address: "):
		return "repeated"
	case strings.HasPrefix(m, "invalid token: ") && strings.HasSuffix(m, ", token cannot contain special character `:`"):
		return "colon"
	case strings.HasPrefix(m, "invalid token: ") && strings.HasSuffix(m, ", token cannot contain special character `,`"):
		return "comma"
	case m == "token cannot contain special character `@`":
		return "single-at"
	case m == "token cannot contain special character `,`":
		return "single-comma"
	case m == "single token cannot be empty":
		return "single-empty"
	case strings.HasPrefix(m, "invalid token: "):
		return "invalid"
	}
	return "unknown"
}

func kindOf(tp bufconnect.TokenProvider) string {
	t := fmt.Sprintf("%T", tp)
	switch {
	case strings.HasSuffix(t, "nopTokenProvider"):
		return "nop"
	case strings.HasSuffix(t, "singleTokenProvider"):
		return "single"
	case strings.HasSuffix(t, "multipleTokenProvider"):
		return "multi"
	}
	return "unknown:" + t
}

var fixedHosts = []string{"", "h", "g", "hg", "t", "h:"}

// hostsFor = fixed hosts + every piece of s when cut at ',' and '@' (so every map key is asked).
func hostsFor(s string) []string {
	seen := map[string]bool{}
	var hosts []string
	add := func(h string) {
		if !seen[h] {
			seen[h] = true
			hosts = append(hosts, h)
		}
	}
	for _, h := range fixedHosts {
		add(h)
	}
	for _, p := range strings.FieldsFunc(s, func(r rune) bool { return r == ',' || r == '@' }) {
		add(p)
	}
	return hosts
}

func newProvider(s string, fromEnv bool) (tp bufconnect.TokenProvider, err error) {
	if fromEnv {
		return bufconnect.NewTokenProviderFromContainer(app.NewEnvContainer(map[string]string{bufconnect.TokenEnvKey: s}))
	}
	return bufconnect.NewTokenProviderFromString(s)
}

// specEntry is the property's reading of one `token@host` entry.
type specEntry struct {
	token, host string
	ok          bool
}

func specParseEntry(e string) specEntry {
	if strings.Count(e, "@") != 1 {
		return specEntry{}
	}
	i := strings.IndexByte(e, '@')
	tok, host := e[:i], e[i+1:]
	if tok == "" || host == "" || strings.ContainsAny(tok, ":,") {
		return specEntry{}
	}
	return specEntry{token: tok, host: host, ok: true}
}

// specEnv restates what a BUF_TOKEN value configures.  kind: "none" (empty), "hostless",
// "hosts" (map host->token), "malformed".
func specEnv(s string) (kind string, m map[string]string) {
	if s == "" {
		return "none", nil
	}
	if !strings.ContainsAny(s, ",@") {
		return "hostless", nil
	}
	m = map[string]string{}
	for _, e := range strings.Split(s, ",") {
		se := specParseEntry(e)
		if !se.ok {
			return "malformed", nil
		}
		if _, dup := m[se.host]; dup {
			return "malformed", nil
		}
		m[se.host] = se.token
	}
	return "hosts", m
}

func tokCase(run *hx.Run, idx int, s string, fromEnv bool, tag string) {
	hosts := hostsFor(s)
	in := "tok\t" + b2s(fromEnv) + "\t" + hx.Enc(s) + "\t" + encList(hosts)
	nontrivial := strings.ContainsAny(s, ",@")
	var out string
	var toks []string
	var tp bufconnect.TokenProvider
	var err error
	panicked := func() (p any) {
		defer func() { p = recover() }()
		tp, err = newProvider(s, fromEnv)
		if err == nil {
			for _, h := range hosts {
				toks = append(toks, tp.RemoteToken(h))
			}
		}
		return nil
	}()
	switch {
	case panicked != nil:
		out = "panic"
		run.Fail(hx.OracleFailure{Class: "panic", What: fmt.Sprintf("token provider panicked on %q: %v", s, panicked),
			Input: map[string]any{"buf_token": s}, Replay: replay(run, "A", idx)})
	case err != nil:
		out = "err " + errClass(err)
		run.Count("A:" + out)
	default:
		out = "ok " + kindOf(tp) + " " + b2s(tp.IsFromEnvVar()) + " " + encList(toks)
		run.Count("A:ok " + kindOf(tp))
	}
	run.Case(in, out, nontrivial)
	if panicked != nil {
		return
	}
	// ---- oracle (implementation only)
	fail := func(class, what string) {
		run.Fail(hx.OracleFailure{Class: class, What: what, Input: map[string]any{"buf_token": s, "from_env": fromEnv, "section": tag}, Replay: replay(run, "A", idx)})
	}
	kind, m := specEnv(s)
	if err != nil {
		if kind != "malformed" {
			fail("wellformed-token-string-rejected", fmt.Sprintf("BUF_TOKEN %q is well formed (%s) but was rejected: %v", s, kind, err))
		}
		return
	}
	if kind == "malformed" {
		fail("malformed-token-string-accepted", fmt.Sprintf("BUF_TOKEN %q has a malformed or repeated entry but a provider was built (kind %s)", s, kindOf(tp)))
	}
	entries := map[string]bool{}
	for _, e := range strings.Split(s, ",") {
		entries[e] = true
	}
	for i, h := range hosts {
		t := toks[i]
		switch kind {
		case "none":
			if t != "" {
				fail("unconfigured-token-sent", fmt.Sprintf("empty BUF_TOKEN but host %q gets token %q", h, t))
			}
		case "hostless":
			if t != s {
				fail("hostless-token-not-applied", fmt.Sprintf("host-less BUF_TOKEN %q but host %q gets %q", s, h, t))
			}
		default:
			if t != "" && !entries[t+"@"+h] {
				fail("token-sent-to-unconfigured-host", fmt.Sprintf("BUF_TOKEN %q: host %q gets token %q but there is no entry %q", s, h, t, t+"@"+h))
			}
			if kind == "hosts" && m[h] != t {
				fail("configured-token-not-served", fmt.Sprintf("BUF_TOKEN %q: host %q should get %q, got %q", s, h, m[h], t))
			}
		}
	}
}

func enumerate(alphabet []byte, maxLen int, f func(string)) {
	var rec func(prefix []byte)
	rec = func(prefix []byte) {
		f(string(prefix))
		if len(prefix) == maxLen {
			return
		}
		for _, c := range alphabet {
			rec(append(prefix, c))
		}
	}
	rec(nil)
}

var tokAtoms = []string{"t", "u", "tok1", "a1B2c3", "t:u", "", "x.y-z", "é", "tok1", "0123456789abcdef", ":"}
var hostAtoms = []string{"h", "g", "buf.build", "h:8080", "", "buf.build", "eu.buf.build", "H", "h.", "127.0.0.1:9", "@h"}

func randomTokenString(r *hx.Rand) string {
	n := 1 + r.Intn(5)
	parts := make([]string, n)
	for i := range parts {
		switch r.Intn(12) {
		case 0:
			parts[i] = hx.Pick(r, tokAtoms) // no '@'
		case 1:
			parts[i] = hx.Pick(r, tokAtoms) + "@" + hx.Pick(r, hostAtoms) + "@" + hx.Pick(r, hostAtoms)
		case 2:
			parts[i] = ""
		default:
			parts[i] = hx.Pick(r, tokAtoms) + "@" + hx.Pick(r, hostAtoms)
		}
	}
	return strings.Join(parts, ",")
}

func sectionA(run *hx.Run, r *hx.Rand) {
	idx := 0
	full := run.N(6, 7)
	enumerate([]byte("tuhg@,:"), full, func(s string) {
		tokCase(run, idx, s, idx%2 == 1, "exhaustive7")
		idx++
	})
	{
		// the next length(s) over the reduced alphabet {t,h,@,',',:}: 7 (quick; the shortest
		// string with a repeated host, "t@h,t@h", has length 7) / 8 (thorough)
		enumerate([]byte("th@,:"), full+1, func(s string) {
			if len(s) == full+1 {
				tokCase(run, idx, s, idx%2 == 1, "exhaustive5")
				idx++
			}
		})
	}
	run.Set("A_exhaustive_strings", idx)
	n := run.N(20000, 100000)
	for i := 0; i < n; i++ {
		cr := r.Fork(uint64(i))
		tokCase(run, idx, randomTokenString(cr), cr.Bool(), "random")
		idx++
	}
}

// ---------------------------------------------------------------------------------------------
// Section B / K: .netrc files

type nEntry struct {
	name      string // "" with isDefault
	isDefault bool
	login     string
	password  string
	hasLogin  bool
	pwFirst   bool
	noPw      bool // a login-only stub (`machine h login anonymous`): the entry IS the host's entry and has nothing to send
}

// tokenBuilder builds a netrc text as the alternating word / whitespace token list go-netrc's
// lexer produces for it (adjacent whitespace merges into one token).
type tokenBuilder struct{ toks []string }

func isWS(s string) bool { return s != "" && strings.TrimLeft(s, " \t\n") == "" }

func (b *tokenBuilder) space(ws string) {
	if n := len(b.toks); n > 0 && isWS(b.toks[n-1]) {
		b.toks[n-1] += ws
		return
	}
	b.toks = append(b.toks, ws)
}
func (b *tokenBuilder) word(w string) {
	if n := len(b.toks); n > 0 && !isWS(b.toks[n-1]) {
		panic("two words without whitespace")
	}
	b.toks = append(b.toks, w)
}

var wsInline = []string{" ", " ", " ", "  ", "\t"}
var wsField = []string{" ", " ", "\n  ", "\n\t", "\n"}

func renderNetrc(r *hx.Rand, es []nEntry, plain bool) []string {
	b := &tokenBuilder{}
	if !plain && r.Chance(1, 8) {
		b.space("\n")
	}
	for i, e := range es {
		in := func() string {
			if plain {
				return " "
			}
			return hx.Pick(r, wsInline)
		}
		fs := func() string {
			if plain {
				return " "
			}
			return hx.Pick(r, wsField)
		}
		if e.isDefault {
			b.word("default")
		} else {
			b.word("machine")
			b.space(in())
			b.word(e.name)
		}
		login := func() {
			if e.hasLogin {
				b.space(fs())
				b.word("login")
				b.space(in())
				b.word(e.login)
			}
		}
		pw := func() {
			if e.noPw {
				return
			}
			b.space(fs())
			b.word("password")
			b.space(in())
			b.word(e.password)
		}
		if e.pwFirst {
			pw()
			login()
		} else {
			login()
			pw()
		}
		if i < len(es)-1 || plain || r.Chance(3, 4) {
			b.space("\n")
			if !plain && r.Chance(1, 6) {
				b.space("\n")
			}
		}
	}
	return b.toks
}

// specNetrc: the netrc reading of a lookup — first entry for exactly this machine, else the
// first default entry, else nothing.
func specNetrc(es []nEntry, host string) (pw string, from int) {
	for i, e := range es {
		if !e.isDefault && e.name == host {
			return e.password, i
		}
	}
	for i, e := range es {
		if e.isDefault {
			return e.password, i
		}
	}
	return "", -1
}

func isKeyword(s string) bool { return s == "default" || s == "machine" }

func hasKeywordValue(es []nEntry) bool {
	for _, e := range es {
		if (e.hasLogin && isKeyword(e.login)) || isKeyword(e.password) || (!e.isDefault && isKeyword(e.name)) {
			return true
		}
	}
	return false
}

type netrcEnv struct {
	dir string
	n   int
}

func (ne *netrcEnv) write(toks []string, absent bool) string {
	ne.n++
	p := filepath.Join(ne.dir, fmt.Sprintf("netrc-%d", ne.n%64))
	os.Remove(p)
	if !absent {
		must(os.WriteFile(p, []byte(strings.Join(toks, "")), 0o600))
	}
	return p
}

func fileField(toks []string, absent bool) string {
	if absent {
		return "absent"
	}
	return encList(toks)
}

func describe(es []nEntry) []map[string]any {
	var out []map[string]any
	for _, e := range es {
		m := map[string]any{"password": e.password}
		if e.noPw {
			m = map[string]any{"no_password": true}
		}
		if e.isDefault {
			m["default"] = true
		} else {
			m["machine"] = e.name
		}
		if e.hasLogin {
			m["login"] = e.login
		}
		out = append(out, m)
	}
	return out
}

// judgeNetrc is the oracle for a token the netrc provider returned for `host`.
func judgeNetrc(run *hx.Run, section string, idx int, es []nEntry, text string, host, got string) {
	want, _ := specNetrc(es, host)
	if got == want {
		return
	}
	input := map[string]any{"netrc": text, "entries": describe(es), "host": host, "got": got, "want": want}
	class := "netrc-lookup-wrong"
	what := fmt.Sprintf(".netrc lookup for %q returned %q, the file configures %q", host, got, want)
	if _, from := specNetrc(es, host); got != "" && from >= 0 && !es[from].isDefault {
		for _, e := range es {
			if e.isDefault && e.password == got {
				class = "netrc-default-sent-despite-own-entry"
				what = fmt.Sprintf("host %q has its own machine entry (%s), yet the password %q of the `default` entry is sent to it", host, map[bool]string{true: "a login-only stub without password", false: "with another password"}[es[from].noPw], got)
			}
		}
	}
	if got != "" && class == "netrc-lookup-wrong" {
		for _, e := range es {
			if e.password == got && !e.isDefault && e.name != host {
				class = "netrc-token-sent-to-other-host"
				what = fmt.Sprintf(".netrc password %q configured for machine %q is sent to host %q", got, e.name, host)
				if hasKeywordValue(es) {
					class = "netrc-keyword-value-leak"
					what += " (a login/password VALUE spelled \"default\"/\"machine\" is taken for a keyword by go-netrc)"
				}
				break
			}
		}
	} else if got == "" && hasKeywordValue(es) {
		// the token is withheld, not leaked: not a violation of this property; counted only
		run.Count(section + ":keyword-value-token-withheld")
		return
	}
	run.Fail(hx.OracleFailure{Class: class, What: what, Input: input, Replay: replay(run, section, idx)})
}

func netrcCase(run *hx.Run, ne *netrcEnv, section string, idx int, es []nEntry, toks []string, absent bool, hosts []string, expectPanicOK bool) {
	path := ne.write(toks, absent)
	tp := bufconnect.NewNetrcTokenProvider(app.NewEnvContainer(map[string]string{"NETRC": path}), netrc.GetMachineForName)
	var got []string
	panicked := func() (p any) {
		defer func() { p = recover() }()
		for _, h := range hosts {
			got = append(got, tp.RemoteToken(h))
		}
		return nil
	}()
	in := "netrc\t" + fileField(toks, absent) + "\t" + encList(hosts)
	text := strings.Join(toks, "")
	if panicked != nil {
		run.Case(in, "panic", true)
		run.Count(section + ":panic")
		if !expectPanicOK {
			run.Fail(hx.OracleFailure{Class: "panic", What: fmt.Sprintf("netrc provider panicked: %v", panicked),
				Input: map[string]any{"netrc": text}, Replay: replay(run, section, idx)})
		}
		return
	}
	run.Case(in, "ok "+encList(got), len(es) > 0)
	for i, h := range hosts {
		_, from := specNetrc(es, h)
		switch {
		case absent:
			run.Count(section + ":absent")
		case from < 0:
			run.Count(section + ":no-match")
		case es[from].isDefault:
			run.Count(section + ":default")
		default:
			run.Count(section + ":exact")
		}
		if absent {
			if got[i] != "" {
				run.Fail(hx.OracleFailure{Class: "unconfigured-token-sent", What: "no .netrc file but a token was returned", Input: map[string]any{"host": h, "got": got[i]}, Replay: replay(run, section, idx)})
			}
			continue
		}
		judgeNetrc(run, section, idx, es, text, h, got[i])
	}
}

var machineNames = []string{"h", "g", "buf.build", "h:8080", "eu.buf.build", "H", "127.0.0.1:9", "hh"}
var valueWords = []string{"l", "user", "p1", "tokA", "s3cr3t", "é", "pass=word", "x@y", "a,b", "logins", "passwords", "Default", "machines"}

func genEntries(r *hx.Rand, names []string, tag string) []nEntry {
	n := r.Intn(5)
	es := make([]nEntry, 0, n+1)
	for i := 0; i < n; i++ {
		e := nEntry{name: hx.Pick(r, names), login: hx.Pick(r, valueWords), hasLogin: !r.Chance(1, 6), pwFirst: r.Chance(1, 4)}
		e.password = fmt.Sprintf("%s%d-%s", tag, i, hx.Pick(r, valueWords))
		if r.Chance(1, 5) {
			// password-less stub; keep a login so that the entry is not empty
			e.noPw, e.password, e.hasLogin = true, "", true
		}
		es = append(es, e)
	}
	if r.Chance(1, 2) {
		d := nEntry{isDefault: true, login: hx.Pick(r, valueWords), hasLogin: !r.Chance(1, 6), pwFirst: r.Chance(1, 4), password: tag + "D-" + hx.Pick(r, valueWords)}
		if r.Chance(1, 10) {
			d.noPw, d.password, d.hasLogin = true, "", true
		}
		at := r.Intn(len(es) + 1)
		if r.Chance(2, 3) {
			at = len(es)
		}
		es = append(es[:at], append([]nEntry{d}, es[at:]...)...)
	}
	return es
}

func netrcHosts(es []nEntry) []string {
	seen := map[string]bool{}
	var hs []string
	add := func(h string) {
		if !seen[h] {
			seen[h] = true
			hs = append(hs, h)
		}
	}
	for _, e := range es {
		if !e.isDefault {
			add(e.name)
		}
	}
	for _, h := range []string{"h", "other.example", "default", "", "machine"} {
		add(h)
	}
	return hs
}

func sectionB(run *hx.Run, r *hx.Rand, ne *netrcEnv) {
	n := run.N(6000, 40000)
	for i := 0; i < n; i++ {
		cr := r.Fork(uint64(i))
		if run.Only >= 0 && run.Only != i {
			continue
		}
		es := genEntries(cr, machineNames, "np")
		absent := cr.Chance(1, 40)
		toks := renderNetrc(cr, es, cr.Chance(1, 3))
		netrcCase(run, ne, "B", i, es, toks, absent, netrcHosts(es), false)
		if i < 3 {
			run.Sample(map[string]any{"section": "B", "netrc": strings.Join(toks, ""), "hosts": netrcHosts(es)})
		}
	}
}

// sectionK: values spelled like keywords.  go-netrc opens a new group at EVERY token equal to
// "machine"/"default", also in value position.
func sectionK(run *hx.Run, ne *netrcEnv) {
	r := hx.NewRand(19)
	cases := [][]nEntry{
		{{name: "h", login: "default", hasLogin: true, password: "np0-secret"}},
		{{name: "h", login: "default", hasLogin: true, password: "np0-secret"}, {name: "g", login: "l", hasLogin: true, password: "np1-other"}},
		{{name: "g", login: "l", hasLogin: true, password: "np0-other"}, {name: "h", login: "default", hasLogin: true, password: "np1-secret"}},
		{{name: "h", login: "default", hasLogin: true, password: "np0-secret"}, {isDefault: true, login: "l", hasLogin: true, password: "npD-dflt"}},
		{{name: "h", login: "machine", hasLogin: true, password: "np0-secret"}},
		{{name: "h", login: "machine", hasLogin: true, password: "np0-secret"}, {name: "g", login: "l", hasLogin: true, password: "np1-other"}},
		{{name: "h", login: "l", hasLogin: true, password: "default"}, {name: "g", login: "l", hasLogin: true, password: "np1-other"}},
		{{name: "h", login: "l", hasLogin: true, password: "machine"}, {name: "g", login: "l", hasLogin: true, password: "np1-other"}},
		{{name: "h", login: "l", hasLogin: true, password: "machine"}},
		{{name: "default", login: "l", hasLogin: true, password: "np0-secret"}},
		{{name: "machine", login: "l", hasLogin: true, password: "np0-secret"}, {name: "g", login: "l", hasLogin: true, password: "np1-other"}},
	}
	for i, es := range cases {
		if run.Only >= 0 && run.Only != i {
			continue
		}
		toks := renderNetrc(r, es, true)
		netrcCase(run, ne, "K", i, es, toks, false, netrcHosts(es), true)
	}
}

// ---------------------------------------------------------------------------------------------
// Section C: the interceptor itself

type srcSpec struct {
	static  bool
	fromEnv bool
	token   string
	es      []nEntry
	toks    []string
	absent  bool
}

func observeInterceptor(provider func(string) connect.UnaryInterceptorFunc, address string) (out string, hdr string, panicked any) {
	defer func() {
		if p := recover(); p != nil {
			panicked = p
			out = "panic"
		}
	}()
	var seen http.Header
	next := connect.UnaryFunc(func(_ context.Context, req connect.AnyRequest) (connect.AnyResponse, error) {
		seen = req.Header().Clone()
		return nil, connect.NewError(connect.CodeUnauthenticated, errors.New("no"))
	})
	req := connect.NewRequest(&emptypb.Empty{})
	_, err := provider(address)(next)(ctx, req)
	return renderObservation(seen, err, address)
}

func renderObservation(seen http.Header, err error, address string) (string, string, any) {
	vals := seen.Values(bufconnect.AuthenticationHeader)
	h := "none"
	raw := ""
	switch {
	case len(vals) == 0:
	case len(vals) > 1:
		h = fmt.Sprintf("multiple:%d", len(vals))
		raw = strings.Join(vals, "|")
	case !strings.HasPrefix(vals[0], bufconnect.AuthenticationTokenPrefix):
		h = "noprefix:" + hx.Enc(vals[0])
		raw = vals[0]
	default:
		raw = strings.TrimPrefix(vals[0], bufconnect.AuthenticationTokenPrefix)
		h = hx.Enc(raw)
		if raw == "" {
			h = "emptybearer"
		}
	}
	ae, ok := bufconnect.AsAuthError(err)
	if !ok {
		return "hdr " + h + " noautherror", raw, nil
	}
	if ae.Remote() != address {
		return "hdr " + h + " wrongremote", raw, nil
	}
	return "hdr " + h + " " + b2s(ae.HasToken()) + " " + b2s(ae.TokenEnvKey() == bufconnect.TokenEnvKey), raw, nil
}

// allowedFor: the tokens the configuration `srcs` legitimately configures for `host`, in source order.
func expectedToken(srcs []srcSpec, host string) (tok string, src int) {
	for i, s := range srcs {
		if s.static {
			kind, m := specEnv(s.token)
			switch kind {
			case "hostless":
				return s.token, i
			case "hosts":
				if t := m[host]; t != "" {
					return t, i
				}
			}
			continue
		}
		if s.absent {
			continue
		}
		if pw, _ := specNetrc(s.es, host); pw != "" {
			return pw, i
		}
	}
	return "", -1
}

// judgeHeader is the oracle for an Authorization token observed for `host`.
func judgeHeader(run *hx.Run, section string, idx int, srcs []srcSpec, host, got string, input map[string]any) {
	want, wsrc := expectedToken(srcs, host)
	if got == want {
		return
	}
	fail := func(class, what string) {
		input["host"] = host
		input["got"] = got
		input["want"] = want
		run.Fail(hx.OracleFailure{Class: class, What: what, Input: input, Replay: replay(run, section, idx)})
	}
	if got == "" {
		fail("configured-token-not-sent", fmt.Sprintf("host %q: source %d configures token %q but no Authorization header was sent", host, wsrc, want))
		return
	}
	// where does `got` come from?
	for i, s := range srcs {
		if s.static {
			kind, m := specEnv(s.token)
			if kind == "hosts" {
				for h, t := range m {
					if t == got && h != host {
						fail("token-sent-to-unconfigured-host", fmt.Sprintf("token %q configured for %q (source %d) was sent to %q", got, h, i, host))
						return
					}
				}
				if m[host] == got {
					fail("source-order-violated", fmt.Sprintf("host %q got %q from source %d although source %d configures %q", host, got, i, wsrc, want))
					return
				}
			}
			if kind == "hostless" && s.token == got {
				fail("source-order-violated", fmt.Sprintf("host %q got host-less %q from source %d although source %d configures %q", host, got, i, wsrc, want))
				return
			}
			continue
		}
		for _, e := range s.es {
			if e.password == got {
				if !e.isDefault && e.name != host {
					class := "netrc-token-sent-to-other-host"
					if hasKeywordValue(s.es) {
						class = "netrc-keyword-value-leak"
					}
					fail(class, fmt.Sprintf(".netrc password %q of machine %q (source %d) was sent to %q", got, e.name, i, host))
					return
				}
				fail("source-order-violated", fmt.Sprintf("host %q got %q from source %d although source %d configures %q", host, got, i, wsrc, want))
				return
			}
		}
	}
	fail("unconfigured-token-sent", fmt.Sprintf("host %q received token %q which no source configures", host, got))
}

func genStatic(r *hx.Rand, hosts []string, tag string) string {
	switch r.Intn(10) {
	case 0, 1:
		return ""
	case 2, 3:
		return tag + "S" + hx.Pick(r, []string{"", ":x", "-all"})
	}
	n := 1 + r.Intn(3)
	hs := append([]string{}, hosts...)
	hx.Shuffle(r, hs)
	var parts []string
	for i := 0; i < n && i < len(hs); i++ {
		parts = append(parts, fmt.Sprintf("%s%d@%s", tag, i, hs[i]))
	}
	return strings.Join(parts, ",")
}

func genMalformed(r *hx.Rand, hosts []string, tag string) string {
	good := fmt.Sprintf("%sG@%s", tag, hx.Pick(r, hosts))
	bad := hx.Pick(r, []string{"", tag + "B", tag + "B@", "@" + hosts[0], tag + ":B@" + hosts[0], tag + "B@" + hosts[0] + "@" + hosts[0], tag + "B@@" + hosts[0], good})
	if r.Bool() {
		return good + "," + bad
	}
	return bad + "," + good
}

func sectionC(run *hx.Run, r *hx.Rand, ne *netrcEnv) {
	hostPool := []string{"h", "g", "buf.build", "h:8080", "hh", "", "H", "other.example"}
	n := run.N(6000, 40000)
	for i := 0; i < n; i++ {
		cr := r.Fork(uint64(i))
		if run.Only >= 0 && run.Only != i {
			continue
		}
		k := 1 + cr.Intn(4)
		srcs := make([]srcSpec, k)
		var providers []bufconnect.TokenProvider
		fields := []string{}
		var cfg []any
		for j := range srcs {
			tag := fmt.Sprintf("s%d", j)
			if cr.Chance(3, 5) {
				s := srcSpec{static: true, fromEnv: cr.Bool(), token: genStatic(cr, hostPool[:5], tag)}
				tp, err := newProvider(s.token, s.fromEnv)
				must(err)
				providers = append(providers, tp)
				srcs[j] = s
				fields = append(fields, "s:"+b2s(s.fromEnv)+":"+hx.Enc(s.token))
				cfg = append(cfg, map[string]any{"static": s.token, "from_env": s.fromEnv})
			} else {
				s := srcSpec{es: genEntries(cr, machineNames[:5], tag+"n"), absent: cr.Chance(1, 20)}
				s.toks = renderNetrc(cr, s.es, cr.Bool())
				path := ne.write(s.toks, s.absent)
				providers = append(providers, bufconnect.NewNetrcTokenProvider(app.NewEnvContainer(map[string]string{"NETRC": path}), netrc.GetMachineForName))
				srcs[j] = s
				fields = append(fields, "n:"+fileField(s.toks, s.absent))
				cfg = append(cfg, map[string]any{"netrc": strings.Join(s.toks, ""), "absent": s.absent})
			}
		}
		provider := bufconnect.NewAuthorizationInterceptorProvider(providers...)
		for _, host := range hostPool {
			out, raw, panicked := observeInterceptor(provider, host)
			in := "auth\t" + hx.Enc(host) + "\t" + strings.Join(fields, "\t")
			run.Case(in, out, raw != "")
			if panicked != nil {
				run.Fail(hx.OracleFailure{Class: "panic", What: fmt.Sprintf("interceptor panicked: %v", panicked), Input: map[string]any{"sources": cfg, "host": host}, Replay: replay(run, "C", i)})
				continue
			}
			_, wsrc := expectedToken(srcs, host)
			run.Count(fmt.Sprintf("C:winner-source-%d-of-%d", wsrc+1, k))
			judgeHeader(run, "C", i, srcs, host, raw, map[string]any{"sources": cfg})
		}
		if i < 2 {
			run.Sample(map[string]any{"section": "C", "sources": cfg})
		}
	}
}

// ---------------------------------------------------------------------------------------------
// Section D: bufcli.NewConnectClientConfig -> connectclient.Make -> loopback registries

type registry struct {
	name string
	srv  *httptest.Server
	addr string
	mu   sync.Mutex
	hits []http.Header
	host []string
}

func newRegistry(name string) *registry {
	reg := &registry{name: name}
	reg.srv = httptest.NewServer(http.HandlerFunc(func(w http.ResponseWriter, r *http.Request) {
		reg.mu.Lock()
		reg.hits = append(reg.hits, r.Header.Clone())
		reg.host = append(reg.host, r.Host)
		reg.mu.Unlock()
		io.Copy(io.Discard, r.Body)
		w.WriteHeader(http.StatusUnauthorized)
	}))
	// every client config owns a fresh http.Transport; without this its idle connections pile up
	reg.srv.Config.SetKeepAlivesEnabled(false)
	reg.addr = strings.TrimPrefix(reg.srv.URL, "http://")
	return reg
}

func (g *registry) take() ([]http.Header, []string) {
	g.mu.Lock()
	defer g.mu.Unlock()
	h, hs := g.hits, g.host
	g.hits, g.host = nil, nil
	return h, hs
}

func pingFactory(hc connect.HTTPClient, addr string, opts ...connect.ClientOption) *connect.Client[emptypb.Empty, emptypb.Empty] {
	return connect.NewClient[emptypb.Empty, emptypb.Empty](hc, addr+"/verif.v1.Probe/Ping", opts...)
}

func sectionD(run *hx.Run, r *hx.Rand, ne *netrcEnv) {
	regs := []*registry{newRegistry("A"), newRegistry("B"), newRegistry("C")}
	defer func() {
		for _, g := range regs {
			g.srv.Close()
		}
	}()
	addrs := []string{regs[0].addr, regs[1].addr, regs[2].addr}
	cfgDir := filepath.Join(ne.dir, "bufconfig")
	must(os.MkdirAll(cfgDir, 0o755))
	must(os.WriteFile(filepath.Join(cfgDir, "config.yaml"), []byte("version: v1\ntls:\n  use: \"false\"\n"), 0o600))
	logger := slog.New(slog.NewTextHandler(io.Discard, nil))
	names := append(append([]string{}, addrs...), "h", "buf.build")
	n := run.N(600, 5000)
	for i := 0; i < n; i++ {
		cr := r.Fork(uint64(i))
		if run.Only >= 0 && run.Only != i {
			continue
		}
		var bufToken string
		if cr.Chance(1, 6) {
			bufToken = genMalformed(cr, names, "tk")
		} else {
			bufToken = genStatic(cr, names, "tk")
		}
		es := genEntries(cr, names, "np")
		absent := cr.Chance(1, 10)
		toks := renderNetrc(cr, es, cr.Bool())
		path := ne.write(toks, absent)
		env := map[string]string{"BUF_CONFIG_DIR": cfgDir, bufconnect.TokenEnvKey: bufToken, "NETRC": path, "HOME": ne.dir}
		base := app.NewContainer(env, nil, io.Discard, io.Discard)
		nc, err := appext.NewNameContainer(base, "buf")
		must(err)
		container := appext.NewContainer(nc, logger)
		input := map[string]any{"BUF_TOKEN": bufToken, "netrc": strings.Join(toks, ""), "netrc_absent": absent,
			"registries": map[string]string{"A": addrs[0], "B": addrs[1], "C": addrs[2]}}
		srcs := []srcSpec{{static: true, fromEnv: true, token: bufToken}, {es: es, toks: toks, absent: absent}}
		kind, _ := specEnv(bufToken)
		run.Count("D:env-" + kind)
		// one config in four goes through NewConnectClientConfigWithToken (the --token flag):
		// a single provider, not attributed to the environment, and no .netrc.
		withToken := cr.Chance(1, 4)
		cfg, cfgErr := (*connectclient.Config)(nil), error(nil)
		if withToken {
			cfg, cfgErr = bufcli.NewConnectClientConfigWithToken(container, bufToken)
			srcs = []srcSpec{{static: true, fromEnv: false, token: bufToken}}
			input["via"] = "NewConnectClientConfigWithToken (BUF_TOKEN value passed as the explicit token; .netrc not consulted)"
			run.Count("D:with-token-flag")
		} else {
			cfg, cfgErr = bufcli.NewConnectClientConfig(container)
		}
		for gi, g := range regs {
			in := "chain\t" + hx.Enc(bufToken) + "\t" + fileField(toks, absent) + "\t" + hx.Enc(g.addr)
			if withToken {
				in = "chaintok\t" + hx.Enc(bufToken) + "\t" + hx.Enc(g.addr)
			}
			if cfgErr != nil {
				run.Case(in, "cfgerr "+errClass(cfgErr), true)
				if kind != "malformed" {
					run.Fail(hx.OracleFailure{Class: "wellformed-token-string-rejected", What: fmt.Sprintf("BUF_TOKEN %q rejected: %v", bufToken, cfgErr), Input: input, Replay: replay(run, "D", i)})
				}
				continue
			}
			if kind == "malformed" && gi == 0 {
				run.Fail(hx.OracleFailure{Class: "malformed-token-string-accepted", What: fmt.Sprintf("BUF_TOKEN %q has a malformed or repeated entry but a client config was built", bufToken), Input: input, Replay: replay(run, "D", i)})
			}
			var callErr error
			panicked := func() (p any) {
				defer func() { p = recover() }()
				client := connectclient.Make(cfg, g.addr, pingFactory)
				_, callErr = client.CallUnary(ctx, connect.NewRequest(&emptypb.Empty{}))
				return nil
			}()
			if panicked != nil {
				run.Case(in, "panic", true)
				run.Fail(hx.OracleFailure{Class: "panic", What: fmt.Sprintf("request panicked: %v", panicked), Input: input, Replay: replay(run, "D", i)})
				for _, o := range regs {
					o.take()
				}
				continue
			}
			// what did the registries receive?
			var seen http.Header
			for _, o := range regs {
				hits, hosts := o.take()
				if o != g && len(hits) > 0 {
					run.Fail(hx.OracleFailure{Class: "request-misrouted", What: fmt.Sprintf("request for registry %s (%s) reached registry %s", g.name, g.addr, o.name), Input: input, Replay: replay(run, "D", i)})
					if a := hits[0].Get("Authorization"); a != "" {
						run.Fail(hx.OracleFailure{Class: "token-sent-to-unconfigured-host", What: fmt.Sprintf("Authorization %q arrived at registry %s while the client was made for %s", a, o.name, g.name), Input: input, Replay: replay(run, "D", i)})
					}
				}
				if o == g {
					if len(hits) != 1 || hosts[0] != g.addr {
						run.Fail(hx.OracleFailure{Class: "request-misrouted", What: fmt.Sprintf("registry %s got %d requests (Host %v) for one call", g.name, len(hits), hosts), Input: input, Replay: replay(run, "D", i)})
					}
					if len(hits) > 0 {
						seen = hits[0]
					}
				}
			}
			out, raw, _ := renderObservation(seen, callErr, g.addr)
			run.Case(in, out, raw != "")
			_, wsrc := expectedToken(srcs, g.addr)
			run.Count([]string{"D:no-token", "D:token-from-first-source", "D:token-from-netrc"}[wsrc+1])
			judgeHeader(run, "D", i, srcs, g.addr, raw, input)
		}
		if i < 2 {
			run.Sample(input)
		}
	}
}

func main() {
	run := hx.Start("C19")
	r := hx.NewRand(run.Seed)
	tmp, err := os.MkdirTemp("", "verif-c19-")
	must(err)
	defer os.RemoveAll(tmp)
	// the fake network of section R is reached through HTTP_PROXY; net/http reads the proxy
	// environment once per process, so it is set before any transport exists (requests to the
	// loopback registries of sections D/E never go through a proxy)
	nw := newNetwork()
	defer nw.srv.Close()
	os.Setenv("HTTP_PROXY", nw.srv.URL)
	os.Setenv("http_proxy", nw.srv.URL)
	os.Unsetenv("NO_PROXY")
	os.Unsetenv("no_proxy")
	ne := &netrcEnv{dir: tmp}
	if run.Only < 0 {
		sectionA(run, r.Fork(1))
		sectionK(run, ne)
	}
	sectionB(run, r.Fork(2), ne)
	sectionC(run, r.Fork(3), ne)
	sectionD(run, r.Fork(4), ne)
	sectionE(run, r.Fork(5), ne)
	sectionR(run, r.Fork(6), ne, nw)
	keys := []string{}
	for _, h := range fixedHosts {
		keys = append(keys, h)
	}
	sort.Strings(keys)
	run.Set("A_fixed_hosts", keys)
	run.Finish()
}
