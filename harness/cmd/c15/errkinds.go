// Error-KIND strata of the C15 fault enumeration.
//
// Seed C15-m5 (storageos Walk: os.IsNotExist → errors.Is(err, fs.ErrNotExist) on the error that
// comes back from the walk CALLBACK) went unnoticed because every injected fault returned the
// same synthetic error value: helper code special-cases some error values — not-exist means
// "nothing there", io.EOF means "done", filepath.SkipDir means "skip", context.Canceled means
// "stopping anyway" — and a write failure that happens to carry such a value must still be
// reported.  errKinds lists the values by what code tests for: errno inside *fs.PathError /
// *os.LinkError / *os.SyscallError / bare, the sentinels, and each of them behind fmt.Errorf("%w")
// and errors.Join.  `expr` is the value in the Lean model's notation (BufModel.Faults.ErrV).
package main

import (
	"context"
	"errors"
	"fmt"
	"io"
	"io/fs"
	"os"
	"path/filepath"
	"syscall"

	"github.com/bufbuild/buf/private/pkg/storage"
)

type errKind struct {
	name string
	expr string
	mk   func(p prim) error
}

func pathErr(op string, errno syscall.Errno) func(prim) error {
	return func(p prim) error { return &fs.PathError{Op: op, Path: "/dest/" + p.path, Err: errno} }
}

func constErr(err error) func(prim) error { return func(prim) error { return err } }

func wrapped(mk func(prim) error) func(prim) error {
	return func(p prim) error { return fmt.Errorf("copy %s: %w", p.path, mk(p)) }
}

func joined1(mk func(prim) error) func(prim) error {
	return func(p prim) error { return errors.Join(mk(p), nil) }
}

func joined2(a, b func(prim) error) func(prim) error {
	return func(p prim) error { return errors.Join(a(p), b(p)) }
}

var errKinds = []errKind{
	{"injected", "inj", constErr(errInjected)},
	{"wrapped-injected", "w:inj", wrapped(constErr(errInjected))},
	{"patherror-ENOENT", "pe:enoent", pathErr("open", syscall.ENOENT)},
	{"patherror-EEXIST", "pe:eexist", pathErr("mkdir", syscall.EEXIST)},
	{"patherror-ENOTDIR", "pe:enotdir", pathErr("open", syscall.ENOTDIR)},
	{"patherror-EISDIR", "pe:eisdir", pathErr("open", syscall.EISDIR)},
	{"patherror-EACCES", "pe:eacces", pathErr("open", syscall.EACCES)},
	{"patherror-ENOSPC", "pe:enospc", pathErr("write", syscall.ENOSPC)},
	{"wrapped-patherror-ENOENT", "w:pe:enoent", wrapped(pathErr("open", syscall.ENOENT))},
	{"wrapped-patherror-EEXIST", "w:pe:eexist", wrapped(pathErr("mkdir", syscall.EEXIST))},
	{"joined-patherror-ENOENT", "j1:pe:enoent", joined1(pathErr("open", syscall.ENOENT))},
	{"wrapped-joined-patherror-ENOENT", "w:j1:pe:enoent", wrapped(joined1(pathErr("rename", syscall.ENOENT)))},
	{"linkerror-ENOENT", "le:enoent", func(p prim) error {
		return &os.LinkError{Op: "rename", Old: "/dest/.tmp" + p.path, New: "/dest/" + p.path, Err: syscall.ENOENT}
	}},
	{"syscallerror-ENOENT", "se:enoent", constErr(os.NewSyscallError("write", syscall.ENOENT))},
	{"errno-ENOENT", "no:enoent", constErr(syscall.ENOENT)},
	{"errno-ENOSPC", "no:enospc", constErr(syscall.ENOSPC)},
	{"fs.ErrNotExist", "s:notexist", constErr(fs.ErrNotExist)},
	{"wrapped-fs.ErrNotExist", "w:s:notexist", wrapped(constErr(fs.ErrNotExist))},
	{"fs.ErrExist", "s:exist", constErr(fs.ErrExist)},
	{"fs.ErrPermission", "s:permission", constErr(fs.ErrPermission)},
	{"io.EOF", "s:eof", constErr(io.EOF)},
	{"wrapped-io.EOF", "w:s:eof", wrapped(constErr(io.EOF))},
	{"io.ErrUnexpectedEOF", "s:ueof", constErr(io.ErrUnexpectedEOF)},
	{"io.ErrShortWrite", "s:shortwrite", constErr(io.ErrShortWrite)},
	{"io.ErrClosedPipe", "s:closedpipe", constErr(io.ErrClosedPipe)},
	{"context.Canceled", "s:canceled", constErr(context.Canceled)},
	{"wrapped-context.Canceled", "w:s:canceled", wrapped(constErr(context.Canceled))},
	{"context.DeadlineExceeded", "s:deadline", constErr(context.DeadlineExceeded)},
	{"storage.ErrClosed", "s:closed", constErr(storage.ErrClosed)},
	{"os.ErrClosed", "s:osclosed", constErr(os.ErrClosed)},
	{"filepath.SkipDir", "s:skipdir", constErr(filepath.SkipDir)},
	{"wrapped-filepath.SkipDir", "w:s:skipdir", wrapped(constErr(filepath.SkipDir))},
	{"fs.SkipAll", "s:skipall", constErr(fs.SkipAll)},
	{"joined-injected-io.EOF", "j2:inj:s:eof", joined2(constErr(errInjected), constErr(io.EOF))},
	{"joined-io.EOF-patherror-ENOENT", "j2:s:eof:pe:enoent", joined2(constErr(io.EOF), pathErr("open", syscall.ENOENT))},
	{"joined-context.Canceled-fs.ErrNotExist", "j2:s:canceled:s:notexist", joined2(constErr(context.Canceled), constErr(fs.ErrNotExist))},
}
