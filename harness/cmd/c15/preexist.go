// Part E of the C15 harness: PRE-EXISTING DESTINATIONS.
//
// Parts A, W and (almost all of) X write into destinations that are empty, or whose previous
// content is SHORTER than the new one.  A put that replaces an object is the normal case of a
// second `buf generate` / `buf export` / `buf format -w` / cache store into the same directory, and
// "the helper returned nil" then means: every object it wrote holds EXACTLY the new content — not
// the new content followed by what was left of the old one (a disk put that opens without
// O_TRUNC), not the old content, not a mixture.
//
// Families (every run has a bystander object that no put touches):
//
//	E1  real disk bucket, machinery of part X (rcBucket: real close(2) / write(2) failures):
//	    every shape of part X (Put/Write/Close by hand, PutPath, CopyReader, ForWriteObject,
//	    CopyReadObject, CopyPath, Copy par 1/4/16, Untar, Unzip, the five walk loops), plain and
//	    atomic, directly and through a prefix view, previous content in every RELATION to the new
//	    one (absent, 1 byte longer, 7 bytes longer, 70 000 bytes longer, half as long, equal length,
//	    identical, empty) x new content of 0 / 11 / 32 768 / 80 000 bytes; fault-free, the close of
//	    each object failing, the first and the last write of each object failing.
//	E2  fault wrapper of part A above a memory and a disk bucket (plain puts): PutPath, CopyReader,
//	    ForWriteObject, CopyReadObject, CopyPath, Copy par 1/4, Untar, Unzip with the same relations;
//	    fault-free and every single primitive of the trace failing (a failing Put leaves the
//	    previous object, a failing Write / Close leaves what was written).
//	E3  the generated-file flush (bufprotopluginos.ResponseWriter.Close) into output directories
//	    that already hold the generated files of an earlier run, fault-free and with the close(2)
//	    of one file failing (verif hook).
//	E4  step-by-step observation of one plain and one atomic put over previous content on disk
//	    (after Put, after every Write, after Close).
//	E5  a READER opened on the previous content stays open across the overwrite: it has read a
//	    part (or nothing), the path is replaced by a completed put (memory bucket; atomic put on
//	    disk), further writers — of the same path, of other paths, in another memory bucket — write
//	    and are closed or still in flight, then the reader reads on: it delivers the previous
//	    content to its end (`reader-across-overwrite-torn`), `rover` lines.
//
// Oracle (implementation only): helper returned nil ⇒ every object it wrote holds exactly the new
// bytes (`overwrite-left-previous-tail` when the object is the new bytes followed by the tail of
// the previous content, `overwrite-success-but-previous-content-kept`,
// `overwrite-success-but-not-new-content` otherwise); a fired fault ⇒ an
// error (`overwrite-fault-not-reported`); a FAILED atomic put ⇒ exactly the previous content (or no
// object) and no temp file (`failed-atomic-put-not-previous-content`, `overwrite-temp-file-left`);
// bystanders unchanged (`overwrite-bystander-changed`); a fault-free run succeeds
// (`overwrite-fault-free-run-failed`).  Correspondence: `rput` lines (E1), `pre <old> <wobj|copy|
// untar|unzip …>` lines (E2: the model's writeObj / copyAll / untarAll / unzipAll started from the
// previous content), `flush` (E3), `pprefix` / `aprefix` (E4).
//
// `--only peOnlyBase+i` re-runs case i alone.
package main

import (
	"fmt"
	"io"
	"log/slog"
	"os"
	"path/filepath"
	"sort"
	"strconv"
	"strings"
	"syscall"

	"github.com/bufbuild/buf/private/bufpkg/bufprotoplugin/bufprotopluginos"
	"github.com/bufbuild/buf/private/pkg/storage"
	"github.com/bufbuild/buf/private/pkg/storage/storagemem"
	"github.com/bufbuild/buf/private/pkg/storage/storageos"
	"github.com/bufbuild/buf/private/pkg/thread"
	"github.com/bufbuild/buf/private/pkg/verifhook"
	"github.com/bufbuild/verifharness/internal/bk"
	"github.com/bufbuild/verifharness/internal/hx"
	"google.golang.org/protobuf/types/pluginpb"
)

const peOnlyBase = 2000000

// peFill: n bytes of recognisable previous content.
func peFill(n int) string {
	if n <= 0 {
		return ""
	}
	return strings.Repeat("oLd", n/3+1)[:n]
}

// peRel: the relation of the previous content to the new content v.
type peRel struct {
	name string
	mk   func(v string) (old string, has bool, ok bool) // ok=false: the relation does not exist for this v
}

var peRels = []peRel{
	{"absent", func(v string) (string, bool, bool) { return "", false, true }},
	{"one-byte-longer", func(v string) (string, bool, bool) { return peFill(len(v) + 1), true, true }},
	{"longer", func(v string) (string, bool, bool) { return peFill(len(v) + 7), true, true }},
	{"much-longer", func(v string) (string, bool, bool) { return peFill(len(v) + 70000), true, true }},
	{"shorter", func(v string) (string, bool, bool) { return peFill(len(v) / 2), true, len(v) >= 2 }},
	{"equal-length", func(v string) (string, bool, bool) { return peFill(len(v)), true, len(v) >= 1 }},
	{"identical", func(v string) (string, bool, bool) { return v, true, true }},
	{"empty", func(v string) (string, bool, bool) { return "", true, len(v) >= 1 }},
}

var peNews = []string{
	"",
	"contentOfNw",
	strings.Repeat("0123456789abcdef", 2048), // 32 768 bytes: exactly one buffer of io.Copy
	strings.Repeat("0123456789ABCDEF", 5000), // 80 000 bytes: three writes of io.Copy
}

var peNames = []string{"a/x.proto", "b.proto", "c/d/e.proto", "z z/é.txt", "q"}

const peBystander = "keep/me"

type peState struct {
	run     *hx.Run
	tmpRoot string
	idx     int
}

func (pe *peState) next() int { i := pe.idx; pe.idx++; return i }
func (pe *peState) on(i int) bool {
	return pe.run.Only < peOnlyBase || pe.run.Only == peOnlyBase+i
}
func (pe *peState) replay(i int) string {
	return fmt.Sprintf("build/c15 --out /tmp/c15-replay --seed %d --tier %s --only %d", pe.run.Seed, pe.run.Tier, peOnlyBase+i)
}

// peObj: one object of a case.
type peObj struct {
	key    string
	newV   string
	old    string
	hasOld bool
	rel    string
}

func (o peObj) describe() string {
	if !o.hasOld {
		return fmt.Sprintf("%s: %d new bytes, no previous object", o.key, len(o.newV))
	}
	return fmt.Sprintf("%s: %d new bytes over %d previous bytes (%s)", o.key, len(o.newV), len(o.old), o.rel)
}

func peSplit(objs []peObj, bystander bool) (news, olds []bk.KV) {
	for _, o := range objs {
		news = append(news, bk.KV{K: o.key, V: o.newV})
		if o.hasOld {
			olds = append(olds, bk.KV{K: o.key, V: o.old})
		}
	}
	if bystander {
		olds = append(olds, bk.KV{K: peBystander, V: "KEEP"})
	}
	return
}

// peValue: protocol token of a destination content: the tokens of the chunks written in this
// case when the content is made of them, else the token of the untouched previous content.
func peValue(v string, chunks []string, old *string) string {
	c := canon(v, chunks)
	if !strings.Contains(c, "?leftover") && (v == "" || len(chunks) > 0) {
		return c
	}
	if old != nil && v == *old {
		return tok(*old)
	}
	return c
}

// peOldToken: protocol token of a previous content (the same token peValue gives it untouched).
func peOldToken(old string, chunks []string) string { return peValue(old, chunks, &old) }

func peEncOld(olds []bk.KV, chunks map[string][]string) string {
	if len(olds) == 0 {
		return "-"
	}
	ss := make([]string, len(olds))
	for i, o := range olds {
		ss[i] = hx.Enc(o.K) + "=" + peOldToken(o.V, chunks[o.K])
	}
	return strings.Join(ss, ",")
}

func peOldMap(olds []bk.KV) map[string]*string {
	m := map[string]*string{}
	for i := range olds {
		m[olds[i].K] = &olds[i].V
	}
	return m
}

// peTail classifies a wrong content of an object a successful helper wrote.
func peTail(got, newV string, old *string) (class, what string) {
	if old != nil && got == *old {
		return "overwrite-success-but-previous-content-kept", fmt.Sprintf("still holds exactly the previous content (%d bytes) instead of the %d new bytes", len(got), len(newV))
	}
	if old != nil && len(got) > len(newV) && len(got) == len(*old) && got[:len(newV)] == newV && got[len(newV):] == (*old)[len(newV):] {
		return "overwrite-left-previous-tail", fmt.Sprintf("holds %d bytes: the %d new bytes followed by the last %d bytes of the previous content (%d bytes) — neither the previous nor the complete new content", len(got), len(newV), len(got)-len(newV), len(*old))
	}
	prev := "no previous object"
	if old != nil {
		prev = fmt.Sprintf("previous content %d bytes, equal to it: %v", len(*old), got == *old)
	}
	return "overwrite-success-but-not-new-content", fmt.Sprintf("holds %d bytes that are not the %d new bytes (%s)", len(got), len(newV), prev)
}

func partPreexist(run *hx.Run, r *hx.Rand, tmpRoot string) {
	pe := &peState{run: run, tmpRoot: tmpRoot}
	pe.real(r.Fork(1))
	pe.wrapper(r.Fork(2))
	pe.flush(r.Fork(3))
	pe.steps(r.Fork(4))
	pe.readers(r.Fork(5))
	run.CountN("E:cases", pe.idx)
}

// ---------------------------------------------------------------------------------------
// E1: real disk bucket, real close(2)/write(2) failures (machinery of part X)

// peSets: the object sets of one (shape, atomic) pair.
func (pe *peState) sets(multi bool, salt int, r *hx.Rand) [][]peObj {
	var sets [][]peObj
	if !multi {
		for ri, rel := range peRels {
			for ni, nv := range peNews {
				if !pe.run.Thorough() && (salt+ri)%len(peNews) != ni {
					continue
				}
				old, has, ok := rel.mk(nv)
				if !ok {
					// the relation does not exist for this size: take the next size
					nv = peNews[(ni+1)%len(peNews)]
					old, has, ok = rel.mk(nv)
					if !ok {
						continue
					}
				}
				sets = append(sets, []peObj{{key: peNames[(salt+ri+ni)%len(peNames)], newV: nv, old: old, hasOld: has, rel: rel.name}})
			}
		}
		return sets
	}
	rounds := pe.run.N(1, 4)
	for round := 0; round < rounds; round++ {
		var set []peObj
		n := len(peNames)
		for j := 0; j < n; j++ {
			rel := peRels[(j+salt+round*3)%len(peRels)]
			nv := peNews[(j+salt/2+round)%len(peNews)]
			if round > 0 && r.Chance(1, 2) {
				rel = hx.Pick(r, peRels)
				nv = hx.Pick(r, peNews)
			}
			old, has, ok := rel.mk(nv)
			if !ok {
				nv = peNews[1]
				old, has, _ = rel.mk(nv)
			}
			set = append(set, peObj{key: peNames[j], newV: nv, old: old, hasOld: has, rel: rel.name})
		}
		sort.Slice(set, func(i, j int) bool { return set[i].key < set[j].key })
		sets = append(sets, set)
	}
	return sets
}

func (pe *peState) real(r *hx.Rand) {
	shapes := rcShapes()
	views := []string{"", "map-write", "map-readwrite"}
	for si, sh := range shapes {
		for ai, atomic := range []bool{false, true} {
			if atomic && !sh.atomicOK {
				continue
			}
			for ci, set := range pe.sets(sh.multi, si*2+ai, r.Fork(uint64(si*2+ai))) {
				view := ""
				if (si+ai+ci)%3 == 0 {
					view = views[1+(si+ci)%2]
				}
				news, olds := peSplit(set, true)
				if view != "" {
					news, olds = rcPrefixed(news), rcPrefixed(olds)
				}
				dir := filepath.Join(pe.tmpRoot, "e"+strconv.Itoa(pe.idx))
				base := rcRun(sh, atomic, news, olds, rcPlan{}, dir, view)
				pe.judgeReal(pe.next(), sh, atomic, view, set, news, olds, rcPlan{}, base, base.b.chunks)
				var plans []rcPlan
				for k, o := range news {
					plans = append(plans, rcPlan{closeFail: map[string]bool{o.K: true}, viaHook: (si+k+ci)%2 == 0})
					if nw := len(base.b.chunks[o.K]); nw > 0 {
						plans = append(plans, rcPlan{writeFail: map[string]int{o.K: 0}})
						if nw > 1 {
							plans = append(plans, rcPlan{writeFail: map[string]int{o.K: nw - 1}})
						}
					}
				}
				for _, plan := range plans {
					res := rcRun(sh, atomic, news, olds, plan, dir, view)
					pe.judgeReal(pe.next(), sh, atomic, view, set, news, olds, plan, res, base.b.chunks)
				}
				os.RemoveAll(dir)
			}
		}
	}
}

func peDescribe(set []peObj) []string {
	out := make([]string, len(set))
	for i, o := range set {
		out[i] = o.describe()
	}
	return out
}

func (pe *peState) judgeReal(idx int, sh rcShape, atomic bool, view string, set []peObj, news, olds []bk.KV, plan rcPlan, res rcResult, baseChunks map[string][]string) {
	if !pe.on(idx) {
		return
	}
	run := pe.run
	b := res.b
	in := map[string]any{"part": "E1 (pre-existing destination, disk bucket, real close/write failures)", "helper": sh.label, "atomic": atomic,
		"destination": map[string]string{"": "the disk bucket", "map-write": "storage.MapWriteBucket(disk bucket, MapOnPrefix(pre/fix))", "map-readwrite": "storage.MapReadWriteBucket(disk bucket, MapOnPrefix(pre/fix))"}[view],
		"objects":     peDescribe(set), "bystander": peBystander, "failing": fmt.Sprint(plan.faults()), "case": idx}
	rp := pe.replay(idx)
	fail := func(class, what string) {
		run.Fail(hx.OracleFailure{Class: class, What: what, Input: in, Replay: rp})
	}
	run.Count("E1:" + sh.label + ":atomic=" + b01(atomic) + ":" + okErr(res.err))
	for _, o := range set {
		run.Count("E1:relation:" + o.rel)
		run.Count("E1:new-bytes:" + strconv.Itoa(len(o.newV)))
	}
	if view != "" {
		run.Count("E1:view=" + view)
	}
	run.CountN("E1:fired-close", len(b.firedClose))
	run.CountN("E1:fired-write", len(b.firedWrite))
	run.CountN("E1:hook-not-reached", b.hookMissed)
	run.CountN("E1:descriptor-not-found", b.noFd)
	if res.err != nil && strings.HasPrefix(res.err.Error(), "PANIC") {
		fail("panic", res.err.Error())
		return
	}
	// ---- protocol line (as part X: `rput`, the previous content in every relation)
	chunksOf := func(k string) []string {
		if cs, ok := b.chunks[k]; ok && len(cs) >= len(baseChunks[k]) {
			return cs
		}
		return baseChunks[k]
	}
	var jobs []bk.KV
	if sh.name == "copy" {
		seen := map[string]bool{}
		for _, k := range b.order {
			if !seen[k] {
				seen[k] = true
				jobs = append(jobs, bk.KV{K: k})
			}
		}
	} else {
		for _, o := range news {
			jobs = append(jobs, bk.KV{K: o.K})
		}
	}
	cm := map[string][]string{}
	for _, o := range news {
		cm[o.K] = chunksOf(o.K)
	}
	oldOf := peOldMap(olds)
	line := "rput\t" + sh.name + "\t" + b01(atomic) + "\t" + peEncOld(olds, cm) + "\t" + rcEncKVs(jobs, cm) + "\t" + encFaults(plan.faults())
	cnt := res.count
	if sh.name != "copy" {
		cnt = 0
	}
	var kvs []bk.KV
	filepath.Walk(res.dir, func(p string, fi os.FileInfo, err error) error {
		if err != nil || !fi.Mode().IsRegular() {
			return nil
		}
		rel, _ := filepath.Rel(res.dir, p)
		rel = filepath.ToSlash(rel)
		data, _ := os.ReadFile(p)
		kvs = append(kvs, bk.KV{K: rel, V: peValue(string(data), cm[rel], oldOf[rel])})
		return nil
	})
	out := okErr(res.err) + ":" + strconv.Itoa(cnt) + "|" + bk.Dump(kvs)
	fired := len(b.firedClose) + len(b.firedWrite)
	if b.hookMissed == 0 && b.noFd == 0 {
		run.Case(line, out, true)
	} else {
		run.Eval()
	}
	// ---- oracle
	newOf := map[string]string{}
	for _, o := range news {
		newOf[o.K] = o.V
	}
	read := func(k string) (string, error) {
		data, err := os.ReadFile(filepath.Join(res.dir, filepath.FromSlash(k)))
		return string(data), err
	}
	if res.err == nil {
		for _, o := range news {
			got, err := read(o.K)
			if err != nil {
				fail("overwrite-success-but-not-new-content", fmt.Sprintf("%s (atomic=%v) returned nil but %q cannot be read: %v", sh.label, atomic, o.K, err))
			} else if got != o.V {
				class, what := peTail(got, o.V, oldOf[o.K])
				fail(class, fmt.Sprintf("%s (atomic=%v) returned nil, every Put/Write/Close succeeded, but %q %s", sh.label, atomic, o.K, what))
			}
		}
		if sh.name == "copy" && res.count != len(news) {
			fail("copy-count", fmt.Sprintf("Copy returned count %d for %d objects", res.count, len(news)))
		}
		if fired > 0 {
			fail("overwrite-fault-not-reported", fmt.Sprintf("%s (atomic=%v) returned nil although close(2) of %v / write(2) to %v failed (EBADF)", sh.label, atomic, b.firedClose, b.firedWrite))
		}
	}
	if fired == 0 && len(plan.faults()) == 0 && res.err != nil {
		fail("overwrite-fault-free-run-failed", fmt.Sprintf("%s (atomic=%v) over previous content, without any failure, returned %v", sh.label, atomic, res.err))
	}
	if atomic {
		for _, k := range append(append([]string{}, b.firedClose...), b.firedWrite...) {
			got, err := read(k)
			old := oldOf[k]
			switch {
			case err != nil && old == nil:
			case err == nil && old != nil && got == *old:
			default:
				fail("failed-atomic-put-not-previous-content", fmt.Sprintf("the atomic put of %q by %s failed (error returned: %v), but the destination does not hold exactly the previous content: %d bytes, err=%v, previous object: %v", k, sh.label, res.err != nil, len(got), err, old != nil))
			}
		}
		if temps := rcTemps(res.dir); len(temps) > 0 {
			fail("overwrite-temp-file-left", fmt.Sprintf("%s (atomic) left temp files %v", sh.label, temps))
		}
	}
	for _, o := range olds {
		if _, rewritten := newOf[o.K]; rewritten {
			continue
		}
		if got, err := read(o.K); err != nil || got != o.V {
			fail("overwrite-bystander-changed", fmt.Sprintf("object %q, which no put touched, changed", o.K))
		}
	}
	if idx < 2 {
		run.Sample(in)
	}
}

// ---------------------------------------------------------------------------------------
// E2: the fault wrapper of part A above a memory / disk bucket that already holds content

func (pe *peState) wrapper(r *hx.Rand) {
	type kd struct {
		kind  string
		par   int
		multi bool
	}
	kinds := []kd{{"putpath", 1, false}, {"copyreader", 1, false}, {"forwriteobject", 1, false}, {"copyreadobject", 1, false},
		{"copypath", 1, false}, {"copy", 1, true}, {"copy", 4, true}, {"untar", 1, true}, {"unzip", 1, true}}
	for ki, k := range kinds {
		for di, disk := range []bool{false, true} {
			for _, set := range pe.sets(k.multi, ki*2+di+1, r.Fork(uint64(ki*2+di))) {
				news, olds := peSplit(set, true)
				c := opCase{kind: k.kind, objs: news, par: k.par, destDisk: disk, old: olds}
				tmp := filepath.Join(pe.tmpRoot, "ea"+strconv.Itoa(pe.idx))
				err0, fb0, dest0, cnt0 := c.run(nil, tmp)
				base := fb0.chunks
				trace := append([]prim{}, fb0.trace...)
				pe.judgeWrapper(pe.next(), c, set, nil, err0, fb0, dest0, cnt0, base)
				for _, p := range trace {
					// in the quick tier, of the middle writes of a long object only the first and last
					if !pe.run.Thorough() && p.kind == 'w' && p.idx > 0 && p.idx < len(base[p.path])-1 {
						continue
					}
					err, fb, dest, cnt := c.run([]prim{p}, tmp)
					pe.judgeWrapper(pe.next(), c, set, []prim{p}, err, fb, dest, cnt, base)
				}
				if disk {
					os.RemoveAll(tmp)
				}
			}
		}
	}
}

func (pe *peState) judgeWrapper(idx int, c opCase, set []peObj, faults []prim, err error, fb *faultyBucket, dest storage.ReadBucket, cnt int, base map[string][]string) {
	if !pe.on(idx) {
		return
	}
	run := pe.run
	in := map[string]any{"part": "E2 (pre-existing destination, fault wrapper above the bucket)", "helper": c.kind, "parallelism": c.par, "dest_disk": c.destDisk,
		"objects": peDescribe(set), "bystander": peBystander, "faults": fmt.Sprint(faults), "case": idx}
	rp := pe.replay(idx)
	fail := func(class, what string) {
		run.Fail(hx.OracleFailure{Class: class, What: what, Input: in, Replay: rp})
	}
	run.Count("E2:" + c.kind + ":disk=" + b01(c.destDisk) + ":faults=" + strconv.Itoa(len(faults)) + ":" + okErr(err))
	for _, o := range set {
		run.Count("E2:relation:" + o.rel)
	}
	for _, f := range fb.fired {
		run.Count("E2:fired:" + string(f.kind))
	}
	if err != nil && strings.HasPrefix(err.Error(), "PANIC") {
		fail("panic", err.Error())
		return
	}
	oldOf := peOldMap(c.old)
	// ---- protocol line: the line of part A behind `pre <previous content>`
	line := "pre\t" + peEncOld(c.old, base) + "\t" + c.modelLine(fb, base, faults)
	res := okErr(err)
	if c.kind == "copy" || c.kind == "copypath" {
		n := cnt
		if c.kind == "copypath" {
			n = 0
			if err == nil {
				n = 1
			}
		}
		res += ":" + strconv.Itoa(n)
	}
	kvs, werr := bk.WalkAll(ctx, dest, "")
	dump := ""
	if werr != nil {
		dump = "WALK-ERROR:" + werr.Error()
	} else {
		for i := range kvs {
			kvs[i].V = peValue(kvs[i].V, base[kvs[i].K], oldOf[kvs[i].K])
		}
		dump = bk.Dump(kvs)
	}
	run.Case(line, res+"|"+dump+"|fired="+strconv.Itoa(len(fb.fired)), true)
	// ---- oracle
	if fb.openAtReturn > 0 {
		fail("helper-returned-with-open-objects", fmt.Sprintf("%s returned %v while %d object(s) it had opened were not yet closed", c.kind, err, fb.openAtReturn))
	}
	if len(fb.fired) > 0 && err == nil {
		fail("overwrite-fault-not-reported", fmt.Sprintf("%s returned nil although %v failed", c.kind, fb.fired))
	}
	if len(faults) == 0 && err != nil {
		fail("overwrite-fault-free-run-failed", fmt.Sprintf("%s over previous content, without any fault, returned %v", c.kind, err))
	}
	if err == nil {
		for _, o := range c.objs {
			got, gerr := bk.ReadAll(ctx, dest, o.K)
			if gerr != nil {
				fail("overwrite-success-but-not-new-content", fmt.Sprintf("%s returned nil but %q cannot be read: %v", c.kind, o.K, gerr))
			} else if got != o.V {
				class, what := peTail(got, o.V, oldOf[o.K])
				fail(class, fmt.Sprintf("%s returned nil, but %q %s", c.kind, o.K, what))
			}
		}
		if c.kind == "copy" && cnt != len(c.objs) {
			fail("copy-count", fmt.Sprintf("Copy returned count %d for %d objects", cnt, len(c.objs)))
		}
	}
	if got, gerr := bk.ReadAll(ctx, dest, peBystander); gerr != nil || got != "KEEP" {
		fail("overwrite-bystander-changed", fmt.Sprintf("object %q, which no put touched, changed (err=%v)", peBystander, gerr))
	}
}

// ---------------------------------------------------------------------------------------
// E3: the generated-file flush into output directories that already hold generated files

func (pe *peState) flush(r *hx.Rand) {
	oldPar := thread.Parallelism()
	thread.SetParallelism(1)
	defer thread.SetParallelism(oldPar)
	n := pe.run.N(8, 60)
	for i := 0; i < n; i++ {
		cr := r.Fork(uint64(i))
		nout := 1 + cr.Intn(3)
		nfiles := 1 + cr.Intn(3)
		total := nout * nfiles
		type gen struct {
			out  int
			name string
			obj  peObj
		}
		var gens []gen
		for j := 0; j < nout; j++ {
			for f := 0; f < nfiles; f++ {
				nv := fmt.Sprintf("content-%d-%d-%d", i, j, f)
				if (i+j+f)%5 == 4 {
					nv = peNews[2+(i+f)%2]
				}
				rel := peRels[(i+j*nfiles+f)%len(peRels)]
				old, has, ok := rel.mk(nv)
				if !ok {
					old, has = peFill(len(nv)+7), true
				}
				gens = append(gens, gen{j, fmt.Sprintf("gen/f%d.txt", f), peObj{key: fmt.Sprintf("out%d/gen/f%d.txt", j, f), newV: nv, old: old, hasOld: has, rel: rel.name}})
			}
		}
		// fault-free, and the close(2) of the file at one position failing (from the hook)
		for _, k := range []int{-1, (i * 7) % total} {
			idx := pe.next()
			if !pe.on(idx) {
				continue
			}
			dir0 := filepath.Join(pe.tmpRoot, fmt.Sprintf("ef%d_%d", i, k+1))
			must(os.MkdirAll(dir0, 0o755))
			dir, err := filepath.EvalSymlinks(dir0)
			must(err)
			var set []peObj
			for _, g := range gens {
				set = append(set, g.obj)
				p := filepath.Join(dir, filepath.FromSlash(g.obj.key))
				must(os.MkdirAll(filepath.Dir(p), 0o755))
				if g.obj.hasOld {
					must(os.WriteFile(p, []byte(g.obj.old), 0o644))
				}
			}
			for j := 0; j < nout; j++ {
				must(os.WriteFile(filepath.Join(dir, "out"+strconv.Itoa(j), "gen", "kept.txt"), []byte("KEEP"), 0o644))
			}
			rw := bufprotopluginos.NewResponseWriter(slog.New(slog.NewTextHandler(io.Discard, nil)), storageos.NewProvider(), bufprotopluginos.ResponseWriterWithCreateOutDirIfNotExists())
			for j := 0; j < nout; j++ {
				var files []*pluginpb.CodeGeneratorResponse_File
				for _, g := range gens {
					if g.out == j {
						name, content := g.name, g.obj.newV
						files = append(files, &pluginpb.CodeGeneratorResponse_File{Name: &name, Content: &content})
					}
				}
				must(rw.AddResponse(ctx, &pluginpb.CodeGeneratorResponse{File: files}, filepath.Join(dir, "out"+strconv.Itoa(j))))
			}
			hits, sabotaged, ambiguous := 0, "", 0
			verifhook.SetHandler(func(point string) {
				if point != hookBeforeFileClose {
					return
				}
				if hits == k {
					fds := fdsUnder(dir)
					if len(fds) != 1 {
						ambiguous = len(fds)
					} else {
						for fd, link := range fds {
							syscall.Close(fd)
							sabotaged = link
						}
					}
				}
				hits++
			})
			var cerr error
			func() {
				defer func() {
					if p := recover(); p != nil {
						cerr = fmt.Errorf("PANIC: %v", p)
					}
				}()
				cerr = rw.Close()
			}()
			verifhook.SetHandler(nil)
			pe.run.Count("E3:flush:" + map[bool]string{true: "sabotaged", false: "clean"}[sabotaged != ""] + ":" + okErr(cerr))
			if ambiguous != 0 {
				pe.run.Count("E3:flush:descriptor-ambiguous")
			}
			in := map[string]any{"part": "E3 (generated-file flush into directories holding earlier output)", "outputs": nout, "files_per_output": nfiles,
				"objects": peDescribe(set), "close_failing_at_position": k, "file": sabotaged, "case": idx}
			rp := pe.replay(idx)
			fail := func(class, what string) {
				pe.run.Fail(hx.OracleFailure{Class: class, What: what, Input: in, Replay: rp})
			}
			exactOuts := 0
			for j := 0; j < nout; j++ {
				all := true
				for _, g := range gens {
					if g.out != j {
						continue
					}
					data, rerr := os.ReadFile(filepath.Join(dir, filepath.FromSlash(g.obj.key)))
					got := string(data)
					pe.run.Count("E3:relation:" + g.obj.rel)
					if rerr != nil || got != g.obj.newV {
						all = false
						if cerr == nil {
							var old *string
							if g.obj.hasOld {
								old = &g.obj.old
							}
							class, what := peTail(got, g.obj.newV, old)
							fail("flush-"+class, fmt.Sprintf("ResponseWriter.Close returned nil, but %s %s (err=%v)", g.obj.key, what, rerr))
						}
					}
				}
				if all {
					exactOuts++
				}
				if data, rerr := os.ReadFile(filepath.Join(dir, "out"+strconv.Itoa(j), "gen", "kept.txt")); rerr != nil || string(data) != "KEEP" {
					fail("overwrite-bystander-changed", fmt.Sprintf("out%d/gen/kept.txt, which the flush does not generate, changed", j))
				}
			}
			switch {
			case cerr != nil && strings.HasPrefix(cerr.Error(), "PANIC"):
				fail("panic", cerr.Error())
			case sabotaged != "" && cerr == nil:
				fail("flush-real-close-failure-not-reported", fmt.Sprintf("ResponseWriter.Close returned nil although close(2) of %s failed (EBADF) during the flush", sabotaged))
			case k < 0 && cerr != nil:
				fail("overwrite-fault-free-run-failed", fmt.Sprintf("ResponseWriter.Close over earlier output, without any failure, returned %v", cerr))
			}
			if k < 0 {
				pe.run.Case("flush\t"+strings.Repeat("0", nout), okErr(cerr)+"|flushed="+strconv.Itoa(exactOuts), true)
			} else {
				pe.run.Eval()
			}
			os.RemoveAll(dir0)
		}
	}
}

// ---------------------------------------------------------------------------------------
// E4: one plain and one atomic put over previous content, observed after every step

func (pe *peState) steps(r *hx.Rand) {
	chunkSets := [][]string{{}, {"n0"}, {"n0x", "n1yy", "n2"}, {"new0new0new0", "new1"}}
	olds := []string{"-", "o", "oLdoLd", "oLdoLdoLdoLdoLdoLd", "n0x"}
	for ci, chunks := range chunkSets {
		for oi, old := range olds {
			for _, atomic := range []bool{false, true} {
				idx := pe.next()
				if !pe.on(idx) {
					continue
				}
				dir := filepath.Join(pe.tmpRoot, "es"+strconv.Itoa(idx))
				rel := []string{"f", "sub/f.proto"}[(ci+oi)%2]
				must(os.MkdirAll(filepath.Dir(filepath.Join(dir, rel)), 0o755))
				if old != "-" {
					must(os.WriteFile(filepath.Join(dir, rel), []byte(old), 0o644))
				}
				b, err := storageos.NewProvider().NewReadWriteBucket(dir)
				must(err)
				newV := strings.Join(chunks, "")
				in := map[string]any{"part": "E4 (one put over previous content, observed after every step)", "atomic": atomic, "path": rel, "previous_content": old, "chunks": chunks, "case": idx}
				rp := pe.replay(idx)
				fail := func(class, what string) {
					pe.run.Fail(hx.OracleFailure{Class: class, What: what, Input: in, Replay: rp})
				}
				var stepErrs []string
				observe := func() string {
					final, temps := inspect(dir, rel)
					if !atomic {
						return final
					}
					tempS := "-"
					if len(temps) == 1 {
						tempS = "=" + temps[0]
					} else if len(temps) > 1 {
						tempS = "MANY"
					}
					return "final" + final + "|temp" + tempS
				}
				var obs []string
				emit := func(j int) {
					o := observe()
					if atomic {
						pe.run.Case("aprefix\t"+old+"\t"+encChunksRaw(chunks)+"\t"+strconv.Itoa(j), o, true)
					}
					obs = append(obs, o)
				}
				emit(0)
				w, perr := b.Put(ctx, rel, rcPutOpts(atomic)...)
				if perr != nil {
					fail("overwrite-fault-free-run-failed", fmt.Sprintf("Put over previous content failed: %v", perr))
					os.RemoveAll(dir)
					continue
				}
				emit(1)
				for i, c := range chunks {
					if _, werr := w.Write([]byte(c)); werr != nil {
						stepErrs = append(stepErrs, werr.Error())
					}
					emit(2 + i)
				}
				if cerr := w.Close(); cerr != nil {
					stepErrs = append(stepErrs, cerr.Error())
				}
				emit(len(chunks) + 3)
				if !atomic {
					pe.run.Case("pprefix\t"+old+"\t"+encChunksRaw(chunks), strings.Join(obs, ","), true)
				}
				pe.run.Count("E4:atomic=" + b01(atomic))
				if len(stepErrs) > 0 {
					fail("overwrite-fault-free-run-failed", fmt.Sprintf("a put over previous content without any failure returned %v", stepErrs))
				} else if data, rerr := os.ReadFile(filepath.Join(dir, rel)); rerr != nil || string(data) != newV {
					var op *string
					if old != "-" {
						op = &old
					}
					class, what := peTail(string(data), newV, op)
					fail(class, fmt.Sprintf("Put, %d Write(s) and Close (atomic=%v) all returned nil, but %q %s (err=%v)", len(chunks), atomic, rel, what, rerr))
				}
				if atomic {
					// until Close the previous content stays visible
					for j := 0; j < len(obs)-1; j++ {
						want := "final-"
						if old != "-" {
							want = "final=" + old
						}
						if !strings.HasPrefix(obs[j], want+"|") {
							fail("atomic-put-visible-before-close", fmt.Sprintf("after step %d of an atomic put the final path shows %q (previous content %q)", j, obs[j], old))
							break
						}
					}
				}
				os.RemoveAll(dir)
			}
		}
	}
}

// ---------------------------------------------------------------------------------------
// E5: a reader that is open across an overwrite

func peWord(r *hx.Rand, tag string, n int) string {
	const letters = "abcdefghijklmnopqrstuvwxyzABCDEFGHIJKLMNOPQRSTUVWXYZ0123456789"
	b := []byte(tag)
	for len(b) < n {
		b = append(b, letters[r.Intn(len(letters))])
	}
	return string(b[:n])
}

func (pe *peState) readers(r *hx.Rand) {
	backends := []string{"mem", "mem-atomic", "disk-atomic"}
	n := pe.run.N(90, 1500)
	for i := 0; i < n; i++ {
		idx := pe.next()
		if !pe.on(idx) {
			continue
		}
		cr := r.Fork(uint64(i))
		backend := backends[i%len(backends)]
		oldLen := 4 + cr.Intn(60)
		old := peWord(cr, "OLD", oldLen)
		// the new content: longer / shorter / of equal length
		newLen := []int{oldLen + 1 + cr.Intn(20), 1 + cr.Intn(oldLen), oldLen}[i/3%3]
		var ops []string
		if cr.Chance(2, 3) {
			ops = append(ops, "r"+strconv.Itoa(1+cr.Intn(oldLen)))
		}
		ops = append(ops, "p"+peWord(cr, "NEW", newLen))
		for k, extra := 0, cr.Intn(5); k < extra; k++ {
			// later writers: their first bytes fit into / exceed the replaced object's size
			wl := []int{1 + cr.Intn(oldLen), oldLen, oldLen + 1 + cr.Intn(9)}[cr.Intn(3)]
			switch cr.Intn(8) {
			case 0:
				ops = append(ops, "r"+strconv.Itoa(1+cr.Intn(oldLen)))
			case 1:
				ops = append(ops, "c")
			case 2:
				ops = append(ops, "p"+peWord(cr, "N2w", wl))
			case 3:
				ops = append(ops, "o"+peWord(cr, "oth", wl))
			case 4:
				ops = append(ops, "s"+peWord(cr, "sam", wl))
			case 5, 6:
				ops = append(ops, "w"+peWord(cr, "wri", wl))
			default:
				ops = append(ops, "x"+peWord(cr, "xbk", wl))
			}
		}
		if cr.Chance(1, 4) {
			ops = append(ops, "R")
		}
		got, final, err := peReaderRun(backend, old, ops, filepath.Join(pe.tmpRoot, "er"+strconv.Itoa(idx)))
		in := map[string]any{"part": "E5 (a reader open across an overwrite)", "backend": backend, "previous_content": old, "operations": ops, "case": idx}
		rp := pe.replay(idx)
		pe.run.Count("E5:" + backend)
		if err != nil {
			class := "overwrite-fault-free-run-failed"
			if strings.HasPrefix(err.Error(), "PANIC") {
				class = "panic"
			}
			pe.run.Fail(hx.OracleFailure{Class: class, What: fmt.Sprintf("a reader across an overwrite (%s): %v", backend, err), Input: in, Replay: rp})
			continue
		}
		pe.run.Case("rover\t"+backend+"\t"+old+"\t"+strings.Join(ops, ","), got+"|"+final, true)
		if got != old {
			pe.run.Fail(hx.OracleFailure{Class: "reader-across-overwrite-torn", What: fmt.Sprintf("a reader opened on %q (%s) before the path was overwritten delivered %q: neither the previous content nor any complete content ever put at the path", old, backend, got), Input: in, Replay: rp})
		}
	}
}

// peReaderRun executes the operations of an E5 case (see the `rover` line in lean/Driver/C15.lean).
func peReaderRun(backend, old string, ops []string, dir string) (got, final string, err error) {
	defer func() {
		if p := recover(); p != nil {
			err = fmt.Errorf("PANIC: %v", p)
		}
	}()
	const path, otherPath = "a/f.proto", "b/g.txt"
	var b storage.ReadWriteBucket
	var opts []storage.PutOption
	switch backend {
	case "mem":
		b = storagemem.NewReadWriteBucket()
	case "mem-atomic":
		b = storagemem.NewReadWriteBucket()
		opts = rcPutOpts(true)
	default:
		must(os.MkdirAll(dir, 0o755))
		defer os.RemoveAll(dir)
		d, e := storageos.NewProvider().NewReadWriteBucket(dir)
		must(e)
		b = d
		opts = rcPutOpts(true)
	}
	otherBucket := storagemem.NewReadWriteBucket()
	if err := bk.PutString(ctx, b, path, old, opts...); err != nil {
		return "", "", err
	}
	rd, err := b.Get(ctx, path)
	if err != nil {
		return "", "", err
	}
	defer rd.Close()
	var sb strings.Builder
	var flight []storage.WriteObjectCloser
	begin := func(bucket storage.WriteBucket, p, c string) error {
		w, err := bucket.Put(ctx, p, opts...)
		if err != nil {
			return err
		}
		flight = append(flight, w)
		_, err = w.Write([]byte(c))
		return err
	}
	nOther := 0
	for _, op := range append(append([]string{}, ops...), "R") {
		var e error
		switch op[0] {
		case 'r', 'R':
			k := 1 << 20
			if op[0] == 'r' {
				k, _ = strconv.Atoi(op[1:])
			}
			buf := make([]byte, k)
			m, rerr := io.ReadFull(rd, buf)
			sb.Write(buf[:m])
			if rerr != nil && rerr != io.EOF && rerr != io.ErrUnexpectedEOF {
				e = rerr
			}
		case 'p':
			e = bk.PutString(ctx, b, path, op[1:], opts...)
		case 'o':
			nOther++
			e = bk.PutString(ctx, b, otherPath+strconv.Itoa(nOther), op[1:], opts...)
		case 's':
			e = begin(b, path, op[1:])
		case 'w':
			nOther++
			e = begin(b, otherPath+strconv.Itoa(nOther), op[1:])
		case 'x':
			nOther++
			e = begin(otherBucket, otherPath+strconv.Itoa(nOther), op[1:])
		case 'c':
			if len(flight) > 0 {
				e = flight[0].Close()
				flight = flight[1:]
			}
		}
		if e != nil {
			return "", "", fmt.Errorf("operation %q failed: %w", op, e)
		}
	}
	for _, w := range flight {
		if e := w.Close(); e != nil {
			return "", "", fmt.Errorf("closing an in-flight writer failed: %w", e)
		}
	}
	final, err = bk.ReadAll(ctx, b, path)
	return sb.String(), final, err
}
