// Command c15 is the correspondence + oracle harness for property C15 ("write failures are
// always reported and atomic puts are all-or-nothing").
//
// Part A — fault enumeration: a fault-injecting WriteBucket wrapper fails a chosen primitive
// (the Put, the i-th Write or the Close of one object).  For every generated operation
// (PutPath, CopyReader, CopyPath, Copy, Untar, Unzip) the harness first runs it fault-free
// with a tracing wrapper to learn the primitive trace, then re-runs it once per primitive with
// that primitive failing (all pairs in the thorough tier), and compares {error?, destination
// contents} with the Lean model.  Oracle: fault fired ⇒ error returned; nil returned ⇒
// destination complete.  Breadth (oracle only): Tar/Zip into a failing io.Writer, buf.yaml /
// buf.lock writers, CopyReadObject, ForWriteObject.
//
// Part B — atomic puts on disk: natural in-process failures (rename onto a directory) and a
// kill campaign: a child process performs an atomic put and SIGKILLs itself after step j
// (hook points in storageos.writeObjectCloser.Close under build tag verif); the parent
// inspects the directory and compares with the model's prefix state.
//
// Part X (realclose.go) — REAL close(2) / write(2) failures of the files behind a disk bucket
// (descriptor closed / made read-only behind the bucket's back, also from the verif hook inside
// storageos' Close), every helper, plain and atomic, every position of multi-object copies,
// second Close, the generated-file flush.
//
// Part E (preexist.go) — PRE-EXISTING DESTINATIONS: every helper of parts A / B / X writes into a
// destination that already holds longer / shorter / equal-length / identical / empty content,
// fault-free and with wrapper faults and real close(2)/write(2) failures: a helper that returns
// nil leaves exactly the new content in every object it wrote.
package main

import (
	"archive/tar"
	"bytes"
	"context"
	"crypto/sha256"
	"encoding/hex"
	"errors"
	"fmt"
	"io"
	"log/slog"
	"os"
	"os/exec"
	"os/signal"
	"path/filepath"
	"sort"
	"strconv"
	"strings"
	"sync"
	"syscall"

	"github.com/bufbuild/buf/private/bufpkg/bufconfig"
	"github.com/bufbuild/buf/private/bufpkg/bufprotoplugin/bufprotopluginos"
	"github.com/bufbuild/buf/private/pkg/normalpath"
	"github.com/bufbuild/buf/private/pkg/storage"
	"github.com/bufbuild/buf/private/pkg/storage/storagearchive"
	"github.com/bufbuild/buf/private/pkg/storage/storagemem"
	"github.com/bufbuild/buf/private/pkg/storage/storageos"
	"github.com/bufbuild/buf/private/pkg/thread"
	"github.com/bufbuild/buf/private/pkg/verifhook"
	"github.com/bufbuild/verifharness/internal/bk"
	"github.com/bufbuild/verifharness/internal/hx"
	"github.com/klauspost/compress/zip"
	"google.golang.org/protobuf/types/pluginpb"
)

var ctx = context.Background()

// ---------------------------------------------------------------------------------------
// fault-injecting wrapper

type prim struct {
	path string
	kind byte // p w c
	idx  int
}

func (p prim) enc() string { return hx.Enc(p.path) + ":" + string(p.kind) + ":" + strconv.Itoa(p.idx) }
func (p prim) String() string {
	return fmt.Sprintf("%s(%q)#%d", map[byte]string{'p': "Put", 'w': "Write", 'c': "Close"}[p.kind], p.path, p.idx)
}

var errInjected = errors.New("injected fault")

type faultyBucket struct {
	delegate storage.WriteBucket
	errOf    func(prim) error // the error VALUE a fired fault returns (nil: errInjected), see errkinds.go
	faults   map[prim]bool
	mu       sync.Mutex
	trace    []prim              // every primitive executed
	chunks   map[string][]string // path -> chunk contents
	fired    []prim
	// a helper that has returned is over: objects it opened are closed, no primitive follows
	returned     bool
	open         int
	openAtReturn int
	late         *lateLog
}

// lateLog outlives its faultyBucket: primitives recorded after the helper returned (leftover
// jobs of a Parallelize that did not wait) are swept at the end of part A.
type lateLog struct {
	mu    sync.Mutex
	prims []prim
}

func (l *lateLog) get() []prim {
	l.mu.Lock()
	defer l.mu.Unlock()
	return append([]prim{}, l.prims...)
}

// markReturned is called when the helper under test has returned.
func (b *faultyBucket) markReturned() {
	b.mu.Lock()
	b.returned = true
	b.openAtReturn = b.open
	b.mu.Unlock()
}

func (b *faultyBucket) opened(d int) {
	b.mu.Lock()
	b.open += d
	b.mu.Unlock()
}

func newFaulty(delegate storage.WriteBucket, faults []prim) *faultyBucket {
	m := map[prim]bool{}
	for _, f := range faults {
		m[f] = true
	}
	return &faultyBucket{delegate: delegate, faults: m, chunks: map[string][]string{}, late: &lateLog{}}
}

func (b *faultyBucket) hit(p prim) bool {
	b.mu.Lock()
	defer b.mu.Unlock()
	if b.returned {
		b.late.mu.Lock()
		b.late.prims = append(b.late.prims, p)
		b.late.mu.Unlock()
	}
	b.trace = append(b.trace, p)
	if b.faults[p] {
		b.fired = append(b.fired, p)
		return true
	}
	return false
}

func (b *faultyBucket) err(p prim) error {
	if b.errOf == nil {
		return errInjected
	}
	return b.errOf(p)
}

func (b *faultyBucket) Put(ctx context.Context, path string, opts ...storage.PutOption) (storage.WriteObjectCloser, error) {
	if b.hit(prim{path, 'p', 0}) {
		return nil, b.err(prim{path, 'p', 0})
	}
	w, err := b.delegate.Put(ctx, path, opts...)
	if err != nil {
		return nil, err
	}
	b.opened(1)
	return &faultyObject{b: b, path: path, w: w}, nil
}
func (b *faultyBucket) Delete(ctx context.Context, path string) error {
	return b.delegate.Delete(ctx, path)
}
func (b *faultyBucket) DeleteAll(ctx context.Context, prefix string) error {
	return b.delegate.DeleteAll(ctx, prefix)
}
func (b *faultyBucket) SetExternalAndLocalPathsSupported() bool { return false }

type faultyObject struct {
	b    *faultyBucket
	path string
	w    storage.WriteObjectCloser
	n    int
}

func (o *faultyObject) Write(p []byte) (int, error) {
	i := o.n
	o.n++
	o.b.mu.Lock()
	o.b.chunks[o.path] = append(o.b.chunks[o.path], string(p))
	o.b.mu.Unlock()
	if o.b.hit(prim{o.path, 'w', i}) {
		return 0, o.b.err(prim{o.path, 'w', i})
	}
	return o.w.Write(p)
}
func (o *faultyObject) Close() error {
	defer o.b.opened(-1)
	if o.b.hit(prim{o.path, 'c', 0}) {
		o.w.Close()
		return o.b.err(prim{o.path, 'c', 0})
	}
	return o.w.Close()
}
func (o *faultyObject) SetExternalPath(string) error { return storage.ErrSetExternalPathUnsupported }
func (o *faultyObject) SetLocalPath(string) error    { return storage.ErrSetLocalPathUnsupported }

// ---------------------------------------------------------------------------------------
// contents / chunk tokens

func tok(chunk string) string {
	if chunk == "" {
		return "" // a Write of zero bytes: one (empty) chunk
	}
	if len(chunk) <= 24 && isAlnum(chunk) && chunk != "" {
		return chunk
	}
	h := sha256.Sum256([]byte(chunk))
	return "B" + strconv.Itoa(len(chunk)) + "h" + hex.EncodeToString(h[:3])
}

func isAlnum(s string) bool {
	for _, c := range s {
		if !(c >= '0' && c <= '9' || c >= 'a' && c <= 'z' || c >= 'A' && c <= 'Z') {
			return false
		}
	}
	return true
}

// canon renders a destination content as the concatenation of the tokens of the known chunks
// it is made of (the wrapper writes whole chunks or nothing).
func canon(content string, chunks []string) string {
	var sb strings.Builder
	rest := content
	for _, c := range chunks {
		if c != "" && strings.HasPrefix(rest, c) {
			sb.WriteString(tok(c))
			rest = rest[len(c):]
		} else {
			break
		}
	}
	if rest != "" {
		sb.WriteString("?leftover" + strconv.Itoa(len(rest)))
	}
	return sb.String()
}

func encChunks(chunks []string) string {
	if len(chunks) == 0 {
		return "-"
	}
	ts := make([]string, len(chunks))
	for i, c := range chunks {
		ts[i] = tok(c)
	}
	return strings.Join(ts, "+")
}

func genContent(r *hx.Rand, i int) string {
	switch r.Intn(8) {
	case 0:
		// large: several io.Copy chunks
		n := 40000 + r.Intn(90000)
		var sb strings.Builder
		for sb.Len() < n {
			sb.WriteString("x" + strconv.Itoa(i) + "-0123456789abcdef")
		}
		return sb.String()[:n]
	default:
		return "c" + strconv.Itoa(i) + "v" + strconv.Itoa(r.Intn(1000))
	}
}

// plainReader hides WriteTo so that io.Copy really issues several Write calls.
type plainReader struct{ r io.Reader }

func (p plainReader) Read(b []byte) (int, error) { return p.r.Read(b) }

// ---------------------------------------------------------------------------------------
// one operation under test

type opCase struct {
	kind     string  // putpath copyreader copypath copy untar unzip
	objs     []bk.KV // source objects / archive entries (K = path or entry name)
	par      int     // parallelism for copy
	atomic   bool
	destDisk bool
	old      []bk.KV // previous content of the destination (part E, preexist.go); nil: a fresh destination
}

func (c opCase) describe() map[string]any {
	ks := make([]string, len(c.objs))
	for i, o := range c.objs {
		ks[i] = fmt.Sprintf("%s (%d bytes)", o.K, len(o.V))
	}
	return map[string]any{"op": c.kind, "objects": ks, "parallelism": c.par, "atomic": c.atomic, "dest_disk": c.destDisk}
}

var pathPool = []string{"a/x", "a/y.proto", "b", "c/d/e", "a.b", "s t/u", "é/n", "z/1", "z/2", "q"}
var spellings = []string{"a//x", "./b", "c/d/../d/e", "q/"}
var archiveNames = []string{"a/x", "top/b", "./c", "d//e", "../evil", "/abs", "f/./g", "h"}

func genCase(r *hx.Rand) opCase {
	kinds := []string{"putpath", "copyreader", "forwriteobject", "copyreadobject", "copypath", "copy", "copy", "copy", "untar", "unzip"}
	c := opCase{kind: hx.Pick(r, kinds), par: 1, destDisk: r.Chance(1, 4)}
	switch c.kind {
	case "putpath", "copyreader", "copypath", "forwriteobject", "copyreadobject":
		p := hx.Pick(r, pathPool)
		if c.kind != "copypath" && c.kind != "copyreadobject" && r.Chance(1, 4) {
			p = hx.Pick(r, spellings)
		}
		c.objs = []bk.KV{{K: p, V: genContent(r, 0)}}
		if c.kind == "putpath" && r.Chance(1, 6) {
			c.objs[0].V = ""
		}
	case "copy":
		n := 1 + r.Intn(6)
		perm := append([]string{}, pathPool...)
		hx.Shuffle(r, perm)
		for i := 0; i < n; i++ {
			c.objs = append(c.objs, bk.KV{K: perm[i], V: genContent(r, i)})
		}
		c.par = hx.Pick(r, []int{1, 1, 4, 16})
		c.atomic = r.Chance(1, 3)
	default:
		n := 1 + r.Intn(4)
		perm := append([]string{}, archiveNames...)
		hx.Shuffle(r, perm)
		for i := 0; i < n; i++ {
			c.objs = append(c.objs, bk.KV{K: perm[i], V: genContent(r, i)})
		}
	}
	return c
}

// run executes the operation against a fresh destination behind the wrapper.
func (c opCase) run(faults []prim, tmp string) (err error, fb *faultyBucket, dest storage.ReadWriteBucket, count int) {
	return c.runKind(faults, tmp, nil)
}

// runKind: like run, every fired fault returning the error value of kind k (nil: errInjected).
func (c opCase) runKind(faults []prim, tmp string, k *errKind) (err error, fb *faultyBucket, dest storage.ReadWriteBucket, count int) {
	if c.destDisk {
		os.RemoveAll(tmp)
		must(os.MkdirAll(tmp, 0o755))
		d, e := storageos.NewProvider().NewReadWriteBucket(tmp)
		must(e)
		dest = d
	} else {
		dest = storagemem.NewReadWriteBucket()
	}
	for _, o := range c.old {
		must(bk.PutString(ctx, dest, o.K, o.V))
	}
	fb = newFaulty(dest, faults)
	if k != nil {
		fb.errOf = k.mk
	}
	defer func() {
		if p := recover(); p != nil {
			err = fmt.Errorf("PANIC: %v", p)
		}
		fb.markReturned()
	}()
	switch c.kind {
	case "putpath":
		err = storage.PutPath(ctx, fb, c.objs[0].K, []byte(c.objs[0].V))
	case "copyreader":
		err = storage.CopyReader(ctx, fb, plainReader{strings.NewReader(c.objs[0].V)}, c.objs[0].K)
	case "forwriteobject":
		err = storage.ForWriteObject(ctx, fb, c.objs[0].K, func(w storage.WriteObject) error {
			_, err := io.Copy(w, plainReader{strings.NewReader(c.objs[0].V)})
			return err
		})
	case "copyreadobject":
		src := storagemem.NewReadWriteBucket()
		must(bk.PutString(ctx, src, c.objs[0].K, c.objs[0].V))
		ro, e := src.Get(ctx, c.objs[0].K)
		must(e)
		err = storage.CopyReadObject(ctx, fb, ro)
		ro.Close()
	case "copypath":
		src := storagemem.NewReadWriteBucket()
		must(bk.PutString(ctx, src, c.objs[0].K, c.objs[0].V))
		err = storage.CopyPath(ctx, src, c.objs[0].K, fb, c.objs[0].K)
	case "copy":
		src := storagemem.NewReadWriteBucket()
		for _, o := range c.objs {
			must(bk.PutString(ctx, src, o.K, o.V))
		}
		old := thread.Parallelism()
		thread.SetParallelism(c.par)
		var opts []storage.CopyOption
		if c.atomic {
			opts = append(opts, storage.CopyWithAtomic())
		}
		count, err = storage.Copy(ctx, src, fb, opts...)
		thread.SetParallelism(old)
	case "untar":
		var buf bytes.Buffer
		tw := tar.NewWriter(&buf)
		for _, o := range c.objs {
			must(tw.WriteHeader(&tar.Header{Typeflag: tar.TypeReg, Name: o.K, Size: int64(len(o.V)), Mode: 0o644}))
			tw.Write([]byte(o.V))
		}
		must(tw.Close())
		err = storagearchive.Untar(ctx, &buf, fb)
	case "unzip":
		var buf bytes.Buffer
		zw := zip.NewWriter(&buf)
		for _, o := range c.objs {
			w, e := zw.CreateHeader(&zip.FileHeader{Name: o.K, Method: zip.Deflate})
			must(e)
			w.Write([]byte(o.V))
		}
		must(zw.Close())
		err = storagearchive.Unzip(ctx, bytes.NewReader(buf.Bytes()), int64(buf.Len()), fb)
	}
	return
}

func dumpDest(dest storage.ReadBucket, chunks map[string][]string) string {
	kvs, err := bk.WalkAll(ctx, dest, "")
	if err != nil {
		return "WALK-ERROR:" + err.Error()
	}
	for i := range kvs {
		// chunk lists are keyed by the path as given to Put; find by normalised form
		var cs []string
		for k, v := range chunks {
			if n, e := normalpath.NormalizeAndValidate(k); e == nil && n == kvs[i].K {
				cs = v
			}
		}
		kvs[i].V = canon(kvs[i].V, cs)
	}
	return bk.Dump(kvs)
}

func encFaults(fs []prim) string {
	if len(fs) == 0 {
		return "-"
	}
	ss := make([]string, len(fs))
	for i, f := range fs {
		ss[i] = f.enc()
	}
	return strings.Join(ss, ",")
}

// modelLine builds the protocol line; jobs are listed in the order the implementation ran
// them (from the trace of this very run) so that scheduling does not matter.
func (c opCase) modelLine(fb *faultyBucket, base map[string][]string, faults []prim) string {
	chunksOf := func(path string) []string {
		if cs, ok := base[path]; ok {
			return cs
		}
		return nil
	}
	switch c.kind {
	case "putpath", "copyreader", "forwriteobject", "copyreadobject":
		return "wobj\t" + c.kind + "\t" + hx.Enc(c.objs[0].K) + "\t" + encChunks(chunksOf(c.objs[0].K)) + "\t" + encFaults(faults)
	case "copypath", "copy":
		var order []string
		seen := map[string]bool{}
		for _, p := range fb.trace {
			if p.kind == 'p' && !seen[p.path] {
				seen[p.path] = true
				order = append(order, p.path)
			}
		}
		js := make([]string, len(order))
		for i, p := range order {
			js[i] = hx.Enc(p) + "=" + encChunks(chunksOf(p))
		}
		j := "-"
		if len(js) > 0 {
			j = strings.Join(js, ",")
		}
		return "copy\t" + j + "\t" + encFaults(faults)
	default:
		es := make([]string, len(c.objs))
		for i, o := range c.objs {
			// chunks are keyed by the (normalised) path handed to Put
			var cs []string
			if n, err := normalpath.NormalizeAndValidate(o.K); err == nil {
				cs = chunksOf(n)
			}
			es[i] = hx.Enc(o.K) + "=" + encChunks(cs)
		}
		return c.kind + "\t" + strings.Join(es, ",") + "\t" + encFaults(faults)
	}
}

func partA(run *hx.Run, r *hx.Rand, tmpRoot string) {
	n := run.N(220, 2500)
	for i := 0; i < n; i++ {
		cr := r.Fork(uint64(i))
		c := genCase(cr)
		tmp := filepath.Join(tmpRoot, "a"+strconv.Itoa(i))
		// 1. fault-free traced run
		err0, fb0, dest0, cnt0 := c.run(nil, tmp)
		base := fb0.chunks
		trace := append([]prim{}, fb0.trace...)
		line := c.modelLine(fb0, base, nil)
		out := resultLine(c, err0, cnt0, dest0, fb0, base)
		run.Case(line, out, err0 == nil)
		run.Count("A:" + c.kind + ":faultfree:" + okErr(err0))
		oracleA(run, i, c, nil, err0, fb0, dest0, cnt0)
		// 2. every single fault position; thorough: all pairs (bounded)
		var scheds [][]prim
		for _, p := range trace {
			scheds = append(scheds, []prim{p})
		}
		if run.Thorough() || len(trace) <= 6 {
			for a := 0; a < len(trace); a++ {
				for b := a + 1; b < len(trace) && len(scheds) < 120; b++ {
					scheds = append(scheds, []prim{trace[a], trace[b]})
				}
			}
		}
		for j, fs := range scheds {
			// error-KIND stratum of this schedule (errkinds.go): the model line is the same for
			// every kind — whether a failure is reported must not depend on what the error
			// value looks like (ENOENT, io.EOF, context.Canceled, a joined error, ...)
			ek := &errKinds[(i+j)%len(errKinds)]
			err, fb, dest, cnt := c.runKind(fs, tmp, ek)
			line := c.modelLine(fb, base, fs)
			out := resultLine(c, err, cnt, dest, fb, base)
			run.Case(line, out, true)
			run.Count("A:" + c.kind + ":faults=" + strconv.Itoa(len(fs)) + ":" + okErr(err))
			run.Count("A:errkind:" + ek.name)
			for _, f := range fb.fired {
				run.Count("A:fired:" + string(f.kind))
			}
			oracleAKind(run, i, c, fs, err, fb, dest, cnt, ek.name)
		}
		if c.destDisk {
			os.RemoveAll(tmp)
		}
		if i < 3 {
			d := c.describe()
			d["trace"] = fmt.Sprint(trace)
			d["part"] = "A"
			run.Sample(d)
		}
	}
}

func okErr(err error) string {
	if err == nil {
		return "ok"
	}
	return "err"
}

func resultLine(c opCase, err error, cnt int, dest storage.ReadBucket, fb *faultyBucket, base map[string][]string) string {
	res := okErr(err)
	if c.kind == "copy" || c.kind == "copypath" {
		if c.kind == "copypath" {
			// CopyPath has no count; the model counts successful jobs
			cnt = 0
			if err == nil {
				cnt = 1
			}
		}
		res += ":" + strconv.Itoa(cnt)
	}
	return res + "|" + dumpDest(dest, base) + "|fired=" + strconv.Itoa(len(fb.fired))
}

type lateEntry struct {
	idx  int
	in   map[string]any
	kind string
	par  int
	log  *lateLog
}

var lateSweep []lateEntry

// sweepLate: after part A, no run may have recorded a primitive after its helper returned.
func sweepLate(run *hx.Run) {
	n := 0
	for _, e := range lateSweep {
		if ps := e.log.get(); len(ps) > 0 {
			n++
			run.Fail(hx.OracleFailure{Class: "primitive-after-helper-returned", What: fmt.Sprintf("after %s (parallelism %d) had returned, its leftover jobs still issued %v on the destination", e.kind, e.par, ps), Input: e.in,
				Replay: fmt.Sprintf("build/c15 --out /tmp/c15-replay --seed %d --tier %s --only %d", run.Seed, run.Tier, e.idx)})
		}
	}
	run.CountN("A:runs-with-primitives-after-return", n)
	run.CountN("A:runs-swept-for-late-primitives", len(lateSweep))
	lateSweep = nil
}

func oracleA(run *hx.Run, idx int, c opCase, faults []prim, err error, fb *faultyBucket, dest storage.ReadBucket, cnt int) {
	oracleAKind(run, idx, c, faults, err, fb, dest, cnt, "injected")
}

func oracleAKind(run *hx.Run, idx int, c opCase, faults []prim, err error, fb *faultyBucket, dest storage.ReadBucket, cnt int, kind string) {
	in := c.describe()
	in["faults"] = fmt.Sprint(faults)
	in["error_kind"] = kind
	replay := fmt.Sprintf("build/c15 --out /tmp/c15-replay --seed %d --tier %s --only %d", run.Seed, run.Tier, idx)
	if err != nil && strings.HasPrefix(err.Error(), "PANIC") {
		run.Fail(hx.OracleFailure{Class: "panic", What: err.Error(), Input: in, Replay: replay})
		return
	}
	if fb.openAtReturn > 0 {
		run.Fail(hx.OracleFailure{Class: "helper-returned-with-open-objects", What: fmt.Sprintf("%s (parallelism %d) returned %v while %d object(s) it had opened were not yet closed: it did not wait for its own jobs", c.kind, c.par, err, fb.openAtReturn), Input: in, Replay: replay})
	}
	lateSweep = append(lateSweep, lateEntry{idx: idx, in: in, kind: c.kind, par: c.par, log: fb.late})
	if len(fb.fired) > 0 && err == nil {
		run.Fail(hx.OracleFailure{Class: "fault-not-reported", What: fmt.Sprintf("%s returned nil although %v failed", c.kind, fb.fired), Input: in, Replay: replay})
	}
	if err == nil {
		// destination must hold every source object in full
		for _, o := range c.objs {
			want := o.V
			p := o.K
			if c.kind == "untar" || c.kind == "unzip" {
				n, e := normalpath.NormalizeAndValidate(o.K)
				if e != nil || n == "." {
					continue
				}
				p = n
			}
			got, gerr := bk.ReadAll(ctx, dest, p)
			if gerr != nil || got != want {
				run.Fail(hx.OracleFailure{Class: "success-but-incomplete", What: fmt.Sprintf("%s returned nil but destination object %q is missing or truncated (%d of %d bytes, err=%v)", c.kind, p, len(got), len(want), gerr), Input: in, Replay: replay})
			}
		}
		if c.kind == "copy" && cnt != len(c.objs) {
			run.Fail(hx.OracleFailure{Class: "copy-count", What: fmt.Sprintf("Copy returned count %d for %d objects", cnt, len(c.objs)), Input: in, Replay: replay})
		}
	}
}

// ---------------------------------------------------------------------------------------
// breadth: oracle-only fault checks on other writers

type failingWriter struct {
	n, failAt int
}

func (w *failingWriter) Write(p []byte) (int, error) {
	i := w.n
	w.n++
	if i == w.failAt {
		return 0, errInjected
	}
	return len(p), nil
}

func partBreadth(run *hx.Run, r *hx.Rand) {
	n := run.N(40, 400)
	for i := 0; i < n; i++ {
		cr := r.Fork(uint64(i))
		src := storagemem.NewReadWriteBucket()
		no := 1 + cr.Intn(4)
		for j := 0; j < no; j++ {
			must(bk.PutString(ctx, src, pathPool[j], genContent(cr, j)))
		}
		for _, kind := range []string{"tar", "zip"} {
			cw := &failingWriter{failAt: -1}
			if kind == "tar" {
				must(storagearchive.Tar(ctx, src, cw))
			} else {
				must(storagearchive.Zip(ctx, src, cw, true))
			}
			total := cw.n
			for _, pos := range []struct {
				k           int
				body, close string
			}{{0, "1", "0"}, {total - 1, "0", "1"}, {-1, "0", "0"}} {
				fw := &failingWriter{failAt: pos.k}
				var err error
				if kind == "tar" {
					err = storagearchive.Tar(ctx, src, fw)
				} else {
					err = storagearchive.Zip(ctx, src, fw, true)
				}
				run.Case("archw\t"+kind+"\t"+pos.body+"\t"+pos.close, okErr(err), pos.k >= 0)
			}
			for k := 0; k < total; k++ {
				fw := &failingWriter{failAt: k}
				var err error
				if kind == "tar" {
					err = storagearchive.Tar(ctx, src, fw)
				} else {
					err = storagearchive.Zip(ctx, src, fw, true)
				}
				run.Eval()
				run.Distinct(fmt.Sprintf("%s-%d-%d-%d", kind, i, k, total))
				run.Count("breadth:" + kind + ":" + okErr(err))
				if err == nil {
					run.Fail(hx.OracleFailure{Class: "archive-writer-fault-not-reported", What: fmt.Sprintf("%s returned nil although write %d of %d to the output failed", kind, k, total),
						Input: map[string]any{"kind": kind, "objects": no, "fail_write": k}, Replay: fmt.Sprintf("build/c15 --out /tmp/c15-replay --seed %d --tier %s", run.Seed, run.Tier)})
				}
			}
		}
		// buf.yaml / buf.lock writers and the generic helpers through the faulty wrapper
		type wr struct {
			name string
			f    func(b storage.WriteBucket) error
		}
		writers := []wr{
			{"bufyaml", func(b storage.WriteBucket) error {
				f, err := bufconfig.NewBufYAMLFile(bufconfig.FileVersionV2, []bufconfig.ModuleConfig{bufconfig.DefaultModuleConfigV2}, nil, nil)
				if err != nil {
					panic(err)
				}
				return bufconfig.PutBufYAMLFileForPrefix(ctx, b, ".", f)
			}},
			{"buflock", func(b storage.WriteBucket) error {
				f, err := bufconfig.NewBufLockFile(bufconfig.FileVersionV2, nil, nil)
				if err != nil {
					panic(err)
				}
				return bufconfig.PutBufLockFileForPrefix(ctx, b, ".", f)
			}},
			{"forwriteobject", func(b storage.WriteBucket) error {
				return storage.ForWriteObject(ctx, b, "a/x", func(w storage.WriteObject) error {
					_, err := w.Write([]byte("data"))
					return err
				})
			}},
			{"copyreadobject", func(b storage.WriteBucket) error {
				ro, err := src.Get(ctx, pathPool[0])
				if err != nil {
					panic(err)
				}
				defer ro.Close()
				return storage.CopyReadObject(ctx, b, ro)
			}},
		}
		for _, w := range writers {
			fb0 := newFaulty(storagemem.NewReadWriteBucket(), nil)
			if err := w.f(fb0); err != nil {
				panic(fmt.Sprintf("%s fault-free: %v", w.name, err))
			}
			for _, p := range fb0.trace {
				fb := newFaulty(storagemem.NewReadWriteBucket(), []prim{p})
				err := w.f(fb)
				run.Eval()
				run.Distinct(w.name + p.enc() + strconv.Itoa(i))
				run.Count("breadth:" + w.name + ":" + okErr(err))
				if len(fb.fired) > 0 && err == nil {
					run.Fail(hx.OracleFailure{Class: "fault-not-reported", What: fmt.Sprintf("%s returned nil although %v failed", w.name, fb.fired),
						Input: map[string]any{"writer": w.name, "fault": p.String()}, Replay: fmt.Sprintf("build/c15 --out /tmp/c15-replay --seed %d --tier %s", run.Seed, run.Tier)})
				}
			}
		}
	}
}

// ---------------------------------------------------------------------------------------
// Part F: the generated-file flush (bufprotopluginos.ResponseWriter.Close)

func partFlush(run *hx.Run, r *hx.Rand, tmpRoot string) {
	n := run.N(60, 600)
	for i := 0; i < n; i++ {
		cr := r.Fork(uint64(i))
		nout := 1 + cr.Intn(4)
		fails := make([]bool, nout)
		for j := range fails {
			fails[j] = cr.Chance(1, 3)
		}
		dir := filepath.Join(tmpRoot, "fl"+strconv.Itoa(i))
		must(os.MkdirAll(dir, 0o755))
		rw := bufprotopluginos.NewResponseWriter(slog.New(slog.NewTextHandler(io.Discard, nil)), storageos.NewProvider(), bufprotopluginos.ResponseWriterWithCreateOutDirIfNotExists())
		addErr := false
		for j := 0; j < nout; j++ {
			out := filepath.Join(dir, "out"+strconv.Itoa(j))
			must(os.MkdirAll(out, 0o755))
			if fails[j] {
				// "gen" exists as a regular file, so flushing gen/a.txt into it must fail
				must(os.WriteFile(filepath.Join(out, "gen"), []byte("x"), 0o644))
			}
			name := "gen/a.txt"
			content := "content" + strconv.Itoa(j)
			resp := &pluginpb.CodeGeneratorResponse{File: []*pluginpb.CodeGeneratorResponse_File{{Name: &name, Content: &content}}}
			if err := rw.AddResponse(ctx, resp, out); err != nil {
				addErr = true
			}
		}
		if addErr {
			run.Count("F:add-error")
			os.RemoveAll(dir)
			continue
		}
		err := rw.Close()
		flushed := 0
		for j := 0; j < nout; j++ {
			if data, rerr := os.ReadFile(filepath.Join(dir, "out"+strconv.Itoa(j), "gen", "a.txt")); rerr == nil && string(data) == "content"+strconv.Itoa(j) {
				flushed++
			}
		}
		bits := ""
		anyFail := false
		for _, f := range fails {
			if f {
				bits += "1"
				anyFail = true
			} else {
				bits += "0"
			}
		}
		run.Case("flush\t"+bits, okErr(err)+"|flushed="+strconv.Itoa(flushed), anyFail)
		run.Count("F:flush:" + okErr(err))
		if anyFail && err == nil {
			run.Fail(hx.OracleFailure{Class: "flush-fault-not-reported", What: fmt.Sprintf("ResponseWriter.Close returned nil although the flush of an output failed (outputs failing: %v)", fails),
				Input: map[string]any{"outs": nout, "fails": fails}, Replay: fmt.Sprintf("build/c15 --out /tmp/c15-replay --seed %d --tier %s", run.Seed, run.Tier)})
		}
		if err == nil && flushed != nout {
			run.Fail(hx.OracleFailure{Class: "flush-success-but-missing", What: fmt.Sprintf("ResponseWriter.Close returned nil but only %d of %d outputs hold their generated file", flushed, nout),
				Input: map[string]any{"outs": nout, "fails": fails}, Replay: fmt.Sprintf("build/c15 --out /tmp/c15-replay --seed %d --tier %s", run.Seed, run.Tier)})
		}
		os.RemoveAll(dir)
	}
}

// ---------------------------------------------------------------------------------------
// Part B: atomic puts on disk

func childMain(args []string) {
	// child <dir> <relpath> <killstep> <chunk>...
	dir, rel := args[0], args[1]
	kill, _ := strconv.Atoi(args[2])
	chunks := args[3:]
	die := func() { syscall.Kill(os.Getpid(), syscall.SIGKILL); select {} }
	n := len(chunks)
	verifhook.SetHandler(func(point string) {
		switch point {
		case "storageos.close.before_rename":
			if kill == n+2 {
				die()
			}
		case "storageos.close.after_rename":
			if kill == n+3 {
				die()
			}
		}
	})
	b, err := storageos.NewProvider().NewReadWriteBucket(dir)
	if err != nil {
		os.Exit(3)
	}
	if kill == 0 {
		die()
	}
	w, err := b.Put(ctx, rel, storage.PutWithAtomic())
	if err != nil {
		os.Exit(4)
	}
	if kill == 1 {
		die()
	}
	for i, c := range chunks {
		if _, err := w.Write([]byte(c)); err != nil {
			os.Exit(5)
		}
		if kill == 2+i {
			die()
		}
	}
	if err := w.Close(); err != nil {
		os.Exit(6)
	}
	os.Exit(0)
}

// childFsize: an atomic (or plain) put whose write really fails inside the kernel: the process
// lowers RLIMIT_FSIZE so that a write crossing the limit is short and returns EFBIG.
// args: <dir> <relpath> <limit> <atomic 0|1> <chunk>...
func childFsize(args []string) {
	dir, rel := args[0], args[1]
	limit, _ := strconv.Atoi(args[2])
	atomic := args[3] == "1"
	chunks := args[4:]
	signal.Ignore(syscall.SIGXFSZ)
	if err := syscall.Setrlimit(syscall.RLIMIT_FSIZE, &syscall.Rlimit{Cur: uint64(limit), Max: uint64(limit)}); err != nil {
		os.Exit(7)
	}
	b, err := storageos.NewProvider().NewReadWriteBucket(dir)
	if err != nil {
		os.Exit(3)
	}
	var opts []storage.PutOption
	if atomic {
		opts = append(opts, storage.PutWithAtomic())
	}
	w, err := b.Put(ctx, rel, opts...)
	if err != nil {
		os.Exit(4)
	}
	werr := false
	for _, c := range chunks {
		if _, err := w.Write([]byte(c)); err != nil {
			werr = true
			break // callers (io.Copy, PutPath) stop at the first write error
		}
	}
	cerr := w.Close()
	switch {
	case werr && cerr != nil:
		os.Exit(20)
	case werr:
		os.Exit(21) // write failed but Close reported success
	case cerr != nil:
		os.Exit(22)
	}
	os.Exit(0)
}

func inspect(dir, rel string) (final string, temps []string) {
	final = "-"
	if data, err := os.ReadFile(filepath.Join(dir, rel)); err == nil {
		final = "=" + string(data)
	}
	ents, _ := os.ReadDir(filepath.Dir(filepath.Join(dir, rel)))
	for _, e := range ents {
		if strings.HasPrefix(e.Name(), ".tmp") {
			data, _ := os.ReadFile(filepath.Join(filepath.Dir(filepath.Join(dir, rel)), e.Name()))
			temps = append(temps, string(data))
		}
	}
	sort.Strings(temps)
	return
}

func partB(run *hx.Run, r *hx.Rand, tmpRoot string) {
	self, err := os.Executable()
	must(err)
	nCases := run.N(12, 90)
	for i := 0; i < nCases; i++ {
		cr := r.Fork(uint64(i))
		nch := cr.Intn(4)
		chunks := make([]string, nch)
		for j := range chunks {
			chunks[j] = "k" + strconv.Itoa(j) + "x" + strconv.Itoa(cr.Intn(100))
		}
		old := "-"
		if cr.Chance(2, 3) {
			old = "OLD" + strconv.Itoa(cr.Intn(100))
		}
		rel := hx.Pick(cr, []string{"f", "sub/f", "sub/deep/module.yaml"})
		newContent := strings.Join(chunks, "")
		for j := 0; j <= nch+3; j++ {
			dir := filepath.Join(tmpRoot, fmt.Sprintf("b%d-%d", i, j))
			must(os.MkdirAll(filepath.Dir(filepath.Join(dir, rel)), 0o755))
			if old != "-" {
				must(os.WriteFile(filepath.Join(dir, rel), []byte(old), 0o644))
			}
			args := append([]string{"child", dir, rel, strconv.Itoa(j)}, chunks...)
			cmd := exec.Command(self, args...)
			cmd.Run()
			killed := cmd.ProcessState != nil && !cmd.ProcessState.Exited()
			final, temps := inspect(dir, rel)
			tempS := "-"
			if len(temps) == 1 {
				tempS = "=" + temps[0]
			} else if len(temps) > 1 {
				tempS = "MANY"
			}
			oldEnc := old
			line := "aprefix\t" + oldEnc + "\t" + encChunksRaw(chunks) + "\t" + strconv.Itoa(j)
			run.Case(line, "final"+final+"|temp"+tempS, true)
			run.Count("B:kill-step=" + stepName(j, nch))
			if !killed {
				run.Count("B:child-not-killed")
			}
			// oracle: the object is the previous or the complete new content
			okOld := (old == "-" && final == "-") || final == "="+old
			okNew := final == "="+newContent
			if !okOld && !okNew {
				run.Fail(hx.OracleFailure{Class: "atomic-put-torn", What: fmt.Sprintf("after SIGKILL at step %s the object %q holds %q (old %q, new %q)", stepName(j, nch), rel, final, old, newContent),
					Input: map[string]any{"rel": rel, "old": old, "chunks": chunks, "kill_step": j}, Replay: strings.Join(append([]string{self}, args...), " ")})
			}
			if j == nch+3 && !okNew {
				run.Fail(hx.OracleFailure{Class: "atomic-put-lost", What: fmt.Sprintf("killed after the rename but the object holds %q instead of %q", final, newContent),
					Input: map[string]any{"rel": rel, "old": old, "chunks": chunks, "kill_step": j}, Replay: strings.Join(append([]string{self}, args...), " ")})
			}
			os.RemoveAll(dir)
		}
		// natural failure: rename onto a non-empty directory must fail cleanly
		dir := filepath.Join(tmpRoot, fmt.Sprintf("bn%d", i))
		must(os.MkdirAll(filepath.Join(dir, "t", "inner"), 0o755))
		must(os.WriteFile(filepath.Join(dir, "t", "inner", "keep"), []byte("KEEP"), 0o644))
		b, err := storageos.NewProvider().NewReadWriteBucket(dir)
		must(err)
		perr := bk.PutString(ctx, b, "t/inner", newContent+"Z", storage.PutWithAtomic())
		run.Count("B:rename-onto-dir:" + okErr(perr))
		_, temps := inspect(dir, "t/inner")
		keep, _ := os.ReadFile(filepath.Join(dir, "t", "inner", "keep"))
		{
			// compared with the model's rename-failure branch (failAt = n+2): what is at the
			// final path (here a directory, token DIR) is untouched and no temp object remains
			finalS, tempS := "=DIR", "-"
			if string(keep) != "KEEP" {
				finalS = "=CHANGED"
			}
			if len(temps) > 0 {
				tempS = "=" + temps[0]
			}
			run.Case("atomic\tDIR\t"+encChunksRaw([]string{newContent + "Z"})+"\t3", okErr(perr)+"|final"+finalS+"|temp"+tempS, true)
		}
		if perr == nil || len(temps) > 0 || string(keep) != "KEEP" {
			run.Fail(hx.OracleFailure{Class: "atomic-put-failed-dirty", What: fmt.Sprintf("atomic put whose rename fails: err=%v, leftover temp files=%d, sibling intact=%v", perr, len(temps), string(keep) == "KEEP"),
				Input: map[string]any{"path": "t/inner"}, Replay: fmt.Sprintf("build/c15 --out /tmp/c15-replay --seed %d --tier %s", run.Seed, run.Tier)})
		}
		os.RemoveAll(dir)
		if i < 2 {
			run.Sample(map[string]any{"part": "B", "rel": rel, "old": old, "chunks": chunks, "kill_steps": nch + 4})
		}
	}
}

// partFsize: real short writes (RLIMIT_FSIZE) during atomic and plain puts on disk.
func partFsize(run *hx.Run, r *hx.Rand, tmpRoot string) {
	self, err := os.Executable()
	must(err)
	n := run.N(16, 120)
	for i := 0; i < n; i++ {
		cr := r.Fork(uint64(i))
		nch := 1 + cr.Intn(4)
		chunks := make([]string, nch)
		total := 0
		for j := range chunks {
			sz := 3000 + cr.Intn(9000)
			chunks[j] = strings.Repeat(string(rune('a'+j)), sz)
			total += sz
		}
		// the limit falls strictly inside the content, so some write is short or fails
		limit := 1000 + cr.Intn(total-1500)
		failIdx, acc := 0, 0
		for j, c := range chunks {
			if acc+len(c) > limit {
				failIdx = j
				break
			}
			acc += len(c)
		}
		old := "-"
		if cr.Chance(2, 3) {
			old = "OLD" + strconv.Itoa(cr.Intn(100))
		}
		for _, atomic := range []string{"1", "0"} {
			dir := filepath.Join(tmpRoot, fmt.Sprintf("fs%d-%s", i, atomic))
			rel := "sub/obj.bin"
			must(os.MkdirAll(filepath.Join(dir, "sub"), 0o755))
			if old != "-" {
				must(os.WriteFile(filepath.Join(dir, rel), []byte(old), 0o644))
			}
			args := append([]string{"child-fsize", dir, rel, strconv.Itoa(limit), atomic}, chunks...)
			cmd := exec.Command(self, args...)
			cmd.Run()
			code := cmd.ProcessState.ExitCode()
			final, temps := inspect(dir, rel)
			in := map[string]any{"atomic": atomic == "1", "old": old, "chunk_sizes": lens(chunks), "rlimit_fsize": limit}
			rp := strings.Join(append([]string{self}, args[:5]...), " ") + " <chunks>"
			run.Count("S:fsize:atomic=" + atomic + ":exit=" + strconv.Itoa(code))
			// plain put: the failed Write itself reports the error (Close just closes the file);
			// atomic put: Close decides whether the object is published, so it must fail too
			if code == 0 || (code == 21 && atomic == "1") {
				run.Fail(hx.OracleFailure{Class: "short-write-not-reported", What: fmt.Sprintf("a put whose write hit RLIMIT_FSIZE=%d finished with exit class %d (21: write failed but Close returned nil; 0: nothing failed)", limit, code), Input: in, Replay: rp})
			}
			if atomic == "1" {
				tempS := "-"
				if len(temps) > 0 {
					tempS = "LEFT"
				}
				// model: step failIdx+1 (a write) fails: error, previous content, no temp object
				oldEnc := old
				tokChunks := make([]string, len(chunks))
				for j := range chunks {
					tokChunks[j] = "k" + strconv.Itoa(j)
				}
				finalTok := final
				if final != "-" && final != "="+old {
					finalTok = "=TORN" + strconv.Itoa(len(final)-1)
				}
				run.Case("atomic\t"+oldEnc+"\t"+strings.Join(tokChunks, "+")+"\t"+strconv.Itoa(failIdx+1), okErrCode(code)+"|final"+finalTok+"|temp"+tempS, true)
				okOld := (old == "-" && final == "-") || final == "="+old
				if !okOld || len(temps) > 0 {
					run.Fail(hx.OracleFailure{Class: "atomic-put-torn", What: fmt.Sprintf("an atomic put whose write failed (RLIMIT_FSIZE=%d) left the object as %d bytes (previous content %q) and %d temp files", limit, len(final)-1, old, len(temps)), Input: in, Replay: rp})
				}
			} else {
				run.Eval()
				run.Distinct(fmt.Sprintf("fsize-plain-%d", i))
			}
			os.RemoveAll(dir)
		}
	}
}

// ---------------------------------------------------------------------------------------
// Part C: two (and more) concurrent atomic puts of ONE path

// merge2 mirrors BufModel.Faults.merge2: true = writer a moves next; a finished writer is
// skipped; an exhausted schedule lets a run first.
func merge2(sched []bool, na, nb int) []byte {
	var out []byte
	ia, ib := 0, 0
	for ia < na || ib < nb {
		switch {
		case ia >= na:
			out = append(out, 'b')
			ib++
			if len(sched) > 0 {
				sched = sched[1:]
			}
		case ib >= nb:
			out = append(out, 'a')
			ia++
			if len(sched) > 0 {
				sched = sched[1:]
			}
		case len(sched) == 0:
			out = append(out, 'a')
			ia++
		case sched[0]:
			out = append(out, 'a')
			ia++
			sched = sched[1:]
		default:
			out = append(out, 'b')
			ib++
			sched = sched[1:]
		}
	}
	return out
}

func partConc(run *hx.Run, r *hx.Rand, tmpRoot string) {
	// (1) scripted interleavings, driven step by step from one goroutine, compared with the model
	n := run.N(150, 2500)
	for i := 0; i < n; i++ {
		cr := r.Fork(uint64(i))
		mk := func(tag string) []string {
			k := cr.Intn(4)
			cs := make([]string, k)
			for j := range cs {
				cs[j] = tag + strconv.Itoa(j) + "x" + strconv.Itoa(cr.Intn(50))
			}
			return cs
		}
		ca, cb := mk("A"), mk("B")
		old := "-"
		if cr.Chance(2, 3) {
			old = "OLD" + strconv.Itoa(cr.Intn(100))
		}
		// program of a writer: createTemp, writes, closeFile, rename
		na, nb := len(ca)+3, len(cb)+3
		sched := make([]bool, cr.Intn(na+nb+2))
		bits := ""
		for j := range sched {
			sched[j] = cr.Bool()
			bits += b01(sched[j])
		}
		if bits == "" {
			bits = "-"
		}
		dir := filepath.Join(tmpRoot, "cc"+strconv.Itoa(i))
		must(os.MkdirAll(dir, 0o755))
		if old != "-" {
			must(os.WriteFile(filepath.Join(dir, "f"), []byte(old), 0o644))
		}
		b, err := storageos.NewProvider().NewReadWriteBucket(dir)
		must(err)
		observe := func() string {
			data, rerr := os.ReadFile(filepath.Join(dir, "f"))
			if rerr != nil {
				return "-"
			}
			return "=" + string(data)
		}
		type wstate struct {
			w      storage.WriteObjectCloser
			step   int
			chunks []string
		}
		ws := map[byte]*wstate{'a': {chunks: ca}, 'b': {chunks: cb}}
		obs := []string{observe()}
		var stepErrs []string
		for _, who := range merge2(sched, na, nb) {
			st := ws[who]
			k := st.step
			st.step++
			switch {
			case k == 0:
				w, perr := b.Put(ctx, "f", storage.PutWithAtomic())
				if perr != nil {
					stepErrs = append(stepErrs, fmt.Sprintf("%c put: %v", who, perr))
				}
				st.w = w
			case k <= len(st.chunks):
				if st.w != nil {
					if _, werr := st.w.Write([]byte(st.chunks[k-1])); werr != nil {
						stepErrs = append(stepErrs, fmt.Sprintf("%c write: %v", who, werr))
					}
				}
			case k == len(st.chunks)+1:
				// closeFile: part of Close at this level of the API
			default:
				if st.w != nil {
					if cerr := st.w.Close(); cerr != nil {
						stepErrs = append(stepErrs, fmt.Sprintf("%c close: %v", who, cerr))
					}
				}
			}
			obs = append(obs, observe())
		}
		run.Case("conc\t"+old+"\t"+encChunksRaw(ca)+"\t"+encChunksRaw(cb)+"\t"+bits, strings.Join(obs, ","), true)
		run.Count("C:scripted-interleavings")
		in := map[string]any{"old": old, "a": ca, "b": cb, "schedule": bits}
		rp := fmt.Sprintf("build/c15 --out /tmp/c15-replay --seed %d --tier %s", run.Seed, run.Tier)
		fullA, fullB := "="+strings.Join(ca, ""), "="+strings.Join(cb, "")
		for j, o := range obs {
			if o != old && !(old != "-" && o == "="+old) && o != fullA && o != fullB {
				run.Fail(hx.OracleFailure{Class: "concurrent-atomic-put-torn", What: fmt.Sprintf("after step %d of two interleaved atomic puts the object holds %q (old %q, a %q, b %q)", j, o, old, fullA, fullB), Input: in, Replay: rp})
				break
			}
		}
		if len(stepErrs) > 0 {
			run.Fail(hx.OracleFailure{Class: "concurrent-atomic-put-spurious-error", What: fmt.Sprintf("no fault was injected but %v", stepErrs), Input: in, Replay: rp})
		}
		temps, _ := filepath.Glob(filepath.Join(dir, ".tmp*"))
		if len(temps) > 0 {
			run.Fail(hx.OracleFailure{Class: "concurrent-atomic-put-temp-left", What: fmt.Sprintf("%d temp files left after both puts finished", len(temps)), Input: in, Replay: rp})
		}
		os.RemoveAll(dir)
	}
	// (2) real goroutines: writers hammer one path with atomic puts while a reader polls
	rounds := run.N(3, 12)
	for i := 0; i < rounds; i++ {
		dir := filepath.Join(tmpRoot, "cs"+strconv.Itoa(i))
		must(os.MkdirAll(dir, 0o755))
		b, err := storageos.NewProvider().NewReadWriteBucket(dir)
		must(err)
		nw := 2 + i%3
		contents := make(map[string]bool)
		payload := func(w, k int) string {
			return strings.Repeat(fmt.Sprintf("w%dk%d|", w, k), 300+37*w)
		}
		for w := 0; w < nw; w++ {
			for k := 0; k < 40; k++ {
				contents[payload(w, k)] = true
			}
		}
		var wg sync.WaitGroup
		var mu sync.Mutex
		var putErrs []string
		stop := make(chan struct{})
		bad := ""
		wg.Add(1)
		go func() {
			defer wg.Done()
			for {
				select {
				case <-stop:
					return
				default:
				}
				data, rerr := os.ReadFile(filepath.Join(dir, "obj"))
				if rerr == nil && !contents[string(data)] {
					mu.Lock()
					if bad == "" {
						bad = fmt.Sprintf("%d bytes starting %.40q", len(data), string(data))
					}
					mu.Unlock()
				}
			}
		}()
		var ww sync.WaitGroup
		for w := 0; w < nw; w++ {
			ww.Add(1)
			go func(w int) {
				defer ww.Done()
				for k := 0; k < 40; k++ {
					if perr := bk.PutString(ctx, b, "obj", payload(w, k), storage.PutWithAtomic()); perr != nil {
						mu.Lock()
						putErrs = append(putErrs, perr.Error())
						mu.Unlock()
					}
				}
			}(w)
		}
		ww.Wait()
		close(stop)
		wg.Wait()
		run.Eval()
		run.Distinct("conc-stress-" + strconv.Itoa(i))
		run.Count("C:goroutine-rounds")
		in := map[string]any{"writers": nw, "puts_per_writer": 40}
		rp := fmt.Sprintf("build/c15 --out /tmp/c15-replay --seed %d --tier %s", run.Seed, run.Tier)
		if bad != "" {
			run.Fail(hx.OracleFailure{Class: "concurrent-atomic-put-torn", What: "a reader polling during concurrent atomic puts saw content that is no writer's complete content: " + bad, Input: in, Replay: rp})
		}
		if len(putErrs) > 0 {
			run.Fail(hx.OracleFailure{Class: "concurrent-atomic-put-spurious-error", What: fmt.Sprintf("%d of the concurrent atomic puts failed although nothing was injected, e.g. %s", len(putErrs), putErrs[0]), Input: in, Replay: rp})
		}
		os.RemoveAll(dir)
	}
}

// ---------------------------------------------------------------------------------------
// Part P: the PRODUCER of an atomic put fails (callback / source reader), no write fails

type failAfterReader struct {
	chunks []string
	k      int
	i      int
}

func (f *failAfterReader) Read(p []byte) (int, error) {
	if f.i >= f.k {
		return 0, errInjected
	}
	if f.i >= len(f.chunks) {
		return 0, io.EOF
	}
	n := copy(p, f.chunks[f.i])
	if n < len(f.chunks[f.i]) {
		f.chunks[f.i] = f.chunks[f.i][n:]
		return n, nil
	}
	f.i++
	return n, nil
}

type failingSourceBucket struct {
	storage.ReadBucket
	chunks []string
	k      int
}

type failingReadObject struct {
	storage.ReadObjectCloser
	r *failAfterReader
}

func (o failingReadObject) Read(p []byte) (int, error) { return o.r.Read(p) }

func (b failingSourceBucket) Get(ctx context.Context, path string) (storage.ReadObjectCloser, error) {
	ro, err := b.ReadBucket.Get(ctx, path)
	if err != nil {
		return nil, err
	}
	return failingReadObject{ReadObjectCloser: ro, r: &failAfterReader{chunks: append([]string{}, b.chunks...), k: b.k}}, nil
}

func partProducer(run *hx.Run, r *hx.Rand, tmpRoot string) {
	n := run.N(40, 400)
	for i := 0; i < n; i++ {
		cr := r.Fork(uint64(i))
		nch := 1 + cr.Intn(3)
		chunks := make([]string, nch)
		for j := range chunks {
			chunks[j] = "p" + strconv.Itoa(j) + "x" + strconv.Itoa(cr.Intn(100))
		}
		old := "-"
		if cr.Chance(2, 3) {
			old = "OLD" + strconv.Itoa(cr.Intn(100))
		}
		k := cr.Intn(nch) // the producer fails before delivering chunk k (k < n: never a complete put)
		kind := hx.Pick(cr, []string{"forwriteobject", "copy", "limit"})
		dir := filepath.Join(tmpRoot, "pp"+strconv.Itoa(i))
		must(os.MkdirAll(dir, 0o755))
		if old != "-" {
			must(os.WriteFile(filepath.Join(dir, "f"), []byte(old), 0o644))
		}
		b, err := storageos.NewProvider().NewReadWriteBucket(dir)
		must(err)
		var perr error
		switch kind {
		case "forwriteobject":
			perr = storage.ForWriteObject(ctx, b, "f", func(w storage.WriteObject) error {
				for j := 0; j < k; j++ {
					if _, werr := w.Write([]byte(chunks[j])); werr != nil {
						return werr
					}
				}
				return errInjected
			}, storage.PutWithAtomic())
		case "copy":
			src := storagemem.NewReadWriteBucket()
			must(bk.PutString(ctx, src, "f", strings.Join(chunks, "")))
			_, perr = storage.Copy(ctx, failingSourceBucket{ReadBucket: src, chunks: chunks, k: k}, b, storage.CopyWithAtomic())
		case "limit":
			// storage.LimitWriteBucket refuses the write that would exceed the limit WITHOUT passing it
			// on, so the disk bucket never learns that a write failed
			limit := 0
			for j := 0; j < k; j++ {
				limit += len(chunks[j])
			}
			lb := storage.LimitWriteBucket(b, limit+len(chunks[k])-1)
			w, e := lb.Put(ctx, "f", storage.PutWithAtomic())
			must(e)
			for j := 0; j < len(chunks) && perr == nil; j++ {
				_, perr = w.Write([]byte(chunks[j]))
			}
			perr = errors.Join(perr, w.Close())
		}
		final, temps := inspect(dir, "f")
		tempS := "-"
		if len(temps) > 0 {
			tempS = "=" + temps[0]
		}
		run.Case("aproducer\t"+old+"\t"+encChunksRaw(chunks)+"\t"+strconv.Itoa(k), okErr(perr)+"|final"+final+"|temp"+tempS, true)
		run.Count("P:" + kind)
		in := map[string]any{"helper": kind, "old": old, "chunks": chunks, "producer_fails_before_chunk": k}
		rp := fmt.Sprintf("build/c15 --out /tmp/c15-replay --seed %d --tier %s", run.Seed, run.Tier)
		if perr == nil {
			run.Fail(hx.OracleFailure{Class: "producer-failure-not-reported", What: kind + " returned nil although the producer of the content failed", Input: in, Replay: rp})
		}
		okOld := (old == "-" && final == "-") || final == "="+old
		if !okOld && kind == "limit" {
			run.Fail(hx.OracleFailure{Class: "atomic-put-limit-bucket-published", What: fmt.Sprintf("storage.LimitWriteBucket over an atomic disk put: write %d of %d was refused by the limit (error returned), but Close published %q over the previous %q", k+1, nch, final, old), Input: in, Replay: rp})
		} else if !okOld {
			run.Fail(hx.OracleFailure{Class: "atomic-put-producer-failure-published", What: fmt.Sprintf("%s with an atomic put: the producer failed after %d of %d chunks (no write failed), the error was returned, but the object now holds %q instead of the previous %q", kind, k, nch, final, old), Input: in, Replay: rp})
		}
		os.RemoveAll(dir)
	}
}

func okErrCode(code int) string {
	if code == 0 {
		return "ok"
	}
	return "err"
}

func lens(cs []string) []int {
	out := make([]int, len(cs))
	for i, c := range cs {
		out[i] = len(c)
	}
	return out
}

func stepName(j, n int) string {
	switch {
	case j == 0:
		return "before-put"
	case j == 1:
		return "after-create-temp"
	case j <= n+1:
		return "after-write"
	case j == n+2:
		return "before-rename"
	default:
		return "after-rename"
	}
}

func encChunksRaw(chunks []string) string {
	if len(chunks) == 0 {
		return "-"
	}
	return strings.Join(chunks, "+")
}

func must(err error) {
	if err != nil {
		panic(err)
	}
}

func main() {
	if len(os.Args) > 1 && os.Args[1] == "child" {
		childMain(os.Args[2:])
		return
	}
	if len(os.Args) > 1 && os.Args[1] == "child-fsize" {
		childFsize(os.Args[2:])
		return
	}
	run := hx.Start("C15")
	r := hx.NewRand(run.Seed)
	tmpRoot, err := os.MkdirTemp("", "verif-c15-")
	must(err)
	defer os.RemoveAll(tmpRoot)
	if run.Only >= peOnlyBase {
		partPreexist(run, r.Fork(11), tmpRoot)
		run.Finish()
		return
	}
	if run.Only >= rcOnlyBase {
		partRealClose(run, r.Fork(10), tmpRoot)
		run.Finish()
		return
	}
	partA(run, r.Fork(1), tmpRoot)
	partBreadth(run, r.Fork(2))
	sweepLate(run)
	partB(run, r.Fork(3), tmpRoot)
	partFsize(run, r.Fork(4), tmpRoot)
	partFlush(run, r.Fork(5), tmpRoot)
	partConc(run, r.Fork(6), tmpRoot)
	partProducer(run, r.Fork(7), tmpRoot)
	partWalk(run, r.Fork(8), tmpRoot)
	partReal(run, r.Fork(9), tmpRoot)
	partRealClose(run, r.Fork(10), tmpRoot)
	partPreexist(run, r.Fork(11), tmpRoot)
	run.Finish()
}

func b01(b bool) string {
	if b {
		return "1"
	}
	return "0"
}
