// Part X of the C15 harness: REAL close(2) / write(2) failures of the files behind a disk bucket.
//
// The fault wrapper of part A sits ABOVE the bucket: storageos' own writeObjectCloser.Close is
// never made to fail there, so what it does with the result of file.Close() — for an atomic put
// (decides between rename and removal of the temp file) and for a plain put (must be returned:
// a deferred EIO / ENOSPC / EDQUOT of NFS, FUSE and quota file systems surfaces exactly there) —
// was never observed.  Here the failure is produced at the OS level, below the bucket:
//
//   - close: the descriptor of the object's file (the destination file of a plain put, the
//     `.tmp<base><digits>` file of an atomic put) is found in /proc/self/fd and closed behind the
//     bucket's back just before the bucket's Close — either from the verif hook
//     `storageos.close.before_file_close` (inside storageos' Close, right before file.Close()) or,
//     second mode, immediately before calling the bucket's Close.  file.Close() then fails with EBADF.
//   - write: before the j-th Write the descriptor is replaced (dup3) by a read-only descriptor of
//     /dev/null: write(2) fails with EBADF, every later write too, and close(2) SUCCEEDS — the
//     only memory of the failure is the writeErr recorded by storageos' Write.
//
// A thin bucket (rcBucket) above the real storageos bucket does the bookkeeping only (which
// descriptor belongs to which object, serialising Put/Close so that no descriptor NUMBER can be
// reused between the sabotage and the real close(2)); every storage operation is the real one.
//
// Families: every single-object helper (Put/Write/Close by hand, PutPath, CopyReader,
// ForWriteObject, CopyReadObject, CopyPath) plain and atomic; storage.Copy with parallelism
// 1/4/16 plain and atomic, Untar, Unzip, and the five walk-loop shapes of part W (export.go's loop
// among them) over 5 (round 0) / 1-8 generated objects, some of them replacing previous content:
// fault-free, close failing at EVERY position k in both modes, the first and the last write of
// every object failing, and pairs of close failures.  Every object is closed a SECOND time
// (storage.ErrClosed).  The generated-file flush (bufprotopluginos.ResponseWriter.Close, which
// makes its own disk buckets) is sabotaged through the hook alone at every position.
//
// Oracle (from the property): a helper that returns nil ⇒ every object is in the destination in
// full AND every close succeeded; the Close of an object whose file close failed returns an
// error; a failed atomic put leaves the previous object (or none) and no temp file; a second
// Close returns storage.ErrClosed.  Correspondence: `rput` lines — BufModel.Faults.realAll, i.e.
// the SAME writeObj close/write fault the wrapper of part A injects for plain puts (theorem
// real_plain_put_is_wrapper_fault) and atomicRun behind the helper's plumbing for atomic puts —
// and `dclose` lines.
package main

import (
	"archive/tar"
	"bytes"
	"context"
	"errors"
	"fmt"
	"io"
	"log/slog"
	"os"
	"path/filepath"
	"sort"
	"strconv"
	"strings"
	"sync"
	"syscall"

	"github.com/bufbuild/buf/private/bufpkg/bufprotoplugin/bufprotopluginos"
	"github.com/bufbuild/buf/private/pkg/normalpath"
	"github.com/bufbuild/buf/private/pkg/storage"
	"github.com/bufbuild/buf/private/pkg/storage/storagearchive"
	"github.com/bufbuild/buf/private/pkg/storage/storagemem"
	"github.com/bufbuild/buf/private/pkg/storage/storageos"
	"github.com/bufbuild/buf/private/pkg/thread"
	"github.com/bufbuild/buf/private/pkg/verifhook"
	"github.com/bufbuild/verifharness/internal/bk"
	"github.com/bufbuild/verifharness/internal/hx"
	"github.com/klauspost/compress/zip"
	"google.golang.org/protobuf/types/pluginpb"
)

const hookBeforeFileClose = "storageos.close.before_file_close"

// `--only rcOnlyBase+i` re-runs case i of part X alone (the other parts are skipped).
const rcOnlyBase = 1000000

// fdsUnder lists the descriptors of this process whose file lies below root.
func fdsUnder(root string) map[int]string {
	out := map[int]string{}
	ents, err := os.ReadDir("/proc/self/fd")
	if err != nil {
		return out
	}
	for _, e := range ents {
		n, err := strconv.Atoi(e.Name())
		if err != nil {
			continue
		}
		link, err := os.Readlink("/proc/self/fd/" + e.Name())
		if err != nil {
			continue
		}
		if strings.HasPrefix(link, root+"/") {
			out[n] = link
		}
	}
	return out
}

// rcPlan: which objects' files fail, by normalised bucket path.
type rcPlan struct {
	closeFail map[string]bool
	writeFail map[string]int // index of the Write call that fails
	viaHook   bool
}

func (p rcPlan) faults() []prim {
	var out []prim
	for k := range p.closeFail {
		out = append(out, prim{k, 'c', 0})
	}
	for k, j := range p.writeFail {
		out = append(out, prim{k, 'w', j})
	}
	sort.Slice(out, func(i, j int) bool { return out[i].enc() < out[j].enc() })
	return out
}

// rcBucket: bookkeeping above a REAL storageos bucket rooted at root.
type rcBucket struct {
	storage.ReadWriteBucket
	root string
	plan rcPlan

	mu         sync.Mutex // the descriptor-table lock: Put, sabotage+Close and dup3 are serialised
	order      []string
	chunks     map[string][]string
	atomicOf   map[string]bool
	firedClose []string
	firedWrite []string
	closeRet   map[string]error
	second     map[string]error
	hookMissed int
	noFd       int
}

func newRcBucket(dir string, plan rcPlan) *rcBucket {
	must(os.MkdirAll(dir, 0o755))
	root, err := filepath.EvalSymlinks(dir)
	must(err)
	b, err := storageos.NewProvider().NewReadWriteBucket(root)
	must(err)
	return &rcBucket{ReadWriteBucket: b, root: root, plan: plan, chunks: map[string][]string{}, atomicOf: map[string]bool{},
		closeRet: map[string]error{}, second: map[string]error{}}
}

func (b *rcBucket) Put(c context.Context, path string, opts ...storage.PutOption) (storage.WriteObjectCloser, error) {
	key := path
	if n, err := normalpath.NormalizeAndValidate(path); err == nil {
		key = n
	}
	b.mu.Lock()
	defer b.mu.Unlock()
	before := fdsUnder(b.root)
	w, err := b.ReadWriteBucket.Put(c, path, opts...)
	if err != nil {
		return nil, err
	}
	fd := -1
	for n := range fdsUnder(b.root) {
		if _, old := before[n]; !old {
			fd = n
		}
	}
	if fd < 0 {
		b.noFd++
	}
	b.order = append(b.order, key)
	b.atomicOf[key] = storage.NewPutOptions(opts).Atomic()
	return &rcObject{b: b, key: key, w: w, fd: fd}, nil
}

type rcObject struct {
	b      *rcBucket
	key    string
	w      storage.WriteObjectCloser
	fd     int
	n      int
	closed bool
}

func (o *rcObject) Write(p []byte) (int, error) {
	i := o.n
	o.n++
	o.b.mu.Lock()
	o.b.chunks[o.key] = append(o.b.chunks[o.key], string(p))
	if j, ok := o.b.plan.writeFail[o.key]; ok && j == i && o.fd >= 0 {
		// from now on the descriptor is a read-only one: write(2) fails, close(2) succeeds
		ro, err := syscall.Open("/dev/null", syscall.O_RDONLY, 0)
		must(err)
		must(syscall.Dup3(ro, o.fd, 0))
		syscall.Close(ro)
		o.b.firedWrite = append(o.b.firedWrite, o.key)
	}
	o.b.mu.Unlock()
	return o.w.Write(p)
}

func (o *rcObject) Close() error {
	o.b.mu.Lock()
	defer o.b.mu.Unlock()
	if o.closed {
		return o.w.Close()
	}
	o.closed = true
	var err error
	if o.b.plan.closeFail[o.key] && o.fd >= 0 {
		if o.b.plan.viaHook {
			armed := true
			verifhook.SetHandler(func(point string) {
				if point == hookBeforeFileClose && armed {
					armed = false
					syscall.Close(o.fd)
					o.b.firedClose = append(o.b.firedClose, o.key)
				}
			})
			err = o.w.Close()
			verifhook.SetHandler(nil)
			if armed {
				o.b.hookMissed++
			}
		} else {
			syscall.Close(o.fd)
			o.b.firedClose = append(o.b.firedClose, o.key)
			err = o.w.Close()
		}
	} else {
		err = o.w.Close()
	}
	o.b.closeRet[o.key] = err
	// the second Close of the same object (storage.ErrClosed); it touches no descriptor
	o.b.second[o.key] = o.w.Close()
	return err
}
func (o *rcObject) SetExternalPath(string) error { return storage.ErrSetExternalPathUnsupported }
func (o *rcObject) SetLocalPath(string) error    { return storage.ErrSetLocalPathUnsupported }

// ---------------------------------------------------------------------------------------
// shapes

type rcShape struct {
	name     string // protocol name (the model picks the helper's plumbing by it)
	label    string
	multi    bool
	atomicOK bool
	par      int
	run      func(src storage.ReadBucket, objs []bk.KV, dst storage.WriteBucket, atomic bool) (int, error)
}

func rcPutOpts(atomic bool) []storage.PutOption {
	if atomic {
		return []storage.PutOption{storage.PutWithAtomic()}
	}
	return nil
}
func rcCopyOpts(atomic bool) []storage.CopyOption {
	if atomic {
		return []storage.CopyOption{storage.CopyWithAtomic()}
	}
	return nil
}

// chunked reader: content in pieces of at most 32 KiB without WriteTo, as io.Copy would see a file
func rcReader(s string) io.Reader { return plainReader{strings.NewReader(s)} }

func rcShapes() []rcShape {
	one := func(err error) (int, error) {
		if err != nil {
			return 0, err
		}
		return 1, nil
	}
	shapes := []rcShape{
		{name: "direct", atomicOK: true, run: func(_ storage.ReadBucket, objs []bk.KV, dst storage.WriteBucket, atomic bool) (int, error) {
			w, err := dst.Put(ctx, objs[0].K, rcPutOpts(atomic)...)
			if err != nil {
				return 0, err
			}
			_, werr := io.Copy(w, rcReader(objs[0].V))
			return one(errors.Join(werr, w.Close()))
		}},
		{name: "putpath", atomicOK: true, run: func(_ storage.ReadBucket, objs []bk.KV, dst storage.WriteBucket, atomic bool) (int, error) {
			return one(storage.PutPath(ctx, dst, objs[0].K, []byte(objs[0].V), rcPutOpts(atomic)...))
		}},
		{name: "copyreader", run: func(_ storage.ReadBucket, objs []bk.KV, dst storage.WriteBucket, _ bool) (int, error) {
			return one(storage.CopyReader(ctx, dst, rcReader(objs[0].V), objs[0].K))
		}},
		{name: "forwriteobject", atomicOK: true, run: func(_ storage.ReadBucket, objs []bk.KV, dst storage.WriteBucket, atomic bool) (int, error) {
			return one(storage.ForWriteObject(ctx, dst, objs[0].K, func(w storage.WriteObject) error {
				_, err := io.Copy(w, rcReader(objs[0].V))
				return err
			}, rcPutOpts(atomic)...))
		}},
		{name: "copyreadobject", atomicOK: true, run: func(src storage.ReadBucket, objs []bk.KV, dst storage.WriteBucket, atomic bool) (int, error) {
			ro, err := src.Get(ctx, objs[0].K)
			must(err)
			defer ro.Close()
			return one(storage.CopyReadObject(ctx, dst, ro, rcCopyOpts(atomic)...))
		}},
		{name: "copypath", atomicOK: true, run: func(src storage.ReadBucket, objs []bk.KV, dst storage.WriteBucket, atomic bool) (int, error) {
			return one(storage.CopyPath(ctx, src, objs[0].K, dst, objs[0].K, rcCopyOpts(atomic)...))
		}},
	}
	for _, par := range []int{1, 4, 16} {
		par := par
		shapes = append(shapes, rcShape{name: "copy", label: "copy-par" + strconv.Itoa(par), multi: true, atomicOK: true, par: par,
			run: func(src storage.ReadBucket, _ []bk.KV, dst storage.WriteBucket, atomic bool) (int, error) {
				old := thread.Parallelism()
				thread.SetParallelism(par)
				defer thread.SetParallelism(old)
				return storage.Copy(ctx, src, dst, rcCopyOpts(atomic)...)
			}})
	}
	shapes = append(shapes,
		rcShape{name: "untar", multi: true, run: func(_ storage.ReadBucket, objs []bk.KV, dst storage.WriteBucket, _ bool) (int, error) {
			var buf bytes.Buffer
			tw := tar.NewWriter(&buf)
			for _, o := range objs {
				must(tw.WriteHeader(&tar.Header{Typeflag: tar.TypeReg, Name: o.K, Size: int64(len(o.V)), Mode: 0o644}))
				tw.Write([]byte(o.V))
			}
			must(tw.Close())
			return 0, storagearchive.Untar(ctx, &buf, dst)
		}},
		rcShape{name: "unzip", multi: true, run: func(_ storage.ReadBucket, objs []bk.KV, dst storage.WriteBucket, _ bool) (int, error) {
			var buf bytes.Buffer
			zw := zip.NewWriter(&buf)
			for _, o := range objs {
				w, e := zw.CreateHeader(&zip.FileHeader{Name: o.K, Method: zip.Deflate})
				must(e)
				w.Write([]byte(o.V))
			}
			must(zw.Close())
			return 0, storagearchive.Unzip(ctx, bytes.NewReader(buf.Bytes()), int64(buf.Len()), dst)
		}},
	)
	for _, h := range walkHelpers {
		h := h
		shapes = append(shapes, rcShape{name: h.name, multi: true, run: func(src storage.ReadBucket, _ []bk.KV, dst storage.WriteBucket, _ bool) (int, error) {
			return 0, h.run(src, dst)
		}})
	}
	for i := range shapes {
		if shapes[i].label == "" {
			shapes[i].label = shapes[i].name
		}
	}
	return shapes
}

var rcFixedObjs = []bk.KV{
	{K: "a/x.proto", V: "contentOfAx"},
	{K: "b.proto", V: ""},
	{K: "c/d/-first.proto", V: strings.Repeat("0123456789abcdef", 5000)}, // 80 000 bytes: three writes of io.Copy
	{K: "c/d/e.proto", V: "contentOfE"},
	{K: "z z/é.txt", V: "zz"},
}

// previous content of the destination (round 0): two objects are replaced, one bystander stays
var rcFixedOld = []bk.KV{{K: "a/x.proto", V: "OLDa"}, {K: "c/d/e.proto", V: "OLDe"}, {K: "keep/me", V: "KEEP"}}

func rcGenObjs(r *hx.Rand) (objs, old []bk.KV) {
	n := 1 + r.Intn(8)
	perm := append([]string{}, pathPool...)
	hx.Shuffle(r, perm)
	for i := 0; i < n; i++ {
		v := genContent(r, i)
		if r.Chance(1, 8) {
			v = ""
		}
		objs = append(objs, bk.KV{K: perm[i], V: v})
		if r.Chance(1, 3) {
			old = append(old, bk.KV{K: perm[i], V: "OLD" + strconv.Itoa(i)})
		}
	}
	sort.Slice(objs, func(i, j int) bool { return objs[i].K < objs[j].K })
	if r.Chance(1, 2) {
		old = append(old, bk.KV{K: "keep/me", V: "KEEP"})
	}
	return
}

// ---------------------------------------------------------------------------------------
// one run

type rcResult struct {
	err   error
	count int
	b     *rcBucket
	dir   string
}

// rcViewPrefix: with view != "" the helper writes through a prefix view (storage.MapWriteBucket /
// MapReadWriteBucket on rcViewPrefix) of the disk bucket; objs, old and plan are bucket-level
// (prefixed) paths, the helper is handed the unprefixed ones.
const rcViewPrefix = "pre/fix"

func rcRun(sh rcShape, atomic bool, objs, old []bk.KV, plan rcPlan, dir string, view string) rcResult {
	os.RemoveAll(dir)
	b := newRcBucket(dir, plan)
	for _, o := range old {
		p := filepath.Join(b.root, filepath.FromSlash(o.K))
		must(os.MkdirAll(filepath.Dir(p), 0o755))
		must(os.WriteFile(p, []byte(o.V), 0o644))
	}
	var dst storage.WriteBucket = b
	runObjs := objs
	switch view {
	case "map-write":
		dst = storage.MapWriteBucket(b, storage.MapOnPrefix(rcViewPrefix))
	case "map-readwrite":
		dst = storage.MapReadWriteBucket(b, storage.MapOnPrefix(rcViewPrefix))
	}
	if view != "" {
		runObjs = nil
		for _, o := range objs {
			runObjs = append(runObjs, bk.KV{K: strings.TrimPrefix(o.K, rcViewPrefix+"/"), V: o.V})
		}
	}
	src := storagemem.NewReadWriteBucket()
	for _, o := range runObjs {
		must(bk.PutString(ctx, src, o.K, o.V))
	}
	res := rcResult{b: b, dir: b.root}
	func() {
		defer func() {
			if p := recover(); p != nil {
				res.err = fmt.Errorf("PANIC: %v", p)
				verifhook.SetHandler(nil)
			}
		}()
		res.count, res.err = sh.run(src, runObjs, dst, atomic)
	}()
	return res
}

// rcDump: everything below dir (regular files, temp files included) as the protocol dump.
func rcDump(dir string, chunks map[string][]string, old []bk.KV) string {
	oldOf := map[string]string{}
	for _, o := range old {
		oldOf[o.K] = o.V
	}
	var kvs []bk.KV
	filepath.Walk(dir, func(p string, fi os.FileInfo, err error) error {
		if err != nil || !fi.Mode().IsRegular() {
			return nil
		}
		rel, _ := filepath.Rel(dir, p)
		rel = filepath.ToSlash(rel)
		data, _ := os.ReadFile(p)
		v := string(data)
		if ov, ok := oldOf[rel]; ok && v == ov {
			// untouched previous content is its own token
		} else {
			v = canon(v, chunks[rel])
		}
		kvs = append(kvs, bk.KV{K: rel, V: v})
		return nil
	})
	return bk.Dump(kvs)
}

func rcEncKVs(kvs []bk.KV, chunks map[string][]string) string {
	if len(kvs) == 0 {
		return "-"
	}
	ss := make([]string, len(kvs))
	for i, o := range kvs {
		if chunks == nil {
			ss[i] = hx.Enc(o.K) + "=" + o.V
		} else {
			ss[i] = hx.Enc(o.K) + "=" + encChunks(chunks[o.K])
		}
	}
	return strings.Join(ss, ",")
}

func rcTemps(dir string) []string {
	var out []string
	filepath.Walk(dir, func(p string, fi os.FileInfo, err error) error {
		if err == nil && fi.Mode().IsRegular() && strings.HasPrefix(filepath.Base(p), ".tmp") {
			out = append(out, p)
		}
		return nil
	})
	return out
}

func partRealClose(run *hx.Run, r *hx.Rand, tmpRoot string) {
	shapes := rcShapes()
	rounds := run.N(2, 40)
	idx := 0
	for round := 0; round < rounds; round++ {
		objs, old := rcFixedObjs, rcFixedOld
		if round > 0 {
			objs, old = rcGenObjs(r.Fork(uint64(round)))
		}
		views := []string{"", "map-write", "map-readwrite"}
		for si, sh := range shapes {
			for vi, view := range views {
				for _, atomic := range []bool{false, true} {
					if atomic && !sh.atomicOK {
						continue
					}
					// prefix views: round 0 every shape through one of the two views, later rounds a third of the shapes
					if view != "" && ((round == 0 && (si+vi)%2 == 0) || (round > 0 && (si+vi+round)%6 != 0)) {
						continue
					}
					objs, old := objs, old
					if view != "" {
						objs, old = rcPrefixed(objs), rcPrefixed(old)
					}
					var sets [][]bk.KV
					if sh.multi {
						sets = [][]bk.KV{objs}
					} else {
						for _, o := range objs {
							sets = append(sets, []bk.KV{o})
						}
					}
					for _, set := range sets {
						dir := filepath.Join(tmpRoot, "x"+strconv.Itoa(idx))
						// fault-free run: learns the chunking (and is itself a case)
						base := rcRun(sh, atomic, set, old, rcPlan{}, dir, view)
						rcJudge(run, idx, sh, atomic, view, set, old, rcPlan{}, base, base.b.chunks)
						idx++
						var plans []rcPlan
						for k, o := range set {
							for _, hook := range []bool{true, false} {
								plans = append(plans, rcPlan{closeFail: map[string]bool{o.K: true}, viaHook: hook})
							}
							if nw := len(base.b.chunks[o.K]); nw > 0 {
								plans = append(plans, rcPlan{writeFail: map[string]int{o.K: 0}})
								if nw > 1 {
									plans = append(plans, rcPlan{writeFail: map[string]int{o.K: nw - 1}})
								}
							}
							// pairs: two closes fail; a write of one and the close of another
							for k2 := k + 1; k2 < len(set) && (round == 0 || k2 == k+1); k2++ {
								plans = append(plans, rcPlan{closeFail: map[string]bool{o.K: true, set[k2].K: true}, viaHook: (k+k2+si)%2 == 0})
								if len(base.b.chunks[o.K]) > 0 && (k+k2)%2 == 1 {
									plans = append(plans, rcPlan{writeFail: map[string]int{o.K: 0}, closeFail: map[string]bool{set[k2].K: true}, viaHook: (k+si)%2 == 0})
								}
							}
						}
						for _, plan := range plans {
							res := rcRun(sh, atomic, set, old, plan, dir, view)
							rcJudge(run, idx, sh, atomic, view, set, old, plan, res, base.b.chunks)
							idx++
						}
						os.RemoveAll(dir)
					}
				}
			}
		}
	}
	if run.Only < rcOnlyBase {
		partRealCloseFlush(run, r.Fork(99), tmpRoot)
	}
}

// rcJudge: protocol lines + oracle of one run.
func rcPrefixed(kvs []bk.KV) []bk.KV {
	out := make([]bk.KV, len(kvs))
	for i, o := range kvs {
		out[i] = bk.KV{K: rcViewPrefix + "/" + o.K, V: o.V}
	}
	return out
}

func rcJudge(run *hx.Run, idx int, sh rcShape, atomic bool, view string, objs, old []bk.KV, plan rcPlan, res rcResult, baseChunks map[string][]string) {
	b := res.b
	in := map[string]any{"part": "X (real close/write failures on a disk bucket)", "helper": sh.label, "atomic": atomic,
		"destination": map[string]string{"": "the disk bucket", "map-write": "storage.MapWriteBucket(disk bucket, MapOnPrefix(pre/fix))", "map-readwrite": "storage.MapReadWriteBucket(disk bucket, MapOnPrefix(pre/fix))"}[view],
		"objects":     opCase{objs: objs}.describe()["objects"], "previous_content": fmt.Sprint(old), "failing": fmt.Sprint(plan.faults()),
		"close_sabotaged_via": map[bool]string{true: "verif hook " + hookBeforeFileClose, false: "just before the bucket's Close"}[plan.viaHook], "case": idx}
	rp := fmt.Sprintf("build/c15 --out /tmp/c15-replay --seed %d --tier %s --only %d", run.Seed, run.Tier, rcOnlyBase+idx)
	if run.Only >= rcOnlyBase && run.Only != rcOnlyBase+idx {
		return
	}
	fail := func(class, what string) {
		run.Fail(hx.OracleFailure{Class: class, What: what, Input: in, Replay: rp})
	}
	run.Count("X:" + sh.label + ":atomic=" + b01(atomic) + ":" + okErr(res.err))
	if view != "" {
		run.Count("X:view=" + view)
	}
	run.CountN("X:fired-close", len(b.firedClose))
	run.CountN("X:fired-write", len(b.firedWrite))
	if plan.viaHook {
		run.CountN("X:close-sabotaged-from-hook", len(b.firedClose))
	}
	run.CountN("X:hook-not-reached", b.hookMissed)
	run.CountN("X:descriptor-not-found", b.noFd)
	if res.err != nil && strings.HasPrefix(res.err.Error(), "PANIC") {
		fail("panic", res.err.Error())
		return
	}
	// ---- protocol line: jobs in the order the Puts happened (parallel shapes) / in walk or
	// archive order (sequential shapes: a job after the failing one is never started)
	chunksOf := func(k string) []string {
		if cs, ok := b.chunks[k]; ok && len(cs) >= len(baseChunks[k]) {
			return cs
		}
		return baseChunks[k] // not (fully) written in this run: the chunking of the fault-free run
	}
	var jobs []bk.KV
	if sh.name == "copy" {
		seen := map[string]bool{}
		for _, k := range b.order {
			if !seen[k] {
				seen[k] = true
				jobs = append(jobs, bk.KV{K: k})
			}
		}
	} else {
		for _, o := range objs {
			jobs = append(jobs, bk.KV{K: o.K})
		}
	}
	cm := map[string][]string{}
	for _, j := range jobs {
		cm[j.K] = chunksOf(j.K)
	}
	line := "rput\t" + sh.name + "\t" + b01(atomic) + "\t" + rcEncKVs(old, nil) + "\t" + rcEncKVs(jobs, cm) + "\t" + encFaults(plan.faults())
	cnt := res.count
	if sh.name != "copy" {
		cnt = 0
	}
	out := okErr(res.err) + ":" + strconv.Itoa(cnt) + "|" + rcDump(res.dir, cm, old)
	fired := len(b.firedClose) + len(b.firedWrite)
	if b.hookMissed == 0 && b.noFd == 0 {
		run.Case(line, out, fired > 0)
	} else {
		run.Eval()
	}
	// ---- second Close
	for _, k := range sortedKeys(b.second) {
		ok := errors.Is(b.second[k], storage.ErrClosed)
		first := b.closeRet[k] != nil
		run.Case("dclose\t"+b01(b.atomicOf[k])+"\t"+b01(first), map[bool]string{true: "closed", false: "not-closed"}[ok], true)
		if !ok {
			fail("second-close-not-errclosed", fmt.Sprintf("the second Close of %q (atomic=%v, first Close returned %v) returned %v instead of storage.ErrClosed", k, b.atomicOf[k], b.closeRet[k], b.second[k]))
		}
	}
	// ---- oracle
	for _, k := range b.firedClose {
		if b.closeRet[k] == nil {
			fail("storageos-close-nil-after-failed-file-close", fmt.Sprintf("close(2) of the file behind %q (atomic=%v) failed with EBADF, but the object's Close returned nil", k, b.atomicOf[k]))
		}
	}
	if res.err == nil && len(b.firedClose) > 0 {
		fail("real-close-failure-not-reported", fmt.Sprintf("%s (atomic=%v) returned nil although close(2) of %v failed (EBADF)", sh.label, atomic, b.firedClose))
	}
	if res.err == nil && len(b.firedWrite) > 0 {
		fail("real-write-failure-not-reported", fmt.Sprintf("%s (atomic=%v) returned nil although write(2) to %v failed (EBADF)", sh.label, atomic, b.firedWrite))
	}
	if res.err == nil {
		if miss := missingOnDisk(res.dir, objs); len(miss) > 0 {
			fail("real-success-but-incomplete", fmt.Sprintf("%s (atomic=%v) returned nil but the destination lacks %v", sh.label, atomic, miss))
		}
		if sh.name == "copy" && res.count != len(objs) {
			fail("copy-count", fmt.Sprintf("Copy returned count %d for %d objects", res.count, len(objs)))
		}
	}
	if fired == 0 && res.err != nil && len(plan.faults()) == 0 {
		fail("real-fault-free-run-failed", fmt.Sprintf("%s (atomic=%v) without any failure returned %v", sh.label, atomic, res.err))
	}
	// a failed atomic put: the previous object (or none), no temp file
	oldOf := map[string]*string{}
	for i := range old {
		oldOf[old[i].K] = &old[i].V
	}
	newOf := map[string]string{}
	for _, o := range objs {
		newOf[o.K] = o.V
	}
	for _, k := range b.order {
		if atomic && !b.atomicOf[k] {
			fail("atomic-option-lost", fmt.Sprintf("%s asked for an atomic put of %q, but the disk bucket received a plain Put (the object is truncated and rewritten in place)", sh.label, k))
			break
		}
	}
	for _, k := range append(append([]string{}, b.firedClose...), b.firedWrite...) {
		if !atomic {
			continue
		}
		data, err := os.ReadFile(filepath.Join(res.dir, filepath.FromSlash(k)))
		switch {
		case err != nil && oldOf[k] == nil:
		case err == nil && oldOf[k] != nil && string(data) == *oldOf[k]:
		case err == nil && string(data) == newOf[k]:
			// old-or-new is all the property asks; the model line says "old" (as coded)
		default:
			fail("real-failure-atomic-object-torn", fmt.Sprintf("after the failed atomic put of %q (%d bytes) the destination holds %d bytes (err=%v); previous content %v", k, len(newOf[k]), len(data), err, oldOf[k] != nil))
		}
	}
	if atomic {
		if temps := rcTemps(res.dir); len(temps) > 0 {
			fail("real-failure-temp-file-left", fmt.Sprintf("%s (atomic) left temp files %v", sh.label, temps))
		}
	}
	for _, o := range old {
		if _, rewritten := newOf[o.K]; rewritten {
			continue
		}
		if data, err := os.ReadFile(filepath.Join(res.dir, filepath.FromSlash(o.K))); err != nil || string(data) != o.V {
			fail("real-bystander-changed", fmt.Sprintf("object %q, which no put touched, changed", o.K))
		}
	}
	if idx < 2 {
		run.Sample(in)
	}
}

func sortedKeys(m map[string]error) []string {
	ks := make([]string, 0, len(m))
	for k := range m {
		ks = append(ks, k)
	}
	sort.Strings(ks)
	return ks
}

// partRealCloseFlush: the generated-file flush makes its own disk buckets, so only the hook can
// reach their files: at the k-th hit of storageos.close.before_file_close the one descriptor
// open below the output directories (parallelism 1: one copy at a time) is closed.
func partRealCloseFlush(run *hx.Run, r *hx.Rand, tmpRoot string) {
	old := thread.Parallelism()
	thread.SetParallelism(1)
	defer thread.SetParallelism(old)
	n := run.N(6, 60)
	for i := 0; i < n; i++ {
		cr := r.Fork(uint64(i))
		nout := 1 + cr.Intn(3)
		nfiles := 1 + cr.Intn(3)
		total := nout * nfiles
		for k := -1; k < total; k++ {
			dir0 := filepath.Join(tmpRoot, fmt.Sprintf("xf%d_%d", i, k+1))
			must(os.MkdirAll(dir0, 0o755))
			dir, err := filepath.EvalSymlinks(dir0)
			must(err)
			rw := bufprotopluginos.NewResponseWriter(slog.New(slog.NewTextHandler(io.Discard, nil)), storageos.NewProvider(), bufprotopluginos.ResponseWriterWithCreateOutDirIfNotExists())
			for j := 0; j < nout; j++ {
				var files []*pluginpb.CodeGeneratorResponse_File
				for f := 0; f < nfiles; f++ {
					name := fmt.Sprintf("gen/f%d.txt", f)
					content := fmt.Sprintf("content-%d-%d", j, f)
					files = append(files, &pluginpb.CodeGeneratorResponse_File{Name: &name, Content: &content})
				}
				must(rw.AddResponse(ctx, &pluginpb.CodeGeneratorResponse{File: files}, filepath.Join(dir, "out"+strconv.Itoa(j))))
			}
			hits, sabotaged, ambiguous := 0, "", 0
			verifhook.SetHandler(func(point string) {
				if point != hookBeforeFileClose {
					return
				}
				if hits == k {
					fds := fdsUnder(dir)
					if len(fds) != 1 {
						ambiguous = len(fds)
					} else {
						for fd, link := range fds {
							syscall.Close(fd)
							sabotaged = link
						}
					}
				}
				hits++
			})
			var cerr error
			func() {
				defer func() {
					if p := recover(); p != nil {
						cerr = fmt.Errorf("PANIC: %v", p)
					}
				}()
				cerr = rw.Close()
			}()
			verifhook.SetHandler(nil)
			run.Eval()
			run.Count("X:flush:" + map[bool]string{true: "sabotaged", false: "clean"}[sabotaged != ""] + ":" + okErr(cerr))
			if ambiguous != 0 {
				run.Count("X:flush:descriptor-ambiguous")
			}
			in := map[string]any{"part": "X flush", "outputs": nout, "files_per_output": nfiles, "close_failing_at_position": k, "file": sabotaged}
			rp := fmt.Sprintf("build/c15 --out /tmp/c15-replay --seed %d --tier %s  (part X flush %d/%d)", run.Seed, run.Tier, i, k)
			complete := 0
			for j := 0; j < nout; j++ {
				for f := 0; f < nfiles; f++ {
					if data, err := os.ReadFile(filepath.Join(dir, "out"+strconv.Itoa(j), "gen", fmt.Sprintf("f%d.txt", f))); err == nil && string(data) == fmt.Sprintf("content-%d-%d", j, f) {
						complete++
					}
				}
			}
			switch {
			case cerr != nil && strings.HasPrefix(cerr.Error(), "PANIC"):
				run.Fail(hx.OracleFailure{Class: "panic", What: cerr.Error(), Input: in, Replay: rp})
			case sabotaged != "" && cerr == nil:
				run.Fail(hx.OracleFailure{Class: "flush-real-close-failure-not-reported", What: fmt.Sprintf("ResponseWriter.Close returned nil although close(2) of %s failed (EBADF) during the flush", sabotaged), Input: in, Replay: rp})
			case cerr == nil && complete != total:
				run.Fail(hx.OracleFailure{Class: "flush-success-but-missing", What: fmt.Sprintf("ResponseWriter.Close returned nil but only %d of %d generated files are complete", complete, total), Input: in, Replay: rp})
			case k < 0 && cerr != nil:
				run.Fail(hx.OracleFailure{Class: "real-fault-free-run-failed", What: fmt.Sprintf("ResponseWriter.Close without any failure returned %v", cerr), Input: in, Replay: rp})
			}
			os.RemoveAll(dir0)
		}
	}
}
