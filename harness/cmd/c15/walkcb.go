// Part W and Part R of the C15 harness: writes that happen INSIDE a read-bucket Walk callback.
//
// Part A injects faults into helpers that are handed a destination; it never runs a write inside
// a Walk callback of a DISK source.  storageos.Walk hands the callback's error to filepathext.Walk
// and afterwards asks "was that a not-exist error?" (= the prefix does not exist, a no-op): the
// question is asked of whatever came back, including the callback's own error.  As coded
// (os.IsNotExist, which looks through *PathError but not through %w / errors.Join) every real
// caller is protected only because it wraps: WalkReadObjects returns errors.Join(f(obj),
// obj.Close()), `buf export --exclude-imports` returns errors.Join(err, moduleFile.Close()).
//
// Part W: for every (source kind × helper shape × error kind × failing primitive) a copy of four
// objects out of the source through the fault wrapper; oracle: a fired fault ⇒ an error; nil ⇒
// every source object is in the destination in full.  The sequential shapes are also compared
// with the Lean model (BufModel.Faults.walkCopy): {error?, number of Puts attempted}.
//
//	helper shapes: WalkReadObjects+CopyReadObject, WalkReadObjects+PutPath, a bare Walk loop
//	returning the write error as it is, the loop of export.go (Join on the failure path), Walk +
//	CopyPath; Tar / Zip into a failing io.Writer (the write is inside WalkReadObjects); Copy.
//	source kinds: memory, disk, disk with symlinks, disk behind MapReadBucket, disk behind
//	FilterReadBucket.
//
// Part R: real failures, no injection: the destination path of the k-th object is a dangling
// symlink; a regular file sits where a directory is needed; a directory sits where the object
// goes; a destination directory is replaced by a dangling symlink mid-copy; and the SOURCE
// changes under the walk: an entry that was listed vanishes before it is visited (a file
// removed, a directory removed, the temp file of a concurrent atomic Put renamed away).
package main

import (
	"archive/tar"
	"bytes"
	"context"
	"errors"
	"fmt"
	"io"
	"os"
	"path/filepath"
	"sort"
	"strconv"
	"strings"

	"github.com/bufbuild/buf/private/pkg/storage"
	"github.com/bufbuild/buf/private/pkg/storage/storagearchive"
	"github.com/bufbuild/buf/private/pkg/storage/storagemem"
	"github.com/bufbuild/buf/private/pkg/storage/storageos"
	"github.com/bufbuild/buf/private/pkg/thread"
	"github.com/bufbuild/verifharness/internal/bk"
	"github.com/bufbuild/verifharness/internal/hx"
	"github.com/klauspost/compress/zip"
)

// walk order is the same on memory (sorted paths) and disk (sorted names per directory)
var walkObjs = []bk.KV{
	{K: "a/x.proto", V: "content-of-a-x"},
	{K: "b.proto", V: "content-of-b"},
	{K: "c/d/-first.proto", V: "content-of-first"},
	{K: "c/d/e.proto", V: "content-of-e"},
}

var walkSrcKinds = []string{"mem", "disk", "disk-symlinks", "disk-mapped", "disk-filtered"}

// mkSource builds a source bucket of the given kind holding objs; root is the directory of the
// disk kinds (objects live below root, or below root/sub for disk-mapped).
func mkSource(kind, root string, objs []bk.KV) storage.ReadBucket {
	if kind == "mem" {
		b := storagemem.NewReadWriteBucket()
		for _, o := range objs {
			must(bk.PutString(ctx, b, o.K, o.V))
		}
		return b
	}
	os.RemoveAll(root)
	base := root
	if kind == "disk-mapped" {
		base = filepath.Join(root, "sub")
	}
	for _, o := range objs {
		p := filepath.Join(base, filepath.FromSlash(o.K))
		must(os.MkdirAll(filepath.Dir(p), 0o755))
		must(os.WriteFile(p, []byte(o.V), 0o644))
	}
	var popts []storageos.ProviderOption
	var bopts []storageos.ReadWriteBucketOption
	if kind == "disk-symlinks" {
		popts = append(popts, storageos.ProviderWithSymlinks())
		bopts = append(bopts, storageos.ReadWriteBucketWithSymlinksIfSupported())
	}
	b, err := storageos.NewProvider(popts...).NewReadWriteBucket(root, bopts...)
	must(err)
	switch kind {
	case "disk-mapped":
		must(os.WriteFile(filepath.Join(root, "outside.proto"), []byte("not visible"), 0o644))
		return storage.MapReadBucket(b, storage.MapOnPrefix("sub"))
	case "disk-filtered":
		must(os.WriteFile(filepath.Join(root, "skipped.txt"), []byte("filtered out"), 0o644))
		return storage.FilterReadBucket(b, storage.MatchPathExt(".proto"))
	}
	return b
}

type walkHelper struct {
	name string
	run  func(src storage.ReadBucket, dst storage.WriteBucket) error
}

var walkHelpers = []walkHelper{
	{"wro-copyreadobject", func(src storage.ReadBucket, dst storage.WriteBucket) error {
		return storage.WalkReadObjects(ctx, src, "", func(ro storage.ReadObject) error {
			return storage.CopyReadObject(ctx, dst, ro)
		})
	}},
	{"wro-putpath", func(src storage.ReadBucket, dst storage.WriteBucket) error {
		return storage.WalkReadObjects(ctx, src, "", func(ro storage.ReadObject) error {
			data, err := io.ReadAll(ro)
			if err != nil {
				return err
			}
			return storage.PutPath(ctx, dst, ro.Path(), data)
		})
	}},
	// a hand-written loop that returns the write error as it is
	{"walk-bare", func(src storage.ReadBucket, dst storage.WriteBucket) error {
		return src.Walk(ctx, "", func(oi storage.ObjectInfo) error {
			ro, err := src.Get(ctx, oi.Path())
			if err != nil {
				return err
			}
			defer ro.Close()
			return storage.CopyReadObject(ctx, dst, ro)
		})
	}},
	// the loop of private/buf/cmd/buf/command/export/export.go (--exclude-imports)
	{"export-like", func(src storage.ReadBucket, dst storage.WriteBucket) error {
		return src.Walk(ctx, "", func(oi storage.ObjectInfo) error {
			ro, err := src.Get(ctx, oi.Path())
			if err != nil {
				return err
			}
			if err := storage.CopyReadObject(ctx, dst, ro); err != nil {
				return errors.Join(err, ro.Close())
			}
			return ro.Close()
		})
	}},
	{"walk-copypath", func(src storage.ReadBucket, dst storage.WriteBucket) error {
		return src.Walk(ctx, "", func(oi storage.ObjectInfo) error {
			return storage.CopyPath(ctx, src, oi.Path(), dst, oi.Path())
		})
	}},
}

func putsAttempted(fb *faultyBucket) int {
	seen := map[string]bool{}
	for _, p := range fb.trace {
		if p.kind == 'p' {
			seen[p.path] = true
		}
	}
	return len(seen)
}

// complete: every source object is in dest in full.
func missingIn(dest storage.ReadBucket, objs []bk.KV) []string {
	var missing []string
	for _, o := range objs {
		got, err := bk.ReadAll(ctx, dest, o.K)
		if err != nil || got != o.V {
			missing = append(missing, o.K)
		}
	}
	return missing
}

// kindWriter fails its failAt-th Write with err.
type kindWriter struct {
	n, failAt int
	err       error
}

func (w *kindWriter) Write(p []byte) (int, error) {
	i := w.n
	w.n++
	if i == w.failAt {
		return 0, w.err
	}
	return len(p), nil
}

func guardErr(f func() error) (err error) {
	defer func() {
		if p := recover(); p != nil {
			err = fmt.Errorf("PANIC: %v", p)
		}
	}()
	return f()
}

func partWalk(run *hx.Run, r *hx.Rand, tmpRoot string) {
	rp := fmt.Sprintf("build/c15 --out /tmp/c15-replay --seed %d --tier %s", run.Seed, run.Tier)
	n := len(walkObjs)
	cnt := r.Intn(n) // the failing object rotates; its start depends on the seed
	for _, sk := range walkSrcKinds {
		src := mkSource(sk, filepath.Join(tmpRoot, "w-"+sk), walkObjs)
		// (1) sequential helper shapes
		for _, h := range walkHelpers {
			fb0 := newFaulty(storagemem.NewReadWriteBucket(), nil)
			mem0 := fb0.delegate.(storage.ReadBucket)
			err0 := guardErr(func() error { return h.run(src, fb0) })
			run.Case("walkcb\t"+h.name+"\t"+sk+"\t"+strconv.Itoa(n)+"\t-\t-\t-", okErr(err0)+"|puts="+strconv.Itoa(putsAttempted(fb0)), false)
			if err0 != nil || len(missingIn(mem0, walkObjs)) > 0 {
				run.Fail(hx.OracleFailure{Class: "walk-copy-fault-free-broken", What: fmt.Sprintf("%s over a %s source without faults: err=%v, missing %v", h.name, sk, err0, missingIn(mem0, walkObjs)),
					Input: map[string]any{"helper": h.name, "source": sk}, Replay: rp})
			}
			for ei := range errKinds {
				ek := &errKinds[ei]
				for _, pk := range []byte{'p', 'w', 'c'} {
					k := cnt % n
					cnt++
					f := prim{walkObjs[k].K, pk, 0}
					mem := storagemem.NewReadWriteBucket()
					fb := newFaulty(mem, []prim{f})
					fb.errOf = ek.mk
					err := guardErr(func() error { return h.run(src, fb) })
					run.Case("walkcb\t"+h.name+"\t"+sk+"\t"+strconv.Itoa(n)+"\t"+strconv.Itoa(k)+"\t"+string(pk)+"\t"+ek.expr,
						okErr(err)+"|puts="+strconv.Itoa(putsAttempted(fb)), true)
					run.Count("W:" + h.name + ":" + okErr(err))
					run.Count("W:src:" + sk)
					run.Count("W:errkind:" + ek.name)
					in := map[string]any{"helper": h.name, "source": sk, "objects": len(walkObjs), "fault": f.String(), "error_kind": ek.name}
					if err != nil && strings.HasPrefix(err.Error(), "PANIC") {
						run.Fail(hx.OracleFailure{Class: "panic", What: err.Error(), Input: in, Replay: rp})
						continue
					}
					if len(fb.fired) > 0 && err == nil {
						// The hand-written loop that returns the write error as it is has no
						// caller in the tree: its family gets its own class (recorded finding:
						// the disk Walk breaks "if f returns error, Walk returns this error").
						class := "walk-callback-write-failure-not-reported"
						if h.name == "walk-bare" && sk != "mem" {
							class = "disk-walk-swallows-callback-error"
						}
						run.Fail(hx.OracleFailure{Class: class,
							What:  fmt.Sprintf("%s over a %s source returned nil although %v failed with %s (the write happens inside the Walk callback); destination lacks %v", h.name, sk, fb.fired, ek.name, missingIn(mem, walkObjs)),
							Input: in, Replay: rp})
					} else if err == nil {
						if miss := missingIn(mem, walkObjs); len(miss) > 0 {
							run.Fail(hx.OracleFailure{Class: "success-but-incomplete", What: fmt.Sprintf("%s over a %s source returned nil but the destination lacks %v", h.name, sk, miss), Input: in, Replay: rp})
						}
					}
				}
			}
		}
		// (2) Tar / Zip into a failing writer: the write is inside WalkReadObjects' callback
		for _, ak := range []string{"tar", "zip"} {
			archive := func(w io.Writer) error {
				if ak == "tar" {
					return storagearchive.Tar(ctx, src, w)
				}
				return storagearchive.Zip(ctx, src, w, true)
			}
			cw := &kindWriter{failAt: -1}
			must(archive(cw))
			total := cw.n
			for ei := range errKinds {
				ek := &errKinds[ei]
				pos := []int{0, total / 2, total - 1}[cnt%3]
				cnt++
				kw := &kindWriter{failAt: pos, err: ek.mk(prim{path: "archive"})}
				err := guardErr(func() error { return archive(kw) })
				run.Case("archwk\t"+ak+"\t"+sk+"\t"+ek.expr, okErr(err), true)
				run.Count("W:" + ak + ":" + okErr(err))
				if err == nil {
					run.Fail(hx.OracleFailure{Class: "archive-writer-fault-not-reported",
						What:  fmt.Sprintf("%s of a %s source returned nil although write %d of %d to the output failed with %s", ak, sk, pos, total, ek.name),
						Input: map[string]any{"kind": ak, "source": sk, "fail_write": pos, "error_kind": ek.name}, Replay: rp})
				}
			}
		}
		// (3) storage.Copy (AllPaths + Parallelize) out of the source, every kind × primitive
		for ei := range errKinds {
			ek := &errKinds[ei]
			for _, pk := range []byte{'p', 'w', 'c'} {
				k := cnt % n
				cnt++
				f := prim{walkObjs[k].K, pk, 0}
				mem := storagemem.NewReadWriteBucket()
				fb := newFaulty(mem, []prim{f})
				fb.errOf = ek.mk
				par := []int{1, 4}[cnt%2]
				old := thread.Parallelism()
				thread.SetParallelism(par)
				var copied int
				err := guardErr(func() error {
					var e error
					copied, e = storage.Copy(ctx, src, fb)
					return e
				})
				thread.SetParallelism(old)
				run.Eval()
				run.Distinct(fmt.Sprintf("W-copy-%s-%s-%c-%d", sk, ek.name, pk, k))
				run.Count("W:copy:" + okErr(err))
				in := map[string]any{"helper": "storage.Copy", "source": sk, "parallelism": par, "fault": f.String(), "error_kind": ek.name}
				if len(fb.fired) > 0 && err == nil {
					run.Fail(hx.OracleFailure{Class: "fault-not-reported", What: fmt.Sprintf("storage.Copy out of a %s source returned (%d, nil) although %v failed with %s", sk, copied, fb.fired, ek.name), Input: in, Replay: rp})
				}
				if err == nil {
					if miss := missingIn(mem, walkObjs); len(miss) > 0 {
						run.Fail(hx.OracleFailure{Class: "success-but-incomplete", What: fmt.Sprintf("storage.Copy out of a %s source returned nil but the destination lacks %v", sk, miss), Input: in, Replay: rp})
					}
				}
			}
		}
	}
}

// ---------------------------------------------------------------------------------------
// Part R: real failures

// destination helpers: the sequential shapes plus Copy and Untar(Tar(src))
type realHelper struct {
	name string
	run  func(src storage.ReadBucket, dst storage.ReadWriteBucket, step func(i int)) error
}

// stepping wraps the source so that step(i) runs when the i-th object (walk order) is read.
type steppingBucket struct {
	storage.ReadBucket
	step func(i int)
	n    int
}

func (s *steppingBucket) Get(c2 context.Context, path string) (storage.ReadObjectCloser, error) {
	ro, err := s.ReadBucket.Get(c2, path)
	i := s.n
	s.n++
	if s.step != nil {
		s.step(i)
	}
	return ro, err
}

func realHelpers() []realHelper {
	var out []realHelper
	for _, h := range walkHelpers {
		h := h
		out = append(out, realHelper{h.name, func(src storage.ReadBucket, dst storage.ReadWriteBucket, step func(int)) error {
			return h.run(&steppingBucket{ReadBucket: src, step: step}, dst)
		}})
	}
	out = append(out, realHelper{"copy-par1", func(src storage.ReadBucket, dst storage.ReadWriteBucket, step func(int)) error {
		old := thread.Parallelism()
		thread.SetParallelism(1)
		defer thread.SetParallelism(old)
		_, err := storage.Copy(ctx, &steppingBucket{ReadBucket: src, step: step}, dst)
		return err
	}})
	out = append(out, realHelper{"tar-untar", func(src storage.ReadBucket, dst storage.ReadWriteBucket, step func(int)) error {
		var buf bytes.Buffer
		if err := storagearchive.Tar(ctx, &steppingBucket{ReadBucket: src, step: step}, &buf); err != nil {
			return err
		}
		return storagearchive.Untar(ctx, &buf, dst)
	}})
	return out
}

func newDiskDest(dir string, symlinks bool) storage.ReadWriteBucket {
	must(os.MkdirAll(dir, 0o755))
	var popts []storageos.ProviderOption
	var bopts []storageos.ReadWriteBucketOption
	if symlinks {
		popts = append(popts, storageos.ProviderWithSymlinks())
		bopts = append(bopts, storageos.ReadWriteBucketWithSymlinksIfSupported())
	}
	b, err := storageos.NewProvider(popts...).NewReadWriteBucket(dir, bopts...)
	must(err)
	return b
}

// onDisk: the objects (of objs) that are regular files with the right content below dir.
func missingOnDisk(dir string, objs []bk.KV) []string {
	var missing []string
	for _, o := range objs {
		p := filepath.Join(dir, filepath.FromSlash(o.K))
		fi, err := os.Lstat(p)
		if err != nil || !fi.Mode().IsRegular() {
			missing = append(missing, o.K)
			continue
		}
		data, err := os.ReadFile(p)
		if err != nil || string(data) != o.V {
			missing = append(missing, o.K)
		}
	}
	return missing
}

func partReal(run *hx.Run, r *hx.Rand, tmpRoot string) {
	rp := fmt.Sprintf("build/c15 --out /tmp/c15-replay --seed %d --tier %s", run.Seed, run.Tier)
	n := len(walkObjs)
	helpers := realHelpers()
	type destFailure struct {
		name string
		// prepare the destination directory before the copy; k = the object concerned
		prepare func(dir string, k int)
		// mid-copy action when the i-th object is read (nil: none)
		step      func(dir string, k, i int)
		mustFail  func(k int) bool
		symlinked bool
	}
	failures := []destFailure{
		{name: "dangling-symlink-at-object-path", prepare: func(dir string, k int) {
			p := filepath.Join(dir, filepath.FromSlash(walkObjs[k].K))
			must(os.MkdirAll(filepath.Dir(p), 0o755))
			must(os.Symlink(filepath.Join(dir, "gone", filepath.Base(p)), p))
		}, mustFail: func(int) bool { return true }},
		{name: "dangling-symlink-at-object-path/symlink-bucket", symlinked: true, prepare: func(dir string, k int) {
			p := filepath.Join(dir, filepath.FromSlash(walkObjs[k].K))
			must(os.MkdirAll(filepath.Dir(p), 0o755))
			must(os.Symlink(filepath.Join(dir, "gone", filepath.Base(p)), p))
		}, mustFail: func(int) bool { return true }},
		{name: "file-where-directory-needed", prepare: func(dir string, k int) {
			// the first path component of the k-th object is a regular file
			first := strings.SplitN(walkObjs[k].K, "/", 2)[0]
			must(os.WriteFile(filepath.Join(dir, first), []byte("in the way"), 0o644))
		}, mustFail: func(k int) bool { return strings.Contains(walkObjs[k].K, "/") }},
		{name: "directory-where-object-goes", prepare: func(dir string, k int) {
			must(os.MkdirAll(filepath.Join(dir, filepath.FromSlash(walkObjs[k].K), "inner"), 0o755))
		}, mustFail: func(int) bool { return true }},
		{name: "directory-replaced-by-dangling-symlink-mid-copy", prepare: func(dir string, k int) {}, step: func(dir string, k, i int) {
			if i == 1 {
				// c/d (where the last two objects go) becomes a dangling symlink
				must(os.MkdirAll(filepath.Join(dir, "c"), 0o755))
				os.RemoveAll(filepath.Join(dir, "c", "d"))
				must(os.Symlink(filepath.Join(dir, "gone"), filepath.Join(dir, "c", "d")))
			}
		}, mustFail: func(int) bool { return true }},
		{name: "directory-removed-mid-copy", prepare: func(dir string, k int) {}, step: func(dir string, k, i int) {
			if i == 3 {
				// c/d already holds -first.proto; it is removed before e.proto is written: Put
				// re-creates it (no failure), but -first.proto is gone — only e.proto is judged
				os.RemoveAll(filepath.Join(dir, "c"))
			}
		}, mustFail: func(int) bool { return false }},
	}
	for _, sk := range []string{"mem", "disk", "disk-symlinks"} {
		for hi, h := range helpers {
			for fi, df := range failures {
				k := (hi + fi + r.Intn(2)) % n
				src := mkSource(sk, filepath.Join(tmpRoot, "r-src"), walkObjs)
				dir := filepath.Join(tmpRoot, "r-dst")
				os.RemoveAll(dir)
				dst := newDiskDest(dir, df.symlinked)
				df.prepare(dir, k)
				var step func(int)
				if df.step != nil {
					step = func(i int) { df.step(dir, k, i) }
				}
				err := guardErr(func() error { return h.run(src, dst, step) })
				run.Eval()
				run.Distinct(fmt.Sprintf("R-%s-%s-%d-%d", sk, h.name, fi, k))
				run.Count("R:" + df.name + ":" + okErr(err))
				in := map[string]any{"helper": h.name, "source": sk, "destination": "disk", "failure": df.name, "object": walkObjs[k].K}
				judged := walkObjs
				if df.name == "directory-removed-mid-copy" {
					judged = walkObjs[3:]
					if h.name == "tar-untar" {
						judged = walkObjs // the archive is written after the source was read
					}
				}
				if err != nil && strings.HasPrefix(err.Error(), "PANIC") {
					run.Fail(hx.OracleFailure{Class: "panic", What: err.Error(), Input: in, Replay: rp})
					continue
				}
				if err == nil {
					if miss := missingOnDisk(dir, judged); len(miss) > 0 {
						class := "real-write-failure-not-reported"
						if h.name == "walk-bare" && sk != "mem" {
							class = "disk-walk-swallows-callback-error"
						}
						run.Fail(hx.OracleFailure{Class: class,
							What:  fmt.Sprintf("%s from a %s source into a disk destination (%s, object %q) returned nil but the destination lacks %v", h.name, sk, df.name, walkObjs[k].K, miss),
							Input: in, Replay: rp})
					}
				}
				if err == nil && df.mustFail(k) && len(missingOnDisk(dir, judged)) == 0 {
					run.Count("R:" + df.name + ":succeeded-completely")
				}
			}
		}
	}
	os.RemoveAll(filepath.Join(tmpRoot, "r-dst"))

	// the SOURCE changes under the walk
	type vanish struct {
		name string
		// act when the i-th object is read; returns the objects that no longer exist afterwards
		act  func(root string, i int, state map[string]any)
		gone []string // objects a correct walk may legitimately miss
		at   int
	}
	vanishes := []vanish{
		{name: "file-removed-before-visited", at: 0, gone: []string{"b.proto"}, act: func(root string, i int, _ map[string]any) {
			must(os.Remove(filepath.Join(root, "b.proto")))
		}},
		{name: "sibling-file-removed-before-visited", at: 2, gone: []string{"c/d/e.proto"}, act: func(root string, i int, _ map[string]any) {
			must(os.Remove(filepath.Join(root, "c", "d", "e.proto")))
		}},
		{name: "directory-removed-before-visited", at: 0, gone: []string{"c/d/-first.proto", "c/d/e.proto"}, act: func(root string, i int, _ map[string]any) {
			must(os.RemoveAll(filepath.Join(root, "c")))
		}},
		// a concurrent atomic Put into the walked directory: its temp file ".tmp…" was listed by
		// the directory read and is renamed away (the put completes) before the walk reaches it
		{name: "atomic-put-temp-file-renamed-before-visited", at: 2, gone: nil, act: func(root string, i int, st map[string]any) {
			must(st["writer"].(storage.WriteObjectCloser).Close())
		}},
	}
	for _, sk := range []string{"disk", "disk-symlinks", "disk-filtered"} {
		for _, h := range helpers {
			for vi, v := range vanishes {
				root := filepath.Join(tmpRoot, "v-src")
				src := mkSource(sk, root, walkObjs)
				state := map[string]any{}
				if strings.HasPrefix(v.name, "atomic-put") {
					// the writer of the concurrent put: c/d/zz.proto, temp file c/d/.tmpzz.proto<digits>
					// sorts after "-first.proto" and before "e.proto"
					wb, err := storageos.NewProvider().NewReadWriteBucket(root)
					must(err)
					w, err := wb.Put(ctx, "c/d/zz.proto", storage.PutWithAtomic())
					must(err)
					_, err = w.Write([]byte("content-of-zz"))
					must(err)
					state["writer"] = w
				}
				dst := storagemem.NewReadWriteBucket()
				fired := false
				step := func(i int) {
					if i == v.at && !fired {
						fired = true
						v.act(root, i, state)
					}
				}
				err := guardErr(func() error { return h.run(src, dst, step) })
				if w, ok := state["writer"].(storage.WriteObjectCloser); ok && !fired {
					w.Close()
				}
				var survivors []bk.KV
				for _, o := range walkObjs {
					goneNow := false
					for _, g := range v.gone {
						if g == o.K {
							goneNow = true
						}
					}
					if !goneNow {
						survivors = append(survivors, o)
					}
				}
				miss := missingIn(dst, survivors)
				visited := 0
				if kvs, werr := bk.WalkAll(ctx, dst, ""); werr == nil {
					visited = len(kvs)
				}
				sort.Strings(miss)
				// model: sequential walks only (Copy lists the paths first, then reads)
				if h.name != "copy-par1" {
					res := okErr(err)
					if err == nil {
						res += "|missing-survivors=" + strconv.Itoa(len(miss))
					}
					run.Case("walkvanish\t"+sk+"\t"+h.name+"\t"+v.name, res, true)
				} else {
					run.Eval()
					run.Distinct(fmt.Sprintf("V-%s-%s-%d", sk, h.name, vi))
				}
				run.Count("V:" + v.name + ":" + okErr(err))
				in := map[string]any{"helper": h.name, "source": sk, "change": v.name, "objects_copied": visited}
				if err != nil && strings.HasPrefix(err.Error(), "PANIC") {
					run.Fail(hx.OracleFailure{Class: "panic", What: err.Error(), Input: in, Replay: rp})
					continue
				}
				if !fired {
					run.Count("V:change-not-triggered")
					continue
				}
				if err == nil && len(miss) > 0 {
					run.Fail(hx.OracleFailure{Class: "walk-truncated-by-vanished-entry",
						What:  fmt.Sprintf("%s out of a %s source returned nil but %v — present in the source before, during and after the operation — were never copied: %s, and the disk Walk took the resulting not-exist error for \"the prefix does not exist\" and stopped silently", h.name, sk, miss, v.name),
						Input: in, Replay: rp})
				}
			}
		}
	}
	os.RemoveAll(filepath.Join(tmpRoot, "v-src"))
	os.RemoveAll(filepath.Join(tmpRoot, "r-src"))
	_ = tar.TypeReg
	_ = zip.Store
}
