package main

// Family B — the identity of the modules of a workspace (BucketID / OpaqueID).
//
// bufworkspace derives the BucketIDs of the modules of a v2 buf.yaml from their `path:`
// (bucketIDsForModuleConfigsV2 / bucketIDsForDirPaths, workspace_targeting.go): modules that
// share a path get `<path>`, `<path>-2`, ...; when that collides with a directory literally
// named `<path>-2` every path is suffixed (`foo-1`, `foo-2`, `foo-2-1`).  The BucketID is the
// OpaqueID of an unnamed module (the key ModuleSetBuilder deduplicates by, the node name of
// `buf dep graph`) and the key of bucketIDToModuleConfig (includes / excludes, lint / breaking
// configuration of the module).
//
// This family writes workspaces in which that derivation matters — the same `path:` listed 2-4
// times with different includes / excludes, sibling directories named like derived ids
// (foo-1, foo-2, foo-2-1, foo-2-2, foo-3, ...), nested module directories, names differing by
// case, `.` as a module path, every order of the entries, paths spelled `./foo/`, with and
// without `name:` — opens them through the real bufworkspace provider (and, for a sample,
// through the real `buf` binary: build, ls-files, dep graph, lint) and checks, independently of
// the Lean model, from the generator's own bookkeeping and the file system:
//
//	bucketid-workspace-fails   a legal workspace cannot be opened / built at all
//	bucketid-module-missing    fewer / more local modules than buf.yaml entries
//	bucketid-collision         two modules share a BucketID or an OpaqueID
//	bucketid-file-owner        a file is owned by two modules, by none, or a module's file set
//	                           is not the file set of any entry (file system + includes/excludes)
//	bucketid-config-swapped    a module carries the name / lint / breaking configuration that was
//	                           written for another entry
//	bucketid-dep-edge          ModuleDeps / `buf dep graph` do not name the modules the planted
//	                           imports point to
//	bucketid-lsfiles-image     ls-files, the image and the files on disk disagree
//	bucketid-scheme            the ids are not the documented `<path>`, `<path>-2`, ... scheme
//	                           (source comment of bucketIDsForModuleConfigsV2)
//	bucketid-v1-duplicate-accepted  a buf.work.yaml listing one directory twice is accepted
//
// Correspondence: one `bid` line per workspace — the paths as written (+ names) in, the
// BucketID~OpaqueID of every entry out — against BufModel.BucketID (lean/Driver/C10.lean).
//
// Case indexes are 1000000+k (`--only 1000000+k` replays one workspace).

import (
	"bytes"
	"encoding/json"
	"fmt"
	"io/fs"
	"os"
	"os/exec"
	"path"
	"path/filepath"
	"regexp"
	"sort"
	"strconv"
	"strings"
	"sync"

	"github.com/bufbuild/buf/private/buf/buftarget"
	"github.com/bufbuild/buf/private/buf/bufworkspace"
	"github.com/bufbuild/buf/private/bufpkg/bufmodule"
	"github.com/bufbuild/buf/private/bufpkg/bufplugin"
	"github.com/bufbuild/buf/private/pkg/slogext"
	"github.com/bufbuild/buf/private/pkg/storage/storageos"
	"github.com/bufbuild/verifharness/internal/hx"
	"github.com/bufbuild/verifharness/internal/wsgen"
)

const bidBase = 1000000

// reportNameEqualsDirPath: an unnamed module in a directory that is spelled like the `name:` of
// another module (buf.test/acme/x) has the same OpaqueID as that module; ModuleSetBuilder then
// silently keeps only one of the two.  Observation of strengthening round 5 (see
// handoff/strengthen5-C.md), recorded in known_findings.json under the witness-specific class
// `bucketid-name-equals-dirpath`; C10_BID_NAMEDIR=0 keeps the witness out of the family.
var reportNameEqualsDirPath = os.Getenv("C10_BID_NAMEDIR") != "0"

var bidLintRules = []string{"MESSAGE_PASCAL_CASE", "FIELD_LOWER_SNAKE_CASE", "ENUM_PASCAL_CASE", "ENUM_VALUE_UPPER_SNAKE_CASE"}

var bidBreakingRules = []string{"ENUM_NO_DELETE", "ENUM_VALUE_NO_DELETE", "FIELD_NO_DELETE", "FIELD_SAME_NAME", "FIELD_SAME_TYPE",
	"FIELD_SAME_JSON_NAME", "FIELD_SAME_ONEOF", "FILE_NO_DELETE", "MESSAGE_NO_DELETE", "ONEOF_NO_DELETE", "RPC_NO_DELETE",
	"SERVICE_NO_DELETE", "FILE_SAME_PACKAGE", "ENUM_SAME_TYPE", "FIELD_SAME_CARDINALITY", "RPC_SAME_REQUEST_TYPE"}

type bidFile struct {
	Rel     string   `json:"path"`    // workspace-relative
	Imports []string `json:"imports"` // import paths (module-relative paths of other entries' files)
}

type bidEntry struct {
	Raw      string    `json:"path_as_written"`
	Dir      string    `json:"dir"`
	Name     string    `json:"name,omitempty"`
	Includes []string  `json:"includes,omitempty"`
	Excludes []string  `json:"excludes,omitempty"`
	Lint     string    `json:"lint_use"`
	Breaking string    `json:"breaking_except"`
	Files    []bidFile `json:"files"`
	Deps     []int     `json:"imports_entries"` // entries whose files this entry imports
}

type bidCase struct {
	Idx     int        `json:"index"`
	Kind    string     `json:"kind"` // v2 | v1
	Label   string     `json:"stratum"`
	Entries []bidEntry `json:"entries"`
	// WantErr: "" = the workspace is legal; "v1-duplicate" / "v1-contains" = buf.work.yaml must be
	// rejected; "identical" = two identical entries (rejection is fine, acceptance goes through the
	// ordinary oracle).
	WantErr  string `json:"want_error,omitempty"`
	NameDir  bool   `json:"name_equals_dirpath,omitempty"`
	Binary   bool   `json:"binary_sample"`
	yaml     string
	perDir   map[string]string // v1: dir -> buf.yaml
	fallback bool              // the documented scheme needs its second pass
}

// ---------------------------------------------------------------------------------------------
// generation

type bidGroup struct {
	dir  string
	reps int
}

type bidSpec struct {
	label  string
	groups []bidGroup
	// order: 0 = as listed, 1 = reversed, 2 = shuffled, 3 = sorted
	order int
}

func g(dir string, reps int) bidGroup { return bidGroup{dir, reps} }

// the stratified part: every shape the id derivation distinguishes, each in three entry orders.
func bidStrata() []bidSpec {
	shapes := []struct {
		label  string
		groups []bidGroup
	}{
		{"rep2", []bidGroup{g("foo", 2)}},
		{"rep3", []bidGroup{g("foo", 3)}},
		{"rep4", []bidGroup{g("foo", 4)}},
		{"rep2+other", []bidGroup{g("foo", 2), g("bar", 1)}},
		{"rep2+foo-2", []bidGroup{g("foo", 2), g("foo-2", 1)}},
		{"rep3+foo-2", []bidGroup{g("foo", 3), g("foo-2", 1)}},
		{"rep3+foo-3", []bidGroup{g("foo", 3), g("foo-3", 1)}},
		{"rep3+foo-2+foo-3", []bidGroup{g("foo", 3), g("foo-2", 1), g("foo-3", 1)}},
		{"rep4+foo-4", []bidGroup{g("foo", 4), g("foo-4", 1)}},
		{"rep4+foo-3", []bidGroup{g("foo", 4), g("foo-3", 1)}},
		{"rep2+foo-1", []bidGroup{g("foo", 2), g("foo-1", 1)}},
		{"rep2+foo-3(no-clash)", []bidGroup{g("foo", 2), g("foo-3", 1)}},
		{"rep2+foo-02(no-clash)", []bidGroup{g("foo", 2), g("foo-02", 1)}},
		{"rep2+foo-2+foo-2-1", []bidGroup{g("foo", 2), g("foo-2", 1), g("foo-2-1", 1)}},
		{"rep2+foo-2+foo-1", []bidGroup{g("foo", 2), g("foo-2", 1), g("foo-1", 1)}},
		{"rep2+foo-2+foo-1+foo-2-1", []bidGroup{g("foo", 2), g("foo-2", 1), g("foo-1", 1), g("foo-2-1", 1)}},
		{"rep2+foo-2x2", []bidGroup{g("foo", 2), g("foo-2", 2)}},
		{"rep2+foo-2x2+foo-2-2", []bidGroup{g("foo", 2), g("foo-2", 2), g("foo-2-2", 1)}},
		{"rep2+foo-2x2+foo-2-1+foo-2-2", []bidGroup{g("foo", 2), g("foo-2", 2), g("foo-2-1", 1), g("foo-2-2", 1)}},
		{"rep2+foo-2+foo-2-2", []bidGroup{g("foo", 2), g("foo-2", 1), g("foo-2-2", 1)}},
		{"rep2+foo-1+foo-1-1+foo-2", []bidGroup{g("foo", 2), g("foo-1", 1), g("foo-1-1", 1), g("foo-2", 1)}},
		{"rep1+foo-2(single)", []bidGroup{g("foo", 1), g("foo-2", 1), g("foo-1", 1)}},
		{"rep2+Foo", []bidGroup{g("foo", 2), g("Foo", 1)}},
		{"rep2+Foox2+foo-2", []bidGroup{g("foo", 2), g("Foo", 2), g("foo-2", 1)}},
		{"rep2+Foo-2", []bidGroup{g("foo", 2), g("Foo-2", 1)}},
		{"Foox2+Foo-2+foo", []bidGroup{g("Foo", 2), g("Foo-2", 1), g("foo", 1)}},
		{"rep2+nested", []bidGroup{g("foo", 2), g("foo/bar", 1)}},
		{"rep1+nested", []bidGroup{g("foo", 1), g("foo/bar", 1)}},
		{"rep2+nestedx2+foo-2", []bidGroup{g("foo", 2), g("foo/bar", 2), g("foo-2", 1)}},
		{"nestedx2+nested-2+parent", []bidGroup{g("foo/bar", 2), g("foo/bar-2", 1), g("foo", 1)}},
		{"deepx3+deep-2+deep-3", []bidGroup{g("a/b", 3), g("a/b-2", 1), g("a/b-3", 1)}},
		{"foo-2/bar+rep2+foo-2", []bidGroup{g("foo", 2), g("foo-2", 1), g("foo-2/bar", 1)}},
		{"dotx2", []bidGroup{g(".", 2)}},
		{"dotx2+.-2", []bidGroup{g(".", 2), g(".-2", 1)}},
		{"dotx2+foo", []bidGroup{g(".", 2), g("foo", 1)}},
		{"two-reps+both-clash", []bidGroup{g("foo", 2), g("bar", 2), g("foo-2", 1), g("bar-2", 1)}},
		{"two-reps+one-clash", []bidGroup{g("foo", 3), g("bar", 2), g("bar-2", 1)}},
		{"two-reps+no-clash", []bidGroup{g("foo", 2), g("bar", 3), g("new", 1)}},
		{"digits-dir", []bidGroup{g("v1", 2), g("v1-2", 1), g("v1-2-1", 1)}},
	}
	var out []bidSpec
	for _, s := range shapes {
		for _, o := range []int{0, 1, 2} {
			out = append(out, bidSpec{label: s.label, groups: s.groups, order: o})
		}
	}
	return out
}

// derived-looking sibling names of dir.
func bidDerived(r *hx.Rand, dir string) string {
	return dir + "-" + hx.Pick(r, []string{"1", "2", "2", "3", "4", "2-1", "2-2", "1-1", "02", "10"})
}

func bidRandomSpec(r *hx.Rand) bidSpec {
	bases := []string{"foo", "bar", "Foo", "a/b", "foo/bar", "v1", "proto"}
	hx.Shuffle(r, bases)
	nb := 1 + r.Intn(2)
	var groups []bidGroup
	have := map[string]bool{}
	add := func(d string, n int) {
		if !have[d] {
			have[d] = true
			groups = append(groups, g(d, n))
		}
	}
	for i := 0; i < nb; i++ {
		add(bases[i], 1+r.Intn(4))
	}
	if r.Chance(1, 10) {
		add(".", 1+r.Intn(3))
	}
	nd := r.Intn(4)
	for i := 0; i < nd; i++ {
		from := hx.Pick(r, groups).dir
		reps := 1
		if r.Chance(1, 4) {
			reps = 2 + r.Intn(2)
		}
		add(bidDerived(r, from), reps)
	}
	total := 0
	for _, x := range groups {
		total += x.reps
	}
	for total > 10 {
		last := &groups[len(groups)-1]
		if last.reps > 1 {
			last.reps--
		} else {
			groups = groups[:len(groups)-1]
		}
		total--
	}
	return bidSpec{label: "random", groups: groups, order: 2 + r.Intn(2)}
}

func bidJoin(dir, sub string) string {
	if dir == "." {
		return sub
	}
	return dir + "/" + sub
}

func bidUnder(dir, p string) bool {
	return dir == "." || p == dir || strings.HasPrefix(p, dir+"/")
}

func bidSpell(r *hx.Rand, dir string) string {
	if dir == "." {
		return hx.Pick(r, []string{".", ".", "./", ""})
	}
	switch r.Intn(10) {
	case 0:
		return "./" + dir
	case 1:
		return dir + "/"
	case 2:
		return "./" + dir + "/"
	case 3:
		return dir + "/."
	case 4:
		return "x/../" + dir
	}
	return dir
}

// bidGenV2 lays a v2 workspace out for the spec.
func bidGenV2(r *hx.Rand, idx int, spec bidSpec) *bidCase {
	c := &bidCase{Idx: idx, Kind: "v2", Label: spec.label}
	var dirs []string
	for _, gr := range spec.groups {
		dirs = append(dirs, gr.dir)
	}
	// entries per group
	type ent struct {
		e     bidEntry
		owned []string // directories (workspace-relative) in which this entry gets its files
		top   bool     // also a file directly in the module directory
	}
	var ents []*ent
	for _, gr := range spec.groups {
		var nested []string
		for _, d := range dirs {
			if d != gr.dir && bidUnder(gr.dir, d) {
				nested = append(nested, d)
			}
		}
		mode := "inc"
		switch {
		case gr.reps == 1 && len(nested) == 0:
			mode = hx.Pick(r, []string{"plain", "plain", "plain", "inc"})
		case gr.reps == 1:
			mode = hx.Pick(r, []string{"exc", "exc", "inc"})
		default:
			mode = hx.Pick(r, []string{"inc", "exc", "exc", "nest"})
		}
		var first *ent
		groupStart := len(ents)
		for i := 0; i < gr.reps; i++ {
			x := &ent{e: bidEntry{Dir: gr.dir}}
			sub := bidJoin(gr.dir, "s"+strconv.Itoa(i))
			switch {
			case mode == "plain":
				x.owned = []string{sub}
				x.top = true
			case mode == "exc" && i == 0:
				// excludes: everything the other entries of this directory include (filled in
				// below) and the nested module directories
				first = x
				x.owned = []string{sub}
				x.top = true
			case mode == "nest" && i == 0:
				x.e.Includes = []string{sub}
				x.e.Excludes = []string{sub + "/in"}
				x.owned = []string{sub, sub + "/deep"}
			case mode == "nest" && i == 1:
				s0 := bidJoin(gr.dir, "s0")
				x.e.Includes = []string{s0 + "/in"}
				x.owned = []string{s0 + "/in"}
			default:
				x.e.Includes = []string{sub}
				x.owned = []string{sub}
				if r.Chance(1, 3) {
					extra := bidJoin(gr.dir, "t"+strconv.Itoa(i))
					x.e.Includes = append(x.e.Includes, extra)
					x.owned = append(x.owned, extra)
				}
			}
			ents = append(ents, x)
		}
		if first != nil {
			for _, y := range ents[groupStart:] {
				if y != first {
					first.e.Excludes = append(first.e.Excludes, y.e.Includes...)
				}
			}
			first.e.Excludes = append(first.e.Excludes, nested...)
			// buf refuses an exclude that lies within another exclude: keep the outermost ones
			var outer []string
			for _, a := range first.e.Excludes {
				inside := false
				for _, b := range first.e.Excludes {
					if a != b && bidUnder(b, a) {
						inside = true
					}
				}
				if !inside {
					outer = append(outer, a)
				}
			}
			first.e.Excludes = outer
		}
	}
	// order of the entries in buf.yaml (entries sharing a path keep their relative order only by
	// accident: every order is legal)
	switch spec.order {
	case 1:
		for i, j := 0, len(ents)-1; i < j; i, j = i+1, j-1 {
			ents[i], ents[j] = ents[j], ents[i]
		}
	case 2:
		hx.Shuffle(r, ents)
	case 3:
		sort.SliceStable(ents, func(i, j int) bool { return ents[i].e.Dir < ents[j].e.Dir })
	}
	// names, configuration, spelling
	namedMode := r.Intn(4) // 0,1: none; 2: some; 3: all
	groupPos := map[string]int{}
	for k, x := range ents {
		if namedMode == 3 || (namedMode == 2 && r.Bool()) {
			x.e.Name = fmt.Sprintf("buf.test/acme/n%d", (k*7+3)%11)
		}
		x.e.Raw = bidSpell(r, x.e.Dir)
		// entries sharing a directory get pairwise different lint rules; the breaking rule is
		// unique per entry
		x.e.Lint = bidLintRules[(groupPos[x.e.Dir]+len(x.e.Dir))%len(bidLintRules)]
		groupPos[x.e.Dir]++
		x.e.Breaking = bidBreakingRules[k%len(bidBreakingRules)]
	}
	// files
	for k, x := range ents {
		n := 0
		for _, od := range x.owned {
			x.e.Files = append(x.e.Files, bidFile{Rel: fmt.Sprintf("%s/e%dx%d.proto", od, k, n)})
			n++
		}
		if x.top {
			x.e.Files = append(x.e.Files, bidFile{Rel: bidJoin(x.e.Dir, fmt.Sprintf("e%dx%d.proto", k, n))})
		}
	}
	// imports: a DAG over a random order of the entries
	perm := make([]int, len(ents))
	for i := range perm {
		perm[i] = i
	}
	hx.Shuffle(r, perm)
	for pi, k := range perm {
		x := ents[k]
		for _, dk := range perm[:pi] {
			if len(x.e.Deps) < 3 && r.Chance(1, 2) {
				x.e.Deps = append(x.e.Deps, dk)
			}
		}
		sort.Ints(x.e.Deps)
		for _, dk := range x.e.Deps {
			dep := ents[dk]
			fi := r.Intn(len(x.e.Files))
			x.e.Files[fi].Imports = append(x.e.Files[fi].Imports, bidImportPath(dep.e.Dir, dep.e.Files[0].Rel))
		}
	}
	for _, x := range ents {
		c.Entries = append(c.Entries, x.e)
	}
	c.render()
	return c
}

func bidImportPath(dir, rel string) string {
	if dir == "." {
		return rel
	}
	return strings.TrimPrefix(rel, dir+"/")
}

func yq(s string) string { return strconv.Quote(s) }

func (c *bidCase) render() {
	var b strings.Builder
	switch c.Kind {
	case "v2":
		b.WriteString("version: v2\nmodules:\n")
		for _, e := range c.Entries {
			fmt.Fprintf(&b, "  - path: %s\n", yq(e.Raw))
			if e.Name != "" {
				fmt.Fprintf(&b, "    name: %s\n", e.Name)
			}
			if len(e.Includes) > 0 {
				b.WriteString("    includes:\n")
				for _, p := range e.Includes {
					fmt.Fprintf(&b, "      - %s\n", yq(p))
				}
			}
			if len(e.Excludes) > 0 {
				b.WriteString("    excludes:\n")
				for _, p := range e.Excludes {
					fmt.Fprintf(&b, "      - %s\n", yq(p))
				}
			}
			fmt.Fprintf(&b, "    lint:\n      use:\n        - %s\n    breaking:\n      except:\n        - %s\n", e.Lint, e.Breaking)
		}
	case "v1":
		b.WriteString("version: v1\ndirectories:\n")
		c.perDir = map[string]string{}
		for _, e := range c.Entries {
			fmt.Fprintf(&b, "  - %s\n", yq(e.Raw))
			by := "version: v1\n"
			if e.Name != "" {
				by += "name: " + e.Name + "\n"
			}
			by += fmt.Sprintf("lint:\n  use:\n    - %s\nbreaking:\n  except:\n    - %s\n", e.Lint, e.Breaking)
			c.perDir[e.Dir] = by
		}
	}
	c.yaml = b.String()
}

// source of one generated file: violates every rule of bidLintRules once.
func bidSource(k int, fi int, f bidFile, impMsgs []string) string {
	var b strings.Builder
	fmt.Fprintf(&b, "syntax = \"proto3\";\npackage pe%d.f%d;\n", k, fi)
	for _, imp := range f.Imports {
		fmt.Fprintf(&b, "import \"%s\";\n", imp)
	}
	fmt.Fprintf(&b, "message bad_msg {\n  string BadField = 1;\n")
	for i, m := range impMsgs {
		fmt.Fprintf(&b, "  %s dep_%d = %d;\n", m, i, i+2)
	}
	fmt.Fprintf(&b, "}\nenum bad_enum {\n  bad_enum_zero = 0;\n}\n")
	return b.String()
}

var bidFileRe = regexp.MustCompile(`e(\d+)x(\d+)\.proto$`)

func (c *bidCase) write(dir string) error {
	write := func(rel, data string) error {
		full := filepath.Join(dir, filepath.FromSlash(rel))
		if err := os.MkdirAll(filepath.Dir(full), 0o755); err != nil {
			return err
		}
		return os.WriteFile(full, []byte(data), 0o644)
	}
	if c.Kind == "v2" {
		if err := write("buf.yaml", c.yaml); err != nil {
			return err
		}
	} else {
		if err := write("buf.work.yaml", c.yaml); err != nil {
			return err
		}
		for d, by := range c.perDir {
			if err := write(d+"/buf.yaml", by); err != nil {
				return err
			}
		}
	}
	for k, e := range c.Entries {
		if err := os.MkdirAll(filepath.Join(dir, filepath.FromSlash(e.Dir)), 0o755); err != nil {
			return err
		}
		for fi, f := range e.Files {
			var msgs []string
			for _, imp := range f.Imports {
				m := bidFileRe.FindStringSubmatch(imp)
				msgs = append(msgs, fmt.Sprintf("pe%s.f%s.bad_msg", m[1], m[2]))
			}
			if err := write(f.Rel, bidSource(k, fi, f, msgs)); err != nil {
				return err
			}
		}
	}
	return nil
}

// v1 cases: buf.work.yaml with derived-looking / case-differing / duplicate directories.
func bidGenV1(r *hx.Rand, idx int, label string, raws []string, wantErr string) *bidCase {
	c := &bidCase{Idx: idx, Kind: "v1", Label: label, WantErr: wantErr}
	seen := map[string]bool{}
	for k, raw := range raws {
		d := path.Clean(raw)
		e := bidEntry{Raw: raw, Dir: d, Lint: bidLintRules[k%len(bidLintRules)], Breaking: bidBreakingRules[k%len(bidBreakingRules)]}
		if r.Chance(1, 3) {
			e.Name = fmt.Sprintf("buf.test/acme/n%d", (k*7+3)%11)
		}
		if !seen[d] && d != "." {
			e.Files = []bidFile{{Rel: fmt.Sprintf("%s/m/e%dx0.proto", d, k)}}
		}
		seen[d] = true
		c.Entries = append(c.Entries, e)
	}
	if wantErr == "" {
		for k := 1; k < len(c.Entries); k++ {
			if r.Bool() {
				c.Entries[k].Deps = []int{k - 1}
				c.Entries[k].Files[0].Imports = []string{bidImportPath(c.Entries[k-1].Dir, c.Entries[k-1].Files[0].Rel)}
			}
		}
	}
	c.render()
	return c
}

func bidCases(run *hx.Run, rnd *hx.Rand) []*bidCase {
	var cases []*bidCase
	next := func() int { return bidBase + len(cases) }
	for si, spec := range bidStrata() {
		c := bidGenV2(rnd.Fork(uint64(next())), next(), spec)
		c.Binary = si%3 == 0
		cases = append(cases, c)
	}
	v1 := []struct {
		label string
		raws  []string
		want  string
	}{
		{"v1-derived-names", []string{"foo", "foo-2", "foo-1", "foo-2-1"}, ""},
		{"v1-case", []string{"foo", "Foo", "foo-2"}, ""},
		{"v1-spelled", []string{"./foo/", "bar/.", "x/../baz"}, ""},
		{"v1-dup", []string{"foo", "bar", "foo"}, "v1-duplicate"},
		{"v1-dup-spelled", []string{"foo", "bar", "./foo/"}, "v1-duplicate"},
		{"v1-dup-first", []string{"foo/", "foo", "bar"}, "v1-duplicate"},
		{"v1-dup-derived", []string{"foo-2", "foo", "foo-2"}, "v1-duplicate"},
		{"v1-contains", []string{"foo", "foo/bar"}, "v1-contains"},
		{"v1-contains-rev", []string{"foo/bar", "baz", "foo"}, "v1-contains"},
	}
	for _, x := range v1 {
		c := bidGenV1(rnd.Fork(uint64(next())), next(), x.label, x.raws, x.want)
		c.Binary = true
		cases = append(cases, c)
	}
	// two identical entries: buf refuses them (same description); if it did not, the ordinary
	// oracle would report every file of theirs as owned twice
	{
		c := bidGenV2(rnd.Fork(uint64(next())), next(), bidSpec{label: "identical-entries", groups: []bidGroup{g("foo", 1), g("bar", 1)}})
		dup := c.Entries[0]
		dup.Lint, dup.Breaking = bidLintRules[3], bidBreakingRules[9]
		c.Entries = append(c.Entries, dup)
		c.WantErr = "identical"
		c.render()
		cases = append(cases, c)
	}
	nRandom := run.N(160, 1500)
	nBin := run.N(8, 60)
	for i := 0; i < nRandom; i++ {
		r := rnd.Fork(uint64(next()))
		var c *bidCase
		if r.Chance(1, 12) {
			pool := []string{"foo", "foo-2", "Foo", "foo-1", "bar", "foo-2-1", "a/b", "a/b-2"}
			hx.Shuffle(r, pool)
			raws := pool[:2+r.Intn(4)]
			for j := range raws {
				raws[j] = bidSpell(r, raws[j])
			}
			want := ""
			if r.Chance(1, 3) {
				raws = append(raws, bidSpell(r, path.Clean(raws[r.Intn(len(raws))])))
				want = "v1-duplicate"
			}
			c = bidGenV1(r, next(), "v1-random", raws, want)
		} else {
			c = bidGenV2(r, next(), bidRandomSpec(r))
		}
		c.Binary = i < nBin
		cases = append(cases, c)
	}
	// (last, so that the indexes of the other cases do not depend on the switch)
	if reportNameEqualsDirPath {
		c := &bidCase{Idx: next(), Kind: "v2", Label: "name-equals-dirpath", NameDir: true, Binary: true}
		c.Entries = []bidEntry{
			{Raw: "buf.test/acme/x", Dir: "buf.test/acme/x", Lint: bidLintRules[0], Breaking: bidBreakingRules[0],
				Files: []bidFile{{Rel: "buf.test/acme/x/s0/e0x0.proto"}}},
			{Raw: "y", Dir: "y", Name: "buf.test/acme/x", Lint: bidLintRules[1], Breaking: bidBreakingRules[1],
				Files: []bidFile{{Rel: "y/s0/e1x0.proto", Imports: []string{"s0/e0x0.proto"}}}, Deps: []int{0}},
		}
		c.render()
		cases = append(cases, c)
	}
	return cases
}

// ---------------------------------------------------------------------------------------------
// the documented scheme (source comment of bucketIDsForModuleConfigsV2), written independently

func bidDocumentedIDs(sortedDirs []string) ([]string, bool) {
	pass := func(all bool) []string {
		out := make([]string, len(sortedDirs))
		for i, d := range sortedDirs {
			nth := 1
			for _, e := range sortedDirs[:i] {
				if e == d {
					nth++
				}
			}
			if nth == 1 && !all {
				out[i] = d
			} else {
				out[i] = d + "-" + strconv.Itoa(nth)
			}
		}
		return out
	}
	ids := pass(false)
	seen := map[string]bool{}
	for _, id := range ids {
		if seen[id] {
			return pass(true), true
		}
		seen[id] = true
	}
	return ids, false
}

// ---------------------------------------------------------------------------------------------
// expected ownership from the file system

func bidOwnedFiles(root string, e *bidEntry) ([]string, error) {
	var out []string
	start := filepath.Join(root, filepath.FromSlash(e.Dir))
	err := filepath.WalkDir(start, func(p string, d fs.DirEntry, err error) error {
		if err != nil {
			return err
		}
		if d.IsDir() || !strings.HasSuffix(p, ".proto") {
			return nil
		}
		rel, err := filepath.Rel(root, p)
		if err != nil {
			return err
		}
		rel = filepath.ToSlash(rel)
		if len(e.Includes) > 0 {
			ok := false
			for _, inc := range e.Includes {
				if bidUnder(inc, rel) {
					ok = true
				}
			}
			if !ok {
				return nil
			}
		}
		for _, exc := range e.Excludes {
			if bidUnder(exc, rel) {
				return nil
			}
		}
		out = append(out, rel)
		return nil
	})
	sort.Strings(out)
	return out, err
}

// ---------------------------------------------------------------------------------------------
// running one case

type bidObserved struct {
	bucketID, opaqueID string
	module             bufmodule.Module
}

func bidErrTag(err error) string {
	s := err.Error()
	switch {
	case strings.Contains(s, "is listed more than once"):
		return "duplicate"
	case strings.Contains(s, "contains directory"):
		return "contains"
	case strings.Contains(s, "directories is empty"):
		return "empty"
	case strings.Contains(s, "is invalid"):
		return "invalid"
	case strings.Contains(s, "it is not valid to have \".\" as a workspace directory"):
		return "dot"
	}
	return "workspace"
}

func (c *bidCase) line() string {
	parts := make([]string, len(c.Entries))
	for i, e := range c.Entries {
		if c.Kind == "v2" {
			parts[i] = hx.Enc(e.Raw) + "~" + hx.Enc(e.Name)
		} else {
			parts[i] = hx.Enc(e.Raw)
		}
	}
	return "bid\t" + c.Kind + "\t" + strings.Join(parts, ",")
}

func bidRunCase(run *hx.Run, c *bidCase, root string) (ids []bidObserved, ok bool) {
	replay := fmt.Sprintf("build/c10 --seed %d --tier %s --only %d --out /tmp/c10-replay", run.Seed, run.Tier, c.Idx)
	if c.NameDir {
		replay = "C10_BID_NAMEDIR=1 " + replay // (the default)
	}
	input := map[string]any{"case": c, "config_file": c.yaml, "stratum": c.Label}
	fail := func(class, what string) {
		if c.NameDir {
			class = "bucketid-name-equals-dirpath"
		}
		run.Fail(hx.OracleFailure{Class: class, What: fmt.Sprintf("workspace %d (%s, %s): %s", c.Idx, c.Kind, c.Label, what), Input: input, Replay: replay})
	}
	defer func() {
		if p := recover(); p != nil {
			fail("panic", fmt.Sprintf("implementation panicked: %v", p))
		}
	}()
	if err := c.write(root); err != nil {
		panic(err)
	}
	run.Count("bid:kind:" + c.Kind)
	run.Count("bid:stratum:" + c.Label)
	run.Count(fmt.Sprintf("bid:entries:%d", len(c.Entries)))
	line := c.line()

	bucket, err := storageos.NewProvider().NewReadWriteBucket(root)
	if err != nil {
		panic(err)
	}
	var ws bufworkspace.Workspace
	bt, err := buftarget.NewBucketTargeting(ctx, slogext.NopLogger, bucket, ".", nil, nil, buftarget.TerminateAtControllingWorkspace)
	if err == nil {
		p := &wsgen.Provider{}
		wp := bufworkspace.NewWorkspaceProvider(slogext.NopLogger, bufmodule.NopGraphProvider, p, p, bufplugin.NopPluginKeyProvider)
		ws, err = wp.GetWorkspaceForBucket(ctx, bucket, bt)
	}
	// ---- expected ownership, from the file system
	owned := make([][]string, len(c.Entries))
	ownerOf := map[string][]int{}
	for k := range c.Entries {
		if c.Kind == "v1" && c.WantErr != "" {
			continue
		}
		fs, werr := bidOwnedFiles(root, &c.Entries[k])
		if werr != nil {
			panic(werr)
		}
		owned[k] = fs
		for _, f := range fs {
			ownerOf[f] = append(ownerOf[f], k)
		}
	}
	if c.WantErr == "" {
		for f, ks := range ownerOf {
			if len(ks) != 1 {
				panic(fmt.Sprintf("generator bug: %s is owned by entries %v in case %d", f, ks, c.Idx))
			}
		}
		for k := range owned {
			if len(owned[k]) == 0 {
				panic(fmt.Sprintf("generator bug: entry %d of case %d owns no file", k, c.Idx))
			}
		}
	}
	// ---- the documented ids
	var sortedDirs []string
	sortedEntry := make([]int, len(c.Entries))
	for k := range sortedEntry {
		sortedEntry[k] = k
	}
	sort.SliceStable(sortedEntry, func(i, j int) bool { return c.Entries[sortedEntry[i]].Dir < c.Entries[sortedEntry[j]].Dir })
	for _, k := range sortedEntry {
		sortedDirs = append(sortedDirs, c.Entries[k].Dir)
	}
	docIDs := make([]string, len(c.Entries))
	if c.Kind == "v2" {
		d, fb := bidDocumentedIDs(sortedDirs)
		c.fallback = fb
		for i, k := range sortedEntry {
			docIDs[k] = d[i]
		}
		run.Count("bid:second-pass:" + strconv.FormatBool(fb))
		rep := 0
		for i := 1; i < len(sortedDirs); i++ {
			if sortedDirs[i] == sortedDirs[i-1] {
				rep++
			}
		}
		run.Count(fmt.Sprintf("bid:repeated-entries:%d", min(rep, 6)))
	} else {
		for k, e := range c.Entries {
			docIDs[k] = e.Dir
		}
	}
	if c.WantErr != "" && c.WantErr != "identical" {
		// buf.work.yaml that must be refused
		if err == nil {
			run.Case(line, "ok/accepted", true)
			fail("bucketid-v1-duplicate-accepted", fmt.Sprintf("buf.work.yaml lists %v (%s) but the workspace was built", sortedDirs, c.WantErr))
		} else {
			run.Case(line, "err/"+bidErrTag(err), true)
			run.Count("bid:refused:" + c.WantErr)
		}
		return nil, false
	}
	if err != nil {
		if c.WantErr == "identical" {
			run.Eval()
			run.Count("bid:refused:identical")
			return nil, false
		}
		run.Case(line, "err/"+bidErrTag(err), true)
		fail("bucketid-workspace-fails", fmt.Sprintf("a legal workspace (every file has exactly one owner by includes/excludes) cannot be opened: %v", err))
		return nil, false
	}
	// ---- modules <-> entries by file ownership
	var locals []bufmodule.Module
	for _, m := range ws.Modules() {
		if m.IsLocal() {
			locals = append(locals, m)
		}
	}
	if len(locals) != len(c.Entries) {
		var got []string
		for _, m := range locals {
			got = append(got, m.OpaqueID())
		}
		fail("bucketid-module-missing", fmt.Sprintf("buf.yaml has %d module entries, the workspace has %d local modules %q", len(c.Entries), len(locals), got))
	}
	seenB, seenO := map[string]bool{}, map[string]bool{}
	for _, m := range locals {
		if seenB[m.BucketID()] {
			fail("bucketid-collision", fmt.Sprintf("two modules have the BucketID %q", m.BucketID()))
		}
		if seenO[m.OpaqueID()] {
			fail("bucketid-collision", fmt.Sprintf("two modules have the OpaqueID %q", m.OpaqueID()))
		}
		seenB[m.BucketID()], seenO[m.OpaqueID()] = true, true
	}
	entryOf := map[string]int{} // OpaqueID -> entry
	moduleOf := make([]bufmodule.Module, len(c.Entries))
	gotOwner := map[string][]string{}
	for _, m := range locals {
		var files []string
		werr := m.WalkFileInfos(ctx, func(fi bufmodule.FileInfo) error {
			if fi.FileType() != bufmodule.FileTypeProto {
				return nil
			}
			rel := strings.TrimPrefix(filepath.ToSlash(fi.ExternalPath()), filepath.ToSlash(root)+"/")
			files = append(files, rel)
			if !fi.IsTargetFile() {
				fail("bucketid-file-owner", fmt.Sprintf("%s of module %q is not a target file although the whole workspace is the input", rel, m.OpaqueID()))
			}
			return nil
		})
		if werr != nil {
			fail("bucketid-workspace-fails", fmt.Sprintf("walking the files of module %q: %v", m.OpaqueID(), werr))
			continue
		}
		sort.Strings(files)
		for _, f := range files {
			gotOwner[f] = append(gotOwner[f], m.OpaqueID())
		}
		match := -1
		for k := range owned {
			if strings.Join(owned[k], "\n") == strings.Join(files, "\n") && moduleOf[k] == nil {
				match = k
				break
			}
		}
		if match < 0 {
			fail("bucketid-file-owner", fmt.Sprintf("module %q (BucketID %q) has the files %v: not the file set of any entry of the configuration (by directory, includes, excludes)", m.OpaqueID(), m.BucketID(), files))
			continue
		}
		moduleOf[match] = m
		entryOf[m.OpaqueID()] = match
	}
	for f, ks := range ownerOf {
		switch got := gotOwner[f]; {
		case len(got) == 0:
			fail("bucketid-file-owner", fmt.Sprintf("%s (entry %d) is owned by no module", f, ks[0]))
		case len(got) > 1 && c.WantErr != "identical":
			fail("bucketid-file-owner", fmt.Sprintf("%s is owned by the modules %q", f, got))
		case len(got) > 1:
			fail("bucketid-file-owner", fmt.Sprintf("two identical entries were accepted: %s is owned by the modules %q", f, got))
		}
	}
	for f := range gotOwner {
		if len(ownerOf[f]) == 0 {
			fail("bucketid-file-owner", fmt.Sprintf("%s is in module %q but in no entry's file set", f, gotOwner[f]))
		}
	}
	// ---- protocol line
	parts := make([]string, len(c.Entries))
	complete := true
	for k := range c.Entries {
		if m := moduleOf[k]; m != nil {
			if c.Kind == "v2" {
				parts[k] = hx.Enc(m.BucketID()) + "~" + hx.Enc(m.OpaqueID())
			} else {
				parts[k] = hx.Enc(m.BucketID())
			}
		} else {
			parts[k] = "?"
			complete = false
		}
	}
	if c.Kind == "v1" {
		// BufWorkYAMLFile.DirPaths() order = sorted
		sorted := make([]string, len(parts))
		for i, k := range sortedEntry {
			sorted[i] = parts[k]
		}
		parts = sorted
	}
	if !c.NameDir {
		run.Case(line, "ok/"+strings.Join(parts, ","), true)
	} else {
		run.Eval()
	}
	if c.Idx < bidBase+2 {
		run.Sample(map[string]any{"input": line, "impl": "ok/" + strings.Join(parts, ","), "config_file": c.yaml})
	}
	// ---- per entry: ids, configuration, dependencies
	ids = make([]bidObserved, len(c.Entries))
	for k := range c.Entries {
		e := &c.Entries[k]
		m := moduleOf[k]
		if m == nil {
			continue
		}
		ids[k] = bidObserved{m.BucketID(), m.OpaqueID(), m}
		if m.BucketID() != docIDs[k] {
			fail("bucketid-scheme", fmt.Sprintf("entry %d (path %q): BucketID %q, the documented scheme gives %q (directories in config order %q)", k, e.Raw, m.BucketID(), docIDs[k], sortedDirs))
		}
		wantOID := docIDs[k]
		gotName := ""
		if fn := m.FullName(); fn != nil {
			gotName = fn.String()
		}
		if e.Name != "" {
			wantOID = e.Name
		}
		if gotName != e.Name {
			fail("bucketid-config-swapped", fmt.Sprintf("entry %d (path %q, files %v): name %q was written, the module has %q", k, e.Raw, owned[k], e.Name, gotName))
		} else if m.OpaqueID() != wantOID {
			fail("bucketid-scheme", fmt.Sprintf("entry %d (path %q): OpaqueID %q, expected %q", k, e.Raw, m.OpaqueID(), wantOID))
		}
		lc, bc := ws.GetLintConfigForOpaqueID(m.OpaqueID()), ws.GetBreakingConfigForOpaqueID(m.OpaqueID())
		if lc == nil || bc == nil {
			fail("bucketid-config-swapped", fmt.Sprintf("entry %d (path %q): the workspace has no lint / breaking configuration for OpaqueID %q", k, e.Raw, m.OpaqueID()))
		} else {
			if got := strings.Join(lc.UseIDsAndCategories(), ","); got != e.Lint {
				fail("bucketid-config-swapped", fmt.Sprintf("entry %d (path %q, files %v): lint.use [%s] was written, module %q carries [%s]", k, e.Raw, owned[k], e.Lint, m.OpaqueID(), got))
			}
			if got := strings.Join(bc.ExceptIDsAndCategories(), ","); got != e.Breaking {
				fail("bucketid-config-swapped", fmt.Sprintf("entry %d (path %q, files %v): breaking.except [%s] was written, module %q carries [%s]", k, e.Raw, owned[k], e.Breaking, m.OpaqueID(), got))
			}
		}
	}
	if !complete {
		return ids, false
	}
	// dependencies: the planted imports
	reach := func(k int) map[int]bool {
		out := map[int]bool{}
		var walk func(int)
		walk = func(x int) {
			for _, d := range c.Entries[x].Deps {
				if !out[d] {
					out[d] = true
					walk(d)
				}
			}
		}
		walk(k)
		return out
	}
	for k := range c.Entries {
		m := moduleOf[k]
		deps, derr := m.ModuleDeps()
		if derr != nil {
			fail("bucketid-dep-edge", fmt.Sprintf("entry %d (%q): ModuleDeps failed: %v", k, m.OpaqueID(), derr))
			continue
		}
		want := reach(k)
		direct := map[int]bool{}
		for _, d := range c.Entries[k].Deps {
			direct[d] = true
		}
		got := map[int]bool{}
		for _, d := range deps {
			dk, known := entryOf[d.OpaqueID()]
			if !known {
				fail("bucketid-dep-edge", fmt.Sprintf("entry %d (%q) depends on %q which is no module of the workspace", k, m.OpaqueID(), d.OpaqueID()))
				continue
			}
			got[dk] = true
			if !want[dk] {
				fail("bucketid-dep-edge", fmt.Sprintf("entry %d (%q, files %v) is said to depend on entry %d (%q, files %v): no import leads there", k, m.OpaqueID(), owned[k], dk, d.OpaqueID(), owned[dk]))
			} else if d.IsDirect() != direct[dk] {
				fail("bucketid-dep-edge", fmt.Sprintf("entry %d -> entry %d: direct=%v, the imports say %v", k, dk, d.IsDirect(), direct[dk]))
			}
		}
		for dk := range want {
			if !got[dk] {
				fail("bucketid-dep-edge", fmt.Sprintf("entry %d (%q) imports files of entry %d (%v) but ModuleDeps does not list it", k, m.OpaqueID(), dk, owned[dk]))
			}
		}
	}
	// ls-files == image == files on disk
	wantPaths := map[string]bool{}
	for k, e := range c.Entries {
		for _, f := range owned[k] {
			wantPaths[bidImportPath(e.Dir, f)] = true
		}
	}
	infos, lerr := lsFiles(ws)
	img, berr, hung := wsgen.BuildImageWatchdog(ctx, ws)
	switch {
	case hung:
		fail("build-hang", "bufimage.BuildImage did not return within 20s")
	case lerr != nil || berr != nil:
		fail("bucketid-workspace-fails", fmt.Sprintf("ls-files error: %v; build error: %v", lerr, berr))
	default:
		ls, im := map[string]bool{}, map[string]bool{}
		for _, i := range infos {
			ls[i.Path()] = true
		}
		for _, f := range img.Files() {
			im[f.Path()] = true
		}
		for p := range wantPaths {
			if !ls[p] || !im[p] {
				fail("bucketid-lsfiles-image", fmt.Sprintf("%s is a file of the workspace: in ls-files %v, in the image %v", p, ls[p], im[p]))
			}
		}
		for p := range ls {
			if !wantPaths[p] || !im[p] {
				fail("bucketid-lsfiles-image", fmt.Sprintf("ls-files lists %s: on disk %v, in the image %v", p, wantPaths[p], im[p]))
			}
		}
		for p := range im {
			if !ls[p] {
				fail("bucketid-lsfiles-image", fmt.Sprintf("the image has %s, ls-files does not", p))
			}
		}
	}
	return ids, true
}

// ---------------------------------------------------------------------------------------------
// the same workspaces through the binary

type bidBinResult struct {
	c        *bidCase
	failures [][2]string // class, what
	evals    int
}

func bidBinary(bufBin, home, cache, root string, c *bidCase, ids []bidObserved, idsOK bool) *bidBinResult {
	res := &bidBinResult{c: c}
	fail := func(class, what string) { res.failures = append(res.failures, [2]string{class, what}) }
	runBuf := func(args ...string) (string, string, int) {
		cmd := exec.Command(bufBin, args...)
		cmd.Dir = root
		cmd.Env = append(os.Environ(), "HOME="+home, "BUF_CACHE_DIR="+cache)
		var so, se bytes.Buffer
		cmd.Stdout, cmd.Stderr = &so, &se
		err := cmd.Run()
		code := 0
		if ee, ok := err.(*exec.ExitError); ok {
			code = ee.ExitCode()
		} else if err != nil {
			code = -1
		}
		res.evals++
		return so.String(), se.String(), code
	}
	if c.WantErr != "" {
		_, se, code := runBuf("build")
		if c.WantErr != "identical" && code == 0 {
			fail("bucketid-v1-duplicate-accepted", fmt.Sprintf("`buf build` accepts the buf.work.yaml (%s)", c.WantErr))
		}
		_ = se
		return res
	}
	var wantFiles []string
	wantImg := map[string]bool{}
	for _, e := range c.Entries {
		for _, f := range e.Files {
			wantFiles = append(wantFiles, f.Rel)
			wantImg[bidImportPath(e.Dir, f.Rel)] = true
		}
	}
	sort.Strings(wantFiles)
	so, se, code := runBuf("build", "-o", "-#format=json")
	if code != 0 {
		fail("bucketid-workspace-fails", fmt.Sprintf("`buf build`: exit %d, stderr %.300q", code, se))
	} else {
		var img struct {
			File []struct {
				Name string `json:"name"`
			} `json:"file"`
		}
		if err := json.Unmarshal([]byte(so), &img); err != nil {
			fail("bucketid-lsfiles-image", "`buf build -o -#format=json`: "+err.Error())
		}
		got := map[string]bool{}
		for _, f := range img.File {
			got[f.Name] = true
		}
		for p := range wantImg {
			if !got[p] {
				fail("bucketid-lsfiles-image", fmt.Sprintf("`buf build`: %s is missing from the image", p))
			}
		}
		for p := range got {
			if !wantImg[p] {
				fail("bucketid-lsfiles-image", fmt.Sprintf("`buf build`: the image has %s which is no file of the workspace", p))
			}
		}
	}
	so, se, code = runBuf("ls-files")
	if code != 0 {
		fail("bucketid-workspace-fails", fmt.Sprintf("`buf ls-files`: exit %d, stderr %.300q", code, se))
	} else {
		got := strings.Fields(so)
		sort.Strings(got)
		if strings.Join(got, " ") != strings.Join(wantFiles, " ") {
			fail("bucketid-lsfiles-image", fmt.Sprintf("`buf ls-files` prints %v, the workspace has %v", got, wantFiles))
		}
	}
	so, se, code = runBuf("dep", "graph")
	if code != 0 {
		fail("bucketid-workspace-fails", fmt.Sprintf("`buf dep graph`: exit %d, stderr %.300q", code, se))
	} else if idsOK {
		dotEdge := regexp.MustCompile(`^\s*"([^"]+)" -> "([^"]+)"`)
		dotNode := regexp.MustCompile(`^\s*"([^"]+)"\s*$`)
		got := map[string]bool{}
		for _, l := range strings.Split(so, "\n") {
			if m := dotEdge.FindStringSubmatch(l); m != nil {
				got[m[1]+" -> "+m[2]] = true
				got[m[1]], got[m[2]] = true, true
			} else if m := dotNode.FindStringSubmatch(l); m != nil {
				got[m[1]] = true
			}
		}
		want := map[string]bool{}
		for k, e := range c.Entries {
			want[ids[k].opaqueID] = true
			for _, d := range e.Deps {
				want[ids[k].opaqueID+" -> "+ids[d].opaqueID] = true
			}
		}
		render := func(m map[string]bool) string {
			var xs []string
			for x := range m {
				xs = append(xs, x)
			}
			sort.Strings(xs)
			return strings.Join(xs, "; ")
		}
		if render(got) != render(want) {
			fail("bucketid-dep-edge", fmt.Sprintf("`buf dep graph` prints [%s]; the planted imports give [%s]", render(got), render(want)))
		}
	}
	// lint: every file is judged by the rule written for ITS entry
	so, se, code = runBuf("lint", "--error-format", "json")
	if code != 100 {
		fail("bucketid-config-swapped", fmt.Sprintf("`buf lint`: exit %d (every file violates its module's rule, 100 expected), stderr %.300q", code, se))
	} else {
		got := map[string]map[string]bool{}
		for _, l := range strings.Split(so, "\n") {
			var a struct {
				Path string `json:"path"`
				Type string `json:"type"`
			}
			if json.Unmarshal([]byte(l), &a) == nil && a.Path != "" {
				if got[a.Path] == nil {
					got[a.Path] = map[string]bool{}
				}
				got[a.Path][a.Type] = true
			}
		}
		for _, e := range c.Entries {
			for _, f := range e.Files {
				var rules []string
				for t := range got[f.Rel] {
					rules = append(rules, t)
				}
				sort.Strings(rules)
				if strings.Join(rules, ",") != e.Lint {
					fail("bucketid-config-swapped", fmt.Sprintf("`buf lint`: %s (entry with path %q, lint.use [%s]) is reported for [%s]", f.Rel, e.Raw, e.Lint, strings.Join(rules, ",")))
				}
			}
		}
	}
	return res
}

func bucketIDFamily(run *hx.Run, rnd *hx.Rand, tmpRoot string, bufBin string) {
	cases := bidCases(run, rnd)
	home := filepath.Join(tmpRoot, "home")
	_ = os.MkdirAll(home, 0o755)
	type pending struct {
		c     *bidCase
		root  string
		ids   []bidObserved
		idsOK bool
	}
	var bins []pending
	for _, c := range cases {
		if run.Only >= 0 && c.Idx != run.Only {
			continue
		}
		root := filepath.Join(tmpRoot, strconv.Itoa(c.Idx))
		ids, ok := bidRunCase(run, c, root)
		if c.Binary && bufBin != "" {
			bins = append(bins, pending{c, root, ids, ok})
		} else if run.Only < 0 {
			os.RemoveAll(root)
		}
	}
	// the binary sample, 8 processes at a time; the counters are touched afterwards (hx.Run is not
	// thread-safe)
	results := make([]*bidBinResult, len(bins))
	var wg sync.WaitGroup
	next := make(chan int, len(bins))
	for i := range bins {
		next <- i
	}
	close(next)
	for w := 0; w < 8; w++ {
		wg.Add(1)
		// one cache directory per worker: concurrent buf processes populating one shared
		// BUF_CACHE_DIR race on the well-known-types cache
		cache := filepath.Join(home, "cache"+strconv.Itoa(w))
		go func() {
			defer wg.Done()
			for i := range next {
				func() {
					defer func() {
						if p := recover(); p != nil {
							results[i] = &bidBinResult{c: bins[i].c, failures: [][2]string{{"panic", fmt.Sprint(p)}}}
						}
					}()
					results[i] = bidBinary(bufBin, home, cache, bins[i].root, bins[i].c, bins[i].ids, bins[i].idsOK)
				}()
			}
		}()
	}
	wg.Wait()
	for i, res := range results {
		c := bins[i].c
		run.Count("bid:binary-sample")
		for j := 0; j < res.evals; j++ {
			run.Eval()
		}
		for _, f := range res.failures {
			class := f[0]
			if c.NameDir {
				class = "bucketid-name-equals-dirpath"
			}
			run.Fail(hx.OracleFailure{Class: class, What: fmt.Sprintf("workspace %d (%s, %s): %s", c.Idx, c.Kind, c.Label, f[1]),
				Input:  map[string]any{"case": c, "config_file": c.yaml, "stratum": c.Label},
				Replay: fmt.Sprintf("build/c10 --seed %d --tier %s --only %d --out /tmp/c10-replay (writes the workspace to /tmp/c10-replay/bid/%d and keeps it; then run `buf build`, `buf ls-files`, `buf dep graph`, `buf lint` there)", run.Seed, run.Tier, c.Idx, c.Idx)})
		}
		if run.Only < 0 {
			os.RemoveAll(bins[i].root)
		}
	}
}
