// Command c10 is the correspondence + oracle harness for property C10
// ("workspace dependency resolution is exact and ambiguity is an error").
//
// It generates workspaces (1-6 modules, named/unnamed, local/remote with several commits per
// name, import graphs with diamonds, module cycles, file cycles, duplicate paths, missing
// imports, WKT imports, module- and file-level targeting), builds them into real ModuleSets
// (ModuleSetBuilder over in-memory buckets with an in-process ModuleDataProvider/CommitProvider;
// bufworkspace over a temp directory with a v2 buf.yaml + buf.lock or a buf.work.yaml + v1
// buf.yaml files; and "locked" workspaces — a v1 workspace whose modules each have their own
// buf.lock, or a v2 workspace with one top-level buf.lock, read through the real buffetch reader
// for a root / module-directory / parent-directory / proto-file / inside-module input, see
// internal/wsgen/locked.go) and records, per workspace, one protocol line:
//
//	mods=  the selected modules (OpaqueID rank, commit, local?, target?)
//	deps=  Module.ModuleDeps() of every module (ids + direct flags) or the error class
//	dag=   ModuleSetToDAG nodes|edges or the error class
//	ls=    `ls-files --include-imports` (path, isImport) or the error class
//
// The oracle (implementation only) recomputes reachability over the generator's own import
// graph and checks the property's statement directly; it also compares the ls-files closure
// with the file list of bufimage.BuildImage, and replays the equal-create-time commit tie.
package main

import (
	"context"
	"errors"
	"fmt"
	"os"
	"path/filepath"
	"sort"
	"strconv"
	"strings"

	"github.com/bufbuild/buf/private/bufpkg/bufimage"
	"github.com/bufbuild/buf/private/bufpkg/bufmodule"
	"github.com/bufbuild/buf/private/gen/data/datawkt"
	"github.com/bufbuild/verifharness/internal/hx"
	"github.com/bufbuild/verifharness/internal/wsgen"
)

var ctx = context.Background()

func errClass(err error) string {
	var ce *bufmodule.ModuleCycleError
	var ie *bufmodule.ImportNotExistError
	var de *bufmodule.DuplicateProtoPathError
	var ne *bufmodule.NoProtoFilesError
	switch {
	case errors.As(err, &ce):
		return "cycle"
	case errors.As(err, &ie):
		return "noimport"
	case errors.As(err, &de):
		return "dup"
	case errors.As(err, &ne):
		return "noproto"
	case errors.Is(err, os.ErrNotExist):
		return "noimport"
	}
	return "other"
}

type observed struct {
	mods   string
	deps   []string          // per module, protocol form
	depErr map[string]string // oid -> error class ("" = ok)
	depSet map[string]map[string]bool
	dag    string
	ls     string
	lsOK   bool
	lsSet  map[string]bool // path -> isImport
	// a module that lies on a cycle of the direct-dependency lists ModuleDeps() returned
	unreportedCycle string
}

// directCycle finds a cycle in the graph "m -> its direct deps" built from successful ModuleDeps().
func directCycle(depSet map[string]map[string]bool) string {
	state := map[string]int{}
	var visit func(m string) string
	visit = func(m string) string {
		switch state[m] {
		case 1:
			return m
		case 2:
			return ""
		}
		state[m] = 1
		for d, direct := range depSet[m] {
			if direct {
				if c := visit(d); c != "" {
					return c
				}
			}
		}
		state[m] = 2
		return ""
	}
	var ms []string
	for m := range depSet {
		ms = append(ms, m)
	}
	sort.Strings(ms)
	for _, m := range ms {
		if c := visit(m); c != "" {
			return c
		}
	}
	return ""
}

func observe(ws *wsgen.WS, b *wsgen.Built) *observed {
	ranks := ws.OIDRanks()
	o := &observed{depErr: map[string]string{}, depSet: map[string]map[string]bool{}, lsSet: map[string]bool{}}
	var ms []string
	for _, m := range b.ModuleSet.Modules() {
		commit := 0
		if !m.IsLocal() {
			commit = b.CommitLabel[m.CommitID()]
		}
		ms = append(ms, fmt.Sprintf("%d.%d.%s.%s", ranks[m.OpaqueID()], commit, tf(m.IsLocal(), "L", "R"), tf(m.IsTarget(), "T", "N")))
		deps, err := m.ModuleDeps()
		if err != nil {
			c := errClass(err)
			o.deps = append(o.deps, "err/"+c)
			o.depErr[m.OpaqueID()] = c
			continue
		}
		var ds []string
		set := map[string]bool{}
		for _, d := range deps {
			ds = append(ds, strconv.Itoa(ranks[d.OpaqueID()])+tf(d.IsDirect(), "+", "-"))
			set[d.OpaqueID()] = d.IsDirect()
		}
		o.depSet[m.OpaqueID()] = set
		o.deps = append(o.deps, "ok/"+strings.Join(ds, ","))
	}
	o.mods = strings.Join(ms, ",")
	// DAG.  moduleSetToDAGRec has no visited set: if the direct-dependency lists the modules
	// returned (without error) themselves contain a cycle it would recurse until the stack
	// overflows, which cannot be recovered in-process; detect that on the implementation's own
	// answers first.
	if cyc := directCycle(o.depSet); cyc != "" {
		o.dag = "err/unreported-cycle"
		o.unreportedCycle = cyc
		o.ls = "skipped"
		return o
	}
	g, err := bufmodule.ModuleSetToDAG(b.ModuleSet)
	if err != nil {
		o.dag = "err/" + errClass(err)
	} else {
		var nodes []int
		type edge struct{ a, b int }
		var edges []edge
		_ = g.WalkNodes(func(m bufmodule.Module, _ []bufmodule.Module, out []bufmodule.Module) error {
			nodes = append(nodes, ranks[m.OpaqueID()])
			for _, t := range out {
				edges = append(edges, edge{ranks[m.OpaqueID()], ranks[t.OpaqueID()]})
			}
			return nil
		})
		sort.Ints(nodes)
		sort.Slice(edges, func(i, j int) bool {
			if edges[i].a != edges[j].a {
				return edges[i].a < edges[j].a
			}
			return edges[i].b < edges[j].b
		})
		ns := make([]string, len(nodes))
		for i, n := range nodes {
			ns[i] = strconv.Itoa(n)
		}
		es := make([]string, len(edges))
		for i, e := range edges {
			es[i] = fmt.Sprintf("%d>%d", e.a, e.b)
		}
		o.dag = "ok/" + strings.Join(ns, ",") + "|" + strings.Join(es, ",")
	}
	// ls-files --include-imports (controller.GetImportableImageFileInfos + lsfiles.run)
	infos, err := lsFiles(b.ModuleSet)
	if err != nil {
		o.ls = "err/" + errClass(err)
	} else {
		var ps []string
		for _, i := range infos {
			ps = append(ps, hx.Enc(i.Path())+tf(i.IsImport(), "-", "+"))
			o.lsSet[i.Path()] = i.IsImport()
		}
		o.ls = "ok/" + strings.Join(ps, ",")
		o.lsOK = true
	}
	return o
}

func lsFiles(ms bufmodule.ModuleSet) ([]bufimage.ImageFileInfo, error) {
	fileInfos, err := bufmodule.GetFileInfos(ctx, bufmodule.ModuleSetToModuleReadBucketWithOnlyProtoFiles(ms))
	if err != nil {
		return nil, err
	}
	infos := make([]bufimage.ImageFileInfo, len(fileInfos))
	for i, fi := range fileInfos {
		infos[i] = bufimage.ImageFileInfoForModuleFileInfo(fi)
	}
	infos, err = bufimage.AppendWellKnownTypeImageFileInfos(ctx, datawkt.ReadBucket, infos)
	if err != nil {
		return nil, err
	}
	sort.Slice(infos, func(i, j int) bool { return infos[i].Path() < infos[j].Path() })
	return bufimage.ImageFileInfosWithOnlyTargetsAndTargetImports(ctx, datawkt.ReadBucket, infos)
}

func tf(b bool, t, f string) string {
	if b {
		return t
	}
	return f
}

// ------------------------------------------------------------------------------------------
// oracle: the property's own statement over the generator's import graph

type selMod struct {
	a   *wsgen.Added
	oid string
}

// expectedSelection applies only the clauses the property states: target over non-target,
// local over a same-named pinned one; among remotes the newest commit when create times differ.
// It returns nil for an OpaqueID whose winner the property does not determine.
func expectedSelection(ws *wsgen.WS) map[string]*wsgen.Added {
	groups := map[string][]*wsgen.Added{}
	for i := range ws.Added {
		a := &ws.Added[i]
		groups[a.OID()] = append(groups[a.OID()], a)
	}
	out := map[string]*wsgen.Added{}
	for oid, g := range groups {
		cand := g
		var ts []*wsgen.Added
		for _, a := range g {
			if a.Target {
				ts = append(ts, a)
			}
		}
		if len(ts) > 0 {
			cand = ts
		}
		var ls []*wsgen.Added
		for _, a := range cand {
			if a.Local {
				ls = append(ls, a)
			}
		}
		if len(ls) > 0 {
			out[oid] = ls[0]
			continue
		}
		best := cand[0]
		tie := false
		for _, a := range cand[1:] {
			if a.CTime > best.CTime {
				best, tie = a, false
			} else if a.CTime == best.CTime && a.Commit != best.Commit {
				tie = true
			}
		}
		if tie {
			out[oid] = nil
		} else {
			out[oid] = best
		}
	}
	return out
}

type graphOracle struct {
	mods     map[string]*wsgen.Added
	provider map[string][]string // path -> oids providing it
}

func newGraphOracle(sel map[string]*wsgen.Added) *graphOracle {
	g := &graphOracle{mods: sel, provider: map[string][]string{}}
	var oids []string
	for oid := range sel {
		oids = append(oids, oid)
	}
	sort.Strings(oids)
	for _, oid := range oids {
		for _, f := range sel[oid].Files {
			g.provider[f.Path] = append(g.provider[f.Path], oid)
		}
	}
	return g
}

// walk explores from r. mustErr: an ambiguity the property says must be reported is reachable.
func (g *graphOracle) walk(r string) (reach map[string]bool, direct map[string]bool, mustErr bool, selfCycle bool) {
	reach = map[string]bool{}
	direct = map[string]bool{}
	visited := map[string]bool{r: true}
	queue := []string{r}
	for len(queue) > 0 {
		m := queue[0]
		queue = queue[1:]
		if len(g.mods[m].Files) == 0 {
			mustErr = true
		}
		for _, f := range g.mods[m].Files {
			for _, imp := range f.Imports {
				ps := g.provider[imp.Path]
				switch {
				case len(ps) == 0:
					if !datawkt.Exists(imp.Path) {
						mustErr = true
					}
				case len(ps) > 1:
					mustErr = true
				default:
					d := ps[0]
					if d == m {
						continue
					}
					if d == r {
						selfCycle = true
					}
					reach[d] = true
					if m == r {
						direct[d] = true
					}
					if !visited[d] {
						visited[d] = true
						queue = append(queue, d)
					}
				}
			}
		}
	}
	// a path provided by two of the modules involved
	for p, ps := range g.provider {
		n := 0
		for _, oid := range ps {
			if visited[oid] {
				n++
			}
		}
		if n > 1 {
			_ = p
			mustErr = true
		}
	}
	return
}

func main() {
	if len(os.Args) > 1 && os.Args[1] == "gen-wkt" {
		fmt.Print(wsgen.WktTableLean())
		return
	}
	run := hx.Start("C10")
	defer run.Finish()
	rnd := hx.NewRand(run.Seed)
	tmpRoot := filepath.Join(run.OutDir, "ws")
	nMem := run.N(1800, 30000)
	nDisk := run.N(300, 3800) // thorough was 4000 until Family K (importkinds.go) took its seconds
	// locked workspaces: per-module buf.lock files (v1) / one top-level buf.lock (v2), read
	// through buffetch for root / module / parent-directory / proto-file / inside-module inputs
	nLocked := run.N(450, 3000)
	total := nMem + nDisk + nLocked
	// C10_BID_ONLY=1 (development aid): run only Family B (bucketid.go)
	bidOnly := os.Getenv("C10_BID_ONLY") == "1"
	// C10_IK_ONLY=1 (development aid): run only Family K (importkinds.go)
	ikOnly := os.Getenv("C10_IK_ONLY") == "1"
	for i := 0; i < total; i++ {
		if (run.Only >= 0 && i != run.Only) || bidOnly || ikOnly {
			continue
		}
		r := rnd.Fork(uint64(i))
		if i >= nMem+nDisk {
			ws := wsgen.GenLocked(r, wsgen.Opts{Kind: tf(r.Chance(2, 3), "v1", "v2"), Faults: r.Chance(1, 2)})
			oneCase(run, i, ws, filepath.Join(tmpRoot, strconv.Itoa(i)))
			continue
		}
		kind := "mem"
		if i >= nMem {
			kind = tf(r.Bool(), "v2", "v1")
		}
		ws := wsgen.Gen(r, wsgen.Opts{Kind: kind, Faults: true, CommitTies: true})
		oneCase(run, i, ws, filepath.Join(tmpRoot, strconv.Itoa(i)))
	}
	if run.Only < 0 || run.Only >= bidBase {
		dgRoot := filepath.Join(run.OutDir, "dg")
		bufBin := buildBuf(run, dgRoot)
		if run.Only < 0 && !bidOnly && !ikOnly {
			commitTie(run)
			depGraphCLI(run, rnd.Fork(1<<40), dgRoot, bufBin)
		}
		// Family B: BucketIDs / OpaqueIDs of modules sharing a path, directories named like derived
		// ids (bucketid.go); its own random stream, case indexes 1000000+k
		if run.Only < ikBase && !ikOnly {
			bucketIDFamily(run, rnd.Fork(1<<41), filepath.Join(run.OutDir, "bid"), bufBin)
		}
		// Family K: import modifiers (plain / public / weak) as the only link between modules, in
		// chains, mixed, on well-known types, unprovided, closing cycles (importkinds.go); its own
		// random stream, case indexes 2000000+k
		if (run.Only < 0 && !bidOnly) || run.Only >= ikBase {
			importKindFamily(run, rnd.Fork(1<<42), filepath.Join(run.OutDir, "ik"), bufBin)
		}
		if bufBin != "" {
			os.Remove(bufBin)
		}
	}
	os.RemoveAll(tmpRoot)
}

// keepCaseDir: oneCase leaves the directory of a disk workspace in place (the import-modifier
// family hands it to the buf binary afterwards and removes it itself).
var keepCaseDir = false

// oneCase runs one workspace through the implementation, the protocol line and the oracle.  It
// returns what was observed (nil when the module set could not be built) and the build error.
func oneCase(run *hx.Run, idx int, ws *wsgen.WS, dir string) (o *observed, berr error) {
	line := "ws\t" + ws.Line()
	if ws.Locked {
		line = ws.LockedLine()
	}
	replay := fmt.Sprintf("build/c10 --seed %d --tier %s --only %d --out /tmp/c10-replay", run.Seed, run.Tier, idx)
	fail := func(class, what string) {
		run.Fail(hx.OracleFailure{Class: class, What: what, Input: map[string]any{"kind": ws.Kind, "locked": ws.Locked, "input": ws.Input, "line": line, "added": ws.Added}, Replay: replay})
	}
	defer func() {
		if p := recover(); p != nil {
			fail("panic", fmt.Sprintf("workspace %d: implementation panicked: %v", idx, p))
		}
	}()
	var b *wsgen.Built
	var err error
	switch {
	case ws.Kind == "mem":
		b, err = ws.BuildMem(ctx)
	case ws.Locked:
		b, err = ws.BuildLocked(ctx, dir)
		if !keepCaseDir {
			defer os.RemoveAll(dir)
		}
		if b != nil && b.Close != nil {
			defer b.Close()
		}
	default:
		b, err = ws.BuildDisk(ctx, dir)
		if !keepCaseDir {
			defer os.RemoveAll(dir)
		}
	}
	berr = err
	if ws.Locked {
		run.Count("kind:" + ws.Kind + "-locked")
		run.Count("locked-input:" + ws.Kind + ":" + ws.Input.Kind)
		nPins, withPaths := 0, false
		for i := range ws.Added {
			if !ws.Added[i].Local {
				nPins++
			}
			if len(ws.Added[i].Paths)+len(ws.Added[i].Excludes) > 0 {
				withPaths = true
			}
		}
		run.Count(fmt.Sprintf("locked-pins:%d", min(nPins, 6)))
		for k, v := range map[string]bool{"pin-conflict": ws.PinConflict, "local-shadows-pin": ws.LocalShadowsPin, "lock-misses-pin": ws.BorrowedPin,
			"pin-without-digest": len(ws.NoDigest) > 0, "non-target-only-pin": len(ws.NonTargetOnlyPins) > 0, "with-paths": withPaths} {
			if v {
				run.Count("locked:" + k)
			}
		}
		if ws.Input.WantErr {
			// an input directory strictly inside a module: buf refuses it, there is nothing to compare
			run.Eval()
			if err == nil {
				fail("input-inside-module-accepted", fmt.Sprintf("workspace %d: input %q lies inside a module directory but a workspace was built for it", idx, ws.Input.Dir))
			} else {
				run.Count("locked:input-inside-module-refused")
			}
			return
		}
		if err != nil {
			// nothing in these workspaces may make the construction fail: every lock parses, every
			// pin is served, the input selects at least one module
			fail("locked-workspace-build-failed", fmt.Sprintf("workspace %d (%s, input %s): building the workspace failed: %v", idx, ws.Kind, ws.Input.Kind, err))
			run.Eval()
			return
		}
		if b.Provider.CommitKeyCalls > 0 {
			run.Count("locked:digest-resolved-through-commit-provider")
		}
	} else {
		run.Count("kind:" + ws.Kind)
	}
	if ws.HasCommitTie {
		run.Count("commit-tie-in-workspace")
	}
	run.Count(fmt.Sprintf("added:%d", len(ws.Added)))
	if err != nil {
		// module-set construction itself failed: only legitimate for disk workspaces whose
		// construction already computes dependencies
		c := errClass(err)
		run.Count("build-err:" + ws.Kind + ":" + c)
		if ws.Kind == "mem" || c == "other" {
			fail("moduleset-build-failed", fmt.Sprintf("workspace %d (%s): building the module set failed: %v", idx, ws.Kind, err))
		}
		run.Eval()
		return
	}
	o = observe(ws, b)
	if o.unreportedCycle != "" {
		fail("cycle-not-reported", fmt.Sprintf("%s lies on a cycle of the direct dependencies ModuleDeps() returned without error", o.unreportedCycle))
	}
	impl := "mods=" + o.mods + "\tdeps=" + strings.Join(o.deps, ";") + "\tdag=" + o.dag + "\tls=" + o.ls
	nontrivial := len(b.ModuleSet.Modules()) > 1
	run.Case(line, impl, nontrivial)
	run.Count(fmt.Sprintf("modules:%d", len(b.ModuleSet.Modules())))
	run.Count("dag:" + strings.SplitN(o.dag, "/", 2)[0] + tf(strings.HasPrefix(o.dag, "err"), "/"+strings.TrimPrefix(o.dag, "err/"), ""))
	run.Count("ls:" + tf(o.lsOK, "ok", o.ls))
	for _, d := range o.deps {
		if strings.HasPrefix(d, "err/") {
			run.Count("deps:" + d)
		} else {
			run.Count("deps:ok")
		}
	}
	if idx < 3 {
		run.Sample(map[string]any{"input": line, "impl": impl})
	}

	// ---- oracle ----
	sel := expectedSelection(ws)
	byOID := map[string]bufmodule.Module{}
	for _, m := range b.ModuleSet.Modules() {
		byOID[m.OpaqueID()] = m
	}
	determined := true
	for oid, a := range sel {
		m := byOID[oid]
		if m == nil {
			// (a pin of some buf.lock, or a module directory, that never reached the module set)
			fail("selection-missing", fmt.Sprintf("OpaqueID %s was added but is not in the module set", oid))
			continue
		}
		if a == nil {
			determined = false
			continue
		}
		commit := 0
		if !m.IsLocal() {
			commit = b.CommitLabel[m.CommitID()]
		}
		if m.IsLocal() != a.Local {
			fail("local-over-remote", fmt.Sprintf("%s: expected local=%v got local=%v", oid, a.Local, m.IsLocal()))
		} else if m.IsTarget() != a.Target {
			fail("target-over-nontarget", fmt.Sprintf("%s: expected target=%v got %v", oid, a.Target, m.IsTarget()))
		} else if commit != ws.CommitRank(a) {
			fail("newest-commit", fmt.Sprintf("%s: expected commit %d got %d", oid, ws.CommitRank(a), commit))
		}
	}
	for oid := range byOID {
		if _, ok := sel[oid]; !ok {
			fail("selection-extra", fmt.Sprintf("module set has a module %s nobody added (%d modules for %d OpaqueIDs)", oid, len(byOID), len(sel)))
			break
		}
	}
	if !determined {
		return
	}
	g := newGraphOracle(sel)
	anyReachableCycle := false
	anyMustErr := false
	for oid := range sel {
		if byOID[oid] == nil {
			continue // reported as selection-missing; the modules that ARE there are still checked
		}
		reach, direct, mustErr, selfCycle := g.walk(oid)
		if sel[oid].Target && (selfCycle || mustErr) {
			anyMustErr = true
		}
		if ws.Locked && sel[oid].Target {
			for d := range reach {
				if ws.NonTargetOnlyPins[d] && !sel[d].Local {
					run.Count("locked:target-reaches-remote-pinned-only-by-non-target")
					break
				}
			}
		}
		_ = anyReachableCycle
		cls, isErr := o.depErr[oid]
		switch {
		case mustErr:
			if !isErr {
				fail("ambiguity-not-reported", fmt.Sprintf("%s: an unresolvable/duplicate path or empty module is involved but ModuleDeps succeeded", oid))
			}
		case selfCycle:
			if !isErr || cls != "cycle" {
				fail("cycle-not-reported", fmt.Sprintf("%s lies on an import cycle but ModuleDeps returned %q", oid, cls))
			}
		default:
			if isErr {
				fail("spurious-error", fmt.Sprintf("%s: clean acyclic-from-here graph but ModuleDeps failed with %s", oid, cls))
				continue
			}
			got := o.depSet[oid]
			for d := range reach {
				if _, ok := got[d]; !ok {
					fail("dep-missing", fmt.Sprintf("%s: reachable module %s missing from ModuleDeps %v (import statements leading to it: %s)", oid, d, got, ikLinksTo(sel, d)))
				}
			}
			for d, isDirect := range got {
				if !reach[d] {
					fail("dep-extra", fmt.Sprintf("%s: ModuleDeps lists %s which is not reachable through imports", oid, d))
				} else if isDirect != direct[d] {
					fail("direct-flag", fmt.Sprintf("%s: dep %s direct=%v, first-hop=%v", oid, d, isDirect, direct[d]))
				}
			}
		}
	}
	// workspace-level cycle reporting: a cycle / ambiguity below a target makes the DAG fail
	dagTargets := map[string]bool{}
	for oid, a := range sel {
		if a.Target {
			dagTargets[oid] = true
		}
	}
	mustDagErr := false
	{
		seen := map[string]bool{}
		var q []string
		for oid := range dagTargets {
			q = append(q, oid)
			seen[oid] = true
		}
		for len(q) > 0 {
			m := q[0]
			q = q[1:]
			reach, _, mustErr, selfCycle := g.walk(m)
			if mustErr || selfCycle {
				mustDagErr = true
			}
			for d := range reach {
				if !seen[d] {
					seen[d] = true
					q = append(q, d)
				}
			}
		}
	}
	_ = anyMustErr
	if mustDagErr && !strings.HasPrefix(o.dag, "err/") {
		fail("dag-cycle-not-reported", "a module reachable from a target lies on a cycle / has an ambiguous import, but ModuleSetToDAG succeeded")
	}
	if !mustDagErr && strings.HasPrefix(o.dag, "err/") {
		fail("dag-spurious-error", "ModuleSetToDAG failed with "+o.dag+" on a clean graph")
	}
	// ls-files vs build
	img, imgErr, hung := wsgen.BuildImageWatchdog(ctx, b.ModuleSet)
	if hung {
		fail("build-hang", "bufimage.BuildImage did not return within 20s")
		return
	}
	switch {
	case o.lsOK && imgErr == nil:
		run.Count("ls-vs-build:both-ok")
		got := map[string]bool{}
		for _, f := range img.Files() {
			got[f.Path()] = f.IsImport()
		}
		for p, isImp := range o.lsSet {
			gi, ok := got[p]
			if !ok {
				fail("lsfiles-extra", fmt.Sprintf("ls-files lists %s which build does not put in the image", p))
			} else if gi != isImp {
				fail("lsfiles-flag", fmt.Sprintf("%s: ls-files is_import=%v, image is_import=%v", p, isImp, gi))
			}
		}
		for p := range got {
			if _, ok := o.lsSet[p]; !ok {
				fail("lsfiles-missing", fmt.Sprintf("build puts %s in the image but ls-files does not list it", p))
			}
		}
	case o.lsOK && imgErr != nil:
		run.Count("ls-vs-build:ls-ok-build-err")
		if !ws.PlantedFileCycle && !errors.Is(imgErr, bufmodule.ErrNoTargetProtoFiles) {
			fail("lsfiles-ok-build-fails", fmt.Sprintf("ls-files succeeds but build fails: %v", imgErr))
		}
	case !o.lsOK && imgErr == nil:
		run.Count("ls-vs-build:ls-err-build-ok")
		if !ws.PlantedDup && !ws.PlantedNoProto && !ws.PlantedMissing {
			fail("lsfiles-fails-build-ok", "build succeeds but ls-files fails with "+o.ls)
		}
	default:
		run.Count("ls-vs-build:both-err")
	}
	return
}

// commitTie replays DESIGN §7 row 10: several remote commits of one module with EQUAL create
// times; the winner must not depend on Go map iteration order.
func commitTie(run *hx.Run) {
	mk := func(commit int) wsgen.Added {
		return wsgen.Added{Name: "buf.test/acme/tie", Commit: commit, CTime: 1700000000,
			Files: []wsgen.File{{Path: fmt.Sprintf("tie/c%d.proto", commit)}}}
	}
	ws := &wsgen.WS{Kind: "mem", Added: []wsgen.Added{
		{Dir: "d0", Local: true, Target: true, Files: []wsgen.File{{Path: "a/x.proto"}}},
		mk(1), mk(2), mk(3), mk(4),
	}}
	winners := map[int]int{}
	for i := 0; i < 60; i++ {
		b, err := ws.BuildMem(ctx)
		if err != nil {
			run.Fail(hx.OracleFailure{Class: "moduleset-build-failed", What: "commit-tie workspace: " + err.Error(), Input: ws.Line(), Replay: "build/c10 (always runs the tie replay)"})
			return
		}
		for _, m := range b.ModuleSet.Modules() {
			if !m.IsLocal() {
				winners[b.CommitLabel[m.CommitID()]]++
			}
		}
		run.Eval()
	}
	run.Set("commit_tie_winners", winners)
	run.Count(fmt.Sprintf("commit-tie:distinct-winners=%d", len(winners)))
	if len(winners) > 1 {
		run.Fail(hx.OracleFailure{Class: "remote-commit-tie-arbitrary",
			What:   fmt.Sprintf("4 remote commits of one module with equal create times: 60 identical ModuleSetBuilder runs selected %d different commits %v (Go map iteration order in selectRemoteAddedModuleForOpaqueIDIgnoreTargeting)", len(winners), winners),
			Input:  ws.Line(),
			Replay: "build/c10 --seed 1 --tier quick --out /tmp/c10-replay (the tie replay runs at the end of every run)"})
	}
}
