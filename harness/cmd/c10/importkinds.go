package main

// Family K: IMPORT MODIFIERS (strengthening round 6-E; seeds C10-m10 / C08-m9 made
// getModuleDepsRec skip `import weak` statements and went unnoticed because no generated
// workspace contained a weak import, and a public one was never the only link between modules).
//
// Part 1 (stratified, wsgen.GenModifierFamily): every member of the family - plain / public / weak
// as the ONLY link between two modules, in chains with every pair of modifiers, the same
// dependency imported with different modifiers from two files, several modifiers in one import
// list, a well-known type (built-in, and vendored by a workspace module), an import nobody
// provides (directly and in a dependency), an import inside one module, a module cycle closed by
// each modifier, a diamond, direct-and-transitive, a weak edge into a cycle - built in memory
// (dependencies sometimes remote modules), as a v2 workspace and (a third of the members per
// run) as buf.work.yaml + v1 modules.  Each goes through oneCase (protocol line vs the Lean model,
// the generic reachability oracle, DAG, ls-files vs build) AND is compared with the hand-written
// expectation of its shape (classes import-kind-*), which does not depend on the modifiers.
// Part 2: the v2 members are handed to the real `buf dep graph` (dot and json): nodes and edges
// exact, failure when an import is unprovided / a cycle is closed (classes
// dep-graph-import-kind-*).
// Part 3: random workspaces of the ordinary generator with Opts.ImportModifiers (every import's
// modifier re-drawn: 1/3 weak, 1/4 public), through oneCase.
//
// Case indexes: 2000000 + 1000*kind + member (kind 0 = mem, 1 = v2, 2 = v1), 2100000 + j for the
// random workspaces; `--only <index>` replays one (a disk workspace is then kept under
// <out>/ik/<index>).

import (
	"bytes"
	"encoding/json"
	"fmt"
	"os"
	"os/exec"
	"path/filepath"
	"regexp"
	"sort"
	"strconv"
	"strings"
	"sync"

	"github.com/bufbuild/verifharness/internal/hx"
	"github.com/bufbuild/verifharness/internal/wsgen"
)

const (
	ikBase     = 2000000
	ikRandBase = ikBase + 100000
)

var ikKinds = []string{"mem", "v2", "v1"}

func ikReplay(run *hx.Run, idx int) string {
	return fmt.Sprintf("build/c10 --seed %d --tier %s --only %d --out /tmp/c10-replay", run.Seed, run.Tier, idx)
}

// ikSources renders the workspace as the user would see it: module -> file -> source text.
func ikSources(ws *wsgen.WS) map[string]map[string]string {
	out := map[string]map[string]string{}
	for i := range ws.Added {
		a := &ws.Added[i]
		key := a.OID()
		if !a.Local {
			key += "#" + strconv.Itoa(a.Commit)
		}
		fs := map[string]string{}
		for j := range a.Files {
			src, _, _ := a.Files[j].Source()
			fs[a.Files[j].Path] = src
		}
		out[key] = fs
	}
	return out
}

// ikLinks describes, for the message of a failure, the import statements of module `from` that
// lead to a file of module `to`.
func ikLinks(ws *wsgen.WS, from, to string) string {
	provides := map[string]bool{}
	for i := range ws.Added {
		if ws.Added[i].OID() == to {
			for _, f := range ws.Added[i].Files {
				provides[f.Path] = true
			}
		}
	}
	var out []string
	for i := range ws.Added {
		if ws.Added[i].OID() != from {
			continue
		}
		for _, f := range ws.Added[i].Files {
			for _, imp := range f.Imports {
				if provides[imp.Path] {
					out = append(out, fmt.Sprintf("%s: import %s %q", f.Path, wsgen.ModName(imp.Mod()), imp.Path))
				}
			}
		}
	}
	sort.Strings(out)
	return strings.Join(out, "; ")
}

// ikLinksTo lists the import statements of the selected modules that lead to a file of module `to`.
func ikLinksTo(sel map[string]*wsgen.Added, to string) string {
	provides := map[string]bool{}
	if a := sel[to]; a != nil {
		for _, f := range a.Files {
			provides[f.Path] = true
		}
	}
	var out []string
	for oid, a := range sel {
		if oid == to || a == nil {
			continue
		}
		for _, f := range a.Files {
			for _, imp := range f.Imports {
				if provides[imp.Path] {
					out = append(out, fmt.Sprintf("%s %s: import %s %q", oid, f.Path, wsgen.ModName(imp.Mod()), imp.Path))
				}
			}
		}
	}
	sort.Strings(out)
	return strings.Join(out, "; ")
}

// ikUnprovidedMods lists the modifiers of the imports of nobody's file in module oid.
func ikUnprovidedMods(ws *wsgen.WS, oid string) string {
	set := map[string]bool{}
	for i := range ws.Added {
		for _, f := range ws.Added[i].Files {
			for _, imp := range f.Imports {
				if imp.Path == "missing/none.proto" {
					set[wsgen.ModName(imp.Mod())] = true
				}
			}
		}
	}
	var out []string
	for m := range set {
		out = append(out, m)
	}
	sort.Strings(out)
	return strings.Join(out, "+")
}

// ikExpectDag is the expectation for ModuleSetToDAG / `buf dep graph`: an error when a module
// reachable from a target has no ModuleDeps(), otherwise the reachable nodes and the direct edges.
func ikExpectDag(m *wsgen.ModMember) (mustErr bool, nodes map[string]bool, edges map[string]bool) {
	nodes, edges = map[string]bool{}, map[string]bool{}
	for i := range m.WS.Added {
		a := &m.WS.Added[i]
		if !a.Target {
			continue
		}
		t := a.OID()
		closure := []string{t}
		for d := range m.ExpDeps[t] {
			closure = append(closure, d)
		}
		for _, x := range closure {
			if _, bad := m.ExpErr[x]; bad {
				mustErr = true
			}
			nodes[x] = true
			for d, direct := range m.ExpDeps[x] {
				if direct {
					edges[x+" -> "+d] = true
				}
			}
		}
	}
	return
}

func ikRender(m map[string]bool) string {
	var xs []string
	for x := range m {
		xs = append(xs, x)
	}
	sort.Strings(xs)
	return strings.Join(xs, "; ")
}

// ikCheck compares what oneCase observed with the expectation of the member's shape.
func ikCheck(run *hx.Run, idx int, m *wsgen.ModMember, o *observed, berr error) {
	ws := m.WS
	fail := func(class, what string) {
		run.Fail(hx.OracleFailure{Class: class, What: fmt.Sprintf("workspace %d (%s, member %s): %s", idx, ws.Kind, m.Label, what),
			Input: map[string]any{"member": m.Label, "kind": ws.Kind, "modules": m.Letters, "expected_deps": m.ExpDeps, "expected_errors": m.ExpErr,
				"sources": ikSources(ws), "line": "ws\t" + ws.Line()},
			Replay: ikReplay(run, idx)})
	}
	if berr != nil {
		c := errClass(berr)
		expected := false
		for _, e := range m.ExpErr {
			expected = expected || e == c
		}
		if ws.Kind == "mem" || !expected {
			fail("import-kind-workspace-build-failed", fmt.Sprintf("building the module set failed: %v", berr))
		}
		return
	}
	if o == nil {
		return // a panic, already reported by oneCase
	}
	var oids []string
	for _, oid := range m.Letters {
		oids = append(oids, oid)
	}
	sort.Strings(oids)
	for _, oid := range oids {
		cls, isErr := o.depErr[oid]
		if want, ok := m.ExpErr[oid]; ok {
			switch {
			case !isErr && want == "noimport":
				mods := ikUnprovidedMods(ws, oid)
				class := "import-kind-unprovided-accepted"
				if mods == "weak" {
					class = "import-kind-unprovided-weak-accepted"
				}
				fail(class, fmt.Sprintf("module %s reaches an `import %s \"missing/none.proto\"` that no module provides (and that is no well-known type), but ModuleDeps() succeeded with %v", oid, mods, o.depSet[oid]))
			case !isErr:
				fail("import-kind-cycle-not-reported", fmt.Sprintf("module %s lies on a module cycle (%s), but ModuleDeps() succeeded with %v", oid, m.Label, o.depSet[oid]))
			case cls != want:
				fail("import-kind-error-class", fmt.Sprintf("module %s: ModuleDeps() failed with %q, expected %q", oid, cls, want))
			}
			continue
		}
		want := m.ExpDeps[oid]
		if isErr {
			fail("import-kind-spurious-error", fmt.Sprintf("module %s: every import resolves and the module lies on no cycle, but ModuleDeps() failed with %q", oid, cls))
			continue
		}
		got := o.depSet[oid]
		for d, direct := range want {
			gd, ok := got[d]
			switch {
			case !ok && direct:
				fail("import-kind-dep-missing", fmt.Sprintf("module %s imports module %s (%s), but ModuleDeps() = %v does not list it", oid, d, ikLinks(ws, oid, d), got))
			case !ok:
				fail("import-kind-dep-missing", fmt.Sprintf("module %s reaches module %s through its dependencies, but ModuleDeps() = %v does not list it", oid, d, got))
			case gd != direct:
				fail("import-kind-direct-flag", fmt.Sprintf("module %s: dependency %s has IsDirect=%v, expected %v (%s)", oid, d, gd, direct, ikLinks(ws, oid, d)))
			}
		}
		for d := range got {
			if _, ok := want[d]; !ok {
				fail("import-kind-dep-extra", fmt.Sprintf("module %s: ModuleDeps() lists %s, which no import statement leads to", oid, d))
			}
		}
	}
	// ModuleSetToDAG: exact nodes and edges
	mustErr, nodes, edges := ikExpectDag(m)
	switch {
	case mustErr && !strings.HasPrefix(o.dag, "err/"):
		fail("import-kind-dag-error-missing", "a module reachable from a target has an unprovided import / lies on a cycle, but ModuleSetToDAG succeeded: "+o.dag)
	case !mustErr && strings.HasPrefix(o.dag, "err/"):
		fail("import-kind-spurious-error", "ModuleSetToDAG failed with "+o.dag+" on a clean member")
	case !mustErr:
		ranks := ws.OIDRanks()
		var ns, es []string
		var nr []int
		for n := range nodes {
			nr = append(nr, ranks[n])
		}
		sort.Ints(nr)
		for _, n := range nr {
			ns = append(ns, strconv.Itoa(n))
		}
		type edge struct{ a, b int }
		var er []edge
		for e := range edges {
			p := strings.SplitN(e, " -> ", 2)
			er = append(er, edge{ranks[p[0]], ranks[p[1]]})
		}
		sort.Slice(er, func(i, j int) bool {
			if er[i].a != er[j].a {
				return er[i].a < er[j].a
			}
			return er[i].b < er[j].b
		})
		for _, e := range er {
			es = append(es, fmt.Sprintf("%d>%d", e.a, e.b))
		}
		if want := "ok/" + strings.Join(ns, ",") + "|" + strings.Join(es, ","); o.dag != want {
			fail("import-kind-dag-not-exact", fmt.Sprintf("ModuleSetToDAG gives %s, the import statements give %s (OpaqueID ranks %v)", o.dag, want, ranks))
		}
	}
}

type ikPending struct {
	idx  int
	m    *wsgen.ModMember
	root string
}

type ikBinResult struct {
	failures [][2]string
	evals    int
}

var (
	ikDotEdge = regexp.MustCompile(`^\s*"([^"]+)" -> "([^"]+)"`)
	ikDotNode = regexp.MustCompile(`^\s*"([^"]+)"\s*$`)
)

// ikBinary runs the real `buf dep graph` (dot and json) on one v2 member.
func ikBinary(bufBin, home, cache string, p ikPending) *ikBinResult {
	res := &ikBinResult{}
	fail := func(class, what string) { res.failures = append(res.failures, [2]string{class, what}) }
	runBuf := func(args ...string) (string, string, int) {
		cmd := exec.Command(bufBin, args...)
		cmd.Dir = p.root
		cmd.Env = append(os.Environ(), "HOME="+home, "BUF_CACHE_DIR="+cache)
		var so, se bytes.Buffer
		cmd.Stdout, cmd.Stderr = &so, &se
		err := cmd.Run()
		code := 0
		if ee, ok := err.(*exec.ExitError); ok {
			code = ee.ExitCode()
		} else if err != nil {
			code = -1
		}
		res.evals++
		return so.String(), se.String(), code
	}
	mustErr, nodes, edges := ikExpectDag(p.m)
	want := map[string]bool{}
	for n := range nodes {
		want[n] = true
	}
	for e := range edges {
		want[e] = true
	}
	judge := func(format string, got map[string]bool, se string, code int) {
		if mustErr {
			if code == 0 {
				class := "dep-graph-import-kind-cycle-accepted"
				for _, e := range p.m.ExpErr {
					if e == "noimport" {
						class = "dep-graph-import-kind-unprovided-accepted"
					}
				}
				fail(class, fmt.Sprintf("`buf dep graph%s` exits 0 and prints [%s] although %s", format, ikRender(got), ikWhy(p.m)))
			}
			return
		}
		if code != 0 {
			fail("dep-graph-import-kind-cli-failed", fmt.Sprintf("`buf dep graph%s`: exit %d, stderr %.300q", format, code, se))
			return
		}
		missing := false
		for x := range want {
			if !got[x] {
				missing = true
			}
		}
		if missing {
			fail("dep-graph-import-kind-edge-missing", fmt.Sprintf("`buf dep graph%s` prints [%s]; the import statements give [%s]", format, ikRender(got), ikRender(want)))
		} else if ikRender(got) != ikRender(want) {
			fail("dep-graph-import-kind-not-exact", fmt.Sprintf("`buf dep graph%s` prints [%s]; the import statements give [%s]", format, ikRender(got), ikRender(want)))
		}
	}
	// dot
	so, se, code := runBuf("dep", "graph")
	got := map[string]bool{}
	for _, l := range strings.Split(so, "\n") {
		if mt := ikDotEdge.FindStringSubmatch(l); mt != nil {
			got[mt[1]+" -> "+mt[2]] = true
			got[mt[1]], got[mt[2]] = true, true
		} else if mt := ikDotNode.FindStringSubmatch(l); mt != nil {
			got[mt[1]] = true
		}
	}
	judge("", got, se, code)
	// json
	so, se, code = runBuf("dep", "graph", "--format", "json")
	got = map[string]bool{}
	var mods []jsonModule
	if code == 0 {
		if err := json.Unmarshal([]byte(so), &mods); err != nil {
			fail("dep-graph-import-kind-cli-failed", "`buf dep graph --format json`: "+err.Error())
			return res
		}
		var walk func(jm jsonModule)
		walk = func(jm jsonModule) {
			got[jm.Name] = true
			for _, d := range jm.Deps {
				got[jm.Name+" -> "+d.Name] = true
				walk(d)
			}
		}
		for _, jm := range mods {
			walk(jm)
		}
	}
	judge(" --format json", got, se, code)
	return res
}

func ikWhy(m *wsgen.ModMember) string {
	var xs []string
	for oid, e := range m.ExpErr {
		switch e {
		case "noimport":
			xs = append(xs, fmt.Sprintf("module %s reaches an import nobody provides", oid))
		case "cycle":
			xs = append(xs, fmt.Sprintf("module %s lies on a module cycle", oid))
		}
	}
	sort.Strings(xs)
	return strings.Join(xs, ", ")
}

func importKindFamily(run *hx.Run, rnd *hx.Rand, tmpRoot string, bufBin string) {
	if err := os.MkdirAll(tmpRoot, 0o755); err != nil {
		panic(err)
	}
	n := wsgen.ModifierFamilySize()
	var bins []ikPending
	for ki, kind := range ikKinds {
		for k := 0; k < n; k++ {
			idx := ikBase + 1000*ki + k
			if run.Only >= 0 && idx != run.Only {
				continue
			}
			// buf.work.yaml + v1: a third of the members per run in the quick tier (which third
			// depends on the seed), all of them in the thorough tier and when asked for by index
			if kind == "v1" && run.Only < 0 && !run.Thorough() && (k+int(run.Seed%3))%3 != 0 {
				continue
			}
			m := wsgen.GenModifierFamily(rnd.Fork(uint64(idx-ikBase)), k, kind)
			root := filepath.Join(tmpRoot, strconv.Itoa(idx))
			cli := kind == "v2" && bufBin != "" && m.AllLocal
			keepCaseDir = cli || run.Only >= 0
			o, berr := oneCase(run, idx, m.WS, root)
			keepCaseDir = false
			ikCheck(run, idx, m, o, berr)
			run.Count("ik:kind:" + kind)
			run.Count("ik:shape:" + m.Shape)
			for _, t := range m.Tags {
				run.Count("ik:" + t)
			}
			if !m.AllLocal {
				run.Count("ik:with-remote-dependency")
			}
			if cli {
				bins = append(bins, ikPending{idx, m, root})
			}
		}
	}
	// Part 2: the real binary, 8 processes at a time, one cache directory per worker (a shared
	// BUF_CACHE_DIR races on the well-known-types cache); counters are touched afterwards
	home := filepath.Join(tmpRoot, "home")
	_ = os.MkdirAll(home, 0o755)
	results := make([]*ikBinResult, len(bins))
	var wg sync.WaitGroup
	next := make(chan int, len(bins))
	for i := range bins {
		next <- i
	}
	close(next)
	for w := 0; w < 8; w++ {
		wg.Add(1)
		cache := filepath.Join(home, "cache"+strconv.Itoa(w))
		go func() {
			defer wg.Done()
			for i := range next {
				func() {
					defer func() {
						if p := recover(); p != nil {
							results[i] = &ikBinResult{failures: [][2]string{{"panic", fmt.Sprint(p)}}}
						}
					}()
					results[i] = ikBinary(bufBin, home, cache, bins[i])
				}()
			}
		}()
	}
	wg.Wait()
	for i, res := range results {
		p := bins[i]
		run.Count("ik:dep-graph-binary")
		run.Distinct("ik-depgraph-" + p.m.Label)
		for j := 0; j < res.evals; j++ {
			run.Eval()
		}
		for _, f := range res.failures {
			run.Fail(hx.OracleFailure{Class: f[0], What: fmt.Sprintf("workspace %d (v2, member %s): %s", p.idx, p.m.Label, f[1]),
				Input: map[string]any{"member": p.m.Label, "modules": p.m.Letters, "expected_deps": p.m.ExpDeps, "expected_errors": p.m.ExpErr, "sources": ikSources(p.m.WS)},
				Replay: ikReplay(run, p.idx) + fmt.Sprintf(" (keeps the workspace under /tmp/c10-replay/ik/%d; run `buf dep graph` there)", p.idx)})
		}
		if run.Only < 0 {
			os.RemoveAll(p.root)
		}
	}
	// Part 3: random workspaces with re-drawn modifiers
	nRand := run.N(150, 600)
	for j := 0; j < nRand; j++ {
		idx := ikRandBase + j
		if run.Only >= 0 && idx != run.Only {
			continue
		}
		r := rnd.Fork(uint64(idx - ikBase))
		kind := "mem"
		if j%5 == 4 {
			kind = tf(r.Bool(), "v2", "v1")
		}
		ws := wsgen.Gen(r, wsgen.Opts{Kind: kind, Faults: true, CommitTies: true, ImportModifiers: true})
		oneCase(run, idx, ws, filepath.Join(tmpRoot, strconv.Itoa(idx)))
		run.Count("ik:random-workspace")
		for i := range ws.Added {
			for _, f := range ws.Added[i].Files {
				for _, imp := range f.Imports {
					run.Count("ik:random-import:" + wsgen.ModName(imp.Mod()))
				}
			}
		}
	}
	if run.Only < 0 {
		os.RemoveAll(tmpRoot)
	}
}
