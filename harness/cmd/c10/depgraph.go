package main

// `buf dep graph` through the built binary: the dependencies REPORTED to the user (dot and
// json formats) must be exactly the direct inter-module import edges, in both formats.
// Oracle only (the edge set of ModuleSetToDAG is what the Lean model's toDAG is compared with
// on every workspace line; this part covers the command's own rendering of it).

import (
	"bytes"
	"encoding/json"
	"fmt"
	"os"
	"os/exec"
	"path/filepath"
	"regexp"
	"sort"
	"strconv"
	"strings"

	"github.com/bufbuild/verifharness/internal/hx"
)

type jsonModule struct {
	Name string       `json:"name"`
	Deps []jsonModule `json:"deps"`
}

// buildBuf builds the real `buf` binary of the repository under check once per run.
func buildBuf(run *hx.Run, tmpRoot string) string {
	repo := os.Getenv("VERIF_REPO")
	if repo == "" {
		repo = "/repo"
	}
	if err := os.MkdirAll(tmpRoot, 0o755); err != nil {
		panic(err)
	}
	bufBin := filepath.Join(tmpRoot, "buf-depgraph")
	cmd := exec.Command("go", "build", "-o", bufBin, "./cmd/buf")
	cmd.Dir = repo
	cmd.Env = append(os.Environ(), "GOPROXY=off", "GOFLAGS=-mod=mod")
	if out, err := cmd.CombinedOutput(); err != nil {
		run.Fail(hx.OracleFailure{Class: "buf-binary-does-not-build", What: string(out), Replay: "go build ./cmd/buf"})
		return ""
	}
	return bufBin
}

func depGraphCLI(run *hx.Run, rnd *hx.Rand, tmpRoot string, bufBin string) {
	must0 := func(err error) {
		if err != nil {
			panic(err)
		}
	}
	must0(os.MkdirAll(tmpRoot, 0o755))
	if bufBin == "" {
		return
	}
	n := run.N(25, 300)
	rp := fmt.Sprintf("build/c10 --out /tmp/c10-replay --seed %d --tier %s", run.Seed, run.Tier)
	dotEdge := regexp.MustCompile(`^\s*"([^"]+)" -> "([^"]+)"`)
	dotNode := regexp.MustCompile(`^\s*"([^"]+)"\s*$`)
	for i := 0; i < n; i++ {
		r := rnd.Fork(uint64(i))
		nm := 2 + r.Intn(6)
		names := make([]string, nm)
		for j := range names {
			names[j] = fmt.Sprintf("m%c", 'a'+j)
		}
		// shuffle the directory names so that alphabetical order and import order are unrelated
		hx.Shuffle(r, names)
		dir := filepath.Join(tmpRoot, "dg"+strconv.Itoa(i))
		var yaml strings.Builder
		yaml.WriteString("version: v2\nmodules:\n")
		want := map[string]map[string]bool{}
		for j, name := range names {
			yaml.WriteString("  - path: " + name + "\n")
			want[name] = map[string]bool{}
			must0(os.MkdirAll(filepath.Join(dir, name, name), 0o755))
			var src strings.Builder
			src.WriteString("syntax = \"proto3\";\npackage " + name + ";\n")
			var fields []string
			// module j may import modules listed before it (a DAG), several at once
			for k := 0; k < j; k++ {
				if r.Chance(2, 5) {
					dep := names[k]
					src.WriteString(fmt.Sprintf("import \"%s/%s.proto\";\n", dep, dep))
					fields = append(fields, fmt.Sprintf("  %s.M f%d = %d;\n", dep, k+1, k+1))
					want[name][dep] = true
				}
			}
			src.WriteString("message M {\n" + strings.Join(fields, "") + "}\n")
			must0(os.WriteFile(filepath.Join(dir, name, name, name+".proto"), []byte(src.String()), 0o644))
		}
		must0(os.WriteFile(filepath.Join(dir, "buf.yaml"), []byte(yaml.String()), 0o644))
		runBuf := func(args ...string) (string, string, int) {
			c := exec.Command(bufBin, args...)
			c.Dir = dir
			c.Env = append(os.Environ(), "HOME="+tmpRoot, "BUF_CACHE_DIR="+filepath.Join(tmpRoot, "cache"))
			var so, se bytes.Buffer
			c.Stdout, c.Stderr = &so, &se
			err := c.Run()
			code := 0
			if ee, ok := err.(*exec.ExitError); ok {
				code = ee.ExitCode()
			} else if err != nil {
				code = -1
			}
			run.Eval()
			return so.String(), se.String(), code
		}
		render := func(m map[string]map[string]bool) string {
			var es []string
			for a, ds := range m {
				if len(ds) == 0 {
					es = append(es, a)
				}
				for d := range ds {
					es = append(es, a+"->"+d)
				}
			}
			sort.Strings(es)
			return strings.Join(es, " ")
		}
		in := map[string]any{"modules": names, "edges": render(want)}
		run.Distinct("depgraph-" + render(want))
		run.Count(fmt.Sprintf("depgraph:modules=%d", nm))
		// json
		so, se, code := runBuf("dep", "graph", "--format", "json")
		gotJSON := map[string]map[string]bool{}
		var mods []jsonModule
		if code != 0 || json.Unmarshal([]byte(so), &mods) != nil {
			run.Fail(hx.OracleFailure{Class: "dep-graph-cli-failed", What: fmt.Sprintf("buf dep graph --format json: exit %d, stderr %.300q", code, se), Input: in, Replay: rp})
		} else {
			var walk func(m jsonModule)
			walk = func(m jsonModule) {
				if gotJSON[m.Name] == nil {
					gotJSON[m.Name] = map[string]bool{}
				}
				for _, d := range m.Deps {
					gotJSON[m.Name][d.Name] = true
					walk(d)
				}
			}
			for _, m := range mods {
				walk(m)
			}
			if render(gotJSON) != render(want) {
				run.Fail(hx.OracleFailure{Class: "dep-graph-json-not-exact", What: fmt.Sprintf("buf dep graph --format json reports the dependencies [%s]; the import statements give [%s]", render(gotJSON), render(want)), Input: in, Replay: rp})
			}
		}
		// dot
		so, se, code = runBuf("dep", "graph")
		gotDot := map[string]map[string]bool{}
		if code != 0 {
			run.Fail(hx.OracleFailure{Class: "dep-graph-cli-failed", What: fmt.Sprintf("buf dep graph: exit %d, stderr %.300q", code, se), Input: in, Replay: rp})
		} else {
			for _, l := range strings.Split(so, "\n") {
				if m := dotEdge.FindStringSubmatch(l); m != nil {
					if gotDot[m[1]] == nil {
						gotDot[m[1]] = map[string]bool{}
					}
					if gotDot[m[2]] == nil {
						gotDot[m[2]] = map[string]bool{}
					}
					gotDot[m[1]][m[2]] = true
				} else if m := dotNode.FindStringSubmatch(l); m != nil {
					if gotDot[m[1]] == nil {
						gotDot[m[1]] = map[string]bool{}
					}
				}
			}
			if render(gotDot) != render(want) {
				run.Fail(hx.OracleFailure{Class: "dep-graph-dot-not-exact", What: fmt.Sprintf("buf dep graph reports [%s]; the import statements give [%s]", render(gotDot), render(want)), Input: in, Replay: rp})
			}
		}
		os.RemoveAll(dir)
	}
}
